/-
The generator at the ROOT struct pair of a method with simple field settings (`goverter:ignore F`, `goverter:map Src F`) on its own
target struct: `structFields` / `structAssign` / `noLookup` are simulated by the reference generator `genFCfg`; below the root the
settings do not apply (they are scoped to `FieldsTarget`) and `Gv.Gen.conv_struct_fragment` takes over.
Property statements: `Gv.Props.C05.C05_fields_fragment*`.
-/
import Gv.Proofs.GenFragment
import Gv.Spec.ConvertibleCfg
import Gv.Model.PlanCheckU

namespace Gv.Gen
open Gv Gv.Str Gv.Spec Gv.PlanCheck Gv.Eval

/-! ### `map Src F` with a plain field name -/

theorem splitOn_nodot : ∀ (s : S), s.contains '.' = false → splitOn '.' s = [s]
  | [], _ => rfl
  | x :: xs, h => by
    simp only [List.contains_cons, Bool.or_eq_false_iff] at h
    have hx : (x == '.') = false := by
      cases hb : (x == '.') with
      | false => rfl
      | true => have := eq_of_beq hb; subst this; simp at h
    simp only [splitOn, hx, Bool.false_eq_true, if_false, splitOn_nodot xs h.2]

/-- the settings of the struct rule at the root: everything of `StructPlain` except "no field settings here" -/
structure RootPlain (cx : Ctx) (st : GState) : Prop where
  noIgnoreCase : cx.cfg.common.matchIgnoreCase = false
  noIgnoreMissing : cx.cfg.common.ignoreMissing = false
  autoMap : cx.cfg.autoMap = []
  noUpdate : cx.updateTarget = false
  noRaw : RawOK cx st

theorem mapField_cfg (c : Converter) (cx : Ctx) (st : GState) (rp : RootPlain cx st) (t : Ty) (sfs : Fields) (name : S)
    (hsf : inFSFields sfs = true) (hdot : (fieldCfgOf cx t name).source.contains '.' = false) :
    mapField c cx t name (.struct sfs) [] =
      (match fieldTy sfs (srcName (fieldCfgOf cx t name) name) with
       | some sty => .ok (some { path := [srcName (fieldCfgOf cx t name) name], derefs := [false], guarded := false,
                                 leafIsPtr := isPtrTy sty, nextSource := sty })
       | none => .error (if (fieldCfgOf cx t name).source.isEmpty then .noMatch else .cannotFind)) := by
  unfold mapField
  generalize fieldCfgOf cx t name = fc at hdot ⊢
  have hne : (fc.source == ['.']) = false := by
    cases hb : (fc.source == ['.']) with
    | false => rfl
    | true => have := eq_of_beq hb; rw [this] at hdot; simp at hdot
  simp only [hne, Bool.false_eq_true, if_false]
  by_cases hemp : fc.source.isEmpty = true
  · simp only [srcName, hemp, if_true]
    cases hf : fieldTy sfs name with
    | none =>
      simp [rp.noIgnoreCase, rp.noIgnoreMissing, findField_struct, hf, bind, Except.bind, throw, throwThe, MonadExceptOf.throw]
    | some sty =>
      have hsty := inFS_fieldTy hsf hf
      have hw : walkPath c [name] (.struct sfs) [] false = .ok (sty, [false], false, none) := by
        simp [walkPath, isPtr, isStruct, under, findExactField_struct, hf]
      simp [rp.noIgnoreCase, findField_struct, hf, hw, bind, Except.bind, pure, Except.pure]
      cases sty <;> simp [inFS] at hsty <;> simp [under, isPtr, isPtrTy]
  · have hemp' : fc.source.isEmpty = false := by simpa using hemp
    simp only [srcName, hemp', Bool.false_eq_true, if_false, splitOn_nodot fc.source hdot]
    cases hf : fieldTy sfs fc.source with
    | none =>
      simp [walkPath, isPtr, isStruct, under, findExactField_struct, hf, bind, Except.bind, pure, Except.pure]
    | some sty =>
      have hsty := inFS_fieldTy hsf hf
      have hw : walkPath c [fc.source] (.struct sfs) [] false = .ok (sty, [false], false, none) := by
        simp [walkPath, isPtr, isStruct, under, findExactField_struct, hf]
      simp [hw, bind, Except.bind, pure, Except.pure]
      cases sty <;> simp [inFS] at hsty <;> simp [under, isPtr, isPtrTy]

/-! ### one target field at the root -/

theorem structFields_cons_ignore (c : Converter) (f : Nat) (cx : Ctx) (st : GState) (iu pp : Bool) (s t : Ty) (path : List PathElem)
    (fi : FieldInfo) (fty : Ty) (rest : List (FieldInfo × Ty)) (hi : (fieldCfgOf cx t fi.name).ignore = true) :
    structFields c (f+1) cx iu pp s t path [] ((fi, fty) :: rest) st =
      (match structFields c f cx iu pp s t path [] rest st with
       | .error d => .error d
       | .ok (more, st2) => .ok (FieldPlan.skip fi.name :: more, st2)) := by
  conv => lhs; unfold structFields
  simp [hi, bind, StateT.bind, Except.bind, pure, StateT.pure, Except.pure]
  generalize structFields c f cx iu pp s t path [] rest st = r
  rcases r with _ | ⟨_, _⟩ <;> rfl

theorem structFields_cons_cfg (c : Converter) (f : Nat) (cx : Ctx) (st : GState) (rp : RootPlain cx st) (pp : Bool)
    (sfs : Fields) (t : Ty) (path : List PathElem) (fi : FieldInfo) (fty : Ty) (rest : List (FieldInfo × Ty))
    (hsf : inFSFields sfs = true) (hex : fi.exported = true)
    (hi : (fieldCfgOf cx t fi.name).ignore = false) (hfn : (fieldCfgOf cx t fi.name).function = none)
    (hdot : (fieldCfgOf cx t fi.name).source.contains '.' = false) :
    structFields c (f+1) cx false pp (.struct sfs) t path [] ((fi, fty) :: rest) st =
      (match fieldTy sfs (srcName (fieldCfgOf cx t fi.name) fi.name) with
       | none => .error (if (fieldCfgOf cx t fi.name).source.isEmpty then .noMatch else .cannotFind)
       | some sty =>
         match conv c f cx (.assign false false) false sty fty (path ++ [.field fi.name]) st with
         | .error d => .error d
         | .ok (cv, st1) =>
           match structFields c f cx false pp (.struct sfs) t path [] rest st1 with
           | .error d => .error d
           | .ok (more, st2) =>
             .ok (FieldPlan.mapped fi.name [srcName (fieldCfgOf cx t fi.name) fi.name] [false] false (isPtrTy sty) cv .none :: more,
                  st2)) := by
  conv => lhs; unfold structFields
  simp only [hi, hfn, mapField_cfg c cx st rp t sfs fi.name hsf hdot]
  cases hf : fieldTy sfs (srcName (fieldCfgOf cx t fi.name) fi.name) with
  | none =>
    simp [hex, fieldAccessible, fail, bind, StateT.bind, Except.bind, pure, StateT.pure, Except.pure, throw, throwThe, MonadExceptOf.throw,
      StateT.lift]
  | some sty =>
    simp [hex, fieldAccessible, structMethodCall, shouldCheckZero, rp.noUpdate, fail, bind, StateT.bind, Except.bind, pure, StateT.pure,
      Except.pure]
    generalize conv c f cx (Mode.assign false false) false sty fty (path ++ [PathElem.field fi.name]) st = r
    rcases r with _ | ⟨cv, st1⟩
    · rfl
    · simp only []
      generalize structFields c f cx false pp (Ty.struct sfs) t path [] rest st1 = r2
      rcases r2 with _ | ⟨_, _⟩ <;> rfl

/-! ### the reference generator at the root -/

/-- the field plans at the root, in target-field order: `.skip` for an ignored field, else the (renamed or same-named) source
field through the reference generator of the fragment -/
def genFieldsCfg (z : Bool) (cfg : List (S × FieldCfg)) (sfs : Fields) : Fields → Except Diag (List FieldPlan)
  | .nil => .ok []
  | .cons f ty rest =>
    if (cfgOf cfg f.name).ignore then
      match genFieldsCfg z cfg sfs rest with
      | .error d => .error d
      | .ok more => .ok (FieldPlan.skip f.name :: more)
    else
      match fieldTy sfs (srcName (cfgOf cfg f.name) f.name) with
      | none => .error (if (cfgOf cfg f.name).source.isEmpty then .noMatch else .cannotFind)
      | some sty =>
        match genF z true sty ty with
        | .error d => .error d
        | .ok cv =>
          match genFieldsCfg z cfg sfs rest with
          | .error d => .error d
          | .ok more =>
            .ok (FieldPlan.mapped f.name [srcName (cfgOf cfg f.name) f.name] [false] false (isPtrTy sty) cv .none :: more)

/-- the plan of the root struct pair: the empty-struct shortcut of the Struct rule, else the field plans, then the
unknown-field check over all configured names -/
def genFCfg (z : Bool) (cfg : List (S × FieldCfg)) (asg : Bool) (sfs tfs : Fields) : Except Diag Conv :=
  if !asg && sfs.length == 0 && tfs.length == 0 then .ok .ident
  else
    match genFieldsCfg z cfg sfs tfs with
    | .error d => .error d
    | .ok ps => if cfgKnown cfg tfs then .ok (.structc (FieldPlans.ofList ps) false) else .error .unknownField

theorem cfgOf_simple {cfg : List (S × FieldCfg)} (h : simpleCfg cfg = true) (n : S) :
    (cfgOf cfg n).function = none ∧ (cfgOf cfg n).source.contains '.' = false := by
  unfold cfgOf
  cases hl : cfg.lookup n with
  | none => simp
  | some fc =>
    have hmem : (n, fc) ∈ cfg ∨ ∃ n', (n', fc) ∈ cfg := by
      induction cfg with
      | nil => simp at hl
      | cons e r ih =>
        obtain ⟨k, v⟩ := e
        simp only [List.lookup] at hl
        split at hl
        · cases hl; exact .inr ⟨k, by simp⟩
        · simp only [simpleCfg, List.all_cons, Bool.and_eq_true] at h
          rcases ih h.2 hl with h' | ⟨n', h'⟩
          · exact .inl (by simp [h'])
          · exact .inr ⟨n', by simp [h']⟩
    obtain ⟨n', hm⟩ : ∃ n', (n', fc) ∈ cfg := by
      rcases hmem with h' | h'
      · exact ⟨n, h'⟩
      · exact h'
    have := (List.all_eq_true.mp h) (n', fc) hm
    simp only [Bool.and_eq_true, Option.isNone_iff_eq_none, Bool.not_eq_true'] at this
    simpa using this

theorem fieldCfgOf_root {cx : Ctx} {t : Ty} (hft : cx.fieldsTarget = t) (n : S) : fieldCfgOf cx t n = cfgOf cx.cfg.fields n := by
  unfold fieldCfgOf cfgOf
  rw [hft]; simp [beq_refl_ty t]

/-- the fields of the root target struct, one after the other -/
theorem structFields_cfg_F (c : Converter) (cx : Ctx) (st : GState) (z : Bool) (rp : RootPlain cx st) (pp : Bool)
    (sfs : Fields) (t : Ty) (path : List PathElem) (hsf : inFSFields sfs = true)
    (hft : cx.fieldsTarget = t) (hsimple : simpleCfg cx.cfg.fields = true) (M : Nat)
    (hrec : ∀ a b, tySize a < fieldsSize sfs → tySize b ≤ M → inFS a = true → inFS b = true →
      ∀ fuel', 2 * (tySize a + tySize b) ≤ fuel' → ∀ path',
        conv c fuel' cx (.assign false false) false a b path' st = ret (genF z true a b) st) :
    ∀ (rest : Fields), inFSFields rest = true → fieldsSize rest ≤ M → ∀ g, 2 * fieldsSize sfs + 2 * fieldsSize rest + 1 ≤ g →
      structFields c g cx false pp (.struct sfs) t path [] rest.toList st = ret (genFieldsCfg z cx.cfg.fields sfs rest) st
  | .nil, _, _, g, hg => by
    obtain ⟨g', rfl⟩ : ∃ g', g = g' + 1 := ⟨g - 1, by omega⟩
    rw [Fields.toList, structFields_nil, genFieldsCfg]; rfl
  | .cons fi ty r, hr, hM, g, hg => by
    obtain ⟨g', rfl⟩ : ∃ g', g = g' + 1 := ⟨g - 1, by omega⟩
    simp [inFSFields] at hr
    simp only [fieldsSize] at hM hg
    have hfc := fieldCfgOf_root hft fi.name
    have hrest := structFields_cfg_F c cx st z rp pp sfs t path hsf hft hsimple M hrec r hr.2 (by omega) g' (by omega)
    rw [Fields.toList, genFieldsCfg]
    cases hi : (cfgOf cx.cfg.fields fi.name).ignore with
    | true =>
      rw [structFields_cons_ignore c g' cx st false pp _ t path fi ty r.toList (by rw [hfc, hi]), hrest]
      simp only [if_true]
      cases genFieldsCfg z cx.cfg.fields sfs r <;> rfl
    | false =>
      obtain ⟨hfn, hdot⟩ := cfgOf_simple hsimple fi.name
      rw [structFields_cons_cfg c g' cx st rp pp sfs t path fi ty r.toList hsf hr.1.1 (by rw [hfc, hi]) (by rw [hfc, hfn])
        (by rw [hfc, hdot]), hfc]
      simp only [Bool.false_eq_true, if_false]
      cases hf : fieldTy sfs (srcName (cfgOf cx.cfg.fields fi.name) fi.name) with
      | none => rfl
      | some sty =>
        simp only []
        have hsz := fieldTy_size hf
        rw [hrec sty ty hsz (by omega) (inFS_fieldTy hsf hf) hr.1.2 g' (by omega)]
        cases genF z true sty ty with
        | error d => rfl
        | ok cv =>
          simp only [ret]
          rw [hrest]
          cases genFieldsCfg z cx.cfg.fields sfs r <;> rfl

/-! ### the unknown-field check, and the root -/

theorem any_fieldTy : ∀ (tfs : Fields) (n : S), tfs.toList.any (fun (x : FieldInfo × Ty) => x.1.name == n) = (fieldTy tfs n).isSome
  | .nil, _ => by simp [Fields.toList, fieldTy]
  | .cons f t r, n => by
    simp only [Fields.toList, List.any_cons, fieldTy, any_fieldTy r n]
    cases (f.name == n) <;> simp

theorem remaining_known (cfg : List (S × FieldCfg)) (tfs : Fields) :
    ((cfg.map (·.1)).filter (fun n => !tfs.toList.any (fun (x : FieldInfo × Ty) => x.1.name == n))).isEmpty = cfgKnown cfg tfs := by
  induction cfg with
  | nil => simp [cfgKnown]
  | cons e r ih =>
    simp only [List.map_cons, List.filter_cons, any_fieldTy, cfgKnown, List.all_cons] at ih ⊢
    cases h : (fieldTy tfs e.1).isSome <;> simp [h, ← ih, cfgKnown]

theorem structAssign_cfg (c : Converter) (f : Nat) (cx : Ctx) (st : GState) (hauto : cx.cfg.autoMap = []) (isUpdate pp : Bool)
    (s : Ty) (tfs : Fields) (hft : cx.fieldsTarget = .struct tfs) (path : List PathElem) :
    structAssign c (f+1) cx isUpdate pp s (.struct tfs) path st =
      (match structFields c f cx isUpdate pp s (.struct tfs) path [] tfs.toList st with
       | .ok (plans, st') =>
         if cfgKnown cx.cfg.fields tfs then .ok (.structc (FieldPlans.ofList plans) isUpdate, st') else .error .unknownField
       | .error d => .error d) := by
  unfold structAssign
  have hb : (cx.fieldsTarget == Ty.struct tfs) = true := by rw [hft]; exact beq_refl_ty _
  simp only [parseAutoMap_nil c cx s hauto, isStruct, under, hb, if_true, bind, StateT.bind, Except.bind, pure, StateT.pure, Except.pure]
  generalize structFields c f cx isUpdate pp s (Ty.struct tfs) path [] tfs.toList st = r
  rcases r with d | ⟨plans, st'⟩
  · rfl
  · have hk := remaining_known cx.cfg.fields tfs
    simp only [] at hk ⊢
    rw [hk]
    cases cfgKnown cx.cfg.fields tfs <;> rfl

/-- **the root struct pair of a method with simple field settings**: `noLookup` is `genFCfg` -/
theorem noLookup_cfg_root (c : Converter) (cx : Ctx) (st : GState) (z : Bool) (sfs tfs : Fields) (path : List PathElem) (fuel : Nat)
    (mode : Mode) (pp : Bool) (hs : inFSFields sfs = true) (ht : inFSFields tfs = true)
    (hfuel : 2 * (tySize (.struct sfs) + tySize (.struct tfs)) ≤ fuel) (hmode : mode.isUpdate = false)
    (hext : c.extend = [])
    (hms : plainMethodsSUpTo (tySize (.struct sfs) + tySize (.struct tfs) - 1) st.methods = true)
    (hu : cx.cfg.common.useUnderlying = false) (hsk : cx.cfg.common.skipCopySameType = false)
    (hz : cx.cfg.common.useZeroValue = z) (hc : st.useCtor = false) (rp : RootPlain cx st)
    (hft : cx.fieldsTarget = .struct tfs) (hsimple : simpleCfg cx.cfg.fields = true) :
    noLookup c fuel cx mode pp (.struct sfs) (.struct tfs) path st =
      ret (genFCfg z cx.cfg.fields (asgNL mode) sfs tfs) st := by
  obtain ⟨f, rfl⟩ : ∃ f, fuel = f + 1 := ⟨fuel - 1, by simp only [tySize] at hfuel; omega⟩
  rw [noLookup_struct c f cx mode pp path st hu hsk hc rp.noRaw]
  unfold genFCfg
  have hcond : (mode == Mode.build && sfs.length == 0 && tfs.length == 0) =
      (!asgNL mode && sfs.length == 0 && tfs.length == 0) := by simp [asgNL]
  rw [hcond]
  cases hcnd : (!asgNL mode && sfs.length == 0 && tfs.length == 0) with
  | true => rfl
  | false =>
    simp only [Bool.false_eq_true, if_false]
    simp only [tySize] at hfuel hms
    obtain ⟨f', rfl⟩ : ∃ f', f = f' + 1 := ⟨f - 1, by omega⟩
    -- below the root no field setting applies: the targets are smaller than `FieldsTarget`
    have sp : StructPlain cx st (fieldsSize tfs) :=
      { noIgnoreCase := rp.noIgnoreCase, noIgnoreMissing := rp.noIgnoreMissing, autoMap := rp.autoMap, noUpdate := rp.noUpdate,
        noRaw := rp.noRaw,
        fields := fun t' ht' => .inr (by
          cases hb : (cx.fieldsTarget == t') with
          | false => rfl
          | true =>
            have := Ty.eq_of_beq' hb
            rw [hft] at this; subst this
            simp only [tySize] at ht'; omega) }
    rw [hmode, structAssign_cfg c f' cx st rp.autoMap false pp _ tfs hft,
      structFields_cfg_F c cx st z rp pp sfs (.struct tfs) path hs hft hsimple (fieldsSize tfs)
        (fun a b ha hb hia hib fuel' hfu path' =>
          conv_F c cx st z true _ _
            (plain_of c cx st z true _ _ hext hms hu hsk hz hc (fun _ => sp)) _ (Nat.le_refl _) a b (by omega) hb hia hib
            fuel' hfu (.assign false false) false path' (fun _ => rfl))
        tfs ht (Nat.le_refl _) f' (by omega)]
    cases genFieldsCfg z cx.cfg.fields sfs tfs with
    | error d => rfl
    | ok ps =>
      simp only [ret]
      cases cfgKnown cx.cfg.fields tfs <;> rfl

/-! ### the generalised plan checker accepts the plans of the reference generator -/

theorem walkTy_field (env : TEnv) : ∀ {sfs : Fields} {n : S} {sty : Ty}, fieldTy sfs n = some sty →
    walkTy env (.struct sfs) [n] = some (sty, [false], false) := by
  intro sfs n sty h
  obtain ⟨fi, hfi⟩ := find_fieldTy h
  simp [walkTy, derefTy, fieldTyOf, under, hfi]

theorem isPtr_inFS (env : TEnv) {t : Ty} (h : inFS t = true) : (isPtr env t).isSome = isPtrTy t := by
  cases t <;> simp [inFS] at h <;> simp [isPtr, under, isPtrTy]

theorem genF_checkedU_all (p : Program) (z : Bool) :
    (∀ asg s t, ∀ plan, genF z asg s t = .ok plan → inFS s = true → inFS t = true → aliasFree s = true → aliasFree t = true →
      arrayElemFree asg s = true → structsOK t = true → checkTyU p plan s t = true) ∧
    (∀ sfs tfs, ∀ ps, genFields z sfs tfs = .ok ps → inFSFields sfs = true → inFSFields tfs = true →
      aliasFreeFields sfs = true → aliasFreeFields tfs = true → arrayElemFreeFields sfs = true → structsOKFields tfs = true →
      checkFieldsU p (FieldPlans.ofList ps) (.struct sfs) tfs.toList = true) := by
  apply genF.mutual_induct z
    (motive1 := fun asg s t => ∀ plan, genF z asg s t = .ok plan → inFS s = true → inFS t = true → aliasFree s = true →
      aliasFree t = true → arrayElemFree asg s = true → structsOK t = true → checkTyU p plan s t = true)
    (motive2 := fun sfs tfs => ∀ ps, genFields z sfs tfs = .ok ps → inFSFields sfs = true → inFSFields tfs = true →
      aliasFreeFields sfs = true → aliasFreeFields tfs = true → arrayElemFreeFields sfs = true → structsOKFields tfs = true →
      checkFieldsU p (FieldPlans.ofList ps) (.struct sfs) tfs.toList = true)
  · intro asg a b ih plan h hs ht has hat har hok; rw [genF_ptrPtr] at h; obtain ⟨q, hq, rfl⟩ := map_ok h
    simp [inFS, aliasFree, arrayElemFree, structsOK] at hs ht has hat har hok
    simp [checkTyU, under, beq_refl_ty b, ih q hq hs ht has hat har hok]
  · intro asg s b hn ih plan h hs ht has hat har hok
    rw [genF_tgtPtr _ _ _ _ (isPtrTy_false_of hn)] at h; obtain ⟨q, hq, rfl⟩ := map_ok h
    have htb : inFS b = true := by simpa [inFS] using ht
    have hatb : aliasFree b = true := by simpa [aliasFree] using hat
    have hokb : structsOK b = true := by simpa [structsOK] using hok
    have := ih q hq hs htb has hatb (arrayElemFree_false har) hokb
    cases s <;> simp [inFS] at hs
    · simp [checkTyU, under, beq_refl_ty b, this]
    · exact absurd rfl (hn _)
    · simp [checkTyU, under, beq_refl_ty b, this]
    · simp [checkTyU, under, beq_refl_ty b, this]
    · simp [checkTyU, under, beq_refl_ty b, this]
    · simp [checkTyU, under, beq_refl_ty b, this]
  · intro asg a t hn hz ih plan h hs ht has hat har hok
    rw [genF_srcPtr _ _ _ _ (isPtrTy_false_of hn), if_pos hz] at h; obtain ⟨q, hq, rfl⟩ := map_ok h
    have hsa : inFS a = true := by simpa [inFS] using hs
    have hasa : aliasFree a = true := by simpa [aliasFree] using has
    have := ih q hq hsa ht hasa hat (by simpa [arrayElemFree] using har) hok
    have hb := beq_refl_ty t
    cases t <;> simp [inFS] at ht
    · simp [checkTyU, under, hb, this]
    · exact absurd rfl (hn _)
    · simp [checkTyU, under, hb, this]
    · simp [checkTyU, under, hb, this]
    · simp [checkTyU, under, hb, this]
    · simp [checkTyU, under, hb, this]
  · intro asg a t hn hz plan h; rw [genF_srcPtr _ _ _ _ (isPtrTy_false_of hn), if_neg hz] at h; cases h
  · intro asg k k' hk plan h hs ht has hat har hok
    rw [genF_basic, if_pos hk] at h; cases h
    simp [aliasFree] at has hat
    simp at hk
    simp [checkTyU, under]
    rw [← has, ← hat, hk]
  · intro asg k k' hk plan h; rw [genF_basic, if_neg hk] at h; cases h
  · intro asg a b ih plan h hs ht has hat har hok; rw [genF_slice] at h; obtain ⟨q, hq, rfl⟩ := map_ok h
    simp [inFS, aliasFree, arrayElemFree, structsOK] at hs ht has hat har hok
    simp [checkTyU, under, beq_refl_ty b, ih q hq hs ht has hat har hok]
  · intro asg n a b ih plan h hs ht has hat har hok; rw [genF_array] at h; obtain ⟨q, hq, rfl⟩ := map_ok h
    simp [inFS, aliasFree, arrayElemFree, structsOK] at hs ht has hat har hok
    simp [checkTyU, under, beq_refl_ty b, ih q hq hs ht has hat har.2 hok, har.1]
  · intro asg k v k' v' kk hk ih2 ih1 plan h hs ht has hat har hok; rw [genF_map, hk] at h
    obtain ⟨q, hq, rfl⟩ := map_ok h
    simp [inFS, aliasFree, arrayElemFree, structsOK] at hs ht has hat har hok
    simp [checkTyU, under, beq_refl_ty k', beq_refl_ty v', ih2 kk hk hs.1 ht.1 has.1 hat.1 har.1 hok.1,
      ih1 q hq hs.2 ht.2 has.2 hat.2 har.2 hok.2]
  · intro asg k v k' v' d hk _ plan h; rw [genF_map, hk] at h; cases h
  · intro asg sfs tfs hc plan h hs ht has hat har hok
    simp only [Bool.and_eq_true] at hc
    have := Fields.eq_nil_of_length hc.2
    subst this
    simp [structsOK, Fields.length] at hok
  · intro asg sfs tfs hc ih plan h hs ht has hat har hok
    rw [genF_struct, if_neg hc] at h; obtain ⟨q, hq, rfl⟩ := map_ok h
    simp only [inFS, aliasFree, arrayElemFree, structsOK, Bool.and_eq_true] at hs ht has hat har hok
    have := ih q hq hs ht has hat har hok.2
    simp only [checkTyU, under, fieldNames, Bool.and_eq_true]
    exact ⟨hok.1.2, this⟩
  · intro asg s t h1 h2 _ h4 h5 h6 h7 h8 plan h
    rw [genF_reject z asg s t (isPtrTy_false_of h1) (isPtrTy_false_of h2) (topRule_false_of h4 h5 h6 h7 h8)] at h; cases h
  · intro sfs ps h _ _ _ _ _ _; rw [genFields_nil] at h; cases h; simp [FieldPlans.ofList, Fields.toList, checkFieldsU]
  · intro sfs f ty rest hf ps h; rw [genFields_cons, hf] at h; cases h
  · intro sfs f ty rest sty hf d hg _ ps h; rw [genFields_cons, hf] at h; simp only [hg] at h; cases h
  · intro sfs f ty rest sty hf cv hg d hr _ _ ps h; rw [genFields_cons, hf] at h; simp only [hg, hr] at h; cases h
  · intro sfs f ty rest sty hf cv hg more hr ih1 ih2 ps h hs ht has hat har hok
    rw [genFields_cons, hf] at h; simp only [hg, hr] at h; cases h
    simp only [inFSFields, aliasFreeFields, structsOKFields, Bool.and_eq_true] at ht hat hok
    have h1 := ih1 cv hg (inFS_fieldTy hs hf) ht.1.2 (aliasFree_fieldTy has hf) hat.1 (arrayElemFree_fieldTy har hf) hok.1
    have h2 := ih2 more hr hs ht.2 has hat.2 har hok.2
    simp [FieldPlans.ofList, Fields.toList, checkFieldsU, checkFieldU, walkTy_field p.conv.env hf, fieldArgTy,
      isPtr_inFS p.conv.env (inFS_fieldTy hs hf), h1, h2]

/-- the reference plan of an FS pair passes the generalised plan checker -/
theorem genF_checkedU_struct (p : Program) (z asg : Bool) (s t : Ty) :
    ∀ plan, genF z asg s t = .ok plan → inFS s = true → inFS t = true → aliasFree s = true → aliasFree t = true →
      arrayElemFree asg s = true → structsOK t = true → checkTyU p plan s t = true :=
  (genF_checkedU_all p z).1 asg s t

/-! ### `genFCfg` succeeds exactly on `ConvertibleCfg`; its diagnostics; its plans are checked -/

theorem genFieldsCfg_ok_convertible (z : Bool) (cfg : List (S × FieldCfg)) (sfs : Fields) :
    ∀ tfs ps, genFieldsCfg z cfg sfs tfs = .ok ps → ConvertibleCfgFields z cfg sfs tfs
  | .nil, _, _ => .nil
  | .cons f ty rest, ps, h => by
    rw [genFieldsCfg] at h
    cases hi : (cfgOf cfg f.name).ignore with
    | true =>
      simp only [hi, if_true] at h
      cases hr : genFieldsCfg z cfg sfs rest with
      | error d => rw [hr] at h; cases h
      | ok more => exact .ignored hi (genFieldsCfg_ok_convertible z cfg sfs rest more hr)
    | false =>
      simp only [hi, Bool.false_eq_true, if_false] at h
      cases hf : fieldTy sfs (srcName (cfgOf cfg f.name) f.name) with
      | none => rw [hf] at h; cases h
      | some sty =>
        simp only [hf] at h
        cases hg : genF z true sty ty with
        | error d => rw [hg] at h; cases h
        | ok cv =>
          simp only [hg] at h
          cases hr : genFieldsCfg z cfg sfs rest with
          | error d => rw [hr] at h; cases h
          | ok more =>
            exact .mapped hi hf (genF_ok_convertible z true sty ty cv hg) (genFieldsCfg_ok_convertible z cfg sfs rest more hr)

theorem convertible_genFieldsCfg_ok (z : Bool) (cfg : List (S × FieldCfg)) (sfs : Fields) {tfs : Fields}
    (h : ConvertibleCfgFields z cfg sfs tfs) : ∃ ps, genFieldsCfg z cfg sfs tfs = .ok ps := by
  induction h with
  | nil => exact ⟨[], by rw [genFieldsCfg]⟩
  | ignored hi _ ih =>
    obtain ⟨more, hm⟩ := ih
    exact ⟨_, by rw [genFieldsCfg]; simp only [hi, if_true, hm]; rfl⟩
  | mapped hi hf hc _ ih =>
    obtain ⟨more, hm⟩ := ih
    obtain ⟨cv, hcv⟩ := convertible_genF_ok z hc true
    exact ⟨_, by rw [genFieldsCfg]; simp only [hi, Bool.false_eq_true, if_false, hf, hcv, hm]; rfl⟩

/-- **`genFCfg` succeeds iff the documented rules with the settings cover the root pair** (outside the corner of two empty structs
in build position, where the Struct rule takes its shortcut before looking at any setting) -/
theorem genFCfg_ok_iff (z : Bool) (cfg : List (S × FieldCfg)) (asg : Bool) (sfs tfs : Fields)
    (hcorner : (!asg && sfs.length == 0 && tfs.length == 0) = false) :
    (∃ p, genFCfg z cfg asg sfs tfs = .ok p) ↔ ConvertibleCfg z cfg sfs tfs := by
  unfold genFCfg
  simp only [hcorner, Bool.false_eq_true, if_false]
  constructor
  · rintro ⟨p, h⟩
    cases hg : genFieldsCfg z cfg sfs tfs with
    | error d => rw [hg] at h; cases h
    | ok ps =>
      simp only [hg] at h
      cases hk : cfgKnown cfg tfs with
      | false => simp [hk] at h
      | true => exact ⟨genFieldsCfg_ok_convertible z cfg sfs tfs ps hg, hk⟩
  · intro h
    obtain ⟨ps, hps⟩ := convertible_genFieldsCfg_ok z cfg sfs h.fields
    exact ⟨_, by simp only [hps, h.known, if_true]; rfl⟩

theorem genFieldsCfg_error (z : Bool) (cfg : List (S × FieldCfg)) (sfs : Fields) :
    ∀ tfs d, genFieldsCfg z cfg sfs tfs = .error d →
      d = .typeMismatch ∨ d = .typeMismatchPtr ∨ d = .noMatch ∨ d = .cannotFind
  | .nil, _, h => by rw [genFieldsCfg] at h; cases h
  | .cons f ty rest, d, h => by
    rw [genFieldsCfg] at h
    cases hi : (cfgOf cfg f.name).ignore with
    | true =>
      simp only [hi, if_true] at h
      cases hr : genFieldsCfg z cfg sfs rest with
      | error d' => rw [hr] at h; cases h; exact genFieldsCfg_error z cfg sfs rest _ hr
      | ok more => rw [hr] at h; cases h
    | false =>
      simp only [hi, Bool.false_eq_true, if_false] at h
      cases hf : fieldTy sfs (srcName (cfgOf cfg f.name) f.name) with
      | none =>
        rw [hf] at h; cases h
        split
        · exact .inr (.inr (.inl rfl))
        · exact .inr (.inr (.inr rfl))
      | some sty =>
        simp only [hf] at h
        cases hg : genF z true sty ty with
        | error d' =>
          rw [hg] at h; cases h
          rcases genF_error_struct z true sty ty _ hg with h1 | h1 | h1
          · exact .inl h1
          · exact .inr (.inl h1)
          · exact .inr (.inr (.inl h1))
        | ok cv =>
          simp only [hg] at h
          cases hr : genFieldsCfg z cfg sfs rest with
          | error d' => rw [hr] at h; cases h; exact genFieldsCfg_error z cfg sfs rest _ hr
          | ok more => rw [hr] at h; cases h

/-- the diagnostics of the root: a type mismatch below, a target field without source (`noMatch`), a `map` naming a source field
that does not exist (`cannotFind`), a setting for a field the target does not have (`unknownField`) -/
theorem genFCfg_error (z : Bool) (cfg : List (S × FieldCfg)) (asg : Bool) (sfs tfs : Fields) (d : Diag)
    (h : genFCfg z cfg asg sfs tfs = .error d) :
    d = .typeMismatch ∨ d = .typeMismatchPtr ∨ d = .noMatch ∨ d = .cannotFind ∨ d = .unknownField := by
  unfold genFCfg at h
  split at h
  · cases h
  · cases hg : genFieldsCfg z cfg sfs tfs with
    | error d' =>
      rw [hg] at h; cases h
      rcases genFieldsCfg_error z cfg sfs tfs _ hg with h1 | h1 | h1 | h1
      · exact .inl h1
      · exact .inr (.inl h1)
      · exact .inr (.inr (.inl h1))
      · exact .inr (.inr (.inr (.inl h1)))
    | ok ps =>
      simp only [hg] at h
      split at h
      · cases h
      · cases h; exact .inr (.inr (.inr (.inr rfl)))

theorem genFieldsCfg_checkedU (p : Program) (z : Bool) (cfg : List (S × FieldCfg)) (sfs : Fields)
    (hs : inFSFields sfs = true) (has : aliasFreeFields sfs = true) (har : arrayElemFreeFields sfs = true) :
    ∀ tfs ps, genFieldsCfg z cfg sfs tfs = .ok ps → inFSFields tfs = true → aliasFreeFields tfs = true →
      structsOKFields tfs = true → checkFieldsU p (FieldPlans.ofList ps) (.struct sfs) tfs.toList = true
  | .nil, ps, h, _, _, _ => by
    rw [genFieldsCfg] at h; cases h; simp [FieldPlans.ofList, Fields.toList, checkFieldsU]
  | .cons f ty rest, ps, h, ht, hat, hok => by
    rw [genFieldsCfg] at h
    simp only [inFSFields, aliasFreeFields, structsOKFields, Bool.and_eq_true] at ht hat hok
    cases hi : (cfgOf cfg f.name).ignore with
    | true =>
      simp only [hi, if_true] at h
      cases hr : genFieldsCfg z cfg sfs rest with
      | error d => rw [hr] at h; cases h
      | ok more =>
        rw [hr] at h; cases h
        have := genFieldsCfg_checkedU p z cfg sfs hs has har rest more hr ht.2 hat.2 hok.2
        simp [FieldPlans.ofList, Fields.toList, checkFieldsU, checkFieldU, this]
    | false =>
      simp only [hi, Bool.false_eq_true, if_false] at h
      cases hf : fieldTy sfs (srcName (cfgOf cfg f.name) f.name) with
      | none => rw [hf] at h; cases h
      | some sty =>
        simp only [hf] at h
        cases hg : genF z true sty ty with
        | error d => rw [hg] at h; cases h
        | ok cv =>
          simp only [hg] at h
          cases hr : genFieldsCfg z cfg sfs rest with
          | error d => rw [hr] at h; cases h
          | ok more =>
            rw [hr] at h; cases h
            have h1 := genF_checkedU_struct p z true sty ty cv hg (inFS_fieldTy hs hf) ht.1.2 (aliasFree_fieldTy has hf) hat.1
                (arrayElemFree_fieldTy har hf) hok.1
            have h2 := genFieldsCfg_checkedU p z cfg sfs hs has har rest more hr ht.2 hat.2 hok.2
            simp [FieldPlans.ofList, Fields.toList, checkFieldsU, checkFieldU, walkTy_field p.conv.env hf, fieldArgTy,
              isPtr_inFS p.conv.env (inFS_fieldTy hs hf), h1, h2]

/-- **the plan of the root passes the generalised plan checker** (ignored AND renamed fields; side conditions as on FS) -/
theorem genFCfg_checkedU (p : Program) (z : Bool) (cfg : List (S × FieldCfg)) (asg : Bool)
    (sfs tfs : Fields) (plan : Conv) (h : genFCfg z cfg asg sfs tfs = .ok plan)
    (hs : inFSFields sfs = true) (ht : inFSFields tfs = true) (has : aliasFreeFields sfs = true) (hat : aliasFreeFields tfs = true)
    (har : arrayElemFreeFields sfs = true) (hok : structsOK (.struct tfs) = true) :
    checkTyU p plan (.struct sfs) (.struct tfs) = true := by
  unfold genFCfg at h
  simp only [structsOK, Bool.and_eq_true] at hok
  split at h
  · rename_i hc
    simp only [Bool.and_eq_true] at hc
    have := Fields.eq_nil_of_length hc.2
    subst this
    simp [Fields.length] at hok
  · cases hg : genFieldsCfg z cfg sfs tfs with
    | error d => rw [hg] at h; cases h
    | ok ps =>
      simp only [hg] at h
      split at h
      · cases h
        have := genFieldsCfg_checkedU p z cfg sfs hs has har tfs ps hg ht hat hok.2
        simp only [checkTyU, under, fieldNames, Bool.and_eq_true]
        exact ⟨hok.1.2, this⟩
      · cases h

/-! ### one level up: the method body, and a whole converter with one declared struct → struct method with settings -/

theorem buildMethod_cfg (c : Converter) (idx : Nat) (av : List Ty) (st : GState) (m : GenMethod) (z : Bool) (fuel : Nat)
    (sfs tfs : Fields)
    (hm : st.methods[idx]? = some m) (hup : m.updateTarget = false) (hctor : m.cfg.constructor = none)
    (hsrc : m.source = .struct sfs) (htgt : m.target = .struct tfs)
    (hs : inFSFields sfs = true) (ht : inFSFields tfs = true)
    (hfuel : 2 * (tySize (.struct sfs) + tySize (.struct tfs)) < fuel)
    (hext : c.extend = [])
    (hms : plainMethodsSUpTo (tySize (.struct sfs) + tySize (.struct tfs) - 1) st.methods = true)
    (hu : m.cfg.common.useUnderlying = false) (hsk : m.cfg.common.skipCopySameType = false)
    (hz : m.cfg.common.useZeroValue = z)
    (h1 : m.cfg.common.matchIgnoreCase = false) (h2 : m.cfg.common.ignoreMissing = false)
    (h4 : m.cfg.autoMap = []) (hsimple : simpleCfg m.cfg.fields = true)
    (hraw : ∀ m' ∈ st.methods, m'.cfg.rawFieldSettings = [] ∨ (isPtrTy m'.source = false ∧ isPtrTy m'.target = false)) :
    buildMethod c fuel idx av st =
      match genFCfg z m.cfg.fields false sfs tfs with
      | .ok plan => .ok ((), { st with methods := st.methods.modify idx (fun m => { m with body := some (.convert plan) }) })
      | .error d => .error d := by
  obtain ⟨f, rfl⟩ : ∃ f, fuel = f + 1 := ⟨fuel - 1, by omega⟩
  unfold buildMethod
  simp only [bind, StateT.bind, Except.bind, getMethod_some idx st m hm]
  simp [hup, extendIndex_nil c hext, indexGet_nil, get, getThe, MonadStateOf.get, StateT.get, set, StateT.set, pure, StateT.pure, Except.pure,
    bind, StateT.bind, Except.bind, hctor, hsrc, htgt, isPtr, under]
  rw [noLookup_cfg_root c _ { st with seen := [], useCtor := false } z sfs tfs [] f .build false hs ht (by omega) rfl hext hms hu hsk hz rfl
    { noIgnoreCase := h1, noIgnoreMissing := h2, autoMap := h4, noUpdate := rfl,
      noRaw := fun m' hm' => (hraw m' hm').elim .inl (fun h => .inr (.inl h)) } rfl hsimple]
  have ha : asgNL Mode.build = false := rfl
  rw [ha]
  cases genFCfg z m.cfg.fields false sfs tfs with
  | error d => rfl
  | ok plan =>
    simp [ret, modifyMethod, modify, modifyGet, MonadStateOf.modifyGet, StateT.modifyGet, pure, Except.pure]

theorem setup_single_struct (c : Converter) (d : Declared) (tfs : Fields) (hup : d.updateTarget = false)
    (htgt : d.target = .struct tfs) : setup c [d] = .ok [declaredMethod d] := by
  unfold setup
  simp [List.foldlM, bind, Except.bind, pure, Except.pure, hup, declaredMethod, List.mergeSort_singleton, htgt, isStruct, under]

theorem generate_single_cfg (c : Converter) (d : Declared) (z : Bool) (fuel rounds : Nat) (sfs tfs : Fields)
    (hup : d.updateTarget = false) (hctor : d.cfg.constructor = none)
    (hsrc : d.source = .struct sfs) (htgt : d.target = .struct tfs)
    (hs : inFSFields sfs = true) (ht : inFSFields tfs = true)
    (hfuel : 2 * (tySize (.struct sfs) + tySize (.struct tfs)) < fuel) (hrounds : 2 ≤ rounds)
    (hext : c.extend = [])
    (hu : d.cfg.common.useUnderlying = false) (hsk : d.cfg.common.skipCopySameType = false)
    (hz : d.cfg.common.useZeroValue = z)
    (h1 : d.cfg.common.matchIgnoreCase = false) (h2 : d.cfg.common.ignoreMissing = false)
    (h4 : d.cfg.autoMap = []) (hsimple : simpleCfg d.cfg.fields = true) :
    generate c [d] fuel rounds =
      match genFCfg z d.cfg.fields false sfs tfs with
      | .ok plan => .ok [{ declaredMethod d with dirty := false, body := some (.convert plan) }]
      | .error e => .error e := by
  obtain ⟨r, rfl⟩ : ∃ r, rounds = r + 2 := ⟨rounds - 2, by omega⟩
  unfold generate
  rw [setup_single_struct c d tfs hup htgt]
  simp only [bind, Except.bind]
  unfold buildDirty
  simp [StateT.run, bind, StateT.bind, Except.bind, pure, StateT.pure, Except.pure, get, getThe, MonadStateOf.get, StateT.get,
    declaredMethod, List.zipIdx, List.mergeSort_singleton, getMethod, modifyMethod, modify, modifyGet, MonadStateOf.modifyGet, StateT.modifyGet]
  have hms : plainMethodsSUpTo (tySize (.struct sfs) + tySize (.struct tfs) - 1) [{ declaredMethod d with dirty := false }] = true := by
    simp [plainMethodsSUpTo, declaredMethod, hup, hsrc, htgt, inFS, hs, ht]
    simp only [tySize]; omega
  have hraw : ∀ m' ∈ [{ declaredMethod d with dirty := false }],
      m'.cfg.rawFieldSettings = [] ∨ (isPtrTy m'.source = false ∧ isPtrTy m'.target = false) := by
    intro m' hm'; simp at hm'; subst hm'
    exact .inr (by simp [declaredMethod, hsrc, htgt, isPtrTy])
  have hb := buildMethod_cfg c 0 d.contexts
    { methods := [{ declaredMethod d with dirty := false }], fileNames := [Facts.thisVar.toList], seen := [], useCtor := false }
    { declaredMethod d with dirty := false } z fuel sfs tfs rfl hup hctor hsrc htgt hs ht hfuel hext hms hu hsk hz h1 h2 h4 hsimple hraw
  simp only [declaredMethod] at hb
  rw [hb]
  cases genFCfg z d.cfg.fields false sfs tfs with
  | error e => rfl
  | ok plan =>
    simp only []
    unfold buildDirty
    simp [StateT.pure, pure, bind, StateT.bind, Except.bind, Except.pure, get, getThe, MonadStateOf.get, StateT.get, List.modify]

theorem toList_ofList : ∀ ps : List FieldPlan, (FieldPlans.ofList ps).toList = ps
  | [] => rfl
  | f :: r => by simp [FieldPlans.ofList, FieldPlans.toList, toList_ofList r]

/-- the plan of an ignored target field is `.skip` -/
theorem genFieldsCfg_skip_at (z : Bool) (cfg : List (S × FieldCfg)) (sfs : Fields) :
    ∀ (tfs : Fields) (ps : List FieldPlan), genFieldsCfg z cfg sfs tfs = .ok ps →
      ∀ (i : Nat) (tf : FieldInfo) (tty : Ty), tfs.toList[i]? = some (tf, tty) →
      (cfgOf cfg tf.name).ignore = true → ps[i]? = some (FieldPlan.skip tf.name)
  | .nil, _, _, i, tf, tty, hi, _ => by simp [Fields.toList] at hi
  | .cons f ty rest, ps, h, i, tf, tty, hi, hig => by
    rw [genFieldsCfg] at h
    cases i with
    | zero =>
      simp [Fields.toList] at hi
      obtain ⟨rfl, rfl⟩ := hi
      simp only [hig, if_true] at h
      cases hr : genFieldsCfg z cfg sfs rest with
      | error d => rw [hr] at h; cases h
      | ok more => rw [hr] at h; cases h; rfl
    | succ j =>
      simp [Fields.toList] at hi
      split at h
      · cases hr : genFieldsCfg z cfg sfs rest with
        | error d => rw [hr] at h; cases h
        | ok more =>
          rw [hr] at h; cases h
          simpa using genFieldsCfg_skip_at z cfg sfs rest more hr j tf tty hi hig
      · cases hf : fieldTy sfs (srcName (cfgOf cfg f.name) f.name) with
        | none => rw [hf] at h; cases h
        | some sty =>
          simp only [hf] at h
          cases hg : genF z true sty ty with
          | error d => rw [hg] at h; cases h
          | ok cv =>
            simp only [hg] at h
            cases hr : genFieldsCfg z cfg sfs rest with
            | error d => rw [hr] at h; cases h
            | ok more =>
              rw [hr] at h; cases h
              simpa using genFieldsCfg_skip_at z cfg sfs rest more hr j tf tty hi hig

/-- the plan of a target field that is not ignored: fed by the source field its `map` setting (else its own name) names -/
theorem genFieldsCfg_mapped_at (z : Bool) (cfg : List (S × FieldCfg)) (sfs : Fields) :
    ∀ (tfs : Fields) (ps : List FieldPlan), genFieldsCfg z cfg sfs tfs = .ok ps →
      ∀ (i : Nat) (tf : FieldInfo) (tty : Ty), tfs.toList[i]? = some (tf, tty) →
      (cfgOf cfg tf.name).ignore = false →
      ∃ sty cv, fieldTy sfs (srcName (cfgOf cfg tf.name) tf.name) = some sty ∧ genF z true sty tty = .ok cv ∧
        ps[i]? = some (FieldPlan.mapped tf.name [srcName (cfgOf cfg tf.name) tf.name] [false] false (isPtrTy sty) cv .none)
  | .nil, _, _, i, tf, tty, hi, _ => by simp [Fields.toList] at hi
  | .cons f ty rest, ps, h, i, tf, tty, hi, hig => by
    rw [genFieldsCfg] at h
    cases i with
    | zero =>
      simp [Fields.toList] at hi
      obtain ⟨rfl, rfl⟩ := hi
      simp only [hig, Bool.false_eq_true, if_false] at h
      cases hf : fieldTy sfs (srcName (cfgOf cfg f.name) f.name) with
      | none => rw [hf] at h; cases h
      | some sty =>
        simp only [hf] at h
        cases hg : genF z true sty ty with
        | error d => rw [hg] at h; cases h
        | ok cv =>
          simp only [hg] at h
          cases hr : genFieldsCfg z cfg sfs rest with
          | error d => rw [hr] at h; cases h
          | ok more => rw [hr] at h; cases h; exact ⟨sty, cv, rfl, hg, rfl⟩
    | succ j =>
      simp [Fields.toList] at hi
      split at h
      · cases hr : genFieldsCfg z cfg sfs rest with
        | error d => rw [hr] at h; cases h
        | ok more =>
          rw [hr] at h; cases h
          simpa using genFieldsCfg_mapped_at z cfg sfs rest more hr j tf tty hi hig
      · cases hf : fieldTy sfs (srcName (cfgOf cfg f.name) f.name) with
        | none => rw [hf] at h; cases h
        | some sty =>
          simp only [hf] at h
          cases hg : genF z true sty ty with
          | error d => rw [hg] at h; cases h
          | ok cv =>
            simp only [hg] at h
            cases hr : genFieldsCfg z cfg sfs rest with
            | error d => rw [hr] at h; cases h
            | ok more =>
              rw [hr] at h; cases h
              simpa using genFieldsCfg_mapped_at z cfg sfs rest more hr j tf tty hi hig

/-! ### pointer roots: a method `*S → *T`, `S → *T` or `*S → T` carries its field settings for the POINTEE struct

`buildMethod` sets `FieldsTarget` to the pointee of a pointer-to-struct target; the Pointer / TargetPointer / SourcePointer rule
wraps the struct conversion; `shouldCreateSubMethod` does not split off the struct pair inside the method whose own signature is a
pointer variant of it; the overlapping-definitions check skips the method's own signature. -/

inductive PtrRoot | ptrPtr | tgtPtr | srcPtr
  deriving DecidableEq, Repr

/-- the source type of the root: `*S` for Pointer and SourcePointer, `S` for TargetPointer -/
def PtrRoot.src : PtrRoot → Fields → Ty
  | .tgtPtr, sfs => .struct sfs
  | _, sfs => .ptr (.struct sfs)

/-- the target type of the root: `*T` for Pointer and TargetPointer, `T` for SourcePointer -/
def PtrRoot.tgt : PtrRoot → Fields → Ty
  | .srcPtr, tfs => .struct tfs
  | _, tfs => .ptr (.struct tfs)

/-- the plan node of the pointer rule, annotated with the pointee / target struct type -/
def PtrRoot.wrap : PtrRoot → Fields → Conv → Conv
  | .ptrPtr, tfs => Conv.ptrPtr (.struct tfs)
  | .tgtPtr, tfs => Conv.tgtPtr (.struct tfs)
  | .srcPtr, tfs => Conv.srcPtr (.struct tfs)

/-- `*S → T` needs useZeroValueOnPointerInconsistency -/
def PtrRoot.needsFlag : PtrRoot → Bool
  | .srcPtr => true
  | _ => false

/-- the plan of a pointer root: the pointer rule around exactly the struct plan of `genFCfg` (in build position) -/
def genFCfgRoot (r : PtrRoot) (z : Bool) (cfg : List (S × FieldCfg)) (sfs tfs : Fields) : Except Diag Conv :=
  if r.needsFlag && !z then .error .typeMismatchPtr else (genFCfg z cfg false sfs tfs).map (r.wrap tfs)

theorem plainUpTo_mono {ws : Bool} {N N' : Nat} (h : N' ≤ N) (ms : List GenMethod) (hp : plainUpTo ws N ms = true) :
    plainUpTo ws N' ms = true := by
  simp only [plainUpTo, List.all_eq_true] at hp ⊢
  intro m hm
  have := hp m hm
  cases hu : m.updateTarget <;> simp [hu] at this ⊢
  rcases this with h1 | h1
  · exact .inl h1
  · exact .inr (by omega)

/-- the struct pair below a pointer root, through `conv` (lookup, no sub-method, then the root lemma) -/
theorem conv_cfg_root (c : Converter) (cx : Ctx) (st : GState) (z : Bool) (sfs tfs : Fields) (path : List PathElem) (fuel : Nat)
    (pp : Bool) (hs : inFSFields sfs = true) (ht : inFSFields tfs = true)
    (hfuel : 2 * (tySize (.struct sfs) + tySize (.struct tfs)) + 1 ≤ fuel)
    (hext : c.extend = [])
    (hms : plainMethodsSUpTo (tySize (.struct sfs) + tySize (.struct tfs)) st.methods = true)
    (hu : cx.cfg.common.useUnderlying = false) (hsk : cx.cfg.common.skipCopySameType = false)
    (hz : cx.cfg.common.useZeroValue = z) (hc : st.useCtor = false) (rp : RootPlain cx st)
    (hft : cx.fieldsTarget = .struct tfs) (hsimple : simpleCfg cx.cfg.fields = true) :
    conv c fuel cx .build pp (.struct sfs) (.struct tfs) path st = ret (genFCfg z cx.cfg.fields false sfs tfs) st := by
  obtain ⟨f, rfl⟩ : ∃ f, fuel = f + 1 := ⟨fuel - 1, by omega⟩
  have hlk := lookup_none_of_plain true _ st.methods hms (.struct sfs) (.struct tfs) (by simpa [frag, inFS] using hs)
    (by simpa [frag, inFS] using ht) (Nat.le_refl _) cx.available
  rw [conv_step c f cx .build pp _ _ path st hext hlk (by simpa [inFS] using hs) (by simpa [inFS] using ht) hsk]
  exact noLookup_cfg_root c cx st z sfs tfs path f .build pp hs ht (by omega) rfl hext
    (plainUpTo_mono (ws := true) (Nat.sub_le _ 1) st.methods hms) hu hsk hz hc rp hft hsimple

/-- **a pointer root**: `noLookup` on `*S → *T` / `S → *T` / `*S → T` is the pointer rule around `genFCfg` -/
theorem noLookup_cfg_ptrRoot (r : PtrRoot) (c : Converter) (cx : Ctx) (st : GState) (z : Bool) (sfs tfs : Fields)
    (path : List PathElem) (fuel : Nat) (mode : Mode) (pp : Bool) (hs : inFSFields sfs = true) (ht : inFSFields tfs = true)
    (hfuel : 2 * (tySize (r.src sfs) + tySize (r.tgt tfs)) ≤ fuel)
    (hext : c.extend = [])
    (hms : plainMethodsSUpTo (tySize (.struct sfs) + tySize (.struct tfs)) st.methods = true)
    (hu : cx.cfg.common.useUnderlying = false) (hsk : cx.cfg.common.skipCopySameType = false)
    (hz : cx.cfg.common.useZeroValue = z) (hc : st.useCtor = false) (rp : RootPlain cx st)
    (hft : cx.fieldsTarget = .struct tfs) (hsimple : simpleCfg cx.cfg.fields = true) :
    noLookup c fuel cx mode pp (r.src sfs) (r.tgt tfs) path st = ret (genFCfgRoot r z cx.cfg.fields sfs tfs) st := by
  have hS : inFS (.struct sfs) = true := by simpa [inFS] using hs
  have hT : inFS (.struct tfs) = true := by simpa [inFS] using ht
  cases r with
  | ptrPtr =>
    simp only [PtrRoot.src, PtrRoot.tgt, tySize] at hfuel ⊢
    obtain ⟨f, rfl⟩ : ∃ f, fuel = f + 1 := ⟨fuel - 1, by omega⟩
    rw [noLookup_ptrPtr c f cx mode pp path st hu hsk hc,
      conv_cfg_root c cx st z sfs tfs path f true hs ht (by simp only [tySize]; omega) hext hms hu hsk hz hc rp hft hsimple, wrapRes_ret]
    simp [genFCfgRoot, PtrRoot.needsFlag, PtrRoot.wrap]
  | tgtPtr =>
    simp only [PtrRoot.src, PtrRoot.tgt, tySize] at hfuel ⊢
    obtain ⟨f, rfl⟩ : ∃ f, fuel = f + 1 := ⟨fuel - 1, by omega⟩
    rw [noLookup_tgtPtr c f cx mode pp path st hu hsk hc _ _ hS rfl,
      conv_cfg_root c cx st z sfs tfs path f false hs ht (by simp only [tySize]; omega) hext hms hu hsk hz hc rp hft hsimple, wrapRes_ret]
    simp [genFCfgRoot, PtrRoot.needsFlag, PtrRoot.wrap]
  | srcPtr =>
    simp only [PtrRoot.src, PtrRoot.tgt, tySize] at hfuel ⊢
    obtain ⟨f, rfl⟩ : ∃ f, fuel = f + 1 := ⟨fuel - 1, by omega⟩
    cases hzz : z with
    | true =>
      rw [noLookup_srcPtr c f cx mode pp path st hu hsk hc _ _ hT rfl (by rw [hz, hzz]),
        conv_cfg_root c cx st z sfs tfs path f true hs ht (by simp only [tySize]; omega) hext hms hu hsk hz hc rp hft hsimple,
        wrapRes_ret]
      simp [genFCfgRoot, PtrRoot.needsFlag, PtrRoot.wrap, hzz]
    | false =>
      rw [noLookup_srcPtr_off c f cx mode pp path st hu hsk _ _ hT rfl (by rw [hz, hzz])]
      simp [genFCfgRoot, PtrRoot.needsFlag, ret]

theorem genFCfgRoot_ok_iff (r : PtrRoot) (z : Bool) (cfg : List (S × FieldCfg)) (sfs tfs : Fields)
    (hcorner : (sfs.length == 0 && tfs.length == 0) = false) :
    (∃ p, genFCfgRoot r z cfg sfs tfs = .ok p) ↔ ((r.needsFlag = true → z = true) ∧ ConvertibleCfg z cfg sfs tfs) := by
  have hcorner' : (!false && sfs.length == 0 && tfs.length == 0) = false := by simpa using hcorner
  rw [← genFCfg_ok_iff z cfg false sfs tfs hcorner']
  unfold genFCfgRoot
  cases hf : (r.needsFlag && !z) with
  | true =>
    simp only [if_true]
    simp only [Bool.and_eq_true, Bool.not_eq_true'] at hf
    constructor
    · rintro ⟨p, h⟩; cases h
    · rintro ⟨h, _⟩; have := h hf.1; rw [hf.2] at this; cases this
  | false =>
    simp only [Bool.false_eq_true, if_false]
    have hflag : r.needsFlag = true → z = true := by
      intro h; rw [h] at hf; simpa using hf
    constructor
    · rintro ⟨p, h⟩
      obtain ⟨q, hq, _⟩ := map_ok h
      exact ⟨hflag, q, hq⟩
    · rintro ⟨_, q, hq⟩; exact ⟨_, by rw [hq]; rfl⟩

theorem genFCfgRoot_error (r : PtrRoot) (z : Bool) (cfg : List (S × FieldCfg)) (sfs tfs : Fields) (d : Diag)
    (h : genFCfgRoot r z cfg sfs tfs = .error d) :
    d = .typeMismatch ∨ d = .typeMismatchPtr ∨ d = .noMatch ∨ d = .cannotFind ∨ d = .unknownField := by
  unfold genFCfgRoot at h
  split at h
  · cases h; exact .inr (.inl rfl)
  · exact genFCfg_error z cfg false sfs tfs d (map_err h)

/-- the plan of a pointer root passes the generalised plan checker -/
theorem genFCfgRoot_checkedU (r : PtrRoot) (p : Program) (z : Bool) (cfg : List (S × FieldCfg))
    (sfs tfs : Fields) (plan : Conv) (h : genFCfgRoot r z cfg sfs tfs = .ok plan)
    (hs : inFSFields sfs = true) (ht : inFSFields tfs = true) (has : aliasFreeFields sfs = true) (hat : aliasFreeFields tfs = true)
    (har : arrayElemFreeFields sfs = true) (hok : structsOK (.struct tfs) = true) :
    checkTyU p plan (r.src sfs) (r.tgt tfs) = true := by
  unfold genFCfgRoot at h
  split at h
  · cases h
  · obtain ⟨q, hq, rfl⟩ := map_ok h
    have hq' := genFCfg_checkedU p z cfg false sfs tfs q hq hs ht has hat har hok
    cases r <;> simp [PtrRoot.wrap, PtrRoot.src, PtrRoot.tgt, checkTyU, under, beq_refl_ty, hq']

theorem buildMethod_cfg_ptr (r : PtrRoot) (c : Converter) (idx : Nat) (av : List Ty) (st : GState) (m : GenMethod) (z : Bool)
    (fuel : Nat) (sfs tfs : Fields)
    (hm : st.methods[idx]? = some m) (hup : m.updateTarget = false) (hctor : m.cfg.constructor = none)
    (hsrc : m.source = r.src sfs) (htgt : m.target = r.tgt tfs)
    (hs : inFSFields sfs = true) (ht : inFSFields tfs = true)
    (hfuel : 2 * (tySize (r.src sfs) + tySize (r.tgt tfs)) < fuel)
    (hext : c.extend = [])
    (hms : plainMethodsSUpTo (tySize (.struct sfs) + tySize (.struct tfs)) st.methods = true)
    (hu : m.cfg.common.useUnderlying = false) (hsk : m.cfg.common.skipCopySameType = false)
    (hz : m.cfg.common.useZeroValue = z)
    (h1 : m.cfg.common.matchIgnoreCase = false) (h2 : m.cfg.common.ignoreMissing = false)
    (h4 : m.cfg.autoMap = []) (hsimple : simpleCfg m.cfg.fields = true)
    (hraw : ∀ m' ∈ st.methods, m'.cfg.rawFieldSettings = [] ∨ (isPtrTy m'.source = false ∧ isPtrTy m'.target = false) ∨
      (m'.source = m.source ∧ m'.target = m.target)) :
    buildMethod c fuel idx av st =
      match genFCfgRoot r z m.cfg.fields sfs tfs with
      | .ok plan => .ok ((), { st with methods := st.methods.modify idx (fun m => { m with body := some (.convert plan) }) })
      | .error d => .error d := by
  obtain ⟨f, rfl⟩ : ∃ f, fuel = f + 1 := ⟨fuel - 1, by omega⟩
  unfold buildMethod
  simp only [bind, StateT.bind, Except.bind, getMethod_some idx st m hm]
  simp [hup, extendIndex_nil c hext, indexGet_nil, get, getThe, MonadStateOf.get, StateT.get, set, StateT.set, pure, StateT.pure, Except.pure,
    bind, StateT.bind, Except.bind, hctor, hsrc, htgt]
  rw [noLookup_cfg_ptrRoot r c _ { st with seen := [], useCtor := false } z sfs tfs [] f .build false hs ht (by omega) hext hms hu hsk hz rfl
    { noIgnoreCase := h1, noIgnoreMissing := h2, autoMap := h4, noUpdate := rfl,
      noRaw := fun m' hm' => by simpa [hsrc, htgt] using hraw m' hm' }
    (by cases r <;> simp [PtrRoot.tgt, isPtr, isStruct, under]) hsimple]
  cases genFCfgRoot r z m.cfg.fields sfs tfs with
  | error d => rfl
  | ok plan =>
    simp [ret, modifyMethod, modify, modifyGet, MonadStateOf.modifyGet, StateT.modifyGet, pure, Except.pure]

theorem setup_single_ptr (r : PtrRoot) (c : Converter) (d : Declared) (tfs : Fields) (hup : d.updateTarget = false)
    (htgt : d.target = r.tgt tfs) : setup c [d] = .ok [declaredMethod d] := by
  unfold setup
  cases r <;>
    simp [List.foldlM, bind, Except.bind, pure, Except.pure, hup, declaredMethod, List.mergeSort_singleton, htgt, PtrRoot.tgt, isStruct,
      isPtr, under]

theorem generate_single_cfg_ptr (r : PtrRoot) (c : Converter) (d : Declared) (z : Bool) (fuel rounds : Nat) (sfs tfs : Fields)
    (hup : d.updateTarget = false) (hctor : d.cfg.constructor = none)
    (hsrc : d.source = r.src sfs) (htgt : d.target = r.tgt tfs)
    (hs : inFSFields sfs = true) (ht : inFSFields tfs = true)
    (hfuel : 2 * (tySize (r.src sfs) + tySize (r.tgt tfs)) < fuel) (hrounds : 2 ≤ rounds)
    (hext : c.extend = [])
    (hu : d.cfg.common.useUnderlying = false) (hsk : d.cfg.common.skipCopySameType = false)
    (hz : d.cfg.common.useZeroValue = z)
    (h1 : d.cfg.common.matchIgnoreCase = false) (h2 : d.cfg.common.ignoreMissing = false)
    (h4 : d.cfg.autoMap = []) (hsimple : simpleCfg d.cfg.fields = true) :
    generate c [d] fuel rounds =
      match genFCfgRoot r z d.cfg.fields sfs tfs with
      | .ok plan => .ok [{ declaredMethod d with dirty := false, body := some (.convert plan) }]
      | .error e => .error e := by
  obtain ⟨rr, rfl⟩ : ∃ rr, rounds = rr + 2 := ⟨rounds - 2, by omega⟩
  unfold generate
  rw [setup_single_ptr r c d tfs hup htgt]
  simp only [bind, Except.bind]
  unfold buildDirty
  simp [StateT.run, bind, StateT.bind, Except.bind, pure, StateT.pure, Except.pure, get, getThe, MonadStateOf.get, StateT.get,
    declaredMethod, List.zipIdx, List.mergeSort_singleton, getMethod, modifyMethod, modify, modifyGet, MonadStateOf.modifyGet, StateT.modifyGet]
  have hsz : tySize (.struct sfs) + tySize (.struct tfs) < tySize (r.src sfs) + tySize (r.tgt tfs) := by
    cases r <;> simp [PtrRoot.src, PtrRoot.tgt, tySize] <;> omega
  have hms : plainMethodsSUpTo (tySize (.struct sfs) + tySize (.struct tfs)) [{ declaredMethod d with dirty := false }] = true := by
    simp [plainMethodsSUpTo, declaredMethod, hup, hsrc, htgt]
    exact .inr hsz
  have hraw : ∀ m' ∈ [{ declaredMethod d with dirty := false }],
      m'.cfg.rawFieldSettings = [] ∨ (isPtrTy m'.source = false ∧ isPtrTy m'.target = false) ∨
        (m'.source = ({ declaredMethod d with dirty := false } : GenMethod).source ∧
         m'.target = ({ declaredMethod d with dirty := false } : GenMethod).target) := by
    intro m' hm'; simp at hm'; subst hm'
    exact .inr (.inr ⟨rfl, rfl⟩)
  have hb := buildMethod_cfg_ptr r c 0 d.contexts
    { methods := [{ declaredMethod d with dirty := false }], fileNames := [Facts.thisVar.toList], seen := [], useCtor := false }
    { declaredMethod d with dirty := false } z fuel sfs tfs rfl hup hctor hsrc htgt hs ht hfuel hext hms hu hsk hz h1 h2 h4 hsimple hraw
  simp only [declaredMethod] at hb
  rw [hb]
  cases genFCfgRoot r z d.cfg.fields sfs tfs with
  | error e => rfl
  | ok plan =>
    simp only []
    unfold buildDirty
    simp [StateT.pure, pure, bind, StateT.bind, Except.bind, Except.pure, get, getThe, MonadStateOf.get, StateT.get, List.modify]

end Gv.Gen
