/- The generalised plan checker is sound for the typing judgement of the assignment-image soundness theorem. -/
import Gv.Model.PlanCheckU
import Gv.Proofs.TypingU
import Gv.Proofs.TyEq

namespace Gv.Sound
open Gv Gv.Str Gv.Eval Gv.Typing Gv.PlanCheck

mutual
  theorem checkTyU_sound (p : Program) : ∀ (c : Conv) (s t : Ty), checkTyU p c s t = true → HasTyU p c s t
    | .ident, s, t, h => by
      unfold checkTyU at h
      split at h
      · rename_i k1 k2 h1 h2
        have : k1 = k2 := by simpa using h
        subst this
        exact .identBasic h1 h2
      · cases h
    | .cast inner, s, t, h => by
      unfold checkTyU at h
      split at h
      · rename_i k1 k2 h1 h2
        have : k1 = k2 := by simpa using h
        subst this
        exact .castBasic h1 h2
      · cases h
    | .call callee args retErr w, s, t, h => by
      unfold checkTyU at h
      cases callee with
      | method m =>
        simp only [Bool.and_eq_true] at h
        obtain ⟨⟨ha, hr⟩, hm⟩ := h
        have hargs : args = [.source] := by
          unfold isSourceOnly at ha
          split at ha
          · rfl
          · cases ha
        have hre : retErr = false := by simpa using hr
        subst hargs; subst hre
        cases hgm : p.methods[m]? with
        | none => simp [hgm] at hm
        | some gm =>
          simp only [hgm, Bool.and_eq_true] at hm
          have h1 := Ty.eq_of_beq' hm.1
          have h2 := Ty.eq_of_beq' hm.2
          exact .callMethod (by unfold sigOf; simp [hgm, h1, h2])
      | custom i => cases h
      | structMethod n => cases h
    | .ptrPtr te inner, s, t, h => by
      unfold checkTyU at h
      split at h
      · rename_i se te' h1 h2
        simp only [Bool.and_eq_true] at h
        have := Ty.eq_of_beq' h.1
        subst this
        exact .ptrPtr h1 h2 (checkTyU_sound p inner se _ h.2)
      · cases h
    | .tgtPtr te inner, s, t, h => by
      unfold checkTyU at h
      split at h
      · cases h
      · rename_i _ _ te' h2 hns
        simp only [Bool.and_eq_true] at h
        have := Ty.eq_of_beq' h.1
        subst this
        exact .tgtPtr (fun e he => hns e he) h2 (checkTyU_sound p inner s _ h.2)
      · cases h
    | .list te hasMake hasGuard elem, s, t, h => by
      unfold checkTyU at h
      split at h
      · rename_i se te' h1 h2
        simp only [Bool.and_eq_true] at h
        obtain ⟨⟨⟨hm, hg⟩, hte⟩, hel⟩ := h
        have := Ty.eq_of_beq' hte
        subst this; subst hm; subst hg
        exact .slice h1 h2 (checkTyU_sound p elem se _ hel)
      · rename_i k se te' h1 h2
        simp only [Bool.and_eq_true] at h
        obtain ⟨⟨⟨hm, hg⟩, hte⟩, hel⟩ := h
        have := Ty.eq_of_beq' hte
        have hg' : hasGuard = false := by simpa using hg
        subst this; subst hm; subst hg'
        exact .array h1 h2 (checkTyU_sound p elem se _ hel)
      · cases h
    | .mapc tk tv key val, s, t, h => by
      unfold checkTyU at h
      split at h
      · rename_i sk sv tk' tv' h1 h2
        simp only [Bool.and_eq_true] at h
        obtain ⟨⟨⟨hk, hv⟩, hkey⟩, hval⟩ := h
        have e1 := Ty.eq_of_beq' hk
        have e2 := Ty.eq_of_beq' hv
        subst e1; subst e2
        exact .mapc h1 h2 (checkTyU_sound p key sk _ hkey) (checkTyU_sound p val sv _ hval)
      · cases h
    | .structc plans upd, s, t, h => by
      unfold checkTyU at h
      split at h
      · rename_i sfs tfs h1 h2
        simp only [Bool.and_eq_true, decide_eq_true_eq] at h
        exact .structc h1 h2 h.1 (checkFieldsU_sound p plans s tfs.toList h.2)
      · cases h
    | .underlying _ _ _, _, _, h => by unfold checkTyU at h; cases h
    | .srcPtr t' inner, s, t, h => by
      unfold checkTyU at h
      split at h
      · cases h
      · rename_i _ _ se hs hnt
        simp only [Bool.and_eq_true] at h
        have := Ty.eq_of_beq' h.1
        subst this
        exact .srcPtr hs (fun e he => hnt e he) (checkTyU_sound p inner se _ h.2)
      · cases h
    | .enumc _ _, _, _, h => by unfold checkTyU at h; cases h
    | .withCtor _ _ _, _, _, h => by unfold checkTyU at h; cases h
    | .ctorUpdate _ _ _ _ _, _, _, h => by unfold checkTyU at h; cases h
  theorem checkFieldsU_sound (p : Program) : ∀ (plans : FieldPlans) (s : Ty) (tfs : List (FieldInfo × Ty)),
      checkFieldsU p plans s tfs = true → HasFieldsU p plans s tfs
    | .nil, _, [], _ => .nil
    | .nil, _, _ :: _, h => by unfold checkFieldsU at h; cases h
    | .cons f rest, s, [], h => by unfold checkFieldsU at h; cases h
    | .cons f rest, s, (tf, tty) :: tfs, h => by
      unfold checkFieldsU at h
      simp only [Bool.and_eq_true] at h
      have hrest := checkFieldsU_sound p rest s tfs h.2
      cases f with
      | skip target =>
        have hf := h.1
        unfold checkFieldU at hf
        have e1 : target = tf.name := by simpa using hf
        subst e1
        exact .skip hrest
      | viaMethod target path derefs guarded call resIsPtr cv zero =>
        have hf := h.1
        cases call with
        | call callee args retErr w =>
          cases callee with
          | structMethod n =>
            unfold checkFieldU at hf
            simp only [Bool.and_eq_true] at hf
            obtain ⟨⟨⟨ht, hre⟩, hargs⟩, hw⟩ := hf
            have e1 : target = tf.name := by simpa using ht
            have e2 : retErr = false := by simpa using hre
            subst e1; subst e2
            cases hwt : walkTy p.conv.env s path with
            | none => simp [hwt] at hw
            | some q =>
              obtain ⟨t0, ds, g⟩ := q
              simp only [hwt, Bool.and_eq_true] at hw
              obtain ⟨⟨⟨hd, hg⟩, hnf⟩, hm⟩ := hw
              have e3 : derefs = ds ++ [(derefTy p.conv.env t0).2] := by simpa using hd
              have e4 : guarded = (g || (derefTy p.conv.env t0).2) := by simpa using hg
              have e5 : fieldTyOf p.conv.env (derefTy p.conv.env t0).1 n = none := by simpa using hnf
              subst e3; subst e4
              cases hmr : methodResTy p.conv.env (derefTy p.conv.env t0).1 n with
              | none => simp [hmr] at hm
              | some rty =>
                simp only [hmr, Bool.and_eq_true] at hm
                obtain ⟨⟨hrp, hsh⟩, hcv⟩ := hm
                have e6 : resIsPtr = (isPtr p.conv.env rty).isSome := by simpa using hrp
                exact .viaMethod hwt e5 hmr e6 hargs hsh (checkTyU_sound p cv _ tty hcv) hrest
          | custom _ => unfold checkFieldU at hf; cases hf
          | method _ => unfold checkFieldU at hf; cases hf
        | ident => unfold checkFieldU at hf; cases hf
        | cast _ => unfold checkFieldU at hf; cases hf
        | underlying _ _ _ => unfold checkFieldU at hf; cases hf
        | ptrPtr _ _ => unfold checkFieldU at hf; cases hf
        | srcPtr _ _ => unfold checkFieldU at hf; cases hf
        | tgtPtr _ _ => unfold checkFieldU at hf; cases hf
        | list _ _ _ _ => unfold checkFieldU at hf; cases hf
        | mapc _ _ _ _ => unfold checkFieldU at hf; cases hf
        | structc _ _ => unfold checkFieldU at hf; cases hf
        | enumc _ _ => unfold checkFieldU at hf; cases hf
        | withCtor _ _ _ => unfold checkFieldU at hf; cases hf
        | ctorUpdate _ _ _ _ _ => unfold checkFieldU at hf; cases hf
      | mapped target path derefs guarded b cv zero =>
        have hf := h.1
        unfold checkFieldU at hf
        simp only [Bool.and_eq_true] at hf
        obtain ⟨ht, hw⟩ := hf
        have e1 : target = tf.name := by simpa using ht
        subst e1
        cases hwt : walkTy p.conv.env s path with
        | none => simp [hwt] at hw
        | some q =>
          obtain ⟨leaf, ds, g⟩ := q
          simp only [hwt, Bool.and_eq_true] at hw
          obtain ⟨⟨⟨hd, hg⟩, hl⟩, hcv⟩ := hw
          have e2 : derefs = ds := by simpa using hd
          have e3 : guarded = g := by simpa using hg
          have e4 : b = (isPtr p.conv.env leaf).isSome := by simpa using hl
          subst e2; subst e3
          exact .cons hwt e4 (checkTyU_sound p cv _ tty hcv) hrest
end

theorem checkCtor_sound (p : Program) (ctor : Conv) (tp : Bool) (t : Ty) (h : checkCtor p ctor tp t = true) :
    HasCtor p ctor tp t := by
  unfold checkCtor at h
  split at h
  · rename_i i args retErr w
    cases hd : p.conv.customs[i]? with
    | none => simp [hd] at h
    | some d =>
      simp only [hd, Bool.and_eq_true] at h
      refine ⟨i, args, retErr, w, d, rfl, hd, h.1, ?_⟩
      have h2 := h.2
      cases tp with
      | true =>
        simp only [if_true] at h2 ⊢
        split at h2
        · rename_i te hte
          simp only [Bool.and_eq_true] at h2
          refine ⟨te, hte, Ty.eq_of_beq' h2.1, ?_⟩
          cases hp : isPtr p.conv.env d.target with
          | none => rfl
          | some e => rw [hp] at h2; simp at h2
        · cases h2
      | false =>
        simp only [Bool.false_eq_true, if_false] at h2 ⊢
        exact Ty.eq_of_beq' h2
  · cases h

theorem checkConvertU_sound (p : Program) (c : Conv) (s t : Ty) (h : checkConvertU p c s t = true) : ConvertOKU p c s t := by
  unfold checkConvertU at h
  split at h
  · rename_i ctor tp rest
    simp only [Bool.and_eq_true] at h
    refine .withCtor (checkCtor_sound p ctor tp t h.1.1) ?_ (checkTyU_sound p rest s t h.2)
    intro cl a r w hr
    have := h.1.2
    rw [hr] at this
    cases this
  · rename_i ctor tp sp tz inner
    simp only [Bool.and_eq_true] at h
    have hc := checkCtor_sound p ctor tp t h.1
    have h2 := h.2
    cases sp with
    | true =>
      simp only [if_true] at h2
      split at h2
      · rename_i se hs
        cases tz with
        | true =>
          simp only [if_true] at h2
          split at h2
          · rename_i te ht
            exact .updPtrPtr hc hs ht (checkTyU_sound p inner se te h2)
          · cases h2
        | false =>
          simp only [Bool.false_eq_true, if_false] at h2
          split at h2
          · cases h2
          · rename_i hnt
            exact .updSrcPtr hc hs (fun e he => hnt e he) (checkTyU_sound p inner se t h2)
      · cases h2
    | false =>
      simp only [Bool.false_eq_true, if_false] at h2
      cases tz with
      | true =>
        simp only [if_true] at h2
        split at h2
        · cases h2
        · rename_i _ _ te ht hns
          exact .updTgtPtr hc (fun e he => hns e he) ht (checkTyU_sound p inner s te h2)
        · cases h2
      | false => simp at h2
  · exact .plain (checkTyU_sound p c s t h)

theorem checkProgU_sound (p : Program) (h : checkProgU p = true) : ProgOKU p := by
  intro m gm hm
  unfold checkProgU at h
  rw [List.all_eq_true] at h
  have hmem : gm ∈ p.methods := by
    have := List.getElem?_eq_some_iff.1 hm
    obtain ⟨hlt, he⟩ := this
    exact he ▸ List.getElem_mem hlt
  have := h gm hmem
  unfold checkBodyU at this
  unfold BodyOKU
  cases hb : gm.body with
  | none => simp [hb] at this
  | some b =>
    cases b with
    | convert c =>
      simp only [hb] at this
      exact checkConvertU_sound p c _ _ this
    | delegate _ _ _ => simp [hb] at this
    | update sp c =>
      simp only [hb] at this
      cases ht : under p.conv.env gm.target with
      | ptr te =>
        simp only [ht] at this
        refine ⟨te, rfl, ?_⟩
        cases sp with
        | false =>
          simp only [Bool.false_eq_true, if_false] at this ⊢
          exact checkTyU_sound p c _ _ this
        | true =>
          simp only [if_true] at this ⊢
          cases hs : under p.conv.env gm.source with
          | ptr se =>
            simp only [hs] at this
            exact ⟨se, rfl, checkTyU_sound p c _ _ this⟩
          | _ => simp [hs] at this
      | _ => simp [ht] at this

end Gv.Sound
