/-
Freshness with sharing positions (C04, composite for skipCopySameType): for a program accepted by
`PlanCheckS.checkProgS` every reference cell of the result is EITHER allocated during the call (once) OR a cell of the
source that occurs in the sub-value handed to an `.ident` node at a position with identical source and target types
(`SharedAt`).  Second layer on top of `Gv.Proofs.Fresh` (whose statements are untouched and whose `allLocs`, `AllocL`
and helper lemmas are reused).
-/
import Gv.Model.PlanCheckS
import Gv.Proofs.Fresh
import Gv.Proofs.PlanCheckSound

namespace Gv.Sound
open Gv Gv.Str Gv.Eval Gv.Typing

/-! ### typing with sharing positions -/

mutual
  /-- `HasTyS p c s t`: as `Typing.HasTy`, plus `.ident` at identical types of any kind (`identSame`) -/
  inductive HasTyS (p : Program) : Conv → Ty → Ty → Prop
    | identSame {s} : HasTyS p .ident s s
    | identBasic {s t k} : under p.conv.env s = .basic k → under p.conv.env t = .basic k → HasTyS p .ident s t
    | castBasic {s t k} : under p.conv.env s = .basic k → under p.conv.env t = .basic k → HasTyS p (.cast .ident) s t
    | callMethod {s t m w} : sigOf p m = some (s, t) → HasTyS p (.call (.method m) [.source] false w) s t
    | ptrPtr {s t se te inner} : under p.conv.env s = .ptr se → under p.conv.env t = .ptr te → HasTyS p inner se te →
        HasTyS p (.ptrPtr te inner) s t
    | tgtPtr {s t te inner} : (∀ e, under p.conv.env s ≠ .ptr e) → under p.conv.env t = .ptr te → HasTyS p inner s te →
        HasTyS p (.tgtPtr te inner) s t
    | srcPtr {s t se inner} : under p.conv.env s = .ptr se → (∀ e, under p.conv.env t ≠ .ptr e) → HasTyS p inner se t →
        HasTyS p (.srcPtr t inner) s t
    | slice {s t se te elem} : under p.conv.env s = .slice se → under p.conv.env t = .slice te → HasTyS p elem se te →
        HasTyS p (.list te true true elem) s t
    | array {s t n se te elem} : under p.conv.env s = .array n se → under p.conv.env t = .slice te → HasTyS p elem se te →
        HasTyS p (.list te true false elem) s t
    | mapc {s t sk sv tk tv key val} : under p.conv.env s = .map sk sv → under p.conv.env t = .map tk tv →
        HasTyS p key sk tk → HasTyS p val sv tv → HasTyS p (.mapc tk tv key val) s t
    | structc {s t sfs tfs plans upd} : under p.conv.env s = .struct sfs → under p.conv.env t = .struct tfs →
        (fieldNames tfs.toList).Nodup →
        HasFieldsS p plans sfs.toList tfs.toList → HasTyS p (.structc plans upd) s t
  inductive HasFieldsS (p : Program) : FieldPlans → List (FieldInfo × Ty) → List (FieldInfo × Ty) → Prop
    | nil {sfs} : HasFieldsS p .nil sfs []
    | cons {sfs tf tty sf sty cv rest tfs b} :
        sfs.find? (fun (x : FieldInfo × Ty) => x.1.name == tf.name) = some (sf, sty) →
        HasTyS p cv sty tty → HasFieldsS p rest sfs tfs →
        HasFieldsS p (.cons (.mapped tf.name [tf.name] [false] false b cv .none) rest) sfs ((tf, tty) :: tfs)
end

/-- every method of the program is a structural conversion of its own signature, possibly with sharing positions -/
def ProgOKS (p : Program) : Prop :=
  ∀ (m : Nat) (gm : GenMethod), p.methods[m]? = some gm → ∃ c, gm.body = some (Body.convert c) ∧ HasTyS p c gm.source gm.target

/-! ### where the result may share cells with the source -/

mutual
  /-- `SharedAt p c s t v l`: following plan `c` (a conversion `s → t`) over the source value `v` – through pointers,
      into elements, keys, values and fields, and into the bodies of called methods – reaches an `.ident` node at a
      position whose source and target types are identical, and the sub-value of `v` that this node receives contains the
      cell `l` -/
  inductive SharedAt (p : Program) : Conv → Ty → Ty → Val → Loc → Prop
    | ident {s v l} : l ∈ allLocs v → SharedAt p .ident s s v l
    | call {s t m gm c args re w v l} : p.methods[m]? = some gm → gm.body = some (Body.convert c) →
        gm.source = s → gm.target = t →
        SharedAt p c gm.source gm.target v l → SharedAt p (.call (.method m) args re w) s t v l
    | ptrPtr {s t se te inner l0 x l} : under p.conv.env s = .ptr se → under p.conv.env t = .ptr te →
        SharedAt p inner se te x l → SharedAt p (.ptrPtr te inner) s t (.ptr l0 x) l
    | tgtPtr {s t te inner v l} : under p.conv.env t = .ptr te →
        SharedAt p inner s te v l → SharedAt p (.tgtPtr te inner) s t v l
    | srcPtr {s t se inner l0 x l} : under p.conv.env s = .ptr se →
        SharedAt p inner se t x l → SharedAt p (.srcPtr t inner) s t (.ptr l0 x) l
    | slice {s t se te mk g elem l0 vs x l} : under p.conv.env s = .slice se → under p.conv.env t = .slice te →
        x ∈ vs → SharedAt p elem se te x l → SharedAt p (.list te mk g elem) s t (.slice l0 vs) l
    | array {s t n se te mk g elem vs x l} : under p.conv.env s = .array n se → under p.conv.env t = .slice te →
        x ∈ vs → SharedAt p elem se te x l → SharedAt p (.list te mk g elem) s t (.arr vs) l
    | mapKey {s t sk sv tk tv key val l0 kvs a b l} : under p.conv.env s = .map sk sv → under p.conv.env t = .map tk tv →
        (a, b) ∈ kvs → SharedAt p key sk tk a l → SharedAt p (.mapc tk tv key val) s t (.map l0 kvs) l
    | mapVal {s t sk sv tk tv key val l0 kvs a b l} : under p.conv.env s = .map sk sv → under p.conv.env t = .map tk tv →
        (a, b) ∈ kvs → SharedAt p val sv tv b l → SharedAt p (.mapc tk tv key val) s t (.map l0 kvs) l
    | structc {s t sfs tfs plans upd fs l} : under p.conv.env s = .struct sfs → under p.conv.env t = .struct tfs →
        SharedAtFields p plans sfs.toList tfs.toList fs l → SharedAt p (.structc plans upd) s t (.struct fs) l
  /-- … for the field plans of a struct conversion over the source fields `fs` -/
  inductive SharedAtFields (p : Program) : FieldPlans → List (FieldInfo × Ty) → List (FieldInfo × Ty) → List (S × Val) → Loc → Prop
    | here {sfs tf tty sf sty cv rest tfs target b pth ds g z fs x l} : target = tf.name →
        sfs.find? (fun (y : FieldInfo × Ty) => y.1.name == tf.name) = some (sf, sty) →
        fs.lookup tf.name = some x → SharedAt p cv sty tty x l →
        SharedAtFields p (.cons (.mapped target pth ds g b cv z) rest) sfs ((tf, tty) :: tfs) fs l
    | there {sfs f rest tft tfs fs l} :
        SharedAtFields p rest sfs tfs fs l → SharedAtFields p (.cons f rest) sfs (tft :: tfs) fs l
end

/-- … for a call of method `m` on `v` -/
def SharedCall (p : Program) (m : Nat) (v : Val) (l : Loc) : Prop :=
  ∃ gm c, p.methods[m]? = some gm ∧ gm.body = some (Body.convert c) ∧ SharedAt p c gm.source gm.target v l

/-! ### soundness of the checker -/

open Gv.PlanCheck Gv.PlanCheckS in
mutual
  theorem checkTyS_sound (p : Program) : ∀ (c : Conv) (s t : Ty), checkTyS p c s t = true → HasTyS p c s t
    | .ident, s, t, h => by
      unfold checkTyS at h
      rw [Bool.or_eq_true] at h
      rcases h with h | h
      · have := Ty.eq_of_beq' h
        subst this
        exact .identSame
      · split at h
        · rename_i k1 k2 h1 h2
          have : k1 = k2 := by simpa using h
          subst this
          exact .identBasic h1 h2
        · cases h
    | .cast inner, s, t, h => by
      unfold checkTyS at h
      split at h
      · rename_i k1 k2 h1 h2
        have : k1 = k2 := by simpa using h
        subst this
        exact .castBasic h1 h2
      · cases h
    | .call callee args retErr w, s, t, h => by
      unfold checkTyS at h
      cases callee with
      | method m =>
        simp only [Bool.and_eq_true] at h
        obtain ⟨⟨ha, hr⟩, hm⟩ := h
        have hargs : args = [.source] := by
          unfold isSourceOnly at ha
          split at ha
          · rfl
          · cases ha
        have hre : retErr = false := by simpa using hr
        subst hargs; subst hre
        cases hgm : p.methods[m]? with
        | none => simp [hgm] at hm
        | some gm =>
          simp only [hgm, Bool.and_eq_true] at hm
          have h1 := Ty.eq_of_beq' hm.1
          have h2 := Ty.eq_of_beq' hm.2
          exact .callMethod (by unfold sigOf; simp [hgm, h1, h2])
      | custom i => cases h
      | structMethod n => cases h
    | .ptrPtr te inner, s, t, h => by
      unfold checkTyS at h
      split at h
      · rename_i se te' h1 h2
        simp only [Bool.and_eq_true] at h
        have := Ty.eq_of_beq' h.1
        subst this
        exact .ptrPtr h1 h2 (checkTyS_sound p inner se _ h.2)
      · cases h
    | .tgtPtr te inner, s, t, h => by
      unfold checkTyS at h
      split at h
      · cases h
      · rename_i _ _ te' h2 hns
        simp only [Bool.and_eq_true] at h
        have := Ty.eq_of_beq' h.1
        subst this
        exact .tgtPtr (fun e he => hns e he) h2 (checkTyS_sound p inner s _ h.2)
      · cases h
    | .list te hasMake hasGuard elem, s, t, h => by
      unfold checkTyS at h
      split at h
      · rename_i se te' h1 h2
        simp only [Bool.and_eq_true] at h
        obtain ⟨⟨⟨hm, hg⟩, hte⟩, hel⟩ := h
        have := Ty.eq_of_beq' hte
        subst this; subst hm; subst hg
        exact .slice h1 h2 (checkTyS_sound p elem se _ hel)
      · rename_i k se te' h1 h2
        simp only [Bool.and_eq_true] at h
        obtain ⟨⟨⟨hm, hg⟩, hte⟩, hel⟩ := h
        have := Ty.eq_of_beq' hte
        have hg' : hasGuard = false := by simpa using hg
        subst this; subst hm; subst hg'
        exact .array h1 h2 (checkTyS_sound p elem se _ hel)
      · cases h
    | .mapc tk tv key val, s, t, h => by
      unfold checkTyS at h
      split at h
      · rename_i sk sv tk' tv' h1 h2
        simp only [Bool.and_eq_true] at h
        obtain ⟨⟨⟨hk, hv⟩, hkey⟩, hval⟩ := h
        have e1 := Ty.eq_of_beq' hk
        have e2 := Ty.eq_of_beq' hv
        subst e1; subst e2
        exact .mapc h1 h2 (checkTyS_sound p key sk _ hkey) (checkTyS_sound p val sv _ hval)
      · cases h
    | .structc plans upd, s, t, h => by
      unfold checkTyS at h
      split at h
      · rename_i sfs tfs h1 h2
        simp only [Bool.and_eq_true, decide_eq_true_eq] at h
        exact .structc h1 h2 h.1 (checkFieldsS_sound p plans sfs.toList tfs.toList h.2)
      · cases h
    | .underlying _ _ _, _, _, h => by unfold checkTyS at h; cases h
    | .srcPtr t' inner, s, t, h => by
      unfold checkTyS at h
      split at h
      · cases h
      · rename_i _ _ se hs hnt
        simp only [Bool.and_eq_true] at h
        have := Ty.eq_of_beq' h.1
        subst this
        exact .srcPtr hs (fun e he => hnt e he) (checkTyS_sound p inner se _ h.2)
      · cases h
    | .enumc _ _, _, _, h => by unfold checkTyS at h; cases h
    | .withCtor _ _ _, _, _, h => by unfold checkTyS at h; cases h
    | .ctorUpdate _ _ _ _ _, _, _, h => by unfold checkTyS at h; cases h
  theorem checkFieldsS_sound (p : Program) : ∀ (plans : FieldPlans) (sfs tfs : List (FieldInfo × Ty)),
      checkFieldsS p plans sfs tfs = true → HasFieldsS p plans sfs tfs
    | .nil, _, [], _ => .nil
    | .nil, _, _ :: _, h => by unfold checkFieldsS at h; cases h
    | .cons f rest, sfs, [], h => by unfold checkFieldsS at h; cases h
    | .cons f rest, sfs, (tf, tty) :: tfs, h => by
      unfold checkFieldsS at h
      simp only [Bool.and_eq_true] at h
      have hrest := checkFieldsS_sound p rest sfs tfs h.2
      cases f with
      | skip _ => unfold checkFieldS at h; cases h.1
      | viaMethod _ _ _ _ _ _ _ _ => unfold checkFieldS at h; cases h.1
      | mapped target path derefs guarded b cv zero =>
        have hf := h.1
        unfold checkFieldS at hf
        simp only [Bool.and_eq_true] at hf
        obtain ⟨⟨⟨⟨⟨ht, hp⟩, hd⟩, hg⟩, hz⟩, hfind⟩ := hf
        have e1 : target = tf.name := by simpa using ht
        have e2 : path = [tf.name] := by simpa using hp
        have e3 : derefs = [false] := by simpa using hd
        have e4 : guarded = false := by simpa using hg
        have e5 : zero = .none := by
          cases zero with
          | none => rfl
          | check => cases hz
        subst e1; subst e2; subst e3; subst e4; subst e5
        cases hfd : sfs.find? (fun (x : FieldInfo × Ty) => x.1.name == tf.name) with
        | none => simp [hfd] at hfind
        | some q =>
          obtain ⟨sf, sty⟩ := q
          simp only [hfd] at hfind
          exact .cons hfd (checkTyS_sound p cv sty tty hfind) hrest
end

theorem checkProgS_sound (p : Program) (h : PlanCheckS.checkProgS p = true) : ProgOKS p := by
  intro m gm hm
  unfold PlanCheckS.checkProgS at h
  rw [List.all_eq_true] at h
  have hmem : gm ∈ p.methods := by
    have := List.getElem?_eq_some_iff.1 hm
    obtain ⟨hlt, he⟩ := this
    exact he ▸ List.getElem_mem hlt
  have := h gm hmem
  cases hb : gm.body with
  | none => simp [hb] at this
  | some b =>
    cases b with
    | convert c =>
      simp only [hb] at this
      exact ⟨c, rfl, checkTyS_sound p c _ _ this⟩
    | delegate _ _ _ => simp [hb] at this
    | update _ _ => simp [hb] at this

/-! ### cells allocated during the call, cells of the source -/

/-- `l` is a cell allocated at counter value `n` or later -/
def isNew (n : Nat) : Loc → Bool
  | .fresh k => decide (n ≤ k)
  | _ => false

/-- none of the cells `ls` was allocated at counter value `n` or later (cells of the caller's input `src k`, and cells
allocated before the call `fresh k` with `k < n`) -/
def OldL (n : Nat) (ls : List Loc) : Prop := ∀ l, l ∈ ls → isNew n l = false

theorem isNew_fresh (n k : Nat) : isNew n (.fresh k) = true ↔ n ≤ k := by simp [isNew]

theorem isNew_mono {n n1 : Nat} (h : n ≤ n1) {l : Loc} (hl : isNew n l = false) : isNew n1 l = false := by
  cases l with
  | fresh k => simp [isNew] at hl ⊢; omega
  | src k => rfl
  | none => rfl

theorem oldL_mono {n n1 : Nat} {a b : List Loc} (h : n ≤ n1) (hsub : ∀ l, l ∈ b → l ∈ a) (ha : OldL n a) : OldL n1 b :=
  fun l hl => isNew_mono h (ha l (hsub l hl))

theorem oldL_of_lt {n : Nat} {ls : List Loc} (h : ∀ l, l ∈ ls → ∀ k, l = .fresh k → k < n) : OldL n ls := by
  intro l hl
  cases l with
  | fresh k => have := h _ hl k rfl; simp [isNew]; omega
  | src k => rfl
  | none => rfl

theorem oldL_src (n : Nat) (ls : List Loc) (h : ∀ l, l ∈ ls → ∃ k, l = .src k) : OldL n ls := by
  intro l hl
  obtain ⟨k, rfl⟩ := h l hl
  rfl

/-- the cells `ls` of a result: each is allocated in the counter interval `[n, n')` or is a cell of the source (`src`)
at a sharing position (`Sh`); the allocated ones occur once -/
def AllocS (n n' : Nat) (ls src : List Loc) (Sh : Loc → Prop) : Prop :=
  n ≤ n' ∧ (∀ l, l ∈ ls → (∃ k, l = .fresh k ∧ n ≤ k ∧ k < n') ∨ (l ∈ src ∧ Sh l)) ∧ (ls.filter (isNew n)).Nodup

theorem allocS_nil (n : Nat) (src : List Loc) (Sh : Loc → Prop) : AllocS n n [] src Sh :=
  ⟨Nat.le_refl _, by simp, by simp⟩

theorem allocS_mono {n n' : Nat} {ls src src' : List Loc} {Sh Sh' : Loc → Prop} (h : AllocS n n' ls src Sh)
    (hsrc : ∀ l, l ∈ src → l ∈ src') (hsh : ∀ l, l ∈ src → Sh l → Sh' l) : AllocS n n' ls src' Sh' := by
  obtain ⟨h1, h2, h3⟩ := h
  refine ⟨h1, ?_, h3⟩
  intro l hl
  rcases h2 l hl with h | ⟨ha, hb⟩
  · exact .inl h
  · exact .inr ⟨hsrc l ha, hsh l ha hb⟩

/-- the source itself, passed on: all its cells are shared, nothing is allocated -/
theorem allocS_ident {n : Nat} {src : List Loc} {Sh : Loc → Prop} (hold : OldL n src) (hsh : ∀ l, l ∈ src → Sh l) :
    AllocS n n src src Sh := by
  refine ⟨Nat.le_refl _, fun l hl => .inr ⟨hl, hsh l hl⟩, ?_⟩
  have : src.filter (isNew n) = [] := by
    rw [List.filter_eq_nil_iff]
    intro l hl
    rw [hold l hl]
    simp
  rw [this]
  exact List.nodup_nil

theorem allocS_append {n n1 n2 : Nat} {a b src : List Loc} {Sh : Loc → Prop} (hold : OldL n src)
    (ha : AllocS n n1 a src Sh) (hb : AllocS n1 n2 b src Sh) : AllocS n n2 (a ++ b) src Sh := by
  obtain ⟨h1, h2, h3⟩ := ha
  obtain ⟨g1, g2, g3⟩ := hb
  refine ⟨Nat.le_trans h1 g1, ?_, ?_⟩
  · intro l hl
    rcases List.mem_append.1 hl with h | h
    · rcases h2 l h with ⟨k, rfl, hk1, hk2⟩ | hs
      · exact .inl ⟨k, rfl, hk1, Nat.lt_of_lt_of_le hk2 g1⟩
      · exact .inr hs
    · rcases g2 l h with ⟨k, rfl, hk1, hk2⟩ | hs
      · exact .inl ⟨k, rfl, Nat.le_trans h1 hk1, hk2⟩
      · exact .inr hs
  · have hb' : b.filter (isNew n) = b.filter (isNew n1) := by
      apply List.filter_congr
      intro l hl
      rcases g2 l hl with ⟨k, rfl, hk1, _⟩ | ⟨hs, _⟩
      · simp [isNew]; omega
      · rw [hold l hs, isNew_mono h1 (hold l hs)]
    rw [List.filter_append, hb', List.nodup_append]
    refine ⟨h3, g3, ?_⟩
    intro x hx y hy hxy
    subst hxy
    rw [List.mem_filter] at hx hy
    rcases h2 x hx.1 with ⟨k, rfl, _, hk2⟩ | ⟨hs, _⟩
    · rcases g2 _ hy.1 with ⟨k', hk', hk1', _⟩ | ⟨hs, _⟩
      · cases hk'; omega
      · have := isNew_mono h1 (hold _ hs)
        rw [this] at hy
        cases hy.2
    · rw [hold x hs] at hx
      cases hx.2

/-- the cell allocated after its contents -/
theorem allocS_perm_cons {n n1 : Nat} {a src : List Loc} {Sh : Loc → Prop} (hold : OldL n src) (ha : AllocS n n1 a src Sh) :
    AllocS n (n1 + 1) ([Loc.fresh n1] ++ a) src Sh := by
  obtain ⟨h1, h2, h3⟩ := ha
  refine ⟨Nat.le_succ_of_le h1, ?_, ?_⟩
  · intro l hl
    simp at hl
    rcases hl with rfl | hl
    · exact .inl ⟨n1, rfl, h1, Nat.lt_succ_self _⟩
    · rcases h2 l hl with ⟨k, rfl, hk1, hk2⟩ | hs
      · exact .inl ⟨k, rfl, hk1, Nat.lt_succ_of_lt hk2⟩
      · exact .inr hs
  · have hnew : isNew n (Loc.fresh n1) = true := (isNew_fresh n n1).2 h1
    rw [List.filter_append]
    simp only [List.filter_cons, hnew, if_true, List.filter_nil, List.singleton_append, List.nodup_cons]
    refine ⟨?_, h3⟩
    intro hmem
    rw [List.mem_filter] at hmem
    rcases h2 _ hmem.1 with ⟨k, hk, _, hk2⟩ | ⟨hs, _⟩
    · cases hk; omega
    · rw [hold _ hs] at hnew
      cases hnew

/-- nothing shared: the old statement -/
theorem allocS_noShare {n n' : Nat} {ls src : List Loc} {Sh : Loc → Prop} (h : AllocS n n' ls src Sh)
    (hno : ∀ l, l ∈ src → ¬ Sh l) : AllocL n n' ls := by
  obtain ⟨h1, h2, h3⟩ := h
  have hall : ∀ l, l ∈ ls → ∃ k, l = .fresh k ∧ n ≤ k ∧ k < n' := by
    intro l hl
    rcases h2 l hl with h | ⟨hs, hsh⟩
    · exact h
    · exact absurd hsh (hno l hs)
  refine ⟨h1, hall, ?_⟩
  have : ls.filter (isNew n) = ls := by
    rw [List.filter_eq_self]
    intro l hl
    obtain ⟨k, rfl, hk, _⟩ := hall l hl
    exact (isNew_fresh n k).2 hk
  rw [this] at h3
  exact h3

/-! ### cells of sub-values are cells of the value -/

theorem mem_locsList {vs : List Val} {x : Val} {l : Loc} (hx : x ∈ vs) (hl : l ∈ allLocs x) : l ∈ allLocs.locsList vs := by
  induction vs with
  | nil => cases hx
  | cons v vs ih =>
    simp only [allLocs.locsList, List.mem_append]
    rcases List.mem_cons.1 hx with rfl | h
    · exact .inl hl
    · exact .inr (ih h)

theorem mem_locsEntries_key {kvs : List (Val × Val)} {a b : Val} {l : Loc} (hx : (a, b) ∈ kvs) (hl : l ∈ allLocs a) :
    l ∈ allLocs.locsEntries kvs := by
  induction kvs with
  | nil => cases hx
  | cons e kvs ih =>
    obtain ⟨k, v⟩ := e
    simp only [allLocs.locsEntries, List.mem_append]
    rcases List.mem_cons.1 hx with h | h
    · cases h; exact .inl (.inl hl)
    · exact .inr (ih h)

theorem mem_locsEntries_val {kvs : List (Val × Val)} {a b : Val} {l : Loc} (hx : (a, b) ∈ kvs) (hl : l ∈ allLocs b) :
    l ∈ allLocs.locsEntries kvs := by
  induction kvs with
  | nil => cases hx
  | cons e kvs ih =>
    obtain ⟨k, v⟩ := e
    simp only [allLocs.locsEntries, List.mem_append]
    rcases List.mem_cons.1 hx with h | h
    · cases h; exact .inl (.inr hl)
    · exact .inr (ih h)

theorem mem_locsFields {fs : List (S × Val)} {name : S} {x : Val} {l : Loc} (hx : fs.lookup name = some x) (hl : l ∈ allLocs x) :
    l ∈ allLocs.locsFields fs := by
  induction fs with
  | nil => simp [List.lookup] at hx
  | cons e fs ih =>
    obtain ⟨k, v⟩ := e
    simp only [allLocs.locsFields, List.mem_append]
    simp only [List.lookup] at hx
    split at hx
    · cases hx; exact .inl hl
    · exact .inr (ih hx)

theorem mem_allLocs_ptr {l0 : Loc} {x : Val} {l : Loc} (hl : l ∈ allLocs x) : l ∈ allLocs (.ptr l0 x) := by
  simp only [allLocs, List.mem_append]; exact .inr hl

theorem mem_allLocs_slice {l0 : Loc} {vs : List Val} {l : Loc} (hl : l ∈ allLocs.locsList vs) : l ∈ allLocs (.slice l0 vs) := by
  simp only [allLocs, List.mem_append]; exact .inr hl

theorem mem_allLocs_map {l0 : Loc} {kvs : List (Val × Val)} {l : Loc} (hl : l ∈ allLocs.locsEntries kvs) : l ∈ allLocs (.map l0 kvs) := by
  simp only [allLocs, List.mem_append]; exact .inr hl

/-! ### the statements, by fuel -/

def FConvS (p : Program) (fuel : Nat) : Prop :=
  ∀ (fr : Frame) (c : Conv) (s t : Ty) (v old : Val) (n : Nat) (v' : Val) (n' : Nat),
    HasTyS p c s t → WT p.conv.env v s → OldZ p.conv.env old t → OldL n (allLocs v) →
    evalConv p fuel fr c v old n = .ok (v', n') → AllocS n n' (allLocs v') (allLocs v) (SharedAt p c s t v)

def FCallS (p : Program) (fuel : Nat) : Prop :=
  ∀ (m : Nat) (s t : Ty) (v : Val) (cs : List Val) (n : Nat) (v' : Val) (n' : Nat),
    sigOf p m = some (s, t) → WT p.conv.env v s → OldL n (allLocs v) →
    callMethod p fuel m v cs n = .ok (v', n') → AllocS n n' (allLocs v') (allLocs v) (SharedCall p m v)

def FElemsS (p : Program) (fuel : Nat) : Prop :=
  ∀ (fr : Frame) (elem : Conv) (se te : Ty) (vs : List Val) (i n : Nat) (out : List Val) (n' : Nat),
    HasTyS p elem se te → (∀ v, v ∈ vs → WT p.conv.env v se) → OldL n (allLocs.locsList vs) →
    evalElems p fuel fr te elem vs i n = .ok (out, n') →
    AllocS n n' (allLocs.locsList out) (allLocs.locsList vs) (fun l => ∃ x, x ∈ vs ∧ SharedAt p elem se te x l)

def FEntriesS (p : Program) (fuel : Nat) : Prop :=
  ∀ (fr : Frame) (key val : Conv) (sk sv tk tv : Ty) (kvs : List (Val × Val)) (n : Nat) (out : List (Val × Val)) (n' : Nat),
    HasTyS p key sk tk → HasTyS p val sv tv →
    (∀ a b, (a, b) ∈ kvs → WT p.conv.env a sk) → (∀ a b, (a, b) ∈ kvs → WT p.conv.env b sv) →
    OldL n (allLocs.locsEntries kvs) →
    evalEntries p fuel fr tk tv key val kvs n = .ok (out, n') →
    AllocS n n' (allLocs.locsEntries out) (allLocs.locsEntries kvs)
      (fun l => ∃ a b, (a, b) ∈ kvs ∧ (SharedAt p key sk tk a l ∨ SharedAt p val sv tv b l))

def FFieldsS (p : Program) (fuel : Nat) : Prop :=
  ∀ (fr : Frame) (plans : FieldPlans) (sfs tfs : List (FieldInfo × Ty)) (fs done rest : List (S × Val)) (n : Nat) (v' : Val) (n' : Nat),
    HasFieldsS p plans sfs tfs →
    (∀ name x f ty, fs.lookup name = some x →
      sfs.find? (fun (y : FieldInfo × Ty) => y.1.name == name) = some (f, ty) → WT p.conv.env x ty) →
    (fieldNames tfs).Nodup →
    (∀ nm, nm ∈ fieldNames tfs → nm ∉ done.map (·.1)) →
    (rest = [] ∨ ∃ k, rest = zeroVal.zeroFields p.conv.env k tfs) →
    OldL n (allLocs.locsFields fs) →
    evalFields p fuel fr plans (.struct fs) (.struct (done ++ rest)) n = .ok (v', n') →
    ∃ ws, v' = .struct (done ++ ws) ∧
      AllocS n n' (allLocs.locsFields ws) (allLocs.locsFields fs) (SharedAtFields p plans sfs tfs fs)

theorem fCallS_step (p : Program) (hp : ProgOKS p) (fuel : Nat) (ih : FConvS p fuel) : FCallS p (fuel + 1) := by
  intro m s t v cs n v' n' hsig hwt hold hev
  unfold callMethod at hev
  unfold sigOf at hsig
  cases hm : p.methods[m]? with
  | none => simp [hm] at hsig
  | some gm =>
    simp [hm] at hsig
    obtain ⟨hs, ht⟩ := hsig
    obtain ⟨c, hb, hty⟩ := hp m gm hm
    simp only [hm, hb] at hev
    subst hs; subst ht
    have := ih _ c _ _ v _ n v' n' hty hwt (.inr ⟨64, rfl⟩) hold hev
    exact allocS_mono this (fun _ h => h) (fun l _ h => ⟨gm, c, hm, hb, h⟩)

theorem fElemsS_step (p : Program) (fuel : Nat) (ihc : FConvS p fuel) (ihe : FElemsS p fuel) : FElemsS p (fuel + 1) := by
  intro fr elem se te vs i n out n' hty hwt hold hev
  cases vs with
  | nil =>
    unfold evalElems at hev
    have := (E_pure_ok _ _ _).1 hev
    cases this
    exact allocS_nil n _ _
  | cons v vs =>
    unfold evalElems at hev
    obtain ⟨x, n1, h1, h2⟩ := (E_bind_ok _ _ _ _).1 hev
    obtain ⟨r, n2, h3, h4⟩ := (E_bind_ok _ _ _ _).1 h2
    have := (E_pure_ok _ _ _).1 h4
    cases this
    have hsubv : ∀ l, l ∈ allLocs v → l ∈ allLocs.locsList (v :: vs) := fun l hl =>
      mem_locsList (List.mem_cons_self ..) hl
    have hsubr : ∀ l, l ∈ allLocs.locsList vs → l ∈ allLocs.locsList (v :: vs) := fun l hl => by
      simp only [allLocs.locsList, List.mem_append]; exact .inr hl
    have hx := ihc _ elem se te v _ n x n1 hty (hwt v (List.mem_cons_self ..)) (.inr ⟨64, rfl⟩)
      (oldL_mono (Nat.le_refl _) hsubv hold) h1
    have hr := ihe fr elem se te vs (i + 1) n1 r _ hty (fun w hw => hwt w (List.mem_cons_of_mem _ hw))
      (oldL_mono hx.1 hsubr hold) h3
    show AllocS n _ (allLocs x ++ allLocs.locsList r) _ _
    exact allocS_append hold
      (allocS_mono hx hsubv (fun l _ h => ⟨v, List.mem_cons_self .., h⟩))
      (allocS_mono hr hsubr (fun l _ h => by obtain ⟨y, hy, h⟩ := h; exact ⟨y, List.mem_cons_of_mem _ hy, h⟩))

theorem fEntriesS_step (p : Program) (fuel : Nat) (ihc : FConvS p fuel) (ihe : FEntriesS p fuel) : FEntriesS p (fuel + 1) := by
  intro fr key val sk sv tk tv kvs n out n' hk hv hwk hwv hold hev
  cases kvs with
  | nil =>
    unfold evalEntries at hev
    have := (E_pure_ok _ _ _).1 hev
    cases this
    exact allocS_nil n _ _
  | cons e kvs =>
    obtain ⟨a, b⟩ := e
    unfold evalEntries at hev
    obtain ⟨k', n1, h1, h2⟩ := (E_bind_ok _ _ _ _).1 hev
    obtain ⟨v', n2, h3, h4⟩ := (E_bind_ok _ _ _ _).1 h2
    obtain ⟨more, n3, h5, h6⟩ := (E_bind_ok _ _ _ _).1 h4
    have := (E_pure_ok _ _ _).1 h6
    cases this
    have hsuba : ∀ l, l ∈ allLocs a → l ∈ allLocs.locsEntries ((a, b) :: kvs) := fun l hl =>
      mem_locsEntries_key (List.mem_cons_self ..) hl
    have hsubb : ∀ l, l ∈ allLocs b → l ∈ allLocs.locsEntries ((a, b) :: kvs) := fun l hl =>
      mem_locsEntries_val (List.mem_cons_self ..) hl
    have hsubr : ∀ l, l ∈ allLocs.locsEntries kvs → l ∈ allLocs.locsEntries ((a, b) :: kvs) := fun l hl => by
      simp only [allLocs.locsEntries, List.mem_append]; exact .inr hl
    have hka := ihc _ key sk tk a _ n k' n1 hk (hwk a b (List.mem_cons_self ..)) (.inr ⟨64, rfl⟩)
      (oldL_mono (Nat.le_refl _) hsuba hold) h1
    have hvb := ihc _ val sv tv b _ n1 v' n2 hv (hwv a b (List.mem_cons_self ..)) (.inr ⟨64, rfl⟩)
      (oldL_mono hka.1 hsubb hold) h3
    have hr := ihe fr key val sk sv tk tv kvs n2 more _ hk hv
      (fun x y h => hwk x y (List.mem_cons_of_mem _ h)) (fun x y h => hwv x y (List.mem_cons_of_mem _ h))
      (oldL_mono (Nat.le_trans hka.1 hvb.1) hsubr hold) h5
    show AllocS n _ (allLocs k' ++ allLocs v' ++ allLocs.locsEntries more) _ _
    exact allocS_append hold
      (allocS_append hold
        (allocS_mono hka hsuba (fun l _ h => ⟨a, b, List.mem_cons_self .., .inl h⟩))
        (allocS_mono hvb hsubb (fun l _ h => ⟨a, b, List.mem_cons_self .., .inr h⟩)))
      (allocS_mono hr hsubr (fun l _ h => by
        obtain ⟨x, y, hxy, h⟩ := h; exact ⟨x, y, List.mem_cons_of_mem _ hxy, h⟩))

theorem fFieldsS_step (p : Program) (fuel : Nat) (ihc : FConvS p fuel) (ihf : FFieldsS p fuel) : FFieldsS p (fuel + 1) := by
  intro fr plans sfs tfs fs done rest n v' n' hty hwt hnd hdone hrest hold hev
  cases hty with
  | nil =>
    unfold evalFields at hev
    have := (E_pure_ok _ _ _).1 hev
    cases this
    have hr : rest = [] := by
      rcases hrest with h | ⟨k, h⟩
      · exact h
      · rw [h]; unfold zeroVal.zeroFields; rfl
    subst hr
    exact ⟨[], rfl, allocS_nil n _ _⟩
  | @cons _ tf tty sf sty cv plans' tfs' b hfind hcv hrestTy =>
    unfold evalFields at hev
    simp only [] at hev
    -- the walk along the one-element path
    have hwalk : walk [tf.name] [false] (.struct fs) =
        (match fs.lookup tf.name with | some x => .ok (some x) | none => .stuck "walk: no such field") := by
      unfold walk
      simp only [fieldOf, Bool.false_eq_true, if_false]
      cases fs.lookup tf.name with
      | none => rfl
      | some x => simp [walk]
    rw [hwalk] at hev
    cases hx : fs.lookup tf.name with
    | none => simp [hx] at hev
    | some x =>
      simp only [hx] at hev
      have hnd' : tf.name ∉ fieldNames tfs' ∧ (fieldNames tfs').Nodup := by
        simpa [fieldNames] using hnd
      have hnotdone : tf.name ∉ done.map (·.1) := hdone _ (by simp [fieldNames])
      -- the previous value of the field
      have hold0 : (Val.struct (done ++ rest)).isAbsent = false := rfl
      have hlook : fieldOf (.struct (done ++ rest)) tf.name = rest.lookup tf.name := by
        simp [fieldOf, lookup_append_notin done rest tf.name hnotdone]
      have holdZ : OldZ p.conv.env ((rest.lookup tf.name).getD .nil) tty := by
        rcases hrest with h | ⟨k, h⟩
        · subst h; exact .inl rfl
        · subst h
          unfold zeroVal.zeroFields
          simp [List.lookup]
          exact .inr ⟨k, rfl⟩
      simp only [hold0, hlook, Bool.false_and, if_false, Bool.false_eq_true] at hev
      have hz : (ZeroCheck.none == ZeroCheck.check) = false := by decide
      simp only [hz, Bool.false_and, if_false, Bool.false_eq_true] at hev
      cases hc : evalConv p fuel { fr with parent := none } cv x
          ((rest.lookup tf.name).getD .nil) n with
      | err e => simp [hc] at hev
      | panic k => simp [hc] at hev
      | stuck w => simp [hc] at hev
      | ok r =>
        obtain ⟨nv, n1⟩ := r
        simp [hc] at hev
        have hsubx : ∀ l, l ∈ allLocs x → l ∈ allLocs.locsFields fs := fun l hl => mem_locsFields hx hl
        have himg := ihc _ cv sty tty x _ n nv n1 hcv (hwt _ _ _ _ hx hfind) holdZ
          (oldL_mono (Nat.le_refl _) hsubx hold) hc
        -- the struct after the assignment
        have hset : ∃ rest', setField (.struct (done ++ rest)) tf.name nv = .struct ((done ++ [(tf.name, nv)]) ++ rest') ∧
            (rest' = [] ∨ ∃ k, rest' = zeroVal.zeroFields p.conv.env k tfs') := by
          rcases hrest with h | ⟨k, h⟩
          · subst h
            refine ⟨[], ?_, .inl rfl⟩
            simp only [List.append_nil]
            exact setField_done done tf.name nv hnotdone
          · subst h
            refine ⟨zeroVal.zeroFields p.conv.env k tfs', ?_, .inr ⟨k, rfl⟩⟩
            have : zeroVal.zeroFields p.conv.env k ((tf, tty) :: tfs') =
                (tf.name, zeroVal p.conv.env k tty) :: zeroVal.zeroFields p.conv.env k tfs' := by
              conv => lhs; unfold zeroVal.zeroFields
            rw [this]
            apply setField_head
            · exact hnotdone
            · rw [zeroFields_names]; exact hnd'.1
        obtain ⟨rest', hset, hrest'⟩ := hset
        rw [hset] at hev
        have hdone' : ∀ nm, nm ∈ fieldNames tfs' → nm ∉ (done ++ [(tf.name, nv)]).map (·.1) := by
          intro nm hnm hmem
          simp at hmem
          rcases hmem with ⟨v0, hm⟩ | hm
          · exact hdone nm (by simp [fieldNames] at hnm ⊢; exact .inr hnm) (by simp; exact ⟨v0, hm⟩)
          · subst hm; exact hnd'.1 hnm
        obtain ⟨ws, hv', hws⟩ := ihf fr plans' sfs tfs' fs (done ++ [(tf.name, nv)]) rest' n1 v' n' hrestTy hwt hnd'.2 hdone' hrest'
          (oldL_mono himg.1 (fun _ h => h) hold) hev
        refine ⟨(tf.name, nv) :: ws, by simpa using hv', ?_⟩
        show AllocS n n' (allLocs nv ++ allLocs.locsFields ws) _ _
        exact allocS_append hold
          (allocS_mono himg hsubx (fun l _ h => .here rfl hfind hx h))
          (allocS_mono hws (fun _ h => h) (fun l _ h => .there h))

theorem fConvS_step (p : Program) (fuel : Nat) (ihc : FConvS p fuel) (ihm : FCallS p fuel) (ihe : FElemsS p fuel)
    (ihn : FEntriesS p fuel) (ihf : FFieldsS p fuel) : FConvS p (fuel + 1) := by
  intro fr c s t v old n v' n' hty hwt hold hsrc hev
  cases hty with
  | identSame =>
    unfold evalConv at hev
    have := (E_pure_ok _ _ _).1 hev
    cases this
    exact allocS_ident hsrc (fun l hl => .ident hl)
  | identBasic hs ht =>
    unfold evalConv at hev
    have := (E_pure_ok _ _ _).1 hev
    cases this
    obtain ⟨r, rfl⟩ := wt_basic_inv hwt hs
    exact allocS_nil n _ _
  | castBasic hs ht =>
    unfold evalConv at hev
    have := ihc _ .ident s t v old n v' n' (.identBasic hs ht) hwt hold hsrc hev
    obtain ⟨r, rfl⟩ := wt_basic_inv hwt hs
    exact allocS_mono this (fun _ h => h) (fun l hl _ => by simp [allLocs] at hl)
  | @callMethod _ _ m w hsig =>
    unfold evalConv at hev
    simp [List.filterMapM, List.filterMapM.loop] at hev
    obtain ⟨argVals, n1, h1, h2⟩ := (E_bind_ok _ _ _ _).1 hev
    obtain ⟨o, n2, h3, h4⟩ := (E_bind_ok _ _ _ _).1 h1
    have := (E_pure_ok _ _ _).1 h3
    cases this
    have := (E_pure_ok _ _ _).1 h4
    cases this
    cases hcm : callMethod p fuel m v [] n with
    | ok r =>
      obtain ⟨rv, rn⟩ := r
      rw [hcm] at h2
      cases h2
      have := ihm m s t v [] n v' n' hsig hwt hsrc hcm
      refine allocS_mono this (fun _ h => h) ?_
      intro l _ hsh
      obtain ⟨gm, c, hm, hb, h⟩ := hsh
      unfold sigOf at hsig
      simp [hm] at hsig
      obtain ⟨e1, e2⟩ := hsig
      exact .call hm hb e1 e2 h
    | err e => rw [hcm] at h2; cases h2
    | panic k => rw [hcm] at h2; cases h2
    | stuck w => rw [hcm] at h2; cases h2
  | @ptrPtr _ _ se te inner hs ht hin =>
    unfold evalConv at hev
    rcases wt_ptr_inv hwt hs with rfl | ⟨l, x, rfl, hx⟩
    · have := (E_pure_ok _ _ _).1 hev
      cases this
      rw [oldZ_ptr hold ht]
      exact allocS_nil n _ _
    · obtain ⟨v0, n1, h1, h2⟩ := (E_bind_ok _ _ _ _).1 hev
      obtain ⟨l0, n2, h3, h4⟩ := (E_bind_ok _ _ _ _).1 h2
      have := (E_pure_ok _ _ _).1 h4
      cases this
      have hsub : ∀ y, y ∈ allLocs x → y ∈ allLocs (.ptr l x) := fun _ h => mem_allLocs_ptr h
      have := ihc _ inner se te x _ n v0 n1 hin hx (.inr ⟨64, rfl⟩) (oldL_mono (Nat.le_refl _) hsub hsrc) h1
      have this := allocS_mono this hsub (fun y _ h => SharedAt.ptrPtr (l0 := l) hs ht h)
      have hl0 : l0 = .fresh n1 ∧ n' = n1 + 1 := by
        have := h3; rw [freshLoc_ok] at this; cases this; exact ⟨rfl, rfl⟩
      obtain ⟨rfl, rfl⟩ := hl0
      show AllocS n (n1 + 1) ((if (Loc.fresh n1 == Loc.none) = true then [] else [Loc.fresh n1]) ++ allLocs v0) _ _
      have hne : (Loc.fresh n1 == Loc.none) = false := fresh_ne_none n1
      rw [hne]
      simp only [Bool.false_eq_true, if_false]
      exact allocS_perm_cons hsrc this
  | @tgtPtr _ _ te inner hs ht hin =>
    unfold evalConv at hev
    obtain ⟨v0, n1, h1, h2⟩ := (E_bind_ok _ _ _ _).1 hev
    obtain ⟨l0, n2, h3, h4⟩ := (E_bind_ok _ _ _ _).1 h2
    have := (E_pure_ok _ _ _).1 h4
    cases this
    have := ihc _ inner s te v _ n v0 n1 hin hwt (.inr ⟨64, rfl⟩) hsrc h1
    have this := allocS_mono this (fun _ h => h) (fun y _ h => SharedAt.tgtPtr ht h)
    have hl0 : l0 = .fresh n1 ∧ n' = n1 + 1 := by
      have := h3; rw [freshLoc_ok] at this; cases this; exact ⟨rfl, rfl⟩
    obtain ⟨rfl, rfl⟩ := hl0
    show AllocS n (n1 + 1) ((if (Loc.fresh n1 == Loc.none) = true then [] else [Loc.fresh n1]) ++ allLocs v0) _ _
    have hne : (Loc.fresh n1 == Loc.none) = false := fresh_ne_none n1
    rw [hne]
    simp only [Bool.false_eq_true, if_false]
    exact allocS_perm_cons hsrc this
  | @srcPtr _ _ se inner hs ht hin =>
    unfold evalConv at hev
    rcases wt_ptr_inv hwt hs with rfl | ⟨l, x, rfl, hx⟩
    · have := (E_pure_ok _ _ _).1 hev
      cases this
      rcases hold with h | ⟨k, h⟩
      · subst h; exact allocS_nil n _ _
      · subst h; rw [allLocs_zeroVal]; exact allocS_nil n _ _
    · have hsub : ∀ y, y ∈ allLocs x → y ∈ allLocs (.ptr l x) := fun _ h => mem_allLocs_ptr h
      have := ihc _ inner se t x _ n v' n' hin hx (.inr ⟨64, rfl⟩) (oldL_mono (Nat.le_refl _) hsub hsrc) hev
      exact allocS_mono this hsub (fun y _ h => SharedAt.srcPtr (l0 := l) hs h)
  | @slice _ _ se te elem hs ht hel =>
    unfold evalConv at hev
    rcases wt_slice_inv hwt hs with rfl | ⟨l, vs, rfl, hvs⟩
    · simp only [if_true] at hev
      have := (E_pure_ok _ _ _).1 hev
      cases this
      rw [oldZ_slice hold ht]
      exact allocS_nil n _ _
    · simp only [if_true] at hev
      obtain ⟨out, n1, h1, h2⟩ := (E_bind_ok _ _ _ _).1 hev
      have hsub : ∀ y, y ∈ allLocs.locsList vs → y ∈ allLocs (.slice l vs) := fun _ h => mem_allLocs_slice h
      have himg := ihe fr elem se te vs 0 n out n1 hel hvs (oldL_mono (Nat.le_refl _) hsub hsrc) h1
      have himg := allocS_mono himg hsub (fun y _ h => by
        obtain ⟨x, hx, h⟩ := h; exact SharedAt.slice (l0 := l) (mk := true) (g := true) hs ht hx h)
      cases hvsE : vs.isEmpty with
      | true =>
        rw [hvsE] at h2
        simp only [if_true] at h2
        have := (E_pure_ok _ _ _).1 h2
        cases this
        exact ⟨himg.1, by intro l hl; simp [allLocs, allLocs.locsList] at hl, by simp [allLocs, allLocs.locsList]⟩
      | false =>
        rw [hvsE] at h2
        simp only [Bool.false_eq_true, if_false] at h2
        obtain ⟨l0, n2, h3, h4⟩ := (E_bind_ok _ _ _ _).1 h2
        have := (E_pure_ok _ _ _).1 h4
        cases this
        have hl0 : l0 = .fresh n1 ∧ n' = n1 + 1 := by
          have := h3; rw [freshLoc_ok] at this; cases this; exact ⟨rfl, rfl⟩
        obtain ⟨rfl, rfl⟩ := hl0
        show AllocS n (n1 + 1) ((if (Loc.fresh n1 == Loc.none) = true then [] else [Loc.fresh n1]) ++ allLocs.locsList out) _ _
        have hne : (Loc.fresh n1 == Loc.none) = false := fresh_ne_none n1
        rw [hne]
        simp only [Bool.false_eq_true, if_false]
        exact allocS_perm_cons hsrc himg
  | @array _ _ k se te elem hs ht hel =>
    unfold evalConv at hev
    obtain ⟨vs, rfl, hvs⟩ := wt_array_inv hwt hs
    simp only [if_true] at hev
    obtain ⟨out, n1, h1, h2⟩ := (E_bind_ok _ _ _ _).1 hev
    have hsub : ∀ y, y ∈ allLocs.locsList vs → y ∈ allLocs (.arr vs) := fun _ h => by simpa only [allLocs] using h
    have himg := ihe fr elem se te vs 0 n out n1 hel hvs (oldL_mono (Nat.le_refl _) hsub hsrc) h1
    have himg := allocS_mono himg hsub (fun y _ h => by
      obtain ⟨x, hx, h⟩ := h; exact SharedAt.array (mk := true) (g := false) hs ht hx h)
    cases hvsE : vs.isEmpty with
    | true =>
      rw [hvsE] at h2
      simp only [if_true] at h2
      have := (E_pure_ok _ _ _).1 h2
      cases this
      exact ⟨himg.1, by intro l hl; simp [allLocs, allLocs.locsList] at hl, by simp [allLocs, allLocs.locsList]⟩
    | false =>
      rw [hvsE] at h2
      simp only [Bool.false_eq_true, if_false] at h2
      obtain ⟨l0, n2, h3, h4⟩ := (E_bind_ok _ _ _ _).1 h2
      have := (E_pure_ok _ _ _).1 h4
      cases this
      have hl0 : l0 = .fresh n1 ∧ n' = n1 + 1 := by
        have := h3; rw [freshLoc_ok] at this; cases this; exact ⟨rfl, rfl⟩
      obtain ⟨rfl, rfl⟩ := hl0
      show AllocS n (n1 + 1) ((if (Loc.fresh n1 == Loc.none) = true then [] else [Loc.fresh n1]) ++ allLocs.locsList out) _ _
      have hne : (Loc.fresh n1 == Loc.none) = false := fresh_ne_none n1
      rw [hne]
      simp only [Bool.false_eq_true, if_false]
      exact allocS_perm_cons hsrc himg
  | @mapc _ _ sk sv tk tv key val hs ht hk hv =>
    unfold evalConv at hev
    rcases wt_map_inv hwt hs with rfl | ⟨l, kvs, rfl, hwk, hwv⟩
    · have := (E_pure_ok _ _ _).1 hev
      cases this
      rw [oldZ_map hold ht]
      exact allocS_nil n _ _
    · obtain ⟨out, n1, h1, h2⟩ := (E_bind_ok _ _ _ _).1 hev
      obtain ⟨l0, n2, h3, h4⟩ := (E_bind_ok _ _ _ _).1 h2
      have := (E_pure_ok _ _ _).1 h4
      cases this
      have hsub : ∀ y, y ∈ allLocs.locsEntries kvs → y ∈ allLocs (.map l kvs) := fun _ h => mem_allLocs_map h
      have himg := ihn fr key val sk sv tk tv kvs n out n1 hk hv hwk hwv (oldL_mono (Nat.le_refl _) hsub hsrc) h1
      have himg := allocS_mono himg hsub (fun y _ h => by
        obtain ⟨a, b, hab, h⟩ := h
        rcases h with h | h
        · exact SharedAt.mapKey (l0 := l) (val := val) hs ht hab h
        · exact SharedAt.mapVal (l0 := l) (key := key) hs ht hab h)
      have hl0 : l0 = .fresh n1 ∧ n' = n1 + 1 := by
        have := h3; rw [freshLoc_ok] at this; cases this; exact ⟨rfl, rfl⟩
      obtain ⟨rfl, rfl⟩ := hl0
      show AllocS n (n1 + 1) ((if (Loc.fresh n1 == Loc.none) = true then [] else [Loc.fresh n1]) ++ allLocs.locsEntries out) _ _
      have hne : (Loc.fresh n1 == Loc.none) = false := fresh_ne_none n1
      rw [hne]
      simp only [Bool.false_eq_true, if_false]
      exact allocS_perm_cons hsrc himg
  | @structc _ _ sfs tfs plans upd hs ht hnd hfs =>
    unfold evalConv at hev
    obtain ⟨fs, rfl, hfwt⟩ := wt_struct_inv hwt hs
    -- the previous value, normalised: a struct without fields, or the zero struct
    have hshape : ∃ rest, normStruct old = .struct rest ∧
        (rest = [] ∨ ∃ k, rest = zeroVal.zeroFields p.conv.env k tfs.toList) := by
      rcases hold with h | ⟨k, h⟩
      · subst h; exact ⟨[], rfl, .inl rfl⟩
      · obtain ⟨rest, hz, hr⟩ := zeroVal_struct_shape (env := p.conv.env) k ht
        rw [h, hz]; exact ⟨rest, rfl, hr⟩
    obtain ⟨rest, hnorm, hrest⟩ := hshape
    rw [hnorm] at hev
    have hsub : ∀ y, y ∈ allLocs.locsFields fs → y ∈ allLocs (.struct fs) := fun _ h => by simpa only [allLocs] using h
    obtain ⟨ws, hv', hws⟩ := ihf fr plans sfs.toList tfs.toList fs [] rest n v' n' hfs hfwt hnd (by simp) hrest
      (oldL_mono (Nat.le_refl _) hsub hsrc) (by simpa using hev)
    subst hv'
    show AllocS n n' (allLocs.locsFields ([] ++ ws)) _ _
    simp only [List.nil_append]
    exact allocS_mono hws hsub (fun y _ h => SharedAt.structc hs ht h)

/-! ### all fuels -/

theorem freshS_all (p : Program) (hp : ProgOKS p) :
    ∀ fuel, FConvS p fuel ∧ FCallS p fuel ∧ FElemsS p fuel ∧ FEntriesS p fuel ∧ FFieldsS p fuel := by
  intro fuel
  induction fuel with
  | zero =>
    refine ⟨?_, ?_, ?_, ?_, ?_⟩
    · intro fr c s t v old n v' n' _ _ _ _ hev; unfold evalConv at hev; cases hev
    · intro m s t v cs n v' n' _ _ _ hev; unfold callMethod at hev; cases hev
    · intro fr elem se te vs i n out n' _ _ _ hev; unfold evalElems at hev; cases hev
    · intro fr key val sk sv tk tv kvs n out n' _ _ _ _ _ hev; unfold evalEntries at hev; cases hev
    · intro fr plans sfs tfs fs done rest n v' n' _ _ _ _ _ _ hev; unfold evalFields at hev; cases hev
  | succ fuel ih =>
    obtain ⟨ihc, ihm, ihe, ihn, ihf⟩ := ih
    exact ⟨fConvS_step p fuel ihc ihm ihe ihn ihf, fCallS_step p hp fuel ihc, fElemsS_step p fuel ihc ihe,
      fEntriesS_step p fuel ihc ihn, fFieldsS_step p fuel ihc ihf⟩

/-- **Freshness with sharing positions** (C04, composite for skipCopySameType): every reference cell of the result of a
method of a program with sharing positions was allocated during the call (counter interval `[n, n')`, no such cell
twice), or is a cell of the source that occurs in the sub-value at a sharing position (`.ident` at identical types). -/
theorem callMethod_freshS (p : Program) (hp : ProgOKS p) (fuel m : Nat) (s t : Ty) (v : Val) (n : Nat) (v' : Val) (n' : Nat)
    (hsig : sigOf p m = some (s, t)) (hwt : WT p.conv.env v s) (hsrc : OldL n (allLocs v))
    (hev : callMethod p fuel m v [] n = .ok (v', n')) :
    AllocS n n' (allLocs v') (allLocs v) (SharedCall p m v) :=
  (freshS_all p hp fuel).2.1 m s t v [] n v' n' hsig hwt hsrc hev

/-! ### shared cells are cells of the source -/

mutual
  theorem SharedAt.mem_src {p : Program} : ∀ {c : Conv} {s t : Ty} {v : Val} {l : Loc}, SharedAt p c s t v l → l ∈ allLocs v
    | _, _, _, _, _, .ident h => h
    | _, _, _, _, _, .call _ _ _ _ h => SharedAt.mem_src h
    | _, _, _, _, _, .ptrPtr _ _ h => mem_allLocs_ptr (SharedAt.mem_src h)
    | _, _, _, _, _, .tgtPtr _ h => SharedAt.mem_src h
    | _, _, _, _, _, .srcPtr _ h => mem_allLocs_ptr (SharedAt.mem_src h)
    | _, _, _, _, _, .slice _ _ hx h => mem_allLocs_slice (mem_locsList hx (SharedAt.mem_src h))
    | _, _, _, _, _, .array _ _ hx h => by
      simp only [allLocs]; exact mem_locsList hx (SharedAt.mem_src h)
    | _, _, _, _, _, .mapKey _ _ hx h => mem_allLocs_map (mem_locsEntries_key hx (SharedAt.mem_src h))
    | _, _, _, _, _, .mapVal _ _ hx h => mem_allLocs_map (mem_locsEntries_val hx (SharedAt.mem_src h))
    | _, _, _, _, _, .structc _ _ h => by
      simp only [allLocs]; exact SharedAtFields.mem_src h
  theorem SharedAtFields.mem_src {p : Program} : ∀ {plans : FieldPlans} {sfs tfs : List (FieldInfo × Ty)} {fs : List (S × Val)} {l : Loc},
      SharedAtFields p plans sfs tfs fs l → l ∈ allLocs.locsFields fs
    | _, _, _, _, _, .here _ _ hx h => mem_locsFields hx (SharedAt.mem_src h)
    | _, _, _, _, _, .there h => SharedAtFields.mem_src h
end

/-! ### without sharing positions the checker is the old one -/

open Gv.PlanCheck Gv.PlanCheckS in
mutual
  theorem checkTyS_noShare (p : Program) : ∀ (c : Conv) (s t : Ty), checkTyS p c s t = true → hasShareTy p c s t = false →
      checkTy p c s t = true
    | .ident, s, t, h, hn => by
      unfold checkTyS at h
      unfold hasShareTy sharePos at hn
      unfold checkTy
      rw [Bool.or_eq_true] at h
      rcases h with h | h
      · have := Ty.eq_of_beq' h
        subst this
        simp only [h, Bool.true_and, Bool.not_eq_false'] at hn
        unfold isBasicTy at hn
        split at hn
        · rename_i k hk
          simp [hk]
        · cases hn
      · exact h
    | .cast inner, s, t, h, _ => by
      unfold checkTyS at h
      unfold checkTy
      exact h
    | .call callee args retErr w, s, t, h, _ => by
      unfold checkTyS at h
      unfold checkTy
      exact h
    | .ptrPtr te inner, s, t, h, hn => by
      unfold checkTyS at h
      unfold hasShareTy at hn
      unfold checkTy
      cases hs : under p.conv.env s <;> cases ht : under p.conv.env t <;> simp only [hs, ht] at h hn ⊢ <;> try (cases h; done)
      all_goals (simp only [Bool.and_eq_true] at h ⊢; exact ⟨h.1, checkTyS_noShare p inner _ _ h.2 hn⟩)
    | .tgtPtr te inner, s, t, h, hn => by
      unfold checkTyS at h
      unfold hasShareTy at hn
      unfold checkTy
      cases hs : under p.conv.env s <;> cases ht : under p.conv.env t <;> simp only [hs, ht] at h hn ⊢ <;> try (cases h; done)
      all_goals (simp only [Bool.and_eq_true] at h ⊢; exact ⟨h.1, checkTyS_noShare p inner _ _ h.2 hn⟩)
    | .srcPtr t' inner, s, t, h, hn => by
      unfold checkTyS at h
      unfold hasShareTy at hn
      unfold checkTy
      cases hs : under p.conv.env s <;> cases ht : under p.conv.env t <;> simp only [hs, ht] at h hn ⊢ <;> try (cases h; done)
      all_goals (simp only [Bool.and_eq_true] at h ⊢; exact ⟨h.1, checkTyS_noShare p inner _ _ h.2 hn⟩)
    | .list te hasMake hasGuard elem, s, t, h, hn => by
      unfold checkTyS at h
      unfold hasShareTy at hn
      unfold checkTy
      cases hs : under p.conv.env s <;> cases ht : under p.conv.env t <;> simp only [hs, ht] at h hn ⊢ <;> try (cases h; done)
      all_goals (simp only [Bool.and_eq_true] at h ⊢; exact ⟨h.1, checkTyS_noShare p elem _ _ h.2 hn⟩)
    | .mapc tk tv key val, s, t, h, hn => by
      unfold checkTyS at h
      unfold hasShareTy at hn
      unfold checkTy
      cases hs : under p.conv.env s <;> cases ht : under p.conv.env t <;> simp only [hs, ht] at h hn ⊢ <;> try (cases h; done)
      all_goals (
        simp only [Bool.and_eq_true] at h ⊢
        simp only [Bool.or_eq_false_iff] at hn
        exact ⟨⟨h.1.1, checkTyS_noShare p key _ _ h.1.2 hn.1⟩, checkTyS_noShare p val _ _ h.2 hn.2⟩)
    | .structc plans upd, s, t, h, hn => by
      unfold checkTyS at h
      unfold hasShareTy at hn
      unfold checkTy
      cases hs : under p.conv.env s <;> cases ht : under p.conv.env t <;> simp only [hs, ht] at h hn ⊢ <;> try (cases h; done)
      all_goals (simp only [Bool.and_eq_true] at h ⊢; exact ⟨h.1, checkFieldsS_noShare p plans _ _ h.2 hn⟩)
    | .underlying _ _ _, _, _, h, _ => by unfold checkTyS at h; cases h
    | .enumc _ _, _, _, h, _ => by unfold checkTyS at h; cases h
    | .withCtor _ _ _, _, _, h, _ => by unfold checkTyS at h; cases h
    | .ctorUpdate _ _ _ _ _, _, _, h, _ => by unfold checkTyS at h; cases h
  theorem checkFieldsS_noShare (p : Program) : ∀ (plans : FieldPlans) (sfs tfs : List (FieldInfo × Ty)),
      checkFieldsS p plans sfs tfs = true → hasShareFields p plans sfs tfs = false → checkFields p plans sfs tfs = true
    | .nil, _, [], _, _ => by unfold checkFields; rfl
    | .nil, _, _ :: _, h, _ => by unfold checkFieldsS at h; cases h
    | .cons f rest, sfs, [], h, _ => by unfold checkFieldsS at h; cases h
    | .cons f rest, sfs, (tf, tty) :: tfs, h, hn => by
      unfold checkFieldsS at h
      unfold hasShareFields at hn
      unfold checkFields
      simp only [Bool.and_eq_true] at h ⊢
      simp only [Bool.or_eq_false_iff] at hn
      refine ⟨?_, checkFieldsS_noShare p rest sfs tfs h.2 hn.2⟩
      cases f with
      | skip _ => have := h.1; unfold checkFieldS at this; cases this
      | viaMethod _ _ _ _ _ _ _ _ => have := h.1; unfold checkFieldS at this; cases this
      | mapped target path derefs guarded b cv zero =>
        have hf := h.1
        have hnf := hn.1
        unfold checkFieldS at hf
        unfold hasShareField at hnf
        unfold checkField
        simp only [Bool.and_eq_true] at hf ⊢
        refine ⟨hf.1, ?_⟩
        cases hfd : sfs.find? (fun (x : FieldInfo × Ty) => x.1.name == tf.name) with
        | none => simp [hfd] at hf
        | some q =>
          obtain ⟨sf, sty⟩ := q
          simp only [hfd] at hf hnf ⊢
          exact checkTyS_noShare p cv sty tty hf.2 hnf
end

open Gv.PlanCheck Gv.PlanCheckS in
mutual
  theorem checkTy_checkTyS (p : Program) : ∀ (c : Conv) (s t : Ty), checkTy p c s t = true →
      checkTyS p c s t = true ∧ hasShareTy p c s t = false
    | .ident, s, t, h => by
      unfold checkTy at h
      unfold checkTyS hasShareTy sharePos isBasicTy
      split at h
      · rename_i k1 k2 h1 h2
        simp [h1, h2, h]
      · cases h
    | .cast inner, s, t, h => by
      unfold checkTy at h
      unfold checkTyS hasShareTy
      exact ⟨h, rfl⟩
    | .call callee args retErr w, s, t, h => by
      unfold checkTy at h
      unfold checkTyS hasShareTy
      exact ⟨h, rfl⟩
    | .ptrPtr te inner, s, t, h => by
      unfold checkTy at h
      unfold checkTyS hasShareTy
      cases hs : under p.conv.env s <;> cases ht : under p.conv.env t <;> simp only [hs, ht] at h ⊢ <;> try (cases h; done)
      all_goals (
        simp only [Bool.and_eq_true] at h ⊢
        have ih := checkTy_checkTyS p inner _ _ h.2
        exact ⟨⟨h.1, ih.1⟩, ih.2⟩)
    | .tgtPtr te inner, s, t, h => by
      unfold checkTy at h
      unfold checkTyS hasShareTy
      cases hs : under p.conv.env s <;> cases ht : under p.conv.env t <;> simp only [hs, ht] at h ⊢ <;> try (cases h; done)
      all_goals (
        simp only [Bool.and_eq_true] at h ⊢
        have ih := checkTy_checkTyS p inner _ _ h.2
        exact ⟨⟨h.1, ih.1⟩, ih.2⟩)
    | .srcPtr t' inner, s, t, h => by
      unfold checkTy at h
      unfold checkTyS hasShareTy
      cases hs : under p.conv.env s <;> cases ht : under p.conv.env t <;> simp only [hs, ht] at h ⊢ <;> try (cases h; done)
      all_goals (
        simp only [Bool.and_eq_true] at h ⊢
        have ih := checkTy_checkTyS p inner _ _ h.2
        exact ⟨⟨h.1, ih.1⟩, ih.2⟩)
    | .list te hasMake hasGuard elem, s, t, h => by
      unfold checkTy at h
      unfold checkTyS hasShareTy
      cases hs : under p.conv.env s <;> cases ht : under p.conv.env t <;> simp only [hs, ht] at h ⊢ <;> try (cases h; done)
      all_goals (
        simp only [Bool.and_eq_true] at h ⊢
        have ih := checkTy_checkTyS p elem _ _ h.2
        exact ⟨⟨h.1, ih.1⟩, ih.2⟩)
    | .mapc tk tv key val, s, t, h => by
      unfold checkTy at h
      unfold checkTyS hasShareTy
      cases hs : under p.conv.env s <;> cases ht : under p.conv.env t <;> simp only [hs, ht] at h ⊢ <;> try (cases h; done)
      all_goals (
        simp only [Bool.and_eq_true] at h ⊢
        simp only [Bool.or_eq_false_iff]
        have ih1 := checkTy_checkTyS p key _ _ h.1.2
        have ih2 := checkTy_checkTyS p val _ _ h.2
        exact ⟨⟨⟨h.1.1, ih1.1⟩, ih2.1⟩, ih1.2, ih2.2⟩)
    | .structc plans upd, s, t, h => by
      unfold checkTy at h
      unfold checkTyS hasShareTy
      cases hs : under p.conv.env s <;> cases ht : under p.conv.env t <;> simp only [hs, ht] at h ⊢ <;> try (cases h; done)
      all_goals (
        simp only [Bool.and_eq_true] at h ⊢
        have ih := checkFields_checkFieldsS p plans _ _ h.2
        exact ⟨⟨h.1, ih.1⟩, ih.2⟩)
    | .underlying _ _ _, _, _, h => by unfold checkTy at h; cases h
    | .enumc _ _, _, _, h => by unfold checkTy at h; cases h
    | .withCtor _ _ _, _, _, h => by unfold checkTy at h; cases h
    | .ctorUpdate _ _ _ _ _, _, _, h => by unfold checkTy at h; cases h
  theorem checkFields_checkFieldsS (p : Program) : ∀ (plans : FieldPlans) (sfs tfs : List (FieldInfo × Ty)),
      checkFields p plans sfs tfs = true → checkFieldsS p plans sfs tfs = true ∧ hasShareFields p plans sfs tfs = false
    | .nil, _, [], _ => by unfold checkFieldsS hasShareFields; exact ⟨rfl, rfl⟩
    | .nil, _, _ :: _, h => by unfold checkFields at h; cases h
    | .cons f rest, sfs, [], h => by unfold checkFields at h; cases h
    | .cons f rest, sfs, (tf, tty) :: tfs, h => by
      unfold checkFields at h
      unfold checkFieldsS hasShareFields
      simp only [Bool.and_eq_true] at h ⊢
      simp only [Bool.or_eq_false_iff]
      have ihr := checkFields_checkFieldsS p rest sfs tfs h.2
      cases f with
      | skip _ => have := h.1; unfold checkField at this; cases this
      | viaMethod _ _ _ _ _ _ _ _ => have := h.1; unfold checkField at this; cases this
      | mapped target path derefs guarded b cv zero =>
        have hf := h.1
        unfold checkField at hf
        unfold checkFieldS hasShareField
        simp only [Bool.and_eq_true] at hf ⊢
        cases hfd : sfs.find? (fun (x : FieldInfo × Ty) => x.1.name == tf.name) with
        | none => simp [hfd] at hf
        | some q =>
          obtain ⟨sf, sty⟩ := q
          simp only [hfd] at hf ⊢
          have ih := checkTy_checkTyS p cv sty tty hf.2
          exact ⟨⟨⟨hf.1, ih.1⟩, ihr.1⟩, ih.2, ihr.2⟩
end

/-- `PlanCheck.checkProg` = `PlanCheckS.checkProgS` without sharing positions -/
theorem checkProg_iff_checkProgS_noShare (p : Program) :
    PlanCheck.checkProg p = true ↔ (PlanCheckS.checkProgS p = true ∧ PlanCheckS.progHasShare p = false) := by
  unfold PlanCheck.checkProg PlanCheckS.checkProgS PlanCheckS.progHasShare
  rw [List.all_eq_true, List.all_eq_true, List.any_eq_false]
  constructor
  · intro h
    refine ⟨fun gm hgm => ?_, fun gm hgm => ?_⟩
    · have := h gm hgm
      cases hb : gm.body with
      | none => simp [hb] at this
      | some b =>
        cases b with
        | convert c => simp only [hb] at this ⊢; exact (checkTy_checkTyS p c _ _ this).1
        | delegate _ _ _ => simp [hb] at this
        | update _ _ => simp [hb] at this
    · have := h gm hgm
      cases hb : gm.body with
      | none => simp [hb] at this
      | some b =>
        cases b with
        | convert c => simp only [hb] at this ⊢; rw [(checkTy_checkTyS p c _ _ this).2]; simp
        | delegate _ _ _ => simp [hb] at this
        | update _ _ => simp [hb] at this
  · rintro ⟨h1, h2⟩ gm hgm
    have a := h1 gm hgm
    have b := h2 gm hgm
    cases hb : gm.body with
    | none => simp [hb] at a
    | some bd =>
      cases bd with
      | convert c =>
        simp only [hb] at a b ⊢
        exact checkTyS_noShare p c _ _ a (by simpa using b)
      | delegate _ _ _ => simp [hb] at a
      | update _ _ => simp [hb] at a

/-! ### a shared cell needs a sharing position of the checker -/

mutual
  theorem Ty.beq_refl : ∀ (a : Ty), Ty.beq a a = true
    | .basic a => by unfold Ty.beq; simp
    | .named a => by unfold Ty.beq; simp
    | .ptr a => by unfold Ty.beq; exact Ty.beq_refl a
    | .slice a => by unfold Ty.beq; exact Ty.beq_refl a
    | .array n a => by unfold Ty.beq; simp [Ty.beq_refl a]
    | .map k v => by unfold Ty.beq; simp [Ty.beq_refl k, Ty.beq_refl v]
    | .struct a => by unfold Ty.beq; exact Fields.beq_refl a
    | .opaque k s => by unfold Ty.beq; simp
  theorem Fields.beq_refl : ∀ (a : Fields), Fields.beq a a = true
    | .nil => by unfold Fields.beq; rfl
    | .cons f t r => by unfold Fields.beq; simp [Ty.beq_refl t, Fields.beq_refl r]
end

theorem Ty.beq_self (a : Ty) : (a == a) = true := Ty.beq_refl a

open Gv.PlanCheckS in
/-- a method body with a sharing position makes `progHasShare` true -/
theorem progHasShare_of_method {p : Program} {m : Nat} {gm : GenMethod} {c : Conv}
    (hm : p.methods[m]? = some gm) (hb : gm.body = some (Body.convert c))
    (h : hasShareTy p c gm.source gm.target = true) : progHasShare p = true := by
  unfold progHasShare
  rw [List.any_eq_true]
  have hmem : gm ∈ p.methods := by
    obtain ⟨hlt, he⟩ := List.getElem?_eq_some_iff.1 hm
    exact he ▸ List.getElem_mem hlt
  exact ⟨gm, hmem, by simp only [hb]; exact h⟩

open Gv.PlanCheckS in
mutual
  /-- a cell at a sharing position of a well-typed plan over a well-typed value: the plan (or the body of a called
      method) has a sharing position in the sense of the checker -/
  theorem SharedAt.hasShare {p : Program} (hp : ProgOKS p) : ∀ {c : Conv} {s t : Ty} {v : Val} {l : Loc},
      SharedAt p c s t v l → HasTyS p c s t → WT p.conv.env v s → hasShareTy p c s t = true ∨ progHasShare p = true
    | _, _, _, _, _, .ident hl, _, hwt => by
      rename_i s v l
      left
      unfold hasShareTy sharePos isBasicTy
      rw [Ty.beq_self, Bool.true_and]
      split
      · rename_i k hk
        obtain ⟨r, rfl⟩ := wt_basic_inv hwt hk
        simp [allLocs] at hl
      · rfl
    | _, _, _, _, _, .call (gm := gm) (c := c) hm hb e1 e2 h, _, hwt => by
      right
      obtain ⟨c', hb', hty'⟩ := hp _ gm hm
      rw [hb] at hb'
      cases hb'
      subst e1
      rcases SharedAt.hasShare hp h hty' hwt with h' | h'
      · exact progHasShare_of_method hm hb h'
      · exact h'
    | _, _, _, _, _, .ptrPtr hs ht h, hty, hwt => by
      cases hty with
      | ptrPtr hs' ht' hin =>
        rw [hs] at hs'; cases hs'
        rcases wt_ptr_inv hwt hs with h0 | ⟨l1, x1, e, hx⟩
        · cases h0
        · cases e
          rcases SharedAt.hasShare hp h hin hx with h' | h'
          · left; unfold hasShareTy; simp only [hs]; exact h'
          · exact .inr h'
    | _, _, _, _, _, .tgtPtr ht h, hty, hwt => by
      cases hty with
      | tgtPtr hs' ht' hin =>
        rcases SharedAt.hasShare hp h hin hwt with h' | h'
        · left; unfold hasShareTy; exact h'
        · exact .inr h'
    | _, _, _, _, _, .srcPtr hs h, hty, hwt => by
      cases hty with
      | srcPtr hs' ht' hin =>
        rw [hs] at hs'; cases hs'
        rcases wt_ptr_inv hwt hs with h0 | ⟨l1, x1, e, hx⟩
        · cases h0
        · cases e
          rcases SharedAt.hasShare hp h hin hx with h' | h'
          · left; unfold hasShareTy; simp only [hs]; exact h'
          · exact .inr h'
    | _, _, _, _, _, .slice hs ht hmem h, hty, hwt => by
      cases hty with
      | slice hs' ht' hel =>
        rw [hs] at hs'; cases hs'
        rcases wt_slice_inv hwt hs with h0 | ⟨l1, vs1, e, hvs⟩
        · cases h0
        · cases e
          rcases SharedAt.hasShare hp h hel (hvs _ hmem) with h' | h'
          · left; unfold hasShareTy; simp only [hs]; exact h'
          · exact .inr h'
      | array hs' ht' hel => rw [hs] at hs'; cases hs'
    | _, _, _, _, _, .array hs ht hmem h, hty, hwt => by
      cases hty with
      | slice hs' ht' hel => rw [hs] at hs'; cases hs'
      | array hs' ht' hel =>
        rw [hs] at hs'; cases hs'
        obtain ⟨vs1, e, hvs⟩ := wt_array_inv hwt hs
        cases e
        rcases SharedAt.hasShare hp h hel (hvs _ hmem) with h' | h'
        · left; unfold hasShareTy; simp only [hs]; exact h'
        · exact .inr h'
    | _, _, _, _, _, .mapKey hs ht hmem h, hty, hwt => by
      cases hty with
      | mapc hs' ht' hk hv =>
        rw [hs] at hs'; cases hs'
        rcases wt_map_inv hwt hs with h0 | ⟨l1, kvs1, e, hwk, hwv⟩
        · cases h0
        · cases e
          rcases SharedAt.hasShare hp h hk (hwk _ _ hmem) with h' | h'
          · left; unfold hasShareTy; simp only [hs, h', Bool.true_or]
          · exact .inr h'
    | _, _, _, _, _, .mapVal hs ht hmem h, hty, hwt => by
      cases hty with
      | mapc hs' ht' hk hv =>
        rw [hs] at hs'; cases hs'
        rcases wt_map_inv hwt hs with h0 | ⟨l1, kvs1, e, hwk, hwv⟩
        · cases h0
        · cases e
          rcases SharedAt.hasShare hp h hv (hwv _ _ hmem) with h' | h'
          · left; unfold hasShareTy; simp only [hs, h', Bool.or_true]
          · exact .inr h'
    | _, _, _, _, _, .structc hs ht h, hty, hwt => by
      cases hty with
      | structc hs' ht' hnd hfs =>
        rw [hs] at hs'; cases hs'
        rw [ht] at ht'; cases ht'
        obtain ⟨fs1, e, hfwt⟩ := wt_struct_inv hwt hs
        cases e
        rcases SharedAtFields.hasShare hp h hfs hfwt with h' | h'
        · left; unfold hasShareTy; simp only [hs, ht]; exact h'
        · exact .inr h'
  theorem SharedAtFields.hasShare {p : Program} (hp : ProgOKS p) :
      ∀ {plans : FieldPlans} {sfs tfs : List (FieldInfo × Ty)} {fs : List (S × Val)} {l : Loc},
      SharedAtFields p plans sfs tfs fs l → HasFieldsS p plans sfs tfs →
      (∀ name x f ty, fs.lookup name = some x →
        sfs.find? (fun (y : FieldInfo × Ty) => y.1.name == name) = some (f, ty) → WT p.conv.env x ty) →
      hasShareFields p plans sfs tfs = true ∨ progHasShare p = true
    | _, _, _, _, _, .here htn hfind hx h, hty, hwt => by
      cases hty with
      | cons hfind' hcv hrest =>
        rw [hfind] at hfind'; cases hfind'
        rcases SharedAt.hasShare hp h hcv (hwt _ _ _ _ hx hfind) with h' | h'
        · left; unfold hasShareFields hasShareField; simp only [hfind, h', Bool.true_or]
        · exact .inr h'
    | _, _, _, _, _, .there h, hty, hwt => by
      cases hty with
      | cons hfind' hcv hrest =>
        rcases SharedAtFields.hasShare hp h hrest hwt with h' | h'
        · left; unfold hasShareFields; simp only [h', Bool.or_true]
        · exact .inr h'
end

/-- a cell at a sharing position of a call: some method body of the program has a sharing position -/
theorem sharedCall_progHasShare {p : Program} (hp : ProgOKS p) {m : Nat} {s t : Ty} {v : Val} {l : Loc}
    (hsig : sigOf p m = some (s, t)) (hwt : WT p.conv.env v s) (h : SharedCall p m v l) :
    PlanCheckS.progHasShare p = true := by
  obtain ⟨gm, c, hm, hb, h⟩ := h
  obtain ⟨c', hb', hty⟩ := hp m gm hm
  rw [hb] at hb'
  cases hb'
  unfold sigOf at hsig
  simp [hm] at hsig
  obtain ⟨e1, _⟩ := hsig
  subst e1
  rcases SharedAt.hasShare hp h hty hwt with h' | h'
  · exact progHasShare_of_method hm hb h'
  · exact h'

end Gv.Sound
