/-
The first sentence of C07 for EXPLICIT methods run on their arguments (`Eval.runMethod`), update methods included:
only real failures come up, and the first failing call of the body comes up — both directions.
-/
import Gv.Proofs.ErrUp

namespace Gv.Sound
open Gv Gv.Str Gv.Eval

/-- the context arguments and the update target among the arguments of an explicit method, in declared order -/
def ctxOf (gm : GenMethod) (argVals : List Val) : List Val :=
  ((gm.args.zip argVals).filter (fun (a, _) => a.use == .context)).map (·.2)

def tgtOf (gm : GenMethod) (argVals : List Val) : Val :=
  (((gm.args.zip argVals).find? (fun (a, _) => a.use == .target)).map (·.2)).getD .nil

/-- the frame the body of an update method runs in -/
def updFrame (m : Nat) (gm : GenMethod) (argVals : List Val) (sp : Bool) : Frame :=
  { self := m, ctx := ((gm.args.filter (fun a => a.use == .context)).map (·.ty)).zip (ctxOf gm argVals), idx := [], keys := [],
    parent := updParent sp (srcOf gm argVals) }

/-- what the body of an update method assigns onto: what the target points to, or nothing for a nil target -/
def updOld : Val → Option Val
  | .ptr _ tv => some tv
  | .nil => some .absent
  | _ => none

/-- `if source != nil` of an update method with a pointer source -/
def updSkips (sp : Bool) (src : Val) : Bool := sp && (match src with | .nil => true | _ => false)

/-- **only real failures come up**, for explicit methods run on their arguments (update methods included) -/
theorem runMethod_caused_by (p : Program) (m : Nat) (argVals : List Val) (fuel : Nat) (e : ErrV)
    (h : runMethod p m argVals fuel = .err e) : CausedBy p e := by
  unfold runMethod at h
  split at h
  · cases h
  · simp only [] at h
    repeat' split at h
    all_goals first
      | (cases h; done)
      | (injection h with he
         subst he
         have heq := ‹evalConv p fuel _ _ _ _ _ = Outcome.err _›
         exact evalConv_caused_by p fuel _ _ _ _ _ _ heq)
      | (injection h with he
         subst he
         have heq := ‹callMethod p fuel m _ _ _ = Outcome.err _›
         exact callMethod_caused_by p fuel m _ _ _ _ heq)

/-- `runMethod` on an update method, with the pieces named -/
theorem runMethod_update_eq (p : Program) (m : Nat) (gm : GenMethod) (sp : Bool) (c : Conv) (argVals : List Val) (fuel : Nat)
    (hm : p.methods[m]? = some gm) (hb : gm.body = some (.update sp c)) :
    runMethod p m argVals fuel =
      match tgtOf gm argVals with
      | .ptr l tv =>
        if updSkips sp (srcOf gm argVals) = true then .ok (tgtOf gm argVals)
        else
          match evalConv p fuel (updFrame m gm argVals sp) c (updSource sp (srcOf gm argVals)) tv 0 with
          | .ok (nv, _) => .ok (.ptr l nv)
          | .err e => .err e
          | .panic k => .panic k
          | .stuck w => .stuck w
      | .nil =>
        if updSkips sp (srcOf gm argVals) = true then .ok .nil
        else
          match evalConv p fuel (updFrame m gm argVals sp) c (updSource sp (srcOf gm argVals)) .absent 0 with
          | .ok (nv, _) => if nv.isAbsent then .ok .nil else .panic .nilDeref
          | .err e => .err e
          | .panic k => .panic k
          | .stuck w => .stuck w
      | _ => .stuck "update target must be a pointer" := by
  unfold runMethod
  simp only [hm, hb]
  cases htg : tgtOf gm argVals <;> (unfold tgtOf at htg; simp only [htg]) <;> rfl

/-- `runMethod` on a converting / delegating method -/
theorem runMethod_call_eq (p : Program) (m : Nat) (gm : GenMethod) (argVals : List Val) (fuel : Nat)
    (hm : p.methods[m]? = some gm) (hb : ∀ sp c, gm.body ≠ some (.update sp c)) :
    runMethod p m argVals fuel =
      match callMethod p fuel m (srcOf gm argVals) (ctxOf gm argVals) 0 with
      | .ok (v, _) => .ok v
      | .err e => .err e
      | .panic k => .panic k
      | .stuck w => .stuck w := by
  unfold runMethod
  simp only [hm]
  cases hbody : gm.body with
  | none => rfl
  | some b =>
    cases b with
    | update sp c => exact absurd hbody (hb sp c)
    | convert c => rfl
    | delegate i a r => rfl

/-- **never swallowed and nothing else**, update methods: the update method returns the error `e` exactly when its body
(run on the source, onto what the target points to) reaches, after error-free earlier fields, a failing call whose failure
wrapped on the way up is `e` -/
theorem runMethod_update_err_iff (p : Program) (m : Nat) (gm : GenMethod) (sp : Bool) (c : Conv) (argVals : List Val) (fuel : Nat)
    (e : ErrV) (hm : p.methods[m]? = some gm) (hb : gm.body = some (.update sp c)) :
    runMethod p m argVals fuel = .err e ↔
      ∃ old0 root, updOld (tgtOf gm argVals) = some old0 ∧ updSkips sp (srcOf gm argVals) = false ∧
        ErrIn p fuel (updFrame m gm argVals sp) 0 (.conv c (updSource sp (srcOf gm argVals)) old0) e root := by
  rw [runMethod_update_eq p m gm sp c argVals fuel hm hb]
  cases htg : tgtOf gm argVals with
  | ptr l tv =>
    simp only [updOld]
    cases hs : updSkips sp (srcOf gm argVals) with
    | true => simp
    | false =>
      simp only [Bool.false_eq_true, if_false]
      constructor
      · intro h
        cases hc : evalConv p fuel (updFrame m gm argVals sp) c (updSource sp (srcOf gm argVals)) tv 0 with
        | ok r => rw [hc] at h; cases h
        | err e' =>
          rw [hc] at h; cases h
          obtain ⟨root, hr⟩ := (evalConv_err_iff p fuel _ c _ _ 0 e).1 hc
          exact ⟨tv, root, rfl, trivial, hr⟩
        | panic k => rw [hc] at h; cases h
        | stuck w => rw [hc] at h; cases h
      · rintro ⟨old0, root, ho, _, hr⟩
        cases ho
        have := (errIn_sound hr).1
        simp only [Task.errs] at this
        rw [this]
  | nil =>
    simp only [updOld]
    cases hs : updSkips sp (srcOf gm argVals) with
    | true => simp
    | false =>
      simp only [Bool.false_eq_true, if_false]
      constructor
      · intro h
        cases hc : evalConv p fuel (updFrame m gm argVals sp) c (updSource sp (srcOf gm argVals)) .absent 0 with
        | ok r => rw [hc] at h; simp only [] at h; split at h <;> cases h
        | err e' =>
          rw [hc] at h; cases h
          obtain ⟨root, hr⟩ := (evalConv_err_iff p fuel _ c _ _ 0 e).1 hc
          exact ⟨.absent, root, rfl, trivial, hr⟩
        | panic k => rw [hc] at h; cases h
        | stuck w => rw [hc] at h; cases h
      · rintro ⟨old0, root, ho, _, hr⟩
        cases ho
        have := (errIn_sound hr).1
        simp only [Task.errs] at this
        rw [this]
  | _ => simp [updOld]

/-- … and converting / delegating explicit methods -/
theorem runMethod_call_err_iff (p : Program) (m : Nat) (gm : GenMethod) (argVals : List Val) (fuel : Nat) (fr : Frame)
    (e : ErrV) (hm : p.methods[m]? = some gm) (hb : ∀ sp c, gm.body ≠ some (.update sp c)) :
    runMethod p m argVals fuel = .err e ↔
      ∃ root, ErrIn p fuel fr 0 (.call m (srcOf gm argVals) (ctxOf gm argVals)) e root := by
  rw [runMethod_call_eq p m gm argVals fuel hm hb, ← callMethod_err_iff]
  cases hc : callMethod p fuel m (srcOf gm argVals) (ctxOf gm argVals) 0 with
  | ok r => simp
  | err e' => simp
  | panic k => simp
  | stuck w => simp

/-- the root cause of the error of an update method is the failure the walk ends at -/
theorem runMethod_update_root (p : Program) (fuel : Nat) (fr : Frame) (c : Conv) (v old0 : Val) (e root : ErrV)
    (h : ErrIn p fuel fr 0 (.conv c v old0) e root) : rootCause e = root := (errIn_sound h).2

end Gv.Sound
