/-
Errors go up and only real failures come up (C07, first sentence, over whole plans).

Part A: whatever error a plan returns is rooted in a function that really FAILS on some argument (`failsOn fn a = true`)
or in the unknown-enum error: with no failing function, the only possible error is the `@error` enum action.
Part B: an error is never dropped on the way up: one-step propagation lemmas for every composite node of `Gv.Eval`, and the
composite `ErrIn` (the first failing call in evaluation order, after successful earlier siblings) ⇒ the node returns
exactly that error, wrapped by every enclosing call site.
-/
import Gv.Proofs.RootCause
import Gv.Proofs.EvalLemmas
import Gv.Proofs.CustomFirst
import Gv.Proofs.ErrPath

namespace Gv.Sound
open Gv Gv.Str Gv.Eval

/-! ## Part A: the root of an error is a function that fails -/

/-- the error comes from a function that fails for some argument, or from an unknown enum value -/
def CausedBy (p : Program) (e : ErrV) : Prop :=
  (∃ fn a, rootCause e = .boom fn ∧ p.sem.failsOn fn a = true) ∨ rootCause e = .enumUnknown

theorem causedBy_wrapErr {p : Program} {w : Wrap} {idx : List Nat} {keys : List Val} {e : ErrV} (h : CausedBy p e) :
    CausedBy p (wrapErr w idx keys e) := by
  unfold CausedBy at *
  rw [rootCause_wrapErr]; exact h

theorem causedBy_boom {p : Program} (fn : S) (a : Val) (h : p.sem.failsOn fn a = true) : CausedBy p (.boom fn) :=
  .inl ⟨fn, a, rfl, h⟩
theorem causedBy_enum {p : Program} : CausedBy p .enumUnknown := .inr rfl

/-! ### the statements, by fuel -/

def BConv (p : Program) (fuel : Nat) : Prop :=
  ∀ (fr : Frame) (c : Conv) (v old : Val) (n : Nat) (e : ErrV), evalConv p fuel fr c v old n = .err e → CausedBy p e
def BCall (p : Program) (fuel : Nat) : Prop :=
  ∀ (m : Nat) (v : Val) (cs : List Val) (n : Nat) (e : ErrV), callMethod p fuel m v cs n = .err e → CausedBy p e
def BElems (p : Program) (fuel : Nat) : Prop :=
  ∀ (fr : Frame) (te : Ty) (elem : Conv) (vs : List Val) (i n : Nat) (e : ErrV), evalElems p fuel fr te elem vs i n = .err e → CausedBy p e
def BElemsOld (p : Program) (fuel : Nat) : Prop :=
  ∀ (fr : Frame) (elem : Conv) (vs olds : List Val) (i n : Nat) (e : ErrV), evalElemsOld p fuel fr elem vs olds i n = .err e → CausedBy p e
def BEntries (p : Program) (fuel : Nat) : Prop :=
  ∀ (fr : Frame) (tk tv : Ty) (key val : Conv) (kvs : List (Val × Val)) (n : Nat) (e : ErrV),
    evalEntries p fuel fr tk tv key val kvs n = .err e → CausedBy p e
def BFields (p : Program) (fuel : Nat) : Prop :=
  ∀ (fr : Frame) (plans : FieldPlans) (src old : Val) (n : Nat) (e : ErrV), evalFields p fuel fr plans src old n = .err e → CausedBy p e

theorem bElems_step (p : Program) (fuel : Nat) (ihc : BConv p fuel) (ihe : BElems p fuel) : BElems p (fuel + 1) := by
  intro fr te elem vs i n e hev
  cases vs with
  | nil => unfold evalElems at hev; exact absurd hev (by simp [E_pure_err])
  | cons v vs =>
    unfold evalElems at hev
    rcases (E_bind_err _ _ _ _).1 hev with h | ⟨x, n1, _, h2⟩
    · exact ihc _ _ _ _ _ _ h
    · rcases (E_bind_err _ _ _ _).1 h2 with h | ⟨r, n2, _, h4⟩
      · exact ihe _ _ _ _ _ _ _ h
      · exact absurd h4 (by simp [E_pure_err])

theorem bElemsOld_step (p : Program) (fuel : Nat) (ihc : BConv p fuel) (ihe : BElemsOld p fuel) : BElemsOld p (fuel + 1) := by
  intro fr elem vs olds i n e hev
  cases vs with
  | nil => unfold evalElemsOld at hev; exact absurd hev (by simp [E_pure_err])
  | cons v vs =>
    unfold evalElemsOld at hev
    rcases (E_bind_err _ _ _ _).1 hev with h | ⟨x, n1, _, h2⟩
    · exact ihc _ _ _ _ _ _ h
    · rcases (E_bind_err _ _ _ _).1 h2 with h | ⟨r, n2, _, h4⟩
      · exact ihe _ _ _ _ _ _ _ h
      · exact absurd h4 (by simp [E_pure_err])

theorem bEntries_step (p : Program) (fuel : Nat) (ihc : BConv p fuel) (ihe : BEntries p fuel) : BEntries p (fuel + 1) := by
  intro fr tk tv key val kvs n e hev
  cases kvs with
  | nil => unfold evalEntries at hev; exact absurd hev (by simp [E_pure_err])
  | cons kv kvs =>
    obtain ⟨a, b⟩ := kv
    unfold evalEntries at hev
    rcases (E_bind_err _ _ _ _).1 hev with h | ⟨x, n1, _, h2⟩
    · exact ihc _ _ _ _ _ _ h
    · rcases (E_bind_err _ _ _ _).1 h2 with h | ⟨y, n2, _, h4⟩
      · exact ihc _ _ _ _ _ _ h
      · rcases (E_bind_err _ _ _ _).1 h4 with h | ⟨r, n3, _, h6⟩
        · exact ihe _ _ _ _ _ _ _ _ h
        · exact absurd h6 (by simp [E_pure_err])

theorem bCall_step (p : Program) (fuel : Nat) (ihc : BConv p fuel) : BCall p (fuel + 1) := by
  intro m v cs n e hev
  unfold callMethod at hev
  split at hev
  · cases hev
  · split at hev
    · cases hev
    · exact ihc _ _ _ _ _ _ hev
    · split at hev
      · cases hev
      · split at hev
        · rename_i hcond
          simp only [Bool.and_eq_true] at hcond
          cases hev; exact causedBy_boom _ _ hcond.2
        · cases hev
    · cases hev

theorem bFields_step (p : Program) (fuel : Nat) (ihc : BConv p fuel) (ihf : BFields p fuel) : BFields p (fuel + 1) := by
  intro fr plans src old n e hev
  cases plans with
  | nil => unfold evalFields at hev; exact absurd hev (by simp [E_pure_err])
  | cons f rest =>
    cases f with
    | skip t => unfold evalFields at hev; exact ihf _ _ _ _ _ _ hev
    | mapped target path derefs guarded leafIsPtr cv zero =>
      unfold evalFields at hev
      simp only [] at hev
      repeat' split at hev
      all_goals first
        | (cases hev; done)
        | exact ihf _ _ _ _ _ _ hev
        | (injection hev with he; subst he; exact ihc _ _ _ _ _ _ (by assumption))
        | (injection hev with he; subst he; exact absurd (by assumption) (walk_not_err _ _ _ _))
    | viaMethod target path derefs guarded call resIsPtr cv zero =>
      unfold evalFields at hev
      simp only [] at hev
      repeat' split at hev
      all_goals first
        | (cases hev; done)
        | exact ihf _ _ _ _ _ _ hev
        | (injection hev with he; subst he; exact ihc _ _ _ _ _ _ (by assumption))
        | (injection hev with he; subst he; exact absurd (by assumption) (walk_not_err _ _ _ _))
        | (injection hev with he; subst he; rename_i heq; repeat' split at heq; all_goals first | (cases heq; done) | skip)

theorem applyEnumAction_errBy (p : Program) (fr : Frame) (old : Val) (act : EnumAction) (n : Nat) (e : ErrV)
    (h : applyEnumAction fr old act n = .err e) : CausedBy p e := by
  cases act with
  | member name cv => exact absurd h (pure_not_err _ _ _)
  | ignore => exact absurd h (pure_not_err _ _ _)
  | panic => unfold applyEnumAction panicE at h; cases h
  | error w => unfold applyEnumAction at h; rw [E_errE _ _ _ h]; exact causedBy_wrapErr causedBy_enum

theorem bConv_step (p : Program) (fuel : Nat) (ihc : BConv p fuel) (ihm : BCall p fuel) (ihe : BElems p fuel)
    (iho : BElemsOld p fuel) (ihn : BEntries p fuel) (ihf : BFields p fuel) : BConv p (fuel + 1) := by
  intro fr c v old n e hev
  cases c with
  | ident => unfold evalConv at hev; exact absurd hev (by simp [E_pure_err])
  | cast inner => unfold evalConv at hev; exact ihc _ _ _ _ _ _ hev
  | underlying a b inner => unfold evalConv at hev; exact ihc _ _ _ _ _ _ hev
  | call callee args retErr w =>
    unfold evalConv at hev
    simp only [] at hev
    rcases (E_bind_err _ _ _ _).1 hev with h | ⟨argVals, n1, _, h⟩
    · exact absurd h (filterMapM_loop_not_err fr v args [] n e)
    · cases callee with
      | structMethod name =>
        simp only [] at h
        split at h
        · rename_i hcond
          simp only [Bool.and_eq_true] at hcond
          rw [E_errE _ _ _ h]; exact causedBy_wrapErr (causedBy_boom _ _ hcond.2)
        · exact absurd h (by simp [E_pure_err])
      | custom i =>
        simp only [] at h
        cases hd : p.conv.customs[i]? with
        | none => rw [hd] at h; exact absurd h (stuckE_not_err _ _ _)
        | some d =>
          rw [hd] at h
          simp only [] at h
          split at h
          · rename_i hcond
            simp only [Bool.and_eq_true] at hcond
            rw [E_errE _ _ _ h]; exact causedBy_wrapErr (causedBy_boom _ _ hcond.2)
          · split at h
            · cases hp : isPtr p.conv.env d.target with
              | some te =>
                rw [hp] at h
                rcases (E_bind_err _ _ _ _).1 h with h1 | ⟨l, n2, _, h2⟩
                · unfold freshLoc at h1; cases h1
                · exact absurd h2 (pure_not_err _ _ _)
              | none => rw [hp] at h; exact absurd h (pure_not_err _ _ _)
            · exact absurd h (pure_not_err _ _ _)
      | method m =>
        simp only [] at h
        split at h
        · cases h
        · rename_i e1 heq
          split at h
          · injection h with h; subst h
            exact causedBy_wrapErr (ihm _ _ _ _ _ heq)
          · cases h
        · cases h
        · cases h
  | ptrPtr te inner =>
    unfold evalConv at hev
    simp only [] at hev
    split at hev
    · exact absurd hev (pure_not_err _ _ _)
    · rcases (E_bind_err _ _ _ _).1 hev with h | ⟨x, n1, _, h2⟩
      · exact ihc _ _ _ _ _ _ h
      · rcases (E_bind_err _ _ _ _).1 h2 with h | ⟨l, n2, _, h4⟩
        · unfold freshLoc at h; cases h
        · exact absurd h4 (pure_not_err _ _ _)
    · exact absurd hev (stuckE_not_err _ _ _)
  | srcPtr t inner =>
    unfold evalConv at hev
    simp only [] at hev
    split at hev
    · exact absurd hev (pure_not_err _ _ _)
    · exact ihc _ _ _ _ _ _ hev
    · exact absurd hev (stuckE_not_err _ _ _)
  | tgtPtr te inner =>
    unfold evalConv at hev
    simp only [] at hev
    rcases (E_bind_err _ _ _ _).1 hev with h | ⟨x, n1, _, h2⟩
    · exact ihc _ _ _ _ _ _ h
    · rcases (E_bind_err _ _ _ _).1 h2 with h | ⟨l, n2, _, h4⟩
      · unfold freshLoc at h; cases h
      · exact absurd h4 (pure_not_err _ _ _)
  | list te hasMake hasGuard elem =>
    unfold evalConv at hev
    simp only [] at hev
    -- the loop over the elements (with or without `make`)
    have hrun : ∀ (vs : List Val) (m : Nat),
        ((if hasMake = true then do
            let out ← evalElems p fuel fr te elem vs 0
            if vs.isEmpty = true then pure (Val.slice Loc.none [])
              else do
                let l ← freshLoc
                pure (Val.slice l out)
          else
            do
            let out ← evalElemsOld p fuel fr elem vs
              (List.map (fun i => (match old with | Val.slice _ xs => xs | _ => [])[i]?.getD Val.absent) (List.range vs.length)) 0
            if ((out.zip (List.map (fun i => (match old with | Val.slice _ xs => xs | _ => [])[i]?.getD Val.absent) (List.range vs.length))).any fun x =>
                  match x with
                  | (n, o) => o.isAbsent && !n.isAbsent) = true then
                panicE PanicKind.indexOutOfRange
              else
                match old with
                | Val.slice l xs => pure (Val.slice l (List.take xs.length out ++ List.drop vs.length xs))
                | o => pure o) : E Val) m = .err e → CausedBy p e := by
      intro vs m h
      cases hasMake with
      | true =>
        simp only [if_true] at h
        rcases (E_bind_err _ _ _ _).1 h with h1 | ⟨out, n1, _, h2⟩
        · exact ihe _ _ _ _ _ _ _ h1
        · split at h2
          · exact absurd h2 (pure_not_err _ _ _)
          · rcases (E_bind_err _ _ _ _).1 h2 with h3 | ⟨l, n2, _, h4⟩
            · unfold freshLoc at h3; cases h3
            · exact absurd h4 (pure_not_err _ _ _)
      | false =>
        simp only [Bool.false_eq_true, if_false] at h
        rcases (E_bind_err _ _ _ _).1 h with h1 | ⟨out, n1, _, h2⟩
        · exact iho _ _ _ _ _ _ _ h1
        · generalize ((out.zip _).any _) = cnd at h2
          cases cnd with
          | true => simp only [if_true] at h2; unfold panicE at h2; cases h2
          | false =>
            simp only [Bool.false_eq_true, if_false] at h2
            cases old <;> exact absurd h2 (pure_not_err _ _ _)
    split at hev
    · split at hev
      · exact absurd hev (pure_not_err _ _ _)
      · exact hrun _ _ hev
    · exact hrun _ _ hev
    · exact hrun _ _ hev
    · exact absurd hev (stuckE_not_err _ _ _)
  | mapc tk tv key val =>
    unfold evalConv at hev
    simp only [] at hev
    split at hev
    · exact absurd hev (pure_not_err _ _ _)
    · rcases (E_bind_err _ _ _ _).1 hev with h | ⟨x, n1, _, h2⟩
      · exact ihn _ _ _ _ _ _ _ _ h
      · rcases (E_bind_err _ _ _ _).1 h2 with h | ⟨l, n2, _, h4⟩
        · unfold freshLoc at h; cases h
        · exact absurd h4 (pure_not_err _ _ _)
    · exact absurd hev (stuckE_not_err _ _ _)
  | structc fields upd => unfold evalConv at hev; exact ihf _ _ _ _ _ _ hev
  | enumc cases dflt =>
    unfold evalConv at hev
    simp only [] at hev
    exact applyEnumAction_errBy p _ _ _ _ _ hev
  | withCtor ctor toPointer rest =>
    unfold evalConv at hev
    simp only [] at hev
    rcases (E_bind_err _ _ _ _).1 hev with h | ⟨cv, n1, _, h2⟩
    · exact ihc _ _ _ _ _ _ h
    · cases toPointer with
      | true =>
        simp only [if_true] at h2
        rcases (E_bind_err _ _ _ _).1 h2 with h | ⟨init, n2, _, h4⟩
        · rcases (E_bind_err _ _ _ _).1 h with h5 | ⟨l, n3, _, h6⟩
          · unfold freshLoc at h5; cases h5
          · exact absurd h6 (pure_not_err _ _ _)
        · exact ihc _ _ _ _ _ _ h4
      | false =>
        simp only [Bool.false_eq_true, if_false] at h2
        rcases (E_bind_err _ _ _ _).1 h2 with h | ⟨init, n2, _, h4⟩
        · exact absurd h (pure_not_err _ _ _)
        · exact ihc _ _ _ _ _ _ h4
  | ctorUpdate ctor toPointer srcIsPtr tgtIsPtr inner =>
    unfold evalConv at hev
    simp only [] at hev
    -- assigning through the constructed value
    have hgo : ∀ (init x : Val) (parent : Option Val) (m : Nat),
        ((if tgtIsPtr = true then
            match init with
            | Val.ptr l tv => do
              let nv ← evalConv p fuel { self := fr.self, ctx := fr.ctx, idx := fr.idx, keys := fr.keys, parent := parent } inner x tv
              pure (Val.ptr l nv)
            | Val.nil => panicE PanicKind.nilDeref
            | _ => stuckE "ctorUpdate: pointer expected"
          else evalConv p fuel { self := fr.self, ctx := fr.ctx, idx := fr.idx, keys := fr.keys, parent := parent } inner x init) : E Val) m = .err e →
        CausedBy p e := by
      intro init x parent m h
      cases tgtIsPtr with
      | true =>
        simp only [if_true] at h
        split at h
        · rcases (E_bind_err _ _ _ _).1 h with h1 | ⟨nv, n2, _, h3⟩
          · exact ihc _ _ _ _ _ _ h1
          · exact absurd h3 (pure_not_err _ _ _)
        · unfold panicE at h; cases h
        · exact absurd h (stuckE_not_err _ _ _)
      | false => simp only [Bool.false_eq_true, if_false] at h; exact ihc _ _ _ _ _ _ h
    have htail : ∀ (init : Val) (m : Nat),
        ((if srcIsPtr = true then
            match (generalizing := false) v with
            | Val.nil => pure init
            | Val.ptr l x =>
              if tgtIsPtr = true then
                match init with
                | Val.ptr l tv => do
                  let nv ← evalConv p fuel { self := fr.self, ctx := fr.ctx, idx := fr.idx, keys := fr.keys, parent := some v } inner x tv
                  pure (Val.ptr l nv)
                | Val.nil => panicE PanicKind.nilDeref
                | _ => stuckE "ctorUpdate: pointer expected"
              else evalConv p fuel { self := fr.self, ctx := fr.ctx, idx := fr.idx, keys := fr.keys, parent := some v } inner x init
            | _ => stuckE "ctorUpdate: source pointer expected"
          else
            if tgtIsPtr = true then
              match init with
              | Val.ptr l tv => do
                let nv ← evalConv p fuel { self := fr.self, ctx := fr.ctx, idx := fr.idx, keys := fr.keys, parent := none } inner v tv
                pure (Val.ptr l nv)
              | Val.nil => panicE PanicKind.nilDeref
              | _ => stuckE "ctorUpdate: pointer expected"
            else evalConv p fuel { self := fr.self, ctx := fr.ctx, idx := fr.idx, keys := fr.keys, parent := none } inner v init) : E Val) m = .err e →
        CausedBy p e := by
      intro init m h
      cases srcIsPtr with
      | true =>
        simp only [if_true] at h
        split at h
        · exact absurd h (pure_not_err _ _ _)
        · exact hgo _ _ _ _ h
        · exact absurd h (stuckE_not_err _ _ _)
      | false =>
        simp only [Bool.false_eq_true, if_false] at h
        exact hgo _ _ _ _ h
    rcases (E_bind_err _ _ _ _).1 hev with h | ⟨cv, n1, _, h2⟩
    · exact ihc _ _ _ _ _ _ h
    · cases toPointer with
      | true =>
        simp only [if_true] at h2
        rcases (E_bind_err _ _ _ _).1 h2 with h | ⟨init, n2, _, h4⟩
        · rcases (E_bind_err _ _ _ _).1 h with h5 | ⟨l, n3, _, h6⟩
          · unfold freshLoc at h5; cases h5
          · exact absurd h6 (pure_not_err _ _ _)
        · exact htail _ _ h4
      | false =>
        simp only [Bool.false_eq_true, if_false] at h2
        rcases (E_bind_err _ _ _ _).1 h2 with h | ⟨init, n2, _, h4⟩
        · exact absurd h (pure_not_err _ _ _)
        · exact htail _ _ h4

/-! ### all fuels -/

theorem causedBy_all (p : Program) :
    ∀ fuel, BConv p fuel ∧ BCall p fuel ∧ BElems p fuel ∧ BElemsOld p fuel ∧ BEntries p fuel ∧ BFields p fuel := by
  intro fuel
  induction fuel with
  | zero =>
    refine ⟨?_, ?_, ?_, ?_, ?_, ?_⟩
    · intro fr c v old n e hev; unfold evalConv at hev; cases hev
    · intro m v cs n e hev; unfold callMethod at hev; cases hev
    · intro fr te elem vs i n e hev; unfold evalElems at hev; cases hev
    · intro fr elem vs olds i n e hev; unfold evalElemsOld at hev; cases hev
    · intro fr tk tv key val kvs n e hev; unfold evalEntries at hev; cases hev
    · intro fr plans src old n e hev; unfold evalFields at hev; cases hev
  | succ fuel ih =>
    obtain ⟨ihc, ihm, ihe, iho, ihn, ihf⟩ := ih
    exact ⟨bConv_step p fuel ihc ihm ihe iho ihn ihf, bCall_step p fuel ihc, bElems_step p fuel ihc ihe,
      bElemsOld_step p fuel ihc iho, bEntries_step p fuel ihc ihn, bFields_step p fuel ihc ihf⟩


theorem callMethod_caused_by (p : Program) (fuel m : Nat) (v : Val) (cs : List Val) (n : Nat) (e : ErrV)
    (h : callMethod p fuel m v cs n = .err e) : CausedBy p e := (causedBy_all p fuel).2.1 m v cs n e h

theorem evalConv_caused_by (p : Program) (fuel : Nat) (fr : Frame) (c : Conv) (v old : Val) (n : Nat) (e : ErrV)
    (h : evalConv p fuel fr c v old n = .err e) : CausedBy p e := (causedBy_all p fuel).1 fr c v old n e h

/-! ## Part B: one-step propagation, node by node (all plans, values, fuel) -/

theorem bind_err {α β} {x : E α} {f : α → E β} {n : Nat} {e : ErrV} (h : x n = .err e) : (x >>= f) n = .err e :=
  (E_bind_err _ _ _ _).2 (.inl h)

theorem bind_ok_err {α β} {x : E α} {f : α → E β} {n n1 : Nat} {a : α} {e : ErrV} (h1 : x n = .ok (a, n1)) (h2 : f a n1 = .err e) :
    (x >>= f) n = .err e := (E_bind_err _ _ _ _).2 (.inr ⟨a, n1, h1, h2⟩)

theorem up_cast (p : Program) (fuel : Nat) (fr : Frame) (inner : Conv) (v old : Val) (n : Nat) (e : ErrV)
    (h : evalConv p fuel fr inner v old n = .err e) : evalConv p (fuel+1) fr (.cast inner) v old n = .err e := by
  unfold evalConv; exact h

theorem up_underlying (p : Program) (fuel : Nat) (fr : Frame) (a b : Bool) (inner : Conv) (v old : Val) (n : Nat) (e : ErrV)
    (h : evalConv p fuel { fr with parent := none } inner v old n = .err e) :
    evalConv p (fuel+1) fr (.underlying a b inner) v old n = .err e := by
  unfold evalConv; exact h

theorem up_ptrPtr (p : Program) (fuel : Nat) (fr : Frame) (te : Ty) (inner : Conv) (l : Loc) (x old : Val) (n : Nat) (e : ErrV)
    (h : evalConv p fuel { fr with parent := some (.ptr l x) } inner x (zeroVal p.conv.env 64 te) n = .err e) :
    evalConv p (fuel+1) fr (.ptrPtr te inner) (.ptr l x) old n = .err e := by
  unfold evalConv; exact bind_err h

theorem up_srcPtr (p : Program) (fuel : Nat) (fr : Frame) (t : Ty) (inner : Conv) (l : Loc) (x old : Val) (n : Nat) (e : ErrV)
    (h : evalConv p fuel { fr with parent := some (.ptr l x) } inner x (zeroVal p.conv.env 64 t) n = .err e) :
    evalConv p (fuel+1) fr (.srcPtr t inner) (.ptr l x) old n = .err e := by
  unfold evalConv; exact h

theorem up_tgtPtr (p : Program) (fuel : Nat) (fr : Frame) (te : Ty) (inner : Conv) (v old : Val) (n : Nat) (e : ErrV)
    (h : evalConv p fuel { fr with parent := none } inner v (zeroVal p.conv.env 64 te) n = .err e) :
    evalConv p (fuel+1) fr (.tgtPtr te inner) v old n = .err e := by
  unfold evalConv; exact bind_err h

/-- a failing source-struct method -/
theorem up_structMethod (p : Program) (fuel : Nat) (fr : Frame) (name : S) (args : List CallArg) (w : Wrap) (v old : Val)
    (n n1 : Nat) (argVals : List Val) (ha : args.filterMapM (argOf fr v) n = .ok (argVals, n1)) (hf : p.sem.failsOn name v = true) :
    evalConv p (fuel+1) fr (.call (.structMethod name) args true w) v old n = .err (wrapErr w fr.idx fr.keys (.boom name)) := by
  unfold evalConv
  refine bind_ok_err ha ?_
  simp [hf, errE]

/-- a failing custom function (any argument list) -/
theorem up_custom (p : Program) (fuel : Nat) (fr : Frame) (i : Nat) (d : FnDef) (args : List CallArg) (w : Wrap) (v old : Val)
    (n n1 : Nat) (argVals : List Val) (ha : args.filterMapM (argOf fr v) n = .ok (argVals, n1)) (hd : p.conv.customs[i]? = some d)
    (hf : p.sem.failsOn d.name (argVals.headD .nil) = true) :
    evalConv p (fuel+1) fr (.call (.custom i) args true w) v old n = .err (wrapErr w fr.idx fr.keys (.boom d.name)) := by
  unfold evalConv
  refine bind_ok_err ha ?_
  simp only [hd, hf, Bool.and_self, if_true]
  rfl

/-- a failing callee: the caller returns the callee's error, wrapped with the path of the call site -/
theorem up_method (p : Program) (fuel : Nat) (fr : Frame) (m : Nat) (args : List CallArg) (w : Wrap) (v old : Val)
    (n n1 : Nat) (argVals : List Val) (e : ErrV) (ha : args.filterMapM (argOf fr v) n = .ok (argVals, n1))
    (h : callMethod p fuel m v (ctxValsOf fr args) n1 = .err e) :
    evalConv p (fuel+1) fr (.call (.method m) args true w) v old n = .err (wrapErr w fr.idx fr.keys e) := by
  unfold evalConv
  refine bind_ok_err ha ?_
  unfold ctxValsOf at h
  simp only []
  split
  · rename_i r heq; have := heq.symm.trans h; cases this
  · rename_i e' heq; have := heq.symm.trans h; cases this; simp
  · rename_i k heq; have := heq.symm.trans h; cases this
  · rename_i k heq; have := heq.symm.trans h; cases this

/-- … and a call node that cannot return an error never turns a callee's error into a result: the model is stuck there
(the generator refuses to build such a node: `C07_refuse_to_drop`) -/
theorem up_method_no_drop (p : Program) (fuel : Nat) (fr : Frame) (m : Nat) (args : List CallArg) (w : Wrap) (v old : Val)
    (n n1 : Nat) (argVals : List Val) (e : ErrV) (ha : args.filterMapM (argOf fr v) n = .ok (argVals, n1))
    (h : callMethod p fuel m v (ctxValsOf fr args) n1 = .err e) :
    evalConv p (fuel+1) fr (.call (.method m) args false w) v old n = .stuck "error from a callee that returns none" := by
  unfold evalConv
  unfold ctxValsOf at h
  show (StateT.bind _ _) n = _
  unfold StateT.bind
  rw [ha]
  simp only [bind]
  split
  · rename_i r heq; have := heq.symm.trans h; cases this
  · rename_i e' heq; have := heq.symm.trans h; cases this; simp
  · rename_i k heq; have := heq.symm.trans h; cases this
  · rename_i k heq; have := heq.symm.trans h; cases this

/-! lists -/

/-- element `i` fails: the loop returns its error … -/
theorem up_elems_here (p : Program) (fuel : Nat) (fr : Frame) (te : Ty) (elem : Conv) (v : Val) (vs : List Val) (i n : Nat) (e : ErrV)
    (h : evalConv p fuel { fr with idx := fr.idx ++ [i], parent := none } elem v (zeroVal p.conv.env 64 te) n = .err e) :
    evalElems p (fuel+1) fr te elem (v :: vs) i n = .err e := by
  unfold evalElems; exact bind_err h

/-- … also after successful earlier elements -/
theorem up_elems_there (p : Program) (fuel : Nat) (fr : Frame) (te : Ty) (elem : Conv) (v x : Val) (vs : List Val) (i n n1 : Nat) (e : ErrV)
    (h1 : evalConv p fuel { fr with idx := fr.idx ++ [i], parent := none } elem v (zeroVal p.conv.env 64 te) n = .ok (x, n1))
    (h2 : evalElems p fuel fr te elem vs (i + 1) n1 = .err e) :
    evalElems p (fuel+1) fr te elem (v :: vs) i n = .err e := by
  unfold evalElems; exact bind_ok_err h1 (bind_err h2)

theorem up_elemsOld_here (p : Program) (fuel : Nat) (fr : Frame) (elem : Conv) (v : Val) (vs olds : List Val) (i n : Nat) (e : ErrV)
    (h : evalConv p fuel { fr with idx := fr.idx ++ [i], parent := none } elem v (olds.headD .absent) n = .err e) :
    evalElemsOld p (fuel+1) fr elem (v :: vs) olds i n = .err e := by
  unfold evalElemsOld; exact bind_err h

theorem up_elemsOld_there (p : Program) (fuel : Nat) (fr : Frame) (elem : Conv) (v x : Val) (vs olds : List Val) (i n n1 : Nat) (e : ErrV)
    (h1 : evalConv p fuel { fr with idx := fr.idx ++ [i], parent := none } elem v (olds.headD .absent) n = .ok (x, n1))
    (h2 : evalElemsOld p fuel fr elem vs (olds.drop 1) (i + 1) n1 = .err e) :
    evalElemsOld p (fuel+1) fr elem (v :: vs) olds i n = .err e := by
  unfold evalElemsOld; exact bind_ok_err h1 (bind_err h2)

/-- the elements of the slice / array being converted (`make` present) -/
def listElems : Val → Option (List Val)
  | .slice _ vs => some vs
  | .arr vs => some vs
  | _ => none

theorem up_list_make (p : Program) (fuel : Nat) (fr : Frame) (te : Ty) (hg : Bool) (elem : Conv) (v old : Val) (vs : List Val)
    (n : Nat) (e : ErrV) (hv : listElems v = some vs) (h : evalElems p fuel fr te elem vs 0 n = .err e) :
    evalConv p (fuel+1) fr (.list te true hg elem) v old n = .err e := by
  unfold evalConv
  cases v <;> simp [listElems] at hv <;> subst hv <;> exact bind_err h

/-- the previous values of the target's elements, for a list assigned without `make` -/
def oldElems (old : Val) (len : Nat) : List Val :=
  (List.range len).map (fun i => ((match old with | .slice _ xs => xs | _ => [])[i]?).getD .absent)

theorem up_list_nomake (p : Program) (fuel : Nat) (fr : Frame) (te : Ty) (hg : Bool) (elem : Conv) (v old : Val) (vs : List Val)
    (n : Nat) (e : ErrV) (hv : listElems v = some vs) (h : evalElemsOld p fuel fr elem vs (oldElems old vs.length) 0 n = .err e) :
    evalConv p (fuel+1) fr (.list te false hg elem) v old n = .err e := by
  unfold evalConv
  unfold oldElems at h
  cases v <;> simp [listElems] at hv <;> subst hv <;> exact bind_err h

/-! maps: the entries in iteration order -/

theorem up_entries_key (p : Program) (fuel : Nat) (fr : Frame) (tk tv : Ty) (key val : Conv) (k v : Val) (rest : List (Val × Val))
    (n : Nat) (e : ErrV)
    (h : evalConv p fuel { fr with keys := fr.keys ++ [k], parent := none } key k (zeroVal p.conv.env 64 tk) n = .err e) :
    evalEntries p (fuel+1) fr tk tv key val ((k, v) :: rest) n = .err e := by
  unfold evalEntries; exact bind_err h

theorem up_entries_val (p : Program) (fuel : Nat) (fr : Frame) (tk tv : Ty) (key val : Conv) (k v k' : Val) (rest : List (Val × Val))
    (n n1 : Nat) (e : ErrV)
    (h1 : evalConv p fuel { fr with keys := fr.keys ++ [k], parent := none } key k (zeroVal p.conv.env 64 tk) n = .ok (k', n1))
    (h2 : evalConv p fuel { fr with keys := fr.keys ++ [k], parent := none } val v (zeroVal p.conv.env 64 tv) n1 = .err e) :
    evalEntries p (fuel+1) fr tk tv key val ((k, v) :: rest) n = .err e := by
  unfold evalEntries; exact bind_ok_err h1 (bind_err h2)

theorem up_entries_there (p : Program) (fuel : Nat) (fr : Frame) (tk tv : Ty) (key val : Conv) (k v k' v' : Val) (rest : List (Val × Val))
    (n n1 n2 : Nat) (e : ErrV)
    (h1 : evalConv p fuel { fr with keys := fr.keys ++ [k], parent := none } key k (zeroVal p.conv.env 64 tk) n = .ok (k', n1))
    (h2 : evalConv p fuel { fr with keys := fr.keys ++ [k], parent := none } val v (zeroVal p.conv.env 64 tv) n1 = .ok (v', n2))
    (h3 : evalEntries p fuel fr tk tv key val rest n2 = .err e) :
    evalEntries p (fuel+1) fr tk tv key val ((k, v) :: rest) n = .err e := by
  unfold evalEntries; exact bind_ok_err h1 (bind_ok_err h2 (bind_err h3))

theorem up_map (p : Program) (fuel : Nat) (fr : Frame) (tk tv : Ty) (key val : Conv) (l : Loc) (kvs : List (Val × Val)) (old : Val)
    (n : Nat) (e : ErrV) (h : evalEntries p fuel fr tk tv key val kvs n = .err e) :
    evalConv p (fuel+1) fr (.mapc tk tv key val) (.map l kvs) old n = .err e := by
  unfold evalConv; exact bind_err h

/-! enum, constructors -/

theorem up_enum (p : Program) (fuel : Nat) (fr : Frame) (cases : List (S × ConstVal × EnumAction)) (dflt : EnumAction) (v old : Val)
    (n : Nat) (w : Wrap) (h : enumPick cases dflt v = .error w) :
    evalConv p (fuel+1) fr (.enumc cases dflt) v old n = .err (wrapErr w fr.idx fr.keys .enumUnknown) := by
  unfold evalConv
  show applyEnumAction fr old (enumPick cases dflt v) n = _
  rw [h]; rfl

theorem up_withCtor_ctor (p : Program) (fuel : Nat) (fr : Frame) (ctor rest : Conv) (tp : Bool) (v old : Val) (n : Nat) (e : ErrV)
    (h : evalConv p fuel fr ctor v .nil n = .err e) : evalConv p (fuel+1) fr (.withCtor ctor tp rest) v old n = .err e := by
  unfold evalConv; exact bind_err h

/-- the value the rule starts from: the constructor's result, behind a fresh pointer if needed -/
def ctorInit (tp : Bool) (cv : Val) (n1 : Nat) : Val × Nat := if tp then (.ptr (.fresh n1) cv, n1 + 1) else (cv, n1)

theorem up_withCtor_rest (p : Program) (fuel : Nat) (fr : Frame) (ctor rest : Conv) (tp : Bool) (v old cv : Val) (n n1 : Nat) (e : ErrV)
    (h1 : evalConv p fuel fr ctor v .nil n = .ok (cv, n1))
    (h2 : evalConv p fuel fr rest v (ctorInit tp cv n1).1 (ctorInit tp cv n1).2 = .err e) :
    evalConv p (fuel+1) fr (.withCtor ctor tp rest) v old n = .err e := by
  unfold evalConv
  refine bind_ok_err h1 ?_
  cases tp with
  | true => exact bind_ok_err (a := Val.ptr (.fresh n1) cv) (n1 := n1 + 1) rfl h2
  | false => exact bind_ok_err (a := cv) (n1 := n1) rfl h2

theorem up_ctorUpdate_ctor (p : Program) (fuel : Nat) (fr : Frame) (ctor inner : Conv) (tp sp tgp : Bool) (v old : Val) (n : Nat) (e : ErrV)
    (h : evalConv p fuel fr ctor v .nil n = .err e) : evalConv p (fuel+1) fr (.ctorUpdate ctor tp sp tgp inner) v old n = .err e := by
  unfold evalConv; exact bind_err h

/-- what `ctorUpdate` converts: the source itself, or what a pointer source points to (with that pointer as parent) -/
def CtorSrc (sp : Bool) (v x : Val) (parent : Option Val) : Prop :=
  (sp = true ∧ (∃ l, v = .ptr l x) ∧ parent = some v) ∨ (sp = false ∧ x = v ∧ parent = none)

/-- the previous value the inner conversion assigns onto: the constructed value, or what the constructed pointer points to -/
def ctorOld (tgp : Bool) (init : Val) : Option Val :=
  if tgp then (match init with | .ptr _ tv => some tv | _ => none) else some init

theorem up_ctorUpdate_inner (p : Program) (fuel : Nat) (fr : Frame) (ctor inner : Conv) (tp sp tgp : Bool) (v old cv x tv : Val)
    (parent : Option Val) (n n1 : Nat) (e : ErrV)
    (h1 : evalConv p fuel fr ctor v .nil n = .ok (cv, n1)) (hs : CtorSrc sp v x parent)
    (ho : ctorOld tgp (ctorInit tp cv n1).1 = some tv)
    (h2 : evalConv p fuel { fr with parent := parent } inner x tv (ctorInit tp cv n1).2 = .err e) :
    evalConv p (fuel+1) fr (.ctorUpdate ctor tp sp tgp inner) v old n = .err e := by
  unfold evalConv
  refine bind_ok_err h1 ?_
  have key : ∀ (init : Val) (m : Nat), ctorOld tgp init = some tv →
      evalConv p fuel { fr with parent := parent } inner x tv m = .err e →
      ((if sp = true then
          match (generalizing := false) v with
          | Val.nil => pure init
          | Val.ptr _ x =>
            (if tgp = true then
              match init with
              | Val.ptr l tv => do
                let nv ← evalConv p fuel { fr with parent := some v } inner x tv
                pure (Val.ptr l nv)
              | Val.nil => panicE PanicKind.nilDeref
              | _ => stuckE "ctorUpdate: pointer expected"
            else evalConv p fuel { fr with parent := some v } inner x init)
          | _ => stuckE "ctorUpdate: source pointer expected"
        else
          (if tgp = true then
            match init with
            | Val.ptr l tv => do
              let nv ← evalConv p fuel { fr with parent := none } inner v tv
              pure (Val.ptr l nv)
            | Val.nil => panicE PanicKind.nilDeref
            | _ => stuckE "ctorUpdate: pointer expected"
          else evalConv p fuel { fr with parent := none } inner v init)) : E Val) m = .err e := by
    intro init m hold hev
    rcases hs with ⟨rfl, ⟨l, rfl⟩, rfl⟩ | ⟨rfl, rfl, rfl⟩
    · simp only [if_true]
      cases tgp with
      | true =>
        simp only [ctorOld, if_true] at hold
        cases init <;> simp at hold
        subst hold
        simp only [if_true]
        exact bind_err hev
      | false =>
        simp only [ctorOld, Bool.false_eq_true, if_false, Option.some.injEq] at hold
        subst hold
        simpa using hev
    · simp only [Bool.false_eq_true, if_false]
      cases tgp with
      | true =>
        simp only [ctorOld, if_true] at hold
        cases init <;> simp at hold
        subst hold
        simp only [if_true]
        exact bind_err hev
      | false =>
        simp only [ctorOld, Bool.false_eq_true, if_false, Option.some.injEq] at hold
        subst hold
        simpa using hev
  cases tp with
  | true => exact bind_ok_err (a := Val.ptr (.fresh n1) cv) (n1 := n1 + 1) rfl (key _ _ ho h2)
  | false => exact bind_ok_err (a := cv) (n1 := n1) rfl (key _ _ ho h2)

/-! structs: the field plans in order -/

theorem up_struct (p : Program) (fuel : Nat) (fr : Frame) (fields : FieldPlans) (u : Bool) (v old : Val) (n : Nat) (e : ErrV)
    (h : evalFields p fuel fr fields v (normStruct old) n = .err e) :
    evalConv p (fuel+1) fr (.structc fields u) v old n = .err e := by
  unfold evalConv; exact h

/-- field plan `f` is processed without an error: the loop goes on with the new target value and counter -/
def FieldDone (p : Program) (fuel : Nat) (fr : Frame) (f : FieldPlan) (src old : Val) (n : Nat) (old' : Val) (n' : Nat) : Prop :=
  ∀ rest, evalFields p (fuel+1) fr (.cons f rest) src old n = evalFields p fuel fr rest src old' n'

/-- a later field fails after successful earlier ones: the struct loop returns its error -/
theorem up_fields_there (p : Program) (fuel : Nat) (fr : Frame) (f : FieldPlan) (rest : FieldPlans) (src old old' : Val) (n n' : Nat) (e : ErrV)
    (h1 : FieldDone p fuel fr f src old n old' n') (h2 : evalFields p fuel fr rest src old' n' = .err e) :
    evalFields p (fuel+1) fr (.cons f rest) src old n = .err e := by
  rw [h1 rest]; exact h2

theorem fieldDone_skip (p : Program) (fuel : Nat) (fr : Frame) (t : S) (src old : Val) (n : Nat) :
    FieldDone p fuel fr (.skip t) src old n old n := by
  intro rest; conv => lhs; unfold evalFields

/-- the value handed to the conversion of a mapped field, and the counter after it -/
def mappedArg (guarded leafIsPtr : Bool) (lf : Option Val) (n : Nat) : Val × Nat :=
  if !guarded then (lf.getD .nil, n)
  else match lf with
    | none => (.nil, n)
    | some lv => if leafIsPtr then (lv, n) else (.ptr (.fresh n) lv, n + 1)

def oldField (old : Val) (target : S) : Val := if old.isAbsent then Val.absent else (fieldOf old target).getD .nil

theorem fieldDone_mapped (p : Program) (fuel : Nat) (fr : Frame) (target : S) (path : List S) (derefs : List Bool) (guarded leafIsPtr : Bool)
    (cv : Conv) (zero : ZeroCheck) (src old nv : Val) (lf : Option Val) (n n' : Nat)
    (hw : walk path derefs src = .ok lf)
    (hz : (zero == .check && isZeroVal (mappedArg guarded leafIsPtr lf n).1) = false)
    (hc : evalConv p fuel { fr with parent := if path.isEmpty then fr.parent else none } cv (mappedArg guarded leafIsPtr lf n).1
            (oldField old target) (mappedArg guarded leafIsPtr lf n).2 = .ok (nv, n')) :
    FieldDone p fuel fr (.mapped target path derefs guarded leafIsPtr cv zero) src old n
      (if old.isAbsent && nv.isAbsent then old else setField old target nv) n' := by
  intro rest
  unfold oldField at hc
  conv => lhs; unfold evalFields
  simp only []
  simp only [hw]
  generalize hA : (ite ((!guarded) = true) _ _ : Val × Nat) = A
  have hA' : A = mappedArg guarded leafIsPtr lf n := hA.symm
  subst hA'
  simp only [hz, Bool.false_eq_true, if_false, hc]
  split <;> simp

/-- a zero source value under `ignore…Zero`: the field is left alone -/
theorem fieldDone_mapped_zero (p : Program) (fuel : Nat) (fr : Frame) (target : S) (path : List S) (derefs : List Bool) (guarded leafIsPtr : Bool)
    (cv : Conv) (zero : ZeroCheck) (src old : Val) (lf : Option Val) (n : Nat)
    (hw : walk path derefs src = .ok lf)
    (hz : (zero == .check && isZeroVal (mappedArg guarded leafIsPtr lf n).1) = true) :
    FieldDone p fuel fr (.mapped target path derefs guarded leafIsPtr cv zero) src old n old (mappedArg guarded leafIsPtr lf n).2 := by
  intro rest
  conv => lhs; unfold evalFields
  simp only []
  simp only [hw]
  generalize hA : (ite ((!guarded) = true) _ _ : Val × Nat) = A
  have hA' : A = mappedArg guarded leafIsPtr lf n := hA.symm
  subst hA'
  simp only [hz, if_true]

theorem up_fields_skip (p : Program) (fuel : Nat) (fr : Frame) (t : S) (rest : FieldPlans) (src old : Val) (n : Nat) (e : ErrV)
    (h : evalFields p fuel fr rest src old n = .err e) : evalFields p (fuel+1) fr (.cons (.skip t) rest) src old n = .err e :=
  up_fields_there p fuel fr _ rest src old old n n e (fieldDone_skip p fuel fr t src old n) h

/-- the conversion of a mapped field fails: the struct loop returns its error -/
theorem up_field_mapped (p : Program) (fuel : Nat) (fr : Frame) (target : S) (path : List S) (derefs : List Bool) (guarded leafIsPtr : Bool)
    (cv : Conv) (zero : ZeroCheck) (rest : FieldPlans) (src old : Val) (lf : Option Val) (n : Nat) (e : ErrV)
    (hw : walk path derefs src = .ok lf)
    (hz : (zero == .check && isZeroVal (mappedArg guarded leafIsPtr lf n).1) = false)
    (hc : evalConv p fuel { fr with parent := if path.isEmpty then fr.parent else none } cv (mappedArg guarded leafIsPtr lf n).1
            (oldField old target) (mappedArg guarded leafIsPtr lf n).2 = .err e) :
    evalFields p (fuel+1) fr (.cons (.mapped target path derefs guarded leafIsPtr cv zero) rest) src old n = .err e := by
  unfold oldField at hc
  unfold evalFields
  simp only []
  simp only [hw]
  generalize hA : (ite ((!guarded) = true) _ _ : Val × Nat) = A
  have hA' : A = mappedArg guarded leafIsPtr lf n := hA.symm
  subst hA'
  simp only [hz, Bool.false_eq_true, if_false, hc]

/-- the receiver of a source-struct method: the value reached, dereferenced when it is a (non-nil) pointer -/
def viaRecv (derefs : List Bool) (lf : Option Val) : Outcome (Option Val) :=
  match lf with
  | none => .ok none
  | some rv =>
    if derefs.getLast?.getD false then
      match rv with
      | .nil => .ok none
      | .ptr _ x => .ok (some x)
      | _ => .stuck "viaMethod: pointer receiver expected"
    else .ok (some rv)

/-- the source-struct method feeding a field fails -/
theorem up_field_viaCall (p : Program) (fuel : Nat) (fr : Frame) (target : S) (path : List S) (derefs : List Bool) (guarded resIsPtr : Bool)
    (call cv : Conv) (zero : ZeroCheck) (rest : FieldPlans) (src old recv : Val) (lf : Option Val) (n : Nat) (e : ErrV)
    (hw : walk path (derefs.take path.length) src = .ok lf) (hr : viaRecv derefs lf = .ok (some recv))
    (hc : evalConv p fuel { fr with parent := none } call recv .nil n = .err e) :
    evalFields p (fuel+1) fr (.cons (.viaMethod target path derefs guarded call resIsPtr cv zero) rest) src old n = .err e := by
  unfold viaRecv at hr
  unfold evalFields
  simp only []
  simp only [hw]
  split <;> rename_i heq <;> have hh := heq.symm.trans hr <;> cases hh
  simp only [hc]

/-- the value handed to the conversion of the method's result -/
def viaArg (guarded resIsPtr : Bool) (r : Val) (n1 : Nat) : Val × Nat :=
  if guarded && !resIsPtr then (.ptr (.fresh n1) r, n1 + 1) else (r, n1)

/-- the conversion of the method's result fails -/
theorem up_field_viaConv (p : Program) (fuel : Nat) (fr : Frame) (target : S) (path : List S) (derefs : List Bool) (guarded resIsPtr : Bool)
    (call cv : Conv) (zero : ZeroCheck) (rest : FieldPlans) (src old recv r : Val) (lf : Option Val) (n n1 : Nat) (e : ErrV)
    (hw : walk path (derefs.take path.length) src = .ok lf) (hr : viaRecv derefs lf = .ok (some recv))
    (hcall : evalConv p fuel { fr with parent := none } call recv .nil n = .ok (r, n1))
    (hz : (zero == .check && isZeroVal (viaArg guarded resIsPtr r n1).1) = false)
    (hc : evalConv p fuel { fr with parent := none } cv (viaArg guarded resIsPtr r n1).1 (oldField old target) (viaArg guarded resIsPtr r n1).2 = .err e) :
    evalFields p (fuel+1) fr (.cons (.viaMethod target path derefs guarded call resIsPtr cv zero) rest) src old n = .err e := by
  unfold viaRecv at hr
  unfold viaArg oldField at *
  unfold evalFields
  simp only []
  simp only [hw]
  split <;> rename_i heq <;> have hh := heq.symm.trans hr <;> cases hh
  simp only [hcall]
  simp only [hz, Bool.false_eq_true, if_false, hc]

/-- a guard on the way to the receiver failed and the nil result is converted: that conversion fails -/
theorem up_field_viaNil (p : Program) (fuel : Nat) (fr : Frame) (target : S) (path : List S) (derefs : List Bool) (guarded resIsPtr : Bool)
    (call cv : Conv) (zero : ZeroCheck) (rest : FieldPlans) (src old : Val) (lf : Option Val) (n : Nat) (e : ErrV)
    (hw : walk path (derefs.take path.length) src = .ok lf) (hr : viaRecv derefs lf = .ok none)
    (hz : (zero == .check) = false)
    (hc : evalConv p fuel { fr with parent := none } cv .nil (oldField old target) n = .err e) :
    evalFields p (fuel+1) fr (.cons (.viaMethod target path derefs guarded call resIsPtr cv zero) rest) src old n = .err e := by
  unfold viaRecv at hr
  unfold oldField at *
  unfold evalFields
  simp only []
  simp only [hw]
  split <;> rename_i heq <;> have hh := heq.symm.trans hr <;> cases hh
  simp only [hz, Bool.false_eq_true, if_false, hc]

/-! methods -/

/-- the frame a method body runs in -/
def methodFrame (m : Nat) (gm : GenMethod) (ctxVals : List Val) : Frame :=
  { self := m, ctx := ((gm.args.filter (fun a => a.use == .context)).map (·.ty)).zip ctxVals, idx := [], keys := [], parent := none }

theorem up_call_convert (p : Program) (fuel m : Nat) (gm : GenMethod) (c : Conv) (src : Val) (ctxVals : List Val) (n : Nat) (e : ErrV)
    (hm : p.methods[m]? = some gm) (hb : gm.body = some (.convert c))
    (h : evalConv p fuel (methodFrame m gm ctxVals) c src (zeroVal p.conv.env 64 gm.target) n = .err e) :
    callMethod p (fuel+1) m src ctxVals n = .err e := by
  unfold methodFrame at h
  unfold callMethod
  simp only [hm, hb]
  exact h

theorem up_call_delegate (p : Program) (fuel m : Nat) (gm : GenMethod) (i : Nat) (args : List CallArg) (d : FnDef) (src : Val)
    (ctxVals : List Val) (n : Nat) (hm : p.methods[m]? = some gm) (hb : gm.body = some (.delegate i args true))
    (hd : p.conv.customs[i]? = some d) (hf : p.sem.failsOn d.name src = true) :
    callMethod p (fuel+1) m src ctxVals n = .err (.boom d.name) := by
  unfold callMethod
  simp only [hm, hb, hd, hf, Bool.and_self, if_true]

/-! ## the composite: the first failing call in evaluation order -/

/-- what is being evaluated: a plan node, a loop over elements / entries / field plans, a method call -/
inductive Task
  | conv (c : Conv) (v old : Val)
  | elems (te : Ty) (elem : Conv) (vs : List Val) (i : Nat)
  | elemsOld (elem : Conv) (vs olds : List Val) (i : Nat)
  | entries (tk tv : Ty) (key val : Conv) (kvs : List (Val × Val))
  | fields (plans : FieldPlans) (src old : Val)
  | call (m : Nat) (v : Val) (cs : List Val)

/-- the evaluator of the task returns the error `e` -/
def Task.errs (p : Program) (fuel : Nat) (fr : Frame) (n : Nat) (e : ErrV) : Task → Prop
  | .conv c v old => evalConv p fuel fr c v old n = .err e
  | .elems te elem vs i => evalElems p fuel fr te elem vs i n = .err e
  | .elemsOld elem vs olds i => evalElemsOld p fuel fr elem vs olds i n = .err e
  | .entries tk tv key val kvs => evalEntries p fuel fr tk tv key val kvs n = .err e
  | .fields plans src old => evalFields p fuel fr plans src old n = .err e
  | .call m v cs => callMethod p fuel m v cs n = .err e

/-- `ErrIn p fuel fr n task e root`: evaluating `task` (with this fuel, frame and allocation counter) reaches — after
earlier siblings (elements, map entries, fields, constructor) that evaluate WITHOUT an error — a custom function /
source-struct method that fails, or an `@error` enum action (`root`); `e` is that failure wrapped by every call site on
the way up. -/
inductive ErrIn (p : Program) : Nat → Frame → Nat → Task → ErrV → ErrV → Prop
  | cast {fuel fr n inner v old e root} : ErrIn p fuel fr n (.conv inner v old) e root →
      ErrIn p (fuel+1) fr n (.conv (.cast inner) v old) e root
  | underlying {fuel fr n a b inner v old e root} : ErrIn p fuel { fr with parent := none } n (.conv inner v old) e root →
      ErrIn p (fuel+1) fr n (.conv (.underlying a b inner) v old) e root
  | structMethod {fuel fr n n1 name args w v old argVals} : args.filterMapM (argOf fr v) n = .ok (argVals, n1) →
      p.sem.failsOn name v = true →
      ErrIn p (fuel+1) fr n (.conv (.call (.structMethod name) args true w) v old) (wrapErr w fr.idx fr.keys (.boom name)) (.boom name)
  | custom {fuel fr n n1 i d args w v old argVals} : args.filterMapM (argOf fr v) n = .ok (argVals, n1) →
      p.conv.customs[i]? = some d → p.sem.failsOn d.name (argVals.headD .nil) = true →
      ErrIn p (fuel+1) fr n (.conv (.call (.custom i) args true w) v old) (wrapErr w fr.idx fr.keys (.boom d.name)) (.boom d.name)
  | method {fuel fr fr' n n1 m args w v old argVals e root} : args.filterMapM (argOf fr v) n = .ok (argVals, n1) →
      ErrIn p fuel fr' n1 (.call m v (ctxValsOf fr args)) e root →
      ErrIn p (fuel+1) fr n (.conv (.call (.method m) args true w) v old) (wrapErr w fr.idx fr.keys e) root
  | ptrPtr {fuel fr n te inner l x old e root} :
      ErrIn p fuel { fr with parent := some (.ptr l x) } n (.conv inner x (zeroVal p.conv.env 64 te)) e root →
      ErrIn p (fuel+1) fr n (.conv (.ptrPtr te inner) (.ptr l x) old) e root
  | srcPtr {fuel fr n t inner l x old e root} :
      ErrIn p fuel { fr with parent := some (.ptr l x) } n (.conv inner x (zeroVal p.conv.env 64 t)) e root →
      ErrIn p (fuel+1) fr n (.conv (.srcPtr t inner) (.ptr l x) old) e root
  | tgtPtr {fuel fr n te inner v old e root} :
      ErrIn p fuel { fr with parent := none } n (.conv inner v (zeroVal p.conv.env 64 te)) e root →
      ErrIn p (fuel+1) fr n (.conv (.tgtPtr te inner) v old) e root
  | listMake {fuel fr n te hg elem v old vs e root} : listElems v = some vs → ErrIn p fuel fr n (.elems te elem vs 0) e root →
      ErrIn p (fuel+1) fr n (.conv (.list te true hg elem) v old) e root
  | listNoMake {fuel fr n te hg elem v old vs e root} : listElems v = some vs →
      ErrIn p fuel fr n (.elemsOld elem vs (oldElems old vs.length) 0) e root →
      ErrIn p (fuel+1) fr n (.conv (.list te false hg elem) v old) e root
  | elemsHere {fuel fr n te elem v vs i e root} :
      ErrIn p fuel { fr with idx := fr.idx ++ [i], parent := none } n (.conv elem v (zeroVal p.conv.env 64 te)) e root →
      ErrIn p (fuel+1) fr n (.elems te elem (v :: vs) i) e root
  | elemsThere {fuel fr n n1 te elem v x vs i e root} :
      evalConv p fuel { fr with idx := fr.idx ++ [i], parent := none } elem v (zeroVal p.conv.env 64 te) n = .ok (x, n1) →
      ErrIn p fuel fr n1 (.elems te elem vs (i + 1)) e root → ErrIn p (fuel+1) fr n (.elems te elem (v :: vs) i) e root
  | elemsOldHere {fuel fr n elem v vs olds i e root} :
      ErrIn p fuel { fr with idx := fr.idx ++ [i], parent := none } n (.conv elem v (olds.headD .absent)) e root →
      ErrIn p (fuel+1) fr n (.elemsOld elem (v :: vs) olds i) e root
  | elemsOldThere {fuel fr n n1 elem v x vs olds i e root} :
      evalConv p fuel { fr with idx := fr.idx ++ [i], parent := none } elem v (olds.headD .absent) n = .ok (x, n1) →
      ErrIn p fuel fr n1 (.elemsOld elem vs (olds.drop 1) (i + 1)) e root →
      ErrIn p (fuel+1) fr n (.elemsOld elem (v :: vs) olds i) e root
  | map {fuel fr n tk tv key val l kvs old e root} : ErrIn p fuel fr n (.entries tk tv key val kvs) e root →
      ErrIn p (fuel+1) fr n (.conv (.mapc tk tv key val) (.map l kvs) old) e root
  | entriesKey {fuel fr n tk tv key val k v rest e root} :
      ErrIn p fuel { fr with keys := fr.keys ++ [k], parent := none } n (.conv key k (zeroVal p.conv.env 64 tk)) e root →
      ErrIn p (fuel+1) fr n (.entries tk tv key val ((k, v) :: rest)) e root
  | entriesVal {fuel fr n n1 tk tv key val k v k' rest e root} :
      evalConv p fuel { fr with keys := fr.keys ++ [k], parent := none } key k (zeroVal p.conv.env 64 tk) n = .ok (k', n1) →
      ErrIn p fuel { fr with keys := fr.keys ++ [k], parent := none } n1 (.conv val v (zeroVal p.conv.env 64 tv)) e root →
      ErrIn p (fuel+1) fr n (.entries tk tv key val ((k, v) :: rest)) e root
  | entriesThere {fuel fr n n1 n2 tk tv key val k v k' v' rest e root} :
      evalConv p fuel { fr with keys := fr.keys ++ [k], parent := none } key k (zeroVal p.conv.env 64 tk) n = .ok (k', n1) →
      evalConv p fuel { fr with keys := fr.keys ++ [k], parent := none } val v (zeroVal p.conv.env 64 tv) n1 = .ok (v', n2) →
      ErrIn p fuel fr n2 (.entries tk tv key val rest) e root →
      ErrIn p (fuel+1) fr n (.entries tk tv key val ((k, v) :: rest)) e root
  | struct {fuel fr n fields u v old e root} : ErrIn p fuel fr n (.fields fields v (normStruct old)) e root →
      ErrIn p (fuel+1) fr n (.conv (.structc fields u) v old) e root
  | fieldsThere {fuel fr n n' f rest src old old' e root} : FieldDone p fuel fr f src old n old' n' →
      ErrIn p fuel fr n' (.fields rest src old') e root → ErrIn p (fuel+1) fr n (.fields (.cons f rest) src old) e root
  | fieldMapped {fuel fr n target path derefs guarded leafIsPtr cv zero rest src old lf e root} :
      walk path derefs src = .ok lf → (zero == .check && isZeroVal (mappedArg guarded leafIsPtr lf n).1) = false →
      ErrIn p fuel { fr with parent := if path.isEmpty then fr.parent else none } (mappedArg guarded leafIsPtr lf n).2
        (.conv cv (mappedArg guarded leafIsPtr lf n).1 (oldField old target)) e root →
      ErrIn p (fuel+1) fr n (.fields (.cons (.mapped target path derefs guarded leafIsPtr cv zero) rest) src old) e root
  | fieldViaCall {fuel fr n target path derefs guarded resIsPtr call cv zero rest src old recv lf e root} :
      walk path (derefs.take path.length) src = .ok lf → viaRecv derefs lf = .ok (some recv) →
      ErrIn p fuel { fr with parent := none } n (.conv call recv .nil) e root →
      ErrIn p (fuel+1) fr n (.fields (.cons (.viaMethod target path derefs guarded call resIsPtr cv zero) rest) src old) e root
  | fieldViaConv {fuel fr n n1 target path derefs guarded resIsPtr call cv zero rest src old recv r lf e root} :
      walk path (derefs.take path.length) src = .ok lf → viaRecv derefs lf = .ok (some recv) →
      evalConv p fuel { fr with parent := none } call recv .nil n = .ok (r, n1) →
      (zero == .check && isZeroVal (viaArg guarded resIsPtr r n1).1) = false →
      ErrIn p fuel { fr with parent := none } (viaArg guarded resIsPtr r n1).2
        (.conv cv (viaArg guarded resIsPtr r n1).1 (oldField old target)) e root →
      ErrIn p (fuel+1) fr n (.fields (.cons (.viaMethod target path derefs guarded call resIsPtr cv zero) rest) src old) e root
  | fieldViaNil {fuel fr n target path derefs guarded resIsPtr call cv zero rest src old lf e root} :
      walk path (derefs.take path.length) src = .ok lf → viaRecv derefs lf = .ok none → (zero == .check) = false →
      ErrIn p fuel { fr with parent := none } n (.conv cv .nil (oldField old target)) e root →
      ErrIn p (fuel+1) fr n (.fields (.cons (.viaMethod target path derefs guarded call resIsPtr cv zero) rest) src old) e root
  | enum {fuel fr n cases dflt v old w} : enumPick cases dflt v = .error w →
      ErrIn p (fuel+1) fr n (.conv (.enumc cases dflt) v old) (wrapErr w fr.idx fr.keys .enumUnknown) .enumUnknown
  | withCtorC {fuel fr n ctor tp rest v old e root} : ErrIn p fuel fr n (.conv ctor v .nil) e root →
      ErrIn p (fuel+1) fr n (.conv (.withCtor ctor tp rest) v old) e root
  | withCtorR {fuel fr n n1 ctor tp rest v old cv e root} : evalConv p fuel fr ctor v .nil n = .ok (cv, n1) →
      ErrIn p fuel fr (ctorInit tp cv n1).2 (.conv rest v (ctorInit tp cv n1).1) e root →
      ErrIn p (fuel+1) fr n (.conv (.withCtor ctor tp rest) v old) e root
  | ctorUpdC {fuel fr n ctor tp sp tgp inner v old e root} : ErrIn p fuel fr n (.conv ctor v .nil) e root →
      ErrIn p (fuel+1) fr n (.conv (.ctorUpdate ctor tp sp tgp inner) v old) e root
  | ctorUpdI {fuel fr n n1 ctor tp sp tgp inner v old cv x tv parent e root} : evalConv p fuel fr ctor v .nil n = .ok (cv, n1) →
      CtorSrc sp v x parent → ctorOld tgp (ctorInit tp cv n1).1 = some tv →
      ErrIn p fuel { fr with parent := parent } (ctorInit tp cv n1).2 (.conv inner x tv) e root →
      ErrIn p (fuel+1) fr n (.conv (.ctorUpdate ctor tp sp tgp inner) v old) e root
  | callConvert {fuel fr n m gm c v cs e root} : p.methods[m]? = some gm → gm.body = some (.convert c) →
      ErrIn p fuel (methodFrame m gm cs) n (.conv c v (zeroVal p.conv.env 64 gm.target)) e root →
      ErrIn p (fuel+1) fr n (.call m v cs) e root
  | callDelegate {fuel fr n m gm i args d v cs} : p.methods[m]? = some gm → gm.body = some (.delegate i args true) →
      p.conv.customs[i]? = some d → p.sem.failsOn d.name v = true →
      ErrIn p (fuel+1) fr n (.call m v cs) (.boom d.name) (.boom d.name)

/-- **never swallowed**: the first failure in evaluation order comes out — the evaluator returns exactly the error of
that failure, wrapped by every call site on the way up, whose root cause is that failure -/
theorem errIn_sound {p : Program} {fuel : Nat} {fr : Frame} {n : Nat} {task : Task} {e root : ErrV}
    (h : ErrIn p fuel fr n task e root) : task.errs p fuel fr n e ∧ rootCause e = root := by
  induction h with
  | cast _ ih => exact ⟨up_cast _ _ _ _ _ _ _ _ ih.1, ih.2⟩
  | underlying _ ih => exact ⟨up_underlying _ _ _ _ _ _ _ _ _ _ ih.1, ih.2⟩
  | structMethod ha hf => exact ⟨up_structMethod _ _ _ _ _ _ _ _ _ _ _ ha hf, by rw [rootCause_wrapErr]; rfl⟩
  | custom ha hd hf => exact ⟨up_custom _ _ _ _ _ _ _ _ _ _ _ _ ha hd hf, by rw [rootCause_wrapErr]; rfl⟩
  | method ha _ ih => exact ⟨up_method _ _ _ _ _ _ _ _ _ _ _ _ ha ih.1, by rw [rootCause_wrapErr]; exact ih.2⟩
  | ptrPtr _ ih => exact ⟨up_ptrPtr _ _ _ _ _ _ _ _ _ _ ih.1, ih.2⟩
  | srcPtr _ ih => exact ⟨up_srcPtr _ _ _ _ _ _ _ _ _ _ ih.1, ih.2⟩
  | tgtPtr _ ih => exact ⟨up_tgtPtr _ _ _ _ _ _ _ _ _ ih.1, ih.2⟩
  | listMake hv _ ih => exact ⟨up_list_make _ _ _ _ _ _ _ _ _ _ _ hv ih.1, ih.2⟩
  | listNoMake hv _ ih => exact ⟨up_list_nomake _ _ _ _ _ _ _ _ _ _ _ hv ih.1, ih.2⟩
  | elemsHere _ ih => exact ⟨up_elems_here _ _ _ _ _ _ _ _ _ _ ih.1, ih.2⟩
  | elemsThere h1 _ ih => exact ⟨up_elems_there _ _ _ _ _ _ _ _ _ _ _ _ h1 ih.1, ih.2⟩
  | elemsOldHere _ ih => exact ⟨up_elemsOld_here _ _ _ _ _ _ _ _ _ _ ih.1, ih.2⟩
  | elemsOldThere h1 _ ih => exact ⟨up_elemsOld_there _ _ _ _ _ _ _ _ _ _ _ _ h1 ih.1, ih.2⟩
  | map _ ih => exact ⟨up_map _ _ _ _ _ _ _ _ _ _ _ _ ih.1, ih.2⟩
  | entriesKey _ ih => exact ⟨up_entries_key _ _ _ _ _ _ _ _ _ _ _ _ ih.1, ih.2⟩
  | entriesVal h1 _ ih => exact ⟨up_entries_val _ _ _ _ _ _ _ _ _ _ _ _ _ _ h1 ih.1, ih.2⟩
  | entriesThere h1 h2 _ ih => exact ⟨up_entries_there _ _ _ _ _ _ _ _ _ _ _ _ _ _ _ _ h1 h2 ih.1, ih.2⟩
  | struct _ ih => exact ⟨up_struct _ _ _ _ _ _ _ _ _ ih.1, ih.2⟩
  | fieldsThere hd _ ih => exact ⟨up_fields_there _ _ _ _ _ _ _ _ _ _ _ hd ih.1, ih.2⟩
  | fieldMapped hw hz _ ih => exact ⟨up_field_mapped _ _ _ _ _ _ _ _ _ _ _ _ _ _ _ _ hw hz ih.1, ih.2⟩
  | fieldViaCall hw hr _ ih => exact ⟨up_field_viaCall _ _ _ _ _ _ _ _ _ _ _ _ _ _ _ _ _ _ hw hr ih.1, ih.2⟩
  | fieldViaConv hw hr hc hz _ ih => exact ⟨up_field_viaConv _ _ _ _ _ _ _ _ _ _ _ _ _ _ _ _ _ _ _ _ hw hr hc hz ih.1, ih.2⟩
  | fieldViaNil hw hr hz _ ih => exact ⟨up_field_viaNil _ _ _ _ _ _ _ _ _ _ _ _ _ _ _ _ _ hw hr hz ih.1, ih.2⟩
  | enum h => exact ⟨up_enum _ _ _ _ _ _ _ _ _ h, by rw [rootCause_wrapErr]; rfl⟩
  | withCtorC _ ih => exact ⟨up_withCtor_ctor _ _ _ _ _ _ _ _ _ _ ih.1, ih.2⟩
  | withCtorR h1 _ ih => exact ⟨up_withCtor_rest _ _ _ _ _ _ _ _ _ _ _ _ h1 ih.1, ih.2⟩
  | ctorUpdC _ ih => exact ⟨up_ctorUpdate_ctor _ _ _ _ _ _ _ _ _ _ _ _ ih.1, ih.2⟩
  | ctorUpdI h1 hs ho _ ih => exact ⟨up_ctorUpdate_inner _ _ _ _ _ _ _ _ _ _ _ _ _ _ _ _ _ h1 hs ho ih.1, ih.2⟩
  | callConvert hm hb _ ih => exact ⟨up_call_convert _ _ _ _ _ _ _ _ _ hm hb ih.1, ih.2⟩
  | callDelegate hm hb hd hf => exact ⟨up_call_delegate _ _ _ _ _ _ _ _ _ _ hm hb hd hf, rfl⟩

/-! the per-field equations of `evalFields`, with the pieces named -/

theorem evalFields_mapped_eq (p : Program) (fuel : Nat) (fr : Frame) (target : S) (path : List S) (derefs : List Bool) (guarded leafIsPtr : Bool)
    (cv : Conv) (zero : ZeroCheck) (rest : FieldPlans) (src old : Val) (n : Nat) :
    evalFields p (fuel+1) fr (.cons (.mapped target path derefs guarded leafIsPtr cv zero) rest) src old n =
      match walk path derefs src with
      | .stuck w => .stuck w
      | .err e => .err e
      | .panic k => .panic k
      | .ok lf =>
        if (zero == .check && isZeroVal (mappedArg guarded leafIsPtr lf n).1) = true then
          evalFields p fuel fr rest src old (mappedArg guarded leafIsPtr lf n).2
        else
          match evalConv p fuel { fr with parent := if path.isEmpty then fr.parent else none } cv (mappedArg guarded leafIsPtr lf n).1
              (oldField old target) (mappedArg guarded leafIsPtr lf n).2 with
          | .ok (nv, n') =>
            if (old.isAbsent && nv.isAbsent) = true then evalFields p fuel fr rest src old n'
            else evalFields p fuel fr rest src (setField old target nv) n'
          | .err e => .err e
          | .panic k => .panic k
          | .stuck w => .stuck w := by
  conv => lhs; unfold evalFields
  rfl

theorem evalFields_via_eq (p : Program) (fuel : Nat) (fr : Frame) (target : S) (path : List S) (derefs : List Bool) (guarded resIsPtr : Bool)
    (call cv : Conv) (zero : ZeroCheck) (rest : FieldPlans) (src old : Val) (n : Nat) :
    evalFields p (fuel+1) fr (.cons (.viaMethod target path derefs guarded call resIsPtr cv zero) rest) src old n =
      match walk path (derefs.take path.length) src with
      | .stuck w => .stuck w
      | .err e => .err e
      | .panic k => .panic k
      | .ok lf =>
        match viaRecv derefs lf with
        | .stuck w => .stuck w
        | .err e => .err e
        | .panic k => .panic k
        | .ok none =>
          if (zero == .check) = true then evalFields p fuel fr rest src old n
          else
            match evalConv p fuel { fr with parent := none } cv .nil (oldField old target) n with
            | .ok (nv, n') =>
              if (old.isAbsent && nv.isAbsent) = true then evalFields p fuel fr rest src old n'
              else evalFields p fuel fr rest src (setField old target nv) n'
            | .err e => .err e
            | .panic k => .panic k
            | .stuck w => .stuck w
        | .ok (some recv) =>
          match evalConv p fuel { fr with parent := none } call recv .nil n with
          | .err e => .err e
          | .panic k => .panic k
          | .stuck w => .stuck w
          | .ok (r, n1) =>
            if (zero == .check && isZeroVal (viaArg guarded resIsPtr r n1).1) = true then
              evalFields p fuel fr rest src old (viaArg guarded resIsPtr r n1).2
            else
              match evalConv p fuel { fr with parent := none } cv (viaArg guarded resIsPtr r n1).1 (oldField old target)
                  (viaArg guarded resIsPtr r n1).2 with
              | .ok (nv, n') =>
                if (old.isAbsent && nv.isAbsent) = true then evalFields p fuel fr rest src old n'
                else evalFields p fuel fr rest src (setField old target nv) n'
              | .err e => .err e
              | .panic k => .panic k
              | .stuck w => .stuck w := by
  conv => lhs; unfold evalFields
  rfl

/-! ## the converse: every error is the first failing call (completeness of `ErrIn`) -/

def CConv (p : Program) (fuel : Nat) : Prop :=
  ∀ (fr : Frame) (c : Conv) (v old : Val) (n : Nat) (e : ErrV), evalConv p fuel fr c v old n = .err e →
    ∃ root, ErrIn p fuel fr n (.conv c v old) e root
def CCall (p : Program) (fuel : Nat) : Prop :=
  ∀ (fr : Frame) (m : Nat) (v : Val) (cs : List Val) (n : Nat) (e : ErrV), callMethod p fuel m v cs n = .err e →
    ∃ root, ErrIn p fuel fr n (.call m v cs) e root
def CElems (p : Program) (fuel : Nat) : Prop :=
  ∀ (fr : Frame) (te : Ty) (elem : Conv) (vs : List Val) (i n : Nat) (e : ErrV), evalElems p fuel fr te elem vs i n = .err e →
    ∃ root, ErrIn p fuel fr n (.elems te elem vs i) e root
def CElemsOld (p : Program) (fuel : Nat) : Prop :=
  ∀ (fr : Frame) (elem : Conv) (vs olds : List Val) (i n : Nat) (e : ErrV), evalElemsOld p fuel fr elem vs olds i n = .err e →
    ∃ root, ErrIn p fuel fr n (.elemsOld elem vs olds i) e root
def CEntries (p : Program) (fuel : Nat) : Prop :=
  ∀ (fr : Frame) (tk tv : Ty) (key val : Conv) (kvs : List (Val × Val)) (n : Nat) (e : ErrV),
    evalEntries p fuel fr tk tv key val kvs n = .err e → ∃ root, ErrIn p fuel fr n (.entries tk tv key val kvs) e root
def CFields (p : Program) (fuel : Nat) : Prop :=
  ∀ (fr : Frame) (plans : FieldPlans) (src old : Val) (n : Nat) (e : ErrV), evalFields p fuel fr plans src old n = .err e →
    ∃ root, ErrIn p fuel fr n (.fields plans src old) e root

theorem cElems_step (p : Program) (fuel : Nat) (ihc : CConv p fuel) (ihe : CElems p fuel) : CElems p (fuel + 1) := by
  intro fr te elem vs i n e hev
  cases vs with
  | nil => unfold evalElems at hev; exact absurd hev (by simp [E_pure_err])
  | cons v vs =>
    unfold evalElems at hev
    rcases (E_bind_err _ _ _ _).1 hev with h | ⟨x, n1, h1, h2⟩
    · obtain ⟨root, hr⟩ := ihc _ _ _ _ _ _ h; exact ⟨root, .elemsHere hr⟩
    · rcases (E_bind_err _ _ _ _).1 h2 with h | ⟨r, n2, _, h4⟩
      · obtain ⟨root, hr⟩ := ihe _ _ _ _ _ _ _ h; exact ⟨root, .elemsThere h1 hr⟩
      · exact absurd h4 (by simp [E_pure_err])

theorem cElemsOld_step (p : Program) (fuel : Nat) (ihc : CConv p fuel) (ihe : CElemsOld p fuel) : CElemsOld p (fuel + 1) := by
  intro fr elem vs olds i n e hev
  cases vs with
  | nil => unfold evalElemsOld at hev; exact absurd hev (by simp [E_pure_err])
  | cons v vs =>
    unfold evalElemsOld at hev
    rcases (E_bind_err _ _ _ _).1 hev with h | ⟨x, n1, h1, h2⟩
    · obtain ⟨root, hr⟩ := ihc _ _ _ _ _ _ h; exact ⟨root, .elemsOldHere hr⟩
    · rcases (E_bind_err _ _ _ _).1 h2 with h | ⟨r, n2, _, h4⟩
      · obtain ⟨root, hr⟩ := ihe _ _ _ _ _ _ _ h; exact ⟨root, .elemsOldThere h1 hr⟩
      · exact absurd h4 (by simp [E_pure_err])

theorem cEntries_step (p : Program) (fuel : Nat) (ihc : CConv p fuel) (ihe : CEntries p fuel) : CEntries p (fuel + 1) := by
  intro fr tk tv key val kvs n e hev
  cases kvs with
  | nil => unfold evalEntries at hev; exact absurd hev (by simp [E_pure_err])
  | cons kv kvs =>
    obtain ⟨a, b⟩ := kv
    unfold evalEntries at hev
    rcases (E_bind_err _ _ _ _).1 hev with h | ⟨x, n1, h1, h2⟩
    · obtain ⟨root, hr⟩ := ihc _ _ _ _ _ _ h; exact ⟨root, .entriesKey hr⟩
    · rcases (E_bind_err _ _ _ _).1 h2 with h | ⟨y, n2, h3, h4⟩
      · obtain ⟨root, hr⟩ := ihc _ _ _ _ _ _ h; exact ⟨root, .entriesVal h1 hr⟩
      · rcases (E_bind_err _ _ _ _).1 h4 with h | ⟨r, n3, _, h6⟩
        · obtain ⟨root, hr⟩ := ihe _ _ _ _ _ _ _ _ h; exact ⟨root, .entriesThere h1 h3 hr⟩
        · exact absurd h6 (by simp [E_pure_err])

theorem cCall_step (p : Program) (fuel : Nat) (ihc : CConv p fuel) : CCall p (fuel + 1) := by
  intro fr m v cs n e hev
  unfold callMethod at hev
  split at hev
  · cases hev
  · rename_i gm hm
    split at hev
    · cases hev
    · rename_i c hb
      obtain ⟨root, hr⟩ := ihc _ _ _ _ _ _ hev
      exact ⟨root, .callConvert hm hb hr⟩
    · rename_i i args retErr hb
      split at hev
      · cases hev
      · rename_i d hd
        split at hev
        · rename_i hcond
          simp only [Bool.and_eq_true] at hcond
          obtain ⟨rfl, hf⟩ := hcond
          cases hev
          exact ⟨_, .callDelegate hm hb hd hf⟩
        · cases hev
    · cases hev

theorem ifte_err {α} {c : Bool} {a b : α} {r : α} (h : (if c = true then a else b) = r) : (c = true ∧ a = r) ∨ (c = false ∧ b = r) := by
  cases c with
  | true => exact .inl ⟨rfl, by simpa using h⟩
  | false => exact .inr ⟨rfl, by simpa using h⟩

theorem cFields_step (p : Program) (fuel : Nat) (ihc : CConv p fuel) (ihf : CFields p fuel) : CFields p (fuel + 1) := by
  intro fr plans src old n e hev
  cases plans with
  | nil => unfold evalFields at hev; exact absurd hev (by simp [E_pure_err])
  | cons f rest =>
    cases f with
    | skip t =>
      have hd := fieldDone_skip p fuel fr t src old n
      rw [hd rest] at hev
      obtain ⟨root, hr⟩ := ihf _ _ _ _ _ _ hev
      exact ⟨root, .fieldsThere hd hr⟩
    | mapped target path derefs guarded leafIsPtr cv zero =>
      have heq := evalFields_mapped_eq p fuel fr target path derefs guarded leafIsPtr cv zero rest src old n
      cases hw : walk path derefs src with
      | stuck w => rw [heq, hw] at hev; cases hev
      | err e' => exact absurd hw (walk_not_err _ _ _ _)
      | panic k => rw [heq, hw] at hev; cases hev
      | ok lf =>
        cases hz : (zero == ZeroCheck.check && isZeroVal (mappedArg guarded leafIsPtr lf n).1) with
        | true =>
          have hd := fieldDone_mapped_zero p fuel fr target path derefs guarded leafIsPtr cv zero src old lf n hw hz
          rw [hd rest] at hev
          obtain ⟨root, hr⟩ := ihf _ _ _ _ _ _ hev
          exact ⟨root, .fieldsThere hd hr⟩
        | false =>
          cases hc : evalConv p fuel { fr with parent := if path.isEmpty then fr.parent else none } cv (mappedArg guarded leafIsPtr lf n).1
              (oldField old target) (mappedArg guarded leafIsPtr lf n).2 with
          | ok r =>
            obtain ⟨nv, n'⟩ := r
            have hd := fieldDone_mapped p fuel fr target path derefs guarded leafIsPtr cv zero src old nv lf n n' hw hz hc
            rw [hd rest] at hev
            obtain ⟨root, hr⟩ := ihf _ _ _ _ _ _ hev
            exact ⟨root, .fieldsThere hd hr⟩
          | err e' =>
            have := up_field_mapped p fuel fr target path derefs guarded leafIsPtr cv zero rest src old lf n e' hw hz hc
            rw [this] at hev; cases hev
            obtain ⟨root, hr⟩ := ihc _ _ _ _ _ _ hc
            exact ⟨root, .fieldMapped hw hz hr⟩
          | panic k => rw [heq, hw] at hev; simp only [hz, Bool.false_eq_true, if_false, hc] at hev; cases hev
          | stuck w => rw [heq, hw] at hev; simp only [hz, Bool.false_eq_true, if_false, hc] at hev; cases hev
    | viaMethod target path derefs guarded call resIsPtr cv zero =>
      have heq := evalFields_via_eq p fuel fr target path derefs guarded resIsPtr call cv zero rest src old n
      -- a processed field: the loop goes on
      have done : ∀ (old' : Val) (n' : Nat), (∀ rest', evalFields p (fuel+1) fr (.cons (.viaMethod target path derefs guarded call resIsPtr cv zero) rest') src old n =
          evalFields p fuel fr rest' src old' n') → ∃ root, ErrIn p (fuel+1) fr n (.fields (.cons (.viaMethod target path derefs guarded call resIsPtr cv zero) rest) src old) e root := by
        intro old' n' hd
        rw [hd rest] at hev
        obtain ⟨root, hr⟩ := ihf _ _ _ _ _ _ hev
        exact ⟨root, .fieldsThere hd hr⟩
      -- the tail after a successful conversion of the value
      have tail : ∀ (nv : Val) (n' : Nat) (rest' : FieldPlans),
          (if (old.isAbsent && nv.isAbsent) = true then evalFields p fuel fr rest' src old n'
           else evalFields p fuel fr rest' src (setField old target nv) n') =
          evalFields p fuel fr rest' src (if old.isAbsent && nv.isAbsent then old else setField old target nv) n' := by
        intro nv n' rest'; split <;> simp [*]
      cases hw : walk path (derefs.take path.length) src with
      | stuck w => rw [heq, hw] at hev; cases hev
      | err e' => exact absurd hw (walk_not_err _ _ _ _)
      | panic k => rw [heq, hw] at hev; cases hev
      | ok lf =>
        cases hr : viaRecv derefs lf with
        | stuck w => rw [heq, hw] at hev; simp only [hr] at hev; cases hev
        | err e' => rw [heq, hw] at hev; simp only [hr] at hev; exact (recv_not_err (by unfold viaRecv at hr; exact hr)).elim
        | panic k => rw [heq, hw] at hev; simp only [hr] at hev; cases hev
        | ok ro =>
          cases ro with
          | none =>
            cases hz : (zero == ZeroCheck.check) with
            | true =>
              exact done old n (fun rest' => by rw [evalFields_via_eq, hw]; simp only [hr, hz, if_true])
            | false =>
              cases hc : evalConv p fuel { fr with parent := none } cv .nil (oldField old target) n with
              | ok r =>
                obtain ⟨nv, n'⟩ := r
                exact done _ n' (fun rest' => by rw [evalFields_via_eq, hw]; simp only [hr, hz, Bool.false_eq_true, if_false, hc]; exact tail nv n' rest')
              | err e' =>
                have := up_field_viaNil p fuel fr target path derefs guarded resIsPtr call cv zero rest src old lf n e' hw hr hz hc
                rw [this] at hev; cases hev
                obtain ⟨root, hrr⟩ := ihc _ _ _ _ _ _ hc
                exact ⟨root, .fieldViaNil hw hr hz hrr⟩
              | panic k => rw [heq, hw] at hev; simp only [hr, hz, Bool.false_eq_true, if_false, hc] at hev; cases hev
              | stuck w => rw [heq, hw] at hev; simp only [hr, hz, Bool.false_eq_true, if_false, hc] at hev; cases hev
          | some recv =>
            cases hcall : evalConv p fuel { fr with parent := none } call recv .nil n with
            | err e' =>
              have := up_field_viaCall p fuel fr target path derefs guarded resIsPtr call cv zero rest src old recv lf n e' hw hr hcall
              rw [this] at hev; cases hev
              obtain ⟨root, hrr⟩ := ihc _ _ _ _ _ _ hcall
              exact ⟨root, .fieldViaCall hw hr hrr⟩
            | panic k => rw [heq, hw] at hev; simp only [hr, hcall] at hev; cases hev
            | stuck w => rw [heq, hw] at hev; simp only [hr, hcall] at hev; cases hev
            | ok rr =>
              obtain ⟨r, n1⟩ := rr
              cases hz : (zero == ZeroCheck.check && isZeroVal (viaArg guarded resIsPtr r n1).1) with
              | true =>
                exact done old (viaArg guarded resIsPtr r n1).2 (fun rest' => by rw [evalFields_via_eq, hw]; simp only [hr, hcall, hz, if_true])
              | false =>
                cases hc : evalConv p fuel { fr with parent := none } cv (viaArg guarded resIsPtr r n1).1 (oldField old target)
                    (viaArg guarded resIsPtr r n1).2 with
                | ok r2 =>
                  obtain ⟨nv, n'⟩ := r2
                  exact done _ n' (fun rest' => by rw [evalFields_via_eq, hw]; simp only [hr, hcall, hz, Bool.false_eq_true, if_false, hc]; exact tail nv n' rest')
                | err e' =>
                  have := up_field_viaConv p fuel fr target path derefs guarded resIsPtr call cv zero rest src old recv r lf n n1 e' hw hr hcall hz hc
                  rw [this] at hev; cases hev
                  obtain ⟨root, hrr⟩ := ihc _ _ _ _ _ _ hc
                  exact ⟨root, .fieldViaConv hw hr hcall hz hrr⟩
                | panic k => rw [heq, hw] at hev; simp only [hr, hcall, hz, Bool.false_eq_true, if_false, hc] at hev; cases hev
                | stuck w => rw [heq, hw] at hev; simp only [hr, hcall, hz, Bool.false_eq_true, if_false, hc] at hev; cases hev

theorem cConv_step (p : Program) (fuel : Nat) (ihc : CConv p fuel) (ihm : CCall p fuel) (ihe : CElems p fuel)
    (iho : CElemsOld p fuel) (ihn : CEntries p fuel) (ihf : CFields p fuel) : CConv p (fuel + 1) := by
  intro fr c v old n e hev
  cases c with
  | ident => unfold evalConv at hev; exact absurd hev (by simp [E_pure_err])
  | cast inner => unfold evalConv at hev; obtain ⟨root, hr⟩ := ihc _ _ _ _ _ _ hev; exact ⟨root, .cast hr⟩
  | underlying a b inner => unfold evalConv at hev; obtain ⟨root, hr⟩ := ihc _ _ _ _ _ _ hev; exact ⟨root, .underlying hr⟩
  | call callee args retErr w =>
    unfold evalConv at hev
    simp only [] at hev
    rcases (E_bind_err _ _ _ _).1 hev with h | ⟨argVals, n1, ha, h⟩
    · exact absurd h (filterMapM_loop_not_err fr v args [] n e)
    · cases callee with
      | structMethod name =>
        simp only [] at h
        split at h
        · rename_i hcond
          simp only [Bool.and_eq_true] at hcond
          obtain ⟨rfl, hf⟩ := hcond
          rw [E_errE _ _ _ h]; exact ⟨_, .structMethod ha hf⟩
        · exact absurd h (by simp [E_pure_err])
      | custom i =>
        simp only [] at h
        cases hd : p.conv.customs[i]? with
        | none => rw [hd] at h; exact absurd h (stuckE_not_err _ _ _)
        | some d =>
          rw [hd] at h
          simp only [] at h
          split at h
          · rename_i hcond
            simp only [Bool.and_eq_true] at hcond
            obtain ⟨rfl, hf⟩ := hcond
            rw [E_errE _ _ _ h]; exact ⟨_, .custom ha hd hf⟩
          · split at h
            · cases hp : isPtr p.conv.env d.target with
              | some te =>
                rw [hp] at h
                rcases (E_bind_err _ _ _ _).1 h with h1 | ⟨l, n2, _, h2⟩
                · unfold freshLoc at h1; cases h1
                · exact absurd h2 (pure_not_err _ _ _)
              | none => rw [hp] at h; exact absurd h (pure_not_err _ _ _)
            · exact absurd h (pure_not_err _ _ _)
      | method m =>
        simp only [] at h
        split at h
        · cases h
        · rename_i e1 heq
          split at h
          · rename_i hre
            subst hre
            injection h with h; subst h
            obtain ⟨root, hr⟩ := ihm fr _ _ _ _ _ heq
            exact ⟨root, .method ha hr⟩
          · cases h
        · cases h
        · cases h
  | ptrPtr te inner =>
    unfold evalConv at hev
    simp only [] at hev
    split at hev
    · exact absurd hev (pure_not_err _ _ _)
    · rcases (E_bind_err _ _ _ _).1 hev with h | ⟨x, n1, _, h2⟩
      · obtain ⟨root, hr⟩ := ihc _ _ _ _ _ _ h; exact ⟨root, .ptrPtr hr⟩
      · rcases (E_bind_err _ _ _ _).1 h2 with h | ⟨l, n2, _, h4⟩
        · unfold freshLoc at h; cases h
        · exact absurd h4 (pure_not_err _ _ _)
    · exact absurd hev (stuckE_not_err _ _ _)
  | srcPtr t inner =>
    unfold evalConv at hev
    simp only [] at hev
    split at hev
    · exact absurd hev (pure_not_err _ _ _)
    · obtain ⟨root, hr⟩ := ihc _ _ _ _ _ _ hev; exact ⟨root, .srcPtr hr⟩
    · exact absurd hev (stuckE_not_err _ _ _)
  | tgtPtr te inner =>
    unfold evalConv at hev
    simp only [] at hev
    rcases (E_bind_err _ _ _ _).1 hev with h | ⟨x, n1, _, h2⟩
    · obtain ⟨root, hr⟩ := ihc _ _ _ _ _ _ h; exact ⟨root, .tgtPtr hr⟩
    · rcases (E_bind_err _ _ _ _).1 h2 with h | ⟨l, n2, _, h4⟩
      · unfold freshLoc at h; cases h
      · exact absurd h4 (pure_not_err _ _ _)
  | list te hasMake hasGuard elem =>
    unfold evalConv at hev
    simp only [] at hev
    have hrun : ∀ (vs : List Val) (m : Nat),
        ((if hasMake = true then do
            let out ← evalElems p fuel fr te elem vs 0
            if vs.isEmpty = true then pure (Val.slice Loc.none [])
              else do
                let l ← freshLoc
                pure (Val.slice l out)
          else
            do
            let out ← evalElemsOld p fuel fr elem vs
              (List.map (fun i => (match old with | Val.slice _ xs => xs | _ => [])[i]?.getD Val.absent) (List.range vs.length)) 0
            if ((out.zip (List.map (fun i => (match old with | Val.slice _ xs => xs | _ => [])[i]?.getD Val.absent) (List.range vs.length))).any fun x =>
                  match x with
                  | (n, o) => o.isAbsent && !n.isAbsent) = true then
                panicE PanicKind.indexOutOfRange
              else
                match old with
                | Val.slice l xs => pure (Val.slice l (List.take xs.length out ++ List.drop vs.length xs))
                | o => pure o) : E Val) m = .err e →
        (hasMake = true ∧ ∃ root, ErrIn p fuel fr m (.elems te elem vs 0) e root) ∨
        (hasMake = false ∧ ∃ root, ErrIn p fuel fr m (.elemsOld elem vs (oldElems old vs.length) 0) e root) := by
      intro vs m h
      cases hasMake with
      | true =>
        simp only [if_true] at h
        rcases (E_bind_err _ _ _ _).1 h with h1 | ⟨out, n1, _, h2⟩
        · exact .inl ⟨rfl, ihe _ _ _ _ _ _ _ h1⟩
        · split at h2
          · exact absurd h2 (pure_not_err _ _ _)
          · rcases (E_bind_err _ _ _ _).1 h2 with h3 | ⟨l, n2, _, h4⟩
            · unfold freshLoc at h3; cases h3
            · exact absurd h4 (pure_not_err _ _ _)
      | false =>
        simp only [Bool.false_eq_true, if_false] at h
        rcases (E_bind_err _ _ _ _).1 h with h1 | ⟨out, n1, _, h2⟩
        · exact .inr ⟨rfl, iho _ _ _ _ _ _ _ h1⟩
        · generalize ((out.zip _).any _) = cnd at h2
          cases cnd with
          | true => simp only [if_true] at h2; unfold panicE at h2; cases h2
          | false =>
            simp only [Bool.false_eq_true, if_false] at h2
            cases old <;> exact absurd h2 (pure_not_err _ _ _)
    have fin : ∀ (vs : List Val), listElems v = some vs →
        ((hasMake = true ∧ ∃ root, ErrIn p fuel fr n (.elems te elem vs 0) e root) ∨
         (hasMake = false ∧ ∃ root, ErrIn p fuel fr n (.elemsOld elem vs (oldElems old vs.length) 0) e root)) →
        ∃ root, ErrIn p (fuel+1) fr n (.conv (.list te hasMake hasGuard elem) v old) e root := by
      intro vs hv h
      rcases h with ⟨rfl, root, hr⟩ | ⟨rfl, root, hr⟩
      · exact ⟨root, .listMake hv hr⟩
      · exact ⟨root, .listNoMake hv hr⟩
    split at hev
    · split at hev
      · exact absurd hev (pure_not_err _ _ _)
      · rcases hrun _ _ hev with ⟨_, root, hr⟩ | ⟨_, root, hr⟩
        · cases hr
        · cases hr
    · exact fin _ rfl (hrun _ _ hev)
    · exact fin _ rfl (hrun _ _ hev)
    · exact absurd hev (stuckE_not_err _ _ _)
  | mapc tk tv key val =>
    unfold evalConv at hev
    simp only [] at hev
    split at hev
    · exact absurd hev (pure_not_err _ _ _)
    · rcases (E_bind_err _ _ _ _).1 hev with h | ⟨x, n1, _, h2⟩
      · obtain ⟨root, hr⟩ := ihn _ _ _ _ _ _ _ _ h; exact ⟨root, .map hr⟩
      · rcases (E_bind_err _ _ _ _).1 h2 with h | ⟨l, n2, _, h4⟩
        · unfold freshLoc at h; cases h
        · exact absurd h4 (pure_not_err _ _ _)
    · exact absurd hev (stuckE_not_err _ _ _)
  | structc fields upd =>
    unfold evalConv at hev
    obtain ⟨root, hr⟩ := ihf _ _ _ _ _ _ hev; exact ⟨root, .struct hr⟩
  | enumc cases dflt =>
    unfold evalConv at hev
    simp only [] at hev
    change applyEnumAction fr old (enumPick cases dflt v) n = .err e at hev
    cases hpick : enumPick cases dflt v with
    | member name cv => rw [hpick] at hev; exact absurd hev (pure_not_err _ _ _)
    | ignore => rw [hpick] at hev; exact absurd hev (pure_not_err _ _ _)
    | panic => rw [hpick] at hev; unfold applyEnumAction panicE at hev; cases hev
    | error w =>
      rw [hpick] at hev
      unfold applyEnumAction at hev
      rw [E_errE _ _ _ hev]
      exact ⟨_, .enum hpick⟩
  | withCtor ctor toPointer rest =>
    unfold evalConv at hev
    simp only [] at hev
    rcases (E_bind_err _ _ _ _).1 hev with h | ⟨cv, n1, h1, h2⟩
    · obtain ⟨root, hr⟩ := ihc _ _ _ _ _ _ h; exact ⟨root, .withCtorC hr⟩
    · cases toPointer with
      | true =>
        simp only [if_true] at h2
        rcases (E_bind_err _ _ _ _).1 h2 with h | ⟨init, n2, hi, h4⟩
        · rcases (E_bind_err _ _ _ _).1 h with h5 | ⟨l, n3, _, h6⟩
          · unfold freshLoc at h5; cases h5
          · exact absurd h6 (pure_not_err _ _ _)
        · obtain ⟨l, n3, hl, hp⟩ := (E_bind_ok _ _ _ _).1 hi
          rw [freshLoc_ok] at hl; cases hl
          have := (E_pure_ok _ _ _).1 hp; cases this
          obtain ⟨root, hr⟩ := ihc _ _ _ _ _ _ h4
          exact ⟨root, .withCtorR (tp := true) h1 hr⟩
      | false =>
        simp only [Bool.false_eq_true, if_false] at h2
        rcases (E_bind_err _ _ _ _).1 h2 with h | ⟨init, n2, hi, h4⟩
        · exact absurd h (pure_not_err _ _ _)
        · have := (E_pure_ok _ _ _).1 hi; cases this
          obtain ⟨root, hr⟩ := ihc _ _ _ _ _ _ h4
          exact ⟨root, .withCtorR (tp := false) h1 hr⟩
  | ctorUpdate ctor toPointer srcIsPtr tgtIsPtr inner =>
    unfold evalConv at hev
    simp only [] at hev
    have hgo : ∀ (init x : Val) (parent : Option Val) (m : Nat),
        ((if tgtIsPtr = true then
            match init with
            | Val.ptr l tv => do
              let nv ← evalConv p fuel { self := fr.self, ctx := fr.ctx, idx := fr.idx, keys := fr.keys, parent := parent } inner x tv
              pure (Val.ptr l nv)
            | Val.nil => panicE PanicKind.nilDeref
            | _ => stuckE "ctorUpdate: pointer expected"
          else evalConv p fuel { self := fr.self, ctx := fr.ctx, idx := fr.idx, keys := fr.keys, parent := parent } inner x init) : E Val) m = .err e →
        ∃ tv root, ctorOld tgtIsPtr init = some tv ∧ ErrIn p fuel { fr with parent := parent } m (.conv inner x tv) e root := by
      intro init x parent m h
      cases tgtIsPtr with
      | true =>
        simp only [if_true] at h
        split at h
        · rcases (E_bind_err _ _ _ _).1 h with h1 | ⟨nv, n2, _, h3⟩
          · obtain ⟨root, hr⟩ := ihc _ _ _ _ _ _ h1
            exact ⟨_, root, rfl, hr⟩
          · exact absurd h3 (pure_not_err _ _ _)
        · unfold panicE at h; cases h
        · exact absurd h (stuckE_not_err _ _ _)
      | false =>
        simp only [Bool.false_eq_true, if_false] at h
        obtain ⟨root, hr⟩ := ihc _ _ _ _ _ _ h
        exact ⟨_, root, rfl, hr⟩
    have htail : ∀ (init : Val) (m : Nat),
        ((if srcIsPtr = true then
            match (generalizing := false) v with
            | Val.nil => pure init
            | Val.ptr l x =>
              if tgtIsPtr = true then
                match init with
                | Val.ptr l tv => do
                  let nv ← evalConv p fuel { self := fr.self, ctx := fr.ctx, idx := fr.idx, keys := fr.keys, parent := some v } inner x tv
                  pure (Val.ptr l nv)
                | Val.nil => panicE PanicKind.nilDeref
                | _ => stuckE "ctorUpdate: pointer expected"
              else evalConv p fuel { self := fr.self, ctx := fr.ctx, idx := fr.idx, keys := fr.keys, parent := some v } inner x init
            | _ => stuckE "ctorUpdate: source pointer expected"
          else
            if tgtIsPtr = true then
              match init with
              | Val.ptr l tv => do
                let nv ← evalConv p fuel { self := fr.self, ctx := fr.ctx, idx := fr.idx, keys := fr.keys, parent := none } inner v tv
                pure (Val.ptr l nv)
              | Val.nil => panicE PanicKind.nilDeref
              | _ => stuckE "ctorUpdate: pointer expected"
            else evalConv p fuel { self := fr.self, ctx := fr.ctx, idx := fr.idx, keys := fr.keys, parent := none } inner v init) : E Val) m = .err e →
        ∃ x parent tv root, CtorSrc srcIsPtr v x parent ∧ ctorOld tgtIsPtr init = some tv ∧
          ErrIn p fuel { fr with parent := parent } m (.conv inner x tv) e root := by
      intro init m h
      cases srcIsPtr with
      | true =>
        simp only [if_true] at h
        split at h
        · exact absurd h (pure_not_err _ _ _)
        · rename_i l x
          obtain ⟨tv, root, ho, hr⟩ := hgo _ _ _ _ h
          exact ⟨x, _, tv, root, .inl ⟨rfl, ⟨l, rfl⟩, rfl⟩, ho, hr⟩
        · exact absurd h (stuckE_not_err _ _ _)
      | false =>
        simp only [Bool.false_eq_true, if_false] at h
        obtain ⟨tv, root, ho, hr⟩ := hgo _ _ _ _ h
        exact ⟨v, none, tv, root, .inr ⟨rfl, rfl, rfl⟩, ho, hr⟩
    rcases (E_bind_err _ _ _ _).1 hev with h | ⟨cv, n1, h1, h2⟩
    · obtain ⟨root, hr⟩ := ihc _ _ _ _ _ _ h; exact ⟨root, .ctorUpdC hr⟩
    · cases toPointer with
      | true =>
        simp only [if_true] at h2
        rcases (E_bind_err _ _ _ _).1 h2 with h | ⟨init, n2, hi, h4⟩
        · rcases (E_bind_err _ _ _ _).1 h with h5 | ⟨l, n3, _, h6⟩
          · unfold freshLoc at h5; cases h5
          · exact absurd h6 (pure_not_err _ _ _)
        · obtain ⟨l, n3, hl, hp⟩ := (E_bind_ok _ _ _ _).1 hi
          rw [freshLoc_ok] at hl; cases hl
          have := (E_pure_ok _ _ _).1 hp; cases this
          obtain ⟨x, parent, tv, root, hs, ho, hr⟩ := htail _ _ h4
          exact ⟨root, .ctorUpdI (tp := true) h1 hs ho hr⟩
      | false =>
        simp only [Bool.false_eq_true, if_false] at h2
        rcases (E_bind_err _ _ _ _).1 h2 with h | ⟨init, n2, hi, h4⟩
        · exact absurd h (pure_not_err _ _ _)
        · have := (E_pure_ok _ _ _).1 hi; cases this
          obtain ⟨x, parent, tv, root, hs, ho, hr⟩ := htail _ _ h4
          exact ⟨root, .ctorUpdI (tp := false) h1 hs ho hr⟩

theorem errIn_complete_all (p : Program) :
    ∀ fuel, CConv p fuel ∧ CCall p fuel ∧ CElems p fuel ∧ CElemsOld p fuel ∧ CEntries p fuel ∧ CFields p fuel := by
  intro fuel
  induction fuel with
  | zero =>
    refine ⟨?_, ?_, ?_, ?_, ?_, ?_⟩
    · intro fr c v old n e hev; unfold evalConv at hev; cases hev
    · intro fr m v cs n e hev; unfold callMethod at hev; cases hev
    · intro fr te elem vs i n e hev; unfold evalElems at hev; cases hev
    · intro fr elem vs olds i n e hev; unfold evalElemsOld at hev; cases hev
    · intro fr tk tv key val kvs n e hev; unfold evalEntries at hev; cases hev
    · intro fr plans src old n e hev; unfold evalFields at hev; cases hev
  | succ fuel ih =>
    obtain ⟨ihc, ihm, ihe, iho, ihn, ihf⟩ := ih
    exact ⟨cConv_step p fuel ihc ihm ihe iho ihn ihf, cCall_step p fuel ihc, cElems_step p fuel ihc ihe,
      cElemsOld_step p fuel ihc iho, cEntries_step p fuel ihc ihn, cFields_step p fuel ihc ihf⟩

/-- **exactly the first failing call**: a method returns the error `e` if and only if its evaluation reaches, after
siblings that evaluate without an error, a failing function / `@error` action whose failure, wrapped on the way up, is `e` -/
theorem callMethod_err_iff (p : Program) (fuel : Nat) (fr : Frame) (m : Nat) (v : Val) (cs : List Val) (n : Nat) (e : ErrV) :
    callMethod p fuel m v cs n = .err e ↔ ∃ root, ErrIn p fuel fr n (.call m v cs) e root :=
  ⟨fun h => (errIn_complete_all p fuel).2.1 fr m v cs n e h, fun ⟨_, h⟩ => (errIn_sound h).1⟩

theorem evalConv_err_iff (p : Program) (fuel : Nat) (fr : Frame) (c : Conv) (v old : Val) (n : Nat) (e : ErrV) :
    evalConv p fuel fr c v old n = .err e ↔ ∃ root, ErrIn p fuel fr n (.conv c v old) e root :=
  ⟨fun h => (errIn_complete_all p fuel).1 fr c v old n e h, fun ⟨_, h⟩ => (errIn_sound h).1⟩

end Gv.Sound
