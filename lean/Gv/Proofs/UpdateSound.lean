/-
Composite theorem of C05 / C10: for every plan of the generalised structural fragment (skipped fields, zero guards, update
structs), every well-typed source value and every admissible previous target value, whatever the plan semantics returns
is the assignment image `Gv.Spec.ImgOnto` of the source onto the previous value — for all values, sizes, depths and fuel.
-/
import Gv.Proofs.TypingU
import Gv.Proofs.Frame
import Gv.Spec.UpdateRel

namespace Gv.Sound
open Gv Gv.Str Gv.Eval Gv.Typing Gv.Spec

/-! ### erasure and field lookup -/

theorem lookup_eraseFields (fs : List (S × Val)) (name : S) :
    (erase.eraseFields fs).lookup name = (fs.lookup name).map erase := by
  induction fs with
  | nil => rfl
  | cons a fs ih =>
    obtain ⟨an, av⟩ := a
    show List.lookup name ((an, erase av) :: erase.eraseFields fs) = _
    simp only [List.lookup]
    cases (name == an) with
    | true => rfl
    | false => exact ih

theorem oldFields_erase (old : Val) : oldFields (erase old) = erase.eraseFields (oldFields old) := by
  cases old <;> rfl

/-! ### assigning one field -/

theorem lookup_map_replace_eq (fs : List (S × Val)) (t : S) (x : Val) (h : fs.any (fun p => p.1 == t) = true) :
    (fs.map (fun (q : S × Val) => if q.1 == t then (q.1, x) else (q.1, q.2))).lookup t = some x := by
  induction fs with
  | nil => simp at h
  | cons a fs ih =>
    obtain ⟨an, av⟩ := a
    by_cases hat : an = t
    · subst hat
      simp
    · have hb : (an == t) = false := by simpa using hat
      have hb' : (t == an) = false := by simpa using (fun hh => hat hh.symm)
      simp only [List.any_cons, hb, Bool.false_or] at h
      simp only [List.map_cons, hb, Bool.false_eq_true, if_false, List.lookup, hb']
      exact ih h

theorem setField_struct (cur : List (S × Val)) (name : S) (x : Val) :
    ∃ cur', setField (.struct cur) name x = .struct cur' ∧ cur'.lookup name = some x ∧
      ∀ n, n ≠ name → cur'.lookup n = cur.lookup n := by
  have hne : ∀ n, n ≠ name → fieldOf (setField (.struct cur) name x) n = fieldOf (.struct cur) n :=
    fun n hn => fieldOf_setField_ne (.struct cur) n name x hn
  by_cases hany : cur.any (fun p => p.1 == name) = true
  · have hfun : (fun (x_1 : S × Val) => match x_1 with | (n, old) => if (n == name) = true then (n, x) else (n, old)) =
        (fun (q : S × Val) => if q.1 == name then (q.1, x) else (q.1, q.2)) := by
      funext q; obtain ⟨a, b⟩ := q; rfl
    have hs : setField (.struct cur) name x =
        .struct (cur.map (fun (q : S × Val) => if q.1 == name then (q.1, x) else (q.1, q.2))) := by
      unfold setField
      show (if (cur.any fun p => p.1 == name) = true then _ else _) = _
      rw [if_pos hany, hfun]
    refine ⟨_, hs, lookup_map_replace_eq cur name x hany, fun n hn => ?_⟩
    have := hne n hn
    rw [hs] at this
    exact this
  · have hs : setField (.struct cur) name x = .struct (cur ++ [(name, x)]) := by
      unfold setField
      show (if (cur.any fun p => p.1 == name) = true then _ else _) = _
      rw [if_neg hany]
    have hnot : name ∉ cur.map (·.1) := by
      intro hmem
      apply hany
      rw [List.any_eq_true]
      obtain ⟨q, hq, hqe⟩ := List.mem_map.1 hmem
      exact ⟨q, hq, by simpa using hqe⟩
    refine ⟨_, hs, ?_, fun n hn => ?_⟩
    · rw [lookup_append_notin cur _ name hnot]
      simp [List.lookup]
    · have := hne n hn
      rw [hs] at this
      exact this

/-! ### the statements, by fuel -/

def StConvU (p : Program) (fuel : Nat) : Prop :=
  ∀ (fr : Frame) (c : Conv) (s t : Ty) (v old : Val) (n : Nat) (v' : Val) (n' : Nat),
    HasTyU p c s t → WT p.conv.env v s → OldOK p.conv.env old t →
    evalConv p fuel fr c v old n = .ok (v', n') → ImgOnto p.conv.env (CtorSig p) s t v (erase old) (erase v')

def StCallU (p : Program) (fuel : Nat) : Prop :=
  ∀ (m : Nat) (s t : Ty) (v : Val) (cs : List Val) (n : Nat) (v' : Val) (n' : Nat),
    sigOf p m = some (s, t) → WT p.conv.env v s →
    callMethod p fuel m v cs n = .ok (v', n') →
    ∀ old, ImgOnto p.conv.env (CtorSig p) s t v old (erase v')

def StElemsU (p : Program) (fuel : Nat) : Prop :=
  ∀ (fr : Frame) (elem : Conv) (se te : Ty) (vs : List Val) (i n : Nat) (out : List Val) (n' : Nat),
    HasTyU p elem se te → (∀ v, v ∈ vs → WT p.conv.env v se) →
    evalElems p fuel fr te elem vs i n = .ok (out, n') → ImgListOnto p.conv.env (CtorSig p) se te vs (erase.eraseList out)

def StEntriesU (p : Program) (fuel : Nat) : Prop :=
  ∀ (fr : Frame) (key val : Conv) (sk sv tk tv : Ty) (kvs : List (Val × Val)) (n : Nat) (out : List (Val × Val)) (n' : Nat),
    HasTyU p key sk tk → HasTyU p val sv tv →
    (∀ a b, (a, b) ∈ kvs → WT p.conv.env a sk) → (∀ a b, (a, b) ∈ kvs → WT p.conv.env b sv) →
    evalEntries p fuel fr tk tv key val kvs n = .ok (out, n') →
    ImgEntriesOnto p.conv.env (CtorSig p) sk sv tk tv kvs (erase.eraseEntries out)

/-- the loop invariant of the field-by-field assignment: `cur` is the target struct as it is now (the fields already
processed assigned, the remaining fields `tfs` still holding what the previous value `orig` held) -/
def StFieldsU (p : Program) (fuel : Nat) : Prop :=
  ∀ (fr : Frame) (plans : FieldPlans) (s : Ty) (tfs : List (FieldInfo × Ty)) (src : Val) (fs cur orig : List (S × Val))
    (n : Nat) (v' : Val) (n' : Nat),
    HasFieldsU p plans s tfs →
    WT p.conv.env (.struct fs) s →
    (src = .struct fs ∨ ((∃ l, src = .ptr l (.struct fs)) ∧ noWholeSource plans = true)) →
    (fieldNames tfs).Nodup →
    (∀ name x f ty, cur.lookup name = some x →
      tfs.find? (fun (y : FieldInfo × Ty) => y.1.name == name) = some (f, ty) → OldOK p.conv.env x ty) →
    (∀ name, name ∈ fieldNames tfs → cur.lookup name = orig.lookup name) →
    evalFields p fuel fr plans src (.struct cur) n = .ok (v', n') →
    ∃ ws, v' = .struct ws ∧ (∀ name, name ∉ fieldNames tfs → ws.lookup name = cur.lookup name) ∧
      ImgFieldsOnto p.conv.env (CtorSig p) (modesOf plans) s (.struct fs) tfs (erase.eraseFields orig) (erase.eraseFields ws)

/-! ### default constructors -/

theorem isPtr_some {env : TEnv} {t e : Ty} (h : isPtr env t = some e) : under env t = .ptr e := by
  unfold isPtr at h
  split at h
  · rename_i e' he; cases h; exact he
  · cases h

theorem isPtr_none {env : TEnv} {t : Ty} (h : isPtr env t = none) : ∀ e, under env t ≠ .ptr e := by
  intro e he
  unfold isPtr at h
  rw [he] at h
  cases h

theorem argOf_state (fr : Frame) (src : Val) (a : CallArg) (n : Nat) (o : Option Val) (n1 : Nat)
    (h : argOf fr src a n = .ok (o, n1)) : n1 = n := by
  cases a with
  | self => have := (E_pure_ok _ _ _).1 h; cases this; rfl
  | source => have := (E_pure_ok _ _ _).1 h; cases this; rfl
  | ctxMissing t => cases h
  | ctx t =>
    unfold argOf at h
    cases hl : lookupCtx fr t with
    | none => simp only [hl] at h; cases h
    | some x => simp only [hl] at h; have := (E_pure_ok _ _ _).1 h; cases this; rfl
  | sourceParent =>
    unfold argOf at h
    cases hl : fr.parent with
    | none => simp only [hl] at h; cases h
    | some x => simp only [hl] at h; have := (E_pure_ok _ _ _).1 h; cases this; rfl

theorem ite_bind_ok {α β} (tp : Bool) (a b : E α) (k : α → E β) (n : Nat) (r : β × Nat)
    (h : (if tp = true then a >>= k else b >>= k) n = .ok r) :
    ∃ x n2, (if tp = true then a else b) n = .ok (x, n2) ∧ k x n2 = .ok r := by
  cases tp with
  | true => simp only [if_true] at h ⊢; exact (E_bind_ok _ _ _ _).1 h
  | false => simp only [Bool.false_eq_true, if_false] at h ⊢; exact (E_bind_ok _ _ _ _).1 h

/-- evaluating the arguments of a call allocates nothing -/
theorem filterMapM_loop_state (fr : Frame) (src : Val) : ∀ (args : List CallArg) (acc : List Val) (n : Nat) (r : List Val) (n1 : Nat),
    List.filterMapM.loop (argOf fr src) args acc n = .ok (r, n1) → n1 = n := by
  intro args
  induction args with
  | nil =>
    intro acc n r n1 h
    unfold List.filterMapM.loop at h
    have := (E_pure_ok _ _ _).1 h
    cases this; rfl
  | cons a as ih =>
    intro acc n r n1 h
    unfold List.filterMapM.loop at h
    obtain ⟨o, n2, h1, h2⟩ := (E_bind_ok _ _ _ _).1 h
    have h12 := argOf_state fr src a n o n2 h1
    subst h12
    cases o with
    | none => exact ih _ _ _ _ h2
    | some b => exact ih _ _ _ _ h2

/-- what the constructor call of `default FUNC` evaluates to: `ctorVal` of its result type (behind a fresh pointer — the
first location the call allocates — when the function returns a pointer) -/
theorem ctor_call_eval (p : Program) (fuel : Nat) (fr : Frame) (i : Nat) (args : List CallArg) (retErr : Bool) (w : Wrap)
    (d : FnDef) (src old : Val) (n : Nat) (cv : Val) (n1 : Nat)
    (hd : p.conv.customs[i]? = some d) (hc : p.sem.isCtor d.name = true)
    (h : evalConv p fuel fr (.call (.custom i) args retErr w) src old n = .ok (cv, n1)) :
    (isPtr p.conv.env d.target = none ∧ cv = ctorVal p.conv.env 64 d.target ∧ n1 = n) ∨
    (∃ e, isPtr p.conv.env d.target = some e ∧ cv = .ptr (.fresh n) (ctorVal p.conv.env 64 e) ∧ n1 = n + 1) := by
  cases fuel with
  | zero => unfold evalConv at h; cases h
  | succ fuel =>
    unfold evalConv at h
    obtain ⟨argVals, n2, h1, h2⟩ := (E_bind_ok _ _ _ _).1 h
    have hn2 : n2 = n := filterMapM_loop_state fr src args [] n argVals n2 h1
    subst hn2
    dsimp only at h2
    rw [hd] at h2
    dsimp only at h2
    split at h2
    · cases h2
    · cases hp : isPtr p.conv.env d.target with
      | none =>
        simp only [hp] at h2
        have := (E_pure_ok _ _ _).1 h2
        cases this
        exact .inl ⟨rfl, rfl, rfl⟩
      | some e =>
        simp only [hp] at h2
        obtain ⟨l, n3, h3, h4⟩ := (E_bind_ok _ _ _ _).1 h2
        cases h3
        have := (E_pure_ok _ _ _).1 h4
        cases this
        exact .inr ⟨e, rfl, rfl, rfl⟩

/-- the value a method with `default FUNC` starts from -/
theorem ctor_init (p : Program) {ctor : Conv} {tp : Bool} {t : Ty} (hc : HasCtor p ctor tp t) (fuel : Nat) (fr : Frame)
    (src old : Val) (n : Nat) (cv : Val) (n1 : Nat) (init : Val) (n2 : Nat)
    (h1 : evalConv p fuel fr ctor src old n = .ok (cv, n1))
    (h2 : (if tp then (do let l ← freshLoc; pure (Val.ptr l cv)) else pure cv : E Val) n1 = .ok (init, n2)) :
    IsCtorOf p.conv.env t (erase init) ∧ OldOK p.conv.env init t ∧
      (∀ te, under p.conv.env t = .ptr te → ∃ tv, init = .ptr (.fresh n) tv ∧ OldOK p.conv.env tv te) := by
  obtain ⟨i, args, retErr, w, d, rfl, hd, hcd, hshape⟩ := hc
  have hev := ctor_call_eval p fuel fr i args retErr w d src old n cv n1 hd hcd h1
  cases tp with
  | true =>
    simp only [if_true] at hshape h2
    obtain ⟨te, hte, hdt, hnp⟩ := hshape
    obtain ⟨l, n3, h3, h4⟩ := (E_bind_ok _ _ _ _).1 h2
    cases h3
    have := (E_pure_ok _ _ _).1 h4
    cases this
    rcases hev with ⟨_, hcv, hn⟩ | ⟨e, he, _, _⟩
    · subst hn; subst hcv; subst hdt
      refine ⟨.inr ⟨_, hte, rfl⟩, .nonStruct (fun fs hh => by rw [hte] at hh; cases hh), ?_⟩
      intro te' hte'
      rw [hte] at hte'
      cases hte'
      exact ⟨_, rfl, oldOK_ctorVal _ 64 _⟩
    · rw [hnp] at he; cases he
  | false =>
    simp only [Bool.false_eq_true, if_false] at hshape h2
    have := (E_pure_ok _ _ _).1 h2
    cases this
    subst hshape
    rcases hev with ⟨hnp, hcv, hn⟩ | ⟨e, he, hcv, hn⟩
    · subst hcv
      refine ⟨.inl ⟨isPtr_none hnp, rfl⟩, oldOK_ctorVal _ 64 _, ?_⟩
      intro te hte
      exact absurd hte (isPtr_none hnp te)
    · subst hcv
      have hte := isPtr_some he
      refine ⟨.inr ⟨e, hte, rfl⟩, .nonStruct (fun fs hh => by rw [hte] at hh; cases hh), ?_⟩
      intro te' hte'
      rw [hte] at hte'
      cases hte'
      exact ⟨_, rfl, oldOK_ctorVal _ 64 _⟩

/-- a nil source pointer leaves what the location holds (builder code, not a call of another method) -/
theorem nil_source_kept (p : Program) (fuel : Nat) (fr : Frame) (rest : Conv) (s t se : Ty) (old : Val) (n : Nat) (v' : Val) (n' : Nat)
    (hty : HasTyU p rest s t) (hs : under p.conv.env s = .ptr se) (hnc : ∀ cl a r w, rest ≠ .call cl a r w)
    (hev : evalConv p fuel fr rest .nil old n = .ok (v', n')) : v' = old := by
  cases fuel with
  | zero => unfold evalConv at hev; cases hev
  | succ fuel =>
    cases hty with
    | identBasic h _ => rw [hs] at h; cases h
    | castBasic h _ => rw [hs] at h; cases h
    | callMethod _ => exact absurd rfl (hnc _ _ _ _)
    | ptrPtr _ _ _ =>
      unfold evalConv at hev
      have := (E_pure_ok _ _ _).1 hev
      cases this; rfl
    | tgtPtr h _ _ => exact absurd hs (h se)
    | srcPtr _ _ _ =>
      unfold evalConv at hev
      have := (E_pure_ok _ _ _).1 hev
      cases this; rfl
    | slice h _ _ => rw [hs] at h; cases h
    | array h _ _ => rw [hs] at h; cases h
    | mapc h _ _ _ => rw [hs] at h; cases h
    | structc h _ _ _ => rw [hs] at h; cases h

/-- plain `default FUNC`: the conversion is assigned ONTO the constructor's value -/
theorem withCtor_step (p : Program) (fuel : Nat) (ihc : StConvU p fuel) (fr : Frame) (ctor : Conv) (tp : Bool) (rest : Conv)
    (s t : Ty) (v old : Val) (n : Nat) (v' : Val) (n' : Nat)
    (hc : HasCtor p ctor tp t) (hnc : ∀ cl a r w, rest ≠ .call cl a r w) (hty : HasTyU p rest s t) (hwt : WT p.conv.env v s)
    (hev : evalConv p (fuel + 1) fr (.withCtor ctor tp rest) v old n = .ok (v', n')) :
    ∃ init, IsCtorOf p.conv.env t (erase init) ∧
      (∀ te, under p.conv.env t = .ptr te → ∃ tv, init = .ptr (.fresh n) tv) ∧
      ImgOnto p.conv.env (CtorSig p) s t v (erase init) (erase v') ∧
      (∀ se, under p.conv.env s = .ptr se → v = .nil → v' = init) := by
  unfold evalConv at hev
  obtain ⟨cv, n1, h1, h2⟩ := (E_bind_ok _ _ _ _).1 hev
  obtain ⟨init, n2, h3, h4⟩ := ite_bind_ok _ _ _ _ _ _ h2
  obtain ⟨hI, hO, hP⟩ := ctor_init p hc fuel fr v .nil n cv n1 init n2 h1 h3
  refine ⟨init, hI, fun te hte => ?_, ihc fr rest s t v init n2 v' n' hty hwt hO h4, fun se hse hv => ?_⟩
  · obtain ⟨tv, htv, _⟩ := hP te hte
    exact ⟨tv, htv⟩
  · subst hv
    exact nil_source_kept p fuel fr rest s t se init n2 v' n' hty hse hnc h4

/-- `default FUNC` with default:update: the source is applied on top of the constructor's object; for a pointer target
the pointer returned is the constructor's (the first location the call allocated) -/
theorem ctorUpdate_step (p : Program) (fuel : Nat) (ihc : StConvU p fuel) (fr : Frame) (ctor : Conv) (tp sp tz : Bool)
    (inner : Conv) (s t : Ty) (v old : Val) (n : Nat) (v' : Val) (n' : Nat)
    (hok : ConvertOKU p (.ctorUpdate ctor tp sp tz inner) s t) (hwt : WT p.conv.env v s)
    (hev : evalConv p (fuel + 1) fr (.ctorUpdate ctor tp sp tz inner) v old n = .ok (v', n')) :
    ∃ init, IsCtorOf p.conv.env t (erase init) ∧
      CtorImg p.conv.env (CtorSig p) true s t v (erase init) (erase v') ∧
      (tz = true → ∃ tv nv, init = .ptr (.fresh n) tv ∧ v' = .ptr (.fresh n) nv) ∧
      (sp = true → v = .nil → v' = init) := by
  unfold evalConv at hev
  obtain ⟨cv, n1, h1, h2⟩ := (E_bind_ok _ _ _ _).1 hev
  obtain ⟨init, n2, h3, h4⟩ := ite_bind_ok _ _ _ _ _ _ h2
  cases hok with
  | plain h => cases h
  | @updPtrPtr _ _ _ _ _ se te hc hs ht hin =>
    obtain ⟨hI, hO, hP⟩ := ctor_init p hc fuel fr v .nil n cv n1 init n2 h1 h3
    obtain ⟨tv, rfl, htv⟩ := hP te ht
    simp only [if_true] at h4
    rcases wt_ptr_inv hwt hs with rfl | ⟨l, x, rfl, hx⟩
    · have := (E_pure_ok _ _ _).1 h4
      cases this
      exact ⟨_, hI, .updNil hs, fun _ => ⟨tv, tv, rfl, rfl⟩, fun _ _ => rfl⟩
    · simp only [] at h4
      obtain ⟨nv, n3, h5, h6⟩ := (E_bind_ok _ _ _ _).1 h4
      have := (E_pure_ok _ _ _).1 h6
      cases this
      have himg := ihc _ inner se te x tv n2 nv _ hin hx htv h5
      exact ⟨_, hI, .updPtrPtr hs ht himg, fun _ => ⟨tv, nv, rfl, rfl⟩, fun _ h => nomatch h⟩
  | @updSrcPtr _ _ _ _ _ se hc hs ht hin =>
    obtain ⟨hI, hO, hP⟩ := ctor_init p hc fuel fr v .nil n cv n1 init n2 h1 h3
    simp only [if_true, Bool.false_eq_true, if_false] at h4
    rcases wt_ptr_inv hwt hs with rfl | ⟨l, x, rfl, hx⟩
    · have := (E_pure_ok _ _ _).1 h4
      cases this
      exact ⟨_, hI, .updNil hs, (fun h => nomatch h), fun _ _ => rfl⟩
    · simp only [] at h4
      have himg := ihc _ inner se t x init n2 v' n' hin hx hO h4
      exact ⟨_, hI, .updSrcPtr hs ht himg, (fun h => nomatch h), fun _ h => nomatch h⟩
  | @updTgtPtr _ _ _ _ _ te hc hs ht hin =>
    obtain ⟨hI, hO, hP⟩ := ctor_init p hc fuel fr v .nil n cv n1 init n2 h1 h3
    obtain ⟨tv, rfl, htv⟩ := hP te ht
    simp only [if_true, Bool.false_eq_true, if_false] at h4
    obtain ⟨nv, n3, h5, h6⟩ := (E_bind_ok _ _ _ _).1 h4
    have := (E_pure_ok _ _ _).1 h6
    cases this
    have himg := ihc _ inner s te v tv n2 nv _ hin hwt htv h5
    exact ⟨_, hI, .updTgtPtr hs ht himg, fun _ => ⟨tv, nv, rfl, rfl⟩, fun h => nomatch h⟩

theorem ctorSig_plain {p : Program} {m : Nat} {gm : GenMethod} {ctor : Conv} {tp : Bool} {rest : Conv}
    (hm : p.methods[m]? = some gm) (hb : gm.body = some (.convert (.withCtor ctor tp rest))) :
    CtorSig p gm.source gm.target false :=
  ⟨m, gm, hm, rfl, rfl, .inl ⟨rfl, ctor, tp, rest, hb⟩⟩

theorem ctorSig_update {p : Program} {m : Nat} {gm : GenMethod} {ctor : Conv} {tp a b : Bool} {inner : Conv}
    (hm : p.methods[m]? = some gm) (hb : gm.body = some (.convert (.ctorUpdate ctor tp a b inner))) :
    CtorSig p gm.source gm.target true :=
  ⟨m, gm, hm, rfl, rfl, .inr ⟨rfl, ctor, tp, a, b, inner, hb⟩⟩

theorem stCallU_step (p : Program) (hp : ProgOKU p) (fuel : Nat) (ih : StConvU p fuel)
    (ihs : ∀ j, j < fuel → StConvU p j) : StCallU p (fuel + 1) := by
  intro m s t v cs n v' n' hsig hwt hev old
  unfold callMethod at hev
  unfold sigOf at hsig
  cases hm : p.methods[m]? with
  | none => simp [hm] at hsig
  | some gm =>
    simp [hm] at hsig
    obtain ⟨hs, ht⟩ := hsig
    have hb := hp m gm hm
    unfold BodyOKU at hb
    simp only [hm] at hev
    cases hbody : gm.body with
    | none => rw [hbody] at hb; exact hb.elim
    | some b =>
      rw [hbody] at hb
      cases b with
      | delegate _ _ _ => exact hb.elim
      | update _ _ => simp [hbody] at hev
      | convert c =>
        simp only [hbody] at hev
        subst hs; subst ht
        cases hb with
        | plain hty =>
          exact .replaced (.inr ⟨64, rfl⟩) (ih _ c _ _ v _ n v' n' hty hwt (oldOK_zeroVal _ 64 _) hev)
        | withCtor hc hnc hty =>
          cases fuel with
          | zero => unfold evalConv at hev; cases hev
          | succ f =>
            obtain ⟨init, hI, _, himg, _⟩ := withCtor_step p f (ihs f (Nat.lt_succ_self f)) _ _ _ _ _ _ v _ n v' n' hc hnc hty hwt hev
            exact .ctorStart (ctorSig_plain hm hbody) hI himg
        | updPtrPtr hc hs' ht' hin =>
          cases fuel with
          | zero => unfold evalConv at hev; cases hev
          | succ f =>
            obtain ⟨init, hI, himg, _, _⟩ := ctorUpdate_step p f (ihs f (Nat.lt_succ_self f)) _ _ _ _ _ _ _ _ v _ n v' n'
              (.updPtrPtr hc hs' ht' hin) hwt hev
            exact himg.onto (ctorSig_update hm hbody) hI old
        | updSrcPtr hc hs' ht' hin =>
          cases fuel with
          | zero => unfold evalConv at hev; cases hev
          | succ f =>
            obtain ⟨init, hI, himg, _, _⟩ := ctorUpdate_step p f (ihs f (Nat.lt_succ_self f)) _ _ _ _ _ _ _ _ v _ n v' n'
              (.updSrcPtr hc hs' ht' hin) hwt hev
            exact himg.onto (ctorSig_update hm hbody) hI old
        | updTgtPtr hc hs' ht' hin =>
          cases fuel with
          | zero => unfold evalConv at hev; cases hev
          | succ f =>
            obtain ⟨init, hI, himg, _, _⟩ := ctorUpdate_step p f (ihs f (Nat.lt_succ_self f)) _ _ _ _ _ _ _ _ v _ n v' n'
              (.updTgtPtr hc hs' ht' hin) hwt hev
            exact himg.onto (ctorSig_update hm hbody) hI old

theorem stElemsU_step (p : Program) (fuel : Nat) (ihc : StConvU p fuel) (ihe : StElemsU p fuel) : StElemsU p (fuel + 1) := by
  intro fr elem se te vs i n out n' hty hwt hev
  cases vs with
  | nil =>
    unfold evalElems at hev
    have := (E_pure_ok _ _ _).1 hev
    cases this
    exact .nil
  | cons v vs =>
    unfold evalElems at hev
    obtain ⟨x, n1, h1, h2⟩ := (E_bind_ok _ _ _ _).1 hev
    obtain ⟨r, n2, h3, h4⟩ := (E_bind_ok _ _ _ _).1 h2
    have := (E_pure_ok _ _ _).1 h4
    cases this
    have hx := ihc _ elem se te v _ n x n1 hty (hwt v (List.mem_cons_self ..)) (oldOK_zeroVal _ 64 _) h1
    have hr := ihe fr elem se te vs (i + 1) n1 r _ hty (fun w hw => hwt w (List.mem_cons_of_mem _ hw)) h3
    exact .cons (.inr ⟨64, rfl⟩) hx hr

theorem stEntriesU_step (p : Program) (fuel : Nat) (ihc : StConvU p fuel) (ihe : StEntriesU p fuel) : StEntriesU p (fuel + 1) := by
  intro fr key val sk sv tk tv kvs n out n' hk hv hwk hwv hev
  cases kvs with
  | nil =>
    unfold evalEntries at hev
    have := (E_pure_ok _ _ _).1 hev
    cases this
    exact .nil
  | cons e kvs =>
    obtain ⟨a, b⟩ := e
    unfold evalEntries at hev
    obtain ⟨k', n1, h1, h2⟩ := (E_bind_ok _ _ _ _).1 hev
    obtain ⟨v', n2, h3, h4⟩ := (E_bind_ok _ _ _ _).1 h2
    obtain ⟨more, n3, h5, h6⟩ := (E_bind_ok _ _ _ _).1 h4
    have := (E_pure_ok _ _ _).1 h6
    cases this
    have hka := ihc _ key sk tk a _ n k' n1 hk (hwk a b (List.mem_cons_self ..)) (oldOK_zeroVal _ 64 _) h1
    have hvb := ihc _ val sv tv b _ n1 v' n2 hv (hwv a b (List.mem_cons_self ..)) (oldOK_zeroVal _ 64 _) h3
    have hr := ihe fr key val sk sv tk tv kvs n2 more _ hk hv
      (fun x y h => hwk x y (List.mem_cons_of_mem _ h)) (fun x y h => hwv x y (List.mem_cons_of_mem _ h)) h5
    exact .cons (.inr ⟨64, rfl⟩) hka (.inr ⟨64, rfl⟩) hvb hr

/-! ### struct fields -/

/-! the walk of a source path, over types and over values -/

theorem derefTy_ptr {env : TEnv} {cur e : Ty} (h : under env cur = .ptr e) : PlanCheck.derefTy env cur = (e, true) := by
  unfold PlanCheck.derefTy; rw [h]

theorem derefTy_nonptr {env : TEnv} {cur : Ty} (h : ∀ e, under env cur ≠ .ptr e) : PlanCheck.derefTy env cur = (cur, false) := by
  unfold PlanCheck.derefTy
  split
  · rename_i e he; exact absurd he (h e)
  · rfl

theorem fieldTyOf_some {env : TEnv} {t : Ty} {nm : S} {ty : Ty} (h : PlanCheck.fieldTyOf env t nm = some ty) :
    ∃ fs f, under env t = .struct fs ∧ fs.toList.find? (fun (y : FieldInfo × Ty) => y.1.name == nm) = some (f, ty) := by
  unfold PlanCheck.fieldTyOf at h
  split at h
  · rename_i fs hfs
    cases hf : fs.toList.find? (fun (x : FieldInfo × Ty) => x.1.name == nm) with
    | none => simp [hf] at h
    | some q =>
      obtain ⟨f, ty'⟩ := q
      simp [hf] at h
      subst h
      exact ⟨fs, f, hfs, hf⟩
  · cases h

theorem ptr_or_not (env : TEnv) (t : Ty) : (∃ e, under env t = .ptr e) ∨ (∀ e, under env t ≠ .ptr e) := by
  by_cases h : ∃ e, under env t = .ptr e
  · exact .inl h
  · exact .inr (fun e he => h ⟨e, he⟩)

/-- one step of `walkTy` -/
theorem walkTy_cons {env : TEnv} {cur : Ty} {nm : S} {rest : List S} {leaf : Ty} {ds : List Bool} {g : Bool}
    (h : PlanCheck.walkTy env cur (nm :: rest) = some (leaf, ds, g)) :
    ∃ ty ds' g', PlanCheck.fieldTyOf env (PlanCheck.derefTy env cur).1 nm = some ty ∧
      PlanCheck.walkTy env ty rest = some (leaf, ds', g') ∧
      ds = (PlanCheck.derefTy env cur).2 :: ds' ∧ g = ((PlanCheck.derefTy env cur).2 || g') := by
  unfold PlanCheck.walkTy at h
  cases hf : PlanCheck.fieldTyOf env (PlanCheck.derefTy env cur).1 nm with
  | none => simp [hf] at h
  | some ty =>
    simp only [hf] at h
    cases hr : PlanCheck.walkTy env ty rest with
    | none => simp [hr] at h
    | some q =>
      obtain ⟨leaf', ds', g'⟩ := q
      simp only [hr] at h
      simp only [Option.some.injEq, Prod.mk.injEq] at h
      obtain ⟨rfl, rfl, rfl⟩ := h
      exact ⟨ty, ds', g', rfl, hr, rfl, rfl⟩

/-- the checker's type walk is the specification's `PathTy` -/
theorem walkTy_pathTy (env : TEnv) : ∀ (path : List S) (cur leaf : Ty) (ds : List Bool) (g : Bool),
    PlanCheck.walkTy env cur path = some (leaf, ds, g) → PathTy env cur path g leaf := by
  intro path
  induction path with
  | nil =>
    intro cur leaf ds g h
    unfold PlanCheck.walkTy at h
    simp only [Option.some.injEq, Prod.mk.injEq] at h
    obtain ⟨rfl, _, rfl⟩ := h
    exact .here
  | cons nm rest ih =>
    intro cur leaf ds g h
    obtain ⟨ty, ds', g', hf, hr, _, hg⟩ := walkTy_cons h
    have hrest := ih ty leaf ds' g' hr
    rcases ptr_or_not env cur with ⟨e, hu⟩ | hnp
    · rw [derefTy_ptr hu] at hf hg
      obtain ⟨fs, f, hfs, hfind⟩ := fieldTyOf_some hf
      have : g = true := by simpa using hg
      subst this
      exact .ptrField hu hfs hfind hrest
    · rw [derefTy_nonptr hnp] at hf hg
      obtain ⟨fs, f, hfs, hfind⟩ := fieldTyOf_some hf
      have : g = g' := by simpa using hg
      subst this
      exact .field hfs hfind hrest

theorem walk_nil_path (ds : List Bool) (v : Val) : walk [] ds v = .ok (some v) := by
  unfold walk; rfl

theorem walk_field {nm : S} {ps : List S} {ds : List Bool} {xs : List (S × Val)} {x : Val} (h : xs.lookup nm = some x) :
    walk (nm :: ps) (false :: ds) (.struct xs) = walk ps ds x := by
  conv => lhs; unfold walk
  simp [fieldOf, h]

theorem walk_field_none {nm : S} {ps : List S} {ds : List Bool} {xs : List (S × Val)} (h : xs.lookup nm = none) :
    walk (nm :: ps) (false :: ds) (.struct xs) = .stuck "walk: no such field" := by
  conv => lhs; unfold walk
  simp [fieldOf, h]

/-- a struct behind the pointer-typed source of an update method is read through -/
theorem walk_field_ptrsrc {nm : S} {ps : List S} {ds : List Bool} {l : Loc} {xs : List (S × Val)} :
    walk (nm :: ps) (false :: ds) (.ptr l (.struct xs)) = walk (nm :: ps) (false :: ds) (.struct xs) := by
  conv => lhs; unfold walk
  conv => rhs; unfold walk
  simp [fieldOf]

theorem walk_deref_nil {nm : S} {ps : List S} {ds : List Bool} : walk (nm :: ps) (true :: ds) .nil = .ok none := by
  conv => lhs; unfold walk
  simp

theorem walk_deref {nm : S} {ps : List S} {ds : List Bool} {l : Loc} {xs : List (S × Val)} {x : Val} (h : xs.lookup nm = some x) :
    walk (nm :: ps) (true :: ds) (.ptr l (.struct xs)) = walk ps ds x := by
  conv => lhs; unfold walk
  simp [fieldOf, h]

theorem walk_deref_none {nm : S} {ps : List S} {ds : List Bool} {l : Loc} {xs : List (S × Val)} (h : xs.lookup nm = none) :
    walk (nm :: ps) (true :: ds) (.ptr l (.struct xs)) = .stuck "walk: no such field" := by
  conv => lhs; unfold walk
  simp [fieldOf, h]

/-- the value walk of a type-checked path from a well-typed value: a nil pointer on the way (`none`), or a well-typed
value of the leaf type — the value the path names (`PathVal`) -/
theorem walk_typed (env : TEnv) : ∀ (path : List S) (cur : Ty) (v : Val) (leaf : Ty) (ds : List Bool) (g : Bool) (r : Option Val),
    WT env v cur → PlanCheck.walkTy env cur path = some (leaf, ds, g) → walk path ds v = .ok r →
    (r = none ∧ g = true ∧ PathVal v path none) ∨ (∃ x, r = some x ∧ WT env x leaf ∧ PathVal v path (some x)) := by
  intro path
  induction path with
  | nil =>
    intro cur v leaf ds g r hwt h hw
    unfold PlanCheck.walkTy at h
    simp only [Option.some.injEq, Prod.mk.injEq] at h
    obtain ⟨rfl, _, _⟩ := h
    rw [walk_nil_path] at hw
    cases hw
    exact .inr ⟨v, rfl, hwt, .here⟩
  | cons nm rest ih =>
    intro cur v leaf ds g r hwt h hw
    obtain ⟨ty, ds', g', hf, hr, hds, hg⟩ := walkTy_cons h
    subst hds
    rcases ptr_or_not env cur with ⟨e, hu⟩ | hnp
    · rw [derefTy_ptr hu] at hf hg hw
      obtain ⟨fs, f, hfs, hfind⟩ := fieldTyOf_some hf
      have hgt : g = true := by simpa using hg
      rcases wt_ptr_inv hwt hu with rfl | ⟨l, x, rfl, hx⟩
      · rw [walk_deref_nil] at hw
        cases hw
        exact .inl ⟨rfl, hgt, .ptrNil⟩
      · obtain ⟨xs, rfl, hxs⟩ := wt_struct_inv hx hfs
        cases hl : xs.lookup nm with
        | none => rw [walk_deref_none hl] at hw; cases hw
        | some y =>
          rw [walk_deref hl] at hw
          rcases ih ty y leaf ds' g' r (hxs nm y f ty hl hfind) hr hw with ⟨h1, _, h3⟩ | ⟨x', h1, h2, h3⟩
          · exact .inl ⟨h1, hgt, .ptrField hl h3⟩
          · exact .inr ⟨x', h1, h2, .ptrField hl h3⟩
    · rw [derefTy_nonptr hnp] at hf hg hw
      obtain ⟨fs, f, hfs, hfind⟩ := fieldTyOf_some hf
      have hgg : g = g' := by simpa using hg
      obtain ⟨xs, rfl, hxs⟩ := wt_struct_inv hwt hfs
      cases hl : xs.lookup nm with
      | none => rw [walk_field_none hl] at hw; cases hw
      | some y =>
        rw [walk_field hl] at hw
        rcases ih ty y leaf ds' g' r (hxs nm y f ty hl hfind) hr hw with ⟨h1, h2, h3⟩ | ⟨x', h1, h2, h3⟩
        · exact .inl ⟨h1, hgg ▸ h2, .field hl h3⟩
        · exact .inr ⟨x', h1, h2, .field hl h3⟩

/-- the value handed to the field conversion and the next free location (the `argv` of `evalFields`) -/
def fieldArg (guarded leafIsPtr : Bool) (leaf? : Option Val) (n : Nat) : Val × Nat :=
  if !guarded then (leaf?.getD .nil, n)
  else match leaf? with
    | none => (.nil, n)
    | some lv => if leafIsPtr then (lv, n) else (.ptr (.fresh n) lv, n + 1)

/-- what `evalFields` does with a mapped field once its source path is walked (the rest of its clause, as a definition) -/
def fieldCont (p : Program) (fuel : Nat) (fr : Frame) (rest : FieldPlans) (src old : Val) (target : S) (pathEmpty : Bool)
    (cv : Conv) (zero : ZeroCheck) (argv : Val × Nat) : Outcome (Val × Nat) :=
  let oldF := if old.isAbsent then Val.absent else (fieldOf old target).getD .nil
  if zero == .check && isZeroVal argv.1 then evalFields p fuel fr rest src old argv.2
  else
    match evalConv p fuel { fr with parent := if pathEmpty then fr.parent else none } cv argv.1 oldF argv.2 with
    | .ok (nv, n') =>
      if old.isAbsent && nv.isAbsent then evalFields p fuel fr rest src old n'
      else evalFields p fuel fr rest src (setField old target nv) n'
    | .err e => .err e
    | .panic k => .panic k
    | .stuck w => .stuck w

/-- `evalFields` on a mapped field = `fieldCont` on `fieldArg` (the model's clause, restated) -/
theorem evalFields_mapped (p : Program) (fuel : Nat) (fr : Frame) (target : S) (path : List S) (derefs : List Bool)
    (guarded leafIsPtr : Bool) (cv : Conv) (zero : ZeroCheck) (rest : FieldPlans) (src old : Val) (n : Nat) (leaf? : Option Val)
    (hw : walk path derefs src = .ok leaf?) :
    evalFields p (fuel + 1) fr (.cons (.mapped target path derefs guarded leafIsPtr cv zero) rest) src old n =
      fieldCont p fuel fr rest src old target path.isEmpty cv zero (fieldArg guarded leafIsPtr leaf? n) := by
  conv => lhs; unfold evalFields
  simp only [hw]
  rfl

theorem evalFields_mapped_fail (p : Program) (fuel : Nat) (fr : Frame) (target : S) (path : List S) (derefs : List Bool)
    (guarded leafIsPtr : Bool) (cv : Conv) (zero : ZeroCheck) (rest : FieldPlans) (src old : Val) (n : Nat) (r : Val × Nat)
    (hw : ∀ leaf?, walk path derefs src ≠ .ok leaf?) :
    evalFields p (fuel + 1) fr (.cons (.mapped target path derefs guarded leafIsPtr cv zero) rest) src old n ≠ .ok r := by
  conv => lhs; unfold evalFields
  cases h : walk path derefs src with
  | ok l => exact absurd h (hw l)
  | err e => simp [h]
  | panic k => simp [h]
  | stuck w => simp [h]

theorem under_ptr (env : TEnv) (t : Ty) : under env (.ptr t) = .ptr t := rfl

/-- the handed value is what the specification says (`FieldSrc`), and it is well-typed -/
theorem fieldArg_spec (env : TEnv) {s : Ty} {fs : List (S × Val)} {path : List S} {leaf : Ty} {ds : List Bool} {g lp : Bool}
    {r : Option Val} (n : Nat) (hwt : WT env (.struct fs) s) (hty : PlanCheck.walkTy env s path = some (leaf, ds, g))
    (hlp : lp = (isPtr env leaf).isSome) (hw : walk path ds (.struct fs) = .ok r) :
    FieldSrc env s (.struct fs) path (PlanCheck.fieldArgTy g lp leaf) (fieldArg g lp r n).1 ∧
      WT env (fieldArg g lp r n).1 (PlanCheck.fieldArgTy g lp leaf) := by
  have hpt := walkTy_pathTy env path s leaf ds g hty
  rcases walk_typed env path s (.struct fs) leaf ds g r hwt hty hw with ⟨rfl, rfl, hpv⟩ | ⟨x, rfl, hx, hpv⟩
  · -- a pointer on the way is nil
    cases hp : isPtr env leaf with
    | some e =>
      have hl : lp = true := by rw [hlp, hp]; rfl
      subst hl
      have hu := isPtr_some hp
      simp only [fieldArg, PlanCheck.fieldArgTy, Bool.not_true, Bool.false_eq_true, if_false, Bool.or_true, if_true]
      exact ⟨.nilOnWayPtr hpt hu hpv, .nilPtr hu⟩
    | none =>
      have hl : lp = false := by rw [hlp, hp]; rfl
      subst hl
      simp only [fieldArg, PlanCheck.fieldArgTy, Bool.not_true, Bool.false_eq_true, if_false, Bool.or_false]
      exact ⟨.nilOnWay hpt (isPtr_none hp) hpv, .nilPtr (under_ptr env leaf)⟩
  · cases g with
    | false =>
      simp only [fieldArg, PlanCheck.fieldArgTy, Bool.not_false, if_true, Bool.true_or, Option.getD_some]
      exact ⟨.direct hpt hpv, hx⟩
    | true =>
      cases hp : isPtr env leaf with
      | some e =>
        have hl : lp = true := by rw [hlp, hp]; rfl
        subst hl
        simp only [fieldArg, PlanCheck.fieldArgTy, Bool.not_true, Bool.false_eq_true, if_false, Bool.or_true, if_true]
        exact ⟨.leafPtr hpt (isPtr_some hp) hpv, hx⟩
      | none =>
        have hl : lp = false := by rw [hlp, hp]; rfl
        subst hl
        simp only [fieldArg, PlanCheck.fieldArgTy, Bool.not_true, Bool.false_eq_true, if_false, Bool.or_false]
        exact ⟨.wrapped hpt (isPtr_none hp) hpv, .ptr (under_ptr env leaf) hx⟩

theorem wt_struct_ty {env : TEnv} {fs : List (S × Val)} {s : Ty} (h : WT env (.struct fs) s) : ∃ sfs, under env s = .struct sfs := by
  cases h with
  | struct h _ => exact ⟨_, h⟩

/-- the first step of a type-checked path from a struct type dereferences nothing -/
theorem walkTy_first {env : TEnv} {s : Ty} {sfs : Fields} {nm : S} {rest : List S} {leaf : Ty} {ds : List Bool} {g : Bool}
    (hs : under env s = .struct sfs) (h : PlanCheck.walkTy env s (nm :: rest) = some (leaf, ds, g)) : ∃ ds', ds = false :: ds' := by
  obtain ⟨ty, ds', g', _, _, hds, _⟩ := walkTy_cons h
  rw [derefTy_nonptr (fun e he => by rw [hs] at he; cases he)] at hds
  exact ⟨ds', hds⟩

theorem find_tail {tf : FieldInfo} {tty : Ty} {tfs' : List (FieldInfo × Ty)} {name : S} {f : FieldInfo} {ty : Ty}
    (hnot : tf.name ∉ fieldNames tfs')
    (h : tfs'.find? (fun (y : FieldInfo × Ty) => y.1.name == name) = some (f, ty)) :
    name ∈ fieldNames tfs' ∧ name ≠ tf.name ∧
      ((tf, tty) :: tfs').find? (fun (y : FieldInfo × Ty) => y.1.name == name) = some (f, ty) := by
  have hpred := List.find?_some h
  have hmem := List.mem_of_find?_eq_some h
  have hname : f.name = name := by simpa using hpred
  have hin : name ∈ fieldNames tfs' := by
    rw [← hname]
    exact List.mem_map.2 ⟨(f, ty), hmem, rfl⟩
  have hne : name ≠ tf.name := fun hh => hnot (hh ▸ hin)
  refine ⟨hin, hne, ?_⟩
  have hb : (tf.name == name) = false := by simpa using (fun hh => hne hh.symm)
  simp only [List.find?, hb]
  exact h

/-- the rest of the fields, after the head field was left alone -/
theorem fields_kept (p : Program) (fuel : Nat) (ihf : StFieldsU p fuel) {fr : Frame} {rest : FieldPlans}
    {s : Ty} {tfs' : List (FieldInfo × Ty)} {tf : FieldInfo} {tty : Ty} {src : Val} {fs cur orig : List (S × Val)}
    {n : Nat} {v' : Val} {n' : Nat}
    (hrest : HasFieldsU p rest s tfs')
    (hwt : WT p.conv.env (.struct fs) s)
    (hsrc : src = .struct fs ∨ ((∃ l, src = .ptr l (.struct fs)) ∧ noWholeSource rest = true))
    (hnd : (fieldNames ((tf, tty) :: tfs')).Nodup)
    (hold : ∀ name x f ty, cur.lookup name = some x →
      ((tf, tty) :: tfs').find? (fun (y : FieldInfo × Ty) => y.1.name == name) = some (f, ty) → OldOK p.conv.env x ty)
    (hag : ∀ name, name ∈ fieldNames ((tf, tty) :: tfs') → cur.lookup name = orig.lookup name)
    (hev : evalFields p fuel fr rest src (.struct cur) n = .ok (v', n')) :
    ∃ ws, v' = .struct ws ∧ (∀ name, name ∉ fieldNames ((tf, tty) :: tfs') → ws.lookup name = cur.lookup name) ∧
      (erase.eraseFields ws).lookup tf.name = (erase.eraseFields orig).lookup tf.name ∧
      ImgFieldsOnto p.conv.env (CtorSig p) (modesOf rest) s (.struct fs) tfs' (erase.eraseFields orig) (erase.eraseFields ws) := by
  have hnd' : tf.name ∉ fieldNames tfs' ∧ (fieldNames tfs').Nodup := by simpa [fieldNames] using hnd
  obtain ⟨ws, hv', hframe, himg⟩ := ihf fr rest s tfs' src fs cur orig n v' n' hrest hwt hsrc hnd'.2
    (fun name x f ty hl hf => hold name x f ty hl (find_tail hnd'.1 hf).2.2)
    (fun name hn => hag name (by simp [fieldNames] at hn ⊢; exact .inr hn)) hev
  refine ⟨ws, hv', fun name hn => hframe name (fun hh => hn (by simp [fieldNames] at hh ⊢; exact .inr hh)), ?_, himg⟩
  rw [lookup_eraseFields, lookup_eraseFields, hframe tf.name hnd'.1, hag tf.name (by simp [fieldNames])]

/-- the rest of the fields, after the head field was assigned `nv` -/
theorem fields_assigned (p : Program) (fuel : Nat) (ihf : StFieldsU p fuel) {fr : Frame} {rest : FieldPlans}
    {s : Ty} {tfs' : List (FieldInfo × Ty)} {tf : FieldInfo} {tty : Ty} {src : Val} {fs cur orig : List (S × Val)}
    {n : Nat} {v' nv : Val} {n' : Nat}
    (hrest : HasFieldsU p rest s tfs')
    (hwt : WT p.conv.env (.struct fs) s)
    (hsrc : src = .struct fs ∨ ((∃ l, src = .ptr l (.struct fs)) ∧ noWholeSource rest = true))
    (hnd : (fieldNames ((tf, tty) :: tfs')).Nodup)
    (hold : ∀ name x f ty, cur.lookup name = some x →
      ((tf, tty) :: tfs').find? (fun (y : FieldInfo × Ty) => y.1.name == name) = some (f, ty) → OldOK p.conv.env x ty)
    (hag : ∀ name, name ∈ fieldNames ((tf, tty) :: tfs') → cur.lookup name = orig.lookup name)
    (hev : evalFields p fuel fr rest src (setField (.struct cur) tf.name nv) n = .ok (v', n')) :
    ∃ ws, v' = .struct ws ∧ (∀ name, name ∉ fieldNames ((tf, tty) :: tfs') → ws.lookup name = cur.lookup name) ∧
      (erase.eraseFields ws).lookup tf.name = some (erase nv) ∧
      ImgFieldsOnto p.conv.env (CtorSig p) (modesOf rest) s (.struct fs) tfs' (erase.eraseFields orig) (erase.eraseFields ws) := by
  have hnd' : tf.name ∉ fieldNames tfs' ∧ (fieldNames tfs').Nodup := by simpa [fieldNames] using hnd
  obtain ⟨cur', hset, hself, hother⟩ := setField_struct cur tf.name nv
  rw [hset] at hev
  obtain ⟨ws, hv', hframe, himg⟩ := ihf fr rest s tfs' src fs cur' orig n v' n' hrest hwt hsrc hnd'.2
    (fun name x f ty hl hf => by
      obtain ⟨_, hne, hf'⟩ := find_tail (tty := tty) hnd'.1 hf
      rw [hother name hne] at hl
      exact hold name x f ty hl hf')
    (fun name hn => by
      have hne : name ≠ tf.name := fun hh => hnd'.1 (hh ▸ hn)
      rw [hother name hne]
      exact hag name (by simp [fieldNames] at hn ⊢; exact .inr hn)) hev
  refine ⟨ws, hv', fun name hn => ?_, ?_, himg⟩
  · have hn' : name ∉ fieldNames tfs' := fun hh => hn (by simp [fieldNames] at hh ⊢; exact .inr hh)
    have hne : name ≠ tf.name := fun hh => hn (by simp [fieldNames, hh])
    rw [hframe name hn', hother name hne]
  · rw [lookup_eraseFields, hframe tf.name hnd'.1, hself]
    rfl

/-- what `fieldCont` does with the handed value `a`, given that the field conversion is sound on `a` -/
theorem fieldCont_sound (p : Program) (fuel : Nat) (ihf : StFieldsU p fuel) {fr : Frame} {rest : FieldPlans}
    {s : Ty} {tfs' : List (FieldInfo × Ty)} {tf : FieldInfo} {tty sty : Ty} {src : Val} {fs cur orig : List (S × Val)}
    {a : Val} {n2 : Nat} {v' : Val} {n' : Nat} {pe : Bool} {cv : Conv} {z : ZeroCheck}
    (hrest : HasFieldsU p rest s tfs')
    (hwt : WT p.conv.env (.struct fs) s)
    (hsrc : src = .struct fs ∨ ((∃ l, src = .ptr l (.struct fs)) ∧ noWholeSource rest = true))
    (hnd : (fieldNames ((tf, tty) :: tfs')).Nodup)
    (hold : ∀ name x f ty, cur.lookup name = some x →
      ((tf, tty) :: tfs').find? (fun (y : FieldInfo × Ty) => y.1.name == name) = some (f, ty) → OldOK p.conv.env x ty)
    (hag : ∀ name, name ∈ fieldNames ((tf, tty) :: tfs') → cur.lookup name = orig.lookup name)
    (hconv : ∀ (fr' : Frame) (nv : Val) (n1 : Nat),
      evalConv p fuel fr' cv a ((cur.lookup tf.name).getD .nil) n2 = .ok (nv, n1) →
      ImgOnto p.conv.env (CtorSig p) sty tty a (erase ((cur.lookup tf.name).getD .nil)) (erase nv))
    (hev : fieldCont p fuel fr rest src (.struct cur) tf.name pe cv z (a, n2) = .ok (v', n')) :
    ∃ ws, v' = .struct ws ∧ (∀ name, name ∉ fieldNames ((tf, tty) :: tfs') → ws.lookup name = cur.lookup name) ∧
      ImgFieldsOnto p.conv.env (CtorSig p) (modesOf rest) s (.struct fs) tfs' (erase.eraseFields orig) (erase.eraseFields ws) ∧
      ((z = .check ∧ isZeroVal a = true ∧
          (erase.eraseFields ws).lookup tf.name = (erase.eraseFields orig).lookup tf.name) ∨
       ((z = .none ∨ isZeroVal a = false) ∧ ∃ y, (erase.eraseFields ws).lookup tf.name = some y ∧
          ImgOnto p.conv.env (CtorSig p) sty tty a (((erase.eraseFields orig).lookup tf.name).getD .nil) y)) := by
  unfold fieldCont at hev
  have habs : (Val.struct cur).isAbsent = false := rfl
  have hlook : fieldOf (.struct cur) tf.name = cur.lookup tf.name := rfl
  simp only [habs, hlook, Bool.false_and, if_false, Bool.false_eq_true] at hev
  have horig : (erase.eraseFields orig).lookup tf.name = (cur.lookup tf.name).map erase := by
    rw [lookup_eraseFields, hag tf.name (by simp [fieldNames])]
  have holdE : ((erase.eraseFields orig).lookup tf.name).getD .nil = erase ((cur.lookup tf.name).getD .nil) := by
    rw [horig]
    cases cur.lookup tf.name <;> rfl
  have assigned : ∀ (fr' : Frame) (nv : Val) (n1 : Nat),
      evalConv p fuel fr' cv a ((cur.lookup tf.name).getD .nil) n2 = .ok (nv, n1) →
      evalFields p fuel fr rest src (setField (.struct cur) tf.name nv) n1 = .ok (v', n') →
      ∃ ws, v' = .struct ws ∧ (∀ name, name ∉ fieldNames ((tf, tty) :: tfs') → ws.lookup name = cur.lookup name) ∧
        ImgFieldsOnto p.conv.env (CtorSig p) (modesOf rest) s (.struct fs) tfs' (erase.eraseFields orig) (erase.eraseFields ws) ∧
        ∃ y, (erase.eraseFields ws).lookup tf.name = some y ∧
          ImgOnto p.conv.env (CtorSig p) sty tty a (((erase.eraseFields orig).lookup tf.name).getD .nil) y := by
    intro fr' nv n1 hc hev'
    have himg := hconv fr' nv n1 hc
    obtain ⟨ws, hv', hframe, hself, hrestImg⟩ := fields_assigned p fuel ihf hrest hwt hsrc hnd hold hag hev'
    exact ⟨ws, hv', hframe, hrestImg, erase nv, hself, by rw [holdE]; exact himg⟩
  cases z with
  | none =>
    have hz : (ZeroCheck.none == ZeroCheck.check) = false := by decide
    simp only [hz, Bool.false_and, if_false, Bool.false_eq_true] at hev
    split at hev
    · rename_i nv n1 hc
      obtain ⟨ws, hv', hframe, hrestImg, hy⟩ := assigned _ nv n1 hc hev
      exact ⟨ws, hv', hframe, hrestImg, .inr ⟨.inl rfl, hy⟩⟩
    · cases hev
    · cases hev
    · cases hev
  | check =>
    have hz : (ZeroCheck.check == ZeroCheck.check) = true := by decide
    simp only [hz, Bool.true_and] at hev
    cases hzv : isZeroVal a with
    | true =>
      simp only [hzv, if_true] at hev
      obtain ⟨ws, hv', hframe, hkeep, himg⟩ := fields_kept p fuel ihf hrest hwt hsrc hnd hold hag hev
      exact ⟨ws, hv', hframe, himg, .inl ⟨rfl, rfl, hkeep⟩⟩
    | false =>
      simp only [hzv, Bool.false_eq_true, if_false] at hev
      split at hev
      · rename_i nv n1 hc
        obtain ⟨ws, hv', hframe, hrestImg, hy⟩ := assigned _ nv n1 hc hev
        exact ⟨ws, hv', hframe, hrestImg, .inr ⟨.inr rfl, hy⟩⟩
      · cases hev
      · cases hev
      · cases hev

/-! #### a source method as the source of a field -/

/-- the receiver of the method call: the value the path reached, read through a last (nil-guarded) pointer -/
def recvStep (lastDeref : Bool) : Option Val → Outcome (Option Val)
  | none => .ok none
  | some rv =>
    if lastDeref then
      match rv with
      | .nil => .ok none
      | .ptr _ x => .ok (some x)
      | _ => .stuck "viaMethod: pointer receiver expected"
    else .ok (some rv)

/-- the value handed to the field conversion after the method call -/
def methodArg (guarded resIsPtr : Bool) (r : Val) (n1 : Nat) : Val × Nat :=
  if guarded && !resIsPtr then (.ptr (.fresh n1) r, n1 + 1) else (r, n1)

/-- the `viaMethod` clause of `evalFields` after the walk of the receiver path (the model's clause, as a definition) -/
def viaCont (p : Program) (fuel : Nat) (fr : Frame) (rest : FieldPlans) (src old : Val) (target : S)
    (lastDeref guarded : Bool) (call : Conv) (resIsPtr : Bool) (cv : Conv) (zero : ZeroCheck) (recv0? : Option Val) (n : Nat) :
    Outcome (Val × Nat) :=
  match recvStep lastDeref recv0? with
  | .stuck w => .stuck w
  | .err e => .err e
  | .panic k => .panic k
  | .ok none =>
    let oldF := if old.isAbsent then Val.absent else (fieldOf old target).getD .nil
    if zero == .check then evalFields p fuel fr rest src old n
    else
      match evalConv p fuel { fr with parent := none } cv .nil oldF n with
      | .ok (nv, n') =>
        if old.isAbsent && nv.isAbsent then evalFields p fuel fr rest src old n'
        else evalFields p fuel fr rest src (setField old target nv) n'
      | .err e => .err e
      | .panic k => .panic k
      | .stuck w => .stuck w
  | .ok (some recv) =>
    match evalConv p fuel { fr with parent := none } call recv .nil n with
    | .err e => .err e
    | .panic k => .panic k
    | .stuck w => .stuck w
    | .ok (r, n1) => fieldCont p fuel fr rest src old target false cv zero (methodArg guarded resIsPtr r n1)

theorem evalFields_viaMethod (p : Program) (fuel : Nat) (fr : Frame) (target : S) (path : List S) (derefs : List Bool)
    (guarded : Bool) (call : Conv) (resIsPtr : Bool) (cv : Conv) (zero : ZeroCheck) (rest : FieldPlans) (src old : Val) (n : Nat)
    (recv0? : Option Val) (hw : walk path (derefs.take path.length) src = .ok recv0?) :
    evalFields p (fuel + 1) fr (.cons (.viaMethod target path derefs guarded call resIsPtr cv zero) rest) src old n =
      viaCont p fuel fr rest src old target (derefs.getLast?.getD false) guarded call resIsPtr cv zero recv0? n := by
  conv => lhs; unfold evalFields
  simp only [hw]
  rfl

theorem evalFields_viaMethod_fail (p : Program) (fuel : Nat) (fr : Frame) (target : S) (path : List S) (derefs : List Bool)
    (guarded : Bool) (call : Conv) (resIsPtr : Bool) (cv : Conv) (zero : ZeroCheck) (rest : FieldPlans) (src old : Val) (n : Nat)
    (r : Val × Nat) (hw : ∀ l, walk path (derefs.take path.length) src ≠ .ok l) :
    evalFields p (fuel + 1) fr (.cons (.viaMethod target path derefs guarded call resIsPtr cv zero) rest) src old n ≠ .ok r := by
  conv => lhs; unfold evalFields
  cases h : walk path (derefs.take path.length) src with
  | ok l => exact absurd h (hw l)
  | err e => simp [h]
  | panic k => simp [h]
  | stuck w => simp [h]

/-- the nil-receiver branch is `fieldCont` on `nil` -/
theorem viaCont_none_eq (p : Program) (fuel : Nat) (fr : Frame) (rest : FieldPlans) (src old : Val) (target : S) (cv : Conv)
    (zero : ZeroCheck) (n : Nat) :
    (let oldF := if old.isAbsent then Val.absent else (fieldOf old target).getD .nil
     if zero == .check then evalFields p fuel fr rest src old n
     else
       match evalConv p fuel { fr with parent := none } cv .nil oldF n with
       | .ok (nv, n') =>
         if old.isAbsent && nv.isAbsent then evalFields p fuel fr rest src old n'
         else evalFields p fuel fr rest src (setField old target nv) n'
       | .err e => .err e
       | .panic k => .panic k
       | .stuck w => .stuck w) = fieldCont p fuel fr rest src old target false cv zero (.nil, n) := by
  unfold fieldCont
  cases zero with
  | none => simp
  | check => simp [isZeroVal]

theorem walkTy_length (env : TEnv) : ∀ (path : List S) (cur leaf : Ty) (ds : List Bool) (g : Bool),
    PlanCheck.walkTy env cur path = some (leaf, ds, g) → ds.length = path.length := by
  intro path
  induction path with
  | nil =>
    intro cur leaf ds g h
    unfold PlanCheck.walkTy at h
    simp only [Option.some.injEq, Prod.mk.injEq] at h
    obtain ⟨_, rfl, _⟩ := h
    rfl
  | cons nm rest ih =>
    intro cur leaf ds g h
    obtain ⟨ty, ds', g', _, hr, hds, _⟩ := walkTy_cons h
    subst hds
    simp [ih ty leaf ds' g' hr]

/-- the receiver is what the specification says (`Recv`) -/
theorem recv_spec (env : TEnv) {s : Ty} {fs : List (S × Val)} {path : List S} {t0 : Ty} {ds : List Bool} {g : Bool}
    {r : Option Val} (hwt : WT env (.struct fs) s) (hty : PlanCheck.walkTy env s path = some (t0, ds, g))
    (hw : walk path ds (.struct fs) = .ok r) :
    (recvStep (PlanCheck.derefTy env t0).2 r = .ok none ∧ (g || (PlanCheck.derefTy env t0).2) = true ∧
        Recv env s (.struct fs) path true (PlanCheck.derefTy env t0).1 none) ∨
    (∃ recv, recvStep (PlanCheck.derefTy env t0).2 r = .ok (some recv) ∧
        Recv env s (.struct fs) path (g || (PlanCheck.derefTy env t0).2) (PlanCheck.derefTy env t0).1 (some recv)) := by
  have hpt := walkTy_pathTy env path s t0 ds g hty
  rcases walk_typed env path s (.struct fs) t0 ds g r hwt hty hw with ⟨rfl, rfl, hpv⟩ | ⟨x, rfl, hx, hpv⟩
  · rcases ptr_or_not env t0 with ⟨e, hu⟩ | hnp
    · rw [derefTy_ptr hu]
      exact .inl ⟨rfl, rfl, .nilOnWay hpt hu hpv⟩
    · rw [derefTy_nonptr hnp]
      exact .inl ⟨rfl, rfl, .val hpt hnp hpv⟩
  · rcases ptr_or_not env t0 with ⟨e, hu⟩ | hnp
    · rw [derefTy_ptr hu]
      rcases wt_ptr_inv hx hu with rfl | ⟨l, y, rfl, _⟩
      · exact .inl ⟨rfl, by simp, .nilRecv hpt hu hpv⟩
      · refine .inr ⟨y, rfl, ?_⟩
        have : (g || true) = true := by simp
        rw [this]
        exact .deref hpt hu hpv
    · rw [derefTy_nonptr hnp]
      refine .inr ⟨x, ?_, ?_⟩
      · unfold recvStep; simp
      · have : (g || false) = g := by simp
        rw [this]
        exact .val hpt hnp hpv

theorem hasMethod_of_check {env : TEnv} {T : Ty} {n : S} {rty : Ty} (hf : PlanCheck.fieldTyOf env T n = none)
    (hm : PlanCheck.methodResTy env T n = some rty) : HasMethod env T n rty := by
  refine ⟨?_, ?_⟩
  · intro fs f ty hu hfind
    unfold PlanCheck.fieldTyOf at hf
    rw [hu] at hf
    simp [hfind] at hf
  · unfold PlanCheck.methodResTy at hm
    split at hm
    · rename_i id
      cases hd : env.find id with
      | none => simp [hd] at hm
      | some d =>
        simp only [hd] at hm
        cases hmd : d.methods.find? (fun (m : MethodDecl) => m.name == n) with
        | none => simp [hmd] at hm
        | some md =>
          simp only [hmd] at hm
          split at hm
          · rename_i r hres
            cases hm
            exact ⟨id, d, md, rfl, hd, hmd, hres⟩
          · cases hm
    · cases hm

/-- the call of a source method without error result: the uninterpreted application to the receiver and context values;
nothing is allocated -/
theorem structMethod_call_eval (p : Program) (fuel : Nat) (fr : Frame) (nm : S) (args : List CallArg) (w : Wrap)
    (recv old : Val) (n : Nat) (r : Val) (n1 : Nat)
    (h : evalConv p fuel fr (.call (.structMethod nm) args false w) recv old n = .ok (r, n1)) :
    ∃ ctx, r = .tok nm (recv :: ctx) ∧ n1 = n := by
  cases fuel with
  | zero => unfold evalConv at h; cases h
  | succ fuel =>
    unfold evalConv at h
    obtain ⟨argVals, n2, h1, h2⟩ := (E_bind_ok _ _ _ _).1 h
    have hn2 : n2 = n := filterMapM_loop_state fr recv args [] n argVals n2 h1
    subst hn2
    dsimp only at h2
    simp only [Bool.false_and, Bool.false_eq_true, if_false] at h2
    have := (E_pure_ok _ _ _).1 h2
    cases this
    exact ⟨argVals, rfl, rfl⟩

/-- the values a field conversion receives from a source method: the uninterpreted result, nil, or a pointer to the result -/
inductive OpaqueArg (env : TEnv) : Val → Ty → Prop
  | tok {fn args t} : OpaqueArg env (.tok fn args) t
  | nil {t e} : under env t = .ptr e → OpaqueArg env .nil t
  | ptrTok {l fn args t e} : under env t = .ptr e → OpaqueArg env (.ptr l (.tok fn args)) t

theorem idConv_tok (p : Program) (fuel : Nat) (fr : Frame) (c : Conv) (s t : Ty) (fn : S) (args : List Val) (old : Val) (n : Nat)
    (nv : Val) (n1 : Nat) (hid : PlanCheck.isIdConv c = true) (hty : HasTyU p c s t)
    (hev : evalConv p fuel fr c (.tok fn args) old n = .ok (nv, n1)) :
    nv = .tok fn args ∧ ImgOnto p.conv.env (CtorSig p) s t (.tok fn args) (erase old) (erase (.tok fn args)) := by
  cases hty with
  | identBasic hs ht =>
    cases fuel with
    | zero => unfold evalConv at hev; cases hev
    | succ fuel =>
      unfold evalConv at hev
      have := (E_pure_ok _ _ _).1 hev
      cases this
      exact ⟨rfl, .tokBasic hs ht⟩
  | castBasic hs ht =>
    cases fuel with
    | zero => unfold evalConv at hev; cases hev
    | succ fuel =>
      unfold evalConv at hev
      cases fuel with
      | zero => unfold evalConv at hev; cases hev
      | succ fuel =>
        unfold evalConv at hev
        have := (E_pure_ok _ _ _).1 hev
        cases this
        exact ⟨rfl, .tokBasic hs ht⟩
  | callMethod _ => simp [PlanCheck.isIdConv] at hid
  | ptrPtr _ _ _ => simp [PlanCheck.isIdConv] at hid
  | tgtPtr _ _ _ => simp [PlanCheck.isIdConv] at hid
  | srcPtr _ _ _ => simp [PlanCheck.isIdConv] at hid
  | slice _ _ _ => simp [PlanCheck.isIdConv] at hid
  | array _ _ _ => simp [PlanCheck.isIdConv] at hid
  | mapc _ _ _ _ => simp [PlanCheck.isIdConv] at hid
  | structc _ _ _ _ => simp [PlanCheck.isIdConv] at hid

/-- the conversions accepted after a source method are sound on what the method hands over -/
theorem opaque_conv_sound (p : Program) (fuel : Nat) (fr : Frame) (cv : Conv) (sty tty : Ty) (a old : Val) (n : Nat)
    (nv : Val) (n1 : Nat) (hsh : PlanCheck.opaqueShape cv = true) (hty : HasTyU p cv sty tty) (ha : OpaqueArg p.conv.env a sty)
    (hev : evalConv p fuel fr cv a old n = .ok (nv, n1)) :
    ImgOnto p.conv.env (CtorSig p) sty tty a (erase old) (erase nv) := by
  cases hty with
  | identBasic hs ht =>
    cases ha with
    | tok =>
      obtain ⟨rfl, h⟩ := idConv_tok p fuel fr .ident sty tty _ _ old n nv n1 rfl (.identBasic hs ht) hev
      exact h
    | nil h => rw [hs] at h; cases h
    | ptrTok h => rw [hs] at h; cases h
  | castBasic hs ht =>
    cases ha with
    | tok =>
      obtain ⟨rfl, h⟩ := idConv_tok p fuel fr (.cast .ident) sty tty _ _ old n nv n1 rfl (.castBasic hs ht) hev
      exact h
    | nil h => rw [hs] at h; cases h
    | ptrTok h => rw [hs] at h; cases h
  | callMethod _ => simp [PlanCheck.opaqueShape] at hsh
  | @ptrPtr _ _ se te inner hs ht hin =>
    have hid : PlanCheck.isIdConv inner = true := by simpa [PlanCheck.opaqueShape] using hsh
    cases fuel with
    | zero => unfold evalConv at hev; cases hev
    | succ fuel =>
      unfold evalConv at hev
      cases ha with
      | tok => cases hev
      | nil _ =>
        have := (E_pure_ok _ _ _).1 hev
        cases this
        exact .ptrNil hs ht
      | ptrTok _ =>
        obtain ⟨v0, n2, h1, h2⟩ := (E_bind_ok _ _ _ _).1 hev
        obtain ⟨l0, n3, h3, h4⟩ := (E_bind_ok _ _ _ _).1 h2
        have := (E_pure_ok _ _ _).1 h4
        cases this
        obtain ⟨rfl, h⟩ := idConv_tok p fuel _ inner se te _ _ _ n v0 n2 hid hin h1
        show ImgOnto p.conv.env (CtorSig p) sty tty (.ptr _ (.tok _ _)) (erase old) (.ptr .none (erase (.tok _ _)))
        exact .ptrPtr hs ht (.inr ⟨64, rfl⟩) h
  | @tgtPtr _ _ te inner hs ht hin =>
    have hid : PlanCheck.isIdConv inner = true := by simpa [PlanCheck.opaqueShape] using hsh
    cases fuel with
    | zero => unfold evalConv at hev; cases hev
    | succ fuel =>
      unfold evalConv at hev
      obtain ⟨v0, n2, h1, h2⟩ := (E_bind_ok _ _ _ _).1 hev
      obtain ⟨l0, n3, h3, h4⟩ := (E_bind_ok _ _ _ _).1 h2
      have := (E_pure_ok _ _ _).1 h4
      cases this
      cases ha with
      | tok =>
        obtain ⟨rfl, h⟩ := idConv_tok p fuel _ inner sty te _ _ _ n v0 n2 hid hin h1
        show ImgOnto p.conv.env (CtorSig p) sty tty (.tok _ _) (erase old) (.ptr .none (erase (.tok _ _)))
        exact .toPtr hs ht (.inr ⟨64, rfl⟩) h
      | nil h => exact absurd h (hs _)
      | ptrTok h => exact absurd h (hs _)
  | @srcPtr _ _ se inner hs ht hin =>
    have hid : PlanCheck.isIdConv inner = true := by simpa [PlanCheck.opaqueShape] using hsh
    cases fuel with
    | zero => unfold evalConv at hev; cases hev
    | succ fuel =>
      unfold evalConv at hev
      cases ha with
      | tok => cases hev
      | nil _ =>
        have := (E_pure_ok _ _ _).1 hev
        cases this
        exact .srcNil hs ht
      | ptrTok _ =>
        obtain ⟨rfl, h⟩ := idConv_tok p fuel _ inner se tty _ _ _ n nv n1 hid hin hev
        exact .srcPtr hs ht (.inr ⟨64, rfl⟩) h
  | slice _ _ _ => simp [PlanCheck.opaqueShape] at hsh
  | array _ _ _ => simp [PlanCheck.opaqueShape] at hsh
  | mapc _ _ _ _ => simp [PlanCheck.opaqueShape] at hsh
  | structc _ _ _ _ => simp [PlanCheck.opaqueShape] at hsh

/-- the handed value is what the specification says (`MethodSrc`) -/
theorem methodArg_spec (env : TEnv) {s : Ty} {v : Val} {path : List S} {c : Bool} {T rty : Ty} {nm : S} {recv : Val}
    {ctx : List Val} {rp : Bool} (n1 : Nat) (hr : Recv env s v path c T (some recv)) (hm : HasMethod env T nm rty)
    (hrp : rp = (isPtr env rty).isSome) :
    MethodSrc env s v path nm (PlanCheck.fieldArgTy c rp rty) (methodArg c rp (.tok nm (recv :: ctx)) n1).1 ∧
      OpaqueArg env (methodArg c rp (.tok nm (recv :: ctx)) n1).1 (PlanCheck.fieldArgTy c rp rty) := by
  cases c with
  | false =>
    simp only [methodArg, PlanCheck.fieldArgTy, Bool.false_and, Bool.false_eq_true, if_false, Bool.not_false, Bool.true_or, if_true]
    exact ⟨.direct hr hm, .tok⟩
  | true =>
    cases hp : isPtr env rty with
    | some e =>
      have hl : rp = true := by rw [hrp, hp]; rfl
      subst hl
      simp only [methodArg, PlanCheck.fieldArgTy, Bool.not_true, Bool.and_false, Bool.false_eq_true, if_false, Bool.or_true, if_true]
      exact ⟨.resPtr hr hm (isPtr_some hp), .tok⟩
    | none =>
      have hl : rp = false := by rw [hrp, hp]; rfl
      subst hl
      simp only [methodArg, PlanCheck.fieldArgTy, Bool.not_false, Bool.and_true, if_true, Bool.not_true, Bool.or_false,
        Bool.false_eq_true, if_false]
      exact ⟨.wrapped hr hm (isPtr_none hp), .ptrTok (under_ptr env rty)⟩

theorem methodNil_spec (env : TEnv) {s : Ty} {v : Val} {path : List S} {T rty : Ty} {nm : S} {rp : Bool}
    (hr : Recv env s v path true T none) (hm : HasMethod env T nm rty) (hrp : rp = (isPtr env rty).isSome) :
    MethodSrc env s v path nm (PlanCheck.fieldArgTy true rp rty) .nil ∧ OpaqueArg env .nil (PlanCheck.fieldArgTy true rp rty) := by
  cases hp : isPtr env rty with
  | some e =>
    have hl : rp = true := by rw [hrp, hp]; rfl
    subst hl
    simp only [PlanCheck.fieldArgTy, Bool.not_true, Bool.or_true, if_true]
    exact ⟨.nilPtr hr hm (isPtr_some hp), .nil (isPtr_some hp)⟩
  | none =>
    have hl : rp = false := by rw [hrp, hp]; rfl
    subst hl
    simp only [PlanCheck.fieldArgTy, Bool.not_true, Bool.or_false, Bool.false_eq_true, if_false]
    exact ⟨.nil hr hm (isPtr_none hp), .nil (under_ptr env rty)⟩

theorem stFieldsU_step (p : Program) (fuel : Nat) (ihc : StConvU p fuel) (ihf : StFieldsU p fuel) : StFieldsU p (fuel + 1) := by
  intro fr plans s tfs src fs cur orig n v' n' hty hwt hsrc hnd hold hag hev
  cases hty with
  | nil =>
    unfold evalFields at hev
    have := (E_pure_ok _ _ _).1 hev
    cases this
    exact ⟨cur, rfl, fun _ _ => rfl, .nil⟩
  | @skip _ tf tty rest tfs' hrest =>
    unfold evalFields at hev
    have hsrc' : src = .struct fs ∨ ((∃ l, src = .ptr l (.struct fs)) ∧ noWholeSource rest = true) := by
      rcases hsrc with h | ⟨h1, h2⟩
      · exact .inl h
      · exact .inr ⟨h1, by simpa [noWholeSource] using h2⟩
    obtain ⟨ws, hv', hframe, hkeep, himg⟩ := fields_kept p fuel ihf hrest hwt hsrc' hnd hold hag hev
    exact ⟨ws, hv', hframe, .keep hkeep himg⟩
  | @cons _ tf tty path derefs guarded lp leaf cv rest tfs' z hwalk hlp hcv hrest =>
    obtain ⟨sfs, hs⟩ := wt_struct_ty hwt
    have hsrc' : src = .struct fs ∨ ((∃ l, src = .ptr l (.struct fs)) ∧ noWholeSource rest = true) := by
      rcases hsrc with h | ⟨h1, h2⟩
      · exact .inl h
      · refine .inr ⟨h1, ?_⟩
        simp only [noWholeSource, Bool.and_eq_true] at h2
        exact h2.2
    -- the walk from the source is the walk from the source struct
    have hwsrc : walk path derefs src = walk path derefs (.struct fs) := by
      rcases hsrc with h | ⟨⟨l, h1⟩, h2⟩
      · rw [h]
      · subst h1
        cases path with
        | nil => simp [noWholeSource] at h2
        | cons nm ps =>
          obtain ⟨ds', hds⟩ := walkTy_first hs hwalk
          subst hds
          exact walk_field_ptrsrc
    cases hw : walk path derefs (.struct fs) with
    | err e => exact absurd hev (evalFields_mapped_fail p fuel fr _ _ _ _ _ _ _ _ _ _ _ _ (fun l hl => by rw [hwsrc, hw] at hl; cases hl))
    | panic k => exact absurd hev (evalFields_mapped_fail p fuel fr _ _ _ _ _ _ _ _ _ _ _ _ (fun l hl => by rw [hwsrc, hw] at hl; cases hl))
    | stuck w => exact absurd hev (evalFields_mapped_fail p fuel fr _ _ _ _ _ _ _ _ _ _ _ _ (fun l hl => by rw [hwsrc, hw] at hl; cases hl))
    | ok r =>
      rw [evalFields_mapped p fuel fr tf.name path derefs guarded lp cv z rest src (.struct cur) n r (by rw [hwsrc, hw])] at hev
      obtain ⟨hFS, hWT⟩ := fieldArg_spec p.conv.env n hwt hwalk hlp hw
      generalize fieldArg guarded lp r n = argv at hev hFS hWT
      obtain ⟨a, n2⟩ := argv
      simp only [] at hFS hWT
      have holdF : OldOK p.conv.env ((cur.lookup tf.name).getD .nil) tty := by
        cases hc : cur.lookup tf.name with
        | none => exact .nil
        | some o => exact hold tf.name o tf tty hc (by simp [List.find?])
      obtain ⟨ws, hv', hframe, hrestImg, hcase⟩ := fieldCont_sound p fuel ihf hrest hwt hsrc' hnd hold hag
        (fun fr' nv n1 hc => ihc fr' cv _ tty a _ n2 nv n1 hcv hWT holdF hc) hev
      refine ⟨ws, hv', hframe, ?_⟩
      cases z with
      | none =>
        rcases hcase with ⟨h, _, _⟩ | ⟨_, y, hy, himg⟩
        · cases h
        · exact .assign hFS hy himg hrestImg
      | check =>
        rcases hcase with ⟨_, hz, hk⟩ | ⟨h, y, hy, himg⟩
        · exact .zeroKept hFS hz hk hrestImg
        · rcases h with h | h
          · cases h
          · exact .nonZero hFS (by unfold IsZeroValue; simp [h]) hy himg hrestImg
  | @viaMethod _ tf tty path ds g t0 nm args w rp rty cv rest tfs' z hwalk hnf hmr hrp hargs hsh hcv hrest =>
    obtain ⟨sfs, hs⟩ := wt_struct_ty hwt
    have hsrc' : src = .struct fs ∨ ((∃ l, src = .ptr l (.struct fs)) ∧ noWholeSource rest = true) := by
      rcases hsrc with h | ⟨h1, h2⟩
      · exact .inl h
      · refine .inr ⟨h1, ?_⟩
        simp only [noWholeSource, Bool.and_eq_true] at h2
        exact h2.2
    have hlen := walkTy_length p.conv.env path s t0 ds g hwalk
    have htake : (ds ++ [(PlanCheck.derefTy p.conv.env t0).2]).take path.length = ds := by
      rw [← hlen]; simp
    have hlast : (ds ++ [(PlanCheck.derefTy p.conv.env t0).2]).getLast?.getD false = (PlanCheck.derefTy p.conv.env t0).2 := by
      simp
    have hwsrc : walk path ds src = walk path ds (.struct fs) := by
      rcases hsrc with h | ⟨⟨l, h1⟩, h2⟩
      · rw [h]
      · subst h1
        cases path with
        | nil => simp [noWholeSource] at h2
        | cons nm' ps =>
          obtain ⟨ds', hds⟩ := walkTy_first hs hwalk
          subst hds
          exact walk_field_ptrsrc
    have hHM := hasMethod_of_check hnf hmr
    have holdF : OldOK p.conv.env ((cur.lookup tf.name).getD .nil) tty := by
      cases hc : cur.lookup tf.name with
      | none => exact .nil
      | some o => exact hold tf.name o tf tty hc (by simp [List.find?])
    cases hw : walk path ds (.struct fs) with
    | err e => exact absurd hev (evalFields_viaMethod_fail p fuel fr _ _ _ _ _ _ _ _ _ _ _ _ _ (fun l hl => by rw [htake, hwsrc, hw] at hl; cases hl))
    | panic k => exact absurd hev (evalFields_viaMethod_fail p fuel fr _ _ _ _ _ _ _ _ _ _ _ _ _ (fun l hl => by rw [htake, hwsrc, hw] at hl; cases hl))
    | stuck w' => exact absurd hev (evalFields_viaMethod_fail p fuel fr _ _ _ _ _ _ _ _ _ _ _ _ _ (fun l hl => by rw [htake, hwsrc, hw] at hl; cases hl))
    | ok r =>
      rw [evalFields_viaMethod p fuel fr tf.name path _ _ _ rp cv z rest src (.struct cur) n r (by rw [htake, hwsrc, hw]), hlast] at hev
      unfold viaCont at hev
      -- the two outcomes of reaching the receiver
      have finish : ∀ (a : Val) (n2 : Nat),
          MethodSrc p.conv.env s (.struct fs) path nm
            (PlanCheck.fieldArgTy (g || (PlanCheck.derefTy p.conv.env t0).2) rp rty) a →
          OpaqueArg p.conv.env a (PlanCheck.fieldArgTy (g || (PlanCheck.derefTy p.conv.env t0).2) rp rty) →
          fieldCont p fuel fr rest src (.struct cur) tf.name false cv z (a, n2) = .ok (v', n') →
          ∃ ws, v' = .struct ws ∧ (∀ name, name ∉ fieldNames ((tf, tty) :: tfs') → ws.lookup name = cur.lookup name) ∧
            ImgFieldsOnto p.conv.env (CtorSig p)
              (modesOf (.cons (.viaMethod tf.name path (ds ++ [(PlanCheck.derefTy p.conv.env t0).2])
                (g || (PlanCheck.derefTy p.conv.env t0).2) (.call (.structMethod nm) args false w) rp cv z) rest))
              s (.struct fs) ((tf, tty) :: tfs') (erase.eraseFields orig) (erase.eraseFields ws) := by
        intro a n2 hMS hOA hev'
        obtain ⟨ws, hv', hframe, hrestImg, hcase⟩ := fieldCont_sound p fuel ihf hrest hwt hsrc' hnd hold hag
          (fun fr' nv n1 hc => opaque_conv_sound p fuel fr' cv _ tty a _ n2 nv n1 hsh hcv hOA hc) hev'
        refine ⟨ws, hv', hframe, ?_⟩
        cases z with
        | none =>
          rcases hcase with ⟨h, _, _⟩ | ⟨_, y, hy, himg⟩
          · cases h
          · exact .assignM hMS hy himg hrestImg
        | check =>
          rcases hcase with ⟨_, hz, hk⟩ | ⟨h, y, hy, himg⟩
          · exact .zeroKeptM hMS hz hk hrestImg
          · rcases h with h | h
            · cases h
            · exact .nonZeroM hMS (by unfold IsZeroValue; simp [h]) hy himg hrestImg
      rcases recv_spec p.conv.env hwt hwalk hw with ⟨hrs, hg, hrecv⟩ | ⟨recv, hrs, hrecv⟩
      · rw [hrs] at hev
        simp only [] at hev
        rw [viaCont_none_eq] at hev
        rw [hg] at finish
        obtain ⟨hMS, hOA⟩ := methodNil_spec p.conv.env hrecv hHM hrp
        rw [hg]
        exact finish .nil n hMS hOA hev
      · rw [hrs] at hev
        simp only [] at hev
        split at hev
        · cases hev
        · cases hev
        · cases hev
        · rename_i rr n1 hcall
          obtain ⟨ctx, rfl, rfl⟩ := structMethod_call_eval p fuel _ nm args w recv .nil n rr n1 hcall
          obtain ⟨hMS, hOA⟩ := methodArg_spec p.conv.env (ctx := ctx) n1 hrecv hHM hrp
          generalize methodArg (g || (PlanCheck.derefTy p.conv.env t0).2) rp (.tok nm (recv :: ctx)) n1 = argv at hev hMS hOA
          obtain ⟨a, n2⟩ := argv
          exact finish a n2 hMS hOA hev

/-! ### the plan nodes -/

/-- the fields a struct-typed location holds before the assignment -/
theorem oldOK_struct_shape {env : TEnv} {old : Val} {t : Ty} {tfs : Fields} (hold : OldOK env old t)
    (ht : under env t = .struct tfs) :
    ∃ ofs, normStruct old = .struct ofs ∧ oldFields old = ofs ∧
      ∀ name x f ty, ofs.lookup name = some x →
        tfs.toList.find? (fun (y : FieldInfo × Ty) => y.1.name == name) = some (f, ty) → OldOK env x ty := by
  cases hold with
  | nonStruct h => exact absurd ht (h tfs)
  | nil => exact ⟨[], rfl, rfl, fun name x f ty hl _ => by simp [List.lookup] at hl⟩
  | struct h hf =>
    rw [ht] at h
    cases h
    exact ⟨_, rfl, rfl, hf⟩

theorem stConvU_step (p : Program) (fuel : Nat) (ihc : StConvU p fuel) (ihm : StCallU p fuel) (ihe : StElemsU p fuel)
    (ihn : StEntriesU p fuel) (ihf : StFieldsU p fuel) : StConvU p (fuel + 1) := by
  intro fr c s t v old n v' n' hty hwt hold hev
  cases hty with
  | identBasic hs ht =>
    unfold evalConv at hev
    have := (E_pure_ok _ _ _).1 hev
    cases this
    obtain ⟨r, rfl⟩ := wt_basic_inv hwt hs
    exact .basic hs ht
  | castBasic hs ht =>
    unfold evalConv at hev
    exact ihc _ .ident s t v old n v' n' (.identBasic hs ht) hwt hold hev
  | @callMethod _ _ m w hsig =>
    unfold evalConv at hev
    simp [List.filterMapM, List.filterMapM.loop] at hev
    obtain ⟨argVals, n1, h1, h2⟩ := (E_bind_ok _ _ _ _).1 hev
    obtain ⟨o, n2, h3, h4⟩ := (E_bind_ok _ _ _ _).1 h1
    have := (E_pure_ok _ _ _).1 h3
    cases this
    cases hcm : callMethod p fuel m v [] n1 with
    | ok r =>
      obtain ⟨rv, rn⟩ := r
      rw [hcm] at h2
      cases h2
      -- the callee assigns onto its own fresh result variable; the caller's location is overwritten by the result
      exact ihm m s t v [] n1 v' n' hsig hwt hcm (erase old)
    | err e => rw [hcm] at h2; cases h2
    | panic k => rw [hcm] at h2; cases h2
    | stuck w => rw [hcm] at h2; cases h2
  | @ptrPtr _ _ se te inner hs ht hin =>
    unfold evalConv at hev
    rcases wt_ptr_inv hwt hs with rfl | ⟨l, x, rfl, hx⟩
    · have := (E_pure_ok _ _ _).1 hev
      cases this
      exact .ptrNil hs ht
    · obtain ⟨v0, n1, h1, h2⟩ := (E_bind_ok _ _ _ _).1 hev
      obtain ⟨l0, n2, h3, h4⟩ := (E_bind_ok _ _ _ _).1 h2
      have := (E_pure_ok _ _ _).1 h4
      cases this
      have := ihc _ inner se te x _ n v0 n1 hin hx (oldOK_zeroVal _ 64 _) h1
      show ImgOnto p.conv.env (CtorSig p) s t (.ptr l x) (erase old) (.ptr .none (erase v0))
      exact .ptrPtr hs ht (.inr ⟨64, rfl⟩) this
  | @tgtPtr _ _ te inner hs ht hin =>
    unfold evalConv at hev
    obtain ⟨v0, n1, h1, h2⟩ := (E_bind_ok _ _ _ _).1 hev
    obtain ⟨l0, n2, h3, h4⟩ := (E_bind_ok _ _ _ _).1 h2
    have := (E_pure_ok _ _ _).1 h4
    cases this
    have := ihc _ inner s te v _ n v0 n1 hin hwt (oldOK_zeroVal _ 64 _) h1
    show ImgOnto p.conv.env (CtorSig p) s t v (erase old) (.ptr .none (erase v0))
    exact .toPtr hs ht (.inr ⟨64, rfl⟩) this
  | @srcPtr _ _ se inner hs ht hin =>
    unfold evalConv at hev
    rcases wt_ptr_inv hwt hs with rfl | ⟨l, x, rfl, hx⟩
    · have := (E_pure_ok _ _ _).1 hev
      cases this
      exact .srcNil hs ht
    · have := ihc _ inner se t x _ n v' n' hin hx (oldOK_zeroVal _ 64 _) hev
      exact .srcPtr hs ht (.inr ⟨64, rfl⟩) this
  | @slice _ _ se te elem hs ht hel =>
    unfold evalConv at hev
    rcases wt_slice_inv hwt hs with rfl | ⟨l, vs, rfl, hvs⟩
    · simp only [if_true] at hev
      have := (E_pure_ok _ _ _).1 hev
      cases this
      exact .sliceNil hs ht
    · simp only [if_true] at hev
      obtain ⟨out, n1, h1, h2⟩ := (E_bind_ok _ _ _ _).1 hev
      have himg := ihe fr elem se te vs 0 n out n1 hel hvs h1
      cases hvsE : vs.isEmpty with
      | true =>
        rw [hvsE] at h2
        simp only [if_true] at h2
        have := (E_pure_ok _ _ _).1 h2
        cases this
        have hvs0 : vs = [] := by simpa using hvsE
        subst hvs0
        show ImgOnto p.conv.env (CtorSig p) s t (.slice l []) (erase old) (.slice .none [])
        exact .slice hs ht .nil
      | false =>
        rw [hvsE] at h2
        simp only [Bool.false_eq_true, if_false] at h2
        obtain ⟨l0, n2, h3, h4⟩ := (E_bind_ok _ _ _ _).1 h2
        have := (E_pure_ok _ _ _).1 h4
        cases this
        show ImgOnto p.conv.env (CtorSig p) s t (.slice l vs) (erase old) (.slice .none (erase.eraseList out))
        exact .slice hs ht himg
  | @array _ _ k se te elem hs ht hel =>
    unfold evalConv at hev
    obtain ⟨vs, rfl, hvs⟩ := wt_array_inv hwt hs
    simp only [if_true] at hev
    obtain ⟨out, n1, h1, h2⟩ := (E_bind_ok _ _ _ _).1 hev
    have himg := ihe fr elem se te vs 0 n out n1 hel hvs h1
    cases hvsE : vs.isEmpty with
    | true =>
      rw [hvsE] at h2
      simp only [if_true] at h2
      have := (E_pure_ok _ _ _).1 h2
      cases this
      have hvs0 : vs = [] := by simpa using hvsE
      subst hvs0
      show ImgOnto p.conv.env (CtorSig p) s t (.arr []) (erase old) (.slice .none [])
      exact .array hs ht .nil
    | false =>
      rw [hvsE] at h2
      simp only [Bool.false_eq_true, if_false] at h2
      obtain ⟨l0, n2, h3, h4⟩ := (E_bind_ok _ _ _ _).1 h2
      have := (E_pure_ok _ _ _).1 h4
      cases this
      show ImgOnto p.conv.env (CtorSig p) s t (.arr vs) (erase old) (.slice .none (erase.eraseList out))
      exact .array hs ht himg
  | @mapc _ _ sk sv tk tv key val hs ht hk hv =>
    unfold evalConv at hev
    rcases wt_map_inv hwt hs with rfl | ⟨l, kvs, rfl, hwk, hwv⟩
    · have := (E_pure_ok _ _ _).1 hev
      cases this
      exact .mapNil hs ht
    · obtain ⟨out, n1, h1, h2⟩ := (E_bind_ok _ _ _ _).1 hev
      obtain ⟨l0, n2, h3, h4⟩ := (E_bind_ok _ _ _ _).1 h2
      have := (E_pure_ok _ _ _).1 h4
      cases this
      have himg := ihn fr key val sk sv tk tv kvs n out n1 hk hv hwk hwv h1
      show ImgOnto p.conv.env (CtorSig p) s t (.map l kvs) (erase old) (.map .none (erase.eraseEntries out))
      exact .map hs ht himg
  | @structc _ _ sfs tfs plans upd hs ht hnd hfs =>
    unfold evalConv at hev
    obtain ⟨fs, rfl, _⟩ := wt_struct_inv hwt hs
    obtain ⟨ofs, hnorm, hofs, hoOK⟩ := oldOK_struct_shape hold ht
    rw [hnorm] at hev
    obtain ⟨ws, hv', _, hws⟩ := ihf fr plans s tfs.toList (.struct fs) fs ofs ofs n v' n' hfs hwt (.inl rfl) hnd hoOK
      (fun _ _ => rfl) (by simpa using hev)
    subst hv'
    show ImgOnto p.conv.env (CtorSig p) s t (.struct fs) (erase old) (.struct (erase.eraseFields ws))
    refine .struct hs ht (modes := modesOf plans) ?_
    rw [oldFields_erase, hofs]
    exact hws

/-! ### all fuels -/

theorem sound_allU (p : Program) (hp : ProgOKU p) :
    ∀ fuel, StConvU p fuel ∧ StCallU p fuel ∧ StElemsU p fuel ∧ StEntriesU p fuel ∧ StFieldsU p fuel := by
  intro fuel
  induction fuel using Nat.strongRecOn with
  | ind fuel ih =>
    cases fuel with
    | zero =>
      refine ⟨?_, ?_, ?_, ?_, ?_⟩
      · intro fr c s t v old n v' n' _ _ _ hev; unfold evalConv at hev; cases hev
      · intro m s t v cs n v' n' _ _ hev; unfold callMethod at hev; cases hev
      · intro fr elem se te vs i n out n' _ _ hev; unfold evalElems at hev; cases hev
      · intro fr key val sk sv tk tv kvs n out n' _ _ _ _ hev; unfold evalEntries at hev; cases hev
      · intro fr plans sfs tfs src fs cur orig n v' n' _ _ _ _ _ _ hev; unfold evalFields at hev; cases hev
    | succ fuel =>
      obtain ⟨ihc, ihm, ihe, ihn, ihf⟩ := ih fuel (Nat.lt_succ_self fuel)
      exact ⟨stConvU_step p fuel ihc ihm ihe ihn ihf,
        stCallU_step p hp fuel ihc (fun j hj => (ih j (Nat.lt_succ_of_lt hj)).1),
        stElemsU_step p fuel ihc ihe, stEntriesU_step p fuel ihc ihn, stFieldsU_step p fuel ihc ihf⟩

/-- **Soundness of plans with ignored fields, zero guards and update structs** (C05 / C10, composite): whatever a plan of
the generalised fragment returns for a well-typed source value and an admissible previous target value is the assignment
image of the source onto the previous value — for every value, of any size and depth, and any amount of fuel. -/
theorem evalConv_onto (p : Program) (hp : ProgOKU p) (fuel : Nat) (fr : Frame) (c : Conv) (s t : Ty) (v old : Val)
    (n : Nat) (v' : Val) (n' : Nat) (hty : HasTyU p c s t) (hwt : WT p.conv.env v s) (hold : OldOK p.conv.env old t)
    (hev : evalConv p fuel fr c v old n = .ok (v', n')) :
    ImgOnto p.conv.env (CtorSig p) s t v (erase old) (erase v') :=
  (sound_allU p hp fuel).1 fr c s t v old n v' n' hty hwt hold hev

/-- the same for a call of a generated / declared (non-update) method: whatever the caller's location held, it now holds
the method's result — the image onto a fresh zero value, or (default constructor) onto / on top of FUNC's result -/
theorem callMethod_onto (p : Program) (hp : ProgOKU p) (fuel m : Nat) (s t : Ty) (v : Val) (cs : List Val) (n : Nat)
    (v' : Val) (n' : Nat) (hsig : sigOf p m = some (s, t)) (hwt : WT p.conv.env v s)
    (hev : callMethod p fuel m v cs n = .ok (v', n')) (old : Val) :
    ImgOnto p.conv.env (CtorSig p) s t v old (erase v') :=
  (sound_allU p hp fuel).2.1 m s t v cs n v' n' hsig hwt hev old

/-- a method without default constructor: the result is the image onto a fresh zero value -/
theorem callMethod_plain_onto (p : Program) (hp : ProgOKU p) (fuel m : Nat) (gm : GenMethod) (c : Conv) (v : Val)
    (cs : List Val) (n : Nat) (v' : Val) (n' : Nat) (hm : p.methods[m]? = some gm) (hb : gm.body = some (.convert c))
    (hty : HasTyU p c gm.source gm.target) (hwt : WT p.conv.env v gm.source)
    (hev : callMethod p fuel m v cs n = .ok (v', n')) :
    ImgOnto p.conv.env (CtorSig p) gm.source gm.target v (erase (zeroVal p.conv.env 64 gm.target)) (erase v') := by
  cases fuel with
  | zero => unfold callMethod at hev; cases hev
  | succ fuel =>
    unfold callMethod at hev
    simp only [hm, hb] at hev
    exact evalConv_onto p hp fuel _ c _ _ v _ n v' n' hty hwt (oldOK_zeroVal _ 64 _) hev

/-- a struct node, with the configuration of ITS fields exposed (`modesOf plans`); the source is the struct or — in an
update method with a pointer source — a pointer to it -/
theorem structc_onto (p : Program) (hp : ProgOKU p) (fuel : Nat) (fr : Frame) (plans : FieldPlans) (upd : Bool) (s t : Ty)
    (sfs tfs : Fields) (src : Val) (fs : List (S × Val)) (old : Val) (n : Nat) (v' : Val) (n' : Nat)
    (hty : HasTyU p (.structc plans upd) s t) (hs : under p.conv.env s = .struct sfs) (ht : under p.conv.env t = .struct tfs)
    (hsrc : src = .struct fs ∨ ((∃ l, src = .ptr l (.struct fs)) ∧ noWholeSource plans = true))
    (hwt : WT p.conv.env (.struct fs) s) (hold : OldOK p.conv.env old t)
    (hev : evalConv p fuel fr (.structc plans upd) src old n = .ok (v', n')) :
    ∃ ws, v' = .struct ws ∧
      ImgFieldsOnto p.conv.env (CtorSig p) (modesOf plans) s (.struct fs) tfs.toList (oldFields (erase old)) (erase.eraseFields ws) := by
  cases fuel with
  | zero => unfold evalConv at hev; cases hev
  | succ fuel =>
    unfold evalConv at hev
    cases hty with
    | structc hs' ht' hnd hfs =>
      rw [hs] at hs'; cases hs'
      rw [ht] at ht'; cases ht'
      obtain ⟨ofs, hnorm, hofs, hoOK⟩ := oldOK_struct_shape hold ht
      rw [hnorm] at hev
      obtain ⟨ws, hv', _, hws⟩ := (sound_allU p hp fuel).2.2.2.2 fr plans s tfs.toList src fs ofs ofs n v' n' hfs
        hwt hsrc hnd hoOK (fun _ _ => rfl) (by simpa using hev)
      refine ⟨ws, hv', ?_⟩
      rw [oldFields_erase, hofs]
      exact hws

/-! ### method level -/

theorem zeroFields_lookup_at (env : TEnv) (k : Nat) : ∀ (tfs : List (FieldInfo × Ty)) (i : Nat) (tf : FieldInfo) (tty : Ty),
    (fieldNames tfs).Nodup → tfs[i]? = some (tf, tty) →
    (zeroVal.zeroFields env k tfs).lookup tf.name = some (zeroVal env k tty) := by
  intro tfs
  induction tfs with
  | nil => intro i tf tty _ hi; simp at hi
  | cons a tfs ih =>
    obtain ⟨g, gty⟩ := a
    intro i tf tty hnd hi
    have hnd' : g.name ∉ fieldNames tfs ∧ (fieldNames tfs).Nodup := by simpa [fieldNames] using hnd
    unfold zeroVal.zeroFields
    cases i with
    | zero =>
      simp at hi
      obtain ⟨rfl, rfl⟩ := hi
      simp [List.lookup]
    | succ i =>
      have hi' : tfs[i]? = some (tf, tty) := by simpa using hi
      have hmem : tf.name ∈ fieldNames tfs :=
        List.mem_map.2 ⟨(tf, tty), List.mem_of_getElem? hi', rfl⟩
      have hne : (tf.name == g.name) = false := by
        simpa using (fun hh : tf.name = g.name => hnd'.1 (hh ▸ hmem))
      simp only [List.lookup, hne]
      exact ih i tf tty hnd'.2 hi'

/-- the plan of the `i`-th target field and its mode -/
theorem modesOf_get (plans : FieldPlans) (i : Nat) : (modesOf plans)[i]? = (plans.toList[i]?).map modeOf := by
  unfold modesOf
  simp

/-- a conversion method whose body is a struct node: every target field is what its plan's mode prescribes, the
previous value being the zero value of the target struct -/
theorem convert_struct_onto (p : Program) (hp : ProgOKU p) (fuel m : Nat) (gm : GenMethod) (plans : FieldPlans) (upd : Bool)
    (hm : p.methods[m]? = some gm) (hb : gm.body = some (.convert (.structc plans upd)))
    (sfs tfs : Fields) (hs : under p.conv.env gm.source = .struct sfs) (ht : under p.conv.env gm.target = .struct tfs)
    (fs : List (S × Val)) (hwt : WT p.conv.env (.struct fs) gm.source) (cs : List Val) (n : Nat) (v' : Val) (n' : Nat)
    (hev : callMethod p fuel m (.struct fs) cs n = .ok (v', n')) :
    (fieldNames tfs.toList).Nodup ∧ ∃ ws, v' = .struct ws ∧
      ImgFieldsOnto p.conv.env (CtorSig p) (modesOf plans) gm.source (.struct fs) tfs.toList
        (erase.eraseFields (zeroVal.zeroFields p.conv.env 63 tfs.toList)) (erase.eraseFields ws) := by
  cases fuel with
  | zero => unfold callMethod at hev; cases hev
  | succ fuel =>
    unfold callMethod at hev
    simp only [hm, hb] at hev
    have hty0 := hp m gm hm
    unfold BodyOKU at hty0
    simp only [hb] at hty0
    have hty : HasTyU p (.structc plans upd) gm.source gm.target := by
      cases hty0 with
      | plain h => exact h
    have hnd : (fieldNames tfs.toList).Nodup := by
      cases hty with
      | structc hs' ht' hnd _ => rw [ht] at ht'; cases ht'; exact hnd
    obtain ⟨ws, hv', himg⟩ := structc_onto p hp fuel _ plans upd gm.source gm.target sfs tfs (.struct fs) fs _ n v' n' hty hs ht
      (.inl rfl) hwt (oldOK_zeroVal _ 64 _) hev
    refine ⟨hnd, ws, hv', ?_⟩
    have hz : oldFields (erase (zeroVal p.conv.env 64 gm.target)) =
        erase.eraseFields (zeroVal.zeroFields p.conv.env 63 tfs.toList) := by
      rw [zeroVal_struct 63 ht]; rfl
    rw [hz] at himg
    exact himg

/-- the types an update method converts between: the struct its target points to, and its source (or the struct its
pointer source points to) -/
def UpdTypes (p : Program) (gm : GenMethod) (srcIsPtr : Bool) (s t : Ty) : Prop :=
  under p.conv.env gm.target = .ptr t ∧
    (if srcIsPtr then under p.conv.env gm.source = .ptr s else gm.source = s)

/-- the body of an update method: every field of the target instance is what its plan's mode prescribes -/
theorem update_struct_onto (p : Program) (hp : ProgOKU p) (m : Nat) (gm : GenMethod) (srcIsPtr : Bool) (plans : FieldPlans)
    (upd : Bool) (hm : p.methods[m]? = some gm) (hb : gm.body = some (.update srcIsPtr (.structc plans upd)))
    (s t : Ty) (htys : UpdTypes p gm srcIsPtr s t)
    (sfs tfs : Fields) (hs : under p.conv.env s = .struct sfs) (ht : under p.conv.env t = .struct tfs)
    (src : Val) (fs : List (S × Val))
    (hsrc : src = .struct fs ∨ ((∃ l, src = .ptr l (.struct fs)) ∧ noWholeSource plans = true))
    (hwt : WT p.conv.env (.struct fs) s) (old : Val) (hold : OldOK p.conv.env old t)
    (fuel : Nat) (fr : Frame) (n : Nat) (v' : Val) (n' : Nat)
    (hev : evalConv p fuel fr (.structc plans upd) src old n = .ok (v', n')) :
    ∃ ws, v' = .struct ws ∧
      ImgFieldsOnto p.conv.env (CtorSig p) (modesOf plans) s (.struct fs) tfs.toList (oldFields (erase old)) (erase.eraseFields ws) := by
  have hty := hp m gm hm
  unfold BodyOKU at hty
  simp only [hb] at hty
  obtain ⟨te, hte, hrest⟩ := hty
  obtain ⟨ht1, hs1⟩ := htys
  rw [ht1] at hte
  cases hte
  have hty' : HasTyU p (.structc plans upd) s t := by
    cases srcIsPtr with
    | false =>
      simp only [Bool.false_eq_true, if_false] at hrest hs1
      rw [← hs1]; exact hrest
    | true =>
      simp only [if_true] at hrest hs1
      obtain ⟨se, hse, h⟩ := hrest
      rw [hs1] at hse
      cases hse
      exact h
  exact structc_onto p hp fuel fr plans upd s t sfs tfs src fs old n v' n' hty' hs ht hsrc hwt hold hev

/-! ### methods with a default constructor (C11) -/

/-- plain `default FUNC`: the method returns the conversion of its source ONTO FUNC's result `init` (for a pointer target:
a pointer at the first location the call allocates) -/
theorem default_method_onto (p : Program) (hp : ProgOKU p) (fuel m : Nat) (gm : GenMethod) (ctor : Conv) (tp : Bool) (rest : Conv)
    (hm : p.methods[m]? = some gm) (hb : gm.body = some (.convert (.withCtor ctor tp rest)))
    (v : Val) (hwt : WT p.conv.env v gm.source) (cs : List Val) (n : Nat) (v' : Val) (n' : Nat)
    (hev : callMethod p fuel m v cs n = .ok (v', n')) :
    ∃ init, IsCtorOf p.conv.env gm.target (erase init) ∧
      (∀ te, under p.conv.env gm.target = .ptr te → ∃ tv, init = .ptr (.fresh n) tv) ∧
      ImgOnto p.conv.env (CtorSig p) gm.source gm.target v (erase init) (erase v') ∧
      (∀ se, under p.conv.env gm.source = .ptr se → v = .nil → v' = init) := by
  cases fuel with
  | zero => unfold callMethod at hev; cases hev
  | succ fuel =>
    unfold callMethod at hev
    simp only [hm, hb] at hev
    have hok := hp m gm hm
    unfold BodyOKU at hok
    simp only [hb] at hok
    cases fuel with
    | zero => unfold evalConv at hev; cases hev
    | succ f =>
      cases hok with
      | plain h => cases h
      | withCtor hc hnc hty => exact withCtor_step p f (sound_allU p hp f).1 _ ctor tp rest _ _ v _ n v' n' hc hnc hty hwt hev

/-- `default FUNC` with default:update: the method returns FUNC's result with the source applied on top (`CtorImg … true`);
for a pointer target the pointer returned is FUNC's own (`init`), at the first location the call allocates -/
theorem default_update_method_onto (p : Program) (hp : ProgOKU p) (fuel m : Nat) (gm : GenMethod) (ctor : Conv)
    (tp sp tz : Bool) (inner : Conv)
    (hm : p.methods[m]? = some gm) (hb : gm.body = some (.convert (.ctorUpdate ctor tp sp tz inner)))
    (v : Val) (hwt : WT p.conv.env v gm.source) (cs : List Val) (n : Nat) (v' : Val) (n' : Nat)
    (hev : callMethod p fuel m v cs n = .ok (v', n')) :
    ∃ init, IsCtorOf p.conv.env gm.target (erase init) ∧
      CtorImg p.conv.env (CtorSig p) true gm.source gm.target v (erase init) (erase v') ∧
      (tz = true → ∃ tv nv, init = .ptr (.fresh n) tv ∧ v' = .ptr (.fresh n) nv) ∧
      (sp = true → v = .nil → v' = init) := by
  cases fuel with
  | zero => unfold callMethod at hev; cases hev
  | succ fuel =>
    unfold callMethod at hev
    simp only [hm, hb] at hev
    have hok := hp m gm hm
    unfold BodyOKU at hok
    simp only [hb] at hok
    cases fuel with
    | zero => unfold evalConv at hev; cases hev
    | succ f => exact ctorUpdate_step p f (sound_allU p hp f).1 _ ctor tp sp tz inner _ _ v _ n v' n' hok hwt hev

theorem ctorVal_struct {env : TEnv} {t : Ty} {tfs : Fields} (k : Nat) (h : under env t = .struct tfs) :
    ctorVal env (k + 1) t = .struct (ctorVal.ctorFields env k tfs.toList) := by
  unfold ctorVal; simp [h]

/-- plain `default FUNC` on a struct → struct method: field by field, the previous values being FUNC's field values
(so ignored fields keep FUNC's values) -/
theorem default_struct_onto (p : Program) (hp : ProgOKU p) (fuel m : Nat) (gm : GenMethod) (ctor : Conv) (tp : Bool)
    (plans : FieldPlans) (upd : Bool)
    (hm : p.methods[m]? = some gm) (hb : gm.body = some (.convert (.withCtor ctor tp (.structc plans upd))))
    (sfs tfs : Fields) (hs : under p.conv.env gm.source = .struct sfs) (ht : under p.conv.env gm.target = .struct tfs)
    (fs : List (S × Val)) (hwt : WT p.conv.env (.struct fs) gm.source) (cs : List Val) (n : Nat) (v' : Val) (n' : Nat)
    (hev : callMethod p fuel m (.struct fs) cs n = .ok (v', n')) :
    ∃ ws, v' = .struct ws ∧
      ImgFieldsOnto p.conv.env (CtorSig p) (modesOf plans) gm.source (.struct fs) tfs.toList
        (erase.eraseFields (ctorVal.ctorFields p.conv.env 63 tfs.toList)) (erase.eraseFields ws) := by
  cases fuel with
  | zero => unfold callMethod at hev; cases hev
  | succ fuel =>
    unfold callMethod at hev
    simp only [hm, hb] at hev
    have hok := hp m gm hm
    unfold BodyOKU at hok
    simp only [hb] at hok
    cases fuel with
    | zero => unfold evalConv at hev; cases hev
    | succ f =>
      cases hok with
      | plain h => cases h
      | withCtor hc hnc hty =>
        unfold evalConv at hev
        obtain ⟨cv, n1, h1, h2⟩ := (E_bind_ok _ _ _ _).1 hev
        obtain ⟨init, n2, h3, h4⟩ := ite_bind_ok _ _ _ _ _ _ h2
        obtain ⟨hI, hO, _⟩ := ctor_init p hc f _ (.struct fs) .nil n cv n1 init n2 h1 h3
        obtain ⟨ws, hv', himg⟩ := structc_onto p hp f _ plans upd gm.source gm.target sfs tfs (.struct fs) fs init n2 v' n' hty hs ht
          (.inl rfl) hwt hO h4
        refine ⟨ws, hv', ?_⟩
        have hE : erase init = erase (ctorVal p.conv.env 64 gm.target) := by
          rcases hI with ⟨_, h⟩ | ⟨te, hte, _⟩
          · exact h
          · rw [ht] at hte; cases hte
        rw [hE, ctorVal_struct 63 ht] at himg
        exact himg

end Gv.Sound
