/-
What a whole plan needs (Gv.Emit.convNeeds / methodsNeeds) in terms of the call sites and enum actions that occur in it.
`convSites` lists, in order, every `.call` node (with its `retErr` flag and wrap) and every action of every `.enumc` node
(default first); `convNeeds` is a function of that list only.  Used by the C18 composite theorems.
-/
import Gv.Model.Emit

namespace Gv.EmitLemmas
open Gv Gv.Emit

/-- an occurrence that can make the emitted file need `fmt` or the wrap package -/
inductive Site
  | call (retErr : Bool) (w : Wrap)
  | action (a : EnumAction)

def siteFmt : Site → Bool
  | .call r w => r && wrapNeedsFmt w
  | .action a => actionNeedsFmt a

def sitePkg : Site → Option Str.S
  | .call r w => if r then wrapNeedsPkg w else none
  | .action a => actionPkg a

mutual
  /-- every call node and every enum action of the plan, in plan order -/
  def convSites : Conv → List Site
    | .ident => []
    | .cast i => convSites i
    | .underlying _ _ i => convSites i
    | .call _ _ retErr w => [.call retErr w]
    | .ptrPtr _ i => convSites i
    | .srcPtr _ i => convSites i
    | .tgtPtr _ i => convSites i
    | .list _ _ _ e => convSites e
    | .mapc _ _ k v => convSites k ++ convSites v
    | .structc fs _ => fieldsSites fs
    | .enumc cases dflt => (dflt :: cases.map (·.2.2)).map .action
    | .withCtor c _ r => convSites c ++ convSites r
    | .ctorUpdate c _ _ _ i => convSites c ++ convSites i
  def fieldsSites : FieldPlans → List Site
    | .nil => []
    | .cons f rest => fieldSites f ++ fieldsSites rest
  def fieldSites : FieldPlan → List Site
    | .skip _ => []
    | .mapped _ _ _ _ _ c _ => convSites c
    | .viaMethod _ _ _ _ cl _ c _ => convSites cl ++ convSites c
end

def needsOf (l : List Site) : Bool × List Str.S := (l.any siteFmt, l.filterMap sitePkg)

theorem needsOf_append (a b : List Site) : needsOf (a ++ b) = ((needsOf a).1 || (needsOf b).1, (needsOf a).2 ++ (needsOf b).2) := by
  simp [needsOf, List.any_append, List.filterMap_append]

mutual
  theorem convNeeds_eq : ∀ c : Conv, convNeeds c = needsOf (convSites c)
    | .ident => by simp [convNeeds, convSites, needsOf]
    | .cast i => by rw [convNeeds, convSites]; exact convNeeds_eq i
    | .underlying _ _ i => by rw [convNeeds, convSites]; exact convNeeds_eq i
    | .call _ _ retErr w => by
      cases retErr
      · simp [convNeeds, convSites, needsOf, siteFmt, sitePkg]
      · cases h : wrapNeedsPkg w <;> simp [convNeeds, convSites, needsOf, siteFmt, sitePkg, h]
    | .ptrPtr _ i => by rw [convNeeds, convSites]; exact convNeeds_eq i
    | .srcPtr _ i => by rw [convNeeds, convSites]; exact convNeeds_eq i
    | .tgtPtr _ i => by rw [convNeeds, convSites]; exact convNeeds_eq i
    | .list _ _ _ e => by rw [convNeeds, convSites]; exact convNeeds_eq e
    | .mapc _ _ k v => by rw [convNeeds, convSites, needsOf_append, convNeeds_eq k, convNeeds_eq v]
    | .structc fs _ => by rw [convNeeds, convSites]; exact fieldsNeeds_eq fs
    | .enumc cases dflt => by
      simp only [convNeeds, convSites, needsOf, List.any_map, List.filterMap_map]
      rfl
    | .withCtor c _ r => by rw [convNeeds, convSites, needsOf_append, convNeeds_eq c, convNeeds_eq r]
    | .ctorUpdate c _ _ _ i => by rw [convNeeds, convSites, needsOf_append, convNeeds_eq c, convNeeds_eq i]
  theorem fieldsNeeds_eq : ∀ fs : FieldPlans, fieldsNeeds fs = needsOf (fieldsSites fs)
    | .nil => by simp [fieldsNeeds, fieldsSites, needsOf]
    | .cons f rest => by rw [fieldsNeeds, fieldsSites, needsOf_append, fieldNeeds_eq f, fieldsNeeds_eq rest]
  theorem fieldNeeds_eq : ∀ f : FieldPlan, fieldNeeds f = needsOf (fieldSites f)
    | .skip _ => by simp [fieldNeeds, fieldSites, needsOf]
    | .mapped _ _ _ _ _ c _ => by rw [fieldNeeds, fieldSites]; exact convNeeds_eq c
    | .viaMethod _ _ _ _ cl _ c _ => by rw [fieldNeeds, fieldSites, needsOf_append, convNeeds_eq cl, convNeeds_eq c]
end

def bodySites : Body → List Site
  | .convert c => convSites c
  | .delegate _ _ _ => []
  | .update _ c => convSites c

theorem bodyNeeds_eq (b : Body) : bodyNeeds b = needsOf (bodySites b) := by
  cases b <;> simp [bodyNeeds, bodySites, convNeeds_eq, needsOf]

/-- the sites of all method bodies, in table order -/
def methodsSites (ms : List GenMethod) : List Site := (ms.filterMap (·.body)).flatMap bodySites

theorem methodsNeeds_foldl (ms : List GenMethod) : ∀ acc : Bool × List Str.S,
    ms.foldl (fun acc m => match m.body with
      | some b => let x := bodyNeeds b; (acc.1 || x.1, acc.2 ++ x.2)
      | none => acc) acc =
    (acc.1 || (needsOf (methodsSites ms)).1, acc.2 ++ (needsOf (methodsSites ms)).2) := by
  induction ms with
  | nil => intro acc; simp [methodsSites, needsOf]
  | cons m rest ih =>
    intro acc
    rw [List.foldl_cons, ih]
    cases hb : m.body with
    | none => simp [methodsSites, hb]
    | some b =>
      have : methodsSites (m :: rest) = bodySites b ++ methodsSites rest := by simp [methodsSites, hb]
      rw [this, needsOf_append]
      simp only [bodyNeeds_eq]
      simp [Bool.or_assoc, List.append_assoc]

/-- `.1` of the fold is the `any`, `.2` the concatenation, of the per-method results -/
theorem methodsNeeds_eq (ms : List GenMethod) : methodsNeeds ms = needsOf (methodsSites ms) := by
  have h := methodsNeeds_foldl ms (false, [])
  simp only [Bool.false_or, List.nil_append] at h
  exact h

theorem methodsNeeds_per_method (ms : List GenMethod) :
    (methodsNeeds ms).1 = (ms.filterMap (·.body)).any (fun b => (bodyNeeds b).1) ∧
    (methodsNeeds ms).2 = (ms.filterMap (·.body)).flatMap (fun b => (bodyNeeds b).2) := by
  rw [methodsNeeds_eq]
  unfold methodsSites needsOf
  constructor
  · simp only [List.any_flatMap]
    congr 1; funext b; rw [bodyNeeds_eq]; rfl
  · simp only [List.filterMap_flatMap]
    congr 1; funext b; rw [bodyNeeds_eq]; rfl

/-- when one site needs `fmt`: a `@panic`/`@error` enum action, or an error-returning call under wrapErrors whose innermost
path element is a field or an index -/
def SiteNeedsFmt : Site → Prop
  | .action a => a = .panic ∨ ∃ w, a = .error w
  | .call retErr w => retErr = true ∧ w.mode = .wrapErrors ∧ ((∃ f, w.path.getLast? = some (.field f)) ∨ w.path.getLast? = some .index)

/-- when one site refers to the wrap package `pkg`: an error-returning call or an `@error` action under `wrapErrorsUsing pkg` -/
def SiteUsesPkg (pkg : Str.S) : Site → Prop
  | .action a => ∃ path, a = .error { mode := .using pkg, path := path }
  | .call retErr w => retErr = true ∧ w.mode = .using pkg

theorem siteFmt_iff (s : Site) : siteFmt s = true ↔ SiteNeedsFmt s := by
  cases s with
  | action a => cases a <;> simp [siteFmt, actionNeedsFmt, SiteNeedsFmt]
  | call r w =>
    simp only [siteFmt, SiteNeedsFmt, Bool.and_eq_true, wrapNeedsFmt]
    cases w.mode with
    | wrapErrors =>
      cases hl : w.path.getLast? with
      | none => simp
      | some e => cases e <;> simp
    | none => simp
    | «using» p => simp

theorem sitePkg_iff (pkg : Str.S) (s : Site) : sitePkg s = some pkg ↔ SiteUsesPkg pkg s := by
  cases s with
  | action a =>
    cases a with
    | error w =>
      obtain ⟨mode, path⟩ := w
      cases mode <;> simp [sitePkg, actionPkg, wrapNeedsPkg, SiteUsesPkg]
    | _ => simp [sitePkg, actionPkg, SiteUsesPkg]
  | call r w =>
    cases r <;> cases hm : w.mode <;> simp [sitePkg, wrapNeedsPkg, SiteUsesPkg, hm]


end Gv.EmitLemmas
