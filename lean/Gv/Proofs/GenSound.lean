/-
Generator soundness on the fragment FS of unnamed (struct) types: the method table `Gen.generate` returns for a converter with one
declared method passes `PlanCheck.checkProg` – proved, not checked at run time – and makes no method call, so the composite
theorems of C02 (image, no panic, termination) and C04 (fresh cells) apply to the GENERATED program for all values.
Property statements: `Gv.Props.C02.C02_end_to_end_unnamed_struct_fragment`, `Gv.Props.C04.C04_end_to_end_unnamed_struct_fragment`.
-/
import Gv.Proofs.GenFragment
import Gv.Proofs.Typing
import Gv.Proofs.Safety

namespace Gv.Gen
open Gv Gv.Spec Gv.PlanCheck Gv.Eval

/-- the plans of the reference generator call no method: the call structure descends for every rank -/
theorem genF_descB (z : Bool) (rank : Nat → Nat) (r : Nat) :
    ∀ asg s t plan, genF z asg s t = .ok plan → Safety.descB rank r plan = true := by
  refine (genF.mutual_induct z
    (motive1 := fun asg s t => ∀ plan, genF z asg s t = .ok plan → Safety.descB rank r plan = true)
    (motive2 := fun _ _ => True) ?_ ?_ ?_ ?_ ?_ ?_ ?_ ?_ ?_ ?_ ?_ ?_ ?_ ?_ ?_ ?_ ?_ ?_).1
  · intro asg a b _ plan h; rw [genF_ptrPtr] at h; obtain ⟨q, _, rfl⟩ := map_ok h; rfl
  · intro asg s b hn ih plan h; rw [genF_tgtPtr _ _ _ _ (isPtrTy_false_of hn)] at h
    obtain ⟨q, hq, rfl⟩ := map_ok h; simpa [Safety.descB] using ih q hq
  · intro asg a t hn hz _ plan h; rw [genF_srcPtr _ _ _ _ (isPtrTy_false_of hn), if_pos hz] at h
    obtain ⟨q, _, rfl⟩ := map_ok h; rfl
  · intro asg a t hn hz plan h; rw [genF_srcPtr _ _ _ _ (isPtrTy_false_of hn), if_neg hz] at h; cases h
  · intro asg k k' hk plan h; rw [genF_basic, if_pos hk] at h; cases h; rfl
  · intro asg k k' hk plan h; rw [genF_basic, if_neg hk] at h; cases h
  · intro asg a b _ plan h; rw [genF_slice] at h; obtain ⟨q, _, rfl⟩ := map_ok h; rfl
  · intro asg n a b _ plan h; rw [genF_array] at h; obtain ⟨q, _, rfl⟩ := map_ok h; rfl
  · intro asg k v k' v' kk hk _ _ plan h; rw [genF_map, hk] at h; obtain ⟨q, _, rfl⟩ := map_ok h; rfl
  · intro asg k v k' v' d hk _ plan h; rw [genF_map, hk] at h; cases h
  · intro asg sfs tfs hc plan h; rw [genF_struct, if_pos hc] at h; cases h; rfl
  · intro asg sfs tfs hc _ plan h; rw [genF_struct, if_neg hc] at h; obtain ⟨q, _, rfl⟩ := map_ok h; rfl
  · intro asg s t h1 h2 _ h4 h5 h6 h7 h8 plan h
    rw [genF_reject z asg s t (isPtrTy_false_of h1) (isPtrTy_false_of h2) (topRule_false_of h4 h5 h6 h7 h8)] at h; cases h
  all_goals (intros; trivial)

/-- **generator soundness on FS** (one declared method): what `generate` returns is the declared method with the reference plan;
it passes `checkProg`; its signature is the declared one; it makes no calls -/
theorem generate_sound_struct_fragment (c : Converter) (d : Declared) (z : Bool) (fuel rounds : Nat)
    (hup : d.updateTarget = false) (hraw : d.cfg.rawFieldSettings = []) (hctor : d.cfg.constructor = none)
    (hs : inFS d.source = true) (ht : inFS d.target = true)
    (hfuel : 2 * (tySize d.source + tySize d.target) < fuel) (hrounds : 2 ≤ rounds)
    (hext : c.extend = [])
    (hu : d.cfg.common.useUnderlying = false) (hsk : d.cfg.common.skipCopySameType = false)
    (hz : d.cfg.common.useZeroValue = z)
    (h1 : d.cfg.common.matchIgnoreCase = false) (h2 : d.cfg.common.ignoreMissing = false)
    (h3 : d.cfg.fields = []) (h4 : d.cfg.autoMap = [])
    (ha1 : aliasFree d.source = true) (ha2 : aliasFree d.target = true) (ha3 : arrayElemFree false d.source = true)
    (ha4 : structsOK d.target = true)
    (ms : List GenMethod) (hgen : generate c [d] fuel rounds = .ok ms) :
    checkProg { conv := c, methods := ms } = true ∧
    Typing.sigOf { conv := c, methods := ms } 0 = some (d.source, d.target) ∧
    (∀ rank, Safety.callsDescend { conv := c, methods := ms } rank = true) := by
  rw [generate_single_struct c d z fuel rounds hup hraw hctor hs ht hfuel hrounds hext hu hsk hz h1 h2 h3 h4] at hgen
  cases hg : genF z false d.source d.target with
  | error e => rw [hg] at hgen; cases hgen
  | ok plan =>
    rw [hg] at hgen
    simp only [Except.ok.injEq] at hgen
    subst hgen
    refine ⟨?_, ?_, ?_⟩
    · simp [checkProg, declaredMethod, genF_checked_struct _ z false d.source d.target plan hg hs ht ha1 ha2 ha3 ha4]
    · simp [Typing.sigOf, declaredMethod]
    · intro rank
      simp [Safety.callsDescend, declaredMethod, genF_descB z rank (rank 0) false d.source d.target plan hg]

end Gv.Gen
