/-
Typing of structural conversion plans and of runtime values (used by the composite theorem of C02).
-/
import Gv.Model.Eval

namespace Gv.Typing
open Gv Gv.Str Gv.Eval

/-- the signature (source, target) of the generated/declared methods of a program -/
def sigOf (p : Program) (m : Nat) : Option (Ty × Ty) := (p.methods[m]?).map (fun gm => (gm.source, gm.target))

def fieldNames (fs : List (FieldInfo × Ty)) : List S := fs.map (fun (x : FieldInfo × Ty) => x.1.name)

mutual
  /-- `HasTy p c s t`: plan `c` is a structural conversion from type `s` to type `t` (no custom function, no enum,
      no constructor, no update, every list has its `make`, every target field has a same-named source) -/
  inductive HasTy (p : Program) : Conv → Ty → Ty → Prop
    | identBasic {s t k} : under p.conv.env s = .basic k → under p.conv.env t = .basic k → HasTy p .ident s t
    | castBasic {s t k} : under p.conv.env s = .basic k → under p.conv.env t = .basic k → HasTy p (.cast .ident) s t
    | callMethod {s t m w} : sigOf p m = some (s, t) → HasTy p (.call (.method m) [.source] false w) s t
    | ptrPtr {s t se te inner} : under p.conv.env s = .ptr se → under p.conv.env t = .ptr te → HasTy p inner se te →
        HasTy p (.ptrPtr te inner) s t
    | tgtPtr {s t te inner} : (∀ e, under p.conv.env s ≠ .ptr e) → under p.conv.env t = .ptr te → HasTy p inner s te →
        HasTy p (.tgtPtr te inner) s t
    | srcPtr {s t se inner} : under p.conv.env s = .ptr se → (∀ e, under p.conv.env t ≠ .ptr e) → HasTy p inner se t →
        HasTy p (.srcPtr t inner) s t
    | slice {s t se te elem} : under p.conv.env s = .slice se → under p.conv.env t = .slice te → HasTy p elem se te →
        HasTy p (.list te true true elem) s t
    | array {s t n se te elem} : under p.conv.env s = .array n se → under p.conv.env t = .slice te → HasTy p elem se te →
        HasTy p (.list te true false elem) s t
    | mapc {s t sk sv tk tv key val} : under p.conv.env s = .map sk sv → under p.conv.env t = .map tk tv →
        HasTy p key sk tk → HasTy p val sv tv → HasTy p (.mapc tk tv key val) s t
    | structc {s t sfs tfs plans upd} : under p.conv.env s = .struct sfs → under p.conv.env t = .struct tfs →
        (fieldNames tfs.toList).Nodup →
        HasFields p plans sfs.toList tfs.toList → HasTy p (.structc plans upd) s t
  /-- one plan per target field, in declaration order, each fed by the same-named source field -/
  inductive HasFields (p : Program) : FieldPlans → List (FieldInfo × Ty) → List (FieldInfo × Ty) → Prop
    | nil {sfs} : HasFields p .nil sfs []
    | cons {sfs tf tty sf sty cv rest tfs b} :
        sfs.find? (fun (x : FieldInfo × Ty) => x.1.name == tf.name) = some (sf, sty) →
        HasTy p cv sty tty → HasFields p rest sfs tfs →
        HasFields p (.cons (.mapped tf.name [tf.name] [false] false b cv .none) rest) sfs ((tf, tty) :: tfs)
end

/-- every method of the program is a structural conversion of its own signature -/
def ProgOK (p : Program) : Prop :=
  ∀ (m : Nat) (gm : GenMethod), p.methods[m]? = some gm → ∃ c, gm.body = some (Body.convert c) ∧ HasTy p c gm.source gm.target

/-- `WT env v t`: value `v` is a value of type `t` -/
inductive WT (env : TEnv) : Val → Ty → Prop
  | basic {r t k} : under env t = .basic k → WT env (.basic r) t
  | nilPtr {t e} : under env t = .ptr e → WT env .nil t
  | nilSlice {t e} : under env t = .slice e → WT env .nil t
  | nilMap {t k v} : under env t = .map k v → WT env .nil t
  | ptr {l x t e} : under env t = .ptr e → WT env x e → WT env (.ptr l x) t
  | slice {l vs t e} : under env t = .slice e → (∀ v, v ∈ vs → WT env v e) → WT env (.slice l vs) t
  | arr {vs t n e} : under env t = .array n e → (∀ v, v ∈ vs → WT env v e) → WT env (.arr vs) t
  | map {l kvs t k v} : under env t = .map k v → (∀ a b, (a, b) ∈ kvs → WT env a k) → (∀ a b, (a, b) ∈ kvs → WT env b v) →
      WT env (.map l kvs) t
  | struct {fs t tfs} : under env t = .struct tfs →
      (∀ name x f ty, fs.lookup name = some x →
        tfs.toList.find? (fun (y : FieldInfo × Ty) => y.1.name == name) = some (f, ty) → WT env x ty) →
      WT env (.struct fs) t

end Gv.Typing
