/-
Decidable forms of the hypotheses of the C08 composites (distinct member values print differently; which member a runtime
value denotes) and the exact shape of the remaining diagnostics of one target name.
-/
import Gv.Proofs.EnumRun

set_option linter.unusedSimpArgs false

namespace Gv.EnumCheck
open Gv Gv.Str Gv.Gen Gv.Eval Gv.EnumFail Gv.EnumRun

/-- checker: members whose values print alike have the same value -/
def reprInjB (sm : List ConstDecl) : Bool :=
  sm.all (fun a => sm.all (fun b => constRepr a.val != constRepr b.val || a.val == b.val))

theorem reprInjB_sound (sm : List ConstDecl) (h : reprInjB sm = true) :
    ∀ a b, a ∈ sm → b ∈ sm → constRepr a.val = constRepr b.val → a.val = b.val := by
  intro a b ha hb hab
  unfold reprInjB at h
  have := List.all_eq_true.1 (List.all_eq_true.1 h a ha) b hb
  simpa [hab] using this

theorem reprInjB_complete (sm : List ConstDecl)
    (h : ∀ a b, a ∈ sm → b ∈ sm → constRepr a.val = constRepr b.val → a.val = b.val) : reprInjB sm = true := by
  unfold reprInjB
  rw [List.all_eq_true]; intro a ha
  rw [List.all_eq_true]; intro b hb
  by_cases hab : constRepr a.val = constRepr b.val
  · simp [h a b ha hb hab]
  · simp [hab]

/-- the name whose prescription a runtime value follows: the chosen name of the (first) source member printing like the
value, else `enum:unknown` -/
def runName (cx : Ctx) (tmap : List (S × S)) (sm : List ConstDecl) (v : Val) : S :=
  match v with
  | .basic r =>
    (match sm.find? (fun sd => constRepr sd.val == r) with
     | some sd => chooseEnumTarget cx.cfg.enumMap tmap sd.name
     | none => cx.cfg.common.enumUnknown)
  | _ => cx.cfg.common.enumUnknown

/-! ### the diagnostics of one name -/

theorem enumActionDiag_invalid_iff (cx : Ctx) (st : GState) (tm : List ConstDecl) (n : S) :
    enumActionDiag cx st tm n = some .enumInvalidTarget ↔
      Settings.isEnumAction n = true ∧ n ≠ "@ignore".toList ∧ n ≠ "@panic".toList ∧ n ≠ "@error".toList := by
  unfold enumActionDiag
  split
  · rename_i ha
    split
    · rename_i h1; simp [ha, (by simpa using h1 : n = "@ignore".toList)]
    · rename_i h1
      split
      · rename_i h2; simp [ha, (by simpa using h2 : n = "@panic".toList)]
      · rename_i h2
        split
        · rename_i h3
          have e3 : n = "@error".toList := by simpa using h3
          split
          · simp [e3]
          · simp [e3]
          · rename_i e hr
            have := returnError_error cx st e hr
            subst this; simp [e3]
        · rename_i h3
          have e1 : n ≠ "@ignore".toList := by simpa using h1
          have e2 : n ≠ "@panic".toList := by simpa using h2
          have e3 : n ≠ "@error".toList := by simpa using h3
          exact ⟨fun _ => ⟨ha, e1, e2, e3⟩, fun _ => rfl⟩
  · rename_i ha
    split <;> simp [ha]

theorem enumActionDiag_notAllowed_iff (cx : Ctx) (st : GState) (tm : List ConstDecl) (n : S) :
    enumActionDiag cx st tm n = some .enumErrorNotAllowed ↔
      n = "@error".toList ∧ ∃ s1, returnError cx st = .ok (false, s1) := by
  unfold enumActionDiag
  split
  · rename_i ha
    split
    · rename_i h1
      have e : n = "@ignore".toList := by simpa using h1
      subst e; simp
    · split
      · rename_i h2
        have e : n = "@panic".toList := by simpa using h2
        subst e; simp
      · split
        · rename_i h3
          have e3 : n = "@error".toList := by simpa using h3
          split
          · rename_i s1 hr; simp [e3, hr]
          · rename_i s1 hr; simp [e3, hr]
          · rename_i e hr
            have := returnError_error cx st e hr
            subst this; simp [e3, hr]
        · rename_i h3
          have e3 : n ≠ "@error".toList := by simpa using h3
          exact ⟨fun h => (by cases h), fun ⟨h, _⟩ => absurd h e3⟩
  · rename_i ha
    have : n ≠ "@error".toList := by
      intro e; rw [e] at ha; exact absurd ha (by decide)
    split <;> exact ⟨fun h => (by cases h), fun ⟨h, _⟩ => absurd h this⟩

end Gv.EnumCheck
