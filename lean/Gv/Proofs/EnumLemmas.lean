/-
Lemmas about the enum builder model (Gv.Gen.enumCases / enumPlan): used by the C08 theorems.
-/
import Gv.Model.Gen

namespace Gv.EnumLemmas
open Gv Gv.Str Gv.Gen

theorem M_bind_ok {α β} (x : M α) (f : α → M β) (st : GState) (r : β × GState) :
    (x >>= f) st = .ok r ↔ ∃ a st1, x st = .ok (a, st1) ∧ f a st1 = .ok r := by
  show (StateT.bind x f) st = .ok r ↔ _
  unfold StateT.bind
  cases hx : x st with
  | ok v =>
    obtain ⟨a, st1⟩ := v
    simp only [bind, Except.bind]
    constructor
    · intro h; exact ⟨a, st1, rfl, h⟩
    · rintro ⟨a', st1', h1, h2⟩; cases h1; exact h2
  | error e => simp [bind, Except.bind]

theorem M_pure_ok {α} (a : α) (st : GState) (r : α × GState) : (pure a : M α) st = (Except.ok r : Except Diag (α × GState)) ↔ r = (a, st) := by
  show (StateT.pure a) st = Except.ok r ↔ _
  unfold StateT.pure
  simp only [pure, Except.pure]
  constructor
  · intro h; cases h; rfl
  · intro h; rw [h]

theorem M_fail_ok {α} (d : Diag) (st : GState) (r : α × GState) : (fail d : M α) st = (Except.ok r : Except Diag (α × GState)) ↔ False := by
  unfold fail
  simp [throw, throwThe, MonadExceptOf.throw, StateT.lift, bind, Except.bind, liftM, monadLift, MonadLift.monadLift]

/-- the values that already have a case are exactly the values remembered in `seenVals` -/
def Sync (acc : EnumAcc) : Prop := acc.seenVals.map (·.1) = acc.cases.map (·.2.1)

/-- the main loop: earlier cases stay, every processed member's VALUE has a case afterwards -/
theorem enumCases_cover (cx : Ctx) (path : List PathElem) (tm : List ConstDecl) (tmap : List (S × S)) :
    ∀ (l : List ConstDecl) (acc acc' : EnumAcc) (st st' : GState),
      enumCases cx path tm tmap l acc st = .ok (acc', st') → Sync acc →
      Sync acc' ∧ (∀ x, x ∈ acc.cases → x ∈ acc'.cases) ∧ (∀ sd, sd ∈ l → ∃ x, x ∈ acc'.cases ∧ x.2.1 = sd.val) := by
  intro l
  induction l with
  | nil =>
    intro acc acc' st st' h hs
    unfold enumCases at h
    have := (M_pure_ok _ _ _).1 h
    cases this
    exact ⟨hs, fun _ hx => hx, fun _ hsd => by cases hsd⟩
  | cons sd rest ih =>
    intro acc acc' st st' h hs
    unfold enumCases at h
    simp only [] at h
    obtain ⟨act, st1, _hact, h2⟩ := (M_bind_ok _ _ _ _).1 h
    generalize hfind : List.find? (fun (x : ConstVal × S) => x.fst == sd.val) acc.seenVals = o at h2
    cases o with
    | some vp =>
      -- the value was seen before
      obtain ⟨v, prevTarget⟩ := vp
      simp only [] at h2
      split at h2
      · exact absurd h2 (by rw [M_fail_ok]; exact id)
      · obtain ⟨hs', hkeep, hcov⟩ := ih _ acc' st1 st' h2 (by simpa [Sync] using hs)
        refine ⟨hs', hkeep, ?_⟩
        intro sd' hsd'
        rcases List.mem_cons.1 hsd' with rfl | hr
        · have hmem := List.mem_of_find?_eq_some hfind
          have hv : v = sd'.val := by
            have := List.find?_some hfind
            simpa using this
          have : sd'.val ∈ acc.seenVals.map (·.1) := List.mem_map.2 ⟨(v, prevTarget), hmem, hv⟩
          rw [hs] at this
          obtain ⟨x, hx, hxv⟩ := List.mem_map.1 this
          exact ⟨x, hkeep x hx, hxv⟩
        · exact hcov sd' hr
    | none =>
      -- a new value: a case is emitted
      simp only [] at h2
      obtain ⟨hs', hkeep, hcov⟩ := ih _ acc' st1 st' h2 (by simp [Sync] at hs ⊢; exact hs)
      refine ⟨hs', fun x hx => hkeep x (List.mem_append_left _ hx), ?_⟩
      intro sd' hsd'
      rcases List.mem_cons.1 hsd' with rfl | hr
      · exact ⟨_, hkeep _ (List.mem_append_right _ (List.mem_singleton.2 rfl)), rfl⟩
      · exact hcov sd' hr

/-- every emitted case belongs to a source member, and its action is what `enumAction` makes of the name chosen for it -/
theorem enumCases_name_driven (cx : Ctx) (path : List PathElem) (tm : List ConstDecl) (tmap : List (S × S)) :
    ∀ (l : List ConstDecl) (acc acc' : EnumAcc) (st st' : GState),
      enumCases cx path tm tmap l acc st = .ok (acc', st') →
      ∀ x, x ∈ acc'.cases → x ∈ acc.cases ∨
        ∃ sd, sd ∈ l ∧ x.1 = sd.name ∧ x.2.1 = sd.val ∧
          ∃ s1 s2, enumAction cx path tm (chooseEnumTarget cx.cfg.enumMap tmap sd.name) s1 = .ok (x.2.2, s2) := by
  intro l
  induction l with
  | nil =>
    intro acc acc' st st' h x hx
    unfold enumCases at h
    have := (M_pure_ok _ _ _).1 h
    cases this
    exact .inl hx
  | cons sd rest ih =>
    intro acc acc' st st' h x hx
    unfold enumCases at h
    simp only [] at h
    obtain ⟨act, st1, hact, h2⟩ := (M_bind_ok _ _ _ _).1 h
    generalize hfind : List.find? (fun (x : ConstVal × S) => x.fst == sd.val) acc.seenVals = o at h2
    cases o with
    | some vp =>
      obtain ⟨v, prevTarget⟩ := vp
      simp only [] at h2
      split at h2
      · exact absurd h2 (by rw [M_fail_ok]; exact id)
      · rcases ih _ acc' st1 st' h2 x hx with h0 | ⟨sd', hm, h1, h3, h4⟩
        · exact .inl h0
        · exact .inr ⟨sd', List.mem_cons_of_mem _ hm, h1, h3, h4⟩
    | none =>
      simp only [] at h2
      rcases ih _ acc' st1 st' h2 x hx with h0 | ⟨sd', hm, h1, h3, h4⟩
      · rcases List.mem_append.1 h0 with h00 | h01
        · exact .inl h00
        · have := List.mem_singleton.1 h01
          subst this
          exact .inr ⟨sd, List.mem_cons_self, rfl, rfl, st, st1, hact⟩
      · exact .inr ⟨sd', List.mem_cons_of_mem _ hm, h1, h3, h4⟩

/-- the enum:map keys not met by any member survive the loop -/
theorem enumCases_remaining (cx : Ctx) (path : List PathElem) (tm : List ConstDecl) (tmap : List (S × S)) :
    ∀ (l : List ConstDecl) (acc acc' : EnumAcc) (st st' : GState),
      enumCases cx path tm tmap l acc st = .ok (acc', st') →
      ∀ k, k ∈ acc.remaining → (∀ sd, sd ∈ l → sd.name ≠ k) → k ∈ acc'.remaining := by
  intro l
  induction l with
  | nil =>
    intro acc acc' st st' h k hk _
    unfold enumCases at h
    have := (M_pure_ok _ _ _).1 h
    cases this
    exact hk
  | cons sd rest ih =>
    intro acc acc' st st' h k hk hne
    unfold enumCases at h
    simp only [] at h
    obtain ⟨act, st1, _, h2⟩ := (M_bind_ok _ _ _ _).1 h
    have hk' : k ∈ acc.remaining.filter (· != sd.name) := by
      refine List.mem_filter.2 ⟨hk, ?_⟩
      have := hne sd List.mem_cons_self
      simpa [bne_iff_ne] using fun h => this h.symm
    generalize hfind : List.find? (fun (x : ConstVal × S) => x.fst == sd.val) acc.seenVals = o at h2
    cases o with
    | some vp =>
      obtain ⟨v, prevTarget⟩ := vp
      simp only [] at h2
      split at h2
      · exact absurd h2 (by rw [M_fail_ok]; exact id)
      · exact ih _ acc' st1 st' h2 k hk' (fun sd' hm => hne sd' (List.mem_cons_of_mem _ hm))
    | none =>
      simp only [] at h2
      exact ih _ acc' st1 st' h2 k hk' (fun sd' hm => hne sd' (List.mem_cons_of_mem _ hm))

end Gv.EnumLemmas
