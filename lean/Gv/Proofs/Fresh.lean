/-
Freshness (C04, composite): the locations of the result of a checked structural plan are all allocated during the
call, each exactly once — so the result shares no reference cell with the source (nor with itself).
-/
import Gv.Proofs.StructuralSound

namespace Gv.Sound
open Gv Gv.Str Gv.Eval Gv.Typing

/-- the identities of all reference cells (pointer targets, slice backing arrays, maps) of a value; `Loc.none`
(empty allocations, which have no identity) is left out -/
def allLocs : Val → List Loc
  | .basic _ => []
  | .nil => []
  | .ptr l v => (if l == .none then [] else [l]) ++ allLocs v
  | .slice l vs => (if l == .none then [] else [l]) ++ locsList vs
  | .arr vs => locsList vs
  | .map l kvs => (if l == .none then [] else [l]) ++ locsEntries kvs
  | .struct fs => locsFields fs
  | .tok _ as => locsList as
  | .absent => []
where
  locsList : List Val → List Loc
    | [] => []
    | v :: vs => allLocs v ++ locsList vs
  locsEntries : List (Val × Val) → List Loc
    | [] => []
    | (k, v) :: r => allLocs k ++ allLocs v ++ locsEntries r
  locsFields : List (S × Val) → List Loc
    | [] => []
    | (_, v) :: r => allLocs v ++ locsFields r

theorem locsList_replicate_nil (n : Nat) (v : Val) (h : allLocs v = []) : allLocs.locsList (List.replicate n v) = [] := by
  induction n with
  | zero => simp [List.replicate, allLocs.locsList]
  | succ m ihm => simp [List.replicate, allLocs.locsList, h, ihm]

/-- zero values contain no reference cells -/
theorem allLocs_zeroVal (env : TEnv) : ∀ (k : Nat) (t : Ty), allLocs (zeroVal env k t) = [] := by
  intro k
  induction k with
  | zero =>
    intro t
    unfold zeroVal
    split <;> simp [allLocs, allLocs.locsFields]
  | succ k ih =>
    intro t
    unfold zeroVal
    split
    · simp [allLocs]
    · rename_i n e _
      simp only [allLocs]
      exact locsList_replicate_nil n _ (ih e)
    · rename_i fs _
      simp only [allLocs]
      generalize fs.toList = l
      induction l with
      | nil => unfold zeroVal.zeroFields; simp [allLocs.locsFields]
      | cons a l ihl =>
        obtain ⟨f, ty⟩ := a
        unfold zeroVal.zeroFields
        simp [allLocs.locsFields, ih ty, ihl]
    · simp [allLocs]

/-- `ls` are locations allocated in the counter interval `[n, n')`, each once -/
def AllocL (n n' : Nat) (ls : List Loc) : Prop :=
  n ≤ n' ∧ (∀ l, l ∈ ls → ∃ k, l = .fresh k ∧ n ≤ k ∧ k < n') ∧ ls.Nodup

theorem allocL_nil (n : Nat) : AllocL n n [] := ⟨Nat.le_refl _, by simp, List.nodup_nil⟩

theorem allocL_append {n n1 n2 : Nat} {a b : List Loc} (ha : AllocL n n1 a) (hb : AllocL n1 n2 b) : AllocL n n2 (a ++ b) := by
  obtain ⟨h1, h2, h3⟩ := ha
  obtain ⟨g1, g2, g3⟩ := hb
  refine ⟨Nat.le_trans h1 g1, ?_, ?_⟩
  · intro l hl
    rcases List.mem_append.1 hl with h | h
    · obtain ⟨k, rfl, hk1, hk2⟩ := h2 l h
      exact ⟨k, rfl, hk1, Nat.lt_of_lt_of_le hk2 g1⟩
    · obtain ⟨k, rfl, hk1, hk2⟩ := g2 l h
      exact ⟨k, rfl, Nat.le_trans h1 hk1, hk2⟩
  · rw [List.nodup_append]
    refine ⟨h3, g3, ?_⟩
    intro x hx y hy hxy
    obtain ⟨k, rfl, _, hk2⟩ := h2 x hx
    obtain ⟨k', rfl, hk1', _⟩ := g2 y hy
    cases hxy
    omega

theorem allocL_fresh (n : Nat) : AllocL n (n + 1) [Loc.fresh n] :=
  ⟨Nat.le_succ _, by intro l hl; simp at hl; exact ⟨n, hl, Nat.le_refl _, Nat.lt_succ_self _⟩, by simp⟩

theorem allocL_weaken {n n1 n2 : Nat} {a : List Loc} (ha : AllocL n n1 a) (h : n1 ≤ n2) : AllocL n n2 a := by
  have := allocL_append ha (⟨h, by simp, List.nodup_nil⟩ : AllocL n1 n2 [])
  simpa using this

theorem fresh_ne_none (k : Nat) : (Loc.fresh k == Loc.none) = false := by
  cases h : (Loc.fresh k == Loc.none) with
  | false => rfl
  | true => simp at h

/-- the cell allocated after its contents -/
theorem allocL_perm_cons {n n1 : Nat} {a : List Loc} (ha : AllocL n n1 a) : AllocL n (n1 + 1) ([Loc.fresh n1] ++ a) := by
  obtain ⟨h1, h2, h3⟩ := ha
  refine ⟨Nat.le_succ_of_le h1, ?_, ?_⟩
  · intro l hl
    simp at hl
    rcases hl with rfl | hl
    · exact ⟨n1, rfl, h1, Nat.lt_succ_self _⟩
    · obtain ⟨k, rfl, hk1, hk2⟩ := h2 l hl
      exact ⟨k, rfl, hk1, Nat.lt_succ_of_lt hk2⟩
  · simp only [List.singleton_append, List.nodup_cons]
    refine ⟨?_, h3⟩
    intro hmem
    obtain ⟨k, hk, _, hk2⟩ := h2 _ hmem
    cases hk
    omega

/-! ### the statements, by fuel -/

def FConv (p : Program) (fuel : Nat) : Prop :=
  ∀ (fr : Frame) (c : Conv) (s t : Ty) (v old : Val) (n : Nat) (v' : Val) (n' : Nat),
    HasTy p c s t → WT p.conv.env v s → OldZ p.conv.env old t →
    evalConv p fuel fr c v old n = .ok (v', n') → AllocL n n' (allLocs v')

def FCall (p : Program) (fuel : Nat) : Prop :=
  ∀ (m : Nat) (s t : Ty) (v : Val) (cs : List Val) (n : Nat) (v' : Val) (n' : Nat),
    sigOf p m = some (s, t) → WT p.conv.env v s →
    callMethod p fuel m v cs n = .ok (v', n') → AllocL n n' (allLocs v')

def FElems (p : Program) (fuel : Nat) : Prop :=
  ∀ (fr : Frame) (elem : Conv) (se te : Ty) (vs : List Val) (i n : Nat) (out : List Val) (n' : Nat),
    HasTy p elem se te → (∀ v, v ∈ vs → WT p.conv.env v se) →
    evalElems p fuel fr te elem vs i n = .ok (out, n') → AllocL n n' (allLocs.locsList out)

def FEntries (p : Program) (fuel : Nat) : Prop :=
  ∀ (fr : Frame) (key val : Conv) (sk sv tk tv : Ty) (kvs : List (Val × Val)) (n : Nat) (out : List (Val × Val)) (n' : Nat),
    HasTy p key sk tk → HasTy p val sv tv →
    (∀ a b, (a, b) ∈ kvs → WT p.conv.env a sk) → (∀ a b, (a, b) ∈ kvs → WT p.conv.env b sv) →
    evalEntries p fuel fr tk tv key val kvs n = .ok (out, n') → AllocL n n' (allLocs.locsEntries out)

def FFields (p : Program) (fuel : Nat) : Prop :=
  ∀ (fr : Frame) (plans : FieldPlans) (sfs tfs : List (FieldInfo × Ty)) (fs done rest : List (S × Val)) (n : Nat) (v' : Val) (n' : Nat),
    HasFields p plans sfs tfs →
    (∀ name x f ty, fs.lookup name = some x →
      sfs.find? (fun (y : FieldInfo × Ty) => y.1.name == name) = some (f, ty) → WT p.conv.env x ty) →
    (fieldNames tfs).Nodup →
    (∀ nm, nm ∈ fieldNames tfs → nm ∉ done.map (·.1)) →
    (rest = [] ∨ ∃ k, rest = zeroVal.zeroFields p.conv.env k tfs) →
    evalFields p fuel fr plans (.struct fs) (.struct (done ++ rest)) n = .ok (v', n') →
    ∃ ws, v' = .struct (done ++ ws) ∧ AllocL n n' (allLocs.locsFields ws)

theorem fCall_step (p : Program) (hp : ProgOK p) (fuel : Nat) (ih : FConv p fuel) : FCall p (fuel + 1) := by
  intro m s t v cs n v' n' hsig hwt hev
  unfold callMethod at hev
  unfold sigOf at hsig
  cases hm : p.methods[m]? with
  | none => simp [hm] at hsig
  | some gm =>
    simp [hm] at hsig
    obtain ⟨hs, ht⟩ := hsig
    obtain ⟨c, hb, hty⟩ := hp m gm hm
    simp only [hm, hb] at hev
    subst hs; subst ht
    exact ih _ c _ _ v _ n v' n' hty hwt (.inr ⟨64, rfl⟩) hev

theorem fElems_step (p : Program) (fuel : Nat) (ihc : FConv p fuel) (ihe : FElems p fuel) : FElems p (fuel + 1) := by
  intro fr elem se te vs i n out n' hty hwt hev
  cases vs with
  | nil =>
    unfold evalElems at hev
    have := (E_pure_ok _ _ _).1 hev
    cases this
    exact allocL_nil n
  | cons v vs =>
    unfold evalElems at hev
    obtain ⟨x, n1, h1, h2⟩ := (E_bind_ok _ _ _ _).1 hev
    obtain ⟨r, n2, h3, h4⟩ := (E_bind_ok _ _ _ _).1 h2
    have := (E_pure_ok _ _ _).1 h4
    cases this
    have hx := ihc _ elem se te v _ n x n1 hty (hwt v (List.mem_cons_self ..)) (.inr ⟨64, rfl⟩) h1
    have hr := ihe fr elem se te vs (i + 1) n1 r _ hty (fun w hw => hwt w (List.mem_cons_of_mem _ hw)) h3
    exact allocL_append hx hr

theorem fEntries_step (p : Program) (fuel : Nat) (ihc : FConv p fuel) (ihe : FEntries p fuel) : FEntries p (fuel + 1) := by
  intro fr key val sk sv tk tv kvs n out n' hk hv hwk hwv hev
  cases kvs with
  | nil =>
    unfold evalEntries at hev
    have := (E_pure_ok _ _ _).1 hev
    cases this
    exact allocL_nil n
  | cons e kvs =>
    obtain ⟨a, b⟩ := e
    unfold evalEntries at hev
    obtain ⟨k', n1, h1, h2⟩ := (E_bind_ok _ _ _ _).1 hev
    obtain ⟨v', n2, h3, h4⟩ := (E_bind_ok _ _ _ _).1 h2
    obtain ⟨more, n3, h5, h6⟩ := (E_bind_ok _ _ _ _).1 h4
    have := (E_pure_ok _ _ _).1 h6
    cases this
    have hka := ihc _ key sk tk a _ n k' n1 hk (hwk a b (List.mem_cons_self ..)) (.inr ⟨64, rfl⟩) h1
    have hvb := ihc _ val sv tv b _ n1 v' n2 hv (hwv a b (List.mem_cons_self ..)) (.inr ⟨64, rfl⟩) h3
    have hr := ihe fr key val sk sv tk tv kvs n2 more _ hk hv
      (fun x y h => hwk x y (List.mem_cons_of_mem _ h)) (fun x y h => hwv x y (List.mem_cons_of_mem _ h)) h5
    show AllocL n _ (allLocs k' ++ allLocs v' ++ allLocs.locsEntries more)
    exact allocL_append (allocL_append hka hvb) hr

theorem fFields_step (p : Program) (fuel : Nat) (ihc : FConv p fuel) (ihf : FFields p fuel) : FFields p (fuel + 1) := by
  intro fr plans sfs tfs fs done rest n v' n' hty hwt hnd hdone hrest hev
  cases hty with
  | nil =>
    unfold evalFields at hev
    have := (E_pure_ok _ _ _).1 hev
    cases this
    have hr : rest = [] := by
      rcases hrest with h | ⟨k, h⟩
      · exact h
      · rw [h]; unfold zeroVal.zeroFields; rfl
    subst hr
    exact ⟨[], rfl, allocL_nil n⟩
  | @cons _ tf tty sf sty cv plans' tfs' b hfind hcv hrestTy =>
    unfold evalFields at hev
    simp only [] at hev
    -- the walk along the one-element path
    have hwalk : walk [tf.name] [false] (.struct fs) =
        (match fs.lookup tf.name with | some x => .ok (some x) | none => .stuck "walk: no such field") := by
      unfold walk
      simp only [fieldOf, Bool.false_eq_true, if_false]
      cases fs.lookup tf.name with
      | none => rfl
      | some x => simp [walk]
    rw [hwalk] at hev
    cases hx : fs.lookup tf.name with
    | none => simp [hx] at hev
    | some x =>
      simp only [hx] at hev
      have hnd' : tf.name ∉ fieldNames tfs' ∧ (fieldNames tfs').Nodup := by
        simpa [fieldNames] using hnd
      have hnotdone : tf.name ∉ done.map (·.1) := hdone _ (by simp [fieldNames])
      -- the previous value of the field
      have hold : (Val.struct (done ++ rest)).isAbsent = false := rfl
      have hlook : fieldOf (.struct (done ++ rest)) tf.name = rest.lookup tf.name := by
        simp [fieldOf, lookup_append_notin done rest tf.name hnotdone]
      have holdZ : OldZ p.conv.env ((rest.lookup tf.name).getD .nil) tty := by
        rcases hrest with h | ⟨k, h⟩
        · subst h; exact .inl rfl
        · subst h
          unfold zeroVal.zeroFields
          simp [List.lookup]
          exact .inr ⟨k, rfl⟩
      simp only [hold, hlook, Bool.false_and, if_false, Bool.false_eq_true] at hev
      have hz : (ZeroCheck.none == ZeroCheck.check) = false := by decide
      simp only [hz, Bool.false_and, if_false, Bool.false_eq_true] at hev
      cases hc : evalConv p fuel { fr with parent := none } cv x
          ((rest.lookup tf.name).getD .nil) n with
      | err e => simp [hc] at hev
      | panic k => simp [hc] at hev
      | stuck w => simp [hc] at hev
      | ok r =>
        obtain ⟨nv, n1⟩ := r
        simp [hc] at hev
        have himg := ihc _ cv sty tty x _ n nv n1 hcv (hwt _ _ _ _ hx hfind) holdZ hc
        -- the struct after the assignment
        have hset : ∃ rest', setField (.struct (done ++ rest)) tf.name nv = .struct ((done ++ [(tf.name, nv)]) ++ rest') ∧
            (rest' = [] ∨ ∃ k, rest' = zeroVal.zeroFields p.conv.env k tfs') := by
          rcases hrest with h | ⟨k, h⟩
          · subst h
            refine ⟨[], ?_, .inl rfl⟩
            simp only [List.append_nil]
            exact setField_done done tf.name nv hnotdone
          · subst h
            refine ⟨zeroVal.zeroFields p.conv.env k tfs', ?_, .inr ⟨k, rfl⟩⟩
            have : zeroVal.zeroFields p.conv.env k ((tf, tty) :: tfs') =
                (tf.name, zeroVal p.conv.env k tty) :: zeroVal.zeroFields p.conv.env k tfs' := by
              conv => lhs; unfold zeroVal.zeroFields
            rw [this]
            apply setField_head
            · exact hnotdone
            · rw [zeroFields_names]; exact hnd'.1
        obtain ⟨rest', hset, hrest'⟩ := hset
        rw [hset] at hev
        have hdone' : ∀ nm, nm ∈ fieldNames tfs' → nm ∉ (done ++ [(tf.name, nv)]).map (·.1) := by
          intro nm hnm hmem
          simp at hmem
          rcases hmem with ⟨v0, hm⟩ | hm
          · exact hdone nm (by simp [fieldNames] at hnm ⊢; exact .inr hnm) (by simp; exact ⟨v0, hm⟩)
          · subst hm; exact hnd'.1 hnm
        obtain ⟨ws, hv', hws⟩ := ihf fr plans' sfs tfs' fs (done ++ [(tf.name, nv)]) rest' n1 v' n' hrestTy hwt hnd'.2 hdone' hrest' hev
        refine ⟨(tf.name, nv) :: ws, by simpa using hv', ?_⟩
        show AllocL n n' (allLocs nv ++ allLocs.locsFields ws)
        exact allocL_append himg hws


theorem fConv_step (p : Program) (fuel : Nat) (ihc : FConv p fuel) (ihm : FCall p fuel) (ihe : FElems p fuel)
    (ihn : FEntries p fuel) (ihf : FFields p fuel) : FConv p (fuel + 1) := by
  intro fr c s t v old n v' n' hty hwt hold hev
  cases hty with
  | identBasic hs ht =>
    unfold evalConv at hev
    have := (E_pure_ok _ _ _).1 hev
    cases this
    obtain ⟨r, rfl⟩ := wt_basic_inv hwt hs
    exact allocL_nil n
  | castBasic hs ht =>
    unfold evalConv at hev
    exact ihc _ .ident s t v old n v' n' (.identBasic hs ht) hwt hold hev
  | @callMethod _ _ m w hsig =>
    unfold evalConv at hev
    simp [List.filterMapM, List.filterMapM.loop] at hev
    obtain ⟨argVals, n1, h1, h2⟩ := (E_bind_ok _ _ _ _).1 hev
    obtain ⟨o, n2, h3, h4⟩ := (E_bind_ok _ _ _ _).1 h1
    have := (E_pure_ok _ _ _).1 h3
    cases this
    have := (E_pure_ok _ _ _).1 h4
    cases this
    cases hcm : callMethod p fuel m v [] n with
    | ok r =>
      obtain ⟨rv, rn⟩ := r
      rw [hcm] at h2
      cases h2
      exact ihm m s t v [] n v' n' hsig hwt hcm
    | err e => rw [hcm] at h2; cases h2
    | panic k => rw [hcm] at h2; cases h2
    | stuck w => rw [hcm] at h2; cases h2
  | @ptrPtr _ _ se te inner hs ht hin =>
    unfold evalConv at hev
    rcases wt_ptr_inv hwt hs with rfl | ⟨l, x, rfl, hx⟩
    · have := (E_pure_ok _ _ _).1 hev
      cases this
      rw [oldZ_ptr hold ht]
      exact allocL_nil n
    · obtain ⟨v0, n1, h1, h2⟩ := (E_bind_ok _ _ _ _).1 hev
      obtain ⟨l0, n2, h3, h4⟩ := (E_bind_ok _ _ _ _).1 h2
      have := (E_pure_ok _ _ _).1 h4
      cases this
      have := ihc _ inner se te x _ n v0 n1 hin hx (.inr ⟨64, rfl⟩) h1
      have hl0 : l0 = .fresh n1 ∧ n' = n1 + 1 := by
        have := h3; rw [freshLoc_ok] at this; cases this; exact ⟨rfl, rfl⟩
      obtain ⟨rfl, rfl⟩ := hl0
      show AllocL n (n1 + 1) ((if (Loc.fresh n1 == Loc.none) = true then [] else [Loc.fresh n1]) ++ allLocs v0)
      have hne : (Loc.fresh n1 == Loc.none) = false := fresh_ne_none n1
      rw [hne]
      simp only [Bool.false_eq_true, if_false]
      exact allocL_perm_cons this
  | @tgtPtr _ _ te inner hs ht hin =>
    unfold evalConv at hev
    obtain ⟨v0, n1, h1, h2⟩ := (E_bind_ok _ _ _ _).1 hev
    obtain ⟨l0, n2, h3, h4⟩ := (E_bind_ok _ _ _ _).1 h2
    have := (E_pure_ok _ _ _).1 h4
    cases this
    have := ihc _ inner s te v _ n v0 n1 hin hwt (.inr ⟨64, rfl⟩) h1
    have hl0 : l0 = .fresh n1 ∧ n' = n1 + 1 := by
      have := h3; rw [freshLoc_ok] at this; cases this; exact ⟨rfl, rfl⟩
    obtain ⟨rfl, rfl⟩ := hl0
    show AllocL n (n1 + 1) ((if (Loc.fresh n1 == Loc.none) = true then [] else [Loc.fresh n1]) ++ allLocs v0)
    have hne : (Loc.fresh n1 == Loc.none) = false := fresh_ne_none n1
    rw [hne]
    simp only [Bool.false_eq_true, if_false]
    exact allocL_perm_cons this
  | @srcPtr _ _ se inner hs ht hin =>
    unfold evalConv at hev
    rcases wt_ptr_inv hwt hs with rfl | ⟨l, x, rfl, hx⟩
    · have := (E_pure_ok _ _ _).1 hev
      cases this
      rcases hold with h | ⟨k, h⟩
      · subst h; exact allocL_nil n
      · subst h; rw [allLocs_zeroVal]; exact allocL_nil n
    · exact ihc _ inner se t x _ n v' n' hin hx (.inr ⟨64, rfl⟩) hev
  | @slice _ _ se te elem hs ht hel =>
    unfold evalConv at hev
    rcases wt_slice_inv hwt hs with rfl | ⟨l, vs, rfl, hvs⟩
    · simp only [if_true] at hev
      have := (E_pure_ok _ _ _).1 hev
      cases this
      rw [oldZ_slice hold ht]
      exact allocL_nil n
    · simp only [if_true] at hev
      obtain ⟨out, n1, h1, h2⟩ := (E_bind_ok _ _ _ _).1 hev
      have himg := ihe fr elem se te vs 0 n out n1 hel hvs h1
      cases hvsE : vs.isEmpty with
      | true =>
        rw [hvsE] at h2
        simp only [if_true] at h2
        have := (E_pure_ok _ _ _).1 h2
        cases this
        have hvs0 : vs = [] := by simpa using hvsE
        subst hvs0
        exact ⟨himg.1, by intro l hl; simp [allLocs, allLocs.locsList] at hl, by simp [allLocs, allLocs.locsList]⟩
      | false =>
        rw [hvsE] at h2
        simp only [Bool.false_eq_true, if_false] at h2
        obtain ⟨l0, n2, h3, h4⟩ := (E_bind_ok _ _ _ _).1 h2
        have := (E_pure_ok _ _ _).1 h4
        cases this
        have hl0 : l0 = .fresh n1 ∧ n' = n1 + 1 := by
          have := h3; rw [freshLoc_ok] at this; cases this; exact ⟨rfl, rfl⟩
        obtain ⟨rfl, rfl⟩ := hl0
        show AllocL n (n1 + 1) ((if (Loc.fresh n1 == Loc.none) = true then [] else [Loc.fresh n1]) ++ allLocs.locsList out)
        have hne : (Loc.fresh n1 == Loc.none) = false := fresh_ne_none n1
        rw [hne]
        simp only [Bool.false_eq_true, if_false]
        exact allocL_perm_cons himg
  | @array _ _ k se te elem hs ht hel =>
    unfold evalConv at hev
    obtain ⟨vs, rfl, hvs⟩ := wt_array_inv hwt hs
    simp only [if_true] at hev
    obtain ⟨out, n1, h1, h2⟩ := (E_bind_ok _ _ _ _).1 hev
    have himg := ihe fr elem se te vs 0 n out n1 hel hvs h1
    cases hvsE : vs.isEmpty with
    | true =>
      rw [hvsE] at h2
      simp only [if_true] at h2
      have := (E_pure_ok _ _ _).1 h2
      cases this
      have hvs0 : vs = [] := by simpa using hvsE
      subst hvs0
      exact ⟨himg.1, by intro l hl; simp [allLocs, allLocs.locsList] at hl, by simp [allLocs, allLocs.locsList]⟩
    | false =>
      rw [hvsE] at h2
      simp only [Bool.false_eq_true, if_false] at h2
      obtain ⟨l0, n2, h3, h4⟩ := (E_bind_ok _ _ _ _).1 h2
      have := (E_pure_ok _ _ _).1 h4
      cases this
      have hl0 : l0 = .fresh n1 ∧ n' = n1 + 1 := by
        have := h3; rw [freshLoc_ok] at this; cases this; exact ⟨rfl, rfl⟩
      obtain ⟨rfl, rfl⟩ := hl0
      show AllocL n (n1 + 1) ((if (Loc.fresh n1 == Loc.none) = true then [] else [Loc.fresh n1]) ++ allLocs.locsList out)
      have hne : (Loc.fresh n1 == Loc.none) = false := fresh_ne_none n1
      rw [hne]
      simp only [Bool.false_eq_true, if_false]
      exact allocL_perm_cons himg
  | @mapc _ _ sk sv tk tv key val hs ht hk hv =>
    unfold evalConv at hev
    rcases wt_map_inv hwt hs with rfl | ⟨l, kvs, rfl, hwk, hwv⟩
    · have := (E_pure_ok _ _ _).1 hev
      cases this
      rw [oldZ_map hold ht]
      exact allocL_nil n
    · obtain ⟨out, n1, h1, h2⟩ := (E_bind_ok _ _ _ _).1 hev
      obtain ⟨l0, n2, h3, h4⟩ := (E_bind_ok _ _ _ _).1 h2
      have := (E_pure_ok _ _ _).1 h4
      cases this
      have himg := ihn fr key val sk sv tk tv kvs n out n1 hk hv hwk hwv h1
      have hl0 : l0 = .fresh n1 ∧ n' = n1 + 1 := by
        have := h3; rw [freshLoc_ok] at this; cases this; exact ⟨rfl, rfl⟩
      obtain ⟨rfl, rfl⟩ := hl0
      show AllocL n (n1 + 1) ((if (Loc.fresh n1 == Loc.none) = true then [] else [Loc.fresh n1]) ++ allLocs.locsEntries out)
      have hne : (Loc.fresh n1 == Loc.none) = false := fresh_ne_none n1
      rw [hne]
      simp only [Bool.false_eq_true, if_false]
      exact allocL_perm_cons himg
  | @structc _ _ sfs tfs plans upd hs ht hnd hfs =>
    unfold evalConv at hev
    obtain ⟨fs, rfl, hfwt⟩ := wt_struct_inv hwt hs
    -- the previous value, normalised: a struct without fields, or the zero struct
    have hshape : ∃ rest, normStruct old = .struct rest ∧
        (rest = [] ∨ ∃ k, rest = zeroVal.zeroFields p.conv.env k tfs.toList) := by
      rcases hold with h | ⟨k, h⟩
      · subst h; exact ⟨[], rfl, .inl rfl⟩
      · obtain ⟨rest, hz, hr⟩ := zeroVal_struct_shape (env := p.conv.env) k ht
        rw [h, hz]; exact ⟨rest, rfl, hr⟩
    obtain ⟨rest, hnorm, hrest⟩ := hshape
    rw [hnorm] at hev
    obtain ⟨ws, hv', hws⟩ := ihf fr plans sfs.toList tfs.toList fs [] rest n v' n' hfs hfwt hnd (by simp) hrest (by simpa using hev)
    subst hv'
    show AllocL n n' (allLocs.locsFields ([] ++ ws))
    simp only [List.nil_append]
    exact hws


/-! ### all fuels -/

theorem fresh_all (p : Program) (hp : ProgOK p) :
    ∀ fuel, FConv p fuel ∧ FCall p fuel ∧ FElems p fuel ∧ FEntries p fuel ∧ FFields p fuel := by
  intro fuel
  induction fuel with
  | zero =>
    refine ⟨?_, ?_, ?_, ?_, ?_⟩
    · intro fr c s t v old n v' n' _ _ _ hev; unfold evalConv at hev; cases hev
    · intro m s t v cs n v' n' _ _ hev; unfold callMethod at hev; cases hev
    · intro fr elem se te vs i n out n' _ _ hev; unfold evalElems at hev; cases hev
    · intro fr key val sk sv tk tv kvs n out n' _ _ _ _ hev; unfold evalEntries at hev; cases hev
    · intro fr plans sfs tfs fs done rest n v' n' _ _ _ _ _ hev; unfold evalFields at hev; cases hev
  | succ fuel ih =>
    obtain ⟨ihc, ihm, ihe, ihn, ihf⟩ := ih
    exact ⟨fConv_step p fuel ihc ihm ihe ihn ihf, fCall_step p hp fuel ihc, fElems_step p fuel ihc ihe,
      fEntries_step p fuel ihc ihn, fFields_step p fuel ihc ihf⟩

/-- **Freshness** (C04, composite): every reference cell of the result of a method of a structural program was allocated
during the call (counter interval `[n, n')`), and no cell occurs twice. -/
theorem callMethod_fresh (p : Program) (hp : ProgOK p) (fuel m : Nat) (s t : Ty) (v : Val) (n : Nat) (v' : Val) (n' : Nat)
    (hsig : sigOf p m = some (s, t)) (hwt : WT p.conv.env v s) (hev : callMethod p fuel m v [] n = .ok (v', n')) :
    AllocL n n' (allLocs v') :=
  (fresh_all p hp fuel).2.1 m s t v [] n v' n' hsig hwt hev

end Gv.Sound
