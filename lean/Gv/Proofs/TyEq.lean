/- `Ty.beq` decides equality. -/
import Gv.Model.Types

namespace Gv
open Gv.Str

mutual
  theorem Ty.eq_of_beq : ∀ (a b : Ty), Ty.beq a b = true → a = b
    | .basic a, .basic b, h => by unfold Ty.beq at h; simp at h; rw [h]
    | .named a, .named b, h => by unfold Ty.beq at h; simp at h; rw [h]
    | .ptr a, .ptr b, h => by unfold Ty.beq at h; rw [Ty.eq_of_beq a b h]
    | .slice a, .slice b, h => by unfold Ty.beq at h; rw [Ty.eq_of_beq a b h]
    | .array n a, .array m b, h => by
      unfold Ty.beq at h; simp at h; rw [h.1, Ty.eq_of_beq a b h.2]
    | .map k v, .map k' v', h => by
      unfold Ty.beq at h; simp at h; rw [Ty.eq_of_beq k k' h.1, Ty.eq_of_beq v v' h.2]
    | .struct a, .struct b, h => by unfold Ty.beq at h; rw [Fields.eq_of_beq a b h]
    | .opaque k s, .opaque k' s', h => by unfold Ty.beq at h; simp at h; rw [h.1, h.2]
    | .basic _, .named _, h | .basic _, .ptr _, h | .basic _, .slice _, h | .basic _, .array _ _, h | .basic _, .map _ _, h
    | .basic _, .struct _, h | .basic _, .opaque _ _, h => by simp [Ty.beq] at h
    | .named _, .basic _, h | .named _, .ptr _, h | .named _, .slice _, h | .named _, .array _ _, h | .named _, .map _ _, h
    | .named _, .struct _, h | .named _, .opaque _ _, h => by simp [Ty.beq] at h
    | .ptr _, .basic _, h | .ptr _, .named _, h | .ptr _, .slice _, h | .ptr _, .array _ _, h | .ptr _, .map _ _, h
    | .ptr _, .struct _, h | .ptr _, .opaque _ _, h => by simp [Ty.beq] at h
    | .slice _, .basic _, h | .slice _, .named _, h | .slice _, .ptr _, h | .slice _, .array _ _, h | .slice _, .map _ _, h
    | .slice _, .struct _, h | .slice _, .opaque _ _, h => by simp [Ty.beq] at h
    | .array _ _, .basic _, h | .array _ _, .named _, h | .array _ _, .ptr _, h | .array _ _, .slice _, h | .array _ _, .map _ _, h
    | .array _ _, .struct _, h | .array _ _, .opaque _ _, h => by simp [Ty.beq] at h
    | .map _ _, .basic _, h | .map _ _, .named _, h | .map _ _, .ptr _, h | .map _ _, .slice _, h | .map _ _, .array _ _, h
    | .map _ _, .struct _, h | .map _ _, .opaque _ _, h => by simp [Ty.beq] at h
    | .struct _, .basic _, h | .struct _, .named _, h | .struct _, .ptr _, h | .struct _, .slice _, h | .struct _, .array _ _, h
    | .struct _, .map _ _, h | .struct _, .opaque _ _, h => by simp [Ty.beq] at h
    | .opaque _ _, .basic _, h | .opaque _ _, .named _, h | .opaque _ _, .ptr _, h | .opaque _ _, .slice _, h
    | .opaque _ _, .array _ _, h | .opaque _ _, .map _ _, h | .opaque _ _, .struct _, h => by simp [Ty.beq] at h
  theorem Fields.eq_of_beq : ∀ (a b : Fields), Fields.beq a b = true → a = b
    | .nil, .nil, _ => rfl
    | .cons f t r, .cons f' t' r', h => by
      unfold Fields.beq at h; simp at h
      rw [h.1.1, Ty.eq_of_beq t t' h.1.2, Fields.eq_of_beq r r' h.2]
    | .nil, .cons _ _ _, h => by simp [Fields.beq] at h
    | .cons _ _ _, .nil, h => by simp [Fields.beq] at h
end

theorem Ty.eq_of_beq' {a b : Ty} (h : (a == b) = true) : a = b := Ty.eq_of_beq a b h

end Gv
