/-
Every occurrence of a pair that has an extend function / a declared method is a call of it (C06, over whole plans).

`CustomCheck.customsFirst p` is a decidable check on the plans (Gv/Model/CustomCheck.lean; the plans of `Gv.Gen` pass it).
`Child` is one step of the typed descent through a plan (pointer, list, map, struct field, … positions with their types),
`Occ` its transitive closure, `Root` the root position of a method body.  Under the check, the node at every position
strictly below a root whose pair has an extend function IS the call of that function with the declared argument roles
(resp. the call of the declared method), and such a node evaluates to the function's result on the value at that position
and the method's context arguments of the declared types in declared order.
-/
import Gv.Model.CustomCheck
import Gv.Proofs.TyEq
import Gv.Proofs.EvalLemmas

namespace Gv.Sound
open Gv Gv.Str Gv.Eval Gv.CustomCheck

/-- plan `f` is the plan of target field `tf : tty` (plans and target fields are paired in declaration order) -/
inductive FieldAt : FieldPlans → List (FieldInfo × Ty) → FieldPlan → FieldInfo → Ty → Prop
  | here {f rest tf tty tfs} : FieldAt (.cons f rest) ((tf, tty) :: tfs) f tf tty
  | there {f rest x tfs f' tf' tty'} : FieldAt rest tfs f' tf' tty' → FieldAt (.cons f rest) (x :: tfs) f' tf' tty'

/-- `Child p gm c s t c' s' t'`: node `c` converting `s` to `t` has, one step below, the conversion position `c'` from
`s'` to `t'` (the positions `Gen.noLookup` / `structFields` hand to `Gen.conv`) -/
inductive Child (p : Program) (gm : GenMethod) : Conv → Ty → Ty → Conv → Ty → Ty → Prop
  | underlying {cs ct inner s t} :
      Child p gm (.underlying cs ct inner) s t inner (if cs then under p.conv.env s else s) (if ct then under p.conv.env t else t)
  | ptrPtr {te inner s t s' t'} : isPtr p.conv.env s = some s' → isPtr p.conv.env t = some t' → Child p gm (.ptrPtr te inner) s t inner s' t'
  | srcPtr {x inner s t s'} : isPtr p.conv.env s = some s' → Child p gm (.srcPtr x inner) s t inner s' t
  | tgtPtr {te inner s t t'} : isPtr p.conv.env t = some t' → Child p gm (.tgtPtr te inner) s t inner s t'
  | list {te hm hg elem s t s' t' a b} : isList p.conv.env s = some (s', a) → isList p.conv.env t = some (t', b) →
      Child p gm (.list te hm hg elem) s t elem s' t'
  | mapKey {k v key val s t sk sv tk tv} : isMap p.conv.env s = some (sk, sv) → isMap p.conv.env t = some (tk, tv) →
      Child p gm (.mapc k v key val) s t key sk tk
  | mapVal {k v key val s t sk sv tk tv} : isMap p.conv.env s = some (sk, sv) → isMap p.conv.env t = some (tk, tv) →
      Child p gm (.mapc k v key val) s t val sv tv
  /-- a target field without `map … | FUNC`, fed from the source path of its plan -/
  | field {fields u s t tfs target path d g l cv z tf tty s'} : isStruct p.conv.env t = some tfs →
      FieldAt fields tfs.toList (.mapped target path d g l cv z) tf tty → fieldFn p gm t tf.name = none →
      fieldSrc p path s = some s' → Child p gm (.structc fields u) s t cv s' tty
  /-- … or from the result of a source-struct method -/
  | fieldVia {fields u s t tfs target path d g call rip cv z tf tty n s'} : isStruct p.conv.env t = some tfs →
      FieldAt fields tfs.toList (.viaMethod target path d g call rip cv z) tf tty → fieldFn p gm t tf.name = none →
      structMethodName call = some n → fieldSrcVia p path n s = some s' → Child p gm (.structc fields u) s t cv s' tty
  /-- `default FUNC`: the positions of the rule applied on top of the constructed value -/
  | withCtor {ctor tp rest s t c' s' t'} : Child p gm rest s t c' s' t' → Child p gm (.withCtor ctor tp rest) s t c' s' t'
  | ctorUpdate {ctor tp sp tgp inner s t s' t'} : (if sp then isPtr p.conv.env s else some s) = some s' →
      (if tgp then isPtr p.conv.env t else some t) = some t' → Child p gm (.ctorUpdate ctor tp sp tgp inner) s t inner s' t'

/-- `Occ p gm c s t c' s' t'`: position `c' : s' → t'` occurs strictly below node `c : s → t`, at any depth -/
inductive Occ (p : Program) (gm : GenMethod) : Conv → Ty → Ty → Conv → Ty → Ty → Prop
  | child {c s t c' s' t'} : Child p gm c s t c' s' t' → Occ p gm c s t c' s' t'
  | step {c s t c1 s1 t1 c' s' t'} : Child p gm c s t c1 s1 t1 → Occ p gm c1 s1 t1 c' s' t' → Occ p gm c s t c' s' t'

/-- the root position of a method body (`buildMethod`) -/
inductive Root (p : Program) (gm : GenMethod) : Conv → Ty → Ty → Prop
  | convert {c} : gm.body = some (.convert c) → Root p gm c gm.source gm.target
  | update {sp c s' t'} : gm.body = some (.update sp c) → (if sp then isPtr p.conv.env gm.source else some gm.source) = some s' →
      isPtr p.conv.env gm.target = some t' → Root p gm c s' t'

/-- the position is in order: its node is what its lookup demands, and below a position without a function the walk went on -/
def PosOK (p : Program) (gm : GenMethod) (c : Conv) (s t : Ty) : Prop :=
  headOK p (look p gm.contexts s t) c = true ∧ (look p gm.contexts s t = .none → okNode p gm c s t = true)

theorem posOK_of_match {p : Program} {gm : GenMethod} {c : Conv} {s t : Ty}
    (h : (match look p gm.contexts s t with
          | .none => okNode p gm c s t
          | r => headOK p r c) = true) : PosOK p gm c s t := by
  unfold PosOK
  cases hl : look p gm.contexts s t with
  | none => rw [hl] at h; exact ⟨by simp [headOK], fun _ => h⟩
  | custom i => rw [hl] at h; exact ⟨h, fun hn => by cases hn⟩
  | method m => rw [hl] at h; exact ⟨h, fun hn => by cases hn⟩
  | unsat => rw [hl] at h; exact ⟨h, fun hn => by cases hn⟩

theorem okField_of_fieldAt {p : Program} {gm : GenMethod} {s t : Ty} : ∀ {fields : FieldPlans} {tfs : List (FieldInfo × Ty)} {f tf tty},
    FieldAt fields tfs f tf tty → okFields p gm fields s t tfs = true → okField p gm f s t tf tty = true := by
  intro fields tfs f tf tty hat
  induction hat with
  | here => intro h; unfold okFields at h; simp only [Bool.and_eq_true] at h; exact h.1
  | there _ ih => intro h; unfold okFields at h; simp only [Bool.and_eq_true] at h; exact ih h.2

theorem child_ok {p : Program} {gm : GenMethod} {c : Conv} {s t : Ty} {c' : Conv} {s' t' : Ty}
    (hc : Child p gm c s t c' s' t') : okNode p gm c s t = true → PosOK p gm c' s' t' := by
  induction hc with
  | underlying => intro h; unfold okNode at h; exact posOK_of_match h
  | ptrPtr h1 h2 => intro h; unfold okNode at h; rw [h1, h2] at h; exact posOK_of_match h
  | srcPtr h1 => intro h; unfold okNode at h; rw [h1] at h; exact posOK_of_match h
  | tgtPtr h1 => intro h; unfold okNode at h; rw [h1] at h; exact posOK_of_match h
  | list h1 h2 => intro h; unfold okNode at h; rw [h1, h2] at h; exact posOK_of_match h
  | mapKey h1 h2 =>
    intro h; unfold okNode at h; rw [h1, h2] at h
    simp only [Bool.and_eq_true] at h
    exact posOK_of_match h.1
  | mapVal h1 h2 =>
    intro h; unfold okNode at h; rw [h1, h2] at h
    simp only [Bool.and_eq_true] at h
    exact posOK_of_match h.2
  | field h1 hat hfn hsrc =>
    intro h; unfold okNode at h; rw [h1] at h
    have hf := okField_of_fieldAt hat h
    unfold okField at hf
    simp only [Bool.and_eq_true] at hf
    have h2 := hf.2
    rw [hfn, hsrc] at h2
    exact posOK_of_match h2
  | fieldVia h1 hat hfn hname hsrc =>
    intro h; unfold okNode at h; rw [h1] at h
    have hf := okField_of_fieldAt hat h
    unfold okField at hf
    simp only [Bool.and_eq_true] at hf
    have h2 := hf.2
    rw [hfn, hname] at h2
    simp only [] at h2
    rw [hsrc] at h2
    exact posOK_of_match h2
  | withCtor _ ih => intro h; unfold okNode at h; exact ih h
  | ctorUpdate h1 h2 => intro h; unfold okNode at h; rw [h1, h2] at h; exact posOK_of_match h

/-- a call node has no positions below it -/
theorem no_child_of_call {p : Program} {gm : GenMethod} {cl args re w s t c' s' t'}
    (h : Child p gm (.call cl args re w) s t c' s' t') : False := by cases h

theorem headOK_call {p : Program} {r : Look} {c : Conv} (h : headOK p r c = true) (hr : r ≠ .none) :
    ∃ cl args re w, c = .call cl args re w := by
  unfold headOK at h
  split at h
  · exact absurd rfl hr
  · exact ⟨_, _, _, _, rfl⟩
  · exact ⟨_, _, _, _, rfl⟩
  · cases h

theorem okNode_of_posOK_child {p : Program} {gm : GenMethod} {c : Conv} {s t : Ty} {c' : Conv} {s' t' : Ty}
    (hp : PosOK p gm c s t) (hc : Child p gm c s t c' s' t') : okNode p gm c s t = true := by
  by_cases hl : look p gm.contexts s t = .none
  · exact hp.2 hl
  · obtain ⟨cl, args, re, w, rfl⟩ := headOK_call hp.1 hl
    exact (no_child_of_call hc).elim

theorem occ_ok {p : Program} {gm : GenMethod} {c : Conv} {s t : Ty} {c' : Conv} {s' t' : Ty}
    (ho : Occ p gm c s t c' s' t') : okNode p gm c s t = true → PosOK p gm c' s' t' := by
  induction ho with
  | child hc => exact child_ok hc
  | step hc ho ih =>
    intro h
    have h1 := child_ok hc h
    cases ho with
    | child hc2 => exact ih (okNode_of_posOK_child h1 hc2)
    | step hc2 _ => exact ih (okNode_of_posOK_child h1 hc2)

theorem okBody_of_mem' {p : Program} (hp : customsFirst p = true) {m : Nat} {gm : GenMethod} (hm : p.methods[m]? = some gm) :
    okBody p gm = true := by
  unfold customsFirst at hp
  rw [List.all_eq_true] at hp
  exact hp gm (List.mem_of_getElem? hm)

theorem root_ok {p : Program} {gm : GenMethod} {c : Conv} {s t : Ty} (hb : okBody p gm = true) (hr : Root p gm c s t) :
    okNode p gm c s t = true := by
  cases hr with
  | convert hbody =>
    simp only [okBody, hbody] at hb
    split at hb
    · exact hb
    · cases hb
  | update hbody h1 h2 =>
    simp only [okBody, hbody] at hb
    rw [h1, h2] at hb
    exact hb

/-- the declared roles of a function's arguments, slot by slot -/
def SlotRole (a : Arg) (x : CallArg) : Prop :=
  (a.use = .iface ∧ x = .self) ∨ (a.use = .context ∧ x = .ctx a.ty) ∨ (a.use = .source ∧ x = .source)

/-- the call arguments are the declared roles, slot by slot -/
inductive Slots : List Arg → List CallArg → Prop
  | nil : Slots [] []
  | cons {a x as xs} : SlotRole a x → Slots as xs → Slots (a :: as) (x :: xs)

theorem forall2_of_argsMatch : ∀ (as : List Arg) (xs : List CallArg), argsMatch as xs = true → Slots as xs := by
  intro as
  induction as with
  | nil => intro xs h; cases xs with
    | nil => exact .nil
    | cons x xs => simp [argsMatch] at h
  | cons a as ih =>
    intro xs h
    cases xs with
    | nil => simp [argsMatch] at h
    | cons x xs =>
      unfold argsMatch at h
      simp only [Bool.and_eq_true] at h
      refine .cons ?_ (ih xs h.2)
      have h1 := h.1
      split at h1
      · rename_i hu; exact .inl ⟨hu, rfl⟩
      · rename_i ty hu
        have := Ty.eq_of_beq' h1
        subst this
        exact .inr (.inl ⟨hu, rfl⟩)
      · rename_i hu; exact .inr (.inr ⟨hu, rfl⟩)
      · cases h1

theorem headOK_custom {p : Program} {i : Nat} {c : Conv} (h : headOK p (.custom i) c = true) :
    ∃ d args re w, p.conv.customs[i]? = some d ∧ c = .call (.custom i) args re w ∧ argsMatch d.args args = true := by
  cases c with
  | call cl args re w =>
    cases cl with
    | custom j =>
      simp only [headOK, Bool.and_eq_true, beq_iff_eq] at h
      obtain ⟨rfl, h2⟩ := h
      cases hd : p.conv.customs[i]? with
      | none => rw [hd] at h2; cases h2
      | some d => rw [hd] at h2; exact ⟨d, args, re, w, rfl, rfl, h2⟩
    | method j => simp [headOK] at h
    | structMethod n => simp [headOK] at h
  | _ => simp [headOK] at h

theorem headOK_method {p : Program} {m : Nat} {c : Conv} (h : headOK p (.method m) c = true) :
    ∃ gm' args re w, p.methods[m]? = some gm' ∧ c = .call (.method m) args re w ∧ argsMatch gm'.args args = true := by
  cases c with
  | call cl args re w =>
    cases cl with
    | method j =>
      simp only [headOK, Bool.and_eq_true, beq_iff_eq] at h
      obtain ⟨rfl, h2⟩ := h
      cases hd : p.methods[m]? with
      | none => rw [hd] at h2; cases h2
      | some d => rw [hd] at h2; exact ⟨d, args, re, w, rfl, rfl, h2⟩
    | custom j => simp [headOK] at h
    | structMethod n => simp [headOK] at h
  | _ => simp [headOK] at h

/-- **every occurrence, extend functions**: below the root of every method body of a checked program, a position whose
pair has an extend function (with its contexts available) is the call of exactly that function, with the declared roles -/
theorem every_occurrence_custom (p : Program) (hp : customsFirst p = true) (m : Nat) (gm : GenMethod) (hm : p.methods[m]? = some gm)
    (c : Conv) (s t : Ty) (hr : Root p gm c s t) (c' : Conv) (s' t' : Ty) (ho : Occ p gm c s t c' s' t') (i : Nat)
    (hi : Gen.indexGet (Gen.extendIndex p.conv) s' t' gm.contexts = .hit i) :
    ∃ d args re w, p.conv.customs[i]? = some d ∧ c' = .call (.custom i) args re w ∧ Slots d.args args := by
  have hpos := occ_ok ho (root_ok (okBody_of_mem' hp hm) hr)
  have hl : look p gm.contexts s' t' = .custom i := by unfold look; rw [hi]
  have h1 := hpos.1
  rw [hl] at h1
  obtain ⟨d, args, re, w, hd, hc, ha⟩ := headOK_custom h1
  exact ⟨d, args, re, w, hd, hc, forall2_of_argsMatch _ _ ha⟩

/-- **every occurrence, declared methods**: … and when no extend function exists for the pair but a declared method
does, it is the call of that method -/
theorem every_occurrence_method (p : Program) (hp : customsFirst p = true) (m : Nat) (gm : GenMethod) (hm : p.methods[m]? = some gm)
    (c : Conv) (s t : Ty) (hr : Root p gm c s t) (c' : Conv) (s' t' : Ty) (ho : Occ p gm c s t c' s' t') (j : Nat)
    (hx : Gen.indexGet (Gen.extendIndex p.conv) s' t' gm.contexts = .none)
    (hj : Gen.indexGet (declIndex p.methods) s' t' gm.contexts = .hit j) :
    ∃ gm' args re w, p.methods[j]? = some gm' ∧ c' = .call (.method j) args re w ∧ Slots gm'.args args := by
  have hpos := occ_ok ho (root_ok (okBody_of_mem' hp hm) hr)
  have hl : look p gm.contexts s' t' = .method j := by unfold look; rw [hx, hj]
  have h1 := hpos.1
  rw [hl] at h1
  obtain ⟨d, args, re, w, hd, hc, ha⟩ := headOK_method h1
  exact ⟨d, args, re, w, hd, hc, forall2_of_argsMatch _ _ ha⟩

/-- a function for the pair whose contexts are not available never occurs in a checked program -/
theorem every_occurrence_satisfied (p : Program) (hp : customsFirst p = true) (m : Nat) (gm : GenMethod) (hm : p.methods[m]? = some gm)
    (c : Conv) (s t : Ty) (hr : Root p gm c s t) (c' : Conv) (s' t' : Ty) (ho : Occ p gm c s t c' s' t') :
    Gen.indexGet (Gen.extendIndex p.conv) s' t' gm.contexts ≠ .unsatisfied := by
  intro hu
  have hpos := occ_ok ho (root_ok (okBody_of_mem' hp hm) hr)
  have hl : look p gm.contexts s' t' = .unsat := by unfold look; rw [hu]
  have h1 := hpos.1
  rw [hl] at h1
  simp [headOK] at h1

/-- the root: a method whose own pair has an extend function is the delegation to it -/
theorem root_delegates (p : Program) (hp : customsFirst p = true) (m : Nat) (gm : GenMethod) (hm : p.methods[m]? = some gm)
    (i : Nat)
    (hi : Gen.indexGet (Gen.extendIndex p.conv) gm.source gm.target gm.contexts = .hit i) :
    (∃ args re, gm.body = some (.delegate i args re)) ∨ (∃ sp c, gm.body = some (.update sp c)) := by
  have hb := okBody_of_mem' hp hm
  unfold okBody at hb
  split at hb
  · rw [hi] at hb; cases hb
  · rename_i j args re hbody
    rw [hi] at hb
    simp only [Bool.and_eq_true, beq_iff_eq] at hb
    obtain ⟨rfl, _⟩ := hb
    exact .inl ⟨args, re, hbody⟩
  · rename_i sp c hbody; exact .inr ⟨sp, c, hbody⟩
  · cases hb

/-- the values a function with these declared arguments receives: per context argument the caller's context value of
that type, per source argument the value at the position; in declared order (the converter argument carries no value) -/
def declArgVals (fr : Frame) (src : Val) (as : List Arg) : List Val :=
  as.filterMap (fun a => match a.use with
    | .context => lookupCtx fr a.ty
    | .source => some src
    | _ => none)

/-- the caller has a context argument for every context the function declares -/
def ctxAvail (fr : Frame) (as : List Arg) : Bool :=
  as.all (fun a => match a.use with | .context => (lookupCtx fr a.ty).isSome | _ => true)

theorem filterMapM_loop_slots (fr : Frame) (src : Val) : ∀ (as : List Arg) (xs : List CallArg) (acc : List Val) (n : Nat),
    Slots as xs → ctxAvail fr as = true →
    List.filterMapM.loop (argOf fr src) xs acc n = .ok (acc.reverse ++ declArgVals fr src as, n) := by
  intro as xs acc n hs
  induction hs generalizing acc with
  | nil => intro _; simp [List.filterMapM.loop, declArgVals, pure, StateT.pure]
  | @cons a x as' xs' hr _ ih =>
    intro hc
    simp only [ctxAvail, List.all_cons, Bool.and_eq_true] at hc
    have hc2 : ctxAvail fr as' = true := hc.2
    unfold List.filterMapM.loop
    rcases hr with ⟨hu, rfl⟩ | ⟨hu, rfl⟩ | ⟨hu, rfl⟩
    · simp [argOf, bind, StateT.bind, pure, StateT.pure, ih _ hc2, declArgVals, hu]
    · have h1 := hc.1
      rw [hu] at h1
      simp only [] at h1
      obtain ⟨cv, hcv⟩ := Option.isSome_iff_exists.1 h1
      simp [argOf, bind, StateT.bind, pure, StateT.pure, ih _ hc2, declArgVals, hu, hcv]
    · simp [argOf, bind, StateT.bind, pure, StateT.pure, ih _ hc2, declArgVals, hu]

/-- a call node with the declared roles yields the function's result on the value at the position and the caller's
context arguments (the model's uninterpreted application `tok f args`) -/
theorem evalCall_custom (p : Program) (fr : Frame) (fuel : Nat) (i : Nat) (d : FnDef) (args : List CallArg) (re : Bool) (w : Wrap)
    (src old : Val) (n : Nat) (hd : p.conv.customs[i]? = some d) (hs : Slots d.args args) (hctx : ctxAvail fr d.args = true)
    (hc : p.sem.isCtor d.name = false) (hf : p.sem.failsOn d.name ((declArgVals fr src d.args).headD .nil) = false) :
    evalConv p (fuel+1) fr (.call (.custom i) args re w) src old n = .ok (.tok d.name (declArgVals fr src d.args), n) := by
  have hl := filterMapM_loop_slots fr src d.args args [] n hs hctx
  have hf' : p.sem.failsOn d.name ((declArgVals fr src d.args).head?.getD .nil) = false := by
    rw [← hf]; cases declArgVals fr src d.args <;> rfl
  unfold evalConv
  simp [List.filterMapM, hl, bind, StateT.bind, pure, hd, hc, hf']
  rfl

/-- the context values handed to a called method -/
def ctxValsOf (fr : Frame) (args : List CallArg) : List Val :=
  args.filterMap (fun a => match a with | .ctx t => lookupCtx fr t | _ => none)

/-- per declared context argument, the caller's context value of that type, in declared order -/
def declCtxVals (fr : Frame) (as : List Arg) : List Val :=
  as.filterMap (fun a => match a.use with | .context => lookupCtx fr a.ty | _ => none)

/-- a called method receives exactly those -/
theorem ctxValsOf_slots (fr : Frame) : ∀ (as : List Arg) (xs : List CallArg), Slots as xs →
    ctxValsOf fr xs = declCtxVals fr as := by
  intro as xs hs
  unfold declCtxVals
  induction hs with
  | nil => rfl
  | @cons a x as' xs' hr _ ih =>
    unfold ctxValsOf at ih ⊢
    rcases hr with ⟨hu, rfl⟩ | ⟨hu, rfl⟩ | ⟨hu, rfl⟩ <;> simp [List.filterMap_cons, hu, ih]

/-- a call of a method yields exactly that method's result on the value at the position -/
theorem evalCall_method (p : Program) (fr : Frame) (fuel : Nat) (j : Nat) (as : List Arg) (args : List CallArg) (re : Bool) (w : Wrap)
    (src old : Val) (n : Nat) (r : Val × Nat) (hs : Slots as args) (hctx : ctxAvail fr as = true)
    (h : callMethod p fuel j src (ctxValsOf fr args) n = .ok r) :
    evalConv p (fuel+1) fr (.call (.method j) args re w) src old n = .ok r := by
  have hl := filterMapM_loop_slots fr src as args [] n hs hctx
  unfold ctxValsOf at h
  unfold evalConv
  simp [List.filterMapM, hl, bind, StateT.bind]
  split
  · rename_i r' heq; exact heq.symm.trans h
  · rename_i e heq; have := heq.symm.trans h; cases this
  · rename_i k heq; have := heq.symm.trans h; cases this
  · rename_i k heq; have := heq.symm.trans h; cases this

theorem Slots.get : ∀ {as : List Arg} {xs : List CallArg}, Slots as xs → ∀ (k : Nat) (a : Arg) (x : CallArg),
    as[k]? = some a → xs[k]? = some x → SlotRole a x := by
  intro as xs hs
  induction hs with
  | nil => intro k a x h; simp at h
  | @cons a0 x0 as' xs' hr _ ih =>
    intro k a x ha hx
    cases k with
    | zero => simp at ha hx; subst ha; subst hx; exact hr
    | succ k => simp at ha hx; exact ih k a x ha hx

/-- **contexts are never a source, sources never a context**: in a call with the declared roles, the slot of a declared
context argument is `ctx` of its type — its value is the caller's context argument, whatever the conversion source — and
the slot of the declared source argument is `source` — its value is the value at the position, whatever the contexts -/
theorem slots_routing {as : List Arg} {xs : List CallArg} (hs : Slots as xs) (k : Nat) (a : Arg) (x : CallArg)
    (ha : as[k]? = some a) (hx : xs[k]? = some x) :
    (a.use = .context → x = .ctx a.ty ∧ ∀ (fr : Frame) (src src' : Val), argOf fr src x = argOf fr src' x) ∧
    (a.use = .source → x = .source ∧ ∀ (fr fr' : Frame) (src : Val), argOf fr src x = argOf fr' src x) := by
  have hr := hs.get k a x ha hx
  constructor
  · intro hu
    rcases hr with ⟨h, _⟩ | ⟨_, rfl⟩ | ⟨h, _⟩
    · rw [hu] at h; cases h
    · exact ⟨rfl, fun _ _ _ => rfl⟩
    · rw [hu] at h; cases h
  · intro hu
    rcases hr with ⟨h, _⟩ | ⟨h, _⟩ | ⟨_, rfl⟩
    · rw [hu] at h; cases h
    · rw [hu] at h; cases h
    · exact ⟨rfl, fun _ _ _ => rfl⟩

/-- **every occurrence yields the function's result**: the semantic form of `every_occurrence_custom` -/
theorem every_occurrence_result (p : Program) (hp : customsFirst p = true) (m : Nat) (gm : GenMethod) (hm : p.methods[m]? = some gm)
    (c : Conv) (s t : Ty) (hr : Root p gm c s t) (c' : Conv) (s' t' : Ty) (ho : Occ p gm c s t c' s' t') (i : Nat)
    (hi : Gen.indexGet (Gen.extendIndex p.conv) s' t' gm.contexts = .hit i) :
    ∃ d, p.conv.customs[i]? = some d ∧
      ∀ (fr : Frame) (fuel : Nat) (src old : Val) (n : Nat), ctxAvail fr d.args = true → p.sem.isCtor d.name = false →
        p.sem.failsOn d.name ((declArgVals fr src d.args).headD .nil) = false →
        evalConv p (fuel+1) fr c' src old n = .ok (.tok d.name (declArgVals fr src d.args), n) := by
  obtain ⟨d, args, re, w, hd, rfl, hs⟩ := every_occurrence_custom p hp m gm hm c s t hr c' s' t' ho i hi
  exact ⟨d, hd, fun fr fuel src old n hctx hc hf => evalCall_custom p fr fuel i d args re w src old n hd hs hctx hc hf⟩

end Gv.Sound
