/-
Order-irrelevance lemmas used by C09: Go randomises map iteration, so every loop over a map is modelled
as a loop over an ARBITRARY permutation of the entries; these lemmas show which uses are insensitive.
-/
namespace Gv.Perm

open List

/-- two sorted permutations of each other are equal (for an antisymmetric order) -/
theorem eq_of_perm_of_pairwise {α} (le : α → α → Bool)
    (antisymm : ∀ a b, le a b = true → le b a = true → a = b) :
    ∀ (l l' : List α), l.Perm l' → l.Pairwise (fun a b => le a b = true) → l'.Pairwise (fun a b => le a b = true) → l = l' := by
  intro l
  induction l with
  | nil => intro l' hp _ _; exact (List.nil_perm.mp hp).symm ▸ rfl
  | cons a t ih =>
    intro l' hp hs hs'
    match l', hp, hs' with
    | [], hp, _ => exact absurd (List.perm_nil.mp hp) (by simp)
    | b :: t', hp, hs' =>
      have hab : a = b := by
        have ha : a ∈ b :: t' := hp.subset (by simp)
        have hb : b ∈ a :: t := hp.symm.subset (by simp)
        rcases List.mem_cons.mp ha with h | h
        · exact h
        · rcases List.mem_cons.mp hb with h' | h'
          · exact h'.symm
          · exact antisymm a b (List.rel_of_pairwise_cons hs h') (List.rel_of_pairwise_cons hs' h)
      subst hab
      have ht : t.Perm t' := List.Perm.cons_inv hp
      rw [ih t' ht (List.Pairwise.of_cons hs) (List.Pairwise.of_cons hs')]

/-- sorting makes the iteration order irrelevant -/
theorem mergeSort_perm_eq {α} (le : α → α → Bool)
    (total : ∀ a b, le a b || le b a) (trans : ∀ a b c, le a b = true → le b c = true → le a c = true)
    (antisymm : ∀ a b, le a b = true → le b a = true → a = b)
    (l l' : List α) (h : l.Perm l') : l.mergeSort le = l'.mergeSort le := by
  apply eq_of_perm_of_pairwise le antisymm
  · exact ((List.mergeSort_perm l le).trans h).trans (List.mergeSort_perm l' le).symm
  · exact List.pairwise_mergeSort (le := le) (fun a b c => trans a b c) total l
  · exact List.pairwise_mergeSort (le := le) (fun a b c => trans a b c) total l'

/-- collecting into a set: membership does not depend on the order -/
theorem contains_perm {α} [BEq α] [LawfulBEq α] (l l' : List α) (h : l.Perm l') (x : α) : l.contains x = l'.contains x := by
  cases hc : l'.contains x
  · cases hc' : l.contains x
    · rfl
    · have : x ∈ l := by simpa using hc'
      have : x ∈ l' := h.subset this
      simp [this] at hc
  · have : x ∈ l' := by simpa using hc
    have : x ∈ l := h.symm.subset this
    simpa using this

/-- a universal check over the entries does not depend on the order -/
theorem all_perm {α} (p : α → Bool) (l l' : List α) (h : l.Perm l') : l.all p = l'.all p := by
  induction h with
  | nil => rfl
  | cons x _ ih => simp [ih]
  | swap x y l => simp [Bool.and_left_comm]
  | trans _ _ ih1 ih2 => rw [ih1, ih2]

theorem mem_of_lookup {α β} [BEq α] [LawfulBEq α] (l : List (α × β)) (k : α) (v : β)
    (h : l.lookup k = some v) : (k, v) ∈ l := by
  induction l with
  | nil => simp [List.lookup] at h
  | cons p t ih =>
    obtain ⟨a, b⟩ := p
    simp only [List.lookup] at h
    split at h
    · rename_i hk
      have : k = a := by simpa using hk
      cases h; subst this; simp
    · exact List.mem_cons_of_mem _ (ih h)

theorem lookup_of_mem_nodup {α β} [BEq α] [LawfulBEq α] (l : List (α × β)) (nodup : (l.map (·.1)).Nodup)
    (k : α) (v : β) (h : (k, v) ∈ l) : l.lookup k = some v := by
  induction l with
  | nil => simp at h
  | cons p t ih =>
    obtain ⟨a, b⟩ := p
    simp only [List.map_cons, List.nodup_cons] at nodup
    simp only [List.lookup]
    rcases List.mem_cons.mp h with heq | hin
    · cases heq; simp
    · have hne : (k == a) = false := by
        have : k ≠ a := by
          intro e; subst e
          exact nodup.1 (List.mem_map.mpr ⟨(k, v), hin, rfl⟩)
        simpa using this
      simp only [hne]
      exact ih nodup.2 hin

/-- inserting entries with distinct keys into a map: every lookup is independent of the insertion order -/
theorem lookup_perm {α β} [BEq α] [LawfulBEq α] (l l' : List (α × β)) (h : l.Perm l')
    (nodup : (l.map (·.1)).Nodup) (k : α) : l.lookup k = l'.lookup k := by
  have nodup' : (l'.map (·.1)).Nodup := (h.map (·.1)).nodup_iff.mp nodup
  cases hl : l.lookup k with
  | some v =>
    have := h.subset (mem_of_lookup l k v hl)
    exact (lookup_of_mem_nodup l' nodup' k v this).symm
  | none =>
    cases hl' : l'.lookup k with
    | none => rfl
    | some v =>
      have := h.symm.subset (mem_of_lookup l' k v hl')
      rw [lookup_of_mem_nodup l nodup k v this] at hl
      cases hl

end Gv.Perm
