/-
Typing of the generalised structural fragment (skipped fields, zero guards, update structs / update methods) and of the
previous value of a target location (used by the composite theorems of C05 / C10).
-/
import Gv.Proofs.Typing
import Gv.Proofs.StructuralSound
import Gv.Model.PlanCheckU

namespace Gv.Typing
open Gv Gv.Str Gv.Eval

mutual
  /-- `HasTyU p c s t`: like `HasTy`, but struct nodes may skip fields and guard assignments by a zero check -/
  inductive HasTyU (p : Program) : Conv → Ty → Ty → Prop
    | identBasic {s t k} : under p.conv.env s = .basic k → under p.conv.env t = .basic k → HasTyU p .ident s t
    | castBasic {s t k} : under p.conv.env s = .basic k → under p.conv.env t = .basic k → HasTyU p (.cast .ident) s t
    | callMethod {s t m w} : sigOf p m = some (s, t) → HasTyU p (.call (.method m) [.source] false w) s t
    | ptrPtr {s t se te inner} : under p.conv.env s = .ptr se → under p.conv.env t = .ptr te → HasTyU p inner se te →
        HasTyU p (.ptrPtr te inner) s t
    | tgtPtr {s t te inner} : (∀ e, under p.conv.env s ≠ .ptr e) → under p.conv.env t = .ptr te → HasTyU p inner s te →
        HasTyU p (.tgtPtr te inner) s t
    | srcPtr {s t se inner} : under p.conv.env s = .ptr se → (∀ e, under p.conv.env t ≠ .ptr e) → HasTyU p inner se t →
        HasTyU p (.srcPtr t inner) s t
    | slice {s t se te elem} : under p.conv.env s = .slice se → under p.conv.env t = .slice te → HasTyU p elem se te →
        HasTyU p (.list te true true elem) s t
    | array {s t n se te elem} : under p.conv.env s = .array n se → under p.conv.env t = .slice te → HasTyU p elem se te →
        HasTyU p (.list te true false elem) s t
    | mapc {s t sk sv tk tv key val} : under p.conv.env s = .map sk sv → under p.conv.env t = .map tk tv →
        HasTyU p key sk tk → HasTyU p val sv tv → HasTyU p (.mapc tk tv key val) s t
    | structc {s t sfs tfs plans upd} : under p.conv.env s = .struct sfs → under p.conv.env t = .struct tfs →
        (fieldNames tfs.toList).Nodup →
        HasFieldsU p plans s tfs.toList → HasTyU p (.structc plans upd) s t
  /-- one plan per target field, in declaration order: skipped, or fed by a source path that type-checks from the source
      struct type `s` (with or without a zero-value guard); the conversion goes from the type of the handed value -/
  inductive HasFieldsU (p : Program) : FieldPlans → Ty → List (FieldInfo × Ty) → Prop
    | nil {s} : HasFieldsU p .nil s []
    | skip {s tf tty rest tfs} : HasFieldsU p rest s tfs →
        HasFieldsU p (.cons (.skip tf.name) rest) s ((tf, tty) :: tfs)
    | cons {s tf tty path derefs guarded leafIsPtr leaf cv rest tfs z} :
        PlanCheck.walkTy p.conv.env s path = some (leaf, derefs, guarded) →
        leafIsPtr = (isPtr p.conv.env leaf).isSome →
        HasTyU p cv (PlanCheck.fieldArgTy guarded leafIsPtr leaf) tty → HasFieldsU p rest s tfs →
        HasFieldsU p (.cons (.mapped tf.name path derefs guarded leafIsPtr cv z) rest) s ((tf, tty) :: tfs)
    /-- fed by a source method (no error result): the receiver path type-checks, the receiver's named type has the method,
        and the conversion of the (uninterpreted) result is an identity conversion, possibly below one pointer step -/
    | viaMethod {s tf tty path ds g t0 n args w resIsPtr rty cv rest tfs z} :
        PlanCheck.walkTy p.conv.env s path = some (t0, ds, g) →
        PlanCheck.fieldTyOf p.conv.env (PlanCheck.derefTy p.conv.env t0).1 n = none →
        PlanCheck.methodResTy p.conv.env (PlanCheck.derefTy p.conv.env t0).1 n = some rty →
        resIsPtr = (isPtr p.conv.env rty).isSome →
        args.all PlanCheck.isCtxArg = true → PlanCheck.opaqueShape cv = true →
        HasTyU p cv (PlanCheck.fieldArgTy (g || (PlanCheck.derefTy p.conv.env t0).2) resIsPtr rty) tty →
        HasFieldsU p rest s tfs →
        HasFieldsU p (.cons (.viaMethod tf.name path (ds ++ [(PlanCheck.derefTy p.conv.env t0).2])
          (g || (PlanCheck.derefTy p.conv.env t0).2) (.call (.structMethod n) args false w) resIsPtr cv z) rest) s ((tf, tty) :: tfs)
end

/-- the constructor call of `default FUNC`: a custom function interpreted as a constructor, returning the target type or
(with `toPointer`) the non-pointer type the target points to -/
def HasCtor (p : Program) (ctor : Conv) (toPointer : Bool) (t : Ty) : Prop :=
  ∃ (i : Nat) (args : List CallArg) (retErr : Bool) (w : Wrap) (d : FnDef),
    ctor = .call (.custom i) args retErr w ∧ p.conv.customs[i]? = some d ∧ p.sem.isCtor d.name = true ∧
    (if toPointer then ∃ te, under p.conv.env t = .ptr te ∧ d.target = te ∧ isPtr p.conv.env d.target = none
     else d.target = t)

/-- the body of a conversion method: structural, possibly starting from a default constructor -/
inductive ConvertOKU (p : Program) : Conv → Ty → Ty → Prop
  | plain {c s t} : HasTyU p c s t → ConvertOKU p c s t
  | withCtor {ctor tp rest s t} : HasCtor p ctor tp t → (∀ cl a r w, rest ≠ .call cl a r w) → HasTyU p rest s t →
      ConvertOKU p (.withCtor ctor tp rest) s t
  | updPtrPtr {ctor tp inner s t se te} : HasCtor p ctor tp t → under p.conv.env s = .ptr se → under p.conv.env t = .ptr te →
      HasTyU p inner se te → ConvertOKU p (.ctorUpdate ctor tp true true inner) s t
  | updSrcPtr {ctor tp inner s t se} : HasCtor p ctor tp t → under p.conv.env s = .ptr se → (∀ e, under p.conv.env t ≠ .ptr e) →
      HasTyU p inner se t → ConvertOKU p (.ctorUpdate ctor tp true false inner) s t
  | updTgtPtr {ctor tp inner s t te} : HasCtor p ctor tp t → (∀ e, under p.conv.env s ≠ .ptr e) → under p.conv.env t = .ptr te →
      HasTyU p inner s te → ConvertOKU p (.ctorUpdate ctor tp false true inner) s t

/-- the body of a method fits the method's signature: a conversion source → target, or an update of the struct the
target points to from the source struct (or the struct the source points to) -/
def BodyOKU (p : Program) (gm : GenMethod) : Prop :=
  match gm.body with
  | some (.convert c) => ConvertOKU p c gm.source gm.target
  | some (.update srcIsPtr c) =>
    ∃ te, under p.conv.env gm.target = .ptr te ∧
      (if srcIsPtr then ∃ se, under p.conv.env gm.source = .ptr se ∧ HasTyU p c se te else HasTyU p c gm.source te)
  | _ => False

def ProgOKU (p : Program) : Prop :=
  ∀ (m : Nat) (gm : GenMethod), p.methods[m]? = some gm → BodyOKU p gm

/-- `OldOK env old t`: `old` may be the previous content of a location of type `t`: at a struct type it is unknown (`nil`)
or a struct whose fields are such contents; every well-typed value and every zero value is one -/
inductive OldOK (env : TEnv) : Val → Ty → Prop
  | nonStruct {v t} : (∀ fs, under env t ≠ .struct fs) → OldOK env v t
  | nil {t} : OldOK env .nil t
  | struct {ofs t tfs} : under env t = .struct tfs →
      (∀ name x f ty, ofs.lookup name = some x →
        tfs.toList.find? (fun (y : FieldInfo × Ty) => y.1.name == name) = some (f, ty) → OldOK env x ty) →
      OldOK env (.struct ofs) t

theorem oldOK_of_WT {env : TEnv} {v : Val} {t : Ty} (h : WT env v t) : OldOK env v t := by
  induction h with
  | basic h => exact .nonStruct (fun fs hh => by rw [h] at hh; cases hh)
  | nilPtr _ => exact .nil
  | nilSlice _ => exact .nil
  | nilMap _ => exact .nil
  | ptr h _ _ => exact .nonStruct (fun fs hh => by rw [h] at hh; cases hh)
  | slice h _ _ => exact .nonStruct (fun fs hh => by rw [h] at hh; cases hh)
  | arr h _ _ => exact .nonStruct (fun fs hh => by rw [h] at hh; cases hh)
  | map h _ _ _ _ => exact .nonStruct (fun fs hh => by rw [h] at hh; cases hh)
  | struct h _ ih => exact .struct h ih

theorem zeroFields_lookup (env : TEnv) (k : Nat) (tfs : List (FieldInfo × Ty)) (name : S) (x : Val) (f : FieldInfo) (ty : Ty)
    (hl : (zeroVal.zeroFields env k tfs).lookup name = some x)
    (hf : tfs.find? (fun (y : FieldInfo × Ty) => y.1.name == name) = some (f, ty)) : x = zeroVal env k ty := by
  induction tfs with
  | nil => simp at hf
  | cons a tfs ih =>
    obtain ⟨g, gty⟩ := a
    unfold zeroVal.zeroFields at hl
    by_cases hn : g.name = name
    · subst hn
      simp [List.lookup] at hl
      simp [List.find?] at hf
      rw [← hl, hf.2]
    · have h1 : (name == g.name) = false := by simpa using (fun hh => hn hh.symm)
      have h2 : (g.name == name) = false := by simpa using hn
      simp only [List.lookup, h1] at hl
      simp only [List.find?, h2] at hf
      exact ih hl hf

theorem oldOK_zeroVal (env : TEnv) : ∀ (k : Nat) (t : Ty), OldOK env (zeroVal env k t) t := by
  intro k
  induction k with
  | zero =>
    intro t
    cases hu : under env t with
    | struct fs =>
      rw [Sound.zeroVal_struct_zero hu]
      exact .struct hu (fun name x f ty hl _ => by simp [List.lookup] at hl)
    | _ => exact .nonStruct (fun fs hh => by rw [hu] at hh; cases hh)
  | succ k ih =>
    intro t
    cases hu : under env t with
    | struct fs =>
      rw [Sound.zeroVal_struct k hu]
      refine .struct hu (fun name x f ty hl hf => ?_)
      rw [zeroFields_lookup env k fs.toList name x f ty hl hf]
      exact ih ty
    | _ => exact .nonStruct (fun fs hh => by rw [hu] at hh; cases hh)

theorem ctorFields_lookup (env : TEnv) (k : Nat) (tfs : List (FieldInfo × Ty)) (name : S) (x : Val) (f : FieldInfo) (ty : Ty)
    (hl : (ctorVal.ctorFields env k tfs).lookup name = some x)
    (hf : tfs.find? (fun (y : FieldInfo × Ty) => y.1.name == name) = some (f, ty)) :
    (∃ kk, under env ty = .basic kk ∧ x = ctorVal env k ty) ∨ ((∀ kk, under env ty ≠ .basic kk) ∧ x = zeroVal env k ty) := by
  induction tfs with
  | nil => simp at hf
  | cons a tfs ih =>
    obtain ⟨g, gty⟩ := a
    unfold ctorVal.ctorFields at hl
    by_cases hn : g.name = name
    · subst hn
      simp [List.lookup] at hl
      simp [List.find?] at hf
      obtain ⟨_, rfl⟩ := hf
      split at hl
      · rename_i kk hk
        exact .inl ⟨kk, hk, hl.symm⟩
      · rename_i hne
        exact .inr ⟨fun kk hk => hne kk hk, hl.symm⟩
    · have h1 : (name == g.name) = false := by simpa using (fun hh => hn hh.symm)
      have h2 : (g.name == name) = false := by simpa using hn
      simp only [List.lookup, h1] at hl
      simp only [List.find?, h2] at hf
      exact ih hl hf

/-- what a constructor returns is an admissible previous value -/
theorem oldOK_ctorVal (env : TEnv) (k : Nat) (t : Ty) : OldOK env (ctorVal env k t) t := by
  cases k with
  | zero => unfold ctorVal; exact .nil
  | succ k =>
    cases hu : under env t with
    | struct fs =>
      have : ctorVal env (k + 1) t = .struct (ctorVal.ctorFields env k fs.toList) := by
        unfold ctorVal; simp [hu]
      rw [this]
      refine .struct hu (fun name x f ty hl hf => ?_)
      rcases ctorFields_lookup env k fs.toList name x f ty hl hf with ⟨kk, hk, _⟩ | ⟨_, hx⟩
      · exact .nonStruct (fun fs' hh => by rw [hk] at hh; cases hh)
      · rw [hx]; exact oldOK_zeroVal env k ty
    | _ => exact .nonStruct (fun fs hh => by rw [hu] at hh; cases hh)

/-! a convenient way to show that a concrete struct of basic values is well-typed (non-vacuity examples) -/

theorem mem_of_lookup {fs : List (S × Val)} {name : S} {x : Val} (h : fs.lookup name = some x) : ∃ q, q ∈ fs ∧ q.2 = x := by
  induction fs with
  | nil => simp [List.lookup] at h
  | cons a fs ih =>
    obtain ⟨an, av⟩ := a
    simp only [List.lookup] at h
    cases hn : (name == an) with
    | true => rw [hn] at h; cases h; exact ⟨_, List.mem_cons_self .., rfl⟩
    | false =>
      rw [hn] at h
      obtain ⟨q, hq, hx⟩ := ih h
      exact ⟨q, List.mem_cons_of_mem _ hq, hx⟩

theorem WT_struct_of_basics {env : TEnv} {fs : List (S × Val)} {t : Ty} {tfs : Fields} (ht : under env t = .struct tfs)
    (hv : ∀ q, q ∈ fs → ∃ r, q.2 = .basic r) (hty : ∀ q, q ∈ tfs.toList → ∃ k, under env q.2 = .basic k) :
    WT env (.struct fs) t := by
  refine .struct ht ?_
  intro name x f ty hl hf
  obtain ⟨q, hq, hx⟩ := mem_of_lookup hl
  obtain ⟨r, hr⟩ := hv q hq
  obtain ⟨k, hk⟩ := hty (f, ty) (List.mem_of_find?_eq_some hf)
  rw [← hx, hr]
  exact .basic hk

theorem WT_struct_one {env : TEnv} {t : Ty} {tfs : Fields} {nm : S} {x : Val} (ht : under env t = .struct tfs)
    (h : ∀ f ty, tfs.toList.find? (fun (y : FieldInfo × Ty) => y.1.name == nm) = some (f, ty) → WT env x ty) :
    WT env (.struct [(nm, x)]) t := by
  refine .struct ht ?_
  intro name y f ty hl hf
  simp only [List.lookup] at hl
  cases hn : (name == nm) with
  | false => rw [hn] at hl; cases hl
  | true =>
    rw [hn] at hl
    cases hl
    have : name = nm := by simpa using hn
    subst this
    exact h f ty hf

end Gv.Typing
