/-
Composite theorem of C02: for every well-typed structural plan and every well-typed source value, whatever the
plan semantics returns is the structural image of the source (Gv.Spec.Img), for all values, sizes and depths.
-/
import Gv.Proofs.Typing
import Gv.Proofs.EvalLemmas
import Gv.Spec.StructuralRel

namespace Gv.Sound
open Gv Gv.Str Gv.Eval Gv.Typing Gv.Spec

/-! ### zero values -/

theorem zeroVal_ptr {env : TEnv} {t e : Ty} (k : Nat) (h : under env t = .ptr e) : zeroVal env k t = .nil := by
  cases k with
  | zero => unfold zeroVal; simp [h]
  | succ k => unfold zeroVal; simp [h]

theorem zeroVal_slice {env : TEnv} {t e : Ty} (k : Nat) (h : under env t = .slice e) : zeroVal env k t = .nil := by
  cases k with
  | zero => unfold zeroVal; simp [h]
  | succ k => unfold zeroVal; simp [h]

theorem zeroVal_map {env : TEnv} {t a b : Ty} (k : Nat) (h : under env t = .map a b) : zeroVal env k t = .nil := by
  cases k with
  | zero => unfold zeroVal; simp [h]
  | succ k => unfold zeroVal; simp [h]

theorem zeroVal_struct {env : TEnv} {t : Ty} {tfs : Fields} (k : Nat) (h : under env t = .struct tfs) :
    zeroVal env (k + 1) t = .struct (zeroVal.zeroFields env k tfs.toList) := by
  unfold zeroVal; simp [h]

theorem zeroVal_struct_zero {env : TEnv} {t : Ty} {tfs : Fields} (h : under env t = .struct tfs) :
    zeroVal env 0 t = .struct [] := by
  unfold zeroVal; simp [h]

/-- the zero value of a struct type is a struct whose fields are nothing (out of fuel) or the zero values of the fields -/
theorem zeroVal_struct_shape {env : TEnv} {t : Ty} {tfs : Fields} (k : Nat) (h : under env t = .struct tfs) :
    ∃ rest, zeroVal env k t = .struct rest ∧ (rest = [] ∨ ∃ k', rest = zeroVal.zeroFields env k' tfs.toList) := by
  cases k with
  | zero => exact ⟨[], zeroVal_struct_zero h, .inl rfl⟩
  | succ k => exact ⟨_, zeroVal_struct k h, .inr ⟨k, rfl⟩⟩

/-! ### the statements, by fuel -/

/-- the previous value of a freshly declared target location: unknown (`nil`) or the zero value of its type -/
def OldZ (env : TEnv) (old : Val) (t : Ty) : Prop := old = .nil ∨ ∃ k, old = zeroVal env k t

def StConv (p : Program) (fuel : Nat) : Prop :=
  ∀ (fr : Frame) (c : Conv) (s t : Ty) (v old : Val) (n : Nat) (v' : Val) (n' : Nat),
    HasTy p c s t → WT p.conv.env v s → OldZ p.conv.env old t →
    evalConv p fuel fr c v old n = .ok (v', n') → Img p.conv.env s t v (erase v')

def StCall (p : Program) (fuel : Nat) : Prop :=
  ∀ (m : Nat) (s t : Ty) (v : Val) (cs : List Val) (n : Nat) (v' : Val) (n' : Nat),
    sigOf p m = some (s, t) → WT p.conv.env v s →
    callMethod p fuel m v cs n = .ok (v', n') → Img p.conv.env s t v (erase v')

def StElems (p : Program) (fuel : Nat) : Prop :=
  ∀ (fr : Frame) (elem : Conv) (se te : Ty) (vs : List Val) (i n : Nat) (out : List Val) (n' : Nat),
    HasTy p elem se te → (∀ v, v ∈ vs → WT p.conv.env v se) →
    evalElems p fuel fr te elem vs i n = .ok (out, n') → ImgList p.conv.env se te vs (erase.eraseList out)

def StEntries (p : Program) (fuel : Nat) : Prop :=
  ∀ (fr : Frame) (key val : Conv) (sk sv tk tv : Ty) (kvs : List (Val × Val)) (n : Nat) (out : List (Val × Val)) (n' : Nat),
    HasTy p key sk tk → HasTy p val sv tv →
    (∀ a b, (a, b) ∈ kvs → WT p.conv.env a sk) → (∀ a b, (a, b) ∈ kvs → WT p.conv.env b sv) →
    evalEntries p fuel fr tk tv key val kvs n = .ok (out, n') → ImgEntries p.conv.env sk sv tk tv kvs (erase.eraseEntries out)

theorem stCall_step (p : Program) (hp : ProgOK p) (fuel : Nat) (ih : StConv p fuel) : StCall p (fuel + 1) := by
  intro m s t v cs n v' n' hsig hwt hev
  unfold callMethod at hev
  unfold sigOf at hsig
  cases hm : p.methods[m]? with
  | none => simp [hm] at hsig
  | some gm =>
    simp [hm] at hsig
    obtain ⟨hs, ht⟩ := hsig
    obtain ⟨c, hb, hty⟩ := hp m gm hm
    simp only [hm, hb] at hev
    subst hs; subst ht
    exact ih _ c _ _ v _ n v' n' hty hwt (.inr ⟨64, rfl⟩) hev

theorem stElems_step (p : Program) (fuel : Nat) (ihc : StConv p fuel) (ihe : StElems p fuel) : StElems p (fuel + 1) := by
  intro fr elem se te vs i n out n' hty hwt hev
  cases vs with
  | nil =>
    unfold evalElems at hev
    have := (E_pure_ok _ _ _).1 hev
    cases this
    exact .nil
  | cons v vs =>
    unfold evalElems at hev
    obtain ⟨x, n1, h1, h2⟩ := (E_bind_ok _ _ _ _).1 hev
    obtain ⟨r, n2, h3, h4⟩ := (E_bind_ok _ _ _ _).1 h2
    have := (E_pure_ok _ _ _).1 h4
    cases this
    have hx := ihc _ elem se te v _ n x n1 hty (hwt v (List.mem_cons_self ..)) (.inr ⟨64, rfl⟩) h1
    have hr := ihe fr elem se te vs (i + 1) n1 r _ hty (fun w hw => hwt w (List.mem_cons_of_mem _ hw)) h3
    exact .cons hx hr

theorem stEntries_step (p : Program) (fuel : Nat) (ihc : StConv p fuel) (ihe : StEntries p fuel) : StEntries p (fuel + 1) := by
  intro fr key val sk sv tk tv kvs n out n' hk hv hwk hwv hev
  cases kvs with
  | nil =>
    unfold evalEntries at hev
    have := (E_pure_ok _ _ _).1 hev
    cases this
    exact .nil
  | cons e kvs =>
    obtain ⟨a, b⟩ := e
    unfold evalEntries at hev
    obtain ⟨k', n1, h1, h2⟩ := (E_bind_ok _ _ _ _).1 hev
    obtain ⟨v', n2, h3, h4⟩ := (E_bind_ok _ _ _ _).1 h2
    obtain ⟨more, n3, h5, h6⟩ := (E_bind_ok _ _ _ _).1 h4
    have := (E_pure_ok _ _ _).1 h6
    cases this
    have hka := ihc _ key sk tk a _ n k' n1 hk (hwk a b (List.mem_cons_self ..)) (.inr ⟨64, rfl⟩) h1
    have hvb := ihc _ val sv tv b _ n1 v' n2 hv (hwv a b (List.mem_cons_self ..)) (.inr ⟨64, rfl⟩) h3
    have hr := ihe fr key val sk sv tk tv kvs n2 more _ hk hv
      (fun x y h => hwk x y (List.mem_cons_of_mem _ h)) (fun x y h => hwv x y (List.mem_cons_of_mem _ h)) h5
    exact .cons hka hvb hr

/-! ### struct fields -/

/-- replacing / appending one field -/
theorem setField_done (done : List (S × Val)) (name : S) (x : Val) (h : name ∉ done.map (·.1)) :
    setField (.struct done) name x = .struct (done ++ [(name, x)]) := by
  unfold setField
  have : done.any (fun p => p.1 == name) = false := by
    rw [List.any_eq_false]
    intro p hp hpe
    exact h (List.mem_map.2 ⟨p, hp, by simpa using hpe⟩)
  simp [this]

theorem map_replace_notin (l : List (S × Val)) (name : S) (x : Val) (h : name ∉ l.map (·.1)) :
    l.map (fun (q : S × Val) => if q.1 == name then (q.1, x) else (q.1, q.2)) = l := by
  induction l with
  | nil => rfl
  | cons a l ih =>
    have ha : a.1 ≠ name := fun hh => h (by simp [hh])
    have hl : name ∉ l.map (·.1) := fun hh => h (by simp at hh ⊢; exact .inr hh)
    have hb : (a.1 == name) = false := by simpa using ha
    rw [List.map_cons, ih hl, hb]
    rfl

theorem setField_head (done rest : List (S × Val)) (name : S) (z x : Val)
    (h1 : name ∉ done.map (·.1)) (h2 : name ∉ rest.map (·.1)) :
    setField (.struct (done ++ (name, z) :: rest)) name x = .struct (done ++ [(name, x)] ++ rest) := by
  unfold setField
  have hany : (done ++ (name, z) :: rest).any (fun p => p.1 == name) = true := by simp
  show (if ((done ++ (name, z) :: rest).any fun p => p.1 == name) = true then _ else _) = _
  rw [if_pos hany]
  congr 1
  have e1 := map_replace_notin done name x h1
  have e2 := map_replace_notin rest name x h2
  have hfun : (fun (x_1 : S × Val) => match x_1 with | (n, old) => if (n == name) = true then (n, x) else (n, old)) =
      (fun (q : S × Val) => if q.1 == name then (q.1, x) else (q.1, q.2)) := by
    funext q; obtain ⟨a, b⟩ := q; rfl
  rw [hfun, List.map_append, List.map_cons, e1, e2]
  simp

theorem lookup_append_notin (done rest : List (S × Val)) (name : S) (h : name ∉ done.map (·.1)) :
    (done ++ rest).lookup name = rest.lookup name := by
  induction done with
  | nil => rfl
  | cons a d ih =>
    obtain ⟨an, av⟩ := a
    have hne : (name == an) = false := by
      cases hh : (name == an) with
      | false => rfl
      | true => exact absurd (by simp at hh; simp [hh]) h
    have hd : name ∉ d.map (·.1) := fun hh => h (by simp at hh ⊢; exact .inr hh)
    simp [List.lookup, hne, ih hd]

def StFields (p : Program) (fuel : Nat) : Prop :=
  ∀ (fr : Frame) (plans : FieldPlans) (sfs tfs : List (FieldInfo × Ty)) (fs done rest : List (S × Val)) (n : Nat) (v' : Val) (n' : Nat),
    HasFields p plans sfs tfs →
    (∀ name x f ty, fs.lookup name = some x →
      sfs.find? (fun (y : FieldInfo × Ty) => y.1.name == name) = some (f, ty) → WT p.conv.env x ty) →
    (fieldNames tfs).Nodup →
    (∀ nm, nm ∈ fieldNames tfs → nm ∉ done.map (·.1)) →
    (rest = [] ∨ ∃ k, rest = zeroVal.zeroFields p.conv.env k tfs) →
    evalFields p fuel fr plans (.struct fs) (.struct (done ++ rest)) n = .ok (v', n') →
    ∃ ws, v' = .struct (done ++ ws) ∧ ImgFields p.conv.env sfs fs tfs (erase.eraseFields ws)

theorem zeroFields_names (env : TEnv) (k : Nat) (tfs : List (FieldInfo × Ty)) :
    (zeroVal.zeroFields env k tfs).map (·.1) = fieldNames tfs := by
  induction tfs with
  | nil => unfold zeroVal.zeroFields; rfl
  | cons a tfs ih =>
    obtain ⟨f, ty⟩ := a
    unfold zeroVal.zeroFields
    simp [fieldNames] at ih ⊢
    exact ih

theorem eraseFields_append (a b : List (S × Val)) : erase.eraseFields (a ++ b) = erase.eraseFields a ++ erase.eraseFields b := by
  induction a with
  | nil => rfl
  | cons x a ih => obtain ⟨n, v⟩ := x; simp [erase.eraseFields, ih]

theorem stFields_step (p : Program) (fuel : Nat) (ihc : StConv p fuel) (ihf : StFields p fuel) : StFields p (fuel + 1) := by
  intro fr plans sfs tfs fs done rest n v' n' hty hwt hnd hdone hrest hev
  cases hty with
  | nil =>
    unfold evalFields at hev
    have := (E_pure_ok _ _ _).1 hev
    cases this
    have hr : rest = [] := by
      rcases hrest with h | ⟨k, h⟩
      · exact h
      · rw [h]; unfold zeroVal.zeroFields; rfl
    subst hr
    exact ⟨[], rfl, .nil⟩
  | @cons _ tf tty sf sty cv plans' tfs' b hfind hcv hrestTy =>
    unfold evalFields at hev
    simp only [] at hev
    -- the walk along the one-element path
    have hwalk : walk [tf.name] [false] (.struct fs) =
        (match fs.lookup tf.name with | some x => .ok (some x) | none => .stuck "walk: no such field") := by
      unfold walk
      simp only [fieldOf, Bool.false_eq_true, if_false]
      cases fs.lookup tf.name with
      | none => rfl
      | some x => simp [walk]
    rw [hwalk] at hev
    cases hx : fs.lookup tf.name with
    | none => simp [hx] at hev
    | some x =>
      simp only [hx] at hev
      have hnd' : tf.name ∉ fieldNames tfs' ∧ (fieldNames tfs').Nodup := by
        simpa [fieldNames] using hnd
      have hnotdone : tf.name ∉ done.map (·.1) := hdone _ (by simp [fieldNames])
      -- the previous value of the field
      have hold : (Val.struct (done ++ rest)).isAbsent = false := rfl
      have hlook : fieldOf (.struct (done ++ rest)) tf.name = rest.lookup tf.name := by
        simp [fieldOf, lookup_append_notin done rest tf.name hnotdone]
      have holdZ : OldZ p.conv.env ((rest.lookup tf.name).getD .nil) tty := by
        rcases hrest with h | ⟨k, h⟩
        · subst h; exact .inl rfl
        · subst h
          unfold zeroVal.zeroFields
          simp [List.lookup]
          exact .inr ⟨k, rfl⟩
      simp only [hold, hlook, Bool.false_and, if_false, Bool.false_eq_true] at hev
      have hz : (ZeroCheck.none == ZeroCheck.check) = false := by decide
      simp only [hz, Bool.false_and, if_false, Bool.false_eq_true] at hev
      cases hc : evalConv p fuel { fr with parent := none } cv x
          ((rest.lookup tf.name).getD .nil) n with
      | err e => simp [hc] at hev
      | panic k => simp [hc] at hev
      | stuck w => simp [hc] at hev
      | ok r =>
        obtain ⟨nv, n1⟩ := r
        simp [hc] at hev
        have himg := ihc _ cv sty tty x _ n nv n1 hcv (hwt _ _ _ _ hx hfind) holdZ hc
        -- the struct after the assignment
        have hset : ∃ rest', setField (.struct (done ++ rest)) tf.name nv = .struct ((done ++ [(tf.name, nv)]) ++ rest') ∧
            (rest' = [] ∨ ∃ k, rest' = zeroVal.zeroFields p.conv.env k tfs') := by
          rcases hrest with h | ⟨k, h⟩
          · subst h
            refine ⟨[], ?_, .inl rfl⟩
            simp only [List.append_nil]
            exact setField_done done tf.name nv hnotdone
          · subst h
            refine ⟨zeroVal.zeroFields p.conv.env k tfs', ?_, .inr ⟨k, rfl⟩⟩
            have : zeroVal.zeroFields p.conv.env k ((tf, tty) :: tfs') =
                (tf.name, zeroVal p.conv.env k tty) :: zeroVal.zeroFields p.conv.env k tfs' := by
              conv => lhs; unfold zeroVal.zeroFields
            rw [this]
            apply setField_head
            · exact hnotdone
            · rw [zeroFields_names]; exact hnd'.1
        obtain ⟨rest', hset, hrest'⟩ := hset
        rw [hset] at hev
        have hdone' : ∀ nm, nm ∈ fieldNames tfs' → nm ∉ (done ++ [(tf.name, nv)]).map (·.1) := by
          intro nm hnm hmem
          simp at hmem
          rcases hmem with ⟨v0, hm⟩ | hm
          · exact hdone nm (by simp [fieldNames] at hnm ⊢; exact .inr hnm) (by simp; exact ⟨v0, hm⟩)
          · subst hm; exact hnd'.1 hnm
        obtain ⟨ws, hv', hws⟩ := ihf fr plans' sfs tfs' fs (done ++ [(tf.name, nv)]) rest' n1 v' n' hrestTy hwt hnd'.2 hdone' hrest' hev
        refine ⟨(tf.name, nv) :: ws, by simpa using hv', ?_⟩
        show ImgFields p.conv.env sfs fs ((tf, tty) :: tfs') ((tf.name, erase nv) :: erase.eraseFields ws)
        exact .cons hfind hx himg hws

/-! ### the plan nodes -/

theorem wt_basic_inv {env : TEnv} {v : Val} {s : Ty} {k : Kind} (hwt : WT env v s) (hs : under env s = .basic k) :
    ∃ r, v = .basic r := by
  cases hwt with
  | basic _ => exact ⟨_, rfl⟩
  | nilPtr h => rw [hs] at h; cases h
  | nilSlice h => rw [hs] at h; cases h
  | nilMap h => rw [hs] at h; cases h
  | ptr h _ => rw [hs] at h; cases h
  | slice h _ => rw [hs] at h; cases h
  | arr h _ => rw [hs] at h; cases h
  | map h _ _ => rw [hs] at h; cases h
  | struct h _ => rw [hs] at h; cases h

theorem wt_ptr_inv {env : TEnv} {v : Val} {s se : Ty} (hwt : WT env v s) (hs : under env s = .ptr se) :
    v = .nil ∨ ∃ l x, v = .ptr l x ∧ WT env x se := by
  cases hwt with
  | basic h => rw [hs] at h; cases h
  | nilPtr _ => exact .inl rfl
  | nilSlice _ => exact .inl rfl
  | nilMap _ => exact .inl rfl
  | ptr h hx => rw [hs] at h; cases h; exact .inr ⟨_, _, rfl, hx⟩
  | slice h _ => rw [hs] at h; cases h
  | arr h _ => rw [hs] at h; cases h
  | map h _ _ => rw [hs] at h; cases h
  | struct h _ => rw [hs] at h; cases h

theorem oldZ_ptr {env : TEnv} {old : Val} {t te : Ty} (h : OldZ env old t) (ht : under env t = .ptr te) : old = .nil := by
  rcases h with h | ⟨k, h⟩
  · exact h
  · rw [h]; exact zeroVal_ptr k ht

theorem oldZ_slice {env : TEnv} {old : Val} {t te : Ty} (h : OldZ env old t) (ht : under env t = .slice te) : old = .nil := by
  rcases h with h | ⟨k, h⟩
  · exact h
  · rw [h]; exact zeroVal_slice k ht

theorem oldZ_map {env : TEnv} {old : Val} {t a b : Ty} (h : OldZ env old t) (ht : under env t = .map a b) : old = .nil := by
  rcases h with h | ⟨k, h⟩
  · exact h
  · rw [h]; exact zeroVal_map k ht

theorem wt_slice_inv {env : TEnv} {v : Val} {s se : Ty} (hwt : WT env v s) (hs : under env s = .slice se) :
    v = .nil ∨ ∃ l vs, v = .slice l vs ∧ ∀ x, x ∈ vs → WT env x se := by
  cases hwt with
  | basic h => rw [hs] at h; cases h
  | nilPtr _ => exact .inl rfl
  | nilSlice _ => exact .inl rfl
  | nilMap _ => exact .inl rfl
  | ptr h _ => rw [hs] at h; cases h
  | slice h hx => rw [hs] at h; cases h; exact .inr ⟨_, _, rfl, hx⟩
  | arr h _ => rw [hs] at h; cases h
  | map h _ _ => rw [hs] at h; cases h
  | struct h _ => rw [hs] at h; cases h

theorem wt_array_inv {env : TEnv} {v : Val} {s se : Ty} {k : Nat} (hwt : WT env v s) (hs : under env s = .array k se) :
    ∃ vs, v = .arr vs ∧ ∀ x, x ∈ vs → WT env x se := by
  cases hwt with
  | basic h => rw [hs] at h; cases h
  | nilPtr h => rw [hs] at h; cases h
  | nilSlice h => rw [hs] at h; cases h
  | nilMap h => rw [hs] at h; cases h
  | ptr h _ => rw [hs] at h; cases h
  | slice h _ => rw [hs] at h; cases h
  | arr h hx => rw [hs] at h; cases h; exact ⟨_, rfl, hx⟩
  | map h _ _ => rw [hs] at h; cases h
  | struct h _ => rw [hs] at h; cases h

theorem wt_map_inv {env : TEnv} {v : Val} {s sk sv : Ty} (hwt : WT env v s) (hs : under env s = .map sk sv) :
    v = .nil ∨ ∃ l kvs, v = .map l kvs ∧ (∀ a b, (a, b) ∈ kvs → WT env a sk) ∧ (∀ a b, (a, b) ∈ kvs → WT env b sv) := by
  cases hwt with
  | basic h => rw [hs] at h; cases h
  | nilPtr _ => exact .inl rfl
  | nilSlice _ => exact .inl rfl
  | nilMap _ => exact .inl rfl
  | ptr h _ => rw [hs] at h; cases h
  | slice h _ => rw [hs] at h; cases h
  | arr h _ => rw [hs] at h; cases h
  | map h hk hv => rw [hs] at h; cases h; exact .inr ⟨_, _, rfl, hk, hv⟩
  | struct h _ => rw [hs] at h; cases h

theorem wt_struct_inv {env : TEnv} {v : Val} {s : Ty} {sfs : Fields} (hwt : WT env v s) (hs : under env s = .struct sfs) :
    ∃ fs, v = .struct fs ∧ ∀ name x f ty, fs.lookup name = some x →
      sfs.toList.find? (fun (y : FieldInfo × Ty) => y.1.name == name) = some (f, ty) → WT env x ty := by
  cases hwt with
  | basic h => rw [hs] at h; cases h
  | nilPtr h => rw [hs] at h; cases h
  | nilSlice h => rw [hs] at h; cases h
  | nilMap h => rw [hs] at h; cases h
  | ptr h _ => rw [hs] at h; cases h
  | slice h _ => rw [hs] at h; cases h
  | arr h _ => rw [hs] at h; cases h
  | map h _ _ => rw [hs] at h; cases h
  | struct h hf => rw [hs] at h; cases h; exact ⟨_, rfl, hf⟩

theorem stConv_step (p : Program) (fuel : Nat) (ihc : StConv p fuel) (ihm : StCall p fuel) (ihe : StElems p fuel)
    (ihn : StEntries p fuel) (ihf : StFields p fuel) : StConv p (fuel + 1) := by
  intro fr c s t v old n v' n' hty hwt hold hev
  cases hty with
  | identBasic hs ht =>
    unfold evalConv at hev
    have := (E_pure_ok _ _ _).1 hev
    cases this
    obtain ⟨r, rfl⟩ := wt_basic_inv hwt hs
    exact .basic hs ht
  | castBasic hs ht =>
    unfold evalConv at hev
    exact ihc _ .ident s t v old n v' n' (.identBasic hs ht) hwt hold hev
  | @callMethod _ _ m w hsig =>
    unfold evalConv at hev
    simp [List.filterMapM, List.filterMapM.loop] at hev
    obtain ⟨argVals, n1, h1, h2⟩ := (E_bind_ok _ _ _ _).1 hev
    obtain ⟨o, n2, h3, h4⟩ := (E_bind_ok _ _ _ _).1 h1
    have := (E_pure_ok _ _ _).1 h3
    cases this
    cases hcm : callMethod p fuel m v [] n1 with
    | ok r =>
      obtain ⟨rv, rn⟩ := r
      rw [hcm] at h2
      cases h2
      exact ihm m s t v [] n1 v' n' hsig hwt hcm
    | err e => rw [hcm] at h2; cases h2
    | panic k => rw [hcm] at h2; cases h2
    | stuck w => rw [hcm] at h2; cases h2
  | @ptrPtr _ _ se te inner hs ht hin =>
    unfold evalConv at hev
    rcases wt_ptr_inv hwt hs with rfl | ⟨l, x, rfl, hx⟩
    · have := (E_pure_ok _ _ _).1 hev
      cases this
      rw [oldZ_ptr hold ht]
      exact .ptrNil hs ht
    · obtain ⟨v0, n1, h1, h2⟩ := (E_bind_ok _ _ _ _).1 hev
      obtain ⟨l0, n2, h3, h4⟩ := (E_bind_ok _ _ _ _).1 h2
      have := (E_pure_ok _ _ _).1 h4
      cases this
      have := ihc _ inner se te x _ n v0 n1 hin hx (.inr ⟨64, rfl⟩) h1
      show Img p.conv.env s t (.ptr l x) (.ptr .none (erase v0))
      exact .ptrPtr hs ht this
  | @tgtPtr _ _ te inner hs ht hin =>
    unfold evalConv at hev
    obtain ⟨v0, n1, h1, h2⟩ := (E_bind_ok _ _ _ _).1 hev
    obtain ⟨l0, n2, h3, h4⟩ := (E_bind_ok _ _ _ _).1 h2
    have := (E_pure_ok _ _ _).1 h4
    cases this
    have := ihc _ inner s te v _ n v0 n1 hin hwt (.inr ⟨64, rfl⟩) h1
    show Img p.conv.env s t v (.ptr .none (erase v0))
    exact .toPtr hs ht this
  | @srcPtr _ _ se inner hs ht hin =>
    unfold evalConv at hev
    rcases wt_ptr_inv hwt hs with rfl | ⟨l, x, rfl, hx⟩
    · have := (E_pure_ok _ _ _).1 hev
      cases this
      refine .srcNil hs ht ?_
      rcases hold with h | ⟨k, h⟩
      · subst h; exact .inl rfl
      · subst h; exact .inr ⟨k, rfl⟩
    · have := ihc _ inner se t x _ n v' n' hin hx (.inr ⟨64, rfl⟩) hev
      exact .srcPtr hs ht this
  | @slice _ _ se te elem hs ht hel =>
    unfold evalConv at hev
    rcases wt_slice_inv hwt hs with rfl | ⟨l, vs, rfl, hvs⟩
    · simp only [if_true] at hev
      have := (E_pure_ok _ _ _).1 hev
      cases this
      rw [oldZ_slice hold ht]
      exact .sliceNil hs ht
    · simp only [if_true] at hev
      obtain ⟨out, n1, h1, h2⟩ := (E_bind_ok _ _ _ _).1 hev
      have himg := ihe fr elem se te vs 0 n out n1 hel hvs h1
      cases hvsE : vs.isEmpty with
      | true =>
        rw [hvsE] at h2
        simp only [if_true] at h2
        have := (E_pure_ok _ _ _).1 h2
        cases this
        have hvs0 : vs = [] := by simpa using hvsE
        subst hvs0
        show Img p.conv.env s t (.slice l []) (.slice .none [])
        exact .slice hs ht .nil
      | false =>
        rw [hvsE] at h2
        simp only [Bool.false_eq_true, if_false] at h2
        obtain ⟨l0, n2, h3, h4⟩ := (E_bind_ok _ _ _ _).1 h2
        have := (E_pure_ok _ _ _).1 h4
        cases this
        show Img p.conv.env s t (.slice l vs) (.slice .none (erase.eraseList out))
        exact .slice hs ht himg
  | @array _ _ k se te elem hs ht hel =>
    unfold evalConv at hev
    obtain ⟨vs, rfl, hvs⟩ := wt_array_inv hwt hs
    simp only [if_true] at hev
    obtain ⟨out, n1, h1, h2⟩ := (E_bind_ok _ _ _ _).1 hev
    have himg := ihe fr elem se te vs 0 n out n1 hel hvs h1
    cases hvsE : vs.isEmpty with
    | true =>
      rw [hvsE] at h2
      simp only [if_true] at h2
      have := (E_pure_ok _ _ _).1 h2
      cases this
      have hvs0 : vs = [] := by simpa using hvsE
      subst hvs0
      show Img p.conv.env s t (.arr []) (.slice .none [])
      exact .array hs ht .nil
    | false =>
      rw [hvsE] at h2
      simp only [Bool.false_eq_true, if_false] at h2
      obtain ⟨l0, n2, h3, h4⟩ := (E_bind_ok _ _ _ _).1 h2
      have := (E_pure_ok _ _ _).1 h4
      cases this
      show Img p.conv.env s t (.arr vs) (.slice .none (erase.eraseList out))
      exact .array hs ht himg
  | @mapc _ _ sk sv tk tv key val hs ht hk hv =>
    unfold evalConv at hev
    rcases wt_map_inv hwt hs with rfl | ⟨l, kvs, rfl, hwk, hwv⟩
    · have := (E_pure_ok _ _ _).1 hev
      cases this
      rw [oldZ_map hold ht]
      exact .mapNil hs ht
    · obtain ⟨out, n1, h1, h2⟩ := (E_bind_ok _ _ _ _).1 hev
      obtain ⟨l0, n2, h3, h4⟩ := (E_bind_ok _ _ _ _).1 h2
      have := (E_pure_ok _ _ _).1 h4
      cases this
      have himg := ihn fr key val sk sv tk tv kvs n out n1 hk hv hwk hwv h1
      show Img p.conv.env s t (.map l kvs) (.map .none (erase.eraseEntries out))
      exact .map hs ht himg
  | @structc _ _ sfs tfs plans upd hs ht hnd hfs =>
    unfold evalConv at hev
    obtain ⟨fs, rfl, hfwt⟩ := wt_struct_inv hwt hs
    -- the previous value, normalised: a struct without fields, or the zero struct
    have hshape : ∃ rest, normStruct old = .struct rest ∧
        (rest = [] ∨ ∃ k, rest = zeroVal.zeroFields p.conv.env k tfs.toList) := by
      rcases hold with h | ⟨k, h⟩
      · subst h; exact ⟨[], rfl, .inl rfl⟩
      · obtain ⟨rest, hz, hr⟩ := zeroVal_struct_shape (env := p.conv.env) k ht
        rw [h, hz]; exact ⟨rest, rfl, hr⟩
    obtain ⟨rest, hnorm, hrest⟩ := hshape
    rw [hnorm] at hev
    obtain ⟨ws, hv', hws⟩ := ihf fr plans sfs.toList tfs.toList fs [] rest n v' n' hfs hfwt hnd (by simp) hrest (by simpa using hev)
    subst hv'
    show Img p.conv.env s t (.struct fs) (.struct (erase.eraseFields ([] ++ ws)))
    simp only [List.nil_append]
    exact .struct hs ht hws

/-! ### all fuels -/

theorem sound_all (p : Program) (hp : ProgOK p) :
    ∀ fuel, StConv p fuel ∧ StCall p fuel ∧ StElems p fuel ∧ StEntries p fuel ∧ StFields p fuel := by
  intro fuel
  induction fuel with
  | zero =>
    refine ⟨?_, ?_, ?_, ?_, ?_⟩
    · intro fr c s t v old n v' n' _ _ _ hev; unfold evalConv at hev; cases hev
    · intro m s t v cs n v' n' _ _ hev; unfold callMethod at hev; cases hev
    · intro fr elem se te vs i n out n' _ _ hev; unfold evalElems at hev; cases hev
    · intro fr key val sk sv tk tv kvs n out n' _ _ _ _ hev; unfold evalEntries at hev; cases hev
    · intro fr plans sfs tfs fs done rest n v' n' _ _ _ _ _ hev; unfold evalFields at hev; cases hev
  | succ fuel ih =>
    obtain ⟨ihc, ihm, ihe, ihn, ihf⟩ := ih
    exact ⟨stConv_step p fuel ihc ihm ihe ihn ihf, stCall_step p hp fuel ihc, stElems_step p fuel ihc ihe,
      stEntries_step p fuel ihc ihn, stFields_step p fuel ihc ihf⟩

/-- **Structural soundness of plans** (C02, composite): whatever a well-typed structural plan returns for a well-typed
source value is the structural image of that value — for every value, of any size and depth, and any amount of fuel. -/
theorem evalConv_structural (p : Program) (hp : ProgOK p) (fuel : Nat) (fr : Frame) (c : Conv) (s t : Ty) (v : Val)
    (n : Nat) (v' : Val) (n' : Nat) (hty : HasTy p c s t) (hwt : WT p.conv.env v s)
    (hev : evalConv p fuel fr c v (zeroVal p.conv.env 64 t) n = .ok (v', n')) :
    Img p.conv.env s t v (erase v') :=
  (sound_all p hp fuel).1 fr c s t v _ n v' n' hty hwt (.inr ⟨64, rfl⟩) hev

/-- the same for a call of a generated / declared method of a program all of whose methods are structural -/
theorem callMethod_structural (p : Program) (hp : ProgOK p) (fuel m : Nat) (s t : Ty) (v : Val) (n : Nat) (v' : Val) (n' : Nat)
    (hsig : sigOf p m = some (s, t)) (hwt : WT p.conv.env v s) (hev : callMethod p fuel m v [] n = .ok (v', n')) :
    Img p.conv.env s t v (erase v') :=
  (sound_all p hp fuel).2.1 m s t v [] n v' n' hsig hwt hev

end Gv.Sound
