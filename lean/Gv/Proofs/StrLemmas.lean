import Gv.Model.Str

namespace Gv.Str

theorem dropWhile_append_of_all {p : Char → Bool} (a b : S) (h : ∀ c ∈ a, p c = true) :
    (a ++ b).dropWhile p = b.dropWhile p := by
  induction a with
  | nil => rfl
  | cons x xs ih =>
    have hx : p x = true := h x (by simp)
    simp only [List.cons_append, List.dropWhile_cons, hx, if_true]
    exact ih (fun c hc => h c (by simp [hc]))

theorem dropWhile_append_of_exists {p : Char → Bool} (a b : S) (h : ∃ c ∈ a, p c = false) :
    (a ++ b).dropWhile p = a.dropWhile p ++ b := by
  induction a with
  | nil => simp at h
  | cons x xs ih =>
    by_cases hx : p x = true
    · simp only [List.cons_append, List.dropWhile_cons, hx, if_true]
      apply ih
      obtain ⟨c, hc, hpc⟩ := h
      simp at hc
      rcases hc with rfl | hc
      · simp [hx] at hpc
      · exact ⟨c, hc, hpc⟩
    · simp only [List.cons_append, List.dropWhile_cons, hx]
      simp

theorem dropWhile_eq_nil_of_all {p : Char → Bool} (a : S) (h : ∀ c ∈ a, p c = true) :
    a.dropWhile p = [] := by
  have := dropWhile_append_of_all (p := p) a [] h
  simpa using this

/-- trimming is insensitive to one more trailing space character -/
theorem trimSpace_snoc_space (l : S) (c : Char) (hc : isSpace c = true) :
    trimSpace (l ++ [c]) = trimSpace l := by
  unfold trimSpace trimRight trimLeft
  by_cases hall : ∀ x ∈ l, isSpace x = true
  · have h1 : (l ++ [c]).dropWhile isSpace = [] := by
      apply dropWhile_eq_nil_of_all
      intro x hx
      simp at hx
      rcases hx with hx | rfl
      · exact hall x hx
      · exact hc
    have h2 : l.dropWhile isSpace = [] := dropWhile_eq_nil_of_all l hall
    rw [h1, h2]
  · have hex : ∃ x ∈ l, isSpace x = false := by
      apply Classical.byContradiction
      intro hno
      apply hall
      intro x hx
      cases hsx : isSpace x with
      | true => rfl
      | false => exact absurd ⟨x, hx, hsx⟩ hno
    rw [dropWhile_append_of_exists l [c] hex]
    simp [List.reverse_append, hc]

theorem eq_dropLast_append_of_getLast? {α} {l : List α} {a : α} (h : l.getLast? = some a) :
    l = l.dropLast ++ [a] := by
  obtain ⟨ys, rfl⟩ := List.getLast?_eq_some_iff.mp h
  simp

theorem head?_dropWhile_not {α} (q : α → Bool) (L : List α) (ch : α)
    (h : (L.dropWhile q).head? = some ch) : q ch = false := by
  induction L with
  | nil => simp at h
  | cons x xs ih =>
    by_cases hx : q x = true
    · simp only [List.dropWhile_cons, hx, if_true] at h; exact ih h
    · simp only [List.dropWhile_cons, hx] at h
      simp at h; subst h; simpa using hx

end Gv.Str
