/-
The generator on the fragment F of unnamed, struct-free types (Gv.Spec.inF): `conv` is simulated, for ALL depths, by a
reference function `genF` defined by recursion on the pair of types; `genF` succeeds exactly on the documented rule
set `Gv.Spec.Convertible`.  Property statement: `Gv.Props.C03.C03_iff_unnamed_fragment`.
-/
import Gv.Model.Gen
import Gv.Model.PlanCheck
import Gv.Spec.Convertible
import Gv.Proofs.GenLemmas
import Gv.Proofs.TyEq

namespace Gv.Gen
open Gv Gv.Spec Gv.PlanCheck Gv.Eval

/-! ### the lookups find nothing, no sub-method is created -/

theorem extendIndex_nil (c : Converter) (h : c.extend = []) : extendIndex c = [] := by
  simp [extendIndex, h]

theorem indexGet_nil (s t : Ty) (av : List Ty) : indexGet [] s t av = .none := by
  simp [indexGet]

theorem callExisting_none (c : Converter) (cx : Ctx) (s t : Ty) (path : List PathElem) (st : GState)
    (he : c.extend = [])
    (hl : indexGet (lookupIndex st.methods) s t cx.available = .none) :
    callExisting c cx s t path st = .ok (none, st) := by
  unfold callExisting
  simp [extendIndex_nil c he, indexGet_nil, hl, bind, StateT.bind, Except.bind, pure, Except.pure, StateT.pure, get, getThe,
    MonadStateOf.get, StateT.get]

macro "msimp" : tactic => `(tactic|
  simp [isStruct, isPtr, isBasic, under, enumMembers, Ty.isNamed, bind, StateT.bind, Except.bind, pure, Except.pure, StateT.pure, get,
    getThe, MonadStateOf.get, StateT.get, *])

theorem shouldCreate_F (c : Converter) (cx : Ctx) (s t : Ty) (st : GState)
    (hs : inF s = true) (ht : inF t = true) (hsk : cx.cfg.common.skipCopySameType = false) :
    shouldCreateSubMethod c cx s t st = .ok (false, st) := by
  unfold shouldCreateSubMethod
  cases s with
  | ptr e => cases e <;> cases t <;> simp [inF] at hs ht <;> msimp
  | _ => cases t <;> simp [inF] at hs ht <;> msimp

/-- the mode `conv` hands to `noLookup` (Assign with Must goes through Build) -/
def modeNL : Mode → Mode
  | .assign true _ => .build
  | m => m

theorem conv_step (c : Converter) (f : Nat) (cx : Ctx) (mode : Mode) (pp : Bool) (s t : Ty) (path : List PathElem) (st : GState)
    (he : c.extend = [])
    (hl : indexGet (lookupIndex st.methods) s t cx.available = .none)
    (hs : inF s = true) (ht : inF t = true) (hsk : cx.cfg.common.skipCopySameType = false) :
    conv c (f+1) cx mode pp s t path st = noLookup c f cx (modeNL mode) pp s t path st := by
  unfold conv
  simp only [bind, StateT.bind, Except.bind, callExisting_none c cx s t path st he hl, shouldCreate_F c cx s t st hs ht hsk]
  simp
  rfl

theorem targetVar_off (c : Converter) (cx : Ctx) (s t : Ty) (path : List PathElem) (st : GState) (h : st.useCtor = false) :
    targetVar c cx s t path st = .ok (none, st) := by
  unfold targetVar
  simp [h, bind, StateT.bind, Except.bind, pure, Except.pure, StateT.pure, get, getThe, MonadStateOf.get, StateT.get]

/-! ### one lemma per rule: what `noLookup` does at each shape, in terms of its recursive calls -/

/-- how a rule wraps the result of its recursive call -/
def wrapRes (r : Except Diag (Conv × GState)) (k : Conv → Conv) : Except Diag (Conv × GState) :=
  match r with
  | .ok (inner, st') => .ok (k inner, st')
  | .error d => .error d

macro "nl_simp" : tactic => `(tactic|
  simp [isStruct, isPtr, isBasic, isList, isMap, under, isEnumPair, enumMembers, typeMismatch, fail, bind, StateT.bind, Except.bind,
    pure, Except.pure, StateT.pure, get, getThe, MonadStateOf.get, StateT.get, throw, throwThe, MonadExceptOf.throw, StateT.lift, Ty.isNamed,
    withVar, *])

macro "wrap_close" : tactic => `(tactic|
  (simp [wrapRes, StateT.bind, StateT.get, StateT.pure, bind, Except.bind, pure, Except.pure, targetVar_off, *] <;>
   (generalize conv _ _ _ _ _ _ _ _ _ = r; rcases r with _ | ⟨_, _⟩ <;> rfl)))

section
variable (c : Converter) (f : Nat) (cx : Ctx) (mode : Mode) (pp : Bool) (path : List PathElem) (st : GState)
  (hu : cx.cfg.common.useUnderlying = false) (hsk : cx.cfg.common.skipCopySameType = false)
  (hc : st.useCtor = false)
include hu hsk hc

theorem noLookup_ptrPtr (a b : Ty) :
    noLookup c (f+1) cx mode pp (.ptr a) (.ptr b) path st =
      wrapRes (conv c f cx .build true a b path st) (.ptrPtr b) := by
  unfold noLookup
  nl_simp
  split <;> wrap_close

theorem noLookup_tgtPtr (s b : Ty) (hs : inF s = true) (hp : isPtrTy s = false) :
    noLookup c (f+1) cx mode pp s (.ptr b) path st =
      wrapRes (conv c f cx .build false s b path st) (.tgtPtr b) := by
  unfold noLookup
  cases s <;> simp [inF, isPtrTy] at hs hp <;> nl_simp
  all_goals (try split)
  all_goals wrap_close

theorem noLookup_srcPtr (a t : Ty) (ht : inF t = true) (hp : isPtrTy t = false) (hz : cx.cfg.common.useZeroValue = true) :
    noLookup c (f+1) cx mode pp (.ptr a) t path st =
      wrapRes (conv c f cx .build true a t path st) (.srcPtr t) := by
  unfold noLookup
  cases t <;> simp [inF, isPtrTy] at ht hp <;> nl_simp
  all_goals (try split)
  all_goals wrap_close

omit hc in
theorem noLookup_srcPtr_off (a t : Ty) (ht : inF t = true) (hp : isPtrTy t = false) (hz : cx.cfg.common.useZeroValue = false) :
    noLookup c (f+1) cx mode pp (.ptr a) t path st = .error .typeMismatchPtr := by
  unfold noLookup
  cases t <;> simp [inF, isPtrTy] at ht hp <;> nl_simp

omit hc in
theorem noLookup_basic (k k' : Kind) :
    noLookup c (f+1) cx mode pp (.basic k) (.basic k') path st =
      if k.canon == k'.canon then .ok (.ident, st) else .error .typeMismatch := by
  unfold noLookup
  nl_simp
  split <;> rfl

omit hc in
theorem noLookup_slice (a b : Ty) :
    noLookup c (f+1) cx mode pp (.slice a) (.slice b) path st =
      wrapRes (conv c f cx (.assign false false) false a b (path ++ [.index]) st) (.list b true true) := by
  unfold noLookup
  nl_simp
  cases mode <;> wrap_close

omit hc in
theorem noLookup_array (n : Nat) (a b : Ty) :
    noLookup c (f+1) cx mode pp (.array n a) (.slice b) path st =
      wrapRes (conv c f cx (.assign false false) false a b (path ++ [.index]) st) (.list b (mode == .build) false) := by
  unfold noLookup
  nl_simp
  cases mode <;> wrap_close

theorem noLookup_map (k v k' v' : Ty) :
    noLookup c (f+1) cx mode pp (.map k v) (.map k' v') path st =
      (match conv c f cx .build false k k' (path ++ [.key]) st with
       | .ok (kk, st1) => wrapRes (conv c f cx (.assign true false) false v v' (path ++ [.key]) st1) (.mapc k' v' kk)
       | .error d => .error d) := by
  unfold noLookup
  nl_simp
  split <;> simp [wrapRes, StateT.bind, StateT.get, StateT.pure, bind, Except.bind, pure, Except.pure, targetVar_off, *] <;>
    (generalize conv _ _ _ _ _ _ _ _ st = r; rcases r with _ | ⟨kk, st1⟩
     · rfl
     · simp only []
       generalize conv _ _ _ _ _ _ _ _ st1 = r2; rcases r2 with _ | ⟨_, _⟩ <;> rfl)

/-- the non-pointer shapes that have a rule of their own: Basic, List (target not an array), Map -/
def topRule : Ty → Ty → Bool
  | .basic _, .basic _ => true
  | .slice _, .slice _ => true
  | .array _ _, .slice _ => true
  | .map _ _, .map _ _ => true
  | _, _ => false

omit hc in
theorem noLookup_reject (s t : Ty) (hs : inF s = true) (ht : inF t = true) (hps : isPtrTy s = false) (hpt : isPtrTy t = false)
    (hr : topRule s t = false) :
    noLookup c (f+1) cx mode pp s t path st = .error .typeMismatch := by
  unfold noLookup
  cases s <;> simp [inF, isPtrTy] at hs hps <;> cases t <;> simp [inF, isPtrTy, topRule] at ht hpt hr <;> nl_simp

end

/-! ### the reference generator on F -/

/-- What the generator does on a pair of F-types, by recursion on the pair: the plan, or the diagnostic of the first position
without a rule.  `asg` = the position is filled by assignment (a list element), where an array source gets no `make`. -/
def genF (z : Bool) (asg : Bool) (s t : Ty) : Except Diag Conv :=
  match s, t with
  | .ptr a, .ptr b => (genF z false a b).map (Conv.ptrPtr b)
  | s, .ptr b => (genF z false s b).map (Conv.tgtPtr b)
  | .ptr a, t => if z then (genF z false a t).map (Conv.srcPtr t) else .error .typeMismatchPtr
  | .basic k, .basic k' => if k.canon == k'.canon then .ok .ident else .error .typeMismatch
  | .slice a, .slice b => (genF z true a b).map (Conv.list b true true)
  | .array _ a, .slice b => (genF z true a b).map (Conv.list b (!asg) false)
  | .map k v, .map k' v' =>
    (match genF z false k k' with
     | .ok kk => (genF z false v v').map (Conv.mapc k' v' kk)
     | .error d => .error d)
  | _, _ => .error .typeMismatch
termination_by (s, t)

theorem genF_ptrPtr (z asg : Bool) (a b : Ty) :
    genF z asg (.ptr a) (.ptr b) = (genF z false a b).map (Conv.ptrPtr b) := by
  rw [genF]

theorem genF_tgtPtr (z asg : Bool) (s b : Ty) (hp : isPtrTy s = false) :
    genF z asg s (.ptr b) = (genF z false s b).map (Conv.tgtPtr b) := by
  cases s <;> simp [isPtrTy] at hp <;> rw [genF] <;> (intros; simp_all)

theorem genF_srcPtr (z asg : Bool) (a t : Ty) (hp : isPtrTy t = false) :
    genF z asg (.ptr a) t = if z then (genF z false a t).map (Conv.srcPtr t) else .error .typeMismatchPtr := by
  cases t <;> simp [isPtrTy] at hp <;> rw [genF] <;> (intros; simp_all)

theorem genF_basic (z asg : Bool) (k k' : Kind) :
    genF z asg (.basic k) (.basic k') = if k.canon == k'.canon then .ok .ident else .error .typeMismatch := by
  rw [genF]

theorem genF_slice (z asg : Bool) (a b : Ty) :
    genF z asg (.slice a) (.slice b) = (genF z true a b).map (Conv.list b true true) := by
  rw [genF]

theorem genF_array (z asg : Bool) (n : Nat) (a b : Ty) :
    genF z asg (.array n a) (.slice b) = (genF z true a b).map (Conv.list b (!asg) false) := by
  rw [genF]

theorem genF_map (z asg : Bool) (k v k' v' : Ty) :
    genF z asg (.map k v) (.map k' v') =
      (match genF z false k k' with
       | .ok kk => (genF z false v v').map (Conv.mapc k' v' kk)
       | .error d => .error d) := by
  rw [genF]

theorem genF_reject (z asg : Bool) (s t : Ty) (hps : isPtrTy s = false) (hpt : isPtrTy t = false) (hr : topRule s t = false) :
    genF z asg s t = .error .typeMismatch := by
  cases s <;> simp [isPtrTy] at hps <;> cases t <;> simp [isPtrTy, topRule] at hpt hr <;> rw [genF] <;> (intros; simp_all)

/-! ### the simulation: `conv` on F is `genF`, at every depth, and leaves the state alone -/

/-- a pure result, paired with the unchanged state -/
def ret (r : Except Diag Conv) (st : GState) : Except Diag (Conv × GState) :=
  match r with
  | .ok p => .ok (p, st)
  | .error d => .error d

theorem wrapRes_ret (r : Except Diag Conv) (st : GState) (k : Conv → Conv) : wrapRes (ret r st) k = ret (r.map k) st := by
  cases r <;> rfl

/-- is the position filled by assignment (a list element), as `noLookup` sees it -/
def asgNL (mode : Mode) : Bool := !(mode == Mode.build)

/-- … and as `conv` sees it: Build, and Assign with Must (a map value), are not -/
def asgOf (mode : Mode) : Bool := asgNL (modeNL mode)

/-- the "plain" situation: no extend function, no declared or generated method with a signature in F of size ≤ N, the two
opt-in settings off, no pending constructor -/
structure Plain (c : Converter) (cx : Ctx) (st : GState) (z : Bool) (N : Nat) : Prop where
  extend : c.extend = []
  lookup : ∀ s t, inF s = true → inF t = true → tySize s + tySize t ≤ N →
    indexGet (lookupIndex st.methods) s t cx.available = .none
  underlying : cx.cfg.common.useUnderlying = false
  skipCopy : cx.cfg.common.skipCopySameType = false
  zero : cx.cfg.common.useZeroValue = z
  ctor : st.useCtor = false

/-- one level of the cascade: if the recursive calls on all smaller pairs agree with `genF`, so does `noLookup` on this pair -/
theorem noLookup_F (c : Converter) (cx : Ctx) (st : GState) (z : Bool)
    (hu : cx.cfg.common.useUnderlying = false) (hsk : cx.cfg.common.skipCopySameType = false)
    (hz0 : cx.cfg.common.useZeroValue = z) (hc : st.useCtor = false)
    (f : Nat) (s t : Ty) (hs : inF s = true) (ht : inF t = true)
    (hrec : ∀ a b, tySize a + tySize b < tySize s + tySize t → inF a = true → inF b = true → ∀ mode pp path,
      conv c f cx mode pp a b path st = ret (genF z (asgOf mode) a b) st) :
    ∀ mode pp path, noLookup c (f+1) cx mode pp s t path st = ret (genF z (asgNL mode) s t) st := by
  intro mode pp path
  by_cases hpt : isPtrTy t = true
  · obtain ⟨b, rfl⟩ : ∃ b, t = .ptr b := by cases t <;> simp [isPtrTy] at hpt; exact ⟨_, rfl⟩
    have htb : inF b = true := by simpa [inF] using ht
    by_cases hps : isPtrTy s = true
    · obtain ⟨a, rfl⟩ : ∃ a, s = .ptr a := by cases s <;> simp [isPtrTy] at hps; exact ⟨_, rfl⟩
      have hsa : inF a = true := by simpa [inF] using hs
      rw [noLookup_ptrPtr c f cx _ pp path st hu hsk hc, genF_ptrPtr,
        hrec a b (by simp [tySize]; omega) hsa htb, wrapRes_ret]
      rfl
    · have hps' : isPtrTy s = false := by simpa using hps
      rw [noLookup_tgtPtr c f cx _ pp path st hu hsk hc s b hs hps', genF_tgtPtr z _ s b hps',
        hrec s b (by simp [tySize]) hs htb, wrapRes_ret]
      rfl
  · have hpt' : isPtrTy t = false := by simpa using hpt
    by_cases hps : isPtrTy s = true
    · obtain ⟨a, rfl⟩ : ∃ a, s = .ptr a := by cases s <;> simp [isPtrTy] at hps; exact ⟨_, rfl⟩
      have hsa : inF a = true := by simpa [inF] using hs
      rw [genF_srcPtr z _ a t hpt']
      cases hz : z with
      | true =>
        rw [noLookup_srcPtr c f cx _ pp path st hu hsk hc a t ht hpt' (by rw [hz0, hz]),
          hrec a t (by simp [tySize]) hsa ht, wrapRes_ret]
        simp [hz]; rfl
      | false =>
        rw [noLookup_srcPtr_off c f cx _ pp path st hu hsk a t ht hpt' (by rw [hz0, hz])]
        rfl
    · have hps' : isPtrTy s = false := by simpa using hps
      by_cases hr : topRule s t = true
      · cases s <;> simp [inF, isPtrTy] at hs hps' <;> cases t <;> simp [inF, isPtrTy, topRule] at ht hpt' hr
        · -- Basic
          rw [noLookup_basic c f cx _ pp path st hu hsk, genF_basic]
          split <;> rfl
        · -- List: slice → slice
          rename_i a b
          rw [noLookup_slice c f cx _ pp path st hu hsk, genF_slice,
            hrec a b (by simp [tySize]; omega) hs ht, wrapRes_ret]
          rfl
        · -- List: array → slice
          rename_i m a b
          rw [noLookup_array c f cx _ pp path st hu hsk, genF_array,
            hrec a b (by simp [tySize]; omega) hs ht, wrapRes_ret]
          simp [asgNL]
          rfl
        · -- Map
          rename_i k v k' v'
          rw [noLookup_map c f cx _ pp path st hu hsk hc, genF_map,
            hrec k k' (by simp [tySize]; omega) hs.1 ht.1]
          have hk : asgOf Mode.build = false := rfl
          rw [hk]
          cases genF z false k k' with
          | error d => rfl
          | ok kk =>
            simp only [ret]
            rw [hrec v v' (by simp [tySize]; omega) hs.2 ht.2, wrapRes_ret]
            rfl
      · have hr' : topRule s t = false := by simpa using hr
        rw [noLookup_reject c f cx _ pp path st hu hsk s t hs ht hps' hpt' hr', genF_reject z _ s t hps' hpt' hr']
        rfl

/-- **`conv` on F is `genF`, at every depth**: with fuel twice the size of the pair -/
theorem conv_F (c : Converter) (cx : Ctx) (st : GState) (z : Bool) (N : Nat) (hp : Plain c cx st z N) :
    ∀ n, n ≤ N → ∀ s t, tySize s + tySize t ≤ n → inF s = true → inF t = true → ∀ fuel, 2 * n ≤ fuel → ∀ mode pp path,
      conv c fuel cx mode pp s t path st = ret (genF z (asgOf mode) s t) st := by
  intro n
  induction n with
  | zero => intro _ s t h; have := tySize_pos s; omega
  | succ n ih =>
    intro hn s t hsz hs ht fuel hf mode pp path
    obtain ⟨f, rfl⟩ : ∃ f, fuel = f + 2 := ⟨fuel - 2, by omega⟩
    have hf' : 2 * n ≤ f := by omega
    rw [conv_step c (f+1) cx mode pp s t path st hp.extend (hp.lookup s t hs ht (by omega)) hs ht hp.skipCopy]
    exact noLookup_F c cx st z hp.underlying hp.skipCopy hp.zero hp.ctor f s t hs ht
      (fun a b hlt ha hb => ih (by omega) a b (by omega) ha hb f hf') (modeNL mode) pp path

/-! ### `genF` succeeds exactly on the documented rule set -/

theorem map_ok {k : Conv → Conv} {r : Except Diag Conv} {p : Conv} (h : r.map k = .ok p) : ∃ q, r = .ok q ∧ p = k q := by
  cases r with
  | error d => cases h
  | ok q => exact ⟨q, rfl, by cases h; rfl⟩

theorem isPtrTy_false_of {s : Ty} (h : ∀ a, s = .ptr a → False) : isPtrTy s = false := by
  cases s <;> simp [isPtrTy] at h ⊢

theorem genF_ok_convertible (z asg : Bool) (s t : Ty) : ∀ p, genF z asg s t = .ok p → Convertible z s t := by
  fun_induction genF z asg s t with
  | case1 asg a b ih => intro p h; obtain ⟨q, hq, _⟩ := map_ok h; exact .ptrPtr (ih q hq)
  | case2 asg s b hn ih => intro p h; obtain ⟨q, hq, _⟩ := map_ok h; exact .tgtPtr (isPtrTy_false_of hn) (ih q hq)
  | case3 asg a t hn hz ih => intro p h; obtain ⟨q, hq, _⟩ := map_ok h; exact .srcPtr hz (isPtrTy_false_of hn) (ih q hq)
  | case4 => intro p h; cases h
  | case5 asg k k' hk => intro p _; exact .basic (by simpa using hk)
  | case6 => intro p h; cases h
  | case7 asg a b ih => intro p h; obtain ⟨q, hq, _⟩ := map_ok h; exact .slice (ih q hq)
  | case8 asg n a b ih => intro p h; obtain ⟨q, hq, _⟩ := map_ok h; exact .array (ih q hq)
  | case9 asg k v k' v' kk hk ih2 ih1 => intro p h; obtain ⟨q, hq, _⟩ := map_ok h; exact .map (ih2 kk hk) (ih1 q hq)
  | case10 => intro p h; cases h
  | case11 => intro p h; cases h

theorem convertible_genF_ok (z : Bool) {s t : Ty} (h : Convertible z s t) : ∀ asg, ∃ p, genF z asg s t = .ok p := by
  induction h with
  | basic hk => intro asg; exact ⟨.ident, by rw [genF_basic]; simp [hk]⟩
  | ptrPtr _ ih => intro asg; obtain ⟨q, hq⟩ := ih false; exact ⟨_, by rw [genF_ptrPtr, hq]; rfl⟩
  | tgtPtr hp _ ih => intro asg; obtain ⟨q, hq⟩ := ih false; exact ⟨_, by rw [genF_tgtPtr _ _ _ _ hp, hq]; rfl⟩
  | srcPtr hz hp _ ih => intro asg; obtain ⟨q, hq⟩ := ih false; exact ⟨_, by rw [genF_srcPtr _ _ _ _ hp, hq, hz]; rfl⟩
  | slice _ ih => intro asg; obtain ⟨q, hq⟩ := ih true; exact ⟨_, by rw [genF_slice, hq]; rfl⟩
  | array _ ih => intro asg; obtain ⟨q, hq⟩ := ih true; exact ⟨_, by rw [genF_array, hq]; rfl⟩
  | map _ _ ih1 ih2 =>
    intro asg; obtain ⟨q1, hq1⟩ := ih1 false; obtain ⟨q2, hq2⟩ := ih2 false
    exact ⟨_, by rw [genF_map, hq1]; simp only []; rw [hq2]; rfl⟩

/-- **`genF` succeeds iff the documented rules cover the pair** (every type, either assignment flag) -/
theorem genF_ok_iff (z asg : Bool) (s t : Ty) : (∃ p, genF z asg s t = .ok p) ↔ Convertible z s t :=
  ⟨fun ⟨p, h⟩ => genF_ok_convertible z asg s t p h, fun h => convertible_genF_ok z h asg⟩

/-- a rejection is a type mismatch (with or without the pointer hint), never a lack of fuel or any other diagnostic -/
theorem genF_error (z asg : Bool) (s t : Ty) : ∀ d, genF z asg s t = .error d → d = .typeMismatch ∨ d = .typeMismatchPtr := by
  have map_err : ∀ {k : Conv → Conv} {r : Except Diag Conv} {d : Diag}, r.map k = .error d → r = .error d := by
    intro k r d h; cases r with
    | error e => cases h; rfl
    | ok q => cases h
  fun_induction genF z asg s t with
  | case1 asg a b ih => intro d h; exact ih d (map_err h)
  | case2 asg s b hn ih => intro d h; exact ih d (map_err h)
  | case3 asg a t hn hz ih => intro d h; exact ih d (map_err h)
  | case4 => intro d h; cases h; exact .inr rfl
  | case5 => intro d h; cases h
  | case6 => intro d h; cases h; exact .inl rfl
  | case7 asg a b ih => intro d h; exact ih d (map_err h)
  | case8 asg n a b ih => intro d h; exact ih d (map_err h)
  | case9 asg k v k' v' kk hk ih2 ih1 => intro d h; exact ih1 d (map_err h)
  | case10 asg k v k' v' d' hk ih => intro d h; cases h; exact ih _ hk
  | case11 => intro d h; cases h; exact .inl rfl

/-! ### the plans are in the checked structural fragment (L-B on F) -/

theorem beq_refl_F : ∀ t : Ty, inF t = true → (t == t) = true
  | .basic k, _ => by show Ty.beq _ _ = true; simp [Ty.beq]
  | .ptr e, h => by
    show Ty.beq _ _ = true; simp only [Ty.beq]; exact beq_refl_F e (by simpa [inF] using h)
  | .slice e, h => by
    show Ty.beq _ _ = true; simp only [Ty.beq]; exact beq_refl_F e (by simpa [inF] using h)
  | .array n e, h => by
    show Ty.beq _ _ = true; simp only [Ty.beq]
    have := beq_refl_F e (by simpa [inF] using h)
    simp; exact this
  | .map k v, h => by
    simp [inF] at h
    show Ty.beq _ _ = true; simp only [Ty.beq]
    have h1 : Ty.beq k k = true := beq_refl_F k h.1
    have h2 : Ty.beq v v = true := beq_refl_F v h.2
    simp [h1, h2]
  | .named _, h => by simp [inF] at h
  | .struct _, h => by simp [inF] at h
  | .opaque _ _, h => by simp [inF] at h

theorem arrayElemFree_false {asg : Bool} {s : Ty} (h : arrayElemFree asg s = true) : arrayElemFree false s = true := by
  cases s <;> simp_all [arrayElemFree]

theorem genF_checked (p : Program) (z asg : Bool) (s t : Ty) :
    ∀ plan, genF z asg s t = .ok plan → inF s = true → inF t = true → aliasFree s = true → aliasFree t = true →
      arrayElemFree asg s = true → checkTy p plan s t = true := by
  fun_induction genF z asg s t with
  | case1 asg a b ih =>
    intro plan h hs ht has hat har; obtain ⟨q, hq, rfl⟩ := map_ok h
    simp [inF, aliasFree, arrayElemFree] at hs ht has hat har
    simp [checkTy, under, beq_refl_F b ht, ih q hq hs ht has hat har]
  | case2 asg s b hn ih =>
    intro plan h hs ht has hat har; obtain ⟨q, hq, rfl⟩ := map_ok h
    have htb : inF b = true := by simpa [inF] using ht
    have hatb : aliasFree b = true := by simpa [aliasFree] using hat
    have := ih q hq hs htb has hatb (arrayElemFree_false har)
    cases s <;> simp [inF] at hs
    · simp [checkTy, under, beq_refl_F b htb, this]
    · exact absurd rfl (hn _)
    · simp [checkTy, under, beq_refl_F b htb, this]
    · simp [checkTy, under, beq_refl_F b htb, this]
    · simp [checkTy, under, beq_refl_F b htb, this]
  | case3 asg a t hn hz ih =>
    intro plan h hs ht has hat har; obtain ⟨q, hq, rfl⟩ := map_ok h
    have hsa : inF a = true := by simpa [inF] using hs
    have hasa : aliasFree a = true := by simpa [aliasFree] using has
    have := ih q hq hsa ht hasa hat (by simpa [arrayElemFree] using har)
    have hb := beq_refl_F t ht
    cases t <;> simp [inF] at ht
    · simp [checkTy, under, hb, this]
    · exact absurd rfl (hn _)
    · simp [checkTy, under, hb, this]
    · simp [checkTy, under, hb, this]
    · simp [checkTy, under, hb, this]
  | case4 => intro plan h; cases h
  | case5 asg k k' hk =>
    intro plan h hs ht has hat har; cases h
    simp [aliasFree] at has hat
    simp at hk
    simp [checkTy, under]
    rw [← has, ← hat, hk]
  | case6 => intro plan h; cases h
  | case7 asg a b ih =>
    intro plan h hs ht has hat har; obtain ⟨q, hq, rfl⟩ := map_ok h
    simp [inF, aliasFree, arrayElemFree] at hs ht has hat har
    simp [checkTy, under, beq_refl_F b ht, ih q hq hs ht has hat har]
  | case8 asg n a b ih =>
    intro plan h hs ht has hat har; obtain ⟨q, hq, rfl⟩ := map_ok h
    simp [inF, aliasFree, arrayElemFree] at hs ht has hat har
    simp [checkTy, under, beq_refl_F b ht, ih q hq hs ht has hat har.2, har.1]
  | case9 asg k v k' v' kk hk ih2 ih1 =>
    intro plan h hs ht has hat har; obtain ⟨q, hq, rfl⟩ := map_ok h
    simp [inF, aliasFree, arrayElemFree] at hs ht has hat har
    simp [checkTy, under, beq_refl_F k' ht.1, beq_refl_F v' ht.2, ih2 kk hk hs.1 ht.1 has.1 hat.1 har.1,
      ih1 q hq hs.2 ht.2 has.2 hat.2 har.2]
  | case10 => intro plan h; cases h
  | case11 => intro plan h; cases h

/-! ### the plain situation from a decidable condition on the method table -/

/-- no declared or generated (non-update) method has a signature inside F of size ≤ N -/
def plainMethodsUpTo (N : Nat) (ms : List GenMethod) : Bool :=
  ms.all (fun m => m.updateTarget || !(inF m.source && inF m.target && decide (tySize m.source + tySize m.target ≤ N)))

/-- no declared or generated (non-update) method has a signature inside F -/
def plainMethods (ms : List GenMethod) : Bool :=
  ms.all (fun m => m.updateTarget || !(inF m.source && inF m.target))

theorem plainMethods_upTo (N : Nat) (ms : List GenMethod) (h : plainMethods ms = true) : plainMethodsUpTo N ms = true := by
  simp only [plainMethods, plainMethodsUpTo, List.all_eq_true] at h ⊢
  intro m hm
  have := h m hm
  cases hu : m.updateTarget <;> simp [hu] at this ⊢
  exact .inl this

theorem lookup_none_of_plain (N : Nat) (ms : List GenMethod) (h : plainMethodsUpTo N ms = true) (s t : Ty)
    (hs : inF s = true) (ht : inF t = true) (hN : tySize s + tySize t ≤ N)
    (av : List Ty) : indexGet (lookupIndex ms) s t av = .none := by
  have hf : (lookupIndex ms).filter (fun (x : Nat × Ty × Ty × List Ty) => x.2.1 == s && x.2.2.1 == t) = [] := by
    rw [List.filter_eq_nil_iff]
    rintro ⟨i, s', t', req⟩ hmem
    simp only [lookupIndex, List.mem_map, List.mem_filter] at hmem
    obtain ⟨⟨m, j⟩, ⟨hm, hup⟩, heq⟩ := hmem
    simp only [Prod.mk.injEq] at heq
    obtain ⟨rfl, rfl, rfl, rfl⟩ := heq
    have hm' : m ∈ ms := by
      obtain ⟨hlt, he⟩ := List.mem_zipIdx' hm
      rw [he]; exact List.getElem_mem hlt
    have hpm := (List.all_eq_true.mp h) m hm'
    intro hbe
    simp only [Bool.and_eq_true] at hbe
    have e1 := Ty.eq_of_beq' hbe.1
    have e2 := Ty.eq_of_beq' hbe.2
    simp at hup
    simp [hup, e1, e2, hs, ht] at hpm
    omega
  unfold indexGet
  simp only []
  have hf' : (lookupIndex ms).filter (fun (x : Nat × Ty × Ty × List Ty) => match x with | (_, s', t', _) => s' == s && t' == t) = [] := by
    rw [← hf]
  rw [hf']
  rfl

/-! ### the statements used by `Gv.Props.C03` -/

theorem plain_of (c : Converter) (cx : Ctx) (st : GState) (z : Bool) (N : Nat)
    (hext : c.extend = []) (hms : plainMethodsUpTo N st.methods = true)
    (hu : cx.cfg.common.useUnderlying = false) (hsk : cx.cfg.common.skipCopySameType = false)
    (hz : cx.cfg.common.useZeroValue = z) (hc : st.useCtor = false) : Plain c cx st z N :=
  { extend := hext, lookup := fun s t hs ht hN => lookup_none_of_plain N st.methods hms s t hs ht hN cx.available,
    underlying := hu, skipCopy := hsk, zero := hz, ctor := hc }

/-- `conv` (generator.Build / Assign) on a pair of F-types is the reference generator, and leaves the state alone -/
theorem conv_fragment (c : Converter) (cx : Ctx) (st : GState) (z : Bool) (s t : Ty) (path : List PathElem) (fuel : Nat)
    (mode : Mode) (pp : Bool) (hs : inF s = true) (ht : inF t = true) (hfuel : 2 * (tySize s + tySize t) ≤ fuel)
    (hext : c.extend = []) (hms : plainMethodsUpTo (tySize s + tySize t) st.methods = true)
    (hu : cx.cfg.common.useUnderlying = false) (hsk : cx.cfg.common.skipCopySameType = false)
    (hz : cx.cfg.common.useZeroValue = z) (hc : st.useCtor = false) :
    conv c fuel cx mode pp s t path st = ret (genF z (asgOf mode) s t) st :=
  conv_F c cx st z _ (plain_of c cx st z _ hext hms hu hsk hz hc) _ (Nat.le_refl _) s t (Nat.le_refl _) hs ht fuel hfuel mode pp path

/-- `noLookup` (buildNoLookup, the entry of a method body) on a pair of F-types: only methods with a strictly SMALLER
F-signature are excluded (the method being built has the signature of the pair itself) -/
theorem noLookup_fragment (c : Converter) (cx : Ctx) (st : GState) (z : Bool) (s t : Ty) (path : List PathElem) (fuel : Nat)
    (mode : Mode) (pp : Bool) (hs : inF s = true) (ht : inF t = true) (hfuel : 2 * (tySize s + tySize t) ≤ fuel)
    (hext : c.extend = []) (hms : plainMethodsUpTo (tySize s + tySize t - 1) st.methods = true)
    (hu : cx.cfg.common.useUnderlying = false) (hsk : cx.cfg.common.skipCopySameType = false)
    (hz : cx.cfg.common.useZeroValue = z) (hc : st.useCtor = false) :
    noLookup c fuel cx mode pp s t path st = ret (genF z (asgNL mode) s t) st := by
  obtain ⟨f, rfl⟩ : ∃ f, fuel = f + 1 := ⟨fuel - 1, by have := tySize_pos s; omega⟩
  have hp := plain_of c cx st z _ hext hms hu hsk hz hc
  exact noLookup_F c cx st z hu hsk hz hc f s t hs ht
    (fun a b hlt ha hb => conv_F c cx st z _ hp _ (Nat.le_refl _) a b (by omega) ha hb f (by omega)) mode pp path

/-! ### one level up: a whole method, and a whole converter with one declared method -/

theorem getMethod_some (i : Nat) (st : GState) (m : GenMethod) (h : st.methods[i]? = some m) : getMethod i st = .ok (m, st) := by
  simp [getMethod, h, bind, StateT.bind, Except.bind, pure, Except.pure, StateT.pure, get, getThe, MonadStateOf.get, StateT.get]

theorem buildMethod_fragment (c : Converter) (idx : Nat) (av : List Ty) (st : GState) (m : GenMethod) (z : Bool) (fuel : Nat)
    (hm : st.methods[idx]? = some m) (hup : m.updateTarget = false) (hctor : m.cfg.constructor = none)
    (hs : inF m.source = true) (ht : inF m.target = true)
    (hfuel : 2 * (tySize m.source + tySize m.target) < fuel)
    (hext : c.extend = []) (hms : plainMethodsUpTo (tySize m.source + tySize m.target - 1) st.methods = true)
    (hu : m.cfg.common.useUnderlying = false) (hsk : m.cfg.common.skipCopySameType = false)
    (hz : m.cfg.common.useZeroValue = z) :
    buildMethod c fuel idx av st =
      match genF z false m.source m.target with
      | .ok plan => .ok ((), { st with methods := st.methods.modify idx (fun m => { m with body := some (.convert plan) }) })
      | .error d => .error d := by
  obtain ⟨f, rfl⟩ : ∃ f, fuel = f + 1 := ⟨fuel - 1, by omega⟩
  unfold buildMethod
  simp only [bind, StateT.bind, Except.bind, getMethod_some idx st m hm]
  simp [hup, extendIndex_nil c hext, indexGet_nil, get, getThe, MonadStateOf.get, StateT.get, set, StateT.set, pure, StateT.pure, Except.pure,
    bind, StateT.bind, Except.bind, hctor]
  rw [noLookup_fragment c _ { st with seen := [], useCtor := false } z m.source m.target [] f .build false hs ht (by omega) hext hms hu hsk hz rfl]
  have ha : asgNL Mode.build = false := rfl
  rw [ha]
  cases genF z false m.source m.target with
  | error d => rfl
  | ok plan =>
    simp [ret, modifyMethod, modify, modifyGet, MonadStateOf.modifyGet, StateT.modifyGet, pure, Except.pure]

/-- the declared method as `setup` enters it into the table -/
def declaredMethod (d : Declared) : GenMethod :=
  { name := d.name, source := d.source, target := d.target, args := d.args, contexts := d.contexts,
    returnError := d.returnError, updateTarget := d.updateTarget, explicit := true, dirty := true,
    originPath := [], originName := d.name, cfg := d.cfg }

theorem setup_single (c : Converter) (d : Declared) (hup : d.updateTarget = false) (hraw : d.cfg.rawFieldSettings = []) :
    setup c [d] = .ok [declaredMethod d] := by
  unfold setup
  simp [List.foldlM, bind, Except.bind, pure, Except.pure, hraw, hup, declaredMethod, List.mergeSort_singleton]

theorem generate_single (c : Converter) (d : Declared) (z : Bool) (fuel rounds : Nat)
    (hup : d.updateTarget = false) (hraw : d.cfg.rawFieldSettings = []) (hctor : d.cfg.constructor = none)
    (hs : inF d.source = true) (ht : inF d.target = true)
    (hfuel : 2 * (tySize d.source + tySize d.target) < fuel) (hrounds : 2 ≤ rounds)
    (hext : c.extend = [])
    (hu : d.cfg.common.useUnderlying = false) (hsk : d.cfg.common.skipCopySameType = false)
    (hz : d.cfg.common.useZeroValue = z) :
    generate c [d] fuel rounds =
      match genF z false d.source d.target with
      | .ok plan => .ok [{ declaredMethod d with dirty := false, body := some (.convert plan) }]
      | .error e => .error e := by
  obtain ⟨r, rfl⟩ : ∃ r, rounds = r + 2 := ⟨rounds - 2, by omega⟩
  unfold generate
  rw [setup_single c d hup hraw]
  simp only [bind, Except.bind]
  unfold buildDirty
  simp [StateT.run, bind, StateT.bind, Except.bind, pure, StateT.pure, Except.pure, get, getThe, MonadStateOf.get, StateT.get,
    declaredMethod, List.zipIdx, List.mergeSort_singleton, getMethod, modifyMethod, modify, modifyGet, MonadStateOf.modifyGet, StateT.modifyGet]
  have hms : plainMethodsUpTo (tySize d.source + tySize d.target - 1) [{ declaredMethod d with dirty := false }] = true := by
    have := tySize_pos d.source
    simp [plainMethodsUpTo, declaredMethod, hup, hs, ht]
    omega
  have hb := buildMethod_fragment c 0 d.contexts
    { methods := [{ declaredMethod d with dirty := false }], fileNames := [Facts.thisVar.toList], seen := [], useCtor := false }
    { declaredMethod d with dirty := false } z fuel rfl hup hctor hs ht hfuel hext hms hu hsk hz
  simp only [declaredMethod] at hb
  rw [hb]
  cases genF z false d.source d.target with
  | error e => rfl
  | ok plan =>
    simp only []
    unfold buildDirty
    simp [StateT.pure, pure, bind, StateT.bind, Except.bind, Except.pure, get, getThe, MonadStateOf.get, StateT.get, List.modify]

end Gv.Gen
