/-
The generator on the fragment F of unnamed, struct-free types (Gv.Spec.inF): `conv` is simulated, for ALL depths, by a
reference function `genF` defined by recursion on the pair of types; `genF` succeeds exactly on the documented rule
set `Gv.Spec.Convertible`.  Property statement: `Gv.Props.C03.C03_iff_unnamed_fragment`.
-/
import Gv.Model.Gen
import Gv.Model.PlanCheck
import Gv.Spec.Convertible
import Gv.Proofs.GenLemmas
import Gv.Proofs.TyEq

namespace Gv.Gen
open Gv Gv.Spec Gv.PlanCheck Gv.Eval

/-! ### the lookups find nothing, no sub-method is created -/

theorem extendIndex_nil (c : Converter) (h : c.extend = []) : extendIndex c = [] := by
  simp [extendIndex, h]

theorem indexGet_nil (s t : Ty) (av : List Ty) : indexGet [] s t av = .none := by
  simp [indexGet]

theorem callExisting_none (c : Converter) (cx : Ctx) (s t : Ty) (path : List PathElem) (st : GState)
    (he : c.extend = [])
    (hl : indexGet (lookupIndex st.methods) s t cx.available = .none) :
    callExisting c cx s t path st = .ok (none, st) := by
  unfold callExisting
  simp [extendIndex_nil c he, indexGet_nil, hl, bind, StateT.bind, Except.bind, pure, Except.pure, StateT.pure, get, getThe,
    MonadStateOf.get, StateT.get]

macro "msimp" : tactic => `(tactic|
  simp [isStruct, isPtr, isBasic, under, enumMembers, Ty.isNamed, bind, StateT.bind, Except.bind, pure, Except.pure, StateT.pure, get,
    getThe, MonadStateOf.get, StateT.get, *])

theorem shouldCreate_F (c : Converter) (cx : Ctx) (s t : Ty) (st : GState)
    (hs : inFS s = true) (ht : inFS t = true) (hsk : cx.cfg.common.skipCopySameType = false) :
    shouldCreateSubMethod c cx s t st = .ok (false, st) := by
  unfold shouldCreateSubMethod
  cases s with
  | ptr e => cases e <;> cases t <;> simp [inFS] at hs ht <;> msimp
  | struct sfs =>
    cases t <;> simp [inFS] at hs ht <;> msimp
  | _ => cases t <;> simp [inFS] at hs ht <;> msimp

/-- the mode `conv` hands to `noLookup` (Assign with Must goes through Build) -/
def modeNL : Mode → Mode
  | .assign true _ => .build
  | m => m

theorem conv_step (c : Converter) (f : Nat) (cx : Ctx) (mode : Mode) (pp : Bool) (s t : Ty) (path : List PathElem) (st : GState)
    (he : c.extend = [])
    (hl : indexGet (lookupIndex st.methods) s t cx.available = .none)
    (hs : inFS s = true) (ht : inFS t = true) (hsk : cx.cfg.common.skipCopySameType = false) :
    conv c (f+1) cx mode pp s t path st = noLookup c f cx (modeNL mode) pp s t path st := by
  unfold conv
  simp only [bind, StateT.bind, Except.bind, callExisting_none c cx s t path st he hl, shouldCreate_F c cx s t st hs ht hsk]
  simp
  rfl

theorem targetVar_off (c : Converter) (cx : Ctx) (s t : Ty) (path : List PathElem) (st : GState) (h : st.useCtor = false) :
    targetVar c cx s t path st = .ok (none, st) := by
  unfold targetVar
  simp [h, bind, StateT.bind, Except.bind, pure, Except.pure, StateT.pure, get, getThe, MonadStateOf.get, StateT.get]

/-! ### one lemma per rule: what `noLookup` does at each shape, in terms of its recursive calls -/

/-- how a rule wraps the result of its recursive call -/
def wrapRes (r : Except Diag (Conv × GState)) (k : Conv → Conv) : Except Diag (Conv × GState) :=
  match r with
  | .ok (inner, st') => .ok (k inner, st')
  | .error d => .error d

macro "nl_simp" : tactic => `(tactic|
  simp [isStruct, isPtr, isBasic, isList, isMap, under, isEnumPair, enumMembers, typeMismatch, fail, bind, StateT.bind, Except.bind,
    pure, Except.pure, StateT.pure, get, getThe, MonadStateOf.get, StateT.get, throw, throwThe, MonadExceptOf.throw, StateT.lift, Ty.isNamed,
    withVar, *])

macro "wrap_close" : tactic => `(tactic|
  (simp [wrapRes, StateT.bind, StateT.get, StateT.pure, bind, Except.bind, pure, Except.pure, targetVar_off, *] <;>
   (generalize conv _ _ _ _ _ _ _ _ _ = r; rcases r with _ | ⟨_, _⟩ <;> rfl)))

section
variable (c : Converter) (f : Nat) (cx : Ctx) (mode : Mode) (pp : Bool) (path : List PathElem) (st : GState)
  (hu : cx.cfg.common.useUnderlying = false) (hsk : cx.cfg.common.skipCopySameType = false)
  (hc : st.useCtor = false)
include hu hsk hc

theorem noLookup_ptrPtr (a b : Ty) :
    noLookup c (f+1) cx mode pp (.ptr a) (.ptr b) path st =
      wrapRes (conv c f cx .build true a b path st) (.ptrPtr b) := by
  unfold noLookup
  nl_simp
  split <;> wrap_close

theorem noLookup_tgtPtr (s b : Ty) (hs : inFS s = true) (hp : isPtrTy s = false) :
    noLookup c (f+1) cx mode pp s (.ptr b) path st =
      wrapRes (conv c f cx .build false s b path st) (.tgtPtr b) := by
  unfold noLookup
  cases s <;> simp [inFS, isPtrTy] at hs hp <;> nl_simp
  all_goals (try split)
  all_goals wrap_close

theorem noLookup_srcPtr (a t : Ty) (ht : inFS t = true) (hp : isPtrTy t = false) (hz : cx.cfg.common.useZeroValue = true) :
    noLookup c (f+1) cx mode pp (.ptr a) t path st =
      wrapRes (conv c f cx .build true a t path st) (.srcPtr t) := by
  unfold noLookup
  cases t <;> simp [inFS, isPtrTy] at ht hp <;> nl_simp
  all_goals (try split)
  all_goals wrap_close

omit hc in
theorem noLookup_srcPtr_off (a t : Ty) (ht : inFS t = true) (hp : isPtrTy t = false) (hz : cx.cfg.common.useZeroValue = false) :
    noLookup c (f+1) cx mode pp (.ptr a) t path st = .error .typeMismatchPtr := by
  unfold noLookup
  cases t <;> simp [inFS, isPtrTy] at ht hp <;> nl_simp

omit hc in
theorem noLookup_basic (k k' : Kind) :
    noLookup c (f+1) cx mode pp (.basic k) (.basic k') path st =
      if k.canon == k'.canon then .ok (.ident, st) else .error .typeMismatch := by
  unfold noLookup
  nl_simp
  split <;> rfl

omit hc in
theorem noLookup_slice (a b : Ty) :
    noLookup c (f+1) cx mode pp (.slice a) (.slice b) path st =
      wrapRes (conv c f cx (.assign false false) false a b (path ++ [.index]) st) (.list b true true) := by
  unfold noLookup
  nl_simp
  cases mode <;> wrap_close

omit hc in
theorem noLookup_array (n : Nat) (a b : Ty) :
    noLookup c (f+1) cx mode pp (.array n a) (.slice b) path st =
      wrapRes (conv c f cx (.assign false false) false a b (path ++ [.index]) st) (.list b (mode == .build) false) := by
  unfold noLookup
  nl_simp
  cases mode <;> wrap_close

theorem noLookup_map (k v k' v' : Ty) :
    noLookup c (f+1) cx mode pp (.map k v) (.map k' v') path st =
      (match conv c f cx .build false k k' (path ++ [.key]) st with
       | .ok (kk, st1) => wrapRes (conv c f cx (.assign true false) false v v' (path ++ [.key]) st1) (.mapc k' v' kk)
       | .error d => .error d) := by
  unfold noLookup
  nl_simp
  split <;> simp [wrapRes, StateT.bind, StateT.get, StateT.pure, bind, Except.bind, pure, Except.pure, targetVar_off, *] <;>
    (generalize conv _ _ _ _ _ _ _ _ st = r; rcases r with _ | ⟨kk, st1⟩
     · rfl
     · simp only []
       generalize conv _ _ _ _ _ _ _ _ st1 = r2; rcases r2 with _ | ⟨_, _⟩ <;> rfl)

/-- the non-pointer shapes that have a rule of their own: Basic, List (target not an array), Map -/
def topRule : Ty → Ty → Bool
  | .basic _, .basic _ => true
  | .slice _, .slice _ => true
  | .array _ _, .slice _ => true
  | .map _ _, .map _ _ => true
  | .struct _, .struct _ => true
  | _, _ => false

omit hc in
theorem noLookup_reject (s t : Ty) (hs : inFS s = true) (ht : inFS t = true) (hps : isPtrTy s = false) (hpt : isPtrTy t = false)
    (hr : topRule s t = false) :
    noLookup c (f+1) cx mode pp s t path st = .error .typeMismatch := by
  unfold noLookup
  cases s <;> simp [inFS, isPtrTy] at hs hps <;> cases t <;> simp [inFS, isPtrTy, topRule] at ht hpt hr <;> nl_simp

end

/-! ### the Struct rule on an unnamed struct without settings: field lookup, `structFields`, `structAssign`, `noLookup` -/

theorem scan_fields (name : Str.S) : ∀ (fs : Fields) (acc : List FieldHit),
    findAllFields.scan name false (fun h => match h with | FieldHit.field n _ => n | FieldHit.method n _ _ => n)
      (fs.toList.map (fun (x : FieldInfo × Ty) => match x with | (f, ty) => FieldHit.field f.name ty)) acc =
      ((fieldTy fs name).map (FieldHit.field name), acc)
  | .nil, acc => by simp [Fields.toList, findAllFields.scan, fieldTy]
  | .cons f t r, acc => by
    simp only [Fields.toList, List.map_cons, findAllFields.scan, fieldTy]
    by_cases h : (f.name == name) = true
    · have : f.name = name := eq_of_beq h
      simp [h, this]
    · simp [h]
      exact scan_fields name r acc

theorem findAllFields_struct (c : Converter) (sfs : Fields) (name : Str.S) :
    findAllFields c (.struct sfs) name false = ((fieldTy sfs name).map (FieldHit.field name), []) := by
  unfold findAllFields
  simp only [isStruct, under, List.append_nil]
  exact scan_fields name sfs []

theorem findField_struct (c : Converter) (sfs : Fields) (name : Str.S) :
    findField c name false (.struct sfs) [] =
      (match fieldTy sfs name with
       | some ty => .one [] (.field name ty)
       | none => .noMatch) := by
  unfold findField
  rw [findAllFields_struct]
  cases fieldTy sfs name <;> simp

theorem findExactField_struct (c : Converter) (sfs : Fields) (name : Str.S) :
    findExactField c (.struct sfs) name = (fieldTy sfs name).map (FieldHit.field name) := by
  unfold findExactField
  rw [findAllFields_struct]

/-- the overlapping-definitions check of the Struct rule finds nothing: every method of the table has no raw field settings, or
a signature without pointers (the check looks at signatures with a pointer on at least one side), or the signature of the method
being built (which the check skips) -/
def RawOK (cx : Ctx) (st : GState) : Prop :=
  ∀ m ∈ st.methods, m.cfg.rawFieldSettings = [] ∨ (isPtrTy m.source = false ∧ isPtrTy m.target = false) ∨
    (m.source = cx.sigSource ∧ m.target = cx.sigTarget)

/-- no field setting applies at target `t`: the method has none, or `t` is not the method's `FieldsTarget` -/
def FieldsOff (cx : Ctx) (t : Ty) : Prop := cx.cfg.fields = [] ∨ (cx.fieldsTarget == t) = false

theorem fieldCfgOf_off {cx : Ctx} {t : Ty} (h : FieldsOff cx t) (n : Str.S) : fieldCfgOf cx t n = {} := by
  unfold fieldCfgOf
  rcases h with h | h <;> simp [h]

theorem defined_off {cx : Ctx} {t : Ty} (h : FieldsOff cx t) :
    (if cx.fieldsTarget == t then cx.cfg.fields.map (·.1) else []) = [] := by
  rcases h with h | h <;> simp [h]

/-- the settings under which a struct is converted by the bare Struct rule: no field setting applies at any target type of size
≤ K, and only methods between non-pointer types carry field settings (the overlapping-definitions check looks at the pointer
variants of a struct pair) -/
structure StructPlain (cx : Ctx) (st : GState) (K : Nat) : Prop where
  noIgnoreCase : cx.cfg.common.matchIgnoreCase = false
  noIgnoreMissing : cx.cfg.common.ignoreMissing = false
  fields : ∀ t, tySize t ≤ K → FieldsOff cx t
  autoMap : cx.cfg.autoMap = []
  noUpdate : cx.updateTarget = false
  noRaw : RawOK cx st

theorem StructPlain.mono {cx : Ctx} {st : GState} {K K' : Nat} (h : K' ≤ K) (sp : StructPlain cx st K) : StructPlain cx st K' :=
  { sp with fields := fun t ht => sp.fields t (Nat.le_trans ht h) }

theorem mapField_struct (c : Converter) (cx : Ctx) (st : GState) {K : Nat} (sp : StructPlain cx st K) (t : Ty) (hK : tySize t ≤ K)
    (sfs : Fields) (name : Str.S) (hsf : inFSFields sfs = true) :
    mapField c cx t name (.struct sfs) [] =
      (match fieldTy sfs name with
       | some sty => .ok (some { path := [name], derefs := [false], guarded := false, leafIsPtr := isPtrTy sty, nextSource := sty })
       | none => .error .noMatch) := by
  have hcfg : fieldCfgOf cx t name = {} := fieldCfgOf_off (sp.fields t hK) name
  unfold mapField
  simp only [hcfg]
  cases hf : fieldTy sfs name with
  | none =>
    simp [sp.noIgnoreCase, sp.noIgnoreMissing, findField_struct, hf, bind, Except.bind, throw, throwThe, MonadExceptOf.throw]
  | some sty =>
    have hsty := inFS_fieldTy hsf hf
    have hw : walkPath c [name] (.struct sfs) [] false = .ok (sty, [false], false, none) := by
      simp [walkPath, isPtr, isStruct, under, findExactField_struct, hf]
    simp [sp.noIgnoreCase, findField_struct, hf, hw, bind, Except.bind, pure, Except.pure]
    cases sty <;> simp [inFS] at hsty <;> simp [under, isPtr, isPtrTy]

theorem parseAutoMap_nil (c : Converter) (cx : Ctx) (s : Ty) (h : cx.cfg.autoMap = []) : parseAutoMap c cx s = .ok [] := by
  simp [parseAutoMap, h, List.foldlM, pure, Except.pure]

theorem structAssign_plain (c : Converter) (f : Nat) (cx : Ctx) (st : GState) {K : Nat} (sp : StructPlain cx st K) (isUpdate pp : Bool)
    (s : Ty) (tfs : Fields) (hK : tySize (.struct tfs) ≤ K) (path : List PathElem) :
    structAssign c (f+1) cx isUpdate pp s (.struct tfs) path st =
      (match structFields c f cx isUpdate pp s (.struct tfs) path [] tfs.toList st with
       | .ok (plans, st') => .ok (.structc (FieldPlans.ofList plans) isUpdate, st')
       | .error d => .error d) := by
  unfold structAssign
  simp [parseAutoMap_nil c cx s sp.autoMap, defined_off (sp.fields _ hK), isStruct, under, bind, StateT.bind, Except.bind, pure,
    StateT.pure, Except.pure]
  generalize structFields c f cx isUpdate pp s (Ty.struct tfs) path [] tfs.toList st = r
  rcases r with _ | ⟨_, _⟩ <;> rfl

theorem structFields_nil (c : Converter) (f : Nat) (cx : Ctx) (st : GState) (isUpdate pp : Bool) (s t : Ty) (path : List PathElem)
    (extra : List (List Str.S × Ty)) :
    structFields c (f+1) cx isUpdate pp s t path extra [] st = .ok ([], st) := by
  unfold structFields; rfl

theorem structFields_cons (c : Converter) (f : Nat) (cx : Ctx) (st : GState) {K : Nat} (sp : StructPlain cx st K) (pp : Bool)
    (sfs : Fields) (t : Ty) (hK : tySize t ≤ K) (path : List PathElem) (fi : FieldInfo) (fty : Ty) (rest : List (FieldInfo × Ty))
    (hsf : inFSFields sfs = true) (hex : fi.exported = true) :
    structFields c (f+1) cx false pp (.struct sfs) t path [] ((fi, fty) :: rest) st =
      (match fieldTy sfs fi.name with
       | none => .error .noMatch
       | some sty =>
         match conv c f cx (.assign false false) false sty fty (path ++ [.field fi.name]) st with
         | .error d => .error d
         | .ok (cv, st1) =>
           match structFields c f cx false pp (.struct sfs) t path [] rest st1 with
           | .error d => .error d
           | .ok (more, st2) =>
             .ok (FieldPlan.mapped fi.name [fi.name] [false] false (isPtrTy sty) cv .none :: more, st2)) := by
  have hcfg : fieldCfgOf cx t fi.name = {} := fieldCfgOf_off (sp.fields t hK) fi.name
  conv => lhs; unfold structFields
  simp only [hcfg, mapField_struct c cx st sp t hK sfs fi.name hsf]
  cases hf : fieldTy sfs fi.name with
  | none =>
    simp [hex, fieldAccessible, fail, bind, StateT.bind, Except.bind, pure, StateT.pure, Except.pure, throw, throwThe, MonadExceptOf.throw, StateT.lift]
  | some sty =>
    simp [hex, fieldAccessible, structMethodCall, shouldCheckZero, sp.noUpdate, fail, bind, StateT.bind, Except.bind, pure, StateT.pure, Except.pure]
    generalize conv c f cx (Mode.assign false false) false sty fty (path ++ [PathElem.field fi.name]) st = r
    rcases r with _ | ⟨cv, st1⟩
    · rfl
    · simp only []
      generalize structFields c f cx false pp (Ty.struct sfs) t path [] rest st1 = r2
      rcases r2 with _ | ⟨_, _⟩ <;> rfl

theorem any_false_of {α : Type} (l : List α) (g : α → Bool) (h : ∀ x ∈ l, g x = false) : l.any g = false := by
  rw [List.any_eq_false]; intro x hx; simp [h x hx]

theorem mem_lookupIndex {ms : List GenMethod} {x : Nat × Ty × Ty × List Ty} (hx : x ∈ lookupIndex ms) :
    ∃ m, ms[x.1]? = some m ∧ x.2.1 = m.source ∧ x.2.2.1 = m.target := by
  simp only [lookupIndex, List.mem_map, List.mem_filter] at hx
  obtain ⟨⟨m, j⟩, ⟨hm, _⟩, rfl⟩ := hx
  obtain ⟨hlt, he⟩ := List.mem_zipIdx' hm
  exact ⟨m, by simp [he, List.getElem?_eq_getElem hlt], rfl, rfl⟩

theorem beq_ptr_false {a b : Ty} (h : isPtrTy a = false) : (a == Ty.ptr b) = false := by
  cases hb : (a == Ty.ptr b) with
  | false => rfl
  | true => have := Ty.eq_of_beq' hb; subst this; simp [isPtrTy] at h

theorem ite_guard {α : Type} (G : Prop) [Decidable G] (A : Bool) (X Y : α) (h : G → A = false) :
    (if G then (if A = true then X else Y) else Y) = Y := by
  by_cases hG : G
  · simp [hG, h hG]
  · simp [hG]

macro "overlap_none" hr:ident : tactic => `(tactic|
  (intro hG
   apply any_false_of
   intro x hx
   obtain ⟨m, hm, h1, h2⟩ := mem_lookupIndex hx
   rcases $hr m (List.mem_of_getElem? hm) with h | ⟨hs, ht⟩ | ⟨e1, e2⟩
   · simp [hm, h]
   · simp [hm, h1, h2, beq_ptr_false hs, beq_ptr_false ht]
   · rcases hG with hG | hG <;> simp [hm, h1, h2, e1, e2, hG]))

theorem noLookup_struct (c : Converter) (f : Nat) (cx : Ctx) (mode : Mode) (pp : Bool) (path : List PathElem) (st : GState)
    (hu : cx.cfg.common.useUnderlying = false) (hsk : cx.cfg.common.skipCopySameType = false)
    (hc : st.useCtor = false) (hraw : RawOK cx st) (sfs tfs : Fields) :
    noLookup c (f+1) cx mode pp (.struct sfs) (.struct tfs) path st =
      if mode == .build && sfs.length == 0 && tfs.length == 0 then .ok (.ident, st)
      else structAssign c f cx mode.isUpdate pp (.struct sfs) (.struct tfs) path st := by
  unfold noLookup
  simp [isStruct, isPtr, isBasic, isList, isMap, under, isEnumPair, enumMembers, typeMismatch, fail, bind, StateT.bind, Except.bind,
    pure, Except.pure, StateT.pure, get, getThe, MonadStateOf.get, StateT.get, throw, throwThe, MonadExceptOf.throw, StateT.lift, Ty.isNamed,
    withVar, hu, hsk]
  rw [ite_guard]
  rotate_left
  · overlap_none hraw
  rw [ite_guard]
  rotate_left
  · overlap_none hraw
  rw [ite_guard]
  rotate_left
  · overlap_none hraw
  simp only [Bool.false_eq_true, if_false, ite_self, StateT.bind, bind, Except.bind, StateT.pure, pure, Except.pure]
  by_cases h1 : mode = Mode.build ∧ sfs.length = 0 ∧ tfs.length = 0
  · have h1' : (mode = Mode.build ∧ sfs.length = 0) ∧ tfs.length = 0 := ⟨⟨h1.1, h1.2.1⟩, h1.2.2⟩
    simp only [h1, h1', if_true]; rfl
  · have h1' : ¬ ((mode = Mode.build ∧ sfs.length = 0) ∧ tfs.length = 0) := fun h => h1 ⟨h.1.1, h.1.2, h.2⟩
    simp only [h1, h1', if_false]
    by_cases h2 : mode = Mode.build <;>
      simp only [h2, if_true, if_false, StateT.bind, targetVar_off c cx _ _ path st hc, StateT.pure, bind, Except.bind, pure, Except.pure] <;>
      (generalize structAssign c f cx _ pp (Ty.struct sfs) (Ty.struct tfs) path st = r; rcases r with _ | ⟨_, _⟩ <;> rfl)

/-! ### the reference generator on F -/

mutual
  /-- What the generator does on a pair of FS-types, by recursion on the pair: the plan, or the diagnostic of the first position
  without a rule.  `asg` = the position is filled by assignment (a list element or a struct field), where an array source gets no
  `make` and two empty structs are not short-cut to a plain assignment. -/
  def genF (z : Bool) (asg : Bool) (s t : Ty) : Except Diag Conv :=
    match s, t with
    | .ptr a, .ptr b => (genF z false a b).map (Conv.ptrPtr b)
    | s, .ptr b => (genF z false s b).map (Conv.tgtPtr b)
    | .ptr a, t => if z then (genF z false a t).map (Conv.srcPtr t) else .error .typeMismatchPtr
    | .basic k, .basic k' => if k.canon == k'.canon then .ok .ident else .error .typeMismatch
    | .slice a, .slice b => (genF z true a b).map (Conv.list b true true)
    | .array _ a, .slice b => (genF z true a b).map (Conv.list b (!asg) false)
    | .map k v, .map k' v' =>
      (match genF z false k k' with
       | .ok kk => (genF z false v v').map (Conv.mapc k' v' kk)
       | .error d => .error d)
    | .struct sfs, .struct tfs =>
      if !asg && sfs.length == 0 && tfs.length == 0 then .ok .ident
      else (genFields z sfs tfs).map (fun ps => Conv.structc (FieldPlans.ofList ps) false)
    | _, _ => .error .typeMismatch
  termination_by tySize s + tySize t
  decreasing_by
    all_goals simp only [tySize]
    all_goals omega
  /-- the field plans of the Struct rule, in target-field order: each target field from the source field of its name -/
  def genFields (z : Bool) (sfs tfs : Fields) : Except Diag (List FieldPlan) :=
    match tfs with
    | .nil => .ok []
    | .cons f ty rest =>
      match h : fieldTy sfs f.name with
      | none => .error .noMatch
      | some sty =>
        match genF z true sty ty with
        | .error d => .error d
        | .ok cv =>
          match genFields z sfs rest with
          | .error d => .error d
          | .ok more => .ok (FieldPlan.mapped f.name [f.name] [false] false (isPtrTy sty) cv .none :: more)
  termination_by fieldsSize sfs + 1 + fieldsSize tfs
  decreasing_by
    · have := fieldTy_size h; simp only [fieldsSize]; omega
    · simp only [fieldsSize]; omega
end

theorem genF_ptrPtr (z asg : Bool) (a b : Ty) :
    genF z asg (.ptr a) (.ptr b) = (genF z false a b).map (Conv.ptrPtr b) := by
  rw [genF]

theorem genF_tgtPtr (z asg : Bool) (s b : Ty) (hp : isPtrTy s = false) :
    genF z asg s (.ptr b) = (genF z false s b).map (Conv.tgtPtr b) := by
  cases s <;> simp [isPtrTy] at hp <;> rw [genF] <;> (intros; simp_all)

theorem genF_srcPtr (z asg : Bool) (a t : Ty) (hp : isPtrTy t = false) :
    genF z asg (.ptr a) t = if z then (genF z false a t).map (Conv.srcPtr t) else .error .typeMismatchPtr := by
  cases t <;> simp [isPtrTy] at hp <;> rw [genF] <;> (intros; simp_all)

theorem genF_basic (z asg : Bool) (k k' : Kind) :
    genF z asg (.basic k) (.basic k') = if k.canon == k'.canon then .ok .ident else .error .typeMismatch := by
  rw [genF]

theorem genF_slice (z asg : Bool) (a b : Ty) :
    genF z asg (.slice a) (.slice b) = (genF z true a b).map (Conv.list b true true) := by
  rw [genF]

theorem genF_array (z asg : Bool) (n : Nat) (a b : Ty) :
    genF z asg (.array n a) (.slice b) = (genF z true a b).map (Conv.list b (!asg) false) := by
  rw [genF]

theorem genF_map (z asg : Bool) (k v k' v' : Ty) :
    genF z asg (.map k v) (.map k' v') =
      (match genF z false k k' with
       | .ok kk => (genF z false v v').map (Conv.mapc k' v' kk)
       | .error d => .error d) := by
  rw [genF]

theorem genF_reject (z asg : Bool) (s t : Ty) (hps : isPtrTy s = false) (hpt : isPtrTy t = false) (hr : topRule s t = false) :
    genF z asg s t = .error .typeMismatch := by
  cases s <;> simp [isPtrTy] at hps <;> cases t <;> simp [isPtrTy, topRule] at hpt hr <;> rw [genF] <;> (intros; simp_all)

theorem genF_struct (z asg : Bool) (sfs tfs : Fields) :
    genF z asg (.struct sfs) (.struct tfs) =
      if !asg && sfs.length == 0 && tfs.length == 0 then .ok .ident
      else (genFields z sfs tfs).map (fun ps => Conv.structc (FieldPlans.ofList ps) false) := by
  rw [genF]

theorem genFields_nil (z : Bool) (sfs : Fields) : genFields z sfs .nil = .ok [] := by
  rw [genFields]

theorem genFields_cons (z : Bool) (sfs : Fields) (f : FieldInfo) (ty : Ty) (rest : Fields) :
    genFields z sfs (.cons f ty rest) =
      (match fieldTy sfs f.name with
       | none => .error .noMatch
       | some sty =>
         match genF z true sty ty with
         | .error d => .error d
         | .ok cv =>
           match genFields z sfs rest with
           | .error d => .error d
           | .ok more => .ok (FieldPlan.mapped f.name [f.name] [false] false (isPtrTy sty) cv .none :: more)) := by
  rw [genFields]
  split <;> rename_i h <;> simp [h]

/-! ### the simulation: `conv` on F / FS is `genF`, at every depth, and leaves the state alone -/

/-- a pure result, paired with the unchanged state -/
def ret {α : Type} (r : Except Diag α) (st : GState) : Except Diag (α × GState) :=
  match r with
  | .ok p => .ok (p, st)
  | .error d => .error d

theorem wrapRes_ret (r : Except Diag Conv) (st : GState) (k : Conv → Conv) : wrapRes (ret r st) k = ret (r.map k) st := by
  cases r <;> rfl

/-- is the position filled by assignment (a list element), as `noLookup` sees it -/
def asgNL (mode : Mode) : Bool := !(mode == Mode.build)

/-- … and as `conv` sees it: Build, and Assign with Must (a map value), are not -/
def asgOf (mode : Mode) : Bool := asgNL (modeNL mode)

theorem isUpdate_modeNL {mode : Mode} (h : mode.isUpdate = false) : (modeNL mode).isUpdate = false := by
  rcases mode with _ | ⟨_ | _, _⟩ <;> simp_all [modeNL, Mode.isUpdate]

/-- the fragment: F (`ws = false`) or FS (`ws = true`: with unnamed structs) -/
def frag : Bool → Ty → Bool
  | true, t => inFS t
  | false, t => inF t

theorem frag_inFS {ws : Bool} {t : Ty} (h : frag ws t = true) : inFS t = true := by
  cases ws
  · exact inFS_of_inF t h
  · exact h

theorem frag_ptr {ws : Bool} {a : Ty} (h : frag ws (.ptr a) = true) : frag ws a = true := by
  cases ws <;> simpa [frag, inF, inFS] using h
theorem frag_slice {ws : Bool} {a : Ty} (h : frag ws (.slice a) = true) : frag ws a = true := by
  cases ws <;> simpa [frag, inF, inFS] using h
theorem frag_array {ws : Bool} {n : Nat} {a : Ty} (h : frag ws (.array n a) = true) : frag ws a = true := by
  cases ws <;> simpa [frag, inF, inFS] using h
theorem frag_map {ws : Bool} {k v : Ty} (h : frag ws (.map k v) = true) : frag ws k = true ∧ frag ws v = true := by
  cases ws <;> simpa [frag, inF, inFS] using h
theorem frag_struct {ws : Bool} {fs : Fields} (h : frag ws (.struct fs) = true) : ws = true ∧ inFSFields fs = true := by
  cases ws <;> simp [frag, inF, inFS] at h ⊢; exact h

/-- the "plain" situation: no extend function, no declared or generated method with a signature in the fragment of size ≤ N,
the two opt-in settings off, no pending constructor; with structs, no field settings either -/
structure Plain (c : Converter) (cx : Ctx) (st : GState) (z : Bool) (ws : Bool) (N K : Nat) : Prop where
  extend : c.extend = []
  lookup : ∀ s t, frag ws s = true → frag ws t = true → tySize s + tySize t ≤ N →
    indexGet (lookupIndex st.methods) s t cx.available = .none
  underlying : cx.cfg.common.useUnderlying = false
  skipCopy : cx.cfg.common.skipCopySameType = false
  zero : cx.cfg.common.useZeroValue = z
  ctor : st.useCtor = false
  structs : ws = true → StructPlain cx st K

/-- the fields of a target struct, one after the other: if the recursive calls agree with `genF`, `structFields` is `genFields` -/
theorem structFields_F (c : Converter) (cx : Ctx) (st : GState) (z : Bool) {K : Nat} (sp : StructPlain cx st K) (pp : Bool)
    (sfs : Fields) (t : Ty) (hK : tySize t ≤ K) (path : List PathElem) (hsf : inFSFields sfs = true) (M : Nat)
    (hrec : ∀ a b, tySize a < fieldsSize sfs → tySize b ≤ M → inFS a = true → inFS b = true →
      ∀ fuel', 2 * (tySize a + tySize b) ≤ fuel' → ∀ path',
        conv c fuel' cx (.assign false false) false a b path' st = ret (genF z true a b) st) :
    ∀ (rest : Fields), inFSFields rest = true → fieldsSize rest ≤ M → ∀ g, 2 * fieldsSize sfs + 2 * fieldsSize rest + 1 ≤ g →
      structFields c g cx false pp (.struct sfs) t path [] rest.toList st = ret (genFields z sfs rest) st
  | .nil, _, _, g, hg => by
    obtain ⟨g', rfl⟩ : ∃ g', g = g' + 1 := ⟨g - 1, by omega⟩
    rw [Fields.toList, structFields_nil, genFields_nil]; rfl
  | .cons fi ty r, hr, hM, g, hg => by
    obtain ⟨g', rfl⟩ : ∃ g', g = g' + 1 := ⟨g - 1, by omega⟩
    simp [inFSFields] at hr
    simp only [fieldsSize] at hM hg
    rw [Fields.toList, structFields_cons c g' cx st sp pp sfs t hK path fi ty r.toList hsf hr.1.1, genFields_cons]
    cases hf : fieldTy sfs fi.name with
    | none => rfl
    | some sty =>
      simp only []
      have hsz := fieldTy_size hf
      rw [hrec sty ty hsz (by omega) (inFS_fieldTy hsf hf) hr.1.2 g' (by omega)]
      cases genF z true sty ty with
      | error d => rfl
      | ok cv =>
        simp only [ret]
        rw [structFields_F c cx st z sp pp sfs t hK path hsf M hrec r hr.2 (by omega) g' (by omega)]
        cases genFields z sfs r <;> rfl

/-- one level of the cascade: if the recursive calls on all smaller pairs agree with `genF`, so does `noLookup` on this pair -/
theorem noLookup_F (c : Converter) (cx : Ctx) (st : GState) (z : Bool) (ws : Bool)
    (hu : cx.cfg.common.useUnderlying = false) (hsk : cx.cfg.common.skipCopySameType = false)
    (hz0 : cx.cfg.common.useZeroValue = z) (hc : st.useCtor = false) (K : Nat) (hsp : ws = true → StructPlain cx st K)
    (f : Nat) (s t : Ty) (hK : tySize t ≤ K) (hs : frag ws s = true) (ht : frag ws t = true)
    (hf : 2 * (tySize s + tySize t) ≤ f + 2)
    (hrec : ∀ a b, tySize a + tySize b < tySize s + tySize t → tySize b ≤ tySize t → frag ws a = true → frag ws b = true →
      ∀ fuel', 2 * (tySize a + tySize b) ≤ fuel' → ∀ mode pp path, (ws = true → mode.isUpdate = false) →
        conv c fuel' cx mode pp a b path st = ret (genF z (asgOf mode) a b) st) :
    ∀ mode pp path, (ws = true → mode.isUpdate = false) →
      noLookup c (f+1) cx mode pp s t path st = ret (genF z (asgNL mode) s t) st := by
  intro mode pp path hmode
  have hs' := frag_inFS hs
  have ht' := frag_inFS ht
  have hrec' : ∀ a b, tySize a + tySize b < tySize s + tySize t ∧ tySize b ≤ tySize t → frag ws a = true → frag ws b = true →
      ∀ mode pp path, (ws = true → mode.isUpdate = false) →
        conv c f cx mode pp a b path st = ret (genF z (asgOf mode) a b) st :=
    fun a b hlt ha hb => hrec a b hlt.1 hlt.2 ha hb f (by omega)
  have hm1 : ws = true → Mode.build.isUpdate = false := fun _ => rfl
  have hm2 : ws = true → (Mode.assign false false).isUpdate = false := fun _ => rfl
  have hm3 : ws = true → (Mode.assign true false).isUpdate = false := fun _ => rfl
  by_cases hpt : isPtrTy t = true
  · obtain ⟨b, rfl⟩ : ∃ b, t = .ptr b := by cases t <;> simp [isPtrTy] at hpt; exact ⟨_, rfl⟩
    have htb := frag_ptr ht
    by_cases hps : isPtrTy s = true
    · obtain ⟨a, rfl⟩ : ∃ a, s = .ptr a := by cases s <;> simp [isPtrTy] at hps; exact ⟨_, rfl⟩
      have hsa := frag_ptr hs
      rw [noLookup_ptrPtr c f cx _ pp path st hu hsk hc, genF_ptrPtr,
        hrec' a b (by simp [tySize]; omega) hsa htb _ _ _ hm1, wrapRes_ret]
      rfl
    · have hps' : isPtrTy s = false := by simpa using hps
      rw [noLookup_tgtPtr c f cx _ pp path st hu hsk hc s b hs' hps', genF_tgtPtr z _ s b hps',
        hrec' s b (by simp [tySize]) hs htb _ _ _ hm1, wrapRes_ret]
      rfl
  · have hpt' : isPtrTy t = false := by simpa using hpt
    by_cases hps : isPtrTy s = true
    · obtain ⟨a, rfl⟩ : ∃ a, s = .ptr a := by cases s <;> simp [isPtrTy] at hps; exact ⟨_, rfl⟩
      have hsa := frag_ptr hs
      rw [genF_srcPtr z _ a t hpt']
      cases hz : z with
      | true =>
        rw [noLookup_srcPtr c f cx _ pp path st hu hsk hc a t ht' hpt' (by rw [hz0, hz]),
          hrec' a t (by simp [tySize]) hsa ht _ _ _ hm1, wrapRes_ret]
        simp [hz]; rfl
      | false =>
        rw [noLookup_srcPtr_off c f cx _ pp path st hu hsk a t ht' hpt' (by rw [hz0, hz])]
        rfl
    · have hps' : isPtrTy s = false := by simpa using hps
      by_cases hr : topRule s t = true
      · cases s <;> simp [inFS, isPtrTy] at hs' hps' <;> cases t <;> simp [inFS, isPtrTy, topRule] at ht' hpt' hr
        · -- Basic
          rw [noLookup_basic c f cx _ pp path st hu hsk, genF_basic]
          split <;> rfl
        · -- List: slice → slice
          rename_i a b
          rw [noLookup_slice c f cx _ pp path st hu hsk, genF_slice,
            hrec' a b (by simp [tySize]; omega) (frag_slice hs) (frag_slice ht) _ _ _ hm2, wrapRes_ret]
          rfl
        · -- List: array → slice
          rename_i m a b
          rw [noLookup_array c f cx _ pp path st hu hsk, genF_array,
            hrec' a b (by simp [tySize]; omega) (frag_array hs) (frag_slice ht) _ _ _ hm2, wrapRes_ret]
          simp [asgNL]
          rfl
        · -- Map
          rename_i k v k' v'
          rw [noLookup_map c f cx _ pp path st hu hsk hc, genF_map,
            hrec' k k' (by simp [tySize]; omega) (frag_map hs).1 (frag_map ht).1 _ _ _ hm1]
          have hk : asgOf Mode.build = false := rfl
          rw [hk]
          cases genF z false k k' with
          | error d => rfl
          | ok kk =>
            simp only [ret]
            rw [hrec' v v' (by simp [tySize]; omega) (frag_map hs).2 (frag_map ht).2 _ _ _ hm3, wrapRes_ret]
            rfl
        · -- Struct
          rename_i sfs tfs
          obtain ⟨hws, hsf⟩ := frag_struct hs
          have sp := hsp hws
          rw [noLookup_struct c f cx mode pp path st hu hsk hc sp.noRaw, genF_struct]
          have hcond : (mode == Mode.build && sfs.length == 0 && tfs.length == 0) =
              (!asgNL mode && sfs.length == 0 && tfs.length == 0) := by simp [asgNL]
          rw [hcond]
          cases hcnd : (!asgNL mode && sfs.length == 0 && tfs.length == 0) with
          | true => rfl
          | false =>
            simp only [Bool.false_eq_true, if_false]
            simp only [tySize] at hf
            obtain ⟨f', rfl⟩ : ∃ f', f = f' + 1 := ⟨f - 1, by omega⟩
            have hKt : tySize (Ty.struct tfs) ≤ K := hK
            rw [hmode hws, structAssign_plain c f' cx st sp false pp _ tfs hKt,
              structFields_F c cx st z sp pp sfs (.struct tfs) hKt path hsf (fieldsSize tfs)
                (fun a b ha hb hia hib fuel' hfu path' =>
                  hrec a b (by simp only [tySize]; omega) (by simp only [tySize]; omega) (by rw [hws]; exact hia)
                    (by rw [hws]; exact hib) fuel' hfu
                    (.assign false false) false path' (fun _ => rfl))
                tfs ht' (Nat.le_refl _) f' (by omega)]
            cases genFields z sfs tfs <;> rfl
      · have hr' : topRule s t = false := by simpa using hr
        rw [noLookup_reject c f cx _ pp path st hu hsk s t hs' ht' hps' hpt' hr', genF_reject z _ s t hps' hpt' hr']
        rfl

/-- **`conv` on the fragment is `genF`, at every depth**: with fuel twice the size of the pair -/
theorem conv_F (c : Converter) (cx : Ctx) (st : GState) (z : Bool) (ws : Bool) (N K : Nat) (hp : Plain c cx st z ws N K) :
    ∀ n, n ≤ N → ∀ s t, tySize s + tySize t ≤ n → tySize t ≤ K → frag ws s = true → frag ws t = true →
      ∀ fuel, 2 * (tySize s + tySize t) ≤ fuel → ∀ mode pp path, (ws = true → mode.isUpdate = false) →
      conv c fuel cx mode pp s t path st = ret (genF z (asgOf mode) s t) st := by
  intro n
  induction n with
  | zero => intro _ s t h; have := tySize_pos s; omega
  | succ n ih =>
    intro hn s t hsz hKt hs ht fuel hf mode pp path hmode
    obtain ⟨f, rfl⟩ : ∃ f, fuel = f + 2 := ⟨fuel - 2, by have := tySize_pos s; omega⟩
    rw [conv_step c (f+1) cx mode pp s t path st hp.extend (hp.lookup s t hs ht (by omega)) (frag_inFS hs) (frag_inFS ht)
      hp.skipCopy]
    exact noLookup_F c cx st z ws hp.underlying hp.skipCopy hp.zero hp.ctor K hp.structs f s t hKt hs ht (by omega)
      (fun a b hlt hbt ha hb fuel' hfu mode' pp' path' hm' =>
        ih (by omega) a b (by omega) (by omega) ha hb fuel' (by omega) mode' pp' path' hm')
      (modeNL mode) pp path (fun h => isUpdate_modeNL (hmode h))

/-! ### `genF` succeeds exactly on the documented rule set -/

theorem map_ok {α β : Type} {k : α → β} {r : Except Diag α} {p : β} (h : r.map k = .ok p) : ∃ q, r = .ok q ∧ p = k q := by
  cases r with
  | error d => cases h
  | ok q => exact ⟨q, rfl, by cases h; rfl⟩

theorem map_err {α β : Type} {k : α → β} {r : Except Diag α} {d : Diag} (h : r.map k = .error d) : r = .error d := by
  cases r with
  | error e => cases h; rfl
  | ok q => cases h

theorem isPtrTy_false_of {s : Ty} (h : ∀ a, s = .ptr a → False) : isPtrTy s = false := by
  cases s <;> simp [isPtrTy] at h ⊢

theorem topRule_false_of {s t : Ty}
    (h1 : ∀ (k k' : Kind), s = Ty.basic k → t = Ty.basic k' → False)
    (h2 : ∀ (a b : Ty), s = a.slice → t = b.slice → False)
    (h3 : ∀ (n : Nat) (a b : Ty), s = Ty.array n a → t = b.slice → False)
    (h4 : ∀ (k v k' v' : Ty), s = k.map v → t = k'.map v' → False)
    (h5 : ∀ (sfs tfs : Fields), s = Ty.struct sfs → t = Ty.struct tfs → False) : topRule s t = false := by
  cases s <;> cases t <;> simp [topRule]
  · exact h1 _ _ rfl rfl
  · exact h2 _ _ rfl rfl
  · exact h3 _ _ _ rfl rfl
  · exact h4 _ _ _ _ rfl rfl
  · exact h5 _ _ rfl rfl

theorem Fields.eq_nil_of_length {fs : Fields} (h : (fs.length == 0) = true) : fs = .nil := by
  cases fs <;> simp [Fields.length] at h ⊢

theorem genF_ok_convertible_all (z : Bool) :
    (∀ asg s t, ∀ p, genF z asg s t = .ok p → Convertible z s t) ∧
    (∀ sfs tfs, ∀ ps, genFields z sfs tfs = .ok ps → ConvertibleFields z sfs tfs) := by
  apply genF.mutual_induct z
    (motive1 := fun asg s t => ∀ p, genF z asg s t = .ok p → Convertible z s t)
    (motive2 := fun sfs tfs => ∀ ps, genFields z sfs tfs = .ok ps → ConvertibleFields z sfs tfs)
  · intro asg a b ih p h; rw [genF_ptrPtr] at h; obtain ⟨q, hq, _⟩ := map_ok h; exact .ptrPtr (ih q hq)
  · intro asg s b hn ih p h; rw [genF_tgtPtr _ _ _ _ (isPtrTy_false_of hn)] at h
    obtain ⟨q, hq, _⟩ := map_ok h; exact .tgtPtr (isPtrTy_false_of hn) (ih q hq)
  · intro asg a t hn hz ih p h; rw [genF_srcPtr _ _ _ _ (isPtrTy_false_of hn), if_pos hz] at h
    obtain ⟨q, hq, _⟩ := map_ok h; exact .srcPtr hz (isPtrTy_false_of hn) (ih q hq)
  · intro asg a t hn hz p h; rw [genF_srcPtr _ _ _ _ (isPtrTy_false_of hn), if_neg hz] at h; cases h
  · intro asg k k' hk p _; exact .basic (by simpa using hk)
  · intro asg k k' hk p h; rw [genF_basic, if_neg hk] at h; cases h
  · intro asg a b ih p h; rw [genF_slice] at h; obtain ⟨q, hq, _⟩ := map_ok h; exact .slice (ih q hq)
  · intro asg n a b ih p h; rw [genF_array] at h; obtain ⟨q, hq, _⟩ := map_ok h; exact .array (ih q hq)
  · intro asg k v k' v' kk hk ih1 ih2 p h; rw [genF_map, hk] at h
    obtain ⟨q, hq, _⟩ := map_ok h; exact .map (ih1 kk hk) (ih2 q hq)
  · intro asg k v k' v' d hk _ p h; rw [genF_map, hk] at h; cases h
  · intro asg sfs tfs hc p _
    simp only [Bool.and_eq_true] at hc
    rw [Fields.eq_nil_of_length hc.2]; exact .struct .nil
  · intro asg sfs tfs hc ih p h; rw [genF_struct, if_neg hc] at h
    obtain ⟨q, hq, _⟩ := map_ok h; exact .struct (ih q hq)
  · intro asg s t h1 h2 _ h4 h5 h6 h7 h8 p h
    rw [genF_reject z asg s t (isPtrTy_false_of h1) (isPtrTy_false_of h2) (topRule_false_of h4 h5 h6 h7 h8)] at h; cases h
  · intro sfs ps _; exact .nil
  · intro sfs f ty rest hf ps h; rw [genFields_cons, hf] at h; cases h
  · intro sfs f ty rest sty hf d hg _ ps h; rw [genFields_cons, hf] at h; simp only [hg] at h; cases h
  · intro sfs f ty rest sty hf cv hg d hr _ _ ps h; rw [genFields_cons, hf] at h; simp only [hg, hr] at h; cases h
  · intro sfs f ty rest sty hf cv hg more hr ih1 ih2 ps _; exact .cons hf (ih1 cv hg) (ih2 more hr)

theorem genF_ok_convertible (z asg : Bool) (s t : Ty) : ∀ p, genF z asg s t = .ok p → Convertible z s t :=
  (genF_ok_convertible_all z).1 asg s t

mutual
  theorem convertible_genF_ok (z : Bool) : ∀ {s t : Ty}, Convertible z s t → ∀ asg, ∃ p, genF z asg s t = .ok p
    | _, _, .basic hk, asg => ⟨.ident, by rw [genF_basic]; simp [hk]⟩
    | _, _, .ptrPtr h, asg => by
      obtain ⟨q, hq⟩ := convertible_genF_ok z h false; exact ⟨_, by rw [genF_ptrPtr, hq]; rfl⟩
    | _, _, .tgtPtr hp h, asg => by
      obtain ⟨q, hq⟩ := convertible_genF_ok z h false; exact ⟨_, by rw [genF_tgtPtr _ _ _ _ hp, hq]; rfl⟩
    | _, _, .srcPtr hz hp h, asg => by
      obtain ⟨q, hq⟩ := convertible_genF_ok z h false; exact ⟨_, by rw [genF_srcPtr _ _ _ _ hp, hq, hz]; rfl⟩
    | _, _, .slice h, asg => by
      obtain ⟨q, hq⟩ := convertible_genF_ok z h true; exact ⟨_, by rw [genF_slice, hq]; rfl⟩
    | _, _, .array h, asg => by
      obtain ⟨q, hq⟩ := convertible_genF_ok z h true; exact ⟨_, by rw [genF_array, hq]; rfl⟩
    | _, _, .map h1 h2, asg => by
      obtain ⟨q1, hq1⟩ := convertible_genF_ok z h1 false; obtain ⟨q2, hq2⟩ := convertible_genF_ok z h2 false
      exact ⟨_, by rw [genF_map, hq1]; simp only []; rw [hq2]; rfl⟩
    | _, _, .struct hf, asg => by
      obtain ⟨ps, hps⟩ := convertibleFields_genFields_ok z hf
      rw [genF_struct, hps]
      split
      · exact ⟨_, rfl⟩
      · exact ⟨_, rfl⟩
  theorem convertibleFields_genFields_ok (z : Bool) : ∀ {sfs tfs : Fields}, ConvertibleFields z sfs tfs →
      ∃ ps, genFields z sfs tfs = .ok ps
    | _, _, .nil => ⟨[], genFields_nil z _⟩
    | _, _, .cons hf h hr => by
      obtain ⟨cv, hcv⟩ := convertible_genF_ok z h true
      obtain ⟨more, hmore⟩ := convertibleFields_genFields_ok z hr
      exact ⟨_, by rw [genFields_cons, hf]; simp only [hcv, hmore]; rfl⟩
end

/-- **`genF` succeeds iff the documented rules cover the pair** (every type, either assignment flag) -/
theorem genF_ok_iff (z asg : Bool) (s t : Ty) : (∃ p, genF z asg s t = .ok p) ↔ Convertible z s t :=
  ⟨fun ⟨p, h⟩ => genF_ok_convertible z asg s t p h, fun h => convertible_genF_ok z h asg⟩

/-- a rejection is a type mismatch (with or without the pointer hint) or a target field without a source field, never a lack of
fuel or any other diagnostic -/
theorem genF_error_all (z : Bool) :
    (∀ asg s t, ∀ d, genF z asg s t = .error d → d = .typeMismatch ∨ d = .typeMismatchPtr ∨ d = .noMatch) ∧
    (∀ sfs tfs, ∀ d, genFields z sfs tfs = .error d → d = .typeMismatch ∨ d = .typeMismatchPtr ∨ d = .noMatch) := by
  apply genF.mutual_induct z
    (motive1 := fun asg s t => ∀ d, genF z asg s t = .error d → d = .typeMismatch ∨ d = .typeMismatchPtr ∨ d = .noMatch)
    (motive2 := fun sfs tfs => ∀ d, genFields z sfs tfs = .error d → d = .typeMismatch ∨ d = .typeMismatchPtr ∨ d = .noMatch)
  · intro asg a b ih d h; rw [genF_ptrPtr] at h; exact ih d (map_err h)
  · intro asg s b hn ih d h; rw [genF_tgtPtr _ _ _ _ (isPtrTy_false_of hn)] at h; exact ih d (map_err h)
  · intro asg a t hn hz ih d h; rw [genF_srcPtr _ _ _ _ (isPtrTy_false_of hn), if_pos hz] at h; exact ih d (map_err h)
  · intro asg a t hn hz d h; rw [genF_srcPtr _ _ _ _ (isPtrTy_false_of hn), if_neg hz] at h; cases h; exact .inr (.inl rfl)
  · intro asg k k' hk d h; rw [genF_basic, if_pos hk] at h; cases h
  · intro asg k k' hk d h; rw [genF_basic, if_neg hk] at h; cases h; exact .inl rfl
  · intro asg a b ih d h; rw [genF_slice] at h; exact ih d (map_err h)
  · intro asg n a b ih d h; rw [genF_array] at h; exact ih d (map_err h)
  · intro asg k v k' v' kk hk _ ih2 d h; rw [genF_map, hk] at h; exact ih2 d (map_err h)
  · intro asg k v k' v' d' hk ih1 d h; rw [genF_map, hk] at h; cases h; exact ih1 _ hk
  · intro asg sfs tfs hc d h; rw [genF_struct, if_pos hc] at h; cases h
  · intro asg sfs tfs hc ih d h; rw [genF_struct, if_neg hc] at h; exact ih d (map_err h)
  · intro asg s t h1 h2 _ h4 h5 h6 h7 h8 d h
    rw [genF_reject z asg s t (isPtrTy_false_of h1) (isPtrTy_false_of h2) (topRule_false_of h4 h5 h6 h7 h8)] at h
    cases h; exact .inl rfl
  · intro sfs d h; rw [genFields_nil] at h; cases h
  · intro sfs f ty rest hf d h; rw [genFields_cons, hf] at h; cases h; exact .inr (.inr rfl)
  · intro sfs f ty rest sty hf d' hg ih d h; rw [genFields_cons, hf] at h; simp only [hg] at h; cases h; exact ih _ hg
  · intro sfs f ty rest sty hf cv hg d' hr _ ih2 d h; rw [genFields_cons, hf] at h; simp only [hg, hr] at h; cases h
    exact ih2 _ hr
  · intro sfs f ty rest sty hf cv hg more hr _ _ d h; rw [genFields_cons, hf] at h; simp only [hg, hr] at h; cases h

theorem genF_error_struct (z asg : Bool) (s t : Ty) :
    ∀ d, genF z asg s t = .error d → d = .typeMismatch ∨ d = .typeMismatchPtr ∨ d = .noMatch :=
  (genF_error_all z).1 asg s t

/-- on the struct-free fragment a rejection is a type mismatch -/
theorem genF_error (z : Bool) : ∀ asg s t, inF s = true → inF t = true →
    ∀ d, genF z asg s t = .error d → d = .typeMismatch ∨ d = .typeMismatchPtr := by
  refine (genF.mutual_induct z
    (motive1 := fun asg s t => inF s = true → inF t = true → ∀ d, genF z asg s t = .error d → d = .typeMismatch ∨ d = .typeMismatchPtr)
    (motive2 := fun _ _ => True) ?_ ?_ ?_ ?_ ?_ ?_ ?_ ?_ ?_ ?_ ?_ ?_ ?_ ?_ ?_ ?_ ?_ ?_).1
  · intro asg a b ih hs ht d h; rw [genF_ptrPtr] at h
    exact ih (by simpa [inF] using hs) (by simpa [inF] using ht) d (map_err h)
  · intro asg s b hn ih hs ht d h; rw [genF_tgtPtr _ _ _ _ (isPtrTy_false_of hn)] at h
    exact ih hs (by simpa [inF] using ht) d (map_err h)
  · intro asg a t hn hz ih hs ht d h; rw [genF_srcPtr _ _ _ _ (isPtrTy_false_of hn), if_pos hz] at h
    exact ih (by simpa [inF] using hs) ht d (map_err h)
  · intro asg a t hn hz _ _ d h; rw [genF_srcPtr _ _ _ _ (isPtrTy_false_of hn), if_neg hz] at h; cases h; exact .inr rfl
  · intro asg k k' hk _ _ d h; rw [genF_basic, if_pos hk] at h; cases h
  · intro asg k k' hk _ _ d h; rw [genF_basic, if_neg hk] at h; cases h; exact .inl rfl
  · intro asg a b ih hs ht d h; rw [genF_slice] at h
    exact ih (by simpa [inF] using hs) (by simpa [inF] using ht) d (map_err h)
  · intro asg n a b ih hs ht d h; rw [genF_array] at h
    exact ih (by simpa [inF] using hs) (by simpa [inF] using ht) d (map_err h)
  · intro asg k v k' v' kk hk _ ih2 hs ht d h; rw [genF_map, hk] at h
    simp [inF] at hs ht; exact ih2 hs.2 ht.2 d (map_err h)
  · intro asg k v k' v' d' hk ih1 hs ht d h; rw [genF_map, hk] at h; cases h
    simp [inF] at hs ht; exact ih1 hs.1 ht.1 _ hk
  · intro asg sfs tfs _ hs; simp [inF] at hs
  · intro asg sfs tfs _ _ hs; simp [inF] at hs
  · intro asg s t h1 h2 _ h4 h5 h6 h7 h8 _ _ d h
    rw [genF_reject z asg s t (isPtrTy_false_of h1) (isPtrTy_false_of h2) (topRule_false_of h4 h5 h6 h7 h8)] at h
    cases h; exact .inl rfl
  all_goals (intros; trivial)

/-! ### the plans are in the checked structural fragment (L-B on F and FS) -/

mutual
  theorem Ty.beq_refl' : ∀ t : Ty, Ty.beq t t = true
    | .basic k => by simp [Ty.beq]
    | .named _ => by simp [Ty.beq]
    | .ptr e => by simp only [Ty.beq]; exact Ty.beq_refl' e
    | .slice e => by simp only [Ty.beq]; exact Ty.beq_refl' e
    | .array n e => by simp [Ty.beq]; exact Ty.beq_refl' e
    | .map k v => by simp [Ty.beq]; exact ⟨Ty.beq_refl' k, Ty.beq_refl' v⟩
    | .struct fs => by simp only [Ty.beq]; exact Fields.beq_refl' fs
    | .opaque _ _ => by simp [Ty.beq]
  theorem Fields.beq_refl' : ∀ fs : Fields, Fields.beq fs fs = true
    | .nil => by simp [Fields.beq]
    | .cons f t r => by simp [Fields.beq]; exact ⟨Ty.beq_refl' t, Fields.beq_refl' r⟩
end

theorem beq_refl_ty (t : Ty) : (t == t) = true := Ty.beq_refl' t

theorem beq_refl_F (t : Ty) (_ : inF t = true) : (t == t) = true := beq_refl_ty t

theorem arrayElemFree_false {asg : Bool} {s : Ty} (h : arrayElemFree asg s = true) : arrayElemFree false s = true := by
  cases s <;> simp_all [arrayElemFree]

theorem aliasFree_fieldTy : ∀ {fs : Fields} {n : Str.S} {t : Ty}, aliasFreeFields fs = true → fieldTy fs n = some t →
    aliasFree t = true
  | .nil, _, _, _, h => by simp [fieldTy] at h
  | .cons f t' r, n, t, hf, h => by
    simp [aliasFreeFields] at hf
    simp only [fieldTy] at h
    split at h
    · cases h; exact hf.1
    · exact aliasFree_fieldTy hf.2 h

theorem arrayElemFree_fieldTy : ∀ {fs : Fields} {n : Str.S} {t : Ty}, arrayElemFreeFields fs = true → fieldTy fs n = some t →
    arrayElemFree true t = true
  | .nil, _, _, _, h => by simp [fieldTy] at h
  | .cons f t' r, n, t, hf, h => by
    simp [arrayElemFreeFields] at hf
    simp only [fieldTy] at h
    split at h
    · cases h; exact hf.1
    · exact arrayElemFree_fieldTy hf.2 h

theorem find_fieldTy : ∀ {fs : Fields} {n : Str.S} {t : Ty}, fieldTy fs n = some t →
    ∃ fi, fs.toList.find? (fun (x : FieldInfo × Ty) => x.1.name == n) = some (fi, t)
  | .nil, _, _, h => by simp [fieldTy] at h
  | .cons f t' r, n, t, h => by
    simp only [fieldTy] at h
    simp only [Fields.toList, List.find?]
    split at h
    · rename_i hn; cases h; exact ⟨f, by simp [hn]⟩
    · rename_i hn
      obtain ⟨fi, hfi⟩ := find_fieldTy h
      exact ⟨fi, by simp [hn, hfi]⟩

theorem genF_checked_all (p : Program) (z : Bool) :
    (∀ asg s t, ∀ plan, genF z asg s t = .ok plan → inFS s = true → inFS t = true → aliasFree s = true → aliasFree t = true →
      arrayElemFree asg s = true → structsOK t = true → checkTy p plan s t = true) ∧
    (∀ sfs tfs, ∀ ps, genFields z sfs tfs = .ok ps → inFSFields sfs = true → inFSFields tfs = true →
      aliasFreeFields sfs = true → aliasFreeFields tfs = true → arrayElemFreeFields sfs = true → structsOKFields tfs = true →
      checkFields p (FieldPlans.ofList ps) sfs.toList tfs.toList = true) := by
  apply genF.mutual_induct z
    (motive1 := fun asg s t => ∀ plan, genF z asg s t = .ok plan → inFS s = true → inFS t = true → aliasFree s = true →
      aliasFree t = true → arrayElemFree asg s = true → structsOK t = true → checkTy p plan s t = true)
    (motive2 := fun sfs tfs => ∀ ps, genFields z sfs tfs = .ok ps → inFSFields sfs = true → inFSFields tfs = true →
      aliasFreeFields sfs = true → aliasFreeFields tfs = true → arrayElemFreeFields sfs = true → structsOKFields tfs = true →
      checkFields p (FieldPlans.ofList ps) sfs.toList tfs.toList = true)
  · intro asg a b ih plan h hs ht has hat har hok; rw [genF_ptrPtr] at h; obtain ⟨q, hq, rfl⟩ := map_ok h
    simp [inFS, aliasFree, arrayElemFree, structsOK] at hs ht has hat har hok
    simp [checkTy, under, beq_refl_ty b, ih q hq hs ht has hat har hok]
  · intro asg s b hn ih plan h hs ht has hat har hok
    rw [genF_tgtPtr _ _ _ _ (isPtrTy_false_of hn)] at h; obtain ⟨q, hq, rfl⟩ := map_ok h
    have htb : inFS b = true := by simpa [inFS] using ht
    have hatb : aliasFree b = true := by simpa [aliasFree] using hat
    have hokb : structsOK b = true := by simpa [structsOK] using hok
    have := ih q hq hs htb has hatb (arrayElemFree_false har) hokb
    cases s <;> simp [inFS] at hs
    · simp [checkTy, under, beq_refl_ty b, this]
    · exact absurd rfl (hn _)
    · simp [checkTy, under, beq_refl_ty b, this]
    · simp [checkTy, under, beq_refl_ty b, this]
    · simp [checkTy, under, beq_refl_ty b, this]
    · simp [checkTy, under, beq_refl_ty b, this]
  · intro asg a t hn hz ih plan h hs ht has hat har hok
    rw [genF_srcPtr _ _ _ _ (isPtrTy_false_of hn), if_pos hz] at h; obtain ⟨q, hq, rfl⟩ := map_ok h
    have hsa : inFS a = true := by simpa [inFS] using hs
    have hasa : aliasFree a = true := by simpa [aliasFree] using has
    have := ih q hq hsa ht hasa hat (by simpa [arrayElemFree] using har) hok
    have hb := beq_refl_ty t
    cases t <;> simp [inFS] at ht
    · simp [checkTy, under, hb, this]
    · exact absurd rfl (hn _)
    · simp [checkTy, under, hb, this]
    · simp [checkTy, under, hb, this]
    · simp [checkTy, under, hb, this]
    · simp [checkTy, under, hb, this]
  · intro asg a t hn hz plan h; rw [genF_srcPtr _ _ _ _ (isPtrTy_false_of hn), if_neg hz] at h; cases h
  · intro asg k k' hk plan h hs ht has hat har hok
    rw [genF_basic, if_pos hk] at h; cases h
    simp [aliasFree] at has hat
    simp at hk
    simp [checkTy, under]
    rw [← has, ← hat, hk]
  · intro asg k k' hk plan h; rw [genF_basic, if_neg hk] at h; cases h
  · intro asg a b ih plan h hs ht has hat har hok; rw [genF_slice] at h; obtain ⟨q, hq, rfl⟩ := map_ok h
    simp [inFS, aliasFree, arrayElemFree, structsOK] at hs ht has hat har hok
    simp [checkTy, under, beq_refl_ty b, ih q hq hs ht has hat har hok]
  · intro asg n a b ih plan h hs ht has hat har hok; rw [genF_array] at h; obtain ⟨q, hq, rfl⟩ := map_ok h
    simp [inFS, aliasFree, arrayElemFree, structsOK] at hs ht has hat har hok
    simp [checkTy, under, beq_refl_ty b, ih q hq hs ht has hat har.2 hok, har.1]
  · intro asg k v k' v' kk hk ih2 ih1 plan h hs ht has hat har hok; rw [genF_map, hk] at h
    obtain ⟨q, hq, rfl⟩ := map_ok h
    simp [inFS, aliasFree, arrayElemFree, structsOK] at hs ht has hat har hok
    simp [checkTy, under, beq_refl_ty k', beq_refl_ty v', ih2 kk hk hs.1 ht.1 has.1 hat.1 har.1 hok.1,
      ih1 q hq hs.2 ht.2 has.2 hat.2 har.2 hok.2]
  · intro asg k v k' v' d hk _ plan h; rw [genF_map, hk] at h; cases h
  · intro asg sfs tfs hc plan h hs ht has hat har hok
    simp only [Bool.and_eq_true] at hc
    have := Fields.eq_nil_of_length hc.2
    subst this
    simp [structsOK, Fields.length] at hok
  · intro asg sfs tfs hc ih plan h hs ht has hat har hok
    rw [genF_struct, if_neg hc] at h; obtain ⟨q, hq, rfl⟩ := map_ok h
    simp only [inFS, aliasFree, arrayElemFree, structsOK, Bool.and_eq_true] at hs ht has hat har hok
    have := ih q hq hs ht has hat har hok.2
    simp only [checkTy, under, fieldNames, Bool.and_eq_true]
    exact ⟨hok.1.2, this⟩
  · intro asg s t h1 h2 _ h4 h5 h6 h7 h8 plan h
    rw [genF_reject z asg s t (isPtrTy_false_of h1) (isPtrTy_false_of h2) (topRule_false_of h4 h5 h6 h7 h8)] at h; cases h
  · intro sfs ps h _ _ _ _ _ _; rw [genFields_nil] at h; cases h; simp [FieldPlans.ofList, Fields.toList, checkFields]
  · intro sfs f ty rest hf ps h; rw [genFields_cons, hf] at h; cases h
  · intro sfs f ty rest sty hf d hg _ ps h; rw [genFields_cons, hf] at h; simp only [hg] at h; cases h
  · intro sfs f ty rest sty hf cv hg d hr _ _ ps h; rw [genFields_cons, hf] at h; simp only [hg, hr] at h; cases h
  · intro sfs f ty rest sty hf cv hg more hr ih1 ih2 ps h hs ht has hat har hok
    rw [genFields_cons, hf] at h; simp only [hg, hr] at h; cases h
    simp only [inFSFields, aliasFreeFields, structsOKFields, Bool.and_eq_true] at ht hat hok
    have h1 := ih1 cv hg (inFS_fieldTy hs hf) ht.1.2 (aliasFree_fieldTy has hf) hat.1 (arrayElemFree_fieldTy har hf) hok.1
    have h2 := ih2 more hr hs ht.2 has hat.2 har hok.2
    obtain ⟨fi, hfi⟩ := find_fieldTy hf
    simp [FieldPlans.ofList, Fields.toList, checkFields, checkField, hfi, h1, h2]

/-- **L-B on FS**: the reference plan passes the plan checker of C02 -/
theorem genF_checked_struct (p : Program) (z asg : Bool) (s t : Ty) :
    ∀ plan, genF z asg s t = .ok plan → inFS s = true → inFS t = true → aliasFree s = true → aliasFree t = true →
      arrayElemFree asg s = true → structsOK t = true → checkTy p plan s t = true :=
  (genF_checked_all p z).1 asg s t

theorem structsOK_of_inF : ∀ t : Ty, inF t = true → structsOK t = true
  | .basic _, _ => by simp [structsOK]
  | .ptr e, h => by simp only [structsOK]; exact structsOK_of_inF e (by simpa [inF] using h)
  | .slice e, h => by simp only [structsOK]; exact structsOK_of_inF e (by simpa [inF] using h)
  | .array _ e, h => by simp only [structsOK]; exact structsOK_of_inF e (by simpa [inF] using h)
  | .map k v, h => by
    simp [inF] at h
    simp [structsOK, structsOK_of_inF k h.1, structsOK_of_inF v h.2]
  | .named _, h => by simp [inF] at h
  | .struct _, h => by simp [inF] at h
  | .opaque _ _, h => by simp [inF] at h

theorem genF_checked (p : Program) (z asg : Bool) (s t : Ty) :
    ∀ plan, genF z asg s t = .ok plan → inF s = true → inF t = true → aliasFree s = true → aliasFree t = true →
      arrayElemFree asg s = true → checkTy p plan s t = true :=
  fun plan h hs ht h1 h2 h3 =>
    genF_checked_struct p z asg s t plan h (inFS_of_inF s hs) (inFS_of_inF t ht) h1 h2 h3 (structsOK_of_inF t ht)

/-! ### the plain situation from a decidable condition on the method table -/

/-- no declared or generated (non-update) method has a signature inside the fragment of size ≤ N -/
def plainUpTo (ws : Bool) (N : Nat) (ms : List GenMethod) : Bool :=
  ms.all (fun m => m.updateTarget || !(frag ws m.source && frag ws m.target && decide (tySize m.source + tySize m.target ≤ N)))

/-- no declared or generated (non-update) method has a signature inside F of size ≤ N -/
def plainMethodsUpTo (N : Nat) (ms : List GenMethod) : Bool :=
  ms.all (fun m => m.updateTarget || !(inF m.source && inF m.target && decide (tySize m.source + tySize m.target ≤ N)))

/-- no declared or generated (non-update) method has a signature inside F -/
def plainMethods (ms : List GenMethod) : Bool :=
  ms.all (fun m => m.updateTarget || !(inF m.source && inF m.target))

/-- no declared or generated (non-update) method has a signature inside FS of size ≤ N -/
def plainMethodsSUpTo (N : Nat) (ms : List GenMethod) : Bool :=
  ms.all (fun m => m.updateTarget || !(inFS m.source && inFS m.target && decide (tySize m.source + tySize m.target ≤ N)))

/-- no declared or generated (non-update) method has a signature inside FS -/
def plainMethodsS (ms : List GenMethod) : Bool :=
  ms.all (fun m => m.updateTarget || !(inFS m.source && inFS m.target))

/-- no method carries field settings (`map`, `ignore`, `autoMap` lines): the overlapping-definitions check of the Struct rule
has nothing to report -/
def noFieldSettings (ms : List GenMethod) : Bool := ms.all (fun m => m.cfg.rawFieldSettings.isEmpty)

theorem plainMethodsUpTo_eq (N : Nat) (ms : List GenMethod) : plainMethodsUpTo N ms = plainUpTo false N ms := rfl
theorem plainMethodsSUpTo_eq (N : Nat) (ms : List GenMethod) : plainMethodsSUpTo N ms = plainUpTo true N ms := rfl

theorem plainMethods_upTo (N : Nat) (ms : List GenMethod) (h : plainMethods ms = true) : plainMethodsUpTo N ms = true := by
  simp only [plainMethods, plainMethodsUpTo, List.all_eq_true] at h ⊢
  intro m hm
  have := h m hm
  cases hu : m.updateTarget <;> simp [hu] at this ⊢
  exact .inl this

theorem plainMethodsS_upTo (N : Nat) (ms : List GenMethod) (h : plainMethodsS ms = true) : plainMethodsSUpTo N ms = true := by
  simp only [plainMethodsS, plainMethodsSUpTo, List.all_eq_true] at h ⊢
  intro m hm
  have := h m hm
  cases hu : m.updateTarget <;> simp [hu] at this ⊢
  exact .inl this

theorem noFieldSettings_raw (ms : List GenMethod) (h : noFieldSettings ms = true) : ∀ m ∈ ms, m.cfg.rawFieldSettings = [] := by
  intro m hm
  have := (List.all_eq_true.mp h) m hm
  simpa using this

theorem lookup_none_of_plain (ws : Bool) (N : Nat) (ms : List GenMethod) (h : plainUpTo ws N ms = true) (s t : Ty)
    (hs : frag ws s = true) (ht : frag ws t = true) (hN : tySize s + tySize t ≤ N)
    (av : List Ty) : indexGet (lookupIndex ms) s t av = .none := by
  have hf : (lookupIndex ms).filter (fun (x : Nat × Ty × Ty × List Ty) => x.2.1 == s && x.2.2.1 == t) = [] := by
    rw [List.filter_eq_nil_iff]
    rintro ⟨i, s', t', req⟩ hmem
    simp only [lookupIndex, List.mem_map, List.mem_filter] at hmem
    obtain ⟨⟨m, j⟩, ⟨hm, hup⟩, heq⟩ := hmem
    simp only [Prod.mk.injEq] at heq
    obtain ⟨rfl, rfl, rfl, rfl⟩ := heq
    have hm' : m ∈ ms := by
      obtain ⟨hlt, he⟩ := List.mem_zipIdx' hm
      rw [he]; exact List.getElem_mem hlt
    have hpm := (List.all_eq_true.mp h) m hm'
    intro hbe
    simp only [Bool.and_eq_true] at hbe
    have e1 := Ty.eq_of_beq' hbe.1
    have e2 := Ty.eq_of_beq' hbe.2
    simp at hup
    simp [hup, e1, e2, hs, ht] at hpm
    omega
  unfold indexGet
  simp only []
  have hf' : (lookupIndex ms).filter (fun (x : Nat × Ty × Ty × List Ty) => match x with | (_, s', t', _) => s' == s && t' == t) = [] := by
    rw [← hf]
  rw [hf']
  rfl

/-! ### the statements used by `Gv.Props.C03` -/

theorem plain_of (c : Converter) (cx : Ctx) (st : GState) (z : Bool) (ws : Bool) (N K : Nat)
    (hext : c.extend = []) (hms : plainUpTo ws N st.methods = true)
    (hu : cx.cfg.common.useUnderlying = false) (hsk : cx.cfg.common.skipCopySameType = false)
    (hz : cx.cfg.common.useZeroValue = z) (hc : st.useCtor = false) (hsp : ws = true → StructPlain cx st K) :
    Plain c cx st z ws N K :=
  { extend := hext, lookup := fun s t hs ht hN => lookup_none_of_plain ws N st.methods hms s t hs ht hN cx.available,
    underlying := hu, skipCopy := hsk, zero := hz, ctor := hc, structs := hsp }

/-- `conv` (generator.Build / Assign) on a pair of F-types is the reference generator, and leaves the state alone -/
theorem conv_fragment (c : Converter) (cx : Ctx) (st : GState) (z : Bool) (s t : Ty) (path : List PathElem) (fuel : Nat)
    (mode : Mode) (pp : Bool) (hs : inF s = true) (ht : inF t = true) (hfuel : 2 * (tySize s + tySize t) ≤ fuel)
    (hext : c.extend = []) (hms : plainMethodsUpTo (tySize s + tySize t) st.methods = true)
    (hu : cx.cfg.common.useUnderlying = false) (hsk : cx.cfg.common.skipCopySameType = false)
    (hz : cx.cfg.common.useZeroValue = z) (hc : st.useCtor = false) :
    conv c fuel cx mode pp s t path st = ret (genF z (asgOf mode) s t) st :=
  conv_F c cx st z false _ _ (plain_of c cx st z false _ (tySize t) hext hms hu hsk hz hc (fun h => by cases h)) _ (Nat.le_refl _) s t
    (Nat.le_refl _) (Nat.le_refl _) hs ht fuel hfuel mode pp path (fun h => by cases h)

/-- `noLookup` (buildNoLookup, the entry of a method body) on a pair of F-types: only methods with a strictly SMALLER
F-signature are excluded (the method being built has the signature of the pair itself) -/
theorem noLookup_fragment (c : Converter) (cx : Ctx) (st : GState) (z : Bool) (s t : Ty) (path : List PathElem) (fuel : Nat)
    (mode : Mode) (pp : Bool) (hs : inF s = true) (ht : inF t = true) (hfuel : 2 * (tySize s + tySize t) ≤ fuel)
    (hext : c.extend = []) (hms : plainMethodsUpTo (tySize s + tySize t - 1) st.methods = true)
    (hu : cx.cfg.common.useUnderlying = false) (hsk : cx.cfg.common.skipCopySameType = false)
    (hz : cx.cfg.common.useZeroValue = z) (hc : st.useCtor = false) :
    noLookup c fuel cx mode pp s t path st = ret (genF z (asgNL mode) s t) st := by
  obtain ⟨f, rfl⟩ : ∃ f, fuel = f + 1 := ⟨fuel - 1, by have := tySize_pos s; omega⟩
  have hp := plain_of c cx st z false _ (tySize t) hext hms hu hsk hz hc (fun h => by cases h)
  exact noLookup_F c cx st z false hu hsk hz hc _ (fun h => by cases h) f s t (Nat.le_refl _) hs ht (by omega)
    (fun a b hlt hbt ha hb fuel' hfu mode' pp' path' hm' =>
      conv_F c cx st z false _ _ hp _ (Nat.le_refl _) a b (by omega) hbt ha hb fuel' hfu mode' pp' path' hm') mode pp path
    (fun h => by cases h)

/-- the settings of the bare Struct rule, as decidable conditions -/
theorem structPlain_of (cx : Ctx) (st : GState)
    (h1 : cx.cfg.common.matchIgnoreCase = false) (h2 : cx.cfg.common.ignoreMissing = false)
    (h3 : cx.cfg.fields = []) (h4 : cx.cfg.autoMap = []) (h5 : cx.updateTarget = false)
    (h6 : noFieldSettings st.methods = true) {K : Nat} : StructPlain cx st K :=
  { noIgnoreCase := h1, noIgnoreMissing := h2, fields := fun _ _ => .inl h3, autoMap := h4, noUpdate := h5,
    noRaw := fun m hm => .inl (noFieldSettings_raw st.methods h6 m hm) }

/-- `conv` on a pair of FS-types (with unnamed structs) is the reference generator, and leaves the state alone -/
theorem conv_struct_fragment (c : Converter) (cx : Ctx) (st : GState) (z : Bool) (s t : Ty) (path : List PathElem) (fuel : Nat)
    (mode : Mode) (pp : Bool) (hs : inFS s = true) (ht : inFS t = true) (hfuel : 2 * (tySize s + tySize t) ≤ fuel)
    (hmode : mode.isUpdate = false)
    (hext : c.extend = []) (hms : plainMethodsSUpTo (tySize s + tySize t) st.methods = true)
    (hu : cx.cfg.common.useUnderlying = false) (hsk : cx.cfg.common.skipCopySameType = false)
    (hz : cx.cfg.common.useZeroValue = z) (hc : st.useCtor = false) (sp : StructPlain cx st (tySize s + tySize t)) :
    conv c fuel cx mode pp s t path st = ret (genF z (asgOf mode) s t) st :=
  conv_F c cx st z true _ _ (plain_of c cx st z true _ _ hext hms hu hsk hz hc (fun _ => sp)) _ (Nat.le_refl _) s t
    (Nat.le_refl _) (by omega) hs ht fuel hfuel mode pp path (fun _ => hmode)

/-- `noLookup` on a pair of FS-types, the entry of a method body -/
theorem noLookup_struct_fragment (c : Converter) (cx : Ctx) (st : GState) (z : Bool) (s t : Ty) (path : List PathElem) (fuel : Nat)
    (mode : Mode) (pp : Bool) (hs : inFS s = true) (ht : inFS t = true) (hfuel : 2 * (tySize s + tySize t) ≤ fuel)
    (hmode : mode.isUpdate = false)
    (hext : c.extend = []) (hms : plainMethodsSUpTo (tySize s + tySize t - 1) st.methods = true)
    (hu : cx.cfg.common.useUnderlying = false) (hsk : cx.cfg.common.skipCopySameType = false)
    (hz : cx.cfg.common.useZeroValue = z) (hc : st.useCtor = false) (sp : StructPlain cx st (tySize s + tySize t)) :
    noLookup c fuel cx mode pp s t path st = ret (genF z (asgNL mode) s t) st := by
  obtain ⟨f, rfl⟩ : ∃ f, fuel = f + 1 := ⟨fuel - 1, by have := tySize_pos s; omega⟩
  have hp := plain_of c cx st z true _ _ hext hms hu hsk hz hc (fun _ => sp)
  exact noLookup_F c cx st z true hu hsk hz hc _ (fun _ => sp) f s t (by omega) hs ht (by omega)
    (fun a b hlt hbt ha hb fuel' hfu mode' pp' path' hm' =>
      conv_F c cx st z true _ _ hp _ (Nat.le_refl _) a b (by omega) (by omega) ha hb fuel' hfu mode' pp' path' hm') mode pp path
    (fun _ => hmode)

/-! ### one level up: a whole method, and a whole converter with one declared method -/

theorem getMethod_some (i : Nat) (st : GState) (m : GenMethod) (h : st.methods[i]? = some m) : getMethod i st = .ok (m, st) := by
  simp [getMethod, h, bind, StateT.bind, Except.bind, pure, Except.pure, StateT.pure, get, getThe, MonadStateOf.get, StateT.get]

theorem buildMethod_fragment (c : Converter) (idx : Nat) (av : List Ty) (st : GState) (m : GenMethod) (z : Bool) (fuel : Nat)
    (hm : st.methods[idx]? = some m) (hup : m.updateTarget = false) (hctor : m.cfg.constructor = none)
    (hs : inF m.source = true) (ht : inF m.target = true)
    (hfuel : 2 * (tySize m.source + tySize m.target) < fuel)
    (hext : c.extend = []) (hms : plainMethodsUpTo (tySize m.source + tySize m.target - 1) st.methods = true)
    (hu : m.cfg.common.useUnderlying = false) (hsk : m.cfg.common.skipCopySameType = false)
    (hz : m.cfg.common.useZeroValue = z) :
    buildMethod c fuel idx av st =
      match genF z false m.source m.target with
      | .ok plan => .ok ((), { st with methods := st.methods.modify idx (fun m => { m with body := some (.convert plan) }) })
      | .error d => .error d := by
  obtain ⟨f, rfl⟩ : ∃ f, fuel = f + 1 := ⟨fuel - 1, by omega⟩
  unfold buildMethod
  simp only [bind, StateT.bind, Except.bind, getMethod_some idx st m hm]
  simp [hup, extendIndex_nil c hext, indexGet_nil, get, getThe, MonadStateOf.get, StateT.get, set, StateT.set, pure, StateT.pure, Except.pure,
    bind, StateT.bind, Except.bind, hctor]
  rw [noLookup_fragment c _ { st with seen := [], useCtor := false } z m.source m.target [] f .build false hs ht (by omega) hext hms hu hsk hz rfl]
  have ha : asgNL Mode.build = false := rfl
  rw [ha]
  cases genF z false m.source m.target with
  | error d => rfl
  | ok plan =>
    simp [ret, modifyMethod, modify, modifyGet, MonadStateOf.modifyGet, StateT.modifyGet, pure, Except.pure]

/-- the declared method as `setup` enters it into the table -/
def declaredMethod (d : Declared) : GenMethod :=
  { name := d.name, source := d.source, target := d.target, args := d.args, contexts := d.contexts,
    returnError := d.returnError, updateTarget := d.updateTarget, explicit := true, dirty := true,
    originPath := [], originName := d.name, cfg := d.cfg }

theorem setup_single (c : Converter) (d : Declared) (hup : d.updateTarget = false) (hraw : d.cfg.rawFieldSettings = []) :
    setup c [d] = .ok [declaredMethod d] := by
  unfold setup
  simp [List.foldlM, bind, Except.bind, pure, Except.pure, hraw, hup, declaredMethod, List.mergeSort_singleton]

theorem generate_single (c : Converter) (d : Declared) (z : Bool) (fuel rounds : Nat)
    (hup : d.updateTarget = false) (hraw : d.cfg.rawFieldSettings = []) (hctor : d.cfg.constructor = none)
    (hs : inF d.source = true) (ht : inF d.target = true)
    (hfuel : 2 * (tySize d.source + tySize d.target) < fuel) (hrounds : 2 ≤ rounds)
    (hext : c.extend = [])
    (hu : d.cfg.common.useUnderlying = false) (hsk : d.cfg.common.skipCopySameType = false)
    (hz : d.cfg.common.useZeroValue = z) :
    generate c [d] fuel rounds =
      match genF z false d.source d.target with
      | .ok plan => .ok [{ declaredMethod d with dirty := false, body := some (.convert plan) }]
      | .error e => .error e := by
  obtain ⟨r, rfl⟩ : ∃ r, rounds = r + 2 := ⟨rounds - 2, by omega⟩
  unfold generate
  rw [setup_single c d hup hraw]
  simp only [bind, Except.bind]
  unfold buildDirty
  simp [StateT.run, bind, StateT.bind, Except.bind, pure, StateT.pure, Except.pure, get, getThe, MonadStateOf.get, StateT.get,
    declaredMethod, List.zipIdx, List.mergeSort_singleton, getMethod, modifyMethod, modify, modifyGet, MonadStateOf.modifyGet, StateT.modifyGet]
  have hms : plainMethodsUpTo (tySize d.source + tySize d.target - 1) [{ declaredMethod d with dirty := false }] = true := by
    have := tySize_pos d.source
    simp [plainMethodsUpTo, declaredMethod, hup, hs, ht]
    omega
  have hb := buildMethod_fragment c 0 d.contexts
    { methods := [{ declaredMethod d with dirty := false }], fileNames := [Facts.thisVar.toList], seen := [], useCtor := false }
    { declaredMethod d with dirty := false } z fuel rfl hup hctor hs ht hfuel hext hms hu hsk hz
  simp only [declaredMethod] at hb
  rw [hb]
  cases genF z false d.source d.target with
  | error e => rfl
  | ok plan =>
    simp only []
    unfold buildDirty
    simp [StateT.pure, pure, bind, StateT.bind, Except.bind, Except.pure, get, getThe, MonadStateOf.get, StateT.get, List.modify]

/-! the same with unnamed structs (FS) -/

theorem buildMethod_struct_fragment (c : Converter) (idx : Nat) (av : List Ty) (st : GState) (m : GenMethod) (z : Bool) (fuel : Nat)
    (hm : st.methods[idx]? = some m) (hup : m.updateTarget = false) (hctor : m.cfg.constructor = none)
    (hs : inFS m.source = true) (ht : inFS m.target = true)
    (hfuel : 2 * (tySize m.source + tySize m.target) < fuel)
    (hext : c.extend = []) (hms : plainMethodsSUpTo (tySize m.source + tySize m.target - 1) st.methods = true)
    (hu : m.cfg.common.useUnderlying = false) (hsk : m.cfg.common.skipCopySameType = false)
    (hz : m.cfg.common.useZeroValue = z)
    (h1 : m.cfg.common.matchIgnoreCase = false) (h2 : m.cfg.common.ignoreMissing = false)
    (h3 : m.cfg.fields = []) (h4 : m.cfg.autoMap = []) (h6 : noFieldSettings st.methods = true) :
    buildMethod c fuel idx av st =
      match genF z false m.source m.target with
      | .ok plan => .ok ((), { st with methods := st.methods.modify idx (fun m => { m with body := some (.convert plan) }) })
      | .error d => .error d := by
  obtain ⟨f, rfl⟩ : ∃ f, fuel = f + 1 := ⟨fuel - 1, by omega⟩
  unfold buildMethod
  simp only [bind, StateT.bind, Except.bind, getMethod_some idx st m hm]
  simp [hup, extendIndex_nil c hext, indexGet_nil, get, getThe, MonadStateOf.get, StateT.get, set, StateT.set, pure, StateT.pure, Except.pure,
    bind, StateT.bind, Except.bind, hctor]
  rw [noLookup_struct_fragment c _ { st with seen := [], useCtor := false } z m.source m.target [] f .build false hs ht (by omega)
    rfl hext hms hu hsk hz rfl (structPlain_of _ { st with seen := [], useCtor := false } h1 h2 h3 h4 rfl h6)]
  have ha : asgNL Mode.build = false := rfl
  rw [ha]
  cases genF z false m.source m.target with
  | error d => rfl
  | ok plan =>
    simp [ret, modifyMethod, modify, modifyGet, MonadStateOf.modifyGet, StateT.modifyGet, pure, Except.pure]

theorem generate_single_struct (c : Converter) (d : Declared) (z : Bool) (fuel rounds : Nat)
    (hup : d.updateTarget = false) (hraw : d.cfg.rawFieldSettings = []) (hctor : d.cfg.constructor = none)
    (hs : inFS d.source = true) (ht : inFS d.target = true)
    (hfuel : 2 * (tySize d.source + tySize d.target) < fuel) (hrounds : 2 ≤ rounds)
    (hext : c.extend = [])
    (hu : d.cfg.common.useUnderlying = false) (hsk : d.cfg.common.skipCopySameType = false)
    (hz : d.cfg.common.useZeroValue = z)
    (h1 : d.cfg.common.matchIgnoreCase = false) (h2 : d.cfg.common.ignoreMissing = false)
    (h3 : d.cfg.fields = []) (h4 : d.cfg.autoMap = []) :
    generate c [d] fuel rounds =
      match genF z false d.source d.target with
      | .ok plan => .ok [{ declaredMethod d with dirty := false, body := some (.convert plan) }]
      | .error e => .error e := by
  obtain ⟨r, rfl⟩ : ∃ r, rounds = r + 2 := ⟨rounds - 2, by omega⟩
  unfold generate
  rw [setup_single c d hup hraw]
  simp only [bind, Except.bind]
  unfold buildDirty
  simp [StateT.run, bind, StateT.bind, Except.bind, pure, StateT.pure, Except.pure, get, getThe, MonadStateOf.get, StateT.get,
    declaredMethod, List.zipIdx, List.mergeSort_singleton, getMethod, modifyMethod, modify, modifyGet, MonadStateOf.modifyGet, StateT.modifyGet]
  have hms : plainMethodsSUpTo (tySize d.source + tySize d.target - 1) [{ declaredMethod d with dirty := false }] = true := by
    have := tySize_pos d.source
    simp [plainMethodsSUpTo, declaredMethod, hup, hs, ht]
    omega
  have hnf : noFieldSettings [{ declaredMethod d with dirty := false }] = true := by
    simp [noFieldSettings, declaredMethod, hraw]
  have hb := buildMethod_struct_fragment c 0 d.contexts
    { methods := [{ declaredMethod d with dirty := false }], fileNames := [Facts.thisVar.toList], seen := [], useCtor := false }
    { declaredMethod d with dirty := false } z fuel rfl hup hctor hs ht hfuel hext hms hu hsk hz h1 h2 h3 h4 hnf
  simp only [declaredMethod] at hb
  rw [hb]
  cases genF z false d.source d.target with
  | error e => rfl
  | ok plan =>
    simp only []
    unfold buildDirty
    simp [StateT.pure, pure, bind, StateT.bind, Except.bind, Except.pure, get, getThe, MonadStateOf.get, StateT.get, List.modify]

end Gv.Gen
