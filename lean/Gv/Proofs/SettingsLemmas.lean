import Gv.Model.Settings

namespace Gv.Settings
open Gv.Str

/-- the inheritable boolean fields of `Common` -/
inductive BF
  | wrapErrors | ignoreUnexported | ignoreBasicZero | ignoreStructZero | ignoreNillableZero | matchIgnoreCase
  | ignoreMissing | skipCopySameType | useZeroValue | useUnderlying | defaultUpdate | enumEnabled
  deriving Repr, DecidableEq

def BF.get : BF → Common → Bool
  | .wrapErrors, c => c.wrapErrors
  | .ignoreUnexported, c => c.ignoreUnexported
  | .ignoreBasicZero, c => c.ignoreBasicZero
  | .ignoreStructZero, c => c.ignoreStructZero
  | .ignoreNillableZero, c => c.ignoreNillableZero
  | .matchIgnoreCase, c => c.matchIgnoreCase
  | .ignoreMissing, c => c.ignoreMissing
  | .skipCopySameType, c => c.skipCopySameType
  | .useZeroValue, c => c.useZeroValue
  | .useUnderlying, c => c.useUnderlying
  | .defaultUpdate, c => c.defaultUpdate
  | .enumEnabled, c => c.enumEnabled

/-- SPEC table (from the reference documentation): which setting key writes which boolean field -/
def writes : CKey → BF → Bool
  | .wrapErrors, .wrapErrors => true
  | .ignoreUnexported, .ignoreUnexported => true
  | .zvAll, .ignoreBasicZero => true
  | .zvAll, .ignoreStructZero => true
  | .zvAll, .ignoreNillableZero => true
  | .zvBasic, .ignoreBasicZero => true
  | .zvStruct, .ignoreStructZero => true
  | .zvNillable, .ignoreNillableZero => true
  | .defaultUpdate, .defaultUpdate => true
  | .matchIgnoreCase, .matchIgnoreCase => true
  | .ignoreMissing, .ignoreMissing => true
  | .skipCopySameType, .skipCopySameType => true
  | .useZeroValue, .useZeroValue => true
  | .useUnderlying, .useUnderlying => true
  | .enum, .enumEnabled => true
  | _, _ => false

theorem bind_ok {ε α β} {x : Except ε α} {f : α → Except ε β} {b : β} (h : (x >>= f) = .ok b) :
    ∃ a, x = .ok a ∧ f a = .ok b := by
  cases x with
  | error e => cases h
  | ok a => exact ⟨a, rfl, h⟩

/-- effect and frame of one recognised key on the boolean fields -/
theorem applyKey_effect (rx : RegexOracle) (c c' : Common) (k : CKey) (rest : S)
    (h : applyKey rx c k rest = .ok c') (f : BF) :
    (writes k f = true → parseBool rest = .ok (f.get c')) ∧ (writes k f = false → f.get c' = f.get c) := by
  cases k <;> simp only [applyKey] at h
  case wrapErrors =>
    split at h
    · cases h
    · obtain ⟨b, hb, hc⟩ := bind_ok h
      cases hc
      cases f <;> simp [writes, BF.get, hb]
  case wrapErrorsUsing =>
    split at h
    · cases h
    · obtain ⟨b, hb, hc⟩ := bind_ok h
      cases hc
      cases f <;> simp [writes, BF.get]
  case argContextRegex =>
    obtain ⟨b, hb, hc⟩ := bind_ok h
    split at hc
    · cases hc; cases f <;> simp [writes, BF.get]
    · cases hc
  case enumUnknown =>
    obtain ⟨b, hb, hc⟩ := bind_ok h
    split at hc
    · cases hc
    · cases hc; cases f <;> simp [writes, BF.get]
  all_goals
    obtain ⟨b, hb, hc⟩ := bind_ok h
    cases hc
    cases f <;> simp [writes, BF.get, hb]

end Gv.Settings

namespace Gv.Settings
open Gv.Str

def keyOfLine (l : S) : Option (CKey × S) :=
  match lookupKey commonKeyTable (Comments.command l).1 with
  | some k => some (k, (Comments.command l).2)
  | none => none

def boolOf (rest : S) : Bool := match parseBool rest with | .ok b => b | .error _ => false

/-- the value a boolean field has after a sequence of recognised keys: the last writer wins -/
def lastWrite (f : BF) (init : Bool) (ks : List (CKey × S)) : Bool :=
  ks.foldl (fun acc kr => if writes kr.1 f then boolOf kr.2 else acc) init

theorem lastWrite_append (f : BF) (init : Bool) (a b : List (CKey × S)) :
    lastWrite f init (a ++ b) = lastWrite f (lastWrite f init a) b := by
  simp [lastWrite, List.foldl_append]

theorem lookupKey_some {α} {table : List (String × α)} {cmd : S} {v : α} (h : lookupKey table cmd = some v) :
    ∃ p ∈ table, p.1.toList = cmd ∧ p.2 = v := by
  unfold lookupKey at h
  split at h
  · rename_i p hp
    have hm := List.mem_of_find?_eq_some hp
    have hpred := List.find?_some hp
    refine ⟨p, hm, ?_, ?_⟩
    · simpa using hpred
    · cases h; rfl
  · cases h

theorem disjoint_conv_common : ∀ p ∈ converterKeyTable, lookupKey commonKeyTable p.1.toList = none := by decide
theorem disjoint_meth_common : ∀ p ∈ methodKeyTable, lookupKey commonKeyTable p.1.toList = none := by decide
theorem disjoint_meth_conv : ∀ p ∈ methodKeyTable, lookupKey converterKeyTable p.1.toList = none := by decide
theorem disjoint_conv_meth : ∀ p ∈ converterKeyTable, lookupKey methodKeyTable p.1.toList = none := by decide

theorem keyOfLine_none_of_conv {l : S} {v : VKey} (h : lookupKey converterKeyTable (Comments.command l).1 = some v) :
    keyOfLine l = none := by
  obtain ⟨p, hp, hcmd, _⟩ := lookupKey_some h
  unfold keyOfLine
  rw [← hcmd, disjoint_conv_common p hp]

theorem keyOfLine_none_of_meth {l : S} {v : MKey} (h : lookupKey methodKeyTable (Comments.command l).1 = some v) :
    keyOfLine l = none := by
  obtain ⟨p, hp, hcmd, _⟩ := lookupKey_some h
  unfold keyOfLine
  rw [← hcmd, disjoint_meth_common p hp]

theorem parseCommon_effect (rx : RegexOracle) (c c' : Common) (fs : Bool) (l : S)
    (h : parseCommon rx c (Comments.command l).1 (Comments.command l).2 = .ok (fs, c')) (f : BF) :
    f.get c' = lastWrite f (f.get c) (keyOfLine l).toList := by
  unfold parseCommon at h
  unfold keyOfLine
  split at h
  · rename_i k hk
    obtain ⟨c2, hc2, hr⟩ := bind_ok h
    cases hr
    rw [hk]
    have := applyKey_effect rx c c' k _ hc2 f
    simp only [Option.toList, lastWrite, List.foldl_cons, List.foldl_nil]
    cases hw : writes k f
    · simp [this.2 hw]
    · simp [boolOf, this.1 hw]
  · split at h <;> cases h

end Gv.Settings

namespace Gv.Settings
open Gv.Str

theorem lastWrite_none (f : BF) (b : Bool) : lastWrite f b (none : Option (CKey × S)).toList = b := rfl

theorem parseConverterLine_effect (env : Env) (c c' : ConvCfg) (l : S)
    (h : parseConverterLine env c l = .ok c') (f : BF) :
    f.get c'.common = lastWrite f (f.get c.common) (keyOfLine l).toList := by
  unfold parseConverterLine at h
  rcases hcmd : Comments.command l with ⟨cmd, rest⟩
  simp only [hcmd] at h
  have h1 : (Comments.command l).1 = cmd := by rw [hcmd]
  have h2 : (Comments.command l).2 = rest := by rw [hcmd]
  split at h
  case h_10 hk =>
    -- not a converter-level key: parseCommon
    obtain ⟨⟨fs, cm⟩, hp, hr⟩ := bind_ok h
    cases hr
    rw [← h1, ← h2] at hp
    exact parseCommon_effect env.rx c.common cm fs l hp f
  all_goals
    rename_i hk
    rw [← h1] at hk
    rw [keyOfLine_none_of_conv hk, lastWrite_none]
  · cases h; rfl
  · obtain ⟨_, _, hr⟩ := bind_ok h
    obtain ⟨s, _, hr⟩ := bind_ok hr
    cases hr; rfl
  · cases h; rfl
  · obtain ⟨s, _, hr⟩ := bind_ok h
    cases hr; rfl
  · split at h
    · cases h
    · obtain ⟨v, _, hr⟩ := bind_ok h
      split at hr
      · cases hr
      · split at hr
        · cases hr
        · cases hr; rfl
  · split at h
    · cases h
    · split at h <;> (cases h; rfl)
  · obtain ⟨_, _, hr⟩ := bind_ok h
    cases hr; rfl
  · obtain ⟨⟨p, n⟩, _, hr⟩ := bind_ok h
    split at hr
    · cases hr; cases f <;> rfl
    · cases hr
  · split at h <;> first | (cases h; rfl) | (cases h; cases f <;> rfl) | cases h

end Gv.Settings

namespace Gv.Settings
open Gv.Str

theorem parseMethodLine_effect (env : Env) (m m' : MethodCfg) (l : S)
    (h : parseMethodLine env m l = .ok m') (f : BF) :
    f.get m'.common = lastWrite f (f.get m.common) (keyOfLine l).toList := by
  unfold parseMethodLine at h
  rcases hcmd : Comments.command l with ⟨cmd, rest⟩
  simp only [hcmd] at h
  have h1 : (Comments.command l).1 = cmd := by rw [hcmd]
  have h2 : (Comments.command l).2 = rest := by rw [hcmd]
  split at h
  case h_9 hk =>
    obtain ⟨⟨fs, cm⟩, hp, hr⟩ := bind_ok h
    rw [← h1, ← h2] at hp
    have := parseCommon_effect env.rx m.common cm fs l hp f
    cases hr
    split <;> simpa using this
  all_goals
    rename_i hk
    rw [← h1] at hk
    rw [keyOfLine_none_of_meth hk, lastWrite_none]
  · obtain ⟨⟨s, t, cu⟩, _, hr⟩ := bind_ok h
    split at hr
    · cases hr
    · cases hr; rfl
  · cases h; rfl
  · obtain ⟨s, _, hr⟩ := bind_ok h
    cases hr; rfl
  · obtain ⟨s, _, hr⟩ := bind_ok h
    cases hr; rfl
  · split at h
    · split at h
      · cases h
      · cases h; rfl
    · cases h
  · split at h <;> (split at h <;> first | (cases h; rfl) | cases h)
  · obtain ⟨s, _, hr⟩ := bind_ok h
    cases hr; rfl
  · split at h <;> first | (cases h; rfl) | (cases h; cases f <;> rfl) | cases h

theorem parseConverterLines_effect (env : Env) (lvl : String) (ls : List S) : ∀ (c c' : ConvCfg),
    parseConverterLines env lvl c ls = .ok c' → ∀ f : BF,
    f.get c'.common = lastWrite f (f.get c.common) (ls.filterMap keyOfLine) := by
  induction ls with
  | nil => intro c c' h f; cases h; rfl
  | cons l ls ih =>
    intro c c' h f
    unfold parseConverterLines at h
    split at h
    · rename_i c1 h1
      have e1 := parseConverterLine_effect env c c1 l h1 f
      have e2 := ih c1 c' h f
      rw [e2, e1]
      cases hk : keyOfLine l <;> simp [hk, lastWrite]
    · cases h

theorem parseMethodLines_effect (env : Env) (ls : List S) : ∀ (m m' : MethodCfg),
    parseMethodLines env m ls = .ok m' → ∀ f : BF,
    f.get m'.common = lastWrite f (f.get m.common) (ls.filterMap keyOfLine) := by
  induction ls with
  | nil => intro m m' h f; cases h; rfl
  | cons l ls ih =>
    intro m m' h f
    unfold parseMethodLines at h
    split at h
    · rename_i m1 h1
      have e1 := parseMethodLine_effect env m m1 l h1 f
      have e2 := ih m1 m' h f
      rw [e2, e1]
      cases hk : keyOfLine l <;> simp [hk, lastWrite]
    · cases h

end Gv.Settings
