import Gv.Model.Eval

namespace Gv.Eval

theorem E_bind_ok {α β} (x : E α) (f : α → E β) (n : Nat) (r : β × Nat) :
    (x >>= f) n = .ok r ↔ ∃ a n1, x n = .ok (a, n1) ∧ f a n1 = .ok r := by
  show (StateT.bind x f) n = .ok r ↔ _
  unfold StateT.bind
  cases hx : x n with
  | ok v =>
    obtain ⟨a, n1⟩ := v
    simp only [bind]
    constructor
    · intro h; exact ⟨a, n1, rfl, h⟩
    · rintro ⟨a', n1', h1, h2⟩; cases h1; exact h2
  | err e => simp [bind]
  | panic k => simp [bind]
  | stuck w => simp [bind]

theorem E_pure_ok {α} (a : α) (n : Nat) (r : α × Nat) : (pure a : E α) n = Outcome.ok r ↔ r = (a, n) := by
  show (StateT.pure a : E α) n = Outcome.ok r ↔ _
  unfold StateT.pure
  constructor
  · intro h; cases h; rfl
  · intro h; subst h; rfl

theorem freshLoc_ok (n : Nat) : freshLoc n = .ok (.fresh n, n + 1) := rfl

end Gv.Eval
