/-
Specification side of C19, written from the property statement, not from the code:
  * a line is a setting iff its trimmed text starts with `goverter:`; value = the rest; source order;
  * a marker on the wrong kind of declaration is an error.
-/
import Gv.Model.Comments

namespace Gv.Spec.Comments
open Gv.Str Gv.Comments

/-- every physical line (split at `\n`) whose trimmed text starts with the prefix, in order; no length limit -/
def specSettingLines (text : S) : List S := (splitOn '\n' text).filterMap settingOf

def hasConv (g : Group) : Bool := isInfixOf converterMarker (commentToString g)
def hasVars (g : Group) : Bool := isInfixOf variablesMarker (commentToString g)

/-- a spec inside a declaration whose own doc carries no marker: is a marker sitting on a kind of
declaration that can never be a converter / variables block? -/
def misplacedInSpec (sp : Spec) : Bool :=
  match sp.kind with
  | .iface | .otherType => !hasConv sp.doc && hasVars sp.doc
  | _ => hasConv sp.doc || hasVars sp.doc

/-- markers the statement calls "on the wrong kind of declaration" -/
def misplaced : Decl → Bool
  | .func f => hasConv f.doc || hasVars f.doc
  | .gen g =>
    if hasConv g.doc || hasVars g.doc then false   -- handled (accepted or rejected) by the block rules
    else g.specs.any misplacedInSpec

/-- the statement's verdict on a file: an error if the model reports one or a marker is misplaced -/
def specIsError (ds : List Decl) : Bool :=
  (match parseDecls ds with | .error _ => true | .ok _ => false) || ds.any misplaced

end Gv.Spec.Comments
