/-
The structural specification of C02 as a RELATION, written from the property statement: `Img env s t v w` says that `w`
(locations erased) is the structural image in type `t` of the value `v` of type `s`:
basic payloads unchanged, nil ↦ nil, non-nil pointers to the image of the pointee, a value meeting a pointer target
becomes a non-nil pointer to its image, slices/arrays element-wise in order (same length), maps entry-wise (same number
of entries), structs field-wise: every target field is the image of the same-named source field.
(`*T → U` is included: nil gives the zero value; target fields without a source are a C05 matter and not part of this relation.)
-/
import Gv.Model.Eval
import Gv.Spec.Structural

namespace Gv.Spec
open Gv Gv.Str Gv.Eval

/-- `w` is the (location-free) zero value of type `t`, to whatever nesting depth the evaluation looked at (`nil` stands for
a zero value that was not expanded at all) -/
def IsZeroOf (env : TEnv) (t : Ty) (w : Val) : Prop := w = .nil ∨ ∃ k, w = erase (zeroVal env k t)

mutual
  inductive Img (env : TEnv) : Ty → Ty → Val → Val → Prop
    | basic {s t k r} : under env s = .basic k → under env t = .basic k → Img env s t (.basic r) (.basic r)
    | ptrNil {s t se te} : under env s = .ptr se → under env t = .ptr te → Img env s t .nil .nil
    | ptrPtr {s t se te l x y} : under env s = .ptr se → under env t = .ptr te → Img env se te x y →
        Img env s t (.ptr l x) (.ptr .none y)
    | toPtr {s t te v w} : (∀ e, under env s ≠ .ptr e) → under env t = .ptr te → Img env s te v w →
        Img env s t v (.ptr .none w)
    /-- `*T → U` (allowed by useZeroValueOnPointerInconsistency): a nil pointer gives the zero value of `U` … -/
    | srcNil {s t se w} : under env s = .ptr se → (∀ e, under env t ≠ .ptr e) → IsZeroOf env t w → Img env s t .nil w
    /-- … and a non-nil one the image of the pointee -/
    | srcPtr {s t se l x y} : under env s = .ptr se → (∀ e, under env t ≠ .ptr e) → Img env se t x y → Img env s t (.ptr l x) y
    | sliceNil {s t se te} : under env s = .slice se → under env t = .slice te → Img env s t .nil .nil
    | slice {s t se te l vs ws} : under env s = .slice se → under env t = .slice te → ImgList env se te vs ws →
        Img env s t (.slice l vs) (.slice .none ws)
    | array {s t n se te vs ws} : under env s = .array n se → under env t = .slice te → ImgList env se te vs ws →
        Img env s t (.arr vs) (.slice .none ws)
    | mapNil {s t sk sv tk tv} : under env s = .map sk sv → under env t = .map tk tv → Img env s t .nil .nil
    | map {s t sk sv tk tv l kvs ws} : under env s = .map sk sv → under env t = .map tk tv →
        ImgEntries env sk sv tk tv kvs ws → Img env s t (.map l kvs) (.map .none ws)
    | struct {s t sfs tfs fs ws} : under env s = .struct sfs → under env t = .struct tfs →
        ImgFields env sfs.toList fs tfs.toList ws → Img env s t (.struct fs) (.struct ws)
  /-- element-wise, in order: same length -/
  inductive ImgList (env : TEnv) : Ty → Ty → List Val → List Val → Prop
    | nil {se te} : ImgList env se te [] []
    | cons {se te v w vs ws} : Img env se te v w → ImgList env se te vs ws → ImgList env se te (v :: vs) (w :: ws)
  /-- entry-wise: same number of entries, key ↦ image of the key, value ↦ image of the value -/
  inductive ImgEntries (env : TEnv) : Ty → Ty → Ty → Ty → List (Val × Val) → List (Val × Val) → Prop
    | nil {sk sv tk tv} : ImgEntries env sk sv tk tv [] []
    | cons {sk sv tk tv k v k' v' r r'} : Img env sk tk k k' → Img env sv tv v v' → ImgEntries env sk sv tk tv r r' →
        ImgEntries env sk sv tk tv ((k, v) :: r) ((k', v') :: r')
  /-- one result field per target field, in declaration order, each the image of the same-named source field -/
  inductive ImgFields (env : TEnv) : List (FieldInfo × Ty) → List (S × Val) → List (FieldInfo × Ty) → List (S × Val) → Prop
    | nil {sfs fs} : ImgFields env sfs fs [] []
    | cons {sfs fs tf tty sf sty x y tfs ws} :
        sfs.find? (fun (p : FieldInfo × Ty) => p.1.name == tf.name) = some (sf, sty) →
        fs.lookup tf.name = some x → Img env sty tty x y → ImgFields env sfs fs tfs ws →
        ImgFields env sfs fs ((tf, tty) :: tfs) ((tf.name, y) :: ws)
end

/-- lengths are preserved -/
theorem ImgList.length_eq {env se te vs ws} (h : ImgList env se te vs ws) : vs.length = ws.length := by
  induction vs generalizing ws with
  | nil => cases h; rfl
  | cons v vs ih => cases h with | cons _ hr => simp [ih hr]

theorem ImgEntries.length_eq {env sk sv tk tv r r'} (h : ImgEntries env sk sv tk tv r r') : r.length = r'.length := by
  induction r generalizing r' with
  | nil => cases h; rfl
  | cons e r ih => cases h with | cons _ _ hr => simp [ih hr]

end Gv.Spec
