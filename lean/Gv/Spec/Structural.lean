/-
Specification side of C02/C11: the structural mapping between two types, written from the property
statement (not from the generator): every target part is the mapping of the corresponding source part,
basic payloads are unchanged, lengths/order/entry counts are preserved, nil ↦ nil, empty ↦ empty,
T ↦ *U is a non-nil pointer, *T ↦ U gives the zero value for nil.
-/
import Gv.Model.Eval

namespace Gv.Spec
open Gv Gv.Str Gv.Eval

/-- forget locations (sharing is the business of C04, not of the structural mapping) -/
def erase : Val → Val
  | .basic r => .basic r
  | .nil => .nil
  | .ptr _ v => .ptr .none (erase v)
  | .slice _ vs => .slice .none (eraseList vs)
  | .arr vs => .arr (eraseList vs)
  | .map _ kvs => .map .none (eraseEntries kvs)
  | .struct fs => .struct (eraseFields fs)
  | .tok fn as => .tok fn (eraseList as)
  | .absent => .absent
where
  eraseList : List Val → List Val
    | [] => []
    | v :: vs => erase v :: eraseList vs
  eraseEntries : List (Val × Val) → List (Val × Val)
    | [] => []
    | (k, v) :: r => (erase k, erase v) :: eraseEntries r
  eraseFields : List (S × Val) → List (S × Val)
    | [] => []
    | (n, v) :: r => (n, erase v) :: eraseFields r

/-- leading pointer levels of a type (for value → pointer positions: `T → **U` wraps twice) -/
def stripPtrs (env : TEnv) : Nat → Ty → Nat × Ty
  | 0, t => (0, t)
  | fuel+1, t =>
    match under env t with
    | .ptr e => let (k, c) := stripPtrs env fuel e; (k + 1, c)
    | _ => (0, t)

def wrapPtrs : Nat → Val → Val
  | 0, v => v
  | k+1, v => .ptr .none (wrapPtrs k v)

mutual
  /-- the structural image of value `v` of type `s` in type `t`, by recursion on the VALUE (finite tree);
      `none` = the types have no structural mapping at this value.  A non-pointer source meeting a pointer
      target is wrapped into as many (non-nil) pointers as the target has leading pointer levels. -/
  def specMap (env : TEnv) (s t : Ty) : Val → Option Val
    | .basic r =>
      let (k, core) := stripPtrs env 16 t
      (match under env s, under env core with
       | .basic k1, .basic k2 => if k1.canon == k2.canon then some (wrapPtrs k (.basic r)) else none
       | _, _ => none)
    | .nil =>
      (match under env s with
       | .ptr _ =>
         (match under env t with
          | .ptr _ => some .nil
          | _ => some (zeroVal env 64 t))
       | .slice _ =>
         let (k, core) := stripPtrs env 16 t
         (match under env core with | .slice _ => some (wrapPtrs k .nil) | _ => none)
       | .map _ _ =>
         let (k, core) := stripPtrs env 16 t
         (match under env core with | .map _ _ => some (wrapPtrs k .nil) | _ => none)
       | _ => none)
    | .ptr _ x =>
      (match under env s, under env t with
       | .ptr se, .ptr te => (specMap env se te x).map (.ptr .none)
       | .ptr se, _ => specMap env se t x
       | _, _ => none)
    | .slice _ vs =>
      let (k, core) := stripPtrs env 16 t
      (match under env s, under env core with
       | .slice se, .slice te => (specList env se te vs).map (fun r => wrapPtrs k (.slice .none r))
       | _, _ => none)
    | .arr vs =>
      let (k, core) := stripPtrs env 16 t
      (match under env s, under env core with
       | .array _ se, .slice te => (specList env se te vs).map (fun r => wrapPtrs k (.slice .none r))
       | _, _ => none)
    | .map _ kvs =>
      let (k, core) := stripPtrs env 16 t
      (match under env s, under env core with
       | .map sk sv, .map tk tv => (specEntries env sk sv tk tv kvs).map (fun r => wrapPtrs k (.map .none r))
       | _, _ => none)
    | .struct fs =>
      let (k, core) := stripPtrs env 16 t
      (match under env s, under env core with
       | .struct sfs, .struct tfs =>
         (specImages env sfs.toList tfs.toList fs).map (fun imgs =>
           wrapPtrs k (.struct (tfs.toList.map (fun (tf, _) =>
             (tf.name, (imgs.lookup tf.name).getD ((fieldOf (zeroVal env 64 core) tf.name).getD .nil))))))
       | _, _ => none)
    | .tok _ _ => none
    | .absent => none

  def specList (env : TEnv) (se te : Ty) : List Val → Option (List Val)
    | [] => some []
    | v :: vs =>
      match specMap env se te v, specList env se te vs with
      | some x, some r => some (x :: r)
      | _, _ => none

  def specEntries (env : TEnv) (sk sv tk tv : Ty) : List (Val × Val) → Option (List (Val × Val))
    | [] => some []
    | (k, v) :: r =>
      match specMap env sk tk k, specMap env sv tv v, specEntries env sk sv tk tv r with
      | some k', some v', some rest => some ((k', v') :: rest)
      | _, _, _ => none

  /-- the images of the source fields that have a same-named target field (a target field without source keeps the zero value) -/
  def specImages (env : TEnv) (sfs tfs : List (FieldInfo × Ty)) : List (S × Val) → Option (List (S × Val))
    | [] => some []
    | (n, v) :: rest =>
      match sfs.find? (fun (f, _) => f.name == n), tfs.find? (fun (f, _) => f.name == n) with
      | some (_, st), some (_, tt) =>
        (match specMap env st tt v, specImages env sfs tfs rest with
         | some x, some r => some ((n, x) :: r)
         | _, _ => none)
      | _, _ => specImages env sfs tfs rest
end

end Gv.Spec
