/-
Specification side of C02/C11: the structural mapping between two types, written from the property
statement (not from the generator): every target part is the mapping of the corresponding source part,
basic payloads are unchanged, lengths/order/entry counts are preserved, nil ↦ nil, empty ↦ empty,
T ↦ *U is a non-nil pointer, *T ↦ U gives the zero value for nil.
-/
import Gv.Model.Eval

namespace Gv.Spec
open Gv Gv.Str Gv.Eval

/-- forget locations (sharing is the business of C04, not of the structural mapping) -/
def erase : Val → Val
  | .basic r => .basic r
  | .nil => .nil
  | .ptr _ v => .ptr .none (erase v)
  | .slice _ vs => .slice .none (eraseList vs)
  | .arr vs => .arr (eraseList vs)
  | .map _ kvs => .map .none (eraseEntries kvs)
  | .struct fs => .struct (eraseFields fs)
  | .tok fn as => .tok fn (eraseList as)
  | .absent => .absent
where
  eraseList : List Val → List Val
    | [] => []
    | v :: vs => erase v :: eraseList vs
  eraseEntries : List (Val × Val) → List (Val × Val)
    | [] => []
    | (k, v) :: r => (erase k, erase v) :: eraseEntries r
  eraseFields : List (S × Val) → List (S × Val)
    | [] => []
    | (n, v) :: r => (n, erase v) :: eraseFields r

mutual
  /-- the structural image of value `v` of type `s` in type `t`; `none` = the types have no structural mapping -/
  def specMap (env : TEnv) : Nat → Ty → Ty → Val → Option Val
    | 0, _, _, _ => none
    | fuel+1, s, t, v =>
      match under env s, under env t with
      | .basic k, .basic k' => if k == k' then some v else none
      | .ptr se, .ptr te =>
        (match v with
         | .nil => some .nil
         | .ptr _ x => (specMap env fuel se te x).map (.ptr .none)
         | _ => none)
      | .ptr se, ut =>
        -- pointer to value (only generated with useZeroValueOnPointerInconsistency)
        let _ := ut
        (match v with
         | .nil => some (zeroVal env 64 t)
         | .ptr _ x => specMap env fuel se t x
         | _ => none)
      | _, .ptr te => (specMap env fuel s te v).map (.ptr .none)
      | .slice se, .slice te =>
        (match v with
         | .nil => some .nil
         | .slice _ vs => (specList env fuel se te vs).map (.slice .none)
         | _ => none)
      | .array _ se, .slice te =>
        (match v with
         | .arr vs => (specList env fuel se te vs).map (.slice .none)
         | _ => none)
      | .map sk sv, .map tk tv =>
        (match v with
         | .nil => some .nil
         | .map _ kvs => (specEntries env fuel sk sv tk tv kvs).map (.map .none)
         | _ => none)
      | .struct _, .struct tfs =>
        (match v with
         | .struct fs => (specFields env fuel s fs tfs.toList).map .struct
         | _ => none)
      | _, _ => none

  def specList (env : TEnv) : Nat → Ty → Ty → List Val → Option (List Val)
    | 0, _, _, _ => none
    | _, _, _, [] => some []
    | fuel+1, se, te, v :: vs => do
      let x ← specMap env fuel se te v
      let r ← specList env fuel se te vs
      pure (x :: r)

  def specEntries (env : TEnv) : Nat → Ty → Ty → Ty → Ty → List (Val × Val) → Option (List (Val × Val))
    | 0, _, _, _, _, _ => none
    | _, _, _, _, _, [] => some []
    | fuel+1, sk, sv, tk, tv, (k, v) :: r => do
      let k' ← specMap env fuel sk tk k
      let v' ← specMap env fuel sv tv v
      let rest ← specEntries env fuel sk sv tk tv r
      pure ((k', v') :: rest)

  /-- per target field: the image of the same-named source field; a target field without source keeps the zero value -/
  def specFields (env : TEnv) : Nat → Ty → List (S × Val) → List (FieldInfo × Ty) → Option (List (S × Val))
    | 0, _, _, _ => none
    | _, _, _, [] => some []
    | fuel+1, s, fs, (tf, tty) :: rest => do
      let sty : Option Ty := match isStruct env s with
        | some sfs => (sfs.toList.find? (fun (f, _) => f.name == tf.name)).map (·.2)
        | none => none
      let x ← match sty, fs.lookup tf.name with
        | some st, some sv => specMap env fuel st tty sv
        | _, _ => some (zeroVal env 64 tty)
      let r ← specFields env fuel s fs rest
      pure ((tf.name, x) :: r)
end

end Gv.Spec
