/-
The specification of C05 (ignored fields) and C10 (update methods) as a RELATION, written from the property statements:
`ImgOnto env K s t v old w` says that `w` is what assigning the structural conversion of the source value `v` (of type `s`)
ONTO a target location of type `t` that held `old` before gives (locations erased):

  * basic payloads are copied; a non-nil pointer / slice / map source gives a NEW pointer / slice / map holding the
    conversion of the pointee / elements / entries (each converted onto a fresh, zero-valued location);
  * a NIL source pointer / slice / map leaves the target as it was (`w = old`): "a nil source pointer leaves the target
    untouched";
  * struct → struct goes field by field over the TARGET fields, according to the field's mode:
      `keep`           (goverter:ignore, ignoreMissing, ignoreUnexported: "leave the field unassigned"; in an update method
                        "ignored and unmapped target fields keep their previous values"): the field holds what `old` held;
      `assign path`    the field holds the conversion of the value its source path names (`FieldSrc`: goverter:map — a source
                       field, a dotted path whose nil intermediate pointers yield nil, `.` for the whole source; by default the
                       same-named field), assigned onto the field's previous value;
      `assignMethod path n`  the same with the result of the source METHOD `n` of the struct the path names
                       (`MethodSrc`; the result is uninterpreted: `tok n (receiver :: context values)`);
      `assignNonZero`  (update:ignoreZeroValueField) "a zero-valued source field leaves the corresponding target field
                        unchanged", and a non-zero one is assigned like `assign`.
    The modes are the configuration of the struct conversion (`modesOf` reads them off a plan); for nested structs the
    relation only says that SOME configuration was applied;
  * where the conversion of a part is delegated to another generated method, the part is REPLACED by its conversion
    (the image onto a fresh zero-valued location), whatever it held before;
  * C11, `default FUNC`: where the other method (signature `s → t`, `K s t _`) has a default constructor, it starts from
    FUNC's result `c` (`IsCtorOf`) instead of the zero value: with plain `default` (`K s t false`) the part is the image
    ONTO `c` ("a nil source pointer returns FUNC's result unchanged, ignored fields keep FUNC's values"); with
    `default:update` (`K s t true`) a nil source pointer gives `c` and a non-nil source "is applied on top of FUNC's result
    instead of replacing it" (same pointer, the pointee is the image of the source onto FUNC's object).
`K s t upd` says which method signatures have a default constructor (`CtorSig p` for a program); for a program without
constructors it is empty and the last clause never applies.
-/
import Gv.Model.Eval
import Gv.Spec.Structural
import Gv.Spec.StructuralRel

namespace Gv.Spec
open Gv Gv.Str Gv.Eval

/-- how one target field is treated; an assigned field names its source by a path of field names (goverter:map: a source
field, a dotted path, `.` = the empty path = the whole source; without a setting the same-named field) -/
inductive FMode
  | keep | assign (path : List S) | assignNonZero (path : List S)
  /-- the source is a METHOD `meth` of the struct the path names (goverter:map Path.Method Field) -/
  | assignMethod (path : List S) (meth : S) | assignMethodNonZero (path : List S) (meth : S)
  deriving Repr, DecidableEq, Inhabited

/-- how the plan of one target field treats the field -/
def modeOf : FieldPlan → FMode
  | .skip _ => .keep
  | .mapped _ path _ _ _ _ .none => .assign path
  | .mapped _ path _ _ _ _ .check => .assignNonZero path
  | .viaMethod _ path _ _ (.call (.structMethod n) _ _ _) _ _ .none => .assignMethod path n
  | .viaMethod _ path _ _ (.call (.structMethod n) _ _ _) _ _ .check => .assignMethodNonZero path n
  | .viaMethod _ path _ _ _ _ _ .none => .assign path
  | .viaMethod _ path _ _ _ _ _ .check => .assignNonZero path

/-- no field is mapped to the whole source (`goverter:map . Field`: the empty path) -/
def noWholeSource : FieldPlans → Bool
  | .nil => true
  | .cons (.mapped _ path _ _ _ _ _) r => !path.isEmpty && noWholeSource r
  | .cons (.viaMethod _ path _ _ _ _ _ _) r => !path.isEmpty && noWholeSource r
  | .cons _ r => noWholeSource r

/-- the configuration of a struct conversion, one mode per target field in declaration order -/
def modesOf (plans : FieldPlans) : List FMode := plans.toList.map modeOf

/-- "the source field value is the zero value" (what the emitted `if source.F != zero` tests) -/
def IsZeroValue (v : Val) : Prop := isZeroVal v = true

/-- `c` is (erased) what the default constructor of a method with target type `t` makes the method start from: the
constructor's value (`ctorVal`: numeric fields 7, strings "ctor"), behind a (fresh) pointer when `t` is a pointer type -/
def IsCtorOf (env : TEnv) (t : Ty) (c : Val) : Prop :=
  ((∀ e, under env t ≠ .ptr e) ∧ c = erase (ctorVal env 64 t)) ∨
  (∃ te, under env t = .ptr te ∧ c = .ptr .none (erase (ctorVal env 64 te)))

/-! ### the source of a mapped field: a path of field names (C05) -/

/-- `PathVal v path r`: following the field names of `path` from the value `v` through structs, dereferencing pointers on
the way, reaches the value `x` (`r = some x`), or a pointer on the way is nil (`r = none`).  The empty path is `v` itself. -/
inductive PathVal : Val → List S → Option Val → Prop
  | here {v} : PathVal v [] (some v)
  | field {fs p x rest r} : fs.lookup p = some x → PathVal x rest r → PathVal (.struct fs) (p :: rest) r
  | ptrNil {p rest} : PathVal .nil (p :: rest) none
  | ptrField {l fs p x rest r} : fs.lookup p = some x → PathVal x rest r → PathVal (.ptr l (.struct fs)) (p :: rest) r

/-- `PathTy env s path crossed leaf`: the same over types — `path` leads from type `s` to a value of type `leaf`;
`crossed` = some step goes through a pointer -/
inductive PathTy (env : TEnv) : Ty → List S → Bool → Ty → Prop
  | here {s} : PathTy env s [] false s
  | field {s fs p f ty rest c leaf} : under env s = .struct fs →
      fs.toList.find? (fun (y : FieldInfo × Ty) => y.1.name == p) = some (f, ty) → PathTy env ty rest c leaf →
      PathTy env s (p :: rest) c leaf
  | ptrField {s e fs p f ty rest c leaf} : under env s = .ptr e → under env e = .struct fs →
      fs.toList.find? (fun (y : FieldInfo × Ty) => y.1.name == p) = some (f, ty) → PathTy env ty rest c leaf →
      PathTy env s (p :: rest) true leaf

/-- `FieldSrc env s v path sty a`: the value `a` (of type `sty`) that a target field mapped to `path` receives from the source
`v : s`, before it is converted to the field's type:
 * no pointer on the way: the value the path names;
 * a pointer on the way is nil: `nil` (of the leaf's pointer type / the type of a pointer to the leaf);
 * pointers on the way, the leaf is a pointer: that pointer itself;
 * pointers on the way, the leaf is not a pointer: a pointer to (a copy of) the leaf value -/
inductive FieldSrc (env : TEnv) : Ty → Val → List S → Ty → Val → Prop
  | direct {s v path leaf x} : PathTy env s path false leaf → PathVal v path (some x) → FieldSrc env s v path leaf x
  | nilOnWayPtr {s v path leaf e} : PathTy env s path true leaf → under env leaf = .ptr e → PathVal v path none →
      FieldSrc env s v path leaf .nil
  | nilOnWay {s v path leaf} : PathTy env s path true leaf → (∀ e, under env leaf ≠ .ptr e) → PathVal v path none →
      FieldSrc env s v path (.ptr leaf) .nil
  | leafPtr {s v path leaf e x} : PathTy env s path true leaf → under env leaf = .ptr e → PathVal v path (some x) →
      FieldSrc env s v path leaf x
  | wrapped {s v path leaf x l} : PathTy env s path true leaf → (∀ e, under env leaf ≠ .ptr e) → PathVal v path (some x) →
      FieldSrc env s v path (.ptr leaf) (.ptr l x)

/-! ### a source METHOD as the source of a mapped field (C05) -/

/-- the named type `T` has no field `n` (a field would win) and its method `n` returns exactly one result, of type `rty`
(no error result: failing source methods are C07's) -/
def HasMethod (env : TEnv) (T : Ty) (n : S) (rty : Ty) : Prop :=
  (∀ fs f ty, under env T = .struct fs → fs.toList.find? (fun (y : FieldInfo × Ty) => y.1.name == n) ≠ some (f, ty)) ∧
  ∃ id d md, T = .named id ∧ env.find id = some d ∧
    d.methods.find? (fun (m : MethodDecl) => m.name == n) = some md ∧ md.sig.results = [rty]

/-- `Recv env s v path crossed T r`: the RECEIVER of the method call — the value the path names, read through a last pointer;
`T` its (struct) type, `crossed` = a pointer was crossed (on the way or the receiver itself), `r = none` = one of them is nil -/
inductive Recv (env : TEnv) : Ty → Val → List S → Bool → Ty → Option Val → Prop
  | val {s v path c T r} : PathTy env s path c T → (∀ e, under env T ≠ .ptr e) → PathVal v path r → Recv env s v path c T r
  | nilOnWay {s v path c T0 T} : PathTy env s path c T0 → under env T0 = .ptr T → PathVal v path none →
      Recv env s v path true T none
  | nilRecv {s v path c T0 T} : PathTy env s path c T0 → under env T0 = .ptr T → PathVal v path (some .nil) →
      Recv env s v path true T none
  | deref {s v path c T0 T l x} : PathTy env s path c T0 → under env T0 = .ptr T → PathVal v path (some (.ptr l x)) →
      Recv env s v path true T (some x)

/-- `MethodSrc env s v path n sty a`: the value `a : sty` a target field mapped to the source method `path.n` receives: the
method's result on the receiver — in the model the uninterpreted application `tok n (receiver :: context arguments)` —;
`nil` when a pointer on the way (or the receiver pointer) is nil; behind a nil guard a non-pointer result is handed on as a
pointer to it -/
inductive MethodSrc (env : TEnv) : Ty → Val → List S → S → Ty → Val → Prop
  | direct {s v path n T rty recv ctx} : Recv env s v path false T (some recv) → HasMethod env T n rty →
      MethodSrc env s v path n rty (.tok n (recv :: ctx))
  | nilPtr {s v path n T rty e} : Recv env s v path true T none → HasMethod env T n rty → under env rty = .ptr e →
      MethodSrc env s v path n rty .nil
  | nil {s v path n T rty} : Recv env s v path true T none → HasMethod env T n rty → (∀ e, under env rty ≠ .ptr e) →
      MethodSrc env s v path n (.ptr rty) .nil
  | resPtr {s v path n T rty e recv ctx} : Recv env s v path true T (some recv) → HasMethod env T n rty →
      under env rty = .ptr e → MethodSrc env s v path n rty (.tok n (recv :: ctx))
  | wrapped {s v path n T rty recv ctx l} : Recv env s v path true T (some recv) → HasMethod env T n rty →
      (∀ e, under env rty ≠ .ptr e) → MethodSrc env s v path n (.ptr rty) (.ptr l (.tok n (recv :: ctx)))

/-- the fields a struct-typed location held before (an unknown previous value has none) -/
def oldFields : Val → List (S × Val)
  | .struct fs => fs
  | _ => []

mutual
  inductive ImgOnto (env : TEnv) (K : Ty → Ty → Bool → Prop) : Ty → Ty → Val → Val → Val → Prop
    | basic {s t k r old} : under env s = .basic k → under env t = .basic k → ImgOnto env K s t (.basic r) old (.basic r)
    /-- an uninterpreted value of a basic type (the result of a source method) is copied as it is -/
    | tokBasic {s t k fn args old} : under env s = .basic k → under env t = .basic k →
        ImgOnto env K s t (.tok fn args) old (.tok fn (erase.eraseList args))
    /-- nil pointer source: the target is left as it was -/
    | ptrNil {s t se te old} : under env s = .ptr se → under env t = .ptr te → ImgOnto env K s t .nil old old
    | ptrPtr {s t se te l x y z old} : under env s = .ptr se → under env t = .ptr te → IsZeroOf env te z →
        ImgOnto env K se te x z y → ImgOnto env K s t (.ptr l x) old (.ptr .none y)
    | toPtr {s t te v w z old} : (∀ e, under env s ≠ .ptr e) → under env t = .ptr te → IsZeroOf env te z →
        ImgOnto env K s te v z w → ImgOnto env K s t v old (.ptr .none w)
    /-- `*T → U`: a nil pointer leaves the target as it was … -/
    | srcNil {s t se old} : under env s = .ptr se → (∀ e, under env t ≠ .ptr e) → ImgOnto env K s t .nil old old
    /-- … and a non-nil one assigns the conversion of the pointee -/
    | srcPtr {s t se l x y z old} : under env s = .ptr se → (∀ e, under env t ≠ .ptr e) → IsZeroOf env t z →
        ImgOnto env K se t x z y → ImgOnto env K s t (.ptr l x) old y
    | sliceNil {s t se te old} : under env s = .slice se → under env t = .slice te → ImgOnto env K s t .nil old old
    | slice {s t se te l vs ws old} : under env s = .slice se → under env t = .slice te → ImgListOnto env K se te vs ws →
        ImgOnto env K s t (.slice l vs) old (.slice .none ws)
    | array {s t n se te vs ws old} : under env s = .array n se → under env t = .slice te → ImgListOnto env K se te vs ws →
        ImgOnto env K s t (.arr vs) old (.slice .none ws)
    | mapNil {s t sk sv tk tv old} : under env s = .map sk sv → under env t = .map tk tv → ImgOnto env K s t .nil old old
    | map {s t sk sv tk tv l kvs ws old} : under env s = .map sk sv → under env t = .map tk tv →
        ImgEntriesOnto env K sk sv tk tv kvs ws → ImgOnto env K s t (.map l kvs) old (.map .none ws)
    /-- a conversion that is delegated to another generated method is built in that method's own fresh (zero-valued)
    result variable, and the location is overwritten with the result: "replaced by its conversion" -/
    | replaced {s t v w z old} : IsZeroOf env t z → ImgOnto env K s t v z w → ImgOnto env K s t v old w
    /-- `default FUNC` (plain) on the method the conversion is delegated to: it starts from FUNC's result `c` -/
    | ctorStart {s t v w c old} : K s t false → IsCtorOf env t c → ImgOnto env K s t v c w → ImgOnto env K s t v old w
    /-- `default FUNC` with default:update, nil source pointer: FUNC's result -/
    | ctorUpdNil {s t se c old} : K s t true → IsCtorOf env t c → under env s = .ptr se → ImgOnto env K s t .nil old c
    /-- … `*S → *T`, non-nil: FUNC's pointer, its pointee updated from the source's pointee -/
    | ctorUpdPtrPtr {s t se te l x o y old} : K s t true → IsCtorOf env t (.ptr .none o) → under env s = .ptr se →
        under env t = .ptr te → ImgOnto env K se te x o y → ImgOnto env K s t (.ptr l x) old (.ptr .none y)
    /-- … `*S → T`, non-nil: FUNC's value updated from the source's pointee -/
    | ctorUpdSrcPtr {s t se l x c y old} : K s t true → IsCtorOf env t c → under env s = .ptr se →
        (∀ e, under env t ≠ .ptr e) → ImgOnto env K se t x c y → ImgOnto env K s t (.ptr l x) old y
    /-- … `S → *T`: FUNC's pointer, its pointee updated from the source -/
    | ctorUpdTgtPtr {s t te v o y old} : K s t true → IsCtorOf env t (.ptr .none o) → (∀ e, under env s ≠ .ptr e) →
        under env t = .ptr te → ImgOnto env K s te v o y → ImgOnto env K s t v old (.ptr .none y)
    /-- struct → struct: field-wise over the target fields, under some configuration `modes` -/
    | struct {s t sfs tfs fs ws modes old} : under env s = .struct sfs → under env t = .struct tfs →
        ImgFieldsOnto env K modes s (.struct fs) tfs.toList (oldFields old) ws → ImgOnto env K s t (.struct fs) old (.struct ws)
  /-- element-wise, in order, same length; every element is converted onto a fresh (zero-valued) slot -/
  inductive ImgListOnto (env : TEnv) (K : Ty → Ty → Bool → Prop) : Ty → Ty → List Val → List Val → Prop
    | nil {se te} : ImgListOnto env K se te [] []
    | cons {se te v w z vs ws} : IsZeroOf env te z → ImgOnto env K se te v z w → ImgListOnto env K se te vs ws →
        ImgListOnto env K se te (v :: vs) (w :: ws)
  /-- entry-wise: same number of entries -/
  inductive ImgEntriesOnto (env : TEnv) (K : Ty → Ty → Bool → Prop) : Ty → Ty → Ty → Ty → List (Val × Val) → List (Val × Val) → Prop
    | nil {sk sv tk tv} : ImgEntriesOnto env K sk sv tk tv [] []
    | cons {sk sv tk tv k v k' v' zk zv r r'} : IsZeroOf env tk zk → ImgOnto env K sk tk k zk k' →
        IsZeroOf env tv zv → ImgOnto env K sv tv v zv v' → ImgEntriesOnto env K sk sv tk tv r r' →
        ImgEntriesOnto env K sk sv tk tv ((k, v) :: r) ((k', v') :: r')
  /-- `ImgFieldsOnto env K modes s src tfs ofs ws`: for every target field of `tfs` (with its mode), the field of the result
  `ws` is what the mode prescribes, given the source `src : s` and the previous target fields `ofs` -/
  inductive ImgFieldsOnto (env : TEnv) (K : Ty → Ty → Bool → Prop) : List FMode → Ty → Val → List (FieldInfo × Ty) →
      List (S × Val) → List (S × Val) → Prop
    | nil {s src ofs ws} : ImgFieldsOnto env K [] s src [] ofs ws
    /-- not assigned: the field holds what it held before -/
    | keep {ms s src tf tty tfs ofs ws} : ws.lookup tf.name = ofs.lookup tf.name →
        ImgFieldsOnto env K ms s src tfs ofs ws → ImgFieldsOnto env K (.keep :: ms) s src ((tf, tty) :: tfs) ofs ws
    /-- assigned: the conversion of the value the path names (onto the field's previous value) -/
    | assign {ms s src tf tty tfs ofs ws path sty a y} :
        FieldSrc env s src path sty a → ws.lookup tf.name = some y →
        ImgOnto env K sty tty a ((ofs.lookup tf.name).getD .nil) y →
        ImgFieldsOnto env K ms s src tfs ofs ws → ImgFieldsOnto env K (.assign path :: ms) s src ((tf, tty) :: tfs) ofs ws
    /-- zero-value guard, zero source value: the target field is unchanged -/
    | zeroKept {ms s src tf tty tfs ofs ws path sty a} :
        FieldSrc env s src path sty a → IsZeroValue a → ws.lookup tf.name = ofs.lookup tf.name →
        ImgFieldsOnto env K ms s src tfs ofs ws →
        ImgFieldsOnto env K (.assignNonZero path :: ms) s src ((tf, tty) :: tfs) ofs ws
    /-- zero-value guard, non-zero source value: assigned -/
    | nonZero {ms s src tf tty tfs ofs ws path sty a y} :
        FieldSrc env s src path sty a → ¬ IsZeroValue a → ws.lookup tf.name = some y →
        ImgOnto env K sty tty a ((ofs.lookup tf.name).getD .nil) y →
        ImgFieldsOnto env K ms s src tfs ofs ws →
        ImgFieldsOnto env K (.assignNonZero path :: ms) s src ((tf, tty) :: tfs) ofs ws
    /-- assigned from a source method: the conversion of the method's result -/
    | assignM {ms s src tf tty tfs ofs ws path n sty a y} :
        MethodSrc env s src path n sty a → ws.lookup tf.name = some y →
        ImgOnto env K sty tty a ((ofs.lookup tf.name).getD .nil) y →
        ImgFieldsOnto env K ms s src tfs ofs ws →
        ImgFieldsOnto env K (.assignMethod path n :: ms) s src ((tf, tty) :: tfs) ofs ws
    | zeroKeptM {ms s src tf tty tfs ofs ws path n sty a} :
        MethodSrc env s src path n sty a → IsZeroValue a → ws.lookup tf.name = ofs.lookup tf.name →
        ImgFieldsOnto env K ms s src tfs ofs ws →
        ImgFieldsOnto env K (.assignMethodNonZero path n :: ms) s src ((tf, tty) :: tfs) ofs ws
    | nonZeroM {ms s src tf tty tfs ofs ws path n sty a y} :
        MethodSrc env s src path n sty a → ¬ IsZeroValue a → ws.lookup tf.name = some y →
        ImgOnto env K sty tty a ((ofs.lookup tf.name).getD .nil) y →
        ImgFieldsOnto env K ms s src tfs ofs ws →
        ImgFieldsOnto env K (.assignMethodNonZero path n :: ms) s src ((tf, tty) :: tfs) ofs ws
end

/-- what the relation says at a basic target type: the payload of the source (whatever the location held before) -/
theorem ImgOnto.basic_inv_aux {env : TEnv} {K : Ty → Ty → Bool → Prop} : ∀ {s t : Ty} {v old w : Val},
    ImgOnto env K s t v old w → ∀ (r : S) (k : Kind), v = .basic r → under env t = .basic k → w = .basic r
  | _, _, _, _, _, .basic _ _, _, _, hv, _ => by cases hv; rfl
  | _, _, _, _, _, .tokBasic _ _, _, _, hv, _ => by cases hv
  | _, _, _, _, _, .ptrNil _ _, _, _, hv, _ => by cases hv
  | _, _, _, _, _, .ptrPtr _ _ _ _, _, _, hv, _ => by cases hv
  | _, _, _, _, _, .toPtr _ h2 _ _, _, _, _, ht => by rw [ht] at h2; cases h2
  | _, _, _, _, _, .srcNil _ _, _, _, hv, _ => by cases hv
  | _, _, _, _, _, .srcPtr _ _ _ _, _, _, hv, _ => by cases hv
  | _, _, _, _, _, .sliceNil _ _, _, _, hv, _ => by cases hv
  | _, _, _, _, _, .slice _ _ _, _, _, hv, _ => by cases hv
  | _, _, _, _, _, .array _ _ _, _, _, hv, _ => by cases hv
  | _, _, _, _, _, .mapNil _ _, _, _, hv, _ => by cases hv
  | _, _, _, _, _, .map _ _ _, _, _, hv, _ => by cases hv
  | _, _, _, _, _, .replaced _ h, r, k, hv, ht => ImgOnto.basic_inv_aux h r k hv ht
  | _, _, _, _, _, .ctorStart _ _ h, r, k, hv, ht => ImgOnto.basic_inv_aux h r k hv ht
  | _, _, _, _, _, .ctorUpdNil _ _ _, _, _, hv, _ => by cases hv
  | _, _, _, _, _, .ctorUpdPtrPtr _ _ _ _ _, _, _, hv, _ => by cases hv
  | _, _, _, _, _, .ctorUpdSrcPtr _ _ _ _ _, _, _, hv, _ => by cases hv
  | _, _, _, _, _, .ctorUpdTgtPtr _ _ _ h2 _, _, _, _, ht => by rw [ht] at h2; cases h2
  | _, _, _, _, _, .struct _ _ _, _, _, hv, _ => by cases hv

/-- what the relation says about an uninterpreted value at a basic target type: it is copied as it is -/
theorem ImgOnto.tok_inv_aux {env : TEnv} {K : Ty → Ty → Bool → Prop} : ∀ {s t : Ty} {v old w : Val},
    ImgOnto env K s t v old w → ∀ (fn : S) (args : List Val) (k : Kind), v = .tok fn args → under env t = .basic k →
      w = .tok fn (erase.eraseList args)
  | _, _, _, _, _, .basic _ _, _, _, _, hv, _ => by cases hv
  | _, _, _, _, _, .tokBasic _ _, _, _, _, hv, _ => by cases hv; rfl
  | _, _, _, _, _, .ptrNil _ _, _, _, _, hv, _ => by cases hv
  | _, _, _, _, _, .ptrPtr _ _ _ _, _, _, _, hv, _ => by cases hv
  | _, _, _, _, _, .toPtr _ h2 _ _, _, _, _, _, ht => by rw [ht] at h2; cases h2
  | _, _, _, _, _, .srcNil _ _, _, _, _, hv, _ => by cases hv
  | _, _, _, _, _, .srcPtr _ _ _ _, _, _, _, hv, _ => by cases hv
  | _, _, _, _, _, .sliceNil _ _, _, _, _, hv, _ => by cases hv
  | _, _, _, _, _, .slice _ _ _, _, _, _, hv, _ => by cases hv
  | _, _, _, _, _, .array _ _ _, _, _, _, hv, _ => by cases hv
  | _, _, _, _, _, .mapNil _ _, _, _, _, hv, _ => by cases hv
  | _, _, _, _, _, .map _ _ _, _, _, _, hv, _ => by cases hv
  | _, _, _, _, _, .replaced _ h, fn, args, k, hv, ht => ImgOnto.tok_inv_aux h fn args k hv ht
  | _, _, _, _, _, .ctorStart _ _ h, fn, args, k, hv, ht => ImgOnto.tok_inv_aux h fn args k hv ht
  | _, _, _, _, _, .ctorUpdNil _ _ _, _, _, _, hv, _ => by cases hv
  | _, _, _, _, _, .ctorUpdPtrPtr _ _ _ _ _, _, _, _, hv, _ => by cases hv
  | _, _, _, _, _, .ctorUpdSrcPtr _ _ _ _ _, _, _, _, hv, _ => by cases hv
  | _, _, _, _, _, .ctorUpdTgtPtr _ _ _ h2 _, _, _, _, _, ht => by rw [ht] at h2; cases h2
  | _, _, _, _, _, .struct _ _ _, _, _, _, hv, _ => by cases hv

/-- the value a source method hands over: `nil` (a nil pointer on the way to / at the receiver), the method's result on the
receiver, or a pointer to it -/
theorem MethodSrc.shape {env : TEnv} {s : Ty} {v : Val} {path : List S} {n : S} {sty : Ty} {a : Val}
    (h : MethodSrc env s v path n sty a) :
    (a = .nil ∧ ∃ T, Recv env s v path true T none) ∨
    (∃ c T recv ctx, Recv env s v path c T (some recv) ∧
      (a = .tok n (recv :: ctx) ∨ ∃ l, a = .ptr l (.tok n (recv :: ctx)))) := by
  cases h with
  | direct hr _ => exact .inr ⟨_, _, _, _, hr, .inl rfl⟩
  | nilPtr hr _ _ => exact .inl ⟨rfl, _, hr⟩
  | nil hr _ _ => exact .inl ⟨rfl, _, hr⟩
  | resPtr hr _ _ => exact .inr ⟨_, _, _, _, hr, .inl rfl⟩
  | wrapped hr _ _ => exact .inr ⟨_, _, _, _, hr, .inr ⟨_, rfl⟩⟩

/-- what `ImgFieldsOnto` says about ONE target field `tf : tty` treated with `mode` -/
def FieldSpec (env : TEnv) (K : Ty → Ty → Bool → Prop) (mode : FMode) (s : Ty) (src : Val) (tf : FieldInfo) (tty : Ty)
    (ofs ws : List (S × Val)) : Prop :=
  match mode with
  | .keep => ws.lookup tf.name = ofs.lookup tf.name
  | .assign path =>
    ∃ sty a y, FieldSrc env s src path sty a ∧ ws.lookup tf.name = some y ∧
      ImgOnto env K sty tty a ((ofs.lookup tf.name).getD .nil) y
  | .assignNonZero path =>
    ∃ sty a, FieldSrc env s src path sty a ∧
      ((IsZeroValue a ∧ ws.lookup tf.name = ofs.lookup tf.name) ∨
       (¬ IsZeroValue a ∧ ∃ y, ws.lookup tf.name = some y ∧ ImgOnto env K sty tty a ((ofs.lookup tf.name).getD .nil) y))
  | .assignMethod path n =>
    ∃ sty a y, MethodSrc env s src path n sty a ∧ ws.lookup tf.name = some y ∧
      ImgOnto env K sty tty a ((ofs.lookup tf.name).getD .nil) y
  | .assignMethodNonZero path n =>
    ∃ sty a, MethodSrc env s src path n sty a ∧
      ((IsZeroValue a ∧ ws.lookup tf.name = ofs.lookup tf.name) ∨
       (¬ IsZeroValue a ∧ ∃ y, ws.lookup tf.name = some y ∧ ImgOnto env K sty tty a ((ofs.lookup tf.name).getD .nil) y))

/-- field by field: the `i`-th target field is treated with the `i`-th mode -/
theorem ImgFieldsOnto.at {env : TEnv} {K : Ty → Ty → Bool → Prop} {modes s src tfs ofs ws}
    (h : ImgFieldsOnto env K modes s src tfs ofs ws) :
    ∀ (i : Nat) (tf : FieldInfo) (tty : Ty), tfs[i]? = some (tf, tty) →
      ∃ mode, modes[i]? = some mode ∧ FieldSpec env K mode s src tf tty ofs ws := by
  induction tfs generalizing modes with
  | nil => intro i tf tty hi; simp at hi
  | cons a tfs ih =>
    intro i tf tty hi
    cases h with
    | keep hk hr =>
      cases i with
      | zero => simp at hi; obtain ⟨rfl, rfl⟩ := hi; exact ⟨.keep, rfl, hk⟩
      | succ i => simpa using ih hr i tf tty (by simpa using hi)
    | assign hf hy himg hr =>
      cases i with
      | zero => simp at hi; obtain ⟨rfl, rfl⟩ := hi; exact ⟨.assign _, rfl, _, _, _, hf, hy, himg⟩
      | succ i => simpa using ih hr i tf tty (by simpa using hi)
    | zeroKept hf hz hk hr =>
      cases i with
      | zero => simp at hi; obtain ⟨rfl, rfl⟩ := hi; exact ⟨.assignNonZero _, rfl, _, _, hf, .inl ⟨hz, hk⟩⟩
      | succ i => simpa using ih hr i tf tty (by simpa using hi)
    | nonZero hf hz hy himg hr =>
      cases i with
      | zero => simp at hi; obtain ⟨rfl, rfl⟩ := hi; exact ⟨.assignNonZero _, rfl, _, _, hf, .inr ⟨hz, _, hy, himg⟩⟩
      | succ i => simpa using ih hr i tf tty (by simpa using hi)
    | assignM hf hy himg hr =>
      cases i with
      | zero => simp at hi; obtain ⟨rfl, rfl⟩ := hi; exact ⟨.assignMethod _ _, rfl, _, _, _, hf, hy, himg⟩
      | succ i => simpa using ih hr i tf tty (by simpa using hi)
    | zeroKeptM hf hz hk hr =>
      cases i with
      | zero => simp at hi; obtain ⟨rfl, rfl⟩ := hi; exact ⟨.assignMethodNonZero _ _, rfl, _, _, hf, .inl ⟨hz, hk⟩⟩
      | succ i => simpa using ih hr i tf tty (by simpa using hi)
    | nonZeroM hf hz hy himg hr =>
      cases i with
      | zero => simp at hi; obtain ⟨rfl, rfl⟩ := hi; exact ⟨.assignMethodNonZero _ _, rfl, _, _, hf, .inr ⟨hz, _, hy, himg⟩⟩
      | succ i => simpa using ih hr i tf tty (by simpa using hi)

/-- The statement of C05 / C10 about ONE target field `tf : tty` whose plan is `f`, given the source `src : s`, the previous
fields `ofs` of the target and the fields `ws` of the result:
 (i)   an ignored / unmapped field (goverter:ignore, ignoreMissing, ignoreUnexported) holds its previous value;
 (ii)  a mapped field receives the value `a` its path names (`FieldSrc`: a source field, a dotted path with nil-guarded
       pointers, the whole source), and — unless a zero-value guard applies and `a` is zero — holds the conversion of `a`
       (assigned onto the field's previous value);
 (iii) under a zero-value guard (update:ignoreZeroValueField) a zero `a` leaves the field unchanged. -/
def FieldOutcome (env : TEnv) (K : Ty → Ty → Bool → Prop) (s : Ty) (src : Val) (tf : FieldInfo) (tty : Ty)
    (ofs ws : List (S × Val)) (f : FieldPlan) : Prop :=
  (∀ nm, f = .skip nm → ws.lookup tf.name = ofs.lookup tf.name) ∧
  (∀ tg path derefs guarded leafIsPtr cv zero, f = .mapped tg path derefs guarded leafIsPtr cv zero →
    ∃ sty a, FieldSrc env s src path sty a ∧
      ((zero = .none ∨ ¬ IsZeroValue a) →
        ∃ y, ws.lookup tf.name = some y ∧ ImgOnto env K sty tty a ((ofs.lookup tf.name).getD .nil) y) ∧
      ((zero = .check ∧ IsZeroValue a) → ws.lookup tf.name = ofs.lookup tf.name)) ∧
  -- (iv) a field mapped to a source METHOD `path.n` receives the method's result (`MethodSrc`), then as (ii) / (iii)
  (∀ tg path derefs guarded n args retErr w resIsPtr cv zero,
    f = .viaMethod tg path derefs guarded (.call (.structMethod n) args retErr w) resIsPtr cv zero →
    ∃ sty a, MethodSrc env s src path n sty a ∧
      ((zero = .none ∨ ¬ IsZeroValue a) →
        ∃ y, ws.lookup tf.name = some y ∧ ImgOnto env K sty tty a ((ofs.lookup tf.name).getD .nil) y) ∧
      ((zero = .check ∧ IsZeroValue a) → ws.lookup tf.name = ofs.lookup tf.name))

theorem FieldSpec.outcome {env : TEnv} {K : Ty → Ty → Bool → Prop} {s src tf tty ofs ws} {f : FieldPlan}
    (h : FieldSpec env K (modeOf f) s src tf tty ofs ws) : FieldOutcome env K s src tf tty ofs ws f := by
  refine ⟨?_, ?_, ?_⟩
  · intro nm hf
    subst hf
    exact h
  · intro tg path derefs guarded leafIsPtr cv zero hf
    subst hf
    cases zero with
    | none =>
      obtain ⟨sty, a, y, hfs, hy, himg⟩ := h
      exact ⟨sty, a, hfs, fun _ => ⟨y, hy, himg⟩, fun hh => by cases hh.1⟩
    | check =>
      obtain ⟨sty, a, hfs, hcase⟩ := h
      refine ⟨sty, a, hfs, ?_, ?_⟩
      · intro hh
        rcases hcase with ⟨hz, _⟩ | ⟨_, y, hy, himg⟩
        · rcases hh with hh | hh
          · cases hh
          · exact absurd hz hh
        · exact ⟨y, hy, himg⟩
      · intro hh
        rcases hcase with ⟨_, hk⟩ | ⟨hnz, _⟩
        · exact hk
        · exact absurd hh.2 hnz
  · intro tg path derefs guarded n args retErr w resIsPtr cv zero hf
    subst hf
    cases zero with
    | none =>
      obtain ⟨sty, a, y, hfs, hy, himg⟩ := h
      exact ⟨sty, a, hfs, fun _ => ⟨y, hy, himg⟩, fun hh => by cases hh.1⟩
    | check =>
      obtain ⟨sty, a, hfs, hcase⟩ := h
      refine ⟨sty, a, hfs, ?_, ?_⟩
      · intro hh
        rcases hcase with ⟨hz, _⟩ | ⟨_, y, hy, himg⟩
        · rcases hh with hh | hh
          · cases hh
          · exact absurd hz hh
        · exact ⟨y, hy, himg⟩
      · intro hh
        rcases hcase with ⟨_, hk⟩ | ⟨hnz, _⟩
        · exact hk
        · exact absurd hh.2 hnz

/-! what `FieldSrc` / `PathVal` say (inversions) -/

/-- a path names at most one value -/
theorem PathVal.det {v : Val} {path : List S} {r1 r2 : Option Val} (h1 : PathVal v path r1) (h2 : PathVal v path r2) : r1 = r2 := by
  induction h1 generalizing r2 with
  | here => cases h2; rfl
  | field hl _ ih => cases h2 with | field hl' h' => rw [hl] at hl'; cases hl'; exact ih h'
  | ptrNil => cases h2; rfl
  | ptrField hl _ ih => cases h2 with | ptrField hl' h' => rw [hl] at hl'; cases hl'; exact ih h'

/-- (a) a nil pointer on the way: the field receives `nil` -/
theorem FieldSrc.of_none {env : TEnv} {s : Ty} {v : Val} {path : List S} {sty : Ty} {a : Val}
    (h : FieldSrc env s v path sty a) (hp : PathVal v path none) : a = .nil := by
  cases h with
  | direct _ h' => cases PathVal.det h' hp
  | nilOnWayPtr _ _ _ => rfl
  | nilOnWay _ _ _ => rfl
  | leafPtr _ _ h' => cases PathVal.det h' hp
  | wrapped _ _ h' => cases PathVal.det h' hp

/-- (b) the path names `x`: the field receives `x`, or — pointers crossed and `x` not a pointer — a pointer to `x` -/
theorem FieldSrc.of_some {env : TEnv} {s : Ty} {v : Val} {path : List S} {sty : Ty} {a x : Val}
    (h : FieldSrc env s v path sty a) (hp : PathVal v path (some x)) : a = x ∨ ∃ l, a = .ptr l x := by
  cases h with
  | direct _ h' => cases PathVal.det h' hp; exact .inl rfl
  | nilOnWayPtr _ _ h' => cases PathVal.det h' hp
  | nilOnWay _ _ h' => cases PathVal.det h' hp
  | leafPtr _ _ h' => cases PathVal.det h' hp; exact .inl rfl
  | wrapped _ _ h' => cases PathVal.det h' hp; exact .inr ⟨_, rfl⟩

/-- the one-step path of the default mapping: the same-named source field -/
theorem FieldSrc.single {env : TEnv} {s : Ty} {sfs : Fields} {fs : List (S × Val)} {nm : S} {sty : Ty} {a : Val}
    (hs : under env s = .struct sfs) (h : FieldSrc env s (.struct fs) [nm] sty a) :
    (∃ sf, sfs.toList.find? (fun (y : FieldInfo × Ty) => y.1.name == nm) = some (sf, sty)) ∧ fs.lookup nm = some a := by
  have hty : ∀ {c leaf}, PathTy env s [nm] c leaf → c = false ∧
      ∃ sf, sfs.toList.find? (fun (y : FieldInfo × Ty) => y.1.name == nm) = some (sf, leaf) := by
    intro c leaf hp
    cases hp with
    | field h1 h2 h3 => rw [hs] at h1; cases h1; cases h3; exact ⟨rfl, _, h2⟩
    | ptrField h1 _ _ _ => rw [hs] at h1; cases h1
  cases h with
  | direct hp hv =>
    refine ⟨(hty hp).2, ?_⟩
    cases hv with | field hl h' => cases h'; exact hl
  | nilOnWayPtr hp _ _ => cases (hty hp).1
  | nilOnWay hp _ _ => cases (hty hp).1
  | leafPtr hp _ _ => cases (hty hp).1
  | wrapped hp _ _ => cases (hty hp).1

/-- every target field, by position, with the plan of that position -/
theorem ImgFieldsOnto.outcome {env : TEnv} {K : Ty → Ty → Bool → Prop} {plans : FieldPlans} {s src tfs ofs ws}
    (h : ImgFieldsOnto env K (modesOf plans) s src tfs ofs ws) (i : Nat) (tf : FieldInfo) (tty : Ty)
    (hi : tfs[i]? = some (tf, tty)) :
    ∃ f, plans.toList[i]? = some f ∧ FieldOutcome env K s src tf tty ofs ws f := by
  obtain ⟨mode, hmode, hspec⟩ := h.at i tf tty hi
  unfold modesOf at hmode
  rw [List.getElem?_map] at hmode
  cases hf : plans.toList[i]? with
  | none => rw [hf] at hmode; cases hmode
  | some f =>
    rw [hf] at hmode
    simp only [Option.map_some, Option.some.injEq] at hmode
    subst hmode
    exact ⟨f, rfl, hspec.outcome⟩

/-! ### default constructors (C11) -/

/-- the method signatures of a program that have a default constructor (`upd`: with default:update) -/
def CtorSig (p : Program) (s t : Ty) (upd : Bool) : Prop :=
  ∃ (m : Nat) (gm : GenMethod), p.methods[m]? = some gm ∧ gm.source = s ∧ gm.target = t ∧
    ((upd = false ∧ ∃ ctor tp rest, gm.body = some (.convert (.withCtor ctor tp rest))) ∨
     (upd = true ∧ ∃ ctor tp a b inner, gm.body = some (.convert (.ctorUpdate ctor tp a b inner))))

/-- no method of the program starts from a default constructor -/
def noCtorBodies (p : Program) : Bool :=
  p.methods.all (fun gm => match gm.body with
    | some (.convert (.withCtor _ _ _)) => false
    | some (.convert (.ctorUpdate _ _ _ _ _)) => false
    | _ => true)

/-- for such a program `CtorSig` is empty: the default-constructor clauses of `ImgOnto` never apply, and the relation is the
one of C05 / C10 alone -/
theorem CtorSig.empty {p : Program} (h : noCtorBodies p = true) (s t : Ty) (upd : Bool) : ¬ CtorSig p s t upd := by
  rintro ⟨m, gm, hm, _, _, hb⟩
  unfold noCtorBodies at h
  rw [List.all_eq_true] at h
  have hmem : gm ∈ p.methods := by
    obtain ⟨hlt, he⟩ := List.getElem?_eq_some_iff.1 hm
    exact he ▸ List.getElem_mem hlt
  have := h gm hmem
  rcases hb with ⟨_, ctor, tp, rest, hb⟩ | ⟨_, ctor, tp, a, b, inner, hb⟩
  · simp [hb] at this
  · simp [hb] at this

/-- what a method `s → t` with `default FUNC` returns for the source `v`, `c` being FUNC's result (all erased):
plain `default` — the conversion of `v` ONTO `c` (so a nil source pointer gives `c`, ignored fields keep `c`'s values);
`default:update` — `c` for a nil source pointer, otherwise `c` (the same pointer, for a pointer target) with the source
(the pointee of a pointer source) applied on top -/
inductive CtorImg (env : TEnv) (K : Ty → Ty → Bool → Prop) : Bool → Ty → Ty → Val → Val → Val → Prop
  | plain {s t v c w} : ImgOnto env K s t v c w → CtorImg env K false s t v c w
  | updNil {s t se c} : under env s = .ptr se → CtorImg env K true s t .nil c c
  | updPtrPtr {s t se te l x o y} : under env s = .ptr se → under env t = .ptr te → ImgOnto env K se te x o y →
      CtorImg env K true s t (.ptr l x) (.ptr .none o) (.ptr .none y)
  | updSrcPtr {s t se l x c y} : under env s = .ptr se → (∀ e, under env t ≠ .ptr e) → ImgOnto env K se t x c y →
      CtorImg env K true s t (.ptr l x) c y
  | updTgtPtr {s t te v o y} : (∀ e, under env s ≠ .ptr e) → under env t = .ptr te → ImgOnto env K s te v o y →
      CtorImg env K true s t v (.ptr .none o) (.ptr .none y)

/-- seen from a caller, the result of such a method overwrites whatever the caller's location held -/
theorem CtorImg.onto {env : TEnv} {K : Ty → Ty → Bool → Prop} {upd : Bool} {s t : Ty} {v c w : Val}
    (h : CtorImg env K upd s t v c w) (hk : K s t upd) (hc : IsCtorOf env t c) (old : Val) : ImgOnto env K s t v old w := by
  cases h with
  | plain h => exact .ctorStart hk hc h
  | updNil hs => exact .ctorUpdNil hk hc hs
  | updPtrPtr hs ht h => exact .ctorUpdPtrPtr hk hc hs ht h
  | updSrcPtr hs ht h => exact .ctorUpdSrcPtr hk hc hs ht h
  | updTgtPtr hs ht h => exact .ctorUpdTgtPtr hk hc hs ht h

end Gv.Spec
