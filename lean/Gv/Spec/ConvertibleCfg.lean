/-
Specification side of C05 on the struct fragment FS (Gv.Spec.Convertible): the ROOT struct pair of a method that carries SIMPLE
field settings on its own target struct –

    goverter:ignore F        the target field F is left unassigned
    goverter:map Src F       the target field F is filled from the source field Src (a plain rename: one field name, no path, no
                             function, not `.`)

– read as a predicate: every target field is either ignored, or has a source field (named by its `map` setting, else by its own
name) whose pair of types is convertible by the documented rules; and every configured name is a field of the target
("every setting either takes effect or makes generation fail").  Nested structs have no settings of their own: the settings are
scoped to the method's `FieldsTarget`.
-/
import Gv.Spec.Convertible
import Gv.Model.Plan

namespace Gv.Spec
open Gv Gv.Str

/-- the resolved setting of target field `n` (the first entry of that name; none = default) -/
def cfgOf (cfg : List (S × FieldCfg)) (n : S) : FieldCfg := (cfg.lookup n).getD {}

/-- the source field that feeds target field `n` -/
def srcName (fc : FieldCfg) (n : S) : S := if fc.source.isEmpty then n else fc.source

/-- the settings of the fragment: `ignore`, or `map` with a single source field name (no function, no path) -/
def simpleCfg (cfg : List (S × FieldCfg)) : Bool :=
  cfg.all (fun e => e.2.function.isNone && !e.2.source.contains '.')

/-- every target field is ignored or covered by its (renamed or same-named) source field -/
inductive ConvertibleCfgFields (z : Bool) (cfg : List (S × FieldCfg)) (sfs : Fields) : Fields → Prop
  | nil : ConvertibleCfgFields z cfg sfs .nil
  | ignored {f : FieldInfo} {ty : Ty} {rest : Fields} :
      (cfgOf cfg f.name).ignore = true → ConvertibleCfgFields z cfg sfs rest → ConvertibleCfgFields z cfg sfs (.cons f ty rest)
  | mapped {f : FieldInfo} {sty ty : Ty} {rest : Fields} :
      (cfgOf cfg f.name).ignore = false → fieldTy sfs (srcName (cfgOf cfg f.name) f.name) = some sty → Convertible z sty ty →
      ConvertibleCfgFields z cfg sfs rest → ConvertibleCfgFields z cfg sfs (.cons f ty rest)

/-- every configured name is a field of the target -/
def cfgKnown (cfg : List (S × FieldCfg)) (tfs : Fields) : Bool := cfg.all (fun e => (fieldTy tfs e.1).isSome)

/-- **the documented rules with field settings**, for the root struct pair `struct sfs → struct tfs` of a method -/
structure ConvertibleCfg (z : Bool) (cfg : List (S × FieldCfg)) (sfs tfs : Fields) : Prop where
  fields : ConvertibleCfgFields z cfg sfs tfs
  known : cfgKnown cfg tfs = true

theorem convertibleCfgFields_of_fields (z : Bool) (sfs : Fields) : ∀ tfs, ConvertibleFields z sfs tfs → ConvertibleCfgFields z [] sfs tfs
  | _, .nil => .nil
  | _, .cons hf hc hr =>
    .mapped (by simp [cfgOf]) (by simpa [cfgOf, srcName] using hf) hc (convertibleCfgFields_of_fields z sfs _ hr)

/-- without settings this is the Struct rule of `Convertible` -/
theorem convertibleCfg_nil (z : Bool) (sfs tfs : Fields) :
    ConvertibleCfg z [] sfs tfs ↔ Convertible z (.struct sfs) (.struct tfs) := by
  have h1 : ∀ tfs, ConvertibleCfgFields z [] sfs tfs → ConvertibleFields z sfs tfs := by
    intro tfs h
    induction h with
    | nil => exact .nil
    | ignored hi _ _ => simp [cfgOf] at hi
    | mapped _ hf hc _ ih => exact .cons (by simpa [cfgOf, srcName] using hf) hc ih
  constructor
  · intro h; exact .struct (h1 tfs h.fields)
  · intro h
    cases h with
    | struct hf => exact ⟨convertibleCfgFields_of_fields z sfs tfs hf, by simp [cfgKnown]⟩

end Gv.Spec
