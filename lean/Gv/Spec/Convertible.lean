/-
Specification side of C03 on the fragment of UNNAMED, struct-free types

    F ::= basic k | ptr F | slice F | array n F | map F F

The documented rule set (docs/explanation/generation.md, the `Matches` predicates tied in `Gv.Props.C03.tie_matches`)
read as an inductive predicate: which pairs of types have a conversion, at ALL depths.  Written from the
documentation, not from the generator: one constructor per documented rule, each with the rule's own side
condition and nothing about the ORDER in which the generator tries the rules.

    Basic          source.Basic && target.Basic && same kind
    Pointer        source.Pointer && target.Pointer
    TargetPointer  !source.Pointer && target.Pointer            (BasicTargetPointerRule is the special case basic → *basic)
    SourcePointer  useZeroValueOnPointerInconsistency && source.Pointer && !target.Pointer
    List           source.List && target.List && !target.ListFixed     (slice → slice, array → slice; NEVER → array)
    Map            source.Map && target.Map

(Struct, Enum, SkipCopy, UseUnderlyingTypeMethods do not apply to F-types with the two opt-in settings off.)
-/
import Gv.Model.Types

namespace Gv.Spec
open Gv

/-- membership in the fragment F -/
def inF : Ty → Bool
  | .basic _ => true
  | .ptr e => inF e
  | .slice e => inF e
  | .array _ e => inF e
  | .map k v => inF k && inF v
  | _ => false

/-- syntactic pointer test (on F there are no named types, so this is `xtype.Type.Pointer`) -/
def isPtrTy : Ty → Bool
  | .ptr _ => true
  | _ => false

/-- number of type constructors (the measure of the fuel bound) -/
def tySize : Ty → Nat
  | .ptr e => tySize e + 1
  | .slice e => tySize e + 1
  | .array _ e => tySize e + 1
  | .map k v => tySize k + tySize v + 1
  | _ => 1

theorem tySize_pos (t : Ty) : 0 < tySize t := by
  cases t <;> simp [tySize]

/-- no `byte` / `rune` spelling (the plan checker of C02 compares kinds literally, the generator up to these aliases) -/
def aliasFree : Ty → Bool
  | .basic k => k.canon == k
  | .ptr e => aliasFree e
  | .slice e => aliasFree e
  | .array _ e => aliasFree e
  | .map k v => aliasFree k && aliasFree v
  | _ => true

/-- no array is directly the element of a slice or an array (`asg` = the type itself sits at such an element position): there the
generator fills the target by assignment without a `make`, a plan shape outside the checked structural fragment of C02 -/
def arrayElemFree : Bool → Ty → Bool
  | _, .ptr e => arrayElemFree false e
  | _, .slice e => arrayElemFree true e
  | asg, .array _ e => !asg && arrayElemFree true e
  | _, .map k v => arrayElemFree false k && arrayElemFree false v
  | _, _ => true

/-- **the documented rules**, `z` = useZeroValueOnPointerInconsistency -/
inductive Convertible (z : Bool) : Ty → Ty → Prop
  /-- Basic: both basic, of one kind (`byte`/`uint8` and `rune`/`int32` are one kind) -/
  | basic {k k' : Kind} : k.canon = k'.canon → Convertible z (.basic k) (.basic k')
  /-- Pointer: `*A → *B` when `A → B` -/
  | ptrPtr {a b : Ty} : Convertible z a b → Convertible z (.ptr a) (.ptr b)
  /-- TargetPointer: `S → *B` for a non-pointer `S` when `S → B` -/
  | tgtPtr {s b : Ty} : isPtrTy s = false → Convertible z s b → Convertible z s (.ptr b)
  /-- SourcePointer: `*A → T` for a non-pointer `T` needs the flag -/
  | srcPtr {a t : Ty} : z = true → isPtrTy t = false → Convertible z a t → Convertible z (.ptr a) t
  /-- List: slice → slice -/
  | slice {a b : Ty} : Convertible z a b → Convertible z (.slice a) (.slice b)
  /-- List: array → slice (the target must not be an array) -/
  | array {n : Nat} {a b : Ty} : Convertible z a b → Convertible z (.array n a) (.slice b)
  /-- Map: keys and values -/
  | map {k v k' v' : Ty} : Convertible z k k' → Convertible z v v' → Convertible z (.map k v) (.map k' v')

/-- the decision procedure for `Convertible` (recursion on the pair, lexicographic) -/
def convertibleB (z : Bool) (s t : Ty) : Bool :=
  match s, t with
  | .ptr a, .ptr b => convertibleB z a b
  | .ptr a, .basic k => z && convertibleB z a (.basic k)
  | .ptr a, .slice e => z && convertibleB z a (.slice e)
  | .ptr a, .array n e => z && convertibleB z a (.array n e)
  | .ptr a, .map k v => z && convertibleB z a (.map k v)
  | .basic k, .ptr b => convertibleB z (.basic k) b
  | .slice e, .ptr b => convertibleB z (.slice e) b
  | .array n e, .ptr b => convertibleB z (.array n e) b
  | .map k v, .ptr b => convertibleB z (.map k v) b
  | .basic k, .basic k' => k.canon == k'.canon
  | .slice a, .slice b => convertibleB z a b
  | .array _ a, .slice b => convertibleB z a b
  | .map k v, .map k' v' => convertibleB z k k' && convertibleB z v v'
  | _, _ => false
termination_by (s, t)

/-! ### `convertibleB` decides `Convertible` on F -/

theorem convertibleB_sound (z : Bool) (s t : Ty) : convertibleB z s t = true → Convertible z s t := by
  fun_induction convertibleB z s t with
  | case1 a b ih => intro h; exact .ptrPtr (ih h)
  | case2 a k ih => intro h; simp at h; exact .srcPtr h.1 rfl (ih h.2)
  | case3 a e ih => intro h; simp at h; exact .srcPtr h.1 rfl (ih h.2)
  | case4 a n e ih => intro h; simp at h; exact .srcPtr h.1 rfl (ih h.2)
  | case5 a k v ih => intro h; simp at h; exact .srcPtr h.1 rfl (ih h.2)
  | case6 k b ih => intro h; exact .tgtPtr rfl (ih h)
  | case7 e b ih => intro h; exact .tgtPtr rfl (ih h)
  | case8 n e b ih => intro h; exact .tgtPtr rfl (ih h)
  | case9 k v b ih => intro h; exact .tgtPtr rfl (ih h)
  | case10 k k' => intro h; exact .basic (by simpa using h)
  | case11 a b ih => intro h; exact .slice (ih h)
  | case12 n a b ih => intro h; exact .array (ih h)
  | case13 k v k' v' ih2 ih1 => intro h; simp at h; exact .map (ih2 h.1) (ih1 h.2)
  | case14 => intro h; cases h

theorem convertibleB_complete (z : Bool) {s t : Ty} (h : Convertible z s t) : inF s = true → inF t = true → convertibleB z s t = true := by
  induction h with
  | basic hk => intro _ _; rw [convertibleB]; simp [hk]
  | ptrPtr _ ih => intro hs ht; rw [convertibleB]; exact ih (by simpa [inF] using hs) (by simpa [inF] using ht)
  | @tgtPtr s b hp _ ih =>
    intro hs ht
    have := ih hs (by simpa [inF] using ht)
    cases s <;> simp [inF, isPtrTy] at hs hp <;> rw [convertibleB] <;> exact this
  | @srcPtr a t hz hp _ ih =>
    intro hs ht
    have := ih (by simpa [inF] using hs) ht
    cases t <;> simp [inF, isPtrTy] at ht hp <;> rw [convertibleB, this, hz] <;> rfl
  | slice _ ih => intro hs ht; rw [convertibleB]; exact ih (by simpa [inF] using hs) (by simpa [inF] using ht)
  | array _ ih => intro hs ht; rw [convertibleB]; exact ih (by simpa [inF] using hs) (by simpa [inF] using ht)
  | map _ _ ih1 ih2 =>
    intro hs ht; simp [inF] at hs ht
    rw [convertibleB]; simp [ih1 hs.1 ht.1, ih2 hs.2 ht.2]

/-- **the decision procedure is exact on F** -/
theorem convertibleB_iff (z : Bool) (s t : Ty) (hs : inF s = true) (ht : inF t = true) :
    convertibleB z s t = true ↔ Convertible z s t :=
  ⟨convertibleB_sound z s t, fun h => convertibleB_complete z h hs ht⟩


end Gv.Spec
