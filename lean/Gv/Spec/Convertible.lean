/-
Specification side of C03 on the fragment of UNNAMED, struct-free types

    F ::= basic k | ptr F | slice F | array n F | map F F

The documented rule set (docs/explanation/generation.md, the `Matches` predicates tied in `Gv.Props.C03.tie_matches`)
read as an inductive predicate: which pairs of types have a conversion, at ALL depths.  Written from the
documentation, not from the generator: one constructor per documented rule, each with the rule's own side
condition and nothing about the ORDER in which the generator tries the rules.

    Basic          source.Basic && target.Basic && same kind
    Pointer        source.Pointer && target.Pointer
    TargetPointer  !source.Pointer && target.Pointer            (BasicTargetPointerRule is the special case basic → *basic)
    SourcePointer  useZeroValueOnPointerInconsistency && source.Pointer && !target.Pointer
    List           source.List && target.List && !target.ListFixed     (slice → slice, array → slice; NEVER → array)
    Map            source.Map && target.Map

(Enum, SkipCopy, UseUnderlyingTypeMethods do not apply to F-types with the two opt-in settings off.)

Second stage: the fragment FS adds UNNAMED STRUCT types whose fields are all exported and have types in FS again,

    FS ::= basic k | ptr FS | slice FS | array n FS | map FS FS | struct{ A₁ FS; …; Aₙ FS }

with the documented Struct rule (no field settings): every TARGET field is filled from the source field of the same name
(exact match; the first one if the model's field list has duplicates, which Go does not allow), whose pair of types must be
convertible again; source fields without a target are ignored; a target struct without fields is always convertible.

    Struct         source.Struct && target.Struct
-/
import Gv.Model.Types

namespace Gv.Spec
open Gv

/-- membership in the fragment F (struct-free) -/
def inF : Ty → Bool
  | .basic _ => true
  | .ptr e => inF e
  | .slice e => inF e
  | .array _ e => inF e
  | .map k v => inF k && inF v
  | _ => false

mutual
  /-- membership in the fragment FS: F plus unnamed structs with exported fields of FS-types -/
  def inFS : Ty → Bool
    | .basic _ => true
    | .ptr e => inFS e
    | .slice e => inFS e
    | .array _ e => inFS e
    | .map k v => inFS k && inFS v
    | .struct fs => inFSFields fs
    | _ => false
  def inFSFields : Fields → Bool
    | .nil => true
    | .cons f t r => f.exported && inFS t && inFSFields r
end

theorem inFS_of_inF : ∀ t : Ty, inF t = true → inFS t = true
  | .basic _, _ => by simp [inFS]
  | .ptr e, h => by simp only [inFS]; exact inFS_of_inF e (by simpa [inF] using h)
  | .slice e, h => by simp only [inFS]; exact inFS_of_inF e (by simpa [inF] using h)
  | .array _ e, h => by simp only [inFS]; exact inFS_of_inF e (by simpa [inF] using h)
  | .map k v, h => by
    simp [inF] at h
    simp [inFS, inFS_of_inF k h.1, inFS_of_inF v h.2]
  | .named _, h => by simp [inF] at h
  | .struct _, h => by simp [inF] at h
  | .opaque _ _, h => by simp [inF] at h

/-- syntactic pointer test (on F there are no named types, so this is `xtype.Type.Pointer`) -/
def isPtrTy : Ty → Bool
  | .ptr _ => true
  | _ => false

mutual
  /-- number of type constructors, a struct counting one per field on top of the field types (the measure of the fuel bound) -/
  def tySize : Ty → Nat
    | .ptr e => tySize e + 1
    | .slice e => tySize e + 1
    | .array _ e => tySize e + 1
    | .map k v => tySize k + tySize v + 1
    | .struct fs => fieldsSize fs + 1
    | _ => 1
  def fieldsSize : Fields → Nat
    | .nil => 0
    | .cons _ t r => tySize t + 1 + fieldsSize r
end

theorem tySize_pos (t : Ty) : 0 < tySize t := by
  cases t <;> simp [tySize]

/-- the type of the (first) field called `n` -/
def fieldTy : Fields → Str.S → Option Ty
  | .nil, _ => none
  | .cons f t r, n => if f.name == n then some t else fieldTy r n

theorem fieldTy_size : ∀ {fs : Fields} {n : Str.S} {t : Ty}, fieldTy fs n = some t → tySize t < fieldsSize fs
  | .nil, _, _, h => by simp [fieldTy] at h
  | .cons f t' r, n, t, h => by
    simp only [fieldTy] at h
    split at h
    · cases h; simp [fieldsSize]; omega
    · have := fieldTy_size h; simp [fieldsSize]; omega

mutual
  /-- no `byte` / `rune` spelling (the plan checker of C02 compares kinds literally, the generator up to these aliases) -/
  def aliasFree : Ty → Bool
    | .basic k => k.canon == k
    | .ptr e => aliasFree e
    | .slice e => aliasFree e
    | .array _ e => aliasFree e
    | .map k v => aliasFree k && aliasFree v
    | .struct fs => aliasFreeFields fs
    | _ => true
  def aliasFreeFields : Fields → Bool
    | .nil => true
    | .cons _ t r => aliasFree t && aliasFreeFields r
end

mutual
  /-- no array is directly the element of a slice or an array or a struct field (`asg` = the type itself sits at such a
  position): there the generator fills the target by assignment without a `make`, a plan shape outside the checked structural
  fragment of C02 -/
  def arrayElemFree : Bool → Ty → Bool
    | _, .ptr e => arrayElemFree false e
    | _, .slice e => arrayElemFree true e
    | asg, .array _ e => !asg && arrayElemFree true e
    | _, .map k v => arrayElemFree false k && arrayElemFree false v
    | _, .struct fs => arrayElemFreeFields fs
    | _, _ => true
  def arrayElemFreeFields : Fields → Bool
    | .nil => true
    | .cons _ t r => arrayElemFree true t && arrayElemFreeFields r
end

mutual
  /-- every struct (of a TARGET type) has at least one field and no field name twice: the side condition of the plan checker
  of C02 (`Nodup`), and no position where the generator takes the shortcut for two empty structs (a plain assignment) -/
  def structsOK : Ty → Bool
    | .ptr e => structsOK e
    | .slice e => structsOK e
    | .array _ e => structsOK e
    | .map k v => structsOK k && structsOK v
    | .struct fs => fs.length != 0 && decide ((fs.toList.map (fun (x : FieldInfo × Ty) => x.1.name)).Nodup) && structsOKFields fs
    | _ => true
  def structsOKFields : Fields → Bool
    | .nil => true
    | .cons _ t r => structsOK t && structsOKFields r
end

mutual
  /-- **the documented rules**, `z` = useZeroValueOnPointerInconsistency -/
  inductive Convertible (z : Bool) : Ty → Ty → Prop
    /-- Basic: both basic, of one kind (`byte`/`uint8` and `rune`/`int32` are one kind) -/
    | basic {k k' : Kind} : k.canon = k'.canon → Convertible z (.basic k) (.basic k')
    /-- Pointer: `*A → *B` when `A → B` -/
    | ptrPtr {a b : Ty} : Convertible z a b → Convertible z (.ptr a) (.ptr b)
    /-- TargetPointer: `S → *B` for a non-pointer `S` when `S → B` -/
    | tgtPtr {s b : Ty} : isPtrTy s = false → Convertible z s b → Convertible z s (.ptr b)
    /-- SourcePointer: `*A → T` for a non-pointer `T` needs the flag -/
    | srcPtr {a t : Ty} : z = true → isPtrTy t = false → Convertible z a t → Convertible z (.ptr a) t
    /-- List: slice → slice -/
    | slice {a b : Ty} : Convertible z a b → Convertible z (.slice a) (.slice b)
    /-- List: array → slice (the target must not be an array) -/
    | array {n : Nat} {a b : Ty} : Convertible z a b → Convertible z (.array n a) (.slice b)
    /-- Map: keys and values -/
    | map {k v k' v' : Ty} : Convertible z k k' → Convertible z v v' → Convertible z (.map k v) (.map k' v')
    /-- Struct: every target field is covered -/
    | struct {sfs tfs : Fields} : ConvertibleFields z sfs tfs → Convertible z (.struct sfs) (.struct tfs)
  /-- every field of the target list has a source field of the same name with a convertible pair of types -/
  inductive ConvertibleFields (z : Bool) : Fields → Fields → Prop
    | nil {sfs : Fields} : ConvertibleFields z sfs .nil
    | cons {sfs : Fields} {f : FieldInfo} {sty ty : Ty} {rest : Fields} :
        fieldTy sfs f.name = some sty → Convertible z sty ty → ConvertibleFields z sfs rest →
        ConvertibleFields z sfs (.cons f ty rest)
end

mutual
  /-- the decision procedure for `Convertible` (recursion on the size of the pair) -/
  def convertibleB (z : Bool) (s t : Ty) : Bool :=
    match s, t with
    | .ptr a, .ptr b => convertibleB z a b
    | .ptr a, .basic k => z && convertibleB z a (.basic k)
    | .ptr a, .slice e => z && convertibleB z a (.slice e)
    | .ptr a, .array n e => z && convertibleB z a (.array n e)
    | .ptr a, .map k v => z && convertibleB z a (.map k v)
    | .ptr a, .struct fs => z && convertibleB z a (.struct fs)
    | .basic k, .ptr b => convertibleB z (.basic k) b
    | .slice e, .ptr b => convertibleB z (.slice e) b
    | .array n e, .ptr b => convertibleB z (.array n e) b
    | .map k v, .ptr b => convertibleB z (.map k v) b
    | .struct fs, .ptr b => convertibleB z (.struct fs) b
    | .basic k, .basic k' => k.canon == k'.canon
    | .slice a, .slice b => convertibleB z a b
    | .array _ a, .slice b => convertibleB z a b
    | .map k v, .map k' v' => convertibleB z k k' && convertibleB z v v'
    | .struct sfs, .struct tfs => convertibleFieldsB z sfs tfs
    | _, _ => false
  termination_by tySize s + tySize t
  decreasing_by
    all_goals simp only [tySize]
    all_goals omega
  def convertibleFieldsB (z : Bool) (sfs tfs : Fields) : Bool :=
    match tfs with
    | .nil => true
    | .cons f ty rest =>
      (match h : fieldTy sfs f.name with
       | some sty => convertibleB z sty ty
       | none => false) && convertibleFieldsB z sfs rest
  termination_by fieldsSize sfs + 1 + fieldsSize tfs
  decreasing_by
    · have := fieldTy_size h; simp only [fieldsSize]; omega
    · simp only [fieldsSize]; omega
end

theorem inFS_fieldTy : ∀ {fs : Fields} {n : Str.S} {t : Ty}, inFSFields fs = true → fieldTy fs n = some t → inFS t = true
  | .nil, _, _, _, h => by simp [fieldTy] at h
  | .cons f t' r, n, t, hf, h => by
    simp [inFSFields] at hf
    simp only [fieldTy] at h
    split at h
    · cases h; exact hf.1.2
    · exact inFS_fieldTy hf.2 h

/-! ### `convertibleB` decides `Convertible` on FS (hence on F) -/

theorem convertibleB_sound_all (z : Bool) :
    (∀ s t, convertibleB z s t = true → Convertible z s t) ∧
    (∀ sfs tfs, convertibleFieldsB z sfs tfs = true → ConvertibleFields z sfs tfs) := by
  apply convertibleB.mutual_induct
    (motive1 := fun s t => convertibleB z s t = true → Convertible z s t)
    (motive2 := fun sfs tfs => convertibleFieldsB z sfs tfs = true → ConvertibleFields z sfs tfs)
  · intro a b ih h; rw [convertibleB] at h; exact .ptrPtr (ih h)
  · intro a k ih h; rw [convertibleB] at h; simp at h; exact .srcPtr h.1 rfl (ih h.2)
  · intro a e ih h; rw [convertibleB] at h; simp at h; exact .srcPtr h.1 rfl (ih h.2)
  · intro a n e ih h; rw [convertibleB] at h; simp at h; exact .srcPtr h.1 rfl (ih h.2)
  · intro a k v ih h; rw [convertibleB] at h; simp at h; exact .srcPtr h.1 rfl (ih h.2)
  · intro a fs ih h; rw [convertibleB] at h; simp at h; exact .srcPtr h.1 rfl (ih h.2)
  · intro k b ih h; rw [convertibleB] at h; exact .tgtPtr rfl (ih h)
  · intro e b ih h; rw [convertibleB] at h; exact .tgtPtr rfl (ih h)
  · intro n e b ih h; rw [convertibleB] at h; exact .tgtPtr rfl (ih h)
  · intro k v b ih h; rw [convertibleB] at h; exact .tgtPtr rfl (ih h)
  · intro fs b ih h; rw [convertibleB] at h; exact .tgtPtr rfl (ih h)
  · intro k k' h; rw [convertibleB] at h; exact .basic (by simpa using h)
  · intro a b ih h; rw [convertibleB] at h; exact .slice (ih h)
  · intro n a b ih h; rw [convertibleB] at h; exact .array (ih h)
  · intro k v k' v' ih1 ih2 h; rw [convertibleB] at h; simp at h; exact .map (ih1 h.1) (ih2 h.2)
  · intro sfs tfs ih h; rw [convertibleB] at h; exact .struct (ih h)
  · intro s t h1 h2 h3 h4 h5 h6 h7 h8 h9 h10 h11 h12 h13 h14 h15 h16 h
    rw [convertibleB] at h
    · cases h
    all_goals assumption
  · intro sfs _; exact .nil
  · intro sfs f t r ih1 ih2 h
    rw [convertibleFieldsB] at h
    simp only [Bool.and_eq_true] at h
    cases hf : fieldTy sfs f.name with
    | none => rw [hf] at h; simp at h
    | some sty =>
      have h1 := h.1
      split at h1
      · rename_i sty' hf'; rw [hf] at hf'; cases hf'; exact .cons hf (ih1 sty hf h1) (ih2 h.2)
      · cases h1

theorem convertibleB_sound (z : Bool) (s t : Ty) : convertibleB z s t = true → Convertible z s t :=
  (convertibleB_sound_all z).1 s t

mutual
  theorem convertibleB_complete_struct (z : Bool) : ∀ {s t : Ty}, Convertible z s t → inFS s = true → inFS t = true →
      convertibleB z s t = true
    | _, _, .basic hk, _, _ => by rw [convertibleB]; simp [hk]
    | _, _, .ptrPtr h, hs, ht => by
      rw [convertibleB]; exact convertibleB_complete_struct z h (by simpa [inFS] using hs) (by simpa [inFS] using ht)
    | s, _, .tgtPtr hp h, hs, ht => by
      have := convertibleB_complete_struct z h hs (by simpa [inFS] using ht)
      cases s <;> simp [inFS, isPtrTy] at hs hp <;> rw [convertibleB] <;> exact this
    | _, t, .srcPtr hz hp h, hs, ht => by
      have := convertibleB_complete_struct z h (by simpa [inFS] using hs) ht
      cases t <;> simp [inFS, isPtrTy] at ht hp <;> rw [convertibleB, this, hz] <;> rfl
    | _, _, .slice h, hs, ht => by
      rw [convertibleB]; exact convertibleB_complete_struct z h (by simpa [inFS] using hs) (by simpa [inFS] using ht)
    | _, _, .array h, hs, ht => by
      rw [convertibleB]; exact convertibleB_complete_struct z h (by simpa [inFS] using hs) (by simpa [inFS] using ht)
    | _, _, .map h1 h2, hs, ht => by
      simp [inFS] at hs ht
      rw [convertibleB]
      simp [convertibleB_complete_struct z h1 hs.1 ht.1, convertibleB_complete_struct z h2 hs.2 ht.2]
    | _, _, .struct hf, hs, ht => by
      rw [convertibleB]; exact convertibleFieldsB_complete z hf (by simpa [inFS] using hs) (by simpa [inFS] using ht)
  theorem convertibleFieldsB_complete (z : Bool) : ∀ {sfs tfs : Fields}, ConvertibleFields z sfs tfs →
      inFSFields sfs = true → inFSFields tfs = true → convertibleFieldsB z sfs tfs = true
    | _, _, .nil, _, _ => by rw [convertibleFieldsB]
    | _, _, .cons hf h hr, hs, ht => by
      simp [inFSFields] at ht
      rw [convertibleFieldsB]
      simp only [Bool.and_eq_true]
      refine ⟨?_, convertibleFieldsB_complete z hr hs ht.2⟩
      have := convertibleB_complete_struct z h (inFS_fieldTy hs hf) ht.1.2
      split
      · rename_i sty' hf'; rw [hf] at hf'; cases hf'; exact this
      · rename_i hf'; rw [hf] at hf'; cases hf'
end

/-- **the decision procedure is exact on FS** -/
theorem convertibleB_iff_struct (z : Bool) (s t : Ty) (hs : inFS s = true) (ht : inFS t = true) :
    convertibleB z s t = true ↔ Convertible z s t :=
  ⟨convertibleB_sound z s t, fun h => convertibleB_complete_struct z h hs ht⟩

theorem convertibleB_complete (z : Bool) {s t : Ty} (h : Convertible z s t) (hs : inF s = true) (ht : inF t = true) :
    convertibleB z s t = true :=
  convertibleB_complete_struct z h (inFS_of_inF s hs) (inFS_of_inF t ht)

/-- **the decision procedure is exact on F** -/
theorem convertibleB_iff (z : Bool) (s t : Ty) (hs : inF s = true) (ht : inF t = true) :
    convertibleB z s t = true ↔ Convertible z s t :=
  ⟨convertibleB_sound z s t, fun h => convertibleB_complete z h hs ht⟩

end Gv.Spec
