/-
S-expression reader/printer used by the line protocol between the Go harness
(`gvh`) and the Lean driver (`gvdriver`).  Not part of the model; nothing is
proved about it (it is in the trusted base as "the protocol plumbing").
-/
namespace Gv

inductive Sexp where
  | atom : String → Sexp
  | str  : String → Sexp
  | list : List Sexp → Sexp
  deriving Repr, Inhabited, BEq

namespace Sexp

def hexDigit (n : Nat) : Char :=
  if n < 10 then Char.ofNat (48 + n) else Char.ofNat (87 + n)

def hexOf (n : Nat) : String :=
  let rec go (fuel n : Nat) (acc : List Char) : List Char :=
    match fuel with
    | 0 => acc
    | fuel+1 => if n < 16 then hexDigit n :: acc else go fuel (n / 16) (hexDigit (n % 16) :: acc)
  String.ofList (go 16 n [])

def escape (s : String) : String :=
  s.foldl (fun acc c =>
    if c == '"' then acc ++ "\\\""
    else if c == '\\' then acc ++ "\\\\"
    else if c == '\n' then acc ++ "\\n"
    else if c == '\r' then acc ++ "\\r"
    else if c == '\t' then acc ++ "\\t"
    else if c.toNat < 32 || c.toNat == 127 then acc ++ "\\u{" ++ hexOf c.toNat ++ "}"
    else acc.push c) ""

partial def toString : Sexp → String
  | atom a => a
  | str s => "\"" ++ escape s ++ "\""
  | list xs => "(" ++ " ".intercalate (xs.map toString) ++ ")"

instance : ToString Sexp := ⟨Sexp.toString⟩

def hexVal (c : Char) : Option Nat :=
  if '0' ≤ c ∧ c ≤ '9' then some (c.toNat - 48)
  else if 'a' ≤ c ∧ c ≤ 'f' then some (c.toNat - 87)
  else if 'A' ≤ c ∧ c ≤ 'F' then some (c.toNat - 55)
  else none

/-- read a quoted string body (after the opening quote); returns string and rest -/
def readStr : Nat → List Char → List Char → Option (String × List Char)
  | 0, _, _ => none
  | _+1, _, [] => none
  | _+1, acc, '"' :: rest => some (String.ofList acc.reverse, rest)
  | f+1, acc, '\\' :: 'n' :: rest => readStr f ('\n' :: acc) rest
  | f+1, acc, '\\' :: 'r' :: rest => readStr f ('\r' :: acc) rest
  | f+1, acc, '\\' :: 't' :: rest => readStr f ('\t' :: acc) rest
  | f+1, acc, '\\' :: '"' :: rest => readStr f ('"' :: acc) rest
  | f+1, acc, '\\' :: '\\' :: rest => readStr f ('\\' :: acc) rest
  | f+1, acc, '\\' :: 'u' :: '{' :: rest =>
      let digits := rest.takeWhile (· != '}')
      let rest' := (rest.dropWhile (· != '}')).drop 1
      let n := digits.foldl (fun a c => a * 16 + (hexVal c).getD 0) 0
      readStr f (Char.ofNat n :: acc) rest'
  | f+1, acc, c :: rest => readStr f (c :: acc) rest

def isDelim (c : Char) : Bool := c == '(' || c == ')' || c == ' ' || c == '\n' || c == '\t' || c == '\r' || c == '"'

mutual
  def readOne : Nat → List Char → Option (Sexp × List Char)
    | 0, _ => none
    | _+1, [] => none
    | f+1, c :: rest =>
      if c == ' ' || c == '\n' || c == '\t' || c == '\r' then readOne f rest
      else if c == '(' then
        match readMany f rest [] with
        | some (xs, rest') => some (list xs, rest')
        | none => none
      else if c == ')' then none
      else if c == '"' then
        match readStr (rest.length + 1) [] rest with
        | some (s, rest') => some (str s, rest')
        | none => none
      else
        let tok := (c :: rest).takeWhile (fun c => !isDelim c)
        let rest' := (c :: rest).dropWhile (fun c => !isDelim c)
        some (atom (String.ofList tok), rest')
  def readMany : Nat → List Char → List Sexp → Option (List Sexp × List Char)
    | 0, _, _ => none
    | _+1, [], _ => none
    | f+1, c :: rest, acc =>
      if c == ' ' || c == '\n' || c == '\t' || c == '\r' then readMany f rest acc
      else if c == ')' then some (acc.reverse, rest)
      else
        match readOne f (c :: rest) with
        | some (x, rest') => readMany f rest' (x :: acc)
        | none => none
end

def parse (s : String) : Option Sexp :=
  let cs := s.toList
  match readOne (2 * cs.length + 2) cs with
  | some (x, _) => some x
  | none => none

/-! accessors -/
def asList : Sexp → List Sexp
  | list xs => xs
  | _ => []

def asString : Sexp → String
  | str s => s
  | atom s => s
  | _ => ""

def asNat (x : Sexp) : Nat := (asString x).toNat!

def asInt (x : Sexp) : Int := (asString x).toInt!

def asBool (x : Sexp) : Bool := asString x == "true" || asString x == "1"

def head? : Sexp → Option String
  | list (atom a :: _) => some a
  | _ => none

def args : Sexp → List Sexp
  | list (_ :: xs) => xs
  | _ => []

/-- find `(key ...)` among the arguments of a list form -/
def field? (x : Sexp) (key : String) : Option Sexp :=
  (args x).find? (fun y => head? y == some key)

def fieldArgs (x : Sexp) (key : String) : List Sexp :=
  match field? x key with
  | some y => args y
  | none => []

def mkList (h : String) (xs : List Sexp) : Sexp := list (atom h :: xs)

end Sexp
end Gv
