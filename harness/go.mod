module gvh

go 1.22.0

require (
	github.com/dave/jennifer v1.6.0
	github.com/jmattheis/goverter v0.0.0
	golang.org/x/tools v0.25.0
	gopkg.in/yaml.v3 v3.0.1
)

require (
	golang.org/x/mod v0.21.0 // indirect
	golang.org/x/sync v0.8.0 // indirect
)

replace github.com/jmattheis/goverter => /repo
