// extract reads the goverter source tree with go/parser + go/types and writes
// lean/Gv/Model/Facts.lean: the tables the Lean model is parameterised by.
// It is run on every check, so the theorems are re-checked against what the
// code says now.  An unexpected shape is emitted as an `unknown` marker that
// makes the dependent theorem fail.
package main

import (
	"fmt"
	"go/ast"
	"go/constant"
	"go/token"
	"go/types"
	"os"
	"path/filepath"
	"sort"
	"strconv"
	"strings"

	"golang.org/x/tools/go/packages"
)

type ctx struct {
	pkgs map[string]*packages.Package
	out  strings.Builder
}

func die(f string, a ...any) {
	fmt.Fprintf(os.Stderr, "extract: "+f+"\n", a...)
	os.Exit(2)
}

func q(s string) string {
	var b strings.Builder
	b.WriteByte('"')
	for _, r := range s {
		switch {
		case r == '"':
			b.WriteString("\\\"")
		case r == '\\':
			b.WriteString("\\\\")
		case r == '\n':
			b.WriteString("\\n")
		case r == '\t':
			b.WriteString("\\t")
		case r == '\r':
			b.WriteString("\\r")
		case r < 32 || r == 127:
			fmt.Fprintf(&b, "\\u{%x}", r)
		default:
			b.WriteRune(r)
		}
	}
	b.WriteByte('"')
	return b.String()
}

func qlist(xs []string) string {
	ys := make([]string, len(xs))
	for i, x := range xs {
		ys[i] = q(x)
	}
	return "[" + strings.Join(ys, ", ") + "]"
}

func (c *ctx) pkg(path string) *packages.Package {
	p := c.pkgs["github.com/jmattheis/goverter"+path]
	if p == nil {
		die("package %s not loaded", path)
	}
	return p
}

// constString evaluates a package-level string constant.
func (c *ctx) constString(pkgPath, name string) string {
	obj := c.pkg(pkgPath).Types.Scope().Lookup(name)
	k, ok := obj.(*types.Const)
	if !ok {
		return "<unknown:" + name + ">"
	}
	if k.Val().Kind() != constant.String {
		return "<unknown:" + name + ">"
	}
	return constant.StringVal(k.Val())
}

func (c *ctx) funcDecl(pkgPath, name string) (*packages.Package, *ast.FuncDecl) {
	p := c.pkg(pkgPath)
	for _, f := range p.Syntax {
		for _, d := range f.Decls {
			if fd, ok := d.(*ast.FuncDecl); ok && fd.Name.Name == name {
				return p, fd
			}
		}
	}
	return p, nil
}

func (c *ctx) methodDecl(pkgPath, recv, name string) (*packages.Package, *ast.FuncDecl) {
	p := c.pkg(pkgPath)
	for _, f := range p.Syntax {
		for _, d := range f.Decls {
			fd, ok := d.(*ast.FuncDecl)
			if !ok || fd.Name.Name != name || fd.Recv == nil || len(fd.Recv.List) != 1 {
				continue
			}
			t := fd.Recv.List[0].Type
			if s, ok := t.(*ast.StarExpr); ok {
				t = s.X
			}
			if ix, ok := t.(*ast.IndexExpr); ok {
				t = ix.X
			}
			if id, ok := t.(*ast.Ident); ok && id.Name == recv {
				return p, fd
			}
		}
	}
	return p, nil
}

func exprString(p *packages.Package, e ast.Expr) string {
	return types.ExprString(e)
}

func constOf(p *packages.Package, e ast.Expr) (string, bool) {
	tv, ok := p.TypesInfo.Types[e]
	if !ok || tv.Value == nil || tv.Value.Kind() != constant.String {
		return "", false
	}
	return constant.StringVal(tv.Value), true
}

// ---------------------------------------------------------------------------

func (c *ctx) emit(f string, a ...any) { fmt.Fprintf(&c.out, f, a...) }

func (c *ctx) factsFrontEnd() {
	prefix := c.constString("/config/parse", "Prefix")
	delim := c.constString("/config/parse", "Delimiter")
	c.emit("def settingPrefix : String := %s\n", q(prefix+delim))
	c.emit("def converterMarker : String := %s\n", q(c.constString("/comments", "converterMarker")))
	c.emit("def variablesMarker : String := %s\n", q(c.constString("/comments", "variablesMarker")))

	// SettingLines: bufio.Scanner with default buffer?
	p, fd := c.funcDecl("/config/parse", "SettingLines")
	limit := "0" // 0 = no limit
	shape := "unknown"
	if fd != nil {
		usesScanner, usesBuffer, usesTrim, usesHasPrefix := false, false, false, false
		bufferMax := ""
		param := ""
		if len(fd.Type.Params.List) == 1 && len(fd.Type.Params.List[0].Names) == 1 {
			param = fd.Type.Params.List[0].Names[0].Name
		}
		ast.Inspect(fd, func(n ast.Node) bool {
			if call, ok := n.(*ast.CallExpr); ok {
				s := exprString(p, call.Fun)
				switch {
				case s == "bufio.NewScanner":
					usesScanner = true
				case strings.HasSuffix(s, ".Buffer"):
					usesBuffer = true
					if len(call.Args) == 2 {
						bufferMax = exprString(p, call.Args[1])
						if tv, ok := p.TypesInfo.Types[call.Args[1]]; ok && tv.Value != nil {
							bufferMax = tv.Value.String()
						}
					}
				case s == "strings.TrimSpace":
					usesTrim = true
				case s == "strings.HasPrefix":
					usesHasPrefix = true
				}
			}
			return true
		})
		switch {
		case usesScanner && !usesBuffer:
			limit = "65536"
		case usesScanner && strings.ReplaceAll(bufferMax, " ", "") == "len("+param+")+1":
			limit = "0" // the buffer may grow beyond any line of the input
		case usesScanner:
			if _, err := strconv.Atoi(bufferMax); err == nil {
				limit = bufferMax
			} else {
				limit = "65536"
				shape = "unknown-buffer"
			}
		}
		if usesTrim && usesHasPrefix && shape != "unknown-buffer" {
			shape = "trim-hasprefix"
		}
	}
	c.emit("/-- bufio.MaxScanTokenSize when SettingLines scans with a default bufio.Scanner, 0 = unlimited -/\n")
	c.emit("def maxScanTokenSize : Nat := %s\n", limit)
	c.emit("def settingLinesShape : String := %s\n", q(shape))
}

func main() {
	if len(os.Args) != 3 {
		die("usage: extract <repo> <out.lean>")
	}
	repo, out := os.Args[1], os.Args[2]
	cfg := &packages.Config{
		Mode: packages.NeedName | packages.NeedTypes | packages.NeedTypesInfo | packages.NeedSyntax | packages.NeedFiles | packages.NeedImports | packages.NeedDeps,
		Dir:  repo,
		Fset: token.NewFileSet(),
	}
	pkgs, err := packages.Load(cfg, ".", "./cli", "./comments", "./config/...", "./generator", "./builder", "./xtype", "./namer", "./enum", "./method", "./pkgload", "./cmd/goverter")
	if err != nil {
		die("load: %v", err)
	}
	c := &ctx{pkgs: map[string]*packages.Package{}}
	for _, p := range pkgs {
		if len(p.Errors) > 0 {
			die("package %s: %v", p.PkgPath, p.Errors[0])
		}
		c.pkgs[p.PkgPath] = p
	}
	c.emit("/- GENERATED by harness/cmd/extract from %s — do not edit; rewritten on every run -/\n", "the goverter source tree")
	c.emit("namespace Gv.Facts\n\n")
	c.factsFrontEnd()
	c.factsSettings()
	c.factsGenerator()
	c.factsSites(repo)
	c.emit("\nend Gv.Facts\n")
	_ = os.Remove(out)
	if err := os.MkdirAll(filepath.Dir(out), 0o755); err != nil {
		die("%v", err)
	}
	if err := os.WriteFile(out, []byte(c.out.String()), 0o644); err != nil {
		die("%v", err)
	}
}

var _ = sort.Strings
var _ = strconv.Itoa
