package main

import (
	"go/ast"
	"go/token"
	"strings"

	"golang.org/x/tools/go/packages"
)

type effect struct{ kind, a, b string }

func (c *ctx) findSwitchOn(fd *ast.FuncDecl, tag string) *ast.SwitchStmt {
	var sw *ast.SwitchStmt
	ast.Inspect(fd, func(n ast.Node) bool {
		if s, ok := n.(*ast.SwitchStmt); ok && sw == nil {
			if id, ok := s.Tag.(*ast.Ident); ok && id.Name == tag {
				sw = s
			}
		}
		return true
	})
	return sw
}

func selPath(e ast.Expr) string {
	switch x := e.(type) {
	case *ast.Ident:
		return x.Name
	case *ast.SelectorExpr:
		return selPath(x.X) + "." + x.Sel.Name
	case *ast.StarExpr:
		return selPath(x.X)
	case *ast.ParenExpr:
		return selPath(x.X)
	}
	return "?"
}

// stripRecv removes the receiver-variable prefix ("c." / "m.Common.") of a field path.
func stripRecv(s string) string {
	if i := strings.Index(s, "."); i >= 0 {
		return s[i+1:]
	}
	return s
}

func (c *ctx) caseEffects(p *packages.Package, body []ast.Stmt) (fieldSetting bool, effs []effect) {
	for _, st := range body {
		switch s := st.(type) {
		case *ast.AssignStmt:
			// fieldSetting = true
			if len(s.Lhs) == 1 && len(s.Rhs) == 1 {
				if id, ok := s.Lhs[0].(*ast.Ident); ok && id.Name == "fieldSetting" {
					if v, ok := s.Rhs[0].(*ast.Ident); ok && v.Name == "true" {
						fieldSetting = true
						continue
					}
				}
				// c.G = c.F
				if _, ok := s.Lhs[0].(*ast.SelectorExpr); ok {
					if _, ok := s.Rhs[0].(*ast.SelectorExpr); ok {
						effs = append(effs, effect{"copy", stripRecv(selPath(s.Lhs[0])), stripRecv(selPath(s.Rhs[0]))})
						continue
					}
				}
				// err = fmt.Errorf("...")
				if id, ok := s.Lhs[0].(*ast.Ident); ok && id.Name == "err" {
					if call, ok := s.Rhs[0].(*ast.CallExpr); ok && exprString(p, call.Fun) == "fmt.Errorf" && len(call.Args) > 0 {
						if msg, ok := constOf(p, call.Args[0]); ok {
							effs = append(effs, effect{"error", msg, ""})
							continue
						}
					}
				}
			}
			// c.F, err = parse.P(rest)
			if len(s.Lhs) == 2 && len(s.Rhs) == 1 {
				if call, ok := s.Rhs[0].(*ast.CallExpr); ok {
					fn := exprString(p, call.Fun)
					if strings.HasPrefix(fn, "parse.") && len(call.Args) == 1 && exprString(p, call.Args[0]) == "rest" {
						if id, ok := s.Lhs[1].(*ast.Ident); ok && id.Name == "err" {
							effs = append(effs, effect{"parse", stripRecv(selPath(s.Lhs[0])), strings.TrimPrefix(fn, "parse.")})
							continue
						}
					}
				}
			}
			effs = append(effs, effect{"unknown", exprString(p, s.Lhs[0]), ""})
		case *ast.IfStmt:
			// guard: if c.X != "" { return false, fmt.Errorf(..) }   /  if c.X { return ... }
			if s.Init == nil && s.Else == nil && len(s.Body.List) == 1 {
				if _, ok := s.Body.List[0].(*ast.ReturnStmt); ok {
					switch cond := s.Cond.(type) {
					case *ast.BinaryExpr:
						if cond.Op == token.NEQ {
							if lit, ok := cond.Y.(*ast.BasicLit); ok && lit.Value == `""` {
								effs = append(effs, effect{"guardNonEmpty", stripRecv(selPath(cond.X)), ""})
								continue
							}
						}
					case *ast.SelectorExpr:
						effs = append(effs, effect{"guardTrue", stripRecv(selPath(cond)), ""})
						continue
					}
				}
				// if err == nil && IsEnumAction(c.Enum.Unknown) { err = validateEnumAction(c.Enum.Unknown) }
				txt := exprString(p, s.Cond)
				if strings.Contains(txt, "IsEnumAction(") {
					if as, ok := s.Body.List[0].(*ast.AssignStmt); ok && len(as.Rhs) == 1 {
						if call, ok := as.Rhs[0].(*ast.CallExpr); ok && exprString(p, call.Fun) == "validateEnumAction" && strings.HasPrefix(txt, "err == nil && ") {
							effs = append(effs, effect{"validateEnumAction", stripRecv(selPath(call.Args[0])), ""})
							continue
						}
					}
				}
			}
			effs = append(effs, effect{"unknown", "if " + exprString(p, s.Cond), ""})
		default:
			effs = append(effs, effect{"unknown", "stmt", ""})
		}
	}
	return fieldSetting, effs
}

func (c *ctx) caseKeys(p *packages.Package, cc *ast.CaseClause) []string {
	var keys []string
	for _, e := range cc.List {
		if s, ok := constOf(p, e); ok {
			keys = append(keys, s)
		} else {
			keys = append(keys, "<unknown:"+exprString(p, e)+">")
		}
	}
	return keys
}

func (c *ctx) factsSettings() {
	c.emit("\nstructure KeyCase where\n  keys : List String\n  fieldSetting : Bool\n  effects : List (String × String × String)\n  deriving Repr, DecidableEq\n\n")

	p, fd := c.funcDecl("/config", "parseCommon")
	c.emit("/-- `switch cmd` of config.parseCommon; an empty `keys` list is the `default:` clause -/\n")
	c.emit("def commonCases : List KeyCase := [\n")
	if fd != nil {
		if sw := c.findSwitchOn(fd, "cmd"); sw != nil {
			for i, st := range sw.Body.List {
				cc := st.(*ast.CaseClause)
				fs, effs := c.caseEffects(p, cc.Body)
				var es []string
				for _, e := range effs {
					es = append(es, "("+q(e.kind)+", "+q(e.a)+", "+q(e.b)+")")
				}
				sep := ","
				if i == len(sw.Body.List)-1 {
					sep = ""
				}
				b := "false"
				if fs {
					b = "true"
				}
				c.emit("  { keys := %s, fieldSetting := %s, effects := [%s] }%s\n", qlist(c.caseKeys(p, cc)), b, strings.Join(es, ", "), sep)
			}
		}
	}
	c.emit("]\n\n")

	for _, fn := range []struct{ name, lean string }{{"parseConverterLine", "converterKeys"}, {"parseMethodLine", "methodKeys"}} {
		p, fd := c.funcDecl("/config", fn.name)
		var keys []string
		deflt := "none"
		if fd != nil {
			if sw := c.findSwitchOn(fd, "cmd"); sw != nil {
				for _, st := range sw.Body.List {
					cc := st.(*ast.CaseClause)
					if cc.List == nil {
						// default clause: must delegate to parseCommon
						deflt = "other"
						ast.Inspect(cc, func(n ast.Node) bool {
							if call, ok := n.(*ast.CallExpr); ok && exprString(p, call.Fun) == "parseCommon" {
								deflt = "parseCommon"
							}
							return true
						})
						continue
					}
					keys = append(keys, c.caseKeys(p, cc)...)
				}
			}
		}
		c.emit("def %s : List String := %s\n", fn.lean, qlist(keys))
		c.emit("def %sDefault : String := %s\n", fn.lean, q(deflt))
	}

	// which method-level cases set fieldSetting = true
	{
		p, fd := c.funcDecl("/config", "parseMethodLine")
		var keys []string
		if fd != nil {
			if sw := c.findSwitchOn(fd, "cmd"); sw != nil {
				for _, st := range sw.Body.List {
					cc := st.(*ast.CaseClause)
					for _, b := range cc.Body {
						if as, ok := b.(*ast.AssignStmt); ok && len(as.Lhs) == 1 && len(as.Rhs) == 1 {
							if id, ok := as.Lhs[0].(*ast.Ident); ok && id.Name == "fieldSetting" && exprString(p, as.Rhs[0]) == "true" {
								keys = append(keys, c.caseKeys(p, cc)...)
							}
						}
					}
				}
			}
		}
		c.emit("def methodFieldSettingKeys : List String := %s\n", qlist(keys))
	}

	// defaults
	c.emit("\n/-- fields set in the composite literals config.DefaultCommon / DefaultConfigInterface / DefaultConfigVariables -/\n")
	for _, v := range []string{"DefaultCommon", "DefaultConfigInterface", "DefaultConfigVariables"} {
		p := c.pkg("/config")
		var kvs []string
		for _, f := range p.Syntax {
			for _, d := range f.Decls {
				gd, ok := d.(*ast.GenDecl)
				if !ok || gd.Tok != token.VAR {
					continue
				}
				for _, sp := range gd.Specs {
					vs := sp.(*ast.ValueSpec)
					for i, n := range vs.Names {
						if n.Name != v || i >= len(vs.Values) {
							continue
						}
						if cl, ok := vs.Values[i].(*ast.CompositeLit); ok {
							var walk func(prefix string, cl *ast.CompositeLit)
							walk = func(prefix string, cl *ast.CompositeLit) {
								for _, el := range cl.Elts {
									if kv, ok := el.(*ast.KeyValueExpr); ok {
										if inner, ok := kv.Value.(*ast.CompositeLit); ok {
											walk(prefix+exprString(p, kv.Key)+".", inner)
											continue
										}
										val := exprString(p, kv.Value)
										if s, ok := constOf(p, kv.Value); ok {
											val = s
										}
										kvs = append(kvs, "("+q(prefix+exprString(p, kv.Key))+", "+q(val)+")")
									}
								}
							}
							walk("", cl)
						}
					}
				}
			}
		}
		c.emit("def %s : List (String × String) := [%s]\n", lowerFirst(v), strings.Join(kvs, ", "))
	}

	// CLI flag defaults and the location string of -g lines
	{
		p, fd := c.funcDecl("/cli", "parseGen")
		var flags []string
		loc := "<unknown>"
		if fd != nil {
			ast.Inspect(fd, func(n ast.Node) bool {
				switch x := n.(type) {
				case *ast.CallExpr:
					if exprString(p, x.Fun) == "fs.String" && len(x.Args) == 3 {
						name, _ := constOf(p, x.Args[0])
						def, _ := constOf(p, x.Args[1])
						flags = append(flags, "("+q(name)+", "+q(def)+")")
					}
					if exprString(p, x.Fun) == "fs.Var" && len(x.Args) == 3 {
						name, _ := constOf(p, x.Args[1])
						flags = append(flags, "("+q(name)+", "+q("<list>")+")")
					}
				case *ast.KeyValueExpr:
					if exprString(p, x.Key) == "Location" {
						if s, ok := constOf(p, x.Value); ok {
							loc = s
						}
					}
				}
				return true
			})
		}
		c.emit("def cliGenFlags : List (String × String) := [%s]\n", strings.Join(flags, ", "))
		c.emit("def cliGlobalLocation : String := %s\n", q(loc))
	}
}

func lowerFirst(s string) string { return strings.ToLower(s[:1]) + s[1:] }
