package main

import (
	"fmt"
	"go/ast"
	"go/token"
	"go/types"
	"path/filepath"
	"sort"
	"strings"

	"golang.org/x/tools/go/packages"
)

func (c *ctx) varValue(pkgPath, name string) (*packages.Package, ast.Expr) {
	p := c.pkg(pkgPath)
	for _, f := range p.Syntax {
		for _, d := range f.Decls {
			gd, ok := d.(*ast.GenDecl)
			if !ok || gd.Tok != token.VAR {
				continue
			}
			for _, sp := range gd.Specs {
				vs := sp.(*ast.ValueSpec)
				for i, n := range vs.Names {
					if n.Name == name && i < len(vs.Values) {
						return p, vs.Values[i]
					}
				}
			}
		}
	}
	return p, nil
}

func (c *ctx) factsGenerator() {
	// BuildSteps
	{
		p, v := c.varValue("/generator", "BuildSteps")
		var names []string
		if cl, ok := v.(*ast.CompositeLit); ok {
			for _, el := range cl.Elts {
				s := exprString(p, el)
				s = strings.TrimPrefix(s, "&builder.")
				s = strings.TrimSuffix(s, "{}")
				names = append(names, s)
			}
		}
		c.emit("\n/-- generator.BuildSteps, in order -/\ndef buildSteps : List String := %s\n", qlist(names))
	}
	// Matches predicates of each builder, as normalised source text of the returned expression
	{
		p := c.pkg("/builder")
		var rows []string
		for _, f := range p.Syntax {
			for _, d := range f.Decls {
				fd, ok := d.(*ast.FuncDecl)
				if !ok || fd.Name.Name != "Matches" || fd.Recv == nil {
					continue
				}
				recv := strings.TrimPrefix(exprString(p, fd.Recv.List[0].Type), "*")
				body := ""
				if len(fd.Body.List) == 1 {
					if r, ok := fd.Body.List[0].(*ast.ReturnStmt); ok && len(r.Results) == 1 {
						body = exprString(p, r.Results[0])
					}
				}
				if body == "" {
					body = "<complex>"
				}
				rows = append(rows, "("+q(recv)+", "+q(body)+")")
			}
		}
		sort.Strings(rows)
		c.emit("def builderMatches : List (String × String) := [%s]\n", strings.Join(rows, ",\n  "))
	}
	// header, build prefix, modes
	{
		p, fd := c.methodDecl("/generator", "fileManager", "Get")
		var headers []string
		if fd != nil {
			ast.Inspect(fd, func(n ast.Node) bool {
				if call, ok := n.(*ast.CallExpr); ok && strings.HasSuffix(exprString(p, call.Fun), ".HeaderComment") && len(call.Args) == 1 {
					if s, ok := constOf(p, call.Args[0]); ok {
						headers = append(headers, "const:"+s)
					} else if be, ok := call.Args[0].(*ast.BinaryExpr); ok {
						if s, ok := constOf(p, be.X); ok {
							headers = append(headers, "prefix:"+s+"|"+exprString(p, be.Y))
						} else {
							headers = append(headers, "unknown:"+exprString(p, call.Args[0]))
						}
					} else {
						headers = append(headers, "unknown:"+exprString(p, call.Args[0]))
					}
				}
				return true
			})
		}
		c.emit("def headerComments : List String := %s\n", qlist(headers))
	}
	{
		p, fd := c.funcDecl("", "writeFiles")
		var modes []string
		if fd != nil {
			ast.Inspect(fd, func(n ast.Node) bool {
				if call, ok := n.(*ast.CallExpr); ok {
					fn := exprString(p, call.Fun)
					if fn == "os.MkdirAll" || fn == "os.WriteFile" {
						last := call.Args[len(call.Args)-1]
						tv := p.TypesInfo.Types[last]
						val := "?"
						if tv.Value != nil {
							val = tv.Value.String()
						}
						modes = append(modes, "("+q(fn)+", "+q(val)+")")
					}
				}
				return true
			})
		}
		c.emit("def writeModes : List (String × String) := [%s]\n", strings.Join(modes, ", "))
	}
	// namer
	{
		p, v := c.varValue("/namer", "indexVars")
		var names []string
		if cl, ok := v.(*ast.CompositeLit); ok {
			for _, el := range cl.Elts {
				s, _ := constOf(p, el)
				names = append(names, s)
			}
		}
		c.emit("def indexVars : List String := %s\n", qlist(names))
		c.emit("def thisVar : String := %s\n", q(c.constString("/xtype", "ThisVar")))
	}
	// enum kind mask
	{
		p, fd := c.funcDecl("/enum", "Detect")
		mask := "<unknown>"
		if fd != nil {
			ast.Inspect(fd, func(n ast.Node) bool {
				if be, ok := n.(*ast.BinaryExpr); ok && be.Op == token.AND {
					if strings.HasSuffix(exprString(p, be.X), ".Info()") {
						mask = exprString(p, be.Y)
					}
				}
				return true
			})
		}
		c.emit("def enumKindMask : String := %s\n", q(mask))
		c.emit("def enumActions : List String := %s\n", qlist([]string{
			c.constString("/config", "EnumActionPanic"), c.constString("/config", "EnumActionError"), c.constString("/config", "EnumActionIgnore"),
		}))
	}
	// toCodeBasic kinds
	{
		p, fd := c.funcDecl("/xtype", "toCodeBasic")
		var kinds []string
		if fd != nil {
			ast.Inspect(fd, func(n ast.Node) bool {
				if cc, ok := n.(*ast.CaseClause); ok {
					for _, e := range cc.List {
						kinds = append(kinds, strings.TrimPrefix(exprString(p, e), "types."))
					}
				}
				return true
			})
		}
		c.emit("def toCodeBasicKinds : List String := %s\n", qlist(kinds))
	}
	// declarations appended to the jen.File in appendGenerated: calls whose receiver chain starts at `f`
	{
		p, fd := c.methodDecl("/generator", "generator", "appendGenerated")
		var calls []string
		if fd != nil {
			ast.Inspect(fd, func(n ast.Node) bool {
				if es, ok := n.(*ast.ExprStmt); ok {
					if call, ok := es.X.(*ast.CallExpr); ok {
						s := exprString(p, call)
						if strings.HasPrefix(s, "f.") {
							// first method in the chain
							rest := strings.TrimPrefix(s, "f.")
							name := rest
							if i := strings.Index(rest, "("); i >= 0 {
								name = rest[:i]
							}
							calls = append(calls, name)
						}
					}
				}
				return true
			})
		}
		c.emit("def appendGeneratedFileCalls : List String := %s\n", qlist(calls))
	}
	// literal package paths in jen.Qual("<pkg>", ...) in builder/ and generator/
	{
		var quals []string
		seen := map[string]bool{}
		for _, pp := range []string{"/builder", "/generator", "/xtype"} {
			p := c.pkg(pp)
			for _, f := range p.Syntax {
				ast.Inspect(f, func(n ast.Node) bool {
					if call, ok := n.(*ast.CallExpr); ok && exprString(p, call.Fun) == "jen.Qual" && len(call.Args) == 2 {
						if s, ok := constOf(p, call.Args[0]); ok {
							name, _ := constOf(p, call.Args[1])
							k := s + "." + name
							if !seen[k] {
								seen[k] = true
								quals = append(quals, k)
							}
						}
					}
					return true
				})
			}
		}
		sort.Strings(quals)
		c.emit("def literalQuals : List String := %s\n", qlist(quals))
	}
	// run pipeline: calls in GenerateConverters / generateConvertersRaw in order, with `return` positions
	for _, fn := range []string{"GenerateConverters", "generateConvertersRaw"} {
		p, fd := c.funcDecl("", fn)
		var steps []string
		if fd != nil {
			for _, st := range fd.Body.List {
				switch s := st.(type) {
				case *ast.AssignStmt:
					if call, ok := s.Rhs[0].(*ast.CallExpr); ok {
						steps = append(steps, "call:"+exprString(p, call.Fun))
					}
				case *ast.IfStmt:
					if exprString(p, s.Cond) == "err != nil" && len(s.Body.List) == 1 {
						if _, ok := s.Body.List[0].(*ast.ReturnStmt); ok {
							steps = append(steps, "iferr-return")
							continue
						}
					}
					steps = append(steps, "if:"+exprString(p, s.Cond))
				case *ast.ReturnStmt:
					if len(s.Results) > 0 {
						if call, ok := s.Results[0].(*ast.CallExpr); ok {
							steps = append(steps, "return-call:"+exprString(p, call.Fun))
							continue
						}
					}
					steps = append(steps, "return")
				default:
					steps = append(steps, "stmt")
				}
			}
		}
		c.emit("def %sSteps : List String := %s\n", lowerFirst(fn), qlist(steps))
	}
	// exit codes in cli.Run
	{
		p, fd := c.funcDecl("/cli", "Run")
		var exits []string
		if fd != nil {
			ast.Inspect(fd, func(n ast.Node) bool {
				if call, ok := n.(*ast.CallExpr); ok && exprString(p, call.Fun) == "os.Exit" {
					exits = append(exits, exprString(p, call.Args[0]))
				}
				return true
			})
		}
		c.emit("def cliRunExits : List String := %s\n", qlist(exits))
	}
	// tags passed to packages.Load: functions that call packages.Load and whether they append "-tags"
	{
		var rows []string
		for _, pp := range []string{"/comments", "/pkgload"} {
			p := c.pkg(pp)
			for _, f := range p.Syntax {
				for _, d := range f.Decls {
					fd, ok := d.(*ast.FuncDecl)
					if !ok {
						continue
					}
					loads, tags := false, false
					ast.Inspect(fd, func(n ast.Node) bool {
						if call, ok := n.(*ast.CallExpr); ok && exprString(p, call.Fun) == "packages.Load" {
							loads = true
						}
						if lit, ok := n.(*ast.BasicLit); ok && lit.Value == `"-tags"` {
							tags = true
						}
						return true
					})
					if loads {
						rows = append(rows, "("+q(strings.TrimPrefix(pp, "/")+"."+fd.Name.Name)+", "+fmt.Sprint(tags)+")")
					}
				}
			}
		}
		sort.Strings(rows)
		c.emit("def packageLoadSites : List (String × Bool) := [%s]\n", strings.Join(rows, ", "))
	}
}

// factsSites lists every `range` over a map and every panic( call in non-test code.
func (c *ctx) factsSites(repo string) {
	var ranges, panics, fsWrites []string
	fsFuncs := map[string]bool{"os.WriteFile": true, "os.Create": true, "os.OpenFile": true, "os.MkdirAll": true, "os.Mkdir": true, "os.Remove": true,
		"os.RemoveAll": true, "os.Rename": true, "os.Chmod": true, "os.Truncate": true, "os.Symlink": true, "os.Link": true, "ioutil.WriteFile": true, "os.CreateTemp": true, "os.MkdirTemp": true}
	var paths []string
	for k := range c.pkgs {
		paths = append(paths, k)
	}
	sort.Strings(paths)
	for _, k := range paths {
		p := c.pkgs[k]
		short := strings.TrimPrefix(strings.TrimPrefix(k, "github.com/jmattheis/goverter"), "/")
		if short == "" {
			short = "goverter"
		}
		for _, f := range p.Syntax {
			fname := filepath.Base(p.Fset.Position(f.Pos()).Filename)
			if strings.HasSuffix(fname, "_test.go") {
				continue
			}
			for _, d := range f.Decls {
				fd, ok := d.(*ast.FuncDecl)
				if !ok || fd.Body == nil {
					continue
				}
				fn := fd.Name.Name
				if fd.Recv != nil && len(fd.Recv.List) == 1 {
					r := exprString(p, fd.Recv.List[0].Type)
					r = strings.TrimPrefix(r, "*")
					if i := strings.Index(r, "["); i >= 0 {
						r = r[:i]
					}
					fn = r + "." + fn
				}
				nRange := 0
				ast.Inspect(fd.Body, func(n ast.Node) bool {
					switch x := n.(type) {
					case *ast.RangeStmt:
						if tv, ok := p.TypesInfo.Types[x.X]; ok {
							if _, isMap := tv.Type.Underlying().(*types.Map); isMap {
								nRange++
								ranges = append(ranges, fmt.Sprintf("%s.%s#%d:%s|%s", short, fn, nRange, exprString(p, x.X), classifyRange(p, fd, x)))
							}
						}
					case *ast.CallExpr:
						if fsFuncs[exprString(p, x.Fun)] {
							fsWrites = append(fsWrites, fmt.Sprintf("%s.%s:%s", short, fn, exprString(p, x.Fun)))
						}
						if id, ok := x.Fun.(*ast.Ident); ok && id.Name == "panic" {
							if _, isBuiltin := p.TypesInfo.Uses[id].(*types.Builtin); isBuiltin {
								msg := ""
								if len(x.Args) == 1 {
									if s, ok := constOf(p, x.Args[0]); ok {
										msg = s
									} else {
										msg = "<dynamic>"
									}
								}
								panics = append(panics, fmt.Sprintf("%s.%s:%s", short, fn, msg))
							}
						}
					}
					return true
				})
			}
		}
	}
	// every place that enables multi-source parsing (ParamsMultiSource: true) in a composite literal
	var multi []string
	for _, k := range paths {
		p := c.pkgs[k]
		for _, f := range p.Syntax {
			ast.Inspect(f, func(n ast.Node) bool {
				if kv, ok := n.(*ast.KeyValueExpr); ok && exprString(p, kv.Key) == "ParamsMultiSource" {
					multi = append(multi, filepath.Base(p.Fset.Position(kv.Pos()).Filename)+":"+exprString(p, kv.Value))
				}
				return true
			})
		}
	}
	// every method.ParseOpts literal: which parsing profile each consumer of a function signature uses
	var optsSites []string
	for _, k := range paths {
		p := c.pkgs[k]
		for _, f := range p.Syntax {
			fname := filepath.Base(p.Fset.Position(f.Pos()).Filename)
			if strings.HasSuffix(fname, "_test.go") {
				continue
			}
			for _, d := range f.Decls {
				fd, ok := d.(*ast.FuncDecl)
				if !ok || fd.Body == nil {
					continue
				}
				ast.Inspect(fd.Body, func(n ast.Node) bool {
					cl, ok := n.(*ast.CompositeLit)
					if !ok || cl.Type == nil || exprString(p, cl.Type) != "method.ParseOpts" {
						return true
					}
					vals := map[string]string{}
					for _, el := range cl.Elts {
						if kv, ok := el.(*ast.KeyValueExpr); ok {
							vals[exprString(p, kv.Key)] = exprString(p, kv.Value)
						}
					}
					get := func(k, dflt string) string {
						if v, ok := vals[k]; ok {
							return v
						}
						return dflt
					}
					optsSites = append(optsSites, fmt.Sprintf("%s:%s|params=%s|ctx=%s|tp=%s|conv=%s|generated=%s|update=%s|multi=%s", fname, fd.Name.Name,
						get("Params", "<zero>"), get("ContextMatch", "nil"), get("AllowTypeParams", "false"), get("Converter", "nil"),
						get("Generated", "false"), get("UpdateParam", "\"\""), get("ParamsMultiSource", "false")))
					return true
				})
			}
		}
	}
	sort.Strings(optsSites)
	smr := "<unknown>"
	if p, v := c.varValue("/config", "StructMethodContextRegex"); v != nil {
		if call, ok := v.(*ast.CallExpr); ok && exprString(p, call.Fun) == "regexp.MustCompile" && len(call.Args) == 1 {
			if s, ok := constOf(p, call.Args[0]); ok {
				smr = s
			}
		}
	}
	c.emit("\ndef structMethodContextRegex : String := %s\n", q(smr))
	c.emit("\n/-- every method.ParseOpts literal in non-test code: file:func|params|context regex|type params|converter|generated|update|multi -/\n")
	c.emit("def parseOptsSites : List String := [\n  %s]\n", strings.Join(quoteAll(optsSites), ",\n  "))
	sort.Strings(multi)
	c.emit("\ndef multiSourceEnabledSites : List String := %s\n", qlist(multi))
	sort.Strings(ranges)
	sort.Strings(panics)
	sort.Strings(fsWrites)
	c.emit("\n/-- every call that creates, writes, renames or removes files in non-test code: pkg.func:callee -/\n")
	c.emit("def fsWriteSites : List String := %s\n", qlist(fsWrites))
	c.emit("\n/-- every `range` over a map in non-test code: pkg.func#n:operand -/\n")
	c.emit("def mapRangeSites : List String := [\n  %s]\n", strings.Join(quoteAll(ranges), ",\n  "))
	c.emit("/-- every call of the builtin panic in non-test code: pkg.func:message -/\n")
	c.emit("def panicSites : List String := [\n  %s]\n", strings.Join(quoteAll(panics), ",\n  "))
}

func quoteAll(xs []string) []string {
	ys := make([]string, len(xs))
	for i, x := range xs {
		ys[i] = q(x)
	}
	return ys
}

// classifyRange summarises what the body of a range-over-map loop does, so that the order-sensitivity
// review in the Lean model (Gv.Props.C09) is re-checked when a loop changes:
//
//	append:<slice>[,sorted]  elements are collected into a slice (which the function sorts afterwards)
//	insert                   writes into a map / set (m[k] = v, delete, .Used(k))
//	return-false             universal quantifier (if ... { return false })
//	return                   any other return inside the loop
//	call:<f>                 calls a function for each entry
//	setflag:<field>          assigns the constant true/false to a field (x.Dirty = true)
//	cond-call:<f>            calls a function in the condition of an if statement
func classifyRange(p *packages.Package, fd *ast.FuncDecl, loop *ast.RangeStmt) string {
	feats := map[string]bool{}
	slices := map[string]bool{}
	var walk func(n ast.Node)
	walk = func(n ast.Node) {
		ast.Inspect(n, func(n ast.Node) bool {
			switch x := n.(type) {
			case *ast.ReturnStmt:
				if len(x.Results) == 1 && exprString(p, x.Results[0]) == "false" {
					feats["return-false"] = true
				} else {
					feats["return"] = true
				}
			case *ast.IfStmt:
				ast.Inspect(x.Cond, func(c ast.Node) bool {
					if call, ok := c.(*ast.CallExpr); ok {
						feats["cond-call:"+exprString(p, call.Fun)] = true
					}
					return true
				})
			case *ast.AssignStmt:
				for i, lhs := range x.Lhs {
					if _, ok := lhs.(*ast.IndexExpr); ok {
						feats["insert"] = true
					}
					if sel, ok := lhs.(*ast.SelectorExpr); ok && i < len(x.Rhs) {
						if v := exprString(p, x.Rhs[i]); v == "true" || v == "false" {
							feats["setflag:"+sel.Sel.Name+"="+v] = true
						}
					}
					if i < len(x.Rhs) {
						if call, ok := x.Rhs[i].(*ast.CallExpr); ok && exprString(p, call.Fun) == "append" {
							slices[exprString(p, lhs)] = true
						}
					}
				}
			case *ast.ExprStmt:
				if call, ok := x.X.(*ast.CallExpr); ok {
					f := exprString(p, call.Fun)
					switch {
					case f == "delete" || strings.HasSuffix(f, ".Used"):
						feats["insert"] = true
					default:
						feats["call:"+f] = true
					}
				}
			}
			return true
		})
	}
	walk(loop.Body)
	for sl := range slices {
		sorted := false
		ast.Inspect(fd.Body, func(n ast.Node) bool {
			if call, ok := n.(*ast.CallExpr); ok && call.Pos() > loop.End() {
				f := exprString(p, call.Fun)
				if (f == "sort.Strings" || f == "sort.Slice" || f == "sort.SliceStable") && len(call.Args) > 0 && exprString(p, call.Args[0]) == sl {
					sorted = true
				}
			}
			return true
		})
		if sorted {
			feats["append:"+sl+",sorted"] = true
		} else {
			feats["append:"+sl] = true
		}
	}
	var fs []string
	for f := range feats {
		fs = append(fs, f)
	}
	sort.Strings(fs)
	if len(fs) == 0 {
		return "empty"
	}
	return strings.Join(fs, "+")
}
