package main

import (
	"fmt"
	"path/filepath"
	"sort"
	"strings"

	"gvh/internal/rng"
	"gvh/internal/scratch"
)

// Output-layout projects for C01 ("all output file/package layouts including several converters and several output
// files per package"): several converters (output:format function, goverter:variables blocks, struct format) write
// DIFFERENT files of ONE output directory and every one of them needs a generated helper for the same nested type pair.
// What varies: how each converter spells the output package (no output:package, `PATH`, `PATH:NAME`, `:NAME`; every
// ordered pair of spellings is enumerated), whether the output directory is fresh, already holds a hand-written file
// (package name equal to or different from the directory name), is the converters' own package, or holds the output of
// an earlier goverter run (the project is generated twice), whether the converters live in one or two source packages,
// the nesting under which the shared pair occurs, and the order of the output:* lines. All spellings of one directory
// name the same package, so these are plain uses of goverter; the oracle is the one of the campaign: goverter reported
// success => the module (plus signature assertions against the emitted API) compiles.

var w10c01Spellings = []string{"none", "path", "path:name", ":name"}

var w10c01Shapes = []string{"%s", "[]%s", "*%s", "map[string]%s", "[][]%s", "map[string][]*%s", "[]*%s"}

type w10c01Conv struct {
	kind, spell, srcPkg, name string
}

// w10c01LayoutCases builds n projects; the ids continue the numbering of the cases built before (module example.org/a<id>).
func w10c01LayoutCases(r *rng.R, firstID, n int, base string) []*apiCase {
	var out []*apiCase
	var pairs [][2]string
	for _, a := range w10c01Spellings {
		for _, b := range w10c01Spellings {
			pairs = append(pairs, [2]string{a, b})
		}
	}
	pairAt := r.Intn(len(pairs))
	gc := 0
	for p := 0; p < n; p++ {
		id := firstID + p
		mod := fmt.Sprintf("example.org/a%d", id)
		modelPkg := rng.Pick(r, []string{"model", "domain", "api", "entity"})
		rerun := p%3 == 1
		tree := scratch.Tree{"go.mod": "module " + mod + "\n\ngo 1.18\n"}
		asserts := map[string]string{}
		model := "package " + modelPkg + "\n\n"
		var kindParts []string
		nGroups := 3 + r.Intn(2)
		for g := 0; g < nGroups; g, gc = g+1, gc+1 {
			core := gc%3 != 2
			dirKind := "fresh"
			if !core {
				dirKind = rng.Pick(r, []string{"fresh", "populated", "populated", "own", "own"})
			}
			own := dirKind == "own"
			srcPkgs := []string{fmt.Sprintf("src%d", g)}
			if !own && r.Chance(35) {
				srcPkgs = []string{fmt.Sprintf("src%da", g), fmt.Sprintf("src%db", g)}
			}
			outRel, outName := srcPkgs[0], srcPkgs[0]
			if !own {
				outName = fmt.Sprintf("gen%d", g)
				outRel = rng.Pick(r, []string{"", "", "out/", "internal/"}) + outName
				if dirKind == "populated" {
					if r.Bool() {
						outName = fmt.Sprintf("pk%d", g)
					}
					tree[outRel+"/doc.go"] = fmt.Sprintf("// Package %[1]s holds the generated converters.\npackage %[1]s\n\n// Version is hand written.\nconst Version = %d\n", outName, g)
				}
			}
			outPath := mod + "/" + outRel
			// the shared nested pair and the nestings under which every converter of the group meets it
			item := fmt.Sprintf("It%d", g)
			model += fmt.Sprintf("type %[1]s struct {\n\tSKU string\n\tQty int\n}\n\ntype %[1]sDTO struct {\n\tSKU string\n\tQty int\n}\n\n", item)
			shapes := []string{rng.Pick(r, w10c01Shapes)}
			if r.Bool() {
				shapes = append(shapes, rng.Pick(r, w10c01Shapes))
			}
			// converters
			nConv := 2
			if r.Chance(35) {
				nConv = 3
			}
			var convs []w10c01Conv
			for i := 0; i < nConv; i++ {
				c := w10c01Conv{srcPkg: srcPkgs[i%len(srcPkgs)], name: fmt.Sprintf("G%dx%d", g, i)}
				if core && i < 2 {
					c.kind = rng.Pick(r, []string{"function", "function", "variables"})
					c.spell = pairs[pairAt%len(pairs)][i]
				} else {
					c.kind = rng.Pick(r, []string{"function", "variables", "struct"})
					c.spell = rng.Pick(r, w10c01Spellings)
				}
				// a variables block defaults to its OWN package: written elsewhere it has to name the path
				if c.kind == "variables" && !own && (c.spell == "none" || c.spell == ":name") {
					if core && i < 2 {
						c.kind = "function"
					} else {
						c.spell = rng.Pick(r, []string{"path", "path:name"})
					}
				}
				convs = append(convs, c)
			}
			if core {
				pairAt++
			}
			wrappersInModel := r.Bool()
			imports := map[string]string{} // path -> alias, of the assertion file
			use := func(path, alias string) string { imports[path] = alias; return alias }
			var checks []string
			var desc []string
			for i, c := range convs {
				// wrapper types
				w := "W" + c.name
				var fs, ft string
				for k, sh := range shapes {
					fs += fmt.Sprintf("\tF%d %s\n", k, fmt.Sprintf(sh, "MP."+item))
					ft += fmt.Sprintf("\tF%d %s\n", k, fmt.Sprintf(sh, "MP."+item+"DTO"))
				}
				wdecl := fmt.Sprintf("type %[1]s struct {\n\tID int\n%[2]s}\n\ntype %[1]sDTO struct {\n\tID int\n%[3]s}\n\n", w, fs, ft)
				wq := w // the wrapper as the converter's source file spells it
				var wa string
				if wrappersInModel {
					model += strings.ReplaceAll(wdecl, "MP.", "")
					wq = modelPkg + "." + w
				}
				// settings
				file := fmt.Sprintf("c%dx%d", g, i)
				rel := "../" + outRel
				if own {
					rel = "."
				}
				var lines []string
				if !(own && c.kind == "variables" && r.Bool()) { // the default of a variables block is <file>.gen.go next to it
					lines = append(lines, "// goverter:output:file "+rel+"/"+file+".gen.go")
				}
				switch c.spell {
				case "path":
					lines = append(lines, "// goverter:output:package "+outPath)
				case "path:name":
					lines = append(lines, "// goverter:output:package "+outPath+":"+outName)
				case ":name":
					lines = append(lines, "// goverter:output:package :"+outName)
				}
				if c.kind == "function" {
					lines = append(lines, "// goverter:output:format function")
				}
				for k := len(lines) - 1; k > 0; k-- {
					j := r.Intn(k + 1)
					lines[k], lines[j] = lines[j], lines[k]
				}
				src := "package " + c.srcPkg + "\n\nimport " + modelPkg + " \"" + mod + "/" + modelPkg + "\"\n\n"
				if !wrappersInModel {
					src += strings.ReplaceAll(wdecl, "MP.", modelPkg+".")
				}
				method := "Conv" + c.name
				if c.kind == "variables" {
					src += "// goverter:variables\n" + strings.Join(lines, "\n") + "\nvar (\n\t" + method + " func(source " + wq + ") " + wq + "DTO\n)\n"
				} else {
					src += "// goverter:converter\n" + strings.Join(lines, "\n") + "\ntype C" + c.name + " interface {\n\t" + method + "(source " + wq + ") " + wq + "DTO\n}\n"
				}
				tree[c.srcPkg+"/"+file+".go"] = src
				// assertions against the declared API
				srcAlias := "s" + c.srcPkg
				outAlias := "out"
				if own {
					outAlias = srcAlias
				}
				if c.kind == "struct" {
					// the interface itself is the declared API
				} else if wrappersInModel {
					wa = use(mod+"/"+modelPkg, "mdl") + "." + w
				} else {
					wa = use(mod+"/"+c.srcPkg, srcAlias) + "." + w
				}
				switch c.kind {
				case "function":
					checks = append(checks, fmt.Sprintf("var _ func(%[1]s) %[1]sDTO = %[2]s.%[3]s", wa, use(outPath, outAlias), method))
				case "variables":
					checks = append(checks, fmt.Sprintf("var _ func(%[1]s) %[1]sDTO = %[2]s.%[3]s", wa, use(mod+"/"+c.srcPkg, srcAlias), method))
					if _, ok := imports[outPath]; !ok {
						imports[outPath] = "_"
					}
				default:
					checks = append(checks, fmt.Sprintf("var _ %[1]s.C%[2]s = &%[3]s.C%[2]sImpl{}", use(mod+"/"+c.srcPkg, srcAlias), c.name, use(outPath, outAlias)))
				}
				desc = append(desc, c.kind+"/"+c.spell)
			}
			var paths []string
			for p := range imports {
				paths = append(paths, p)
			}
			sort.Strings(paths)
			af := "//go:build !goverter\n\npackage zzcheck\n\nimport (\n"
			for _, p := range paths {
				af += "\t" + imports[p] + " \"" + p + "\"\n"
			}
			af += ")\n\n" + strings.Join(checks, "\n") + "\n"
			asserts[fmt.Sprintf("zzcheck/g%d.go", g)] = af
			kindParts = append(kindParts, fmt.Sprintf("%s(%s)[%s]", dirKind, strings.Join(srcPkgs, "+"), strings.Join(desc, " ")))
		}
		tree[modelPkg+"/"+modelPkg+".go"] = model
		kind := "layout:"
		if rerun {
			kind = "layout-generated-twice:"
		}
		out = append(out, &apiCase{ID: id, Kind: kind + strings.Join(kindParts, ";"), Tree: tree, Asserts: asserts, Rerun: rerun,
			root: filepath.Join(base, fmt.Sprintf("a%d", id))})
	}
	return out
}

// w10c01AddLayouts appends the layout projects to the projects of the campaign.
func w10c01AddLayouts(e *env, r *rng.R, cases []*apiCase, base string) []*apiCase {
	n := 6
	if e.thorough {
		n = 40 * e.scale
	}
	e.rep.Rule += "; (b2) output layouts: per project 3-4 output directories, each written by 2-3 converters (function format, variables blocks, struct format; one or two source packages) into different files, every converter needing the helper for the same nested pair; every ordered pair of output:package spellings (none, PATH, PATH:NAME, :NAME) on a fresh directory, plus directories that already hold a hand-written file (package name = / != directory name), the converters' own package, and a second goverter run over the output of the first; same oracle (success => module + signature assertions compile)"
	return append(cases, w10c01LayoutCases(r.Fork(1001), len(cases), n, base)...)
}
