package main

import (
	"fmt"
	"go/types"
	"path/filepath"
	"regexp"
	"strings"

	"github.com/jmattheis/goverter/method"

	"gvh/internal/drv"
	"gvh/internal/gvx"
	"gvh/internal/scratch"
	"gvh/internal/sx"
)

// Both context mechanisms on ONE signature.  A parameter is a context when its name matches the `arg:context:regex` in
// effect OR when it is declared with `goverter:context NAME` (on the method for converter methods / function variables,
// in the function's own doc comment for extend, map|FUNC and default functions); the two are independent of each other,
// so a signature may use the pattern for one parameter and a declaration for another one.  The profiles of c14.go had
// one of the two mechanisms each; these have both (alphabet: `ctx`, `ctxB` match the pattern, `lc` is declared).
var sigProfilesBoth = []sigProfile{
	{Name: "converter-method-ctxregex+localctx", Params: method.ParamsRequired, Generated: true, Regex: "^ctx", LocalCtx: []string{"lc"}},
	{Name: "converter-method-update-ctxregex+localctx", Params: method.ParamsRequired, Generated: true, Update: "target", Regex: "^ctx", LocalCtx: []string{"lc"}},
	{Name: "extend-ctxregex+localctx", Params: method.ParamsRequired, UseConv: true, Regex: "^ctx", LocalCtx: []string{"lc"}},
	{Name: "map-func-ctxregex+localctx", Params: method.ParamsOptional, AllowTP: true, UseConv: true, Regex: "^ctx", LocalCtx: []string{"lc"}},
	{Name: "default-ctxregex+localctx", Params: method.ParamsOptional, AllowTP: true, UseConv: true, Regex: "^ctx", LocalCtx: []string{"lc"}},
}

func init() {
	sigProfiles = append(sigProfiles, sigProfilesBoth...)
}

// sigGridSkip thins the grid of the combined profiles: the object kind and the error look-alikes / result counts are
// independent of the context classification and are walked by the single-mechanism profiles; the combined ones walk
// every parameter list over function objects with <=2 results over {Out, error, named error, int}.
func sigGridSkip(prof sigProfile, objKind string, rs []string) bool {
	if !strings.HasSuffix(prof.Name, "-ctxregex+localctx") {
		return false
	}
	if objKind != "func" || len(rs) > 2 {
		return true
	}
	for _, r := range rs {
		if strings.HasPrefix(r, "errl") {
			return true
		}
	}
	return false
}

// ---- end to end: pattern and declarations on one signature, through the real configuration stage ----

type bothParam struct{ Name, Type string }

type bothCase struct {
	ID       int
	Kind     string // method | funcvar | default | mapfunc | extend
	Level    string // where `arg:context:regex ^ctx` is written: cli | conv | meth
	Params   []bothParam
	Declared []string // `goverter:context NAME` lines: on the method (method, funcvar) or in the function's doc comment
	ConvName string
	FuncNam  string
}

const bothPattern = "^ctx"

func (c *bothCase) paramList() string {
	var ps []string
	for _, p := range c.Params {
		ps = append(ps, p.Name+" "+p.Type)
	}
	return strings.Join(ps, ", ")
}

func (c *bothCase) contextLines(indent string) string {
	var b strings.Builder
	for _, d := range c.Declared {
		b.WriteString(indent + "// goverter:context " + d + "\n")
	}
	return b.String()
}

// source is the declaration of the case: for funcvar a whole file (one variables block per file), otherwise a fragment of p.go
func (c *bothCase) source() string {
	pat := "// goverter:arg:context:regex " + bothPattern + "\n"
	var b strings.Builder
	if c.Kind == "funcvar" {
		b.WriteString("package p\n\n// goverter:variables\n")
		if c.Level == "conv" {
			b.WriteString(pat)
		}
		b.WriteString("var (\n")
		if c.Level == "meth" {
			b.WriteString("\t" + pat)
		}
		b.WriteString(c.contextLines("\t"))
		fmt.Fprintf(&b, "\t// goverter:ignore C\n\t%s func(%s) Out\n)\n", c.ConvName, c.paramList())
		return b.String()
	}
	b.WriteString("// goverter:converter\n")
	if c.Level == "conv" {
		b.WriteString(pat)
	}
	if c.Kind == "extend" {
		b.WriteString("// goverter:extend " + c.FuncNam + "\n")
	}
	fmt.Fprintf(&b, "type %s interface {\n", c.ConvName)
	if c.Level == "meth" {
		b.WriteString("\t" + pat)
	}
	switch c.Kind {
	case "method":
		b.WriteString(c.contextLines("\t"))
		fmt.Fprintf(&b, "\t// goverter:ignore C\n\tConvert(%s) Out\n}\n\n", c.paramList())
		return b.String()
	case "default":
		b.WriteString("\t// goverter:default " + c.FuncNam + "\n\t// goverter:ignore C\n")
	case "mapfunc":
		b.WriteString("\t// goverter:map . C | " + c.FuncNam + "\n")
	case "extend":
		b.WriteString("\t// goverter:ignore C\n")
	}
	b.WriteString("\tConvert(source In) Out\n}\n\n")
	b.WriteString(c.contextLines(""))
	switch c.Kind {
	case "default":
		fmt.Fprintf(&b, "func %s(%s) Out { return Out{} }\n\n", c.FuncNam, c.paramList())
	case "mapfunc":
		fmt.Fprintf(&b, "func %s(%s) string { return \"\" }\n\n", c.FuncNam, c.paramList())
	case "extend":
		fmt.Fprintf(&b, "func %s(%s) Y { return Y{} }\n\n", c.FuncNam, c.paramList())
	}
	return b.String()
}

func runC14Both(e *env) error {
	e.rep.Rule += "; both context mechanisms on one signature: (a) 5 further ParseOpts profiles of the in-memory grid with arg:context:regex AND a declared context together (converter method, update method, extend, map|FUNC, default; every parameter list, function objects, <=2 base results); (b) end to end: the signature of a converter method, a function variable, a default constructor, a map|FUNC function or an extend function = every ordered selection of 1..3 (thorough: 1..4) of {source, ctxA int, plain string, extra uint} x every non-empty set of its non-source parameters declared with `goverter:context NAME` (method lines, resp. the function's doc comment) x `arg:context:regex ^ctx` written on the command line / converter / method (before the line naming the function): function definitions of the real configuration stage vs Gv.Signature.parse (consumer request for methods and function variables, sig request with the consumer's profile plus the function's own declarations for functions)"
	letters := []bothParam{{"source", "In"}, {"ctxA", "int"}, {"plain", "string"}, {"extra", "uint"}}
	maxLen := 3
	if e.thorough {
		maxLen = 4
	}
	var lists [][]bothParam
	var rec func(cur []bothParam, used int)
	rec = func(cur []bothParam, used int) {
		if len(cur) > 0 {
			lists = append(lists, append([]bothParam{}, cur...))
		}
		if len(cur) == maxLen {
			return
		}
		for i, l := range letters {
			if used&(1<<i) == 0 {
				rec(append(cur, l), used|1<<i)
			}
		}
	}
	rec(nil, 0)
	var cases []*bothCase
	for _, kind := range []string{"method", "funcvar", "default", "mapfunc", "extend"} {
		for _, level := range []string{"cli", "conv", "meth"} {
			if kind == "extend" && level == "meth" {
				continue // an extend function is loaded with the converter's pattern
			}
			for _, ps := range lists {
				var cand []string
				for _, p := range ps {
					if p.Name != "source" {
						cand = append(cand, p.Name)
					}
				}
				for mask := 1; mask < 1<<len(cand); mask++ {
					var decl []string
					for i, n := range cand {
						if mask&(1<<i) != 0 {
							decl = append(decl, n)
						}
					}
					c := &bothCase{ID: len(cases), Kind: kind, Level: level, Declared: decl}
					for _, p := range ps {
						if p.Name == "source" && kind == "extend" {
							p.Type = "X"
						}
						c.Params = append(c.Params, p)
					}
					c.ConvName = fmt.Sprintf("Conv%d", c.ID)
					c.FuncNam = fmt.Sprintf("Fn%d", c.ID)
					cases = append(cases, c)
				}
			}
		}
	}
	rx := regexp.MustCompile(bothPattern)
	profOf := map[string]sigProfile{}
	for _, p := range sigProfiles {
		profOf[p.Name] = p
	}
	kindProfile := map[string]string{"default": "default", "mapfunc": "map-func", "extend": "extend"}
	mode := map[method.ParamType]string{method.ParamsRequired: "required", method.ParamsOptional: "optional", method.ParamsNone: "none"}

	var reqs, impl []*sx.Node
	var descr []*bothCase
	for _, cli := range []bool{false, true} {
		var group []*bothCase
		for _, c := range cases {
			if (c.Level == "cli") == cli {
				group = append(group, c)
			}
		}
		root := filepath.Join(e.scratch, "c14both", fmt.Sprint(cli))
		var src strings.Builder
		src.WriteString("package p\n\ntype In struct{ A int }\ntype Out struct {\n\tA int\n\tC string\n}\ntype X struct{ V int }\ntype Y struct{ V int }\n\n")
		tree := scratch.Tree{"go.mod": "module example.org/both\n\ngo 1.18\n"}
		for _, c := range group {
			if c.Kind == "funcvar" {
				tree[fmt.Sprintf("p/vars%d.go", c.ID)] = c.source()
			} else {
				src.WriteString(c.source())
			}
		}
		tree["p/p.go"] = src.String()
		if err := scratch.Write(root, tree); err != nil {
			return err
		}
		var global []string
		if cli {
			global = []string{"arg:context:regex " + bothPattern}
		}
		b := gvx.RunBatch(root, gvx.Options{Patterns: []string{"./p"}, Global: global})
		if b.DocsErr != nil || b.LoadErr != nil {
			return fmt.Errorf("c14both: scratch package does not load: %v %v", b.DocsErr, b.LoadErr)
		}
		if pk := b.Pkgs["example.org/both/p"]; pk == nil || len(pk.Errors) > 0 {
			return fmt.Errorf("c14both: scratch package has errors")
		}
		byKey := map[string]*gvx.ConvOutcome{}
		for _, oc := range b.Outcomes {
			k := oc.Raw.InterfaceName
			if k == "" {
				k = "vars@" + strings.TrimSuffix(filepath.Base(oc.Raw.FileName), ".go")
			}
			byKey[k] = oc
		}
		for _, c := range group {
			key := c.ConvName
			if c.Kind == "funcvar" {
				key = fmt.Sprintf("vars@vars%d", c.ID)
			}
			oc := byKey[key]
			if oc == nil {
				return fmt.Errorf("c14both: converter %s not found", key)
			}
			// the raw signature from the harness' own load
			var sig *types.Signature
			switch c.Kind {
			case "method":
				it := b.Lookup("example.org/both/p", c.ConvName).Type().Underlying().(*types.Interface)
				sig = it.Method(0).Type().(*types.Signature)
			case "funcvar":
				sig = b.Lookup("example.org/both/p", c.ConvName).Type().(*types.Signature)
			default:
				sig = b.Lookup("example.org/both/p", c.FuncNam).Type().(*types.Signature)
			}
			var names []string
			for i := 0; i < sig.Params().Len(); i++ {
				names = append(names, sig.Params().At(i).Name())
			}
			var im *sx.Node
			switch {
			case oc.Stage == "config":
				im = sx.H("err", sx.A(classifyParseErr(strings.TrimSpace(lastLine(oc.Err)))))
			case oc.Conv == nil || len(oc.Conv.Methods) != 1:
				im = sx.H("err", sx.A("no-config:"+oc.Stage))
			default:
				m := oc.Conv.Methods[0]
				var def *method.Definition
				switch c.Kind {
				case "method", "funcvar":
					def = m.Definition
				case "default":
					def = m.Constructor
				case "mapfunc":
					if f := m.Fields["C"]; f != nil {
						def = f.Function
					}
				case "extend":
					if len(oc.Conv.Extend) == 1 {
						def = oc.Conv.Extend[0]
					}
				}
				if def == nil {
					im = sx.H("err", sx.A("definition-missing"))
				} else {
					im = defToSx(def, names)
				}
			}
			pn, rxn := sx.H("params"), sx.H("rx")
			fn := c.Kind != "method" && c.Kind != "funcvar"
			for i := 0; i < sig.Params().Len(); i++ {
				p := sig.Params().At(i)
				match := rx.MatchString(p.Name())
				// consumer request: the model resolves the pattern in effect from the three levels and the rx oracle answers;
				// sig request: the pattern is written on exactly one level that applies to the consumer
				pn.Add(sx.H("p", sx.S(p.Name()), sx.S(p.Type().String()), sx.B(false), sx.B(fn && match)))
				rxn.Add(sx.H("m", sx.S(bothPattern), sx.S(p.Name()), sx.B(match)))
			}
			rn := sx.H("results")
			for i := 0; i < sig.Results().Len(); i++ {
				t := sig.Results().At(i).Type()
				rn.Add(sx.H("r", sx.S(t.String()), sx.B(t.String() == "error")))
			}
			obj := sx.H("obj", sx.H("accessible", sx.B(true)), sx.H("func", sx.B(true)), sx.H("typeparams", sx.B(false)), pn, rn)
			var req *sx.Node
			if fn {
				prof := profOf[kindProfile[c.Kind]]
				req = sx.H("sig", sx.I(len(reqs)),
					sx.H("opts", sx.H("params", sx.A(mode[prof.Params])), sx.H("multi", sx.B(prof.Multi)), sx.H("allowtp", sx.B(prof.AllowTP)), sx.H("update", sx.S("")), sx.Strs("localctx", c.Declared)),
					obj)
			} else {
				lvl := func(k string) *sx.Node {
					if c.Level != k {
						return sx.H(k)
					}
					return sx.H(k, sx.S(bothPattern))
				}
				req = sx.H("consumer", sx.I(len(reqs)), sx.H("kind", sx.A("method")), lvl("cli"), lvl("conv"), lvl("meth"),
					sx.H("update", sx.S("")), sx.Strs("localctx", c.Declared), rxn, obj)
			}
			reqs = append(reqs, req)
			impl = append(impl, im)
			descr = append(descr, c)
			e.rep.Count("both." + c.Kind + "." + im.Head())
			e.rep.Nontrivial(req.String())
		}
	}
	answers, err := drv.Run(reqs)
	if err != nil {
		return err
	}
	e.rep.Eval(len(reqs))
	// the report keeps 2 replay files per class and 12 per run: one mismatch per kind and level first, then the rest
	var first, rest []int
	seen := map[string]bool{}
	for i, a := range answers {
		sortCtx(a)
		if a.String() != impl[i].String() {
			if k := descr[i].Kind + "/" + descr[i].Level; !seen[k] {
				seen[k] = true
				first = append(first, i)
			} else {
				rest = append(rest, i)
			}
		}
		if i%401 == 0 {
			e.rep.Sample(map[string]any{"case": descr[i], "answer": impl[i].String()})
		}
	}
	for _, i := range append(first, rest...) {
		c := descr[i]
		cli := ""
		if c.Level == "cli" {
			cli = "arg:context:regex " + bothPattern
		}
		e.rep.Violation("context-regex-and-declaration:"+c.Kind, map[string]any{"case": c, "go_source": c.source(), "cli_global": cli, "implementation": impl[i].String(), "model": answers[i].String(),
			"broken": "correspondence " + e.prop + ": a parameter is a context when it matches the arg:context:regex in effect OR is declared with goverter:context; the definitions of the real configuration stage vs Gv.Signature.parse"}, false)
	}
	return nil
}
