package main

import (
	"fmt"
	"os"
	"path/filepath"
	"strings"
	"sync"
	"time"

	"gvh/internal/drv"
	"gvh/internal/proj"
	"gvh/internal/rng"
	"gvh/internal/scratch"
	"gvh/internal/sx"
)

// C17 (c): faults in the SETTINGS of a converter (converter-level lines and -g lines), carried by every shape of
// converter declaration, including the ones that emit no code: a goverter:variables block without variables (`var ()`,
// or one whose entries are commented out) and an interface without methods (struct and function output format), with and
// without healthy settings around the faulty line ("the faulty line is the only content of the converter").
//
// Whether the settings of a converter resolve is answered by the model (Gv.Settings.resolveMethod through the driver's
// `resolve` request, the same one C12 uses): the -g lines followed by the converter's lines, for the converter's kind.
// The run of the binary must fail (exit 1, a diagnostic naming the key of a failing line, no file created, changed or
// removed) iff the model rejects the settings of at least one selected converter; otherwise it must succeed, print nothing
// on stderr and write every output file completely (files of an earlier run that were tampered with are rewritten).

type w10Conv struct {
	Dir   string   `json:"dir"`
	File  string   `json:"file"`
	Shape string   `json:"shape"` // iface, vars, emptyvars, commentedvars, emptyiface
	Name  string   `json:"name"`
	Lines []string `json:"lines"`          // converter-level lines, in order
	Cand  int      `json:"candidate_line"` // index in Lines of the line under test, -1 = none
}

func (c *w10Conv) vars() bool { return strings.HasSuffix(c.Shape, "vars") }
func (c *w10Conv) empty() bool {
	return c.Shape != "iface" && c.Shape != "vars"
}

type w10Case struct {
	ID     int        `json:"id"`
	Module string     `json:"module"`
	Convs  []*w10Conv `json:"converters"`
	Global []string   `json:"global_lines"` // -g lines of the run under test
	Args   []string   `json:"args"`
	Prior  string     `json:"prior"` // "", "generated" (run of the variant without the lines under test), "stale" (the same, then every generated file is tampered with)
	root   string
}

func (rc *w10Case) project(withCand bool) *proj.Project {
	p := &proj.Project{Module: rc.Module}
	for i, c := range rc.Convs {
		pc := &proj.Conv{Dir: c.Dir, File: c.File, Vars: c.vars(), Name: c.Name}
		for j, l := range c.Lines {
			if j == c.Cand && !withCand {
				continue
			}
			pc.Lines = append(pc.Lines, l)
		}
		switch c.Shape {
		case "iface":
			pc.RawBody = fmt.Sprintf("\tConvert%d(source In) Out\n", i)
		case "vars":
			pc.RawBody = fmt.Sprintf("\t%s func(source In) Out\n", c.Name)
		case "commentedvars":
			pc.RawBody = fmt.Sprintf("\t// %s func(source In) Out\n", c.Name)
		default:
			pc.RawBody = "\n"
		}
		p.Convs = append(p.Convs, pc)
	}
	return p
}

func (rc *w10Case) args(withCand bool) []string {
	av := []string{"gen"}
	if withCand {
		for _, g := range rc.Global {
			av = append(av, "-g", g)
		}
	}
	return append(av, rc.Args...)
}

// lines that are fine on every kind of converter
var w10Healthy = []string{"skipCopySameType", "ignoreMissing no", "wrapErrors yes", "matchIgnoreCase", "enum no", "ignoreUnexported",
	"useZeroValueOnPointerInconsistency", "output:raw // note", "enum:unknown @panic", "useUnderlyingTypeMethods yes"}

// lines under test: rejected for every kind, or for one kind only (the model decides)
var w10Universal = []string{"wrapErrors maybe", "extend DoesNotExist", "bogusSetting yes", "output:format bogus", "skipCopySameType maybe",
	"enum:unknown", "wrapErrorsUsing", "ignoreMissing YES", "output:file", "output:package a b", "enum:exclude a:", "arg:context:regex c(",
	"enum maybe", "wrapErrors yes no", "name", "output:format", "wrapErrorsUsing a b", "bogus"}
var w10KindSpecific = []string{"name Named", "struct:comment note", "output:format struct", "output:format function", "output:format assign-variable"}

const w10C17Stale = "\n// tampered with after the earlier run\n"

func w10C17(e *env, bin, base string, r *rng.R) error {
	e.rep.Rule += "; (c) runs of the binary on scratch modules with 1-4 converters of every shape (interface, variables block, variables block without variables, interface without methods in both output formats) where converter-level lines or -g lines taken from pools of valid, invalid and kind-specific settings are placed on every shape in turn (alone or among healthy lines), with and without (tampered) output files of an earlier run: exit status, diagnostic key, tree snapshot before/after vs Gv.Cli.run with generate decided by Gv.Settings.resolveMethod per selected converter"
	nRuns := 40
	if e.thorough {
		nRuns = 400
	}
	shapes := []string{"emptyvars", "emptyiface", "commentedvars", "vars", "iface"}
	var cases []*w10Case
	for i := 0; i < nRuns; i++ {
		rc := &w10Case{ID: i, Module: fmt.Sprintf("example.org/s%d", i), Args: []string{"./..."}, root: filepath.Join(base, fmt.Sprintf("s%d", i))}
		n := 1 + r.Intn(4)
		twoPkgs := r.Chance(50)
		for j := 0; j < n; j++ {
			c := &w10Conv{Dir: "a", File: fmt.Sprintf("conv%d.go", j%2), Name: fmt.Sprintf("Conv%d", j), Cand: -1}
			c.Shape = rng.Pick(r, []string{"iface", "iface", "vars", "emptyvars", "commentedvars", "emptyiface"})
			if twoPkgs && r.Bool() {
				c.Dir = "b"
			}
			for k := r.Intn(3); k > 0; k-- {
				c.Lines = append(c.Lines, rng.Pick(r, w10Healthy))
			}
			if c.Shape == "emptyiface" && r.Bool() {
				c.Lines = append([]string{"output:format function"}, c.Lines...)
			}
			rc.Convs = append(rc.Convs, c)
		}
		// the carrier of the line under test: every shape in turn, at a seeded position among the others
		carrier := rc.Convs[r.Intn(n)]
		carrier.Shape = shapes[i%len(shapes)]
		if carrier.Shape != "emptyiface" {
			for len(carrier.Lines) > 0 && carrier.Lines[0] == "output:format function" {
				carrier.Lines = carrier.Lines[1:]
			}
		}
		cand := rng.Pick(r, w10Universal)
		if r.Chance(35) {
			cand = rng.Pick(r, w10KindSpecific)
			if cand == "name Named" {
				cand = fmt.Sprintf("name Named%d", i)
			}
		}
		switch mode := (i / len(shapes)) % 4; mode {
		case 0, 1: // converter level
			if mode == 1 {
				carrier.Lines = nil // the line under test is the only content
				if carrier.Shape == "emptyiface" && r.Bool() {
					carrier.Lines = []string{"output:format function"}
				}
			}
			at := r.Intn(len(carrier.Lines) + 1)
			if len(carrier.Lines) > 0 && carrier.Lines[0] == "output:format function" && at == 0 {
				at = 1
			}
			carrier.Lines = append(carrier.Lines[:at:at], append([]string{cand}, carrier.Lines[at:]...)...)
			carrier.Cand = at
			if r.Chance(25) { // a second converter with a line under test
				o := rc.Convs[r.Intn(n)]
				if o.Cand < 0 {
					o.Lines = append(o.Lines, rng.Pick(r, w10Universal))
					o.Cand = len(o.Lines) - 1
				}
			}
		case 2: // command line
			if strings.HasPrefix(cand, "name ") {
				// one name for several interfaces is not the subject here: the line is rejected by a variables block only
				if !carrier.vars() {
					carrier.Shape = "emptyvars"
					for len(carrier.Lines) > 0 && carrier.Lines[0] == "output:format function" {
						carrier.Lines = carrier.Lines[1:]
					}
				}
			}
			rc.Global = []string{cand}
			if r.Chance(30) {
				rc.Global = append([]string{rng.Pick(r, w10Healthy)}, rc.Global...)
			}
		case 3: // nothing under test: a successful run over the same shapes
		}
		if r.Chance(25) {
			// only the package of the carrier is selected
			rc.Args = []string{"./" + carrier.Dir}
			var keep []*w10Conv
			for _, c := range rc.Convs {
				if c.Dir == carrier.Dir {
					keep = append(keep, c)
				}
			}
			rc.Convs = keep
		}
		rc.Prior = rng.Pick(r, []string{"", "generated", "stale", "stale"})
		cases = append(cases, rc)
	}

	// the model: do the settings of every converter resolve?
	type ref struct {
		rc, conv int
		prior    bool
	}
	var reqs []*sx.Node
	var refs []ref
	for i, rc := range cases {
		for j, c := range rc.Convs {
			sc := &settingsCase{Vars: c.vars(), CLI: rc.Global, Conv: c.Lines}
			reqs = append(reqs, settingsReq(len(reqs), sc))
			refs = append(refs, ref{i, j, false})
			if rc.Prior != "" {
				// the variant of the earlier run: without the lines under test
				reqs = append(reqs, settingsReq(len(reqs), &settingsCase{Vars: c.vars(), Conv: rc.project(false).Convs[j].Lines}))
				refs = append(refs, ref{i, j, true})
			}
		}
	}
	answers, err := drv.Run(reqs)
	if err != nil {
		return err
	}
	modelKeys := make([][]string, len(cases)) // keys of the failing lines, one per rejected converter
	modelAns := make([][]string, len(cases))
	for k, a := range answers {
		i := refs[k].rc
		if refs[k].prior {
			if a.Head() != "ok" {
				return fmt.Errorf("C17 settings carriers: the model rejects the variant without the lines under test: %s for %s", a.String(), reqs[k].String())
			}
			continue
		}
		if a.Head() == "err" && len(a.Args()) >= 2 {
			modelKeys[i] = append(modelKeys[i], a.Args()[1].S)
			modelAns[i] = append(modelAns[i], fmt.Sprintf("%s: %s", cases[i].Convs[refs[k].conv].Name, a.String()))
		} else if a.Head() != "ok" {
			return fmt.Errorf("C17 settings carriers: unexpected driver answer %s to %s", a.String(), reqs[k].String())
		}
	}

	type obs struct {
		res                       scratch.Result
		created, changed, removed []string
		staleLeft                 []string
		priorFail                 *scratch.Result
		err                       error
	}
	out := make([]obs, len(cases))
	var wg sync.WaitGroup
	sem := make(chan struct{}, 12)
	for i, rc := range cases {
		wg.Add(1)
		go func(i int, rc *w10Case) {
			defer wg.Done()
			sem <- struct{}{}
			defer func() { <-sem }()
			o := &out[i]
			var tampered []string
			if rc.Prior != "" {
				if o.err = scratch.Write(rc.root, rc.project(false).Tree()); o.err != nil {
					return
				}
				before, _ := scratch.Snapshot(rc.root)
				res := scratch.Run(bin, rc.root, rc.args(false), nil, 120*time.Second)
				if res.Exit != 0 || res.TimedOut {
					o.priorFail = &res
					return
				}
				if rc.Prior == "stale" {
					after, _ := scratch.Snapshot(rc.root)
					created, _, _ := scratch.Diff(before, after)
					for _, p := range created {
						if after[p].Dir {
							continue
						}
						full := filepath.Join(rc.root, filepath.FromSlash(p))
						b, err := os.ReadFile(full)
						if err == nil {
							err = os.WriteFile(full, append(b, w10C17Stale...), 0o644)
						}
						if err != nil {
							o.err = err
							return
						}
						tampered = append(tampered, p)
					}
				}
			}
			if o.err = scratch.Write(rc.root, rc.project(true).Tree()); o.err != nil {
				return
			}
			before, _ := scratch.Snapshot(rc.root)
			o.res = scratch.Run(bin, rc.root, rc.args(true), nil, 120*time.Second)
			after, _ := scratch.Snapshot(rc.root)
			o.created, o.changed, o.removed = scratch.Diff(before, after)
			for _, p := range tampered {
				if b, err := os.ReadFile(filepath.Join(rc.root, filepath.FromSlash(p))); err == nil && strings.HasSuffix(string(b), w10C17Stale) {
					o.staleLeft = append(o.staleLeft, p)
				}
			}
		}(i, rc)
	}
	wg.Wait()
	e.rep.Eval(len(cases))
	for i, rc := range cases {
		o := out[i]
		if o.err != nil {
			return o.err
		}
		faulty := len(modelKeys[i]) > 0
		mode := "none"
		if len(rc.Global) > 0 {
			mode = "global"
		} else {
			for _, c := range rc.Convs {
				if c.Cand >= 0 {
					mode = "converter"
				}
			}
		}
		e.rep.Count(fmt.Sprintf("settings.mode=%s.faulty=%v.prior=%s", mode, faulty, rc.Prior))
		for _, c := range rc.Convs {
			if c.Cand >= 0 || len(rc.Global) > 0 {
				e.rep.Count("settings.carrier=" + c.Shape)
			}
		}
		if mode != "none" {
			e.rep.Nontrivial(fmt.Sprintf("settings:%v:%v:%v", rc.Convs, rc.Global, rc.Args))
		}
		fail := func(why string, res scratch.Result) {
			e.rep.Violation("", map[string]any{"case": rc, "tree": rc.project(true).Tree(), "argv": rc.args(true), "model": modelAns[i], "why": why, "exit": res.Exit,
				"stderr": scratch.Relativise(rc.root, truncate(res.Stderr, 1200)), "created": o.created, "changed": o.changed, "removed": o.removed,
				"stale_files_left": o.staleLeft,
				"broken": "C17: Gv.Cli.run with generate = Gv.Settings.resolveMethod on every selected converter vs a run of the goverter binary"}, false)
		}
		if o.priorFail != nil {
			fail("the settings of every converter resolve in the model (variant without the lines under test) but the run failed", *o.priorFail)
			continue
		}
		named := false
		for _, k := range modelKeys[i] {
			if strings.Contains(o.res.Stderr, "'goverter:"+k+"'") {
				named = true
			}
		}
		var nonEmpty bool
		for _, c := range rc.Convs {
			nonEmpty = nonEmpty || !c.empty()
		}
		switch {
		case o.res.TimedOut:
			fail("timeout", o.res)
		case faulty && o.res.Exit != 1:
			fail(fmt.Sprintf("the model rejects the settings of a selected converter but the exit status is %d", o.res.Exit), o.res)
		case faulty && !named:
			fail("the diagnostic names none of the failing settings", o.res)
		case faulty && len(o.created)+len(o.changed)+len(o.removed) > 0:
			fail("a failing run created, changed or removed files", o.res)
		case !faulty && o.res.Exit != 0:
			fail("the settings of every converter resolve in the model but the run failed", o.res)
		case !faulty && strings.TrimSpace(o.res.Stderr) != "":
			fail("successful run printed on stderr", o.res)
		case !faulty && rc.Prior == "" && nonEmpty && len(o.created) == 0:
			fail("successful run wrote nothing", o.res)
		case !faulty && len(o.staleLeft) > 0:
			fail("successful run left an output file of the earlier run as it was", o.res)
		}
		if i%9 == 0 {
			e.rep.Sample(map[string]any{"settings_carriers": rc.Convs, "global": rc.Global, "args": rc.Args, "prior": rc.Prior, "model": modelAns[i], "exit": o.res.Exit, "created": o.created})
		}
	}
	return nil
}
