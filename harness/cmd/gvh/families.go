package main

import (
	"fmt"
	"strings"

	"gvh/internal/rng"
)

// A family is a parameterised template of types + custom functions + converter interfaces exercising one mechanism.
type famOut struct {
	Types  string
	Custom string
	Convs  map[string]string
	Order  []string
	FailOn [][2]string
	// further packages of the scratch module: relative file path -> full source; TypeImports are import specs
	// (`alias "MODULE/dir"`) of p/types.go and p/conv.go
	Pkgs        map[string]string
	TypeImports []string
	// declarations put into p/conv.go (which gets the same imports) so that every import is used there
	ConvAnchors []string
}

func (f *famOut) add(name, src string) {
	if f.Convs == nil {
		f.Convs = map[string]string{}
	}
	f.Convs[name] = src
	f.Order = append(f.Order, name)
}

func merge(fs ...*famOut) *famOut {
	out := &famOut{Convs: map[string]string{}}
	for _, f := range fs {
		out.Types += f.Types
		out.Custom += f.Custom
		for _, n := range f.Order {
			out.add(n, f.Convs[n])
		}
		out.FailOn = append(out.FailOn, f.FailOn...)
		for k, v := range f.Pkgs {
			if out.Pkgs == nil {
				out.Pkgs = map[string]string{}
			}
			out.Pkgs[k] = v
		}
		out.TypeImports = append(out.TypeImports, f.TypeImports...)
		out.ConvAnchors = append(out.ConvAnchors, f.ConvAnchors...)
	}
	return out
}

func (f *famOut) batch(tag string, vals int) *k2Batch {
	return &k2Batch{Tag: tag, Types: f.Types, Extra: f.Custom, Convs: f.Convs, Order: f.Order, FailOn: f.FailOn, ValModes: vals, Share: 20,
		Pkgs: f.Pkgs, TypeImports: f.TypeImports, ConvAnchors: f.ConvAnchors}
}

var wrapModes = []string{"", "wrapErrors", "wrapErrorsUsing MODULE/wrap"}

// famExtend: extend functions and declared methods reused at every depth, contexts, errors (C06, C07).
func famExtend(r *rng.R, id int) *famOut {
	p := fmt.Sprintf("X%d", id)
	f := &famOut{}
	fallible := r.Chance(60)
	withCtx := r.Chance(40)
	selfArg := r.Chance(25)
	srcKind := rng.Pick(r, []string{"struct", "int", "string"})
	var aDecl string
	switch srcKind {
	case "struct":
		aDecl = fmt.Sprintf("type %sA struct {\n\tV int\n\tW string\n}\n", p)
	case "int":
		aDecl = fmt.Sprintf("type %sA int\n", p)
	default:
		aDecl = fmt.Sprintf("type %sA string\n", p)
	}
	// an extend function between IDENTICAL types (T -> T): it must be used at every position, also with skipCopySameType
	withSame := r.Chance(50)
	sameFields, sameInner := "", ""
	if withSame {
		sameFields = fmt.Sprintf("\tS  %[1]sS\n\tPS *%[1]sS\n\tLS []%[1]sS\n", p)
		sameInner = fmt.Sprintf("\tS %[1]sS\n", p)
	}
	f.Types = aDecl + fmt.Sprintf(`type %[1]sB struct {
	Stamp string
}
type %[1]sS struct {
	Stamp string
}
type %[1]sOuter struct {
	X  %[1]sA
	Y  *%[1]sA
	Z  []%[1]sA
	M  map[string]%[1]sA
	MK map[%[1]sA]%[1]sA
	N  %[1]sInner
	Ls []%[1]sInner
%[2]s}
type %[1]sInner struct {
	A %[1]sA
	K int
%[3]s}
type %[1]sOuterT struct {
	X  %[1]sB
	Y  *%[1]sB
	Z  []%[1]sB
	M  map[string]%[1]sB
	MK map[%[1]sB]%[1]sB
	N  %[1]sInnerT
	Ls []%[1]sInnerT
%[2]s}
type %[1]sInnerT struct {
	A %[1]sB
	K int
%[3]s}
type %[1]sRows struct {
	Rows [][]struct {
		A %[1]sA TAG1
		B %[1]sA
	}
	Cube map[string][][]struct {
		A %[1]sA
		B %[1]sA TAG2
		C %[1]sA
	}
}
type %[1]sRowsT struct {
	Rows [][]struct {
		A %[1]sB TAG2
		B %[1]sB
	}
	Cube map[string][][]struct {
		A %[1]sB TAG1
		B %[1]sB
		C %[1]sB TAG2
	}
}
`, p, sameFields, sameInner)
	// field tags are part of the identity of an unnamed struct type: the emitted type literals must carry them verbatim
	tags := []string{"", "`json:\"name\" db:\"name\"`", "`json:\"a,omitempty\"`", "`xml:\"x\"   json:\"y\"`", "`b:\"1\" a:\"\\u00e9\"`", "`free text`", "\"z:\\\"q\\\" a:\\\"b\\\"\""}
	f.Types = strings.ReplaceAll(strings.ReplaceAll(f.Types, " TAG1", " "+rng.Pick(r, tags)), " TAG2", " "+rng.Pick(r, tags))
	// the extend function
	params := []string{"s " + p + "A"}
	args := []string{"s"}
	if withCtx {
		params = append(params, "ctxTag string")
		args = append(args, "ctxTag")
	}
	convIface := p + "C"
	if selfArg {
		params = append([]string{"c " + convIface}, params...)
	}
	ret := p + "B"
	body := fmt.Sprintf("return %sB{Stamp: rt.Stamp(%q, %s)}", p, "Ext"+p, strings.Join(args, ", "))
	if fallible {
		ret = "(" + p + "B, error)"
		body = fmt.Sprintf("if rt.Fails(%[2]q, s) {\n\t\treturn %[1]sB{}, rt.Boom(%[2]q)\n\t}\n\treturn %[1]sB{Stamp: rt.Stamp(%[2]q, %[3]s)}, nil", p, "Ext"+p, strings.Join(args, ", "))
		switch srcKind {
		case "int", "struct":
			f.FailOn = append(f.FailOn, [2]string{"Ext" + p, "13"})
		default:
			f.FailOn = append(f.FailOn, [2]string{"Ext" + p, "poison"})
		}
	}
	doc := ""
	if withCtx {
		doc = "// goverter:context ctxTag\n"
	}
	f.Custom = fmt.Sprintf("%sfunc Ext%s(%s) %s {\n\t%s\n}\n\n", doc, p, strings.Join(params, ", "), ret, body)
	var b strings.Builder
	b.WriteString("// goverter:converter\n// goverter:extend Ext" + p + "\n")
	if withSame {
		sameCtx := withCtx && r.Bool()
		sp, sa, sdoc := "s "+p+"S", "s", ""
		if sameCtx {
			sp, sa, sdoc = sp+", ctxTag string", "s, ctxTag", "// goverter:context ctxTag\n"
		}
		f.Custom += fmt.Sprintf("%[4]sfunc Same%[1]s(%[2]s) %[1]sS {\n\treturn %[1]sS{Stamp: rt.Stamp(%[5]q, %[3]s)}\n}\n\n", p, sp, sa, sdoc, "Same"+p)
		b.WriteString("// goverter:extend Same" + p + "\n")
	}
	wm := rng.Pick(r, wrapModes)
	if wm != "" {
		b.WriteString("// goverter:" + wm + "\n")
	}
	if r.Chance(45) {
		b.WriteString("// goverter:skipCopySameType\n")
	}
	b.WriteString("type " + convIface + " interface {\n")
	ctxP := ""
	if withCtx {
		b.WriteString("")
		ctxP = ", ctxTag string"
	}
	e := ""
	if fallible {
		e = ", error"
	}
	methods := []struct{ name, s, t string }{
		{"Direct", p + "A", p + "B"}, {"Ptr", "*" + p + "A", "*" + p + "B"}, {"Slice", "[]" + p + "A", "[]" + p + "B"},
		{"Map", "map[string]" + p + "A", "map[string]" + p + "B"}, {"MapK", "map[" + p + "A]" + p + "A", "map[" + p + "B]" + p + "B"}, {"Deep", p + "Outer", p + "OuterT"}, {"DeepPtr", "*" + p + "Outer", "*" + p + "OuterT"},
		{"SliceOfPtr", "[]*" + p + "Outer", "[]*" + p + "OuterT"},
		// unnamed structs are converted inline: their fields' error paths extend the enclosing path (3 and 4 elements deep)
		{"Rows", p + "Rows", p + "RowsT"},
	}
	for _, m := range methods {
		if r.Chance(25) {
			continue
		}
		if withCtx {
			b.WriteString("\t// goverter:context ctxTag\n")
		}
		res := m.t
		if fallible && (r.Chance(85) || true) {
			res = "(" + m.t + e + ")"
		}
		pos := "source " + m.s + ctxP
		if withCtx && r.Bool() {
			pos = "ctxTag string, source " + m.s
		}
		b.WriteString("\t" + m.name + "(" + pos + ") " + res + "\n")
	}
	b.WriteString("}\n\n")
	f.add(convIface, b.String())
	return f
}

// famDefault: default constructors and pointer mismatches (C11).
func famDefault(r *rng.R, id int) *famOut {
	p := fmt.Sprintf("D%d", id)
	f := &famOut{}
	f.Types = fmt.Sprintf(`type %[1]sIn struct {
	V int
	W string
	P *int
	L []string
}
type %[1]sOut struct {
	V     int
	W     string
	P     *int
	L     []string
	Extra string
	Keep  int
}
`, p)
	ptrResult := r.Bool()
	withSource := r.Chance(35)
	withErr := r.Chance(30)
	// every 5th instance pins: a constructor returning (T, error) for a value -> pointer method (and the other shapes)
	pinned := id%5 == 2
	if pinned {
		ptrResult, withErr = false, true
	}
	params := ""
	if withSource {
		params = "s " + rng.Pick(r, []string{p + "In", "*" + p + "In"})
	}
	lit := fmt.Sprintf("%sOut{V: 7, W: \"ctor\", Extra: \"ctor\", Keep: 7}", p)
	ret, val := p+"Out", lit
	if ptrResult {
		ret, val = "*"+p+"Out", "&"+lit
	}
	if withErr {
		f.Custom = fmt.Sprintf("func New%s(%s) (%s, error) {\n\treturn %s, nil\n}\n\n", p, params, ret, val)
	} else {
		f.Custom = fmt.Sprintf("func New%s(%s) %s {\n\treturn %s\n}\n\n", p, params, ret, val)
	}
	sigs := [][2]string{{p + "In", p + "Out"}, {"*" + p + "In", "*" + p + "Out"}, {p + "In", "*" + p + "Out"}, {"*" + p + "In", p + "Out"}}
	for i, sg := range sigs {
		if r.Chance(25) && !pinned {
			continue
		}
		if ptrResult && !strings.HasPrefix(sg[1], "*") && r.Chance(85) {
			continue // a pointer constructor for a value target is a (compared) generation error; keep only a few
		}
		var b strings.Builder
		b.WriteString("// goverter:converter\n// goverter:ignoreMissing\n")
		if r.Chance(50) {
			b.WriteString("// goverter:useZeroValueOnPointerInconsistency\n")
		}
		if r.Chance(40) {
			b.WriteString("// goverter:default:update\n")
		}
		// zero-value guards apply when the fields are written onto FUNC's result (default:update, value -> pointer)
		if r.Chance(35) {
			b.WriteString("// goverter:" + rng.Pick(r, []string{"update:ignoreZeroValueField", "update:ignoreZeroValueField:basic", "update:ignoreZeroValueField:nillable"}) + "\n")
		}
		name := fmt.Sprintf("%sC%d", p, i)
		b.WriteString("type " + name + " interface {\n")
		b.WriteString("\t// goverter:default New" + p + "\n")
		if r.Chance(30) {
			b.WriteString("\t// goverter:ignore Keep\n")
		}
		if r.Chance(25) {
			b.WriteString("\t// goverter:default:update " + rng.Pick(r, []string{"yes", "no"}) + "\n")
		}
		if r.Chance(15) {
			b.WriteString("\t// goverter:update:ignoreZeroValueField:basic\n")
		}
		res := sg[1]
		if withErr {
			res = "(" + sg[1] + ", error)"
		}
		b.WriteString(fmt.Sprintf("\tM%d(source %s) %s\n}\n\n", i, sg[0], res))
		f.add(name, b.String())
	}
	// `default FUNC` on a method whose own rule never asks for the constructor (a list, a map of unnamed structs): the
	// setting must not leak into the element conversions (value -> pointer elements of unnamed struct type)
	if id%3 == 1 {
		el := "struct{ A int; B string }"
		shapes := [][3]string{{"[]" + el, "[]*" + el, "[]*" + el}, {"map[string]" + el, "map[string]*" + el, "map[string]*" + el}, {"[]" + el, "[]" + el, "[]" + el}}
		for k, sh := range shapes {
			if r.Chance(35) {
				continue
			}
			fn := fmt.Sprintf("NewL%s%d", p, k)
			f.Custom += fmt.Sprintf("func %s() %s {\n\treturn nil\n}\n\n", fn, sh[2])
			name := fmt.Sprintf("%sL%d", p, k)
			var b strings.Builder
			b.WriteString("// goverter:converter\n")
			if r.Chance(40) {
				b.WriteString("// goverter:default:update\n")
			}
			b.WriteString("type " + name + " interface {\n\t// goverter:default " + fn + "\n")
			b.WriteString(fmt.Sprintf("\tL%d(source %s) %s\n}\n\n", k, sh[0], sh[1]))
			f.add(name, b.String())
		}
	}
	// `default FUNC` (+ default:update) on a method whose POINTEE pair has an extend function / a declared method: the custom
	// conversion is used for the pointee all the same
	if id%3 == 0 {
		f.Types += fmt.Sprintf("type %[1]sQB struct {\n\tStamp string\n}\n", p)
		f.Custom += fmt.Sprintf("func AToB%[1]s(s string) %[1]sQB {\n\treturn %[1]sQB{Stamp: rt.Stamp(%[2]q, s)}\n}\n\nfunc NewB%[1]s() *%[1]sQB {\n\treturn &%[1]sQB{Stamp: \"ctor\"}\n}\n\n", p, "AToB"+p)
		for k, upd := range []string{"", "// goverter:default:update\n"} {
			f.add(fmt.Sprintf("%sQ%d", p, k), fmt.Sprintf("// goverter:converter\n// goverter:extend AToB%[1]s\n// goverter:useZeroValueOnPointerInconsistency\n%[3]stype %[1]sQ%[2]d interface {\n\t// goverter:default NewB%[1]s\n\tPB(source *string) *%[1]sQB\n\t// goverter:default NewB%[1]s\n\tVB(source string) *%[1]sQB\n}\n\n", p, k, upd))
		}
	}
	// `default FUNC` with default:update on pointers whose pointee is NOT a struct (*string, *int, *[]string, *map): the
	// conversion of a non-nil source is written THROUGH FUNC's pointer (the pointer FUNC returned is the one returned)
	if id%3 == 2 {
		shapes := [][3]string{
			{"*string", "*string", "v := \"ctor\"\n\treturn &v"}, {"*int", "*int", "v := 7\n\treturn &v"},
			{"*[]string", "*[]string", "var v []string\n\treturn &v"}, {"*map[string]int", "*map[string]int", "var v map[string]int\n\treturn &v"},
			{"*int", "*int64", ""}}
		for k, sh := range shapes {
			if r.Chance(30) {
				continue
			}
			fn := fmt.Sprintf("NewP%s%d", p, k)
			body := sh[2]
			if body == "" {
				body = "var v int64 = 7\n\treturn &v"
			}
			f.Custom += fmt.Sprintf("func %s() %s {\n\t%s\n}\n\n", fn, sh[1], body)
			name := fmt.Sprintf("%sP%d", p, k)
			var b strings.Builder
			b.WriteString("// goverter:converter\n")
			if r.Chance(70) {
				b.WriteString("// goverter:default:update\n")
			}
			b.WriteString("type " + name + " interface {\n\t// goverter:default " + fn + "\n")
			if r.Chance(25) {
				b.WriteString("\t// goverter:default:update " + rng.Pick(r, []string{"yes", "no"}) + "\n")
			}
			b.WriteString(fmt.Sprintf("\tP%d(source %s) %s\n}\n\n", k, sh[0], sh[1]))
			f.add(name, b.String())
		}
	}
	return f
}

// famUpdate: update methods with zero-value skipping (C10).
func famUpdate(r *rng.R, id int) *famOut { return famUpdateOpt(r, id, false) }

// famUpdateOpt: with uncomparable=true some instances carry a struct field that Go cannot compare (slice member): the
// struct zero guard emitted for it does not compile (known finding D7), so that variant is for generation-only campaigns.
func famUpdateOpt(r *rng.R, id int, uncomparable bool) *famOut {
	p := fmt.Sprintf("U%d", id)
	f := &famOut{}
	// a comparable struct with an array member, identical on both sides: convertible only with skipCopySameType
	withKey := r.Chance(35)
	extra := ""
	if withKey {
		extra += fmt.Sprintf("\tK  %sKey\n", p)
		// arrays passed on unchanged (skipCopySameType, identical types): never nillable, no `!= nil` guard
		if r.Chance(60) {
			extra += fmt.Sprintf("\tID [4]uint8\n\tUID %sUID\n", p)
		}
	}
	withUncmp := uncomparable && r.Chance(50)
	if withUncmp {
		extra += fmt.Sprintf("\tQ  %sUncmp\n", p)
	}
	f.Types = fmt.Sprintf(`type %[1]sIn struct {
	V  int
	W  string
	P  *int
	L  []string
	M  map[string]int
	N  %[1]sNest
	B  bool
%[2]s}
type %[1]sNest struct {
	A int
	S string
}
type %[1]sKey struct {
	ID  [4]uint8
	Ver int
}
type %[1]sUID [16]byte
type %[1]sUncmp struct {
	L []string
	N int
}
type %[1]sOut struct {
	V    int
	W    string
	P    *int
	L    []string
	M    map[string]int
	N    %[1]sNest
	B    bool
	Keep string
	Num  %[1]sB
%[2]s}
type %[1]sB struct {
	Stamp string
}
`, p, extra)
	// a field fed by a custom function that FAILS ON THE ZERO VALUE of its source: under a zero guard it must not be called
	withFn := r.Chance(50)
	fnFallible := r.Chance(70)
	if withFn {
		if fnFallible {
			f.Custom = fmt.Sprintf("func Atoi%[1]s(s string) (%[1]sB, error) {\n\tif rt.Fails(%[2]q, s) {\n\t\treturn %[1]sB{}, rt.Boom(%[2]q)\n\t}\n\treturn %[1]sB{Stamp: rt.Stamp(%[2]q, s)}, nil\n}\n\n", p, "Atoi"+p)
			f.FailOn = append(f.FailOn, [2]string{"Atoi" + p, ""})
		} else {
			f.Custom = fmt.Sprintf("func Atoi%[1]s(s string) %[1]sB {\n\treturn %[1]sB{Stamp: rt.Stamp(%[2]q, s)}\n}\n\n", p, "Atoi"+p)
		}
	}
	if id%5 == 1 || r.Chance(25) {
		privVars(r, f, p, true)
	}
	var b strings.Builder
	b.WriteString("// goverter:converter\n")
	flags := []string{"update:ignoreZeroValueField", "update:ignoreZeroValueField:basic", "update:ignoreZeroValueField:struct", "update:ignoreZeroValueField:nillable", "skipCopySameType"}
	for _, fl := range flags {
		if withKey && fl == "skipCopySameType" {
			b.WriteString("// goverter:skipCopySameType\n")
			continue
		}
		if withKey && fl == "update:ignoreZeroValueField:struct" && r.Chance(60) {
			b.WriteString("// goverter:" + fl + "\n")
			continue
		}
		if r.Chance(25) {
			b.WriteString("// goverter:" + fl + rng.Pick(r, []string{"", " yes", " no"}) + "\n")
		}
	}
	if withKey {
		flags = flags[:4] // skipCopySameType stays on for every method
	}
	b.WriteString("type " + p + "C interface {\n")
	n := 1 + r.Intn(3)
	for i := 0; i < n; i++ {
		b.WriteString("\t// goverter:update target\n\t// goverter:ignore Keep\n")
		if withFn {
			b.WriteString("\t// goverter:map W Num | Atoi" + p + "\n")
		} else {
			b.WriteString("\t// goverter:ignore Num\n")
		}
		for _, fl := range flags {
			if r.Chance(20) {
				b.WriteString("\t// goverter:" + fl + rng.Pick(r, []string{"", " yes", " no"}) + "\n")
			}
		}
		src := rng.Pick(r, []string{p + "In", "*" + p + "In"})
		res := rng.Pick(r, []string{"", " error"})
		if withFn && fnFallible && r.Chance(85) {
			res = " error"
		}
		if r.Bool() {
			b.WriteString(fmt.Sprintf("\tUp%d(source %s, target *%sOut)%s\n", i, src, p, res))
		} else {
			b.WriteString(fmt.Sprintf("\tUp%d(target *%sOut, source %s)%s\n", i, p, src, res))
		}
	}
	// source and target of the SAME struct type, no field setting on the method itself (zero guards come from the
	// converter level or from a :basic/:struct/:nillable part)
	if r.Chance(55) {
		b.WriteString("\t// goverter:update target\n")
		for _, fl := range flags[1:] {
			if r.Chance(25) {
				b.WriteString("\t// goverter:" + fl + "\n")
			}
		}
		src := rng.Pick(r, []string{p + "In", "*" + p + "In"})
		b.WriteString(fmt.Sprintf("\tSame(source %s, target *%sIn)%s\n", src, p, rng.Pick(r, []string{"", " error"})))
	}
	b.WriteString("}\n\n")
	f.add(p+"C", b.String())
	return f
}

// famFields: field settings (C05).
func famFields(r *rng.R, id int) *famOut {
	p := fmt.Sprintf("F%d", id)
	f := &famOut{}
	f.Types = fmt.Sprintf(`type %[1]sIn struct {
	Name    string
	Age     int
	Nested  %[1]sNested
	PNested *%[1]sNested
	PP      *%[1]sDeep
	other   int
	Mixed   string
	MIXED2  string
	Dup     string
	DUP     string
%[2]s}
type %[1]sNested struct {
	Street string
	City   string
	Zip    *int
}
type %[1]sDeep struct {
	Inner *%[1]sNested
	Val   int
}
type %[1]sOut struct {
	FullName string
	Age      int
	Street   string
	City     string
	Zip      *int
	PCity    *string
	DeepZip  *int
	DeepVal  *int
	Whole    %[1]sIn2
	Mixed    string
	Mixed2   string
	Unset    string
	DuP      string
	DUP      string
}
type %[1]sIn2 struct {
	Name string
	Age  int
}
`, p, map[bool]string{true: "\tCITY    string\n", false: ""}[id%4 == 2])
	// (every 4th instance: the source itself has a CASE VARIANT `CITY` of a name that autoMap finds EXACTLY in Nested: under
	// matchIgnoreCase the exact match wins across all field sources)
	if id%7 == 3 {
		// struct settings that are only FLAGS, written on a pointer variant of the pair, while the plain pair is needed
		// elsewhere (slice elements): they would be bypassed by the generated In -> Out method, so generation must fail
		var b strings.Builder
		b.WriteString("// goverter:converter\n// goverter:ignoreMissing\n// goverter:ignoreUnexported\n")
		b.WriteString("type " + p + "C interface {\n")
		flags := []string{"matchIgnoreCase", "ignoreMissing no", "ignoreUnexported no", "update:ignoreZeroValueField"}
		n := 0
		for _, fl := range flags {
			if r.Chance(40) {
				b.WriteString("\t// goverter:" + fl + "\n")
				n++
			}
		}
		if n == 0 {
			b.WriteString("\t// goverter:matchIgnoreCase\n")
		}
		sig := rng.Pick(r, [][2]string{{"*" + p + "In", "*" + p + "Out"}, {"*" + p + "In", p + "Out"}, {p + "In", "*" + p + "Out"}})
		b.WriteString("\tConvert(source " + sig[0] + ") " + sig[1] + "\n")
		if r.Chance(80) {
			b.WriteString("\tList(source []" + p + "In) []" + p + "Out\n")
		}
		b.WriteString("}\n\n")
		f.add(p+"C", b.String())
		return f
	}
	if id%5 == 1 || r.Chance(25) {
		privVars(r, f, p, false)
	}
	var b strings.Builder
	b.WriteString("// goverter:converter\n")
	// every 6th instance pins the combination ignoreMissing x matchIgnoreCase x ambiguous candidates (must be an error)
	pinned := id%6 == 0
	// the instances with the case variant CITY pin: matchIgnoreCase + autoMap Nested (exact City there) + nothing else ambiguous
	pinCity := id%4 == 2 && !pinned
	if pinned || pinCity || r.Chance(50) {
		b.WriteString("// goverter:matchIgnoreCase\n")
	}
	b.WriteString("type " + p + "C interface {\n")
	lines := []string{"map Name FullName"}
	opt := func(pc int, l string) {
		if r.Chance(pc) {
			lines = append(lines, l)
		}
	}
	if r.Bool() || pinCity {
		lines = append(lines, "autoMap Nested")
	} else {
		lines = append(lines, "map Nested.Street Street", "map Nested.City City", "map Nested.Zip Zip")
	}
	opt(85, "map PNested.City PCity")
	opt(85, "map PP.Inner.Zip DeepZip")
	opt(85, "map PP.Val DeepVal")
	opt(85, "map . Whole")
	opt(85, "ignore Unset")
	opt(70, "map MIXED2 Mixed2")
	// DuP has two case-insensitive candidates (Dup, DUP) and no exact one; DUP has an exact one
	if pinned {
		lines = append(lines, "ignoreMissing")
	} else if pinCity {
		lines = append(lines, "ignore DuP")
	} else {
		opt(60, "ignore DuP")
		opt(30, "ignoreMissing")
	}
	opt(10, "autoMap PNested")
	opt(8, "map Nope Unset")
	opt(8, "ignore Nope")
	for _, l := range lines {
		b.WriteString("\t// goverter:" + l + "\n")
	}
	b.WriteString("\tConvert(source " + p + "In) " + p + "Out\n")
	if r.Chance(50) {
		// the same pair through a pointer variant: the settings above must not leak into / be bypassed by it
		b.WriteString("\tList(source []" + p + "In) []" + p + "Out\n")
	}
	if r.Chance(30) {
		b.WriteString("\tPtr(source *" + p + "In) *" + p + "Out\n")
	}
	b.WriteString("}\n\n")
	f.add(p+"C", b.String())
	return f
}

// privVars: a goverter:variables block (its output lands in the package of the structs, where unexported fields are
// accessible): with ignoreUnexported the unexported target fields stay unassigned although they could be named; without it
// they are converted like exported ones (and one without a source is an error).  update=true makes it an update function.
func privVars(r *rng.R, f *famOut, p string, update bool) {
	withCache := r.Chance(35)
	cache := ""
	if withCache {
		cache = "\tcache  int\n"
	}
	f.Types += fmt.Sprintf("type %[1]sPriv struct {\n\tName   string\n\tsecret string\n\ttoken  *int\n}\ntype %[1]sPrivT struct {\n\tName   string\n\tsecret string\n\ttoken  *int\n%[2]s}\n", p, cache)
	var b strings.Builder
	b.WriteString("package p\n\n// goverter:variables\n")
	top := rng.Pick(r, []string{"", "// goverter:ignoreUnexported\n", "// goverter:ignoreUnexported\n", "// goverter:ignoreUnexported no\n"})
	b.WriteString(top + "var (\n")
	switch r.Intn(4) {
	case 0:
		b.WriteString("\t// goverter:ignoreUnexported\n")
	case 1:
		b.WriteString("\t// goverter:ignoreUnexported no\n")
	}
	if withCache && r.Chance(30) {
		b.WriteString("\t// goverter:ignore cache\n")
	}
	if update {
		b.WriteString("\t// goverter:update target\n")
		if r.Chance(40) {
			b.WriteString("\t// goverter:update:ignoreZeroValueField\n")
		}
		b.WriteString(fmt.Sprintf("\tUpPriv%[1]s func(source %[2]s%[1]sPriv, target *%[1]sPrivT)\n", p, rng.Pick(r, []string{"", "*"})))
	} else {
		b.WriteString(fmt.Sprintf("\tConvPriv%[1]s func(source %[1]sPriv) %[1]sPrivT\n", p))
	}
	b.WriteString(")\n")
	if f.Pkgs == nil {
		f.Pkgs = map[string]string{}
	}
	f.Pkgs["p/vars_priv_"+strings.ToLower(p)+".go"] = b.String()
}

// famExtendPkgs: extend functions with the SAME identifier declared in two packages (for two different pairs): both are
// custom implementations of their own pair; selected by one extend line, several lines, or patterns (C06).
func famExtendPkgs(r *rng.R, id int) *famOut {
	p := fmt.Sprintf("G%d", id)
	f := &famOut{}
	xa, xb := strings.ToLower(p)+"xa", strings.ToLower(p)+"xb"
	asString := r.Chance(50)
	pkgSrc := func(pkg string) string {
		if asString {
			return fmt.Sprintf("package %[1]s\n\nimport \"MODULE/rt\"\n\ntype Name string\n\ntype Out string\n\nfunc ToAPI(n Name) Out {\n\treturn Out(rt.Stamp(\"ToAPI\", string(n)))\n}\n\nfunc ToOther(n Name) int {\n\treturn len(n)\n}\n", pkg)
		}
		return fmt.Sprintf("package %[1]s\n\nimport \"MODULE/rt\"\n\ntype Name string\n\ntype Out struct {\n\tStamp string\n}\n\nfunc ToAPI(n Name) Out {\n\treturn Out{Stamp: rt.Stamp(\"ToAPI\", string(n))}\n}\n\nfunc ToOther(n Name) int {\n\treturn len(n)\n}\n", pkg)
	}
	f.Pkgs = map[string]string{xa + "/f.go": pkgSrc(xa), xb + "/f.go": pkgSrc(xb)}
	f.TypeImports = []string{fmt.Sprintf("%q", "MODULE/"+xa), fmt.Sprintf("%q", "MODULE/"+xb)}
	f.ConvAnchors = []string{fmt.Sprintf("var _ = %s.ToAPI", xa), fmt.Sprintf("var _ = %s.ToAPI", xb)}
	f.Types = fmt.Sprintf("type %[1]sIn struct {\n\tOwner   %[2]s.Name\n\tStatus  %[3]s.Name\n\tMembers []%[2]s.Name\n\tByRole  map[string]*%[2]s.Name\n\tHist    []%[3]s.Name\n\tN       %[1]sNest\n}\ntype %[1]sNest struct {\n\tReviewer %[2]s.Name\n\tLast     *%[3]s.Name\n}\ntype %[1]sOut struct {\n\tOwner   %[2]s.Out\n\tStatus  %[3]s.Out\n\tMembers []%[2]s.Out\n\tByRole  map[string]*%[2]s.Out\n\tHist    []%[3]s.Out\n\tN       %[1]sNestT\n}\ntype %[1]sNestT struct {\n\tReviewer %[2]s.Out\n\tLast     *%[3]s.Out\n}\n", p, xa, xb)
	var b strings.Builder
	b.WriteString("// goverter:converter\n")
	ea, eb := "MODULE/"+xa+":ToAPI", "MODULE/"+xb+":ToAPI"
	if r.Bool() {
		ea, eb = eb, ea
	}
	switch r.Intn(4) {
	case 0:
		b.WriteString("// goverter:extend " + ea + " " + eb + "\n")
	case 1:
		b.WriteString("// goverter:extend " + ea + "\n// goverter:extend " + eb + "\n")
	case 2:
		b.WriteString("// goverter:extend " + strings.Replace(ea, ":ToAPI", ":ToA.*", 1) + "\n// goverter:extend " + strings.Replace(eb, ":ToAPI", ":To[AB]PI", 1) + "\n")
	default:
		// the same function mentioned twice, around the other one
		b.WriteString("// goverter:extend " + ea + " " + eb + " " + ea + "\n")
	}
	b.WriteString("type " + p + "C interface {\n\tConvert(source " + p + "In) " + p + "Out\n")
	if r.Bool() {
		b.WriteString("\tList(source []" + p + "In) []" + p + "Out\n")
	}
	b.WriteString("}\n\n")
	f.add(p+"C", b.String())
	return f
}

// famBytes: byte / uint8 and rune / int32 slices (the two spellings are the same basic kinds) at field, element, map value,
// pointer and top-level positions, plain and named: converted by the ordinary element loop, with no helper package (C02, C18).
func famBytes(r *rng.R, id int) *famOut {
	p := fmt.Sprintf("By%d", id)
	f := &famOut{}
	pick := func(a, b string) string {
		if r.Bool() {
			return a
		}
		return b
	}
	var in, out strings.Builder
	fields := []struct{ name, a, b string }{
		{"Raw", "[]byte", "[]byte"}, {"U8", "[]uint8", pick("[]byte", "[]uint8")}, {"M", "map[string][]byte", pick("map[string][]byte", "map[string][]uint8")},
		{"LL", "[][]byte", "[][]byte"}, {"Blob", p + "Blob", pick(p+"Blob", p+"BlobT")}, {"P", "*[]byte", pick("*[]byte", "[]byte")},
		{"Runes", "[]rune", pick("[]rune", "[]int32")}, {"One", "byte", pick("byte", "uint8")}, {"S", "string", "string"},
	}
	for _, fd := range fields {
		if fd.name != "Raw" && r.Chance(25) {
			continue
		}
		in.WriteString("\t" + fd.name + " " + fd.a + "\n")
		out.WriteString("\t" + fd.name + " " + fd.b + "\n")
	}
	f.Types = fmt.Sprintf("type %[1]sBlob []byte\ntype %[1]sBlobT []uint8\ntype %[1]sIn struct {\n%[2]s}\ntype %[1]sOut struct {\n%[3]s}\n", p, in.String(), out.String())
	var b strings.Builder
	b.WriteString("// goverter:converter\n")
	if r.Chance(30) {
		b.WriteString("// goverter:useZeroValueOnPointerInconsistency\n")
	}
	if r.Chance(15) {
		b.WriteString("// goverter:skipCopySameType\n")
	}
	b.WriteString("type " + p + "C interface {\n\tConvert(source " + p + "In) " + p + "Out\n")
	if r.Chance(60) {
		b.WriteString("\tBytes(source []byte) " + pick("[]byte", "[]uint8") + "\n")
	}
	if r.Chance(40) {
		b.WriteString("\tNamed(source " + p + "Blob) " + pick(p+"BlobT", "[]byte") + "\n")
	}
	b.WriteString("}\n\n")
	f.add(p+"C", b.String())
	return f
}

// famEnum: enum conversions (C08).
func famEnum(r *rng.R, id int) *famOut {
	p := fmt.Sprintf("E%d", id)
	f := &famOut{}
	under := rng.Pick(r, []string{"int", "string", "uint8", "string"})
	// member values that only differ late: long strings with a common prefix of 70 characters, floats that agree in
	// their first seven significant digits (distinct values are distinct members)
	longVals := r.Chance(40)
	lit := func(i int) string {
		switch {
		case under == "string" && longVals:
			return fmt.Sprintf("%q", "urn:example:"+strings.Repeat("x", 60)+fmt.Sprintf(":v%d", i))
		case under == "string":
			return fmt.Sprintf("%q", fmt.Sprintf("v%d", i))
		case under == "float64" && longVals:
			return fmt.Sprintf("3.1415926%02d", i)
		case under == "float64":
			return fmt.Sprintf("%d.5", i)
		}
		return fmt.Sprint(i)
	}
	members := []string{"Red", "Green", "Blue"}
	var sb strings.Builder
	sb.WriteString(fmt.Sprintf("type %sSrc %s\n\nconst (\n", p, under))
	for i, m := range members {
		sb.WriteString(fmt.Sprintf("\t%sSrc%s %sSrc = %s\n", p, m, p, lit(i)))
	}
	if r.Chance(40) {
		sb.WriteString(fmt.Sprintf("\t%sSrcAlias %sSrc = %s\n", p, p, lit(0))) // duplicate value
	}
	sb.WriteString(")\n\n")
	sb.WriteString(fmt.Sprintf("type %sTgt %s\n\nconst (\n", p, under))
	for i, m := range members {
		sb.WriteString(fmt.Sprintf("\t%sTgt%s %sTgt = %s\n", p, m, p, lit(i+10)))
	}
	sb.WriteString(fmt.Sprintf("\t%sTgtUnknown %sTgt = %s\n)\n\n", p, p, lit(99)))
	sb.WriteString(fmt.Sprintf("type %[1]sBox struct {\n\tE  %[1]sSrc\n\tEs []%[1]sSrc\n\tM  map[string]%[1]sSrc\n}\ntype %[1]sBoxT struct {\n\tE  %[1]sTgt\n\tEs []%[1]sTgt\n\tM  map[string]%[1]sTgt\n}\n", p))
	// a second enum pair (same member names, two packages) without a declared method of its own, reached from two sibling
	// methods through different structs: one sibling may disable enum handling (method level), which must not change the other
	qa, qb := strings.ToLower(p)+"qa", strings.ToLower(p)+"qb"
	f.Pkgs = map[string]string{
		qa + "/e.go": fmt.Sprintf("package %s\n\ntype Kind %s\n\nconst (\n\tOne Kind = %s\n\tTwo Kind = %s\n)\n\ntype Mode %s\n\nconst (\n\tFast Mode = %s\n\tSlow Mode = %s\n)\n", qa, under, lit(1), lit(2), under, lit(3), lit(4)),
		qb + "/e.go": fmt.Sprintf("package %s\n\ntype Kind %s\n\nconst (\n\tOne Kind = %s\n\tTwo Kind = %s\n\tOther Kind = %s\n)\n\ntype Mode %s\n\nconst (\n\tFast Mode = %s\n\tSlow Mode = %s\n\tQuick Mode = %s\n)\n", qb, under, lit(21), lit(22), lit(98), under, lit(33), lit(34), lit(35)),
	}
	f.TypeImports = []string{fmt.Sprintf("%q", "MODULE/"+qa), fmt.Sprintf("%q", "MODULE/"+qb)}
	f.ConvAnchors = []string{fmt.Sprintf("var _ = %s.One", qa), fmt.Sprintf("var _ = %s.One", qb)}
	sb.WriteString(fmt.Sprintf("type %[1]sWa struct {\n\tE %[2]s.Kind\n}\ntype %[1]sWaT struct {\n\tE %[3]s.Kind\n}\ntype %[1]sWb struct {\n\tE %[2]s.Kind\n\tL []%[2]s.Kind\n}\ntype %[1]sWbT struct {\n\tE %[3]s.Kind\n\tL []%[3]s.Kind\n}\n", p, qa, qb))
	// an enum with an UNEXPORTED member, converted by a variables block (output into the declaring package, where the
	// member can be named): it gets its case like every other member
	if r.Chance(45) {
		sb.WriteString(fmt.Sprintf("type %[1]sLv %[2]s\n\nconst (\n\t%[1]sLvLow %[1]sLv = %[3]s\n\t%[1]sLvHigh %[1]sLv = %[4]s\n\t%[5]sLvDebug %[1]sLv = %[6]s\n)\n\n", p, under, lit(41), lit(42), strings.ToLower(p), lit(49)))
		sb.WriteString(fmt.Sprintf("type %[1]sTv %[2]s\n\nconst (\n\t%[1]sTvLow %[1]sTv = %[3]s\n\t%[1]sTvHigh %[1]sTv = %[4]s\n\t%[1]sTvDebug %[1]sTv = %[5]s\n\t%[1]sTvNone %[1]sTv = %[6]s\n)\n\n", p, under, lit(51), lit(52), lit(59), lit(50)))
		f.Pkgs["p/vars_"+strings.ToLower(p)+".go"] = fmt.Sprintf("package p\n\n// goverter:variables\n// goverter:enum:unknown %[1]sTvNone\nvar (\n\t// goverter:enum:transform regex (?i)%[1]sLv(\\w+) %[1]sTv$1\n\tConvLv%[1]s func(source %[1]sLv) %[1]sTv\n)\n", p)
	}
	// member names in which a transformer pattern matches SEVERAL times (every match is replaced)
	sb.WriteString(fmt.Sprintf("type %[1]sSt %[2]s\n\nconst (\n\t%[1]sSt_Not_Found %[1]sSt = %[3]s\n\t%[1]sSt_Too_Many_Requests %[1]sSt = %[4]s\n\t%[1]sSt_Ok %[1]sSt = %[5]s\n)\n\ntype %[1]sStT %[2]s\n\nconst (\n\t%[1]sStNotFound %[1]sStT = %[6]s\n\t%[1]sStTooManyRequests %[1]sStT = %[7]s\n\t%[1]sStOk %[1]sStT = %[8]s\n\t%[1]sSt_Not_Found_Legacy %[1]sStT = %[9]s\n)\n\n", p, under, lit(61), lit(62), lit(63), lit(71), lit(72), lit(73), lit(79)))
	f.Types = sb.String()
	var b strings.Builder
	b.WriteString("// goverter:converter\n")
	unknown := rng.Pick(r, []string{"@error", "@panic", "@ignore", p + "TgtUnknown", ""})
	if unknown != "" {
		b.WriteString("// goverter:enum:unknown " + unknown + "\n")
	}
	if r.Chance(10) {
		b.WriteString("// goverter:enum no\n")
	}
	b.WriteString("type " + p + "C interface {\n")
	trans := fmt.Sprintf("enum:transform regex %sSrc(\\w+) %sTgt$1", p, p)
	for i, sig := range [][2]string{{p + "Src", p + "Tgt"}, {p + "Box", p + "BoxT"}, {"[]" + p + "Src", "[]" + p + "Tgt"}} {
		if i > 0 && r.Chance(30) {
			continue
		}
		if i == 0 || r.Bool() {
			b.WriteString("\t// goverter:" + trans + "\n")
			if r.Chance(30) {
				b.WriteString(fmt.Sprintf("\t// goverter:enum:map %sSrcBlue %s\n", p, rng.Pick(r, []string{"@ignore", "@error", p + "TgtRed", "@panic"})))
			}
			if r.Chance(8) {
				b.WriteString("\t// goverter:enum:map Nope @ignore\n")
			}
		}
		res := sig[1]
		if unknown == "@error" || r.Chance(30) {
			res = "(" + sig[1] + ", error)"
		}
		b.WriteString(fmt.Sprintf("\tM%d(source %s) %s\n", i, sig[0], res))
	}
	if r.Chance(70) {
		names := [2]string{"A0", "Z1"}
		if r.Bool() {
			names = [2]string{"Z0", "A1"}
		}
		res := func(t string) string {
			if unknown == "@error" || r.Chance(30) {
				return "(" + t + ", error)"
			}
			return t
		}
		if r.Chance(75) {
			b.WriteString("\t// goverter:enum no\n")
		}
		b.WriteString(fmt.Sprintf("\t%s(source %sWa) %s\n", names[0], p, res(p+"WaT")))
		b.WriteString(fmt.Sprintf("\t%s(source %sWb) %s\n", names[1], p, res(p+"WbT")))
	}
	// an enum converted to ITS OWN type (top level, and as field / element of two different structs): without
	// skipCopySameType the switch is generated all the same, so non-members follow enum:unknown
	if r.Chance(65) {
		resOf := func(t string) string {
			if unknown == "@error" || r.Chance(30) {
				return "(" + t + ", error)"
			}
			return t
		}
		if r.Chance(70) {
			b.WriteString(fmt.Sprintf("\tOwn(source %sSrc) %s\n", p, resOf(p+"Src")))
		}
		if r.Chance(70) {
			sb2 := fmt.Sprintf("type %[1]sSh struct {\n\tS %[1]sSrc\n\tL []%[1]sSrc\n\tM map[string]%[1]sSrc\n}\ntype %[1]sShT struct {\n\tS %[1]sSrc\n\tL []%[1]sSrc\n\tM map[string]%[1]sSrc\n}\n", p)
			f.Types += sb2
			b.WriteString(fmt.Sprintf("\tOwnSt(source %sSh) %s\n", p, resOf(p+"ShT")))
		}
	}
	// a direct method on a third pair (same member names in two packages): an explicit enum:map (also the identity
	// `Fast Fast`) wins over a transformer that maps the same member elsewhere; members without either keep their name
	if r.Chance(75) {
		// one or two transformers: a member the FIRST pattern does not match gets an identity entry from it (the target has the
		// same name), the second maps it elsewhere (or the other way round): the later transformer decides
		switch r.Intn(10) {
		case 0, 1, 2:
		case 3, 4:
			b.WriteString("\t// goverter:enum:transform regex Slow Quick\n\t// goverter:enum:transform regex Fast Quick\n")
		case 5:
			b.WriteString("\t// goverter:enum:transform regex Fast Quick\n\t// goverter:enum:transform regex Slow Quick\n")
		default:
			b.WriteString("\t// goverter:enum:transform regex Fast Quick\n")
		}
		switch r.Intn(4) {
		case 0:
			b.WriteString("\t// goverter:enum:map Fast Fast\n")
		case 1:
			b.WriteString("\t// goverter:enum:map Fast Slow\n")
		case 2:
			b.WriteString("\t// goverter:enum:map Slow Slow\n")
		}
		t := qb + ".Mode"
		if unknown == "@error" || r.Chance(30) {
			t = "(" + t + ", error)"
		}
		b.WriteString(fmt.Sprintf("\tMd(source %s.Mode) %s\n", qa, t))
	}
	if r.Chance(60) {
		t := p + "StT"
		if unknown == "@error" || r.Chance(30) {
			t = "(" + t + ", error)"
		}
		b.WriteString("\t// goverter:enum:transform regex _([A-Z]) $1\n")
		if unknown == "" || unknown == p+"TgtUnknown" {
			b.WriteString("\t// goverter:enum:unknown @ignore\n")
		}
		b.WriteString(fmt.Sprintf("\tSt(source %sSt) %s\n", p, t))
	}
	b.WriteString("}\n\n")
	f.add(p+"C", b.String())
	return f
}

// famMethods: methods of the source struct as field sources (C05 selection, C07 error paths, C14 struct-method signatures).
func famMethods(r *rng.R, id int) *famOut {
	p := fmt.Sprintf("M%d", id)
	f := &famOut{}
	withCtx := r.Chance(35)
	fallible := map[string]bool{"Label": r.Chance(70), "NTitle": r.Chance(40), "Via": r.Chance(40), "Birth": r.Chance(75), "NBirth": r.Chance(60), "Title": r.Chance(30)}
	// matchIgnoreCase with fields that are case variants of method names: the exactly named method wins over the field
	// (target Title<p>); a field and a method that both match only case-insensitively are an error (target Dual<p>)
	ic := r.Chance(45)
	caseFields, caseTargets := "", ""
	if ic {
		caseFields = fmt.Sprintf("\tTITLE%s string\n", strings.ToUpper(p))
		if r.Chance(40) {
			caseFields += fmt.Sprintf("\tDUAL%s string\n", strings.ToUpper(p))
			caseTargets = fmt.Sprintf("\tDual%s string\n", p)
		}
	}
	f.Types = fmt.Sprintf(`type %[1]sIn struct {
	Name    string
	Age     int
	Nested  %[1]sNested
	PNested *%[1]sNested
	PP      **%[1]sNested
%[2]s}
type %[1]sNested struct {
	Street string
	N      int
}
type %[1]sB struct {
	Stamp string
}
type %[1]sOut struct {
	Title%[1]s string
%[3]s
	Label    string
	NTitle   string
	PTitle   *string
	Via      %[1]sB
	Ctx      string
	Age      int
}
`, p, caseFields, caseTargets)
	var cb strings.Builder
	meth := func(recv, name string, fallible bool, ctx bool) {
		params, args := "", "s"
		if ctx {
			params, args = "ctxTag string", "s, ctxTag"
		}
		if fallible {
			fmt.Fprintf(&cb, "func (s %[1]s) %[2]s(%[3]s) (string, error) {\n\tif rt.Fails(%[2]q, s) {\n\t\treturn \"\", rt.Boom(%[2]q)\n\t}\n\treturn rt.Stamp(%[2]q, %[4]s), nil\n}\n\n", recv, name, params, args)
			f.FailOn = append(f.FailOn, [2]string{name, "poison"})
		} else {
			fmt.Fprintf(&cb, "func (s %[1]s) %[2]s(%[3]s) string {\n\treturn rt.Stamp(%[2]q, %[4]s)\n}\n\n", recv, name, params, args)
		}
	}
	// the AUTO-MATCHED method may be fallible too: a method without error result must then be refused, also under ignoreMissing
	meth(p+"In", "Title"+p, fallible["Title"], false)
	if caseTargets != "" {
		meth(p+"In", "DuAl"+p, false, false) // with field DUAL<P>: two case-insensitive candidates for Dual<p>, no exact one
	}
	meth(p+"In", "Label"+p, fallible["Label"], false)
	meth(p+"Nested", "NTitle"+p, fallible["NTitle"], false)
	meth(p+"In", "CtxTitle"+p, false, true)
	// used only as the source of `map … | FUNC`, so that their failure is not masked by an earlier field
	meth(p+"In", "Birth"+p, fallible["Birth"], false)
	meth(p+"Nested", "NBirth"+p, fallible["NBirth"], false)
	if fallible["Via"] {
		fmt.Fprintf(&cb, "func Via%[1]s(s string) (%[1]sB, error) {\n\tif rt.Fails(%[2]q, s) {\n\t\treturn %[1]sB{}, rt.Boom(%[2]q)\n\t}\n\treturn %[1]sB{Stamp: rt.Stamp(%[2]q, s)}, nil\n}\n\n", p, "Via"+p)
	} else {
		fmt.Fprintf(&cb, "func Via%[1]s(s string) %[1]sB {\n\treturn %[1]sB{Stamp: rt.Stamp(%[2]q, s)}\n}\n\n", p, "Via"+p)
	}
	f.Custom = cb.String()
	var b strings.Builder
	b.WriteString("// goverter:converter\n")
	if wm := rng.Pick(r, wrapModes); wm != "" {
		b.WriteString("// goverter:" + wm + "\n")
	}
	if ic {
		b.WriteString("// goverter:matchIgnoreCase\n")
	}
	if r.Chance(30) {
		b.WriteString("// goverter:ignoreMissing\n")
	}
	b.WriteString("type " + p + "C interface {\n")
	var lines []string
	opt := func(pc int, l, alt string) {
		if r.Chance(pc) {
			lines = append(lines, l)
		} else if alt != "" {
			lines = append(lines, alt)
		}
	}
	// Title<p> is matched to the method of the same name automatically
	opt(90, "map Label"+p+" Label", "ignore Label")
	opt(80, "map Nested.NTitle"+p+" NTitle", "ignore NTitle")
	switch r.Intn(4) {
	case 0:
		lines = append(lines, "ignore PTitle")
	case 1:
		lines = append(lines, "map PP.NTitle"+p+" PTitle")
	default:
		lines = append(lines, "map PNested.NTitle"+p+" PTitle")
	}
	// a method result handed to a custom function: the fallible method under `| FUNC` is the interesting case
	via := rng.Pick(r, []string{"Birth" + p, "Birth" + p, "Title" + p, "Nested.NBirth" + p, "PNested.NTitle" + p})
	if strings.HasPrefix(via, "PNested") {
		lines = append(lines, "ignore Via") // FUNC takes a string, the guarded path yields *string
	} else {
		opt(85, "map "+via+" Via | Via"+p, "ignore Via")
	}
	if withCtx {
		lines = append(lines, "map CtxTitle"+p+" Ctx")
	} else {
		opt(92, "ignore Ctx", "map CtxTitle"+p+" Ctx")
	}
	anyFallible := fallible["Label"] || fallible["NTitle"] || fallible["Via"] || fallible["Birth"] || fallible["NBirth"] || fallible["Title"]
	ctxP := ""
	if withCtx {
		ctxP = ", ctxTag string"
	}
	res := func(t string) string {
		if anyFallible && r.Chance(80) || r.Chance(15) {
			return "(" + t + ", error)"
		}
		return t
	}
	for _, l := range lines {
		b.WriteString("\t// goverter:" + l + "\n")
	}
	if withCtx {
		b.WriteString("\t// goverter:context ctxTag\n")
	}
	b.WriteString("\tConvert(source " + p + "In" + ctxP + ") " + res(p+"Out") + "\n")
	if r.Chance(60) {
		if withCtx {
			b.WriteString("\t// goverter:context ctxTag\n")
		}
		b.WriteString("\tList(source []" + p + "In" + ctxP + ") " + res("[]"+p+"Out") + "\n")
	}
	if r.Chance(40) {
		if withCtx {
			b.WriteString("\t// goverter:context ctxTag\n")
		}
		b.WriteString("\tMapOf(source map[string]*" + p + "In" + ctxP + ") " + res("map[string]*"+p+"Out") + "\n")
	}
	b.WriteString("}\n\n")
	f.add(p+"C", b.String())
	return f
}

// famUnderlying: useUnderlyingTypeMethods — an extend function between the UNDERLYING types of named basics is used
// for the named pair at every position; with a context parameter it needs that context in the calling method (C06).
func famUnderlying(r *rng.R, id int) *famOut {
	p := fmt.Sprintf("Ux%d", id)
	f := &famOut{}
	withCtx := r.Chance(50)
	fallible := r.Chance(40)
	f.Types = fmt.Sprintf(`type %[1]sRaw string
type %[1]sClean string
type %[1]sIn struct {
	Name %[1]sRaw
	Tags []%[1]sRaw
	M    map[string]%[1]sRaw
	P    *%[1]sRaw
	Same string
}
type %[1]sOut struct {
	Name %[1]sClean
	Tags []%[1]sClean
	M    map[string]%[1]sClean
	P    *%[1]sClean
	Same string
}
type %[1]sIn2 struct {
	Name %[1]sRaw
	L    []%[1]sRaw
}
type %[1]sOut2 struct {
	Name %[1]sClean
	L    []%[1]sClean
}
`, p)
	params, args := "s string", "s"
	doc := ""
	if withCtx {
		params, args = "s string, ctxTag string", "s, ctxTag"
		doc = "// goverter:context ctxTag\n"
	}
	name := "Norm" + p
	if fallible {
		f.Custom = fmt.Sprintf("%sfunc %s(%s) (string, error) {\n\tif rt.Fails(%q, s) {\n\t\treturn \"\", rt.Boom(%q)\n\t}\n\treturn rt.Stamp(%q, %s), nil\n}\n\n", doc, name, params, name, name, name, args)
		f.FailOn = append(f.FailOn, [2]string{name, "poison"})
	} else {
		f.Custom = fmt.Sprintf("%sfunc %s(%s) string {\n\treturn rt.Stamp(%q, %s)\n}\n\n", doc, name, params, name, args)
	}
	var b strings.Builder
	b.WriteString("// goverter:converter\n// goverter:extend " + name + "\n")
	if r.Chance(80) {
		b.WriteString("// goverter:useUnderlyingTypeMethods\n")
	}
	if wm := rng.Pick(r, wrapModes); wm != "" {
		b.WriteString("// goverter:" + wm + "\n")
	}
	b.WriteString("type " + p + "C interface {\n")
	res := func(t string) string {
		if fallible {
			return "(" + t + ", error)"
		}
		return t
	}
	if withCtx {
		b.WriteString("\t// goverter:context ctxTag\n\tWithCtx(source " + p + "In, ctxTag string) " + res(p+"Out") + "\n")
		if r.Chance(50) {
			// the context is NOT available here: generation must fail (the function exists but cannot be called)
			b.WriteString("\tNoCtx(source " + p + "In2) " + res(p+"Out2") + "\n")
		}
	} else {
		b.WriteString("\tConvert(source " + p + "In) " + res(p+"Out") + "\n")
		if r.Bool() {
			b.WriteString("\tOne(source " + p + "Raw) " + res(p+"Clean") + "\n")
		}
	}
	b.WriteString("}\n\n")
	f.add(p+"C", b.String())
	return f
}

// famEnumOff: a named basic type WITH constants converted by two converters of one run: the first treats the pair as enums
// (switch by member name), the second excludes it (enum:exclude / enum no at converter or method level): there the value
// is converted as a plain named basic — unchanged, also for non-member values (C02), whatever the sibling converter did.
func famEnumOff(r *rng.R, id int) *famOut {
	p := fmt.Sprintf("O%d", id)
	f := &famOut{}
	f.Types = fmt.Sprintf("type %[1]sLv int\n\nconst (\n\t%[1]sLvLow %[1]sLv = 0\n\t%[1]sLvMid %[1]sLv = 1\n\t%[1]sLvHigh %[1]sLv = 2\n)\n\ntype %[1]sTv int\n\nconst (\n\t%[1]sTvLow %[1]sTv = 10\n\t%[1]sTvMid %[1]sTv = 20\n\t%[1]sTvHigh %[1]sTv = 30\n)\n\ntype %[1]sIn struct {\n\tL  %[1]sLv\n\tLs []%[1]sLv\n}\ntype %[1]sOut struct {\n\tL  %[1]sTv\n\tLs []%[1]sTv\n}\n", p)
	on := fmt.Sprintf("// goverter:converter\n// goverter:enum:unknown @ignore\n// goverter:enum:transform regex %[1]sLv(\\w+) %[1]sTv$1\ntype %[1]sA interface {\n\tConvert(source %[1]sIn) %[1]sOut\n\tOne(source %[1]sLv) %[1]sTv\n}\n\n", p)
	var off string
	switch r.Intn(5) {
	case 3, 4:
		// several enum:exclude lines accumulate: the type excluded by an EARLIER line stays excluded
		lines := []string{"// goverter:enum:exclude MODULE/p:" + p + "Lv\n", "// goverter:enum:exclude MODULE/p:" + p + "Nothing\n", "// goverter:enum:exclude MODULE/other:.*\n"}
		if r.Bool() {
			lines[1], lines[2] = lines[2], lines[1]
		}
		if r.Chance(30) {
			lines[0], lines[1] = lines[1], lines[0]
		}
		off = fmt.Sprintf("// goverter:converter\n// goverter:enum:unknown @ignore\n"+strings.Join(lines, "")+"type %[1]sB interface {\n\tConvert(source %[1]sIn) %[1]sOut\n\tOne(source %[1]sLv) %[1]sTv\n}\n\n", p)
	case 0:
		off = fmt.Sprintf("// goverter:converter\n// goverter:enum:unknown @ignore\n// goverter:enum:exclude MODULE/p:%[1]sLv\ntype %[1]sB interface {\n\tConvert(source %[1]sIn) %[1]sOut\n\tOne(source %[1]sLv) %[1]sTv\n}\n\n", p)
	case 1:
		off = fmt.Sprintf("// goverter:converter\n// goverter:enum no\ntype %[1]sB interface {\n\tConvert(source %[1]sIn) %[1]sOut\n\tOne(source %[1]sLv) %[1]sTv\n}\n\n", p)
	default:
		off = fmt.Sprintf("// goverter:converter\n// goverter:enum:unknown @ignore\n// goverter:enum:transform regex %[1]sLv(\\w+) %[1]sTv$1\ntype %[1]sB interface {\n\t// goverter:enum no\n\tConvert(source %[1]sIn) %[1]sOut\n\tOne(source %[1]sLv) %[1]sTv\n}\n\n", p)
	}
	if r.Bool() {
		f.add(p+"A", on)
		f.add(p+"B", off)
	} else {
		f.add(p+"B", off)
		f.add(p+"A", on)
	}
	return f
}
