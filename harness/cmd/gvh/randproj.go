package main

import (
	"fmt"
	"go/parser"
	"go/token"
	"os"
	"path/filepath"
	"regexp"
	"sort"
	"strings"
	"sync"
	"time"

	"gvh/internal/rng"
	"gvh/internal/scratch"
)

// Compositional PROJECTS, run through the goverter binary and judged by the properties themselves (no model needed):
//
//	(a) the same tree run twice gives the same exit status, stderr and bytes                                   (C09)
//	(b) a run over ANY previous state of the output locations (current output, output of an older configuration
//	    with another package clause, with extra declarations, cut off, without header) gives the bytes of the
//	    clean-tree run; hand-written neighbours of the output that do not type-check during the run are allowed   (C09, C16)
//	(c) a run that fails exits 1, prints a diagnostic and leaves the tree as it was; a run that succeeds exits 0    (C17)
//	(d) every written file starts with the header and the configured constraint line, nothing is written outside
//	    the locations the converters select, new files have mode 0644                                          (C15, C16)
//
// A project is put together from independent choices: packages, interface converters and variables blocks, how the
// goverter comments are spelled, output:file / output:package forms, converters sharing a file, faults (directive,
// signature, conversion, compile error in a selected package), -g settings, build tags and output constraint,
// how the patterns are given.

type rpConv struct {
	Pkg   string
	Name  string
	Vars  bool
	Lines []string
	Fault string
	Style string
}

type rpProject struct {
	ID       int
	Module   string
	Convs    []*rpConv
	Args     []string
	Tags     string // -build-tags value ("" = default)
	Constr   string // -output-constraint value ("\x00" = default)
	Broken   bool   // a selected package does not compile
	Visible  bool   // the options do NOT hide goverter's own output from the next run (tags without the complementary constraint, or an empty constraint)
	Nested   bool   // the structs have a nested named struct field: a helper method is generated
	Neighbor map[string]string
	tree     scratch.Tree
}

func (p *rpProject) faulty() bool {
	if p.Broken {
		return true
	}
	for _, c := range p.Convs {
		if c.Fault != "" {
			return true
		}
	}
	return false
}

func rpGen(r *rng.R, id int) *rpProject {
	p := &rpProject{ID: id, Module: fmt.Sprintf("example.org/rp%d", id), Constr: "\x00", Neighbor: map[string]string{}}
	pkgs := []string{"a"}
	if r.Chance(50) {
		pkgs = append(pkgs, "b")
	}
	if r.Chance(20) {
		pkgs = append(pkgs, "a/sub")
	}
	projStyle := rng.Pick(r, []string{"", "", "directive", "tab", "mixed"})
	n := 1 + r.Intn(4)
	faultChance := 0
	if r.Chance(45) {
		faultChance = 40
	}
	varsUsed := map[string]bool{}
	for i := 0; i < n; i++ {
		c := &rpConv{Pkg: rng.Pick(r, pkgs), Name: fmt.Sprintf("Conv%d", i), Vars: r.Chance(25), Style: projStyle}
		if c.Vars {
			// one variables block per package file
			if varsUsed[c.Pkg] {
				c.Vars = false
			}
			varsUsed[c.Pkg] = true
		}
		if projStyle == "mixed" {
			c.Style = rng.Pick(r, []string{"", "directive", "tab"})
		}
		switch k := r.Intn(9); {
		case k == 0:
			c.Lines = append(c.Lines, fmt.Sprintf("output:file ./gen/out%d.go", r.Intn(2)))
		case k == 1:
			c.Lines = append(c.Lines, fmt.Sprintf("output:file ../shared/out%d.go", r.Intn(2)))
		case k == 2:
			c.Lines = append(c.Lines, fmt.Sprintf("output:file @cwd/cwdir/out%d.go", r.Intn(2)))
		case k == 3 && !c.Vars:
			c.Lines = append(c.Lines, "output:format function")
		case k == 4 && !c.Vars:
			// into the declaring package itself (the package clause comes from the existing package)
			c.Lines = append(c.Lines, fmt.Sprintf("output:file ./zz_conv%d_gen.go", i), "output:format function")
		}
		samePkg := len(c.Lines) > 0 && strings.HasPrefix(c.Lines[0], "output:file ./zz_conv")
		switch k := r.Intn(8); {
		case samePkg:
			// the file lives in the declaring package: another package clause there would break the user's own package
		case k == 0:
			c.Lines = append(c.Lines, "output:package "+p.Module+"/x/y:nm")
		case k == 1:
			c.Lines = append(c.Lines, "output:package :api")
		case k == 2:
			c.Lines = append(c.Lines, "output:package "+p.Module+"/x/y-z")
		}
		if r.Chance(faultChance) {
			c.Fault = rng.Pick(r, []string{"directive", "methoddirective", "signature", "conversion"})
		}
		p.Convs = append(p.Convs, c)
	}
	if faultChance > 0 && r.Chance(25) {
		p.Broken = true
	}
	// command line
	inv := r.Intn(3)
	p.Args = []string{"gen"}
	if r.Chance(25) {
		p.Args = append(p.Args, "-g", rng.Pick(r, []string{"ignoreMissing", "skipCopySameType no", "wrapErrors", "matchIgnoreCase yes"}))
	}
	if r.Chance(25) {
		tag := rng.Pick(r, []string{"gen", "tools", "goverter,extra", "extra,gen"})
		p.Tags = tag
		first := rng.Pick(r, strings.Split(tag, ","))
		p.Constr = rng.Pick(r, []string{"!" + first, "!" + first + " && !never", "linux && !" + first, "go1.18 && !" + first})
		p.Args = append(p.Args, "-build-tags", p.Tags, "-output-constraint", p.Constr)
	}
	p.Nested = r.Chance(50)
	if p.Tags == "" && p.Constr == "\x00" && r.Chance(25) {
		// options that do not hide the generated files from the next run: the tree stays consistent (the output compiles
		// together with its package), so regenerating over the CURRENT output must still give the clean-tree bytes
		p.Visible = true
		if r.Bool() {
			p.Tags = rng.Pick(r, []string{"tools", "gen"})
			p.Args = append(p.Args, "-build-tags", p.Tags)
		} else {
			p.Constr = ""
			p.Args = append(p.Args, "-output-constraint", "")
		}
		// the tree must stay a consistent set of packages WITH the generated files in it: no foreign package clause inside
		// a user package, no file shared between packages
		for _, c := range p.Convs {
			var keep []string
			for _, l := range c.Lines {
				if strings.HasPrefix(l, "output:package") || strings.HasPrefix(l, "output:file ../") || strings.HasPrefix(l, "output:file @cwd") {
					continue
				}
				if c.Vars && strings.HasPrefix(l, "output:file") {
					// the init() of a variables block only compiles inside the declaring package
					continue
				}
				keep = append(keep, l)
			}
			c.Lines = keep
		}
	}
	switch inv {
	case 0:
		p.Args = append(p.Args, "./...")
	case 1:
		seen := map[string]bool{}
		for _, c := range p.Convs {
			if !seen[c.Pkg] {
				seen[c.Pkg] = true
				p.Args = append(p.Args, "./"+c.Pkg)
			}
		}
	default:
		p.Args = append(p.Args, p.Module+"/...")
	}
	// the tree
	t := scratch.Tree{"go.mod": "module " + p.Module + "\n\ngo 1.18\n"}
	for _, pk := range pkgs {
		nin, nout := "", ""
		if p.Nested {
			nin, nout = "\tN Nest\n\tNs []Nest\n", "\tN NestOut\n\tNs []NestOut\n"
		}
		t[pk+"/types.go"] = "package " + filepath.Base(pk) + "\n\ntype Nest struct{ A int }\n\ntype NestOut struct{ A int }\n\ntype In struct {\n\tV int\n\tW string\n" + nin + "}\n\ntype Out struct {\n\tV int\n\tW string\n" + nout + "}\n\ntype OutBad struct{ V string }\n"
	}
	byPkg := map[string][]*rpConv{}
	for _, c := range p.Convs {
		byPkg[c.Pkg] = append(byPkg[c.Pkg], c)
	}
	brokenDone := false
	for pk, cs := range byPkg {
		var b strings.Builder
		b.WriteString("package " + filepath.Base(pk) + "\n\n")
		if p.Broken && !brokenDone {
			b.WriteString("var _ = undefinedSymbolOfTheUser\n\n")
			brokenDone = true
		}
		for _, c := range cs {
			pre := map[string]string{"": "// goverter:", "directive": "//goverter:", "tab": "//\tgoverter:"}[c.Style]
			sig := "(source In) Out"
			lines := append([]string{}, c.Lines...)
			var mlines []string
			switch c.Fault {
			case "directive":
				// an unknown setting, or a known one with a malformed value (one value expected: none / two given; not a boolean; not a format)
				bad := []string{"bogusSetting yes", "output:package example.org/x y", "output:package", "output:format bogus", "wrapErrors maybe", "skipCopySameType yes no", "enum:unknown"}
				lines = append(lines, bad[(p.ID+len(c.Name)+len(lines))%len(bad)])
			case "methoddirective":
				mlines = append(mlines, "map")
			case "signature":
				sig = "(a In, b In) Out"
			case "conversion":
				sig = "(source In) OutBad"
			}
			if c.Vars {
				b.WriteString(pre + "variables\n")
				for _, l := range lines {
					b.WriteString(pre + l + "\n")
				}
				b.WriteString("var (\n")
				for _, l := range mlines {
					b.WriteString("\t" + pre + l + "\n")
				}
				b.WriteString("\t" + c.Name + " func" + sig + "\n)\n\n")
			} else {
				b.WriteString(pre + "converter\n")
				for _, l := range lines {
					b.WriteString(pre + l + "\n")
				}
				b.WriteString("type " + c.Name + " interface {\n")
				for _, l := range mlines {
					b.WriteString("\t" + pre + l + "\n")
				}
				mname := "Convert"
				if p.Visible {
					mname = "Convert" + c.Name
				}
				b.WriteString("\t" + mname + sig + "\n}\n\n")
			}
		}
		t[pk+"/conv.go"] = b.String()
	}
	// a hand-written package that already lives where an output goes, named differently from its directory; it may use the
	// generated code (then it does not type-check while goverter runs). Only when the patterns do not select that directory.
	if inv == 1 && r.Chance(50) {
		for _, c := range p.Convs {
			if c.Vars {
				continue
			}
			dir := c.Pkg + "/generated"
			file := dir + "/generated.go"
			for _, l := range c.Lines {
				if strings.HasPrefix(l, "output:file ./gen/") {
					dir = c.Pkg + "/gen"
					file = dir + "/" + strings.TrimPrefix(l, "output:file ./gen/")
				}
				if strings.HasPrefix(l, "output:file ../") || strings.HasPrefix(l, "output:file @cwd") || strings.HasPrefix(l, "output:package") || strings.HasPrefix(l, "output:file ./zz_conv") {
					dir = ""
				}
			}
			if dir == "" {
				continue
			}
			body := "package realname\n"
			if r.Bool() {
				body += "\nvar Default = &NotYetGenerated{}\n"
			}
			t[dir+"/handwritten.go"] = body
			p.Neighbor[file] = "realname"
		}
	}
	p.tree = t
	return p
}

var rpPkgClause = regexp.MustCompile(`(?m)^package \w+`)

// rpStale rewrites the outputs of a previous run the way an older configuration or an interrupted run would have left them.
func rpStale(mode string, content string) string {
	switch mode {
	case "otherclause":
		return rpPkgClause.ReplaceAllString(content, "package olderapi")
	case "extradecls":
		return content + "\n\nfunc StaleHelperOfAnOlderRun() int { return 1 }\n\ntype StaleImpl struct{ X int }\n"
	case "cutoff":
		if k := strings.Index(content, "func "); k > 0 {
			return content[:k] + "func ("
		}
		return content[:len(content)/2]
	case "garbage-body":
		if k := strings.Index(content, "\npackage "); k > 0 {
			return content[:k] + "\npackage broken\n\nthis is not go {{{\n"
		}
	case "cut-in-clause":
		if k := strings.Index(content, "\npackage "); k > 0 {
			return content[:k] + "\npackag"
		}
	case "text-before-clause":
		if k := strings.Index(content, "\npackage "); k > 0 {
			return content[:k] + "\n<<<<<<< HEAD\n" + content[k:]
		}
	case "empty":
		return ""
	}
	return content
}

type rpObs struct {
	exit    int
	stderr  string
	outputs map[string]string
	modes   map[string]os.FileMode
	changed []string // changed or removed pre-existing files
}

func rpRun(bin, root string, p *rpProject) rpObs {
	before, _ := scratch.Snapshot(root)
	res := scratch.Run(bin, root, p.Args, nil, 120*time.Second)
	after, _ := scratch.Snapshot(root)
	o := rpObs{exit: res.Exit, stderr: scratch.Relativise(root, res.Stderr), outputs: map[string]string{}, modes: map[string]os.FileMode{}}
	if res.TimedOut {
		o.exit, o.stderr = -9, "TIMEOUT"
	}
	created, changed, removed := scratch.Diff(before, after)
	for _, f := range append(append([]string{}, created...), changed...) {
		if en := after[f]; !en.Dir {
			c, _ := os.ReadFile(filepath.Join(root, f))
			o.outputs[f] = string(c)
			if st, err := os.Stat(filepath.Join(root, f)); err == nil {
				o.modes[f] = st.Mode().Perm()
			}
		}
	}
	o.changed = append(append([]string{}, changed...), removed...)
	return o
}

func rpKey(o rpObs) string {
	var ks []string
	for k := range o.outputs {
		ks = append(ks, k)
	}
	sort.Strings(ks)
	var b strings.Builder
	fmt.Fprintf(&b, "exit=%d\nstderr=%s\n", o.exit, o.stderr)
	for _, k := range ks {
		b.WriteString("== " + k + "\n" + o.outputs[k] + "\n")
	}
	return b.String()
}

func runRandProj(e *env, n int) error {
	bin := goverterBin(e)
	base := filepath.Join(e.scratch, "randproj")
	r := e.r.Fork(777 + uint64(len(e.prop)))
	var projs []*rpProject
	for i := 0; i < n; i++ {
		projs = append(projs, rpGen(r, i))
	}
	staleModes := []string{"current", "otherclause", "extradecls", "cutoff", "garbage-body", "cut-in-clause", "text-before-clause"}
	type result struct {
		clean, again rpObs
		hist         map[string]rpObs
		err          error
	}
	results := make([]result, len(projs))
	var wg sync.WaitGroup
	sem := make(chan struct{}, 8)
	for i, p := range projs {
		wg.Add(1)
		go func(i int, p *rpProject) {
			defer wg.Done()
			sem <- struct{}{}
			defer func() { <-sem }()
			fresh := func(tag string) (string, error) {
				root := filepath.Join(base, fmt.Sprintf("p%d_%s", p.ID, tag), "mod")
				return root, scratch.Write(root, p.tree)
			}
			root, err := fresh("clean")
			if err != nil {
				results[i].err = err
				return
			}
			results[i].clean = rpRun(bin, root, p)
			root2, err := fresh("again")
			if err != nil {
				results[i].err = err
				return
			}
			results[i].again = rpRun(bin, root2, p)
			results[i].hist = map[string]rpObs{}
			if results[i].clean.exit != 0 || len(results[i].clean.outputs) == 0 {
				return
			}
			// runs over previous states of the output locations
			mode := staleModes[(p.ID)%len(staleModes)]
			if p.Visible {
				// the previous output is an input of the run here: only the output of the same configuration is consistent
				mode = "current"
			}
			rootH, err := fresh("hist")
			if err != nil {
				results[i].err = err
				return
			}
			for rel, content := range results[i].clean.outputs {
				_ = os.MkdirAll(filepath.Dir(filepath.Join(rootH, rel)), 0o755)
				_ = os.WriteFile(filepath.Join(rootH, rel), []byte(rpStale(mode, content)), 0o644)
			}
			// hand-written code next to an output that uses the generated code (does not type-check while goverter runs);
			// only in directories the patterns do not select
			if p.ID%3 == 0 && !strings.Contains(strings.Join(p.Args, " "), "...") {
				// one clause per directory, and only where every output of the directory agrees on it (the hand-written file is
				// an existing package at that location: its name is taken by outputs without a package setting)
				clauses := map[string]map[string]bool{}
				for rel, content := range results[i].clean.outputs {
					dir := filepath.Dir(rel)
					if clauses[dir] == nil {
						clauses[dir] = map[string]bool{}
					}
					clauses[dir][rpPkgClause.FindString(content)] = true
				}
				for dir, cs := range clauses {
					if _, isInput := p.tree[dir+"/types.go"]; isInput || len(cs) != 1 {
						continue
					}
					for m := range cs {
						if m != "" {
							_ = os.WriteFile(filepath.Join(rootH, dir, "handwritten.go"), []byte(m+"\n\nvar UsesGenerated = &NotYetGeneratedType{}\n"), 0o644)
						}
					}
				}
			}
			o := rpRun(bin, rootH, p)
			// the comparison is on the files the CLEAN run wrote
			for rel := range results[i].clean.outputs {
				if _, ok := o.outputs[rel]; !ok {
					if c, err := os.ReadFile(filepath.Join(rootH, rel)); err == nil {
						o.outputs[rel] = string(c)
					}
				}
			}
			for rel := range o.outputs {
				if strings.HasSuffix(rel, "handwritten.go") {
					delete(o.outputs, rel)
				}
			}
			results[i].hist[mode] = o
		}(i, p)
	}
	wg.Wait()
	for i, p := range projs {
		rs := results[i]
		if rs.err != nil {
			return rs.err
		}
		e.rep.Eval(2 + len(rs.hist))
		e.rep.Nontrivial(fmt.Sprintf("randproj:%d", p.ID))
		e.rep.Count(fmt.Sprintf("randproj.exit%d", rs.clean.exit))
		desc := map[string]any{"project": p.tree, "args": p.Args}
		viol := func(what string, extra map[string]any) {
			m := map[string]any{"case": desc, "why": what, "broken": e.prop + " (compositional projects): " + what}
			for k, v := range extra {
				m[k] = v
			}
			e.rep.Violation("", m, false)
		}
		// (a) determinism
		if rpKey(rs.clean) != rpKey(rs.again) {
			viol("two runs of the goverter binary on the same tree differ", map[string]any{"diff": firstLineDiff(rpKey(rs.clean), rpKey(rs.again))})
			continue
		}
		// (c) exit status and tree
		switch {
		case rs.clean.exit == -9:
			viol("timeout", nil)
		case p.faulty() && rs.clean.exit != 1:
			viol(fmt.Sprintf("a faulty converter / package was selected but the exit status is %d", rs.clean.exit), map[string]any{"stderr": truncate(rs.clean.stderr, 600)})
		case p.faulty() && strings.TrimSpace(rs.clean.stderr) == "":
			viol("a failing run printed no diagnostic", nil)
		case p.faulty() && len(rs.clean.outputs)+len(rs.clean.changed) > 0:
			viol("a failing run created or changed files", map[string]any{"files": keysOf(rs.clean.outputs)})
		case !p.faulty() && rs.clean.exit != 0:
			// converters sharing a file with different packages are legitimately refused; anything else is not
			if !strings.Contains(rs.clean.stderr, "different packages") && !strings.Contains(rs.clean.stderr, "package") {
				viol("all converters are fine but the run failed", map[string]any{"stderr": truncate(rs.clean.stderr, 800)})
			}
		}
		// (d) header, constraint line, mode
		want := "!goverter"
		if p.Constr != "\x00" {
			want = p.Constr
		}
		for mode, o := range rs.hist {
			for rel, content := range o.outputs {
				if _, err := parser.ParseFile(token.NewFileSet(), rel, content, parser.SkipObjectResolution); err != nil && o.exit == 0 {
					viol("a file left behind by a successful run over a previous output ("+mode+") is not valid Go", map[string]any{"file": rel, "error": err.Error()})
				}
			}
		}
		for rel, content := range rs.clean.outputs {
			lines := strings.SplitN(content, "\n", 3)
			if len(lines) < 2 || !strings.HasPrefix(lines[0], "// Code generated by github.com/jmattheis/goverter, DO NOT EDIT.") {
				viol("an emitted file does not start with the generated-code header", map[string]any{"file": rel, "head": truncate(content, 200)})
			} else if want == "" {
				if strings.HasPrefix(lines[1], "//go:build") {
					viol("an emitted file carries a build constraint although it is configured empty", map[string]any{"file": rel, "got": lines[1]})
				}
			} else if lines[1] != "//go:build "+want {
				viol("an emitted file does not carry the configured build constraint", map[string]any{"file": rel, "expected": "//go:build " + want, "got": lines[1]})
			}
			if want, ok := p.Neighbor[rel]; ok {
				if got := strings.TrimPrefix(rpPkgClause.FindString(content), "package "); got != want {
					viol("an output written next to an existing package does not carry that package's name", map[string]any{"file": rel, "expected": want, "got": got})
				}
			}
			if m := rs.clean.modes[rel]; m != 0o644 {
				viol("a new file does not have mode 0644", map[string]any{"file": rel, "mode": fmt.Sprintf("%o", m)})
			}
		}
		// (b) history independence
		for mode, o := range rs.hist {
			e.rep.Count("randproj.history." + mode)
			if o.exit != 0 {
				viol("regenerating over a previous output ("+mode+") fails although the clean tree generates", map[string]any{"stderr": truncate(o.stderr, 800)})
				continue
			}
			for rel, content := range rs.clean.outputs {
				if o.outputs[rel] != content {
					viol("regenerating over a previous output ("+mode+") gives other bytes than the clean tree", map[string]any{"file": rel,
						"diff": firstLineDiff(content, o.outputs[rel])})
					break
				}
			}
		}
		if i%17 == 0 {
			e.rep.Sample(map[string]any{"args": p.Args, "converters": len(p.Convs), "exit": rs.clean.exit, "written": keysOf(rs.clean.outputs)})
		}
	}
	e.rep.Note("compositional projects: %d projects, each run twice from a clean tree and once over a previous state of its outputs", len(projs))
	return nil
}

// randProjFor: the properties whose check ends with the compositional projects.
func randProjFor(e *env) error {
	switch e.prop {
	case "C01", "C09", "C15", "C16", "C17":
	default:
		return nil
	}
	n := 80
	if e.thorough {
		n = 150 * e.scale
	}
	return runRandProj(e, n)
}
