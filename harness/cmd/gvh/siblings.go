package main

import (
	"fmt"
	"strings"

	"gvh/internal/rng"
)

// The sibling campaign (C12): "a setting of one method never changes the behaviour of a sibling", observed on executed
// code.  Every instance is a PAIR of converters that differ in exactly one method-level line on method A (present / absent);
// method B, on a different struct pair, is identical in both.  B shares with A a nested struct pair (one generated
// sub-method), a direct enum-typed field and a field of identical type.  B is executed on the same values in both
// converters: its results must be the same.

var siblingSettings = []string{"enum no", "skipCopySameType"}

// D19 classes by the setting B itself carries

func famSiblings(r *rng.R, id int) *famOut {
	p := fmt.Sprintf("Sb%d", id)
	f := &famOut{}
	qa, qb := strings.ToLower(p)+"qa", strings.ToLower(p)+"qb"
	f.Pkgs = map[string]string{
		qa + "/e.go": fmt.Sprintf("package %s\n\ntype Kind int\n\nconst (\n\tOne Kind = 1\n\tTwo Kind = 2\n)\n", qa),
		qb + "/e.go": fmt.Sprintf("package %s\n\ntype Kind int\n\nconst (\n\tOne Kind = 21\n\tTwo Kind = 22\n\tOther Kind = 98\n)\n", qb),
	}
	f.TypeImports = []string{fmt.Sprintf("%q", "MODULE/"+qa), fmt.Sprintf("%q", "MODULE/"+qb)}
	// the nested pair carries the enum too in half of the instances (then the enum sub-method exists anyway)
	nestedEnumS, nestedEnumT := "", ""
	if r.Bool() {
		nestedEnumS, nestedEnumT = "\tE "+qa+".Kind\n", "\tE "+qb+".Kind\n"
	}
	// flavour 1: B has a *int -> int field and no flag of its own (must be rejected whatever A says);
	// flavour 2: the shared nested pair holds a field converted by a fallible extend function and A toggles wrapErrors
	flavour := r.Intn(4)
	pinned := id%6 == 0 // every 6th instance: wrapErrors on A only, A generated first, fallible function in the shared pair
	if pinned {
		flavour = 2
	}
	bExtraS, bExtraT, nExtraS, nExtraT := "", "", "", ""
	if flavour == 1 {
		bExtraS, bExtraT = "\tPV *int\n", "\tPV int\n"
	}
	if flavour == 3 {
		flavour = 2
	}
	if flavour == 2 {
		nExtraS, nExtraT = "\tX "+p+"A\n", "\tX "+p+"B\n"
		f.Custom = fmt.Sprintf("func Ext%[1]s(s %[1]sA) (%[1]sB, error) {\n\tif rt.Fails(%[2]q, s) {\n\t\treturn %[1]sB{}, rt.Boom(%[2]q)\n\t}\n\treturn %[1]sB{Stamp: rt.Stamp(%[2]q, s)}, nil\n}\n\n", p, "Ext"+p)
		f.FailOn = append(f.FailOn, [2]string{"Ext" + p, "13"})
	}
	f.Types = fmt.Sprintf(`type %[1]sA struct {
	V int
}
type %[1]sB struct {
	Stamp string
}
type %[1]sInner struct {
	P *int
}
type %[1]sN struct {
%[4]s%[8]s	I %[1]sInner
}
type %[1]sNT struct {
%[5]s%[9]s	I %[1]sInner
}
type %[1]sWa struct {
	N %[1]sN
	E %[2]s.Kind
	I %[1]sInner
	A int
}
type %[1]sWaT struct {
	N %[1]sNT
	E %[3]s.Kind
	I %[1]sInner
	A int
}
type %[1]sWb struct {
	N %[1]sN
	E %[2]s.Kind
	I %[1]sInner
	B int
%[6]s}
type %[1]sWbT struct {
	N %[1]sNT
	E %[3]s.Kind
	I %[1]sInner
	B int
%[7]s}
`, p, qa, qb, nestedEnumS, nestedEnumT, bExtraS, bExtraT, nExtraS, nExtraT)
	xa := rng.Pick(r, siblingSettings)
	xb := rng.Pick(r, append([]string{""}, siblingSettings...))
	res := func(t string) string { return t }
	extendLine := ""
	switch flavour {
	case 1:
		xa = "useZeroValueOnPointerInconsistency"
		xb = rng.Pick(r, []string{"", "enum no"})
	case 2:
		xa = rng.Pick(r, []string{"wrapErrors", "wrapErrors", "enum no"})
		xb = rng.Pick(r, []string{"", "wrapErrors no", "enum no"})
		res = func(t string) string { return "(" + t + ", error)" }
		extendLine = "// goverter:extend Ext" + p + "\n"
		if pinned {
			xa, xb = "wrapErrors", ""
		}
	}
	nameA, nameB := "A0", "B1"
	if !pinned && r.Chance(35) {
		nameA, nameB = "Z0", "B1" // B is generated first
	}
	for _, on := range []bool{true, false} {
		var b strings.Builder
		b.WriteString("// goverter:converter\n// goverter:enum:unknown @ignore\n" + extendLine)
		name := p + "Off"
		if on {
			name = p + "On"
		}
		b.WriteString("type " + name + " interface {\n")
		if on {
			b.WriteString("\t// goverter:" + xa + "\n")
		}
		b.WriteString(fmt.Sprintf("\t%s(source %sWa) %s\n", nameA, p, res(p+"WaT")))
		if xb != "" {
			b.WriteString("\t// goverter:" + xb + "\n")
		}
		b.WriteString(fmt.Sprintf("\t%s(source %sWb) %s\n", nameB, p, res(p+"WbT")))
		b.WriteString("}\n\n")
		f.add(name, b.String())
	}
	return f
}

func runSiblings(e *env) error {
	e.rep.Rule += "; siblings: pairs of converters that differ in ONE method-level line (enum no / skipCopySameType) on method A (also useZeroValueOnPointerInconsistency while B has a *T->U field and must stay rejected, and wrapErrors while a fallible extend function sits in the shared nested pair), with method B (own setting from {none, enum no, skipCopySameType, wrapErrors no}, either generation order) sharing a nested struct pair, a direct enum field and an identically typed field with A; B is executed on the same values in both converters and must return the same results"
	nb, per := 1, 36
	if e.thorough {
		nb, per = 3*e.scale, 40
	}
	r := e.r.Fork(1212)
	var kbs []*k2Batch
	for b := 0; b < nb; b++ {
		var fs []*famOut
		for i := 0; i < per; i++ {
			fs = append(fs, famSiblings(r, b*1000+i))
		}
		kb := merge(fs...).batch("siblings", 6)
		kb.ValuesByMethodName = true
		kbs = append(kbs, kb)
	}
	res, err := runK2(e, "c12sib", kbs)
	if err != nil {
		return err
	}
	for _, be := range res.BuildErrors {
		e.rep.Violation("generated-code-does-not-compile", map[string]any{"build_output": be}, false)
	}
	e.rep.Eval(len(res.Calls))
	// model vs implementation as usual
	type key struct{ inst, method, values string }
	seen := map[key]*k2Call{}
	compared := 0
	for _, c := range res.Calls {
		e.rep.Count("siblings.call")
		if c.Impl != c.Model {
			e.rep.Violation("", map[string]any{"call": c, "broken": "correspondence C12 (siblings): the compiled generated code vs Gv.Gen + Gv.Eval"}, false)
		}
		if c.Method != "B1" {
			continue
		}
		inst := strings.TrimSuffix(strings.TrimSuffix(c.Converter, "On"), "Off")
		k := key{inst, c.Method, strings.Join(c.Values, " ")}
		if other, ok := seen[k]; ok {
			compared++
			e.rep.Nontrivial(c.Source + k.values)
			if other.Impl != c.Impl {
				class := ""
				if strings.Contains(c.Source, "// goverter:enum no\n\tB1(") || strings.Contains(other.Source, "// goverter:enum no\n\tB1(") {
					class = "D19-generated-sub-method-of-sibling-overrides-method-setting"
				}
				if strings.Contains(c.Source, "// goverter:skipCopySameType\n\tB1(") || strings.Contains(other.Source, "// goverter:skipCopySameType\n\tB1(") {
					class = "D19-generated-sub-method-of-sibling-overrides-method-setting"
				}
				e.rep.Violation(class, map[string]any{"converter_with_setting_on_A": pick(c, other, "On").Source, "converter_without": pick(c, other, "Off").Source,
					"method": c.Method, "arguments": c.Values, "result_with": pick(c, other, "On").Impl, "result_without": pick(c, other, "Off").Impl,
					"broken": "C12: a method-level setting of method A changed what its sibling B returns"}, false)
			}
		} else {
			seen[k] = c
		}
	}
	e.rep.Note("sibling pairs compared (method B, same arguments, with/without the line on A): %d", compared)
	return nil
}

func pick(a, b *k2Call, suffix string) *k2Call {
	if strings.HasSuffix(a.Converter, suffix) {
		return a
	}
	return b
}
