package main

import (
	"fmt"
	"os"
	"path/filepath"
	"sort"
	"strings"

	"github.com/jmattheis/goverter/comments"
	"github.com/jmattheis/goverter/config"

	"gvh/internal/drv"
	"gvh/internal/rng"
	"gvh/internal/sx"
)

// The function-attachment campaign (C06): `map [SRC] FIELD | FUNC` and `default FUNC` attach FUNC to exactly the field /
// method they are written for.  Methods carry 1-6 such lines in random order (several functions per method, the same
// identifiers in a second package, a later `map` line without `| FUNC` for the same field, ignore lines in between,
// siblings on the same converter); the real comments.ParseDocs + config.Parse path yields for every method the function of
// each field (package and name) and the constructor; Gv.Settings.parseMethodLines yields the names as written.
func runFuncAttach(e *env) error {
	const mod = "example.org/fa"
	root := filepath.Join(e.scratch, "c06attach")
	if err := os.MkdirAll(filepath.Join(root, "p"), 0o755); err != nil {
		return err
	}
	_ = os.MkdirAll(filepath.Join(root, "q"), 0o755)
	if err := os.WriteFile(filepath.Join(root, "go.mod"), []byte("module "+mod+"\n\ngo 1.18\n"), 0o644); err != nil {
		return err
	}
	qsrc := "package q\n\ntype Out struct{ A, B, C, D int }\n\nfunc FnA(v int) int { return v + 100 }\nfunc FnB(v int) int { return v + 200 }\nfunc NewOut() Out { return Out{} }\n"
	if err := os.WriteFile(filepath.Join(root, "q", "q.go"), []byte(qsrc), 0o644); err != nil {
		return err
	}
	pool := []string{"map A | FnA", "map B | FnB", "map C | FnC", "map D | FnD", "map B A | FnB", "map A B | FnA", "map A | " + mod + "/q:FnA", "map B | " + mod + "/q:FnB",
		"map C | FnA", "map A", "map B A", "map C D", "ignore C", "ignore D", "ignore A", "map . E | FnE", "map A | FnB", "map D | FnA"}
	ctors := []string{"default NewOut", "default NewOut2", "default NewOut3"}
	n := 40
	if e.thorough {
		n = 400 * e.scale
	}
	r := e.r.Fork(606)
	type entry struct {
		iface, meth string
		lines       []string
	}
	var entries []entry
	var src strings.Builder
	src.WriteString("package p\n\ntype In struct{ A, B, C, D int }\ntype Out struct {\n\tA, B, C, D int\n\tE string\n}\n\n" +
		"func FnA(v int) int { return v + 1 }\nfunc FnB(v int) int { return v + 2 }\nfunc FnC(v int) int { return v + 3 }\nfunc FnD(v int) int { return v + 4 }\n" +
		"func FnE(s In) string { return \"e\" }\nfunc NewOut() Out { return Out{} }\nfunc NewOut2() Out { return Out{E: \"2\"} }\nfunc NewOut3() Out { return Out{E: \"3\"} }\n\n")
	for i := 0; i < n; i++ {
		iface := fmt.Sprintf("C%d", i)
		src.WriteString("// goverter:converter\n// goverter:ignoreMissing\ntype " + iface + " interface {\n")
		for mi := 0; mi < 1+r.Intn(3); mi++ {
			var lines []string
			for k := 0; k < 1+r.Intn(5); k++ {
				lines = append(lines, rng.Pick(r, pool))
			}
			if r.Chance(60) {
				at := r.Intn(len(lines) + 1)
				lines = append(lines[:at], append([]string{rng.Pick(r, ctors)}, lines[at:]...)...)
				if r.Chance(25) {
					lines = append(lines, rng.Pick(r, ctors))
				}
			}
			meth := fmt.Sprintf("M%d", mi)
			for _, l := range lines {
				src.WriteString("\t// goverter:" + l + "\n")
			}
			src.WriteString("\t" + meth + "(source In) Out\n")
			entries = append(entries, entry{iface, meth, lines})
		}
		src.WriteString("}\n\n")
	}
	if err := os.WriteFile(filepath.Join(root, "p", "conv.go"), []byte(src.String()), 0o644); err != nil {
		return err
	}
	raws, err := comments.ParseDocs(comments.ParseDocsConfig{PackagePattern: []string{"./p"}, WorkingDir: root, BuildTags: "goverter"})
	if err != nil {
		return fmt.Errorf("c06 attach: ParseDocs: %v", err)
	}

	convs, err := config.Parse(&config.Raw{Converters: raws, Global: config.RawLines{Location: cliLocation}, WorkDir: root, BuildTags: "goverter"})

	if err != nil {
		e.rep.Violation("", map[string]any{"broken": "C06 function attachment: config.Parse rejected valid map | FUNC / default lines", "error": truncate(err.Error(), 1500), "source": truncate(src.String(), 6000)}, false)
		return nil
	}
	byName := map[string]*config.Converter{}
	for _, c := range convs {
		byName[c.Name] = c
	}
	var reqs []*sx.Node
	var impl []string
	for i, en := range entries {
		c := byName[en.iface+"Impl"]
		if c == nil {
			return fmt.Errorf("c06 attach: converter %s missing", en.iface)
		}
		var m *config.Method
		for _, mm := range c.Methods {
			if mm.Name == en.meth {
				m = mm
			}
		}
		if m == nil {
			return fmt.Errorf("c06 attach: method %s.%s missing", en.iface, en.meth)
		}
		var fns []string
		for name, f := range m.Fields {
			if f.Function != nil {
				fns = append(fns, name+" <- "+f.Function.Package+":"+f.Function.Name)
			}
		}
		sort.Strings(fns)
		ctor := ""
		if m.Constructor != nil {
			ctor = m.Constructor.Package + ":" + m.Constructor.Name
		}
		// the field table (source and ignore per target field) and the raw field lines IN SOURCE ORDER: a later line for the
		// same field overrides an earlier one, whatever kind of line it is
		var fnames []string
		for name := range m.Fields {
			fnames = append(fnames, name)
		}
		sort.Strings(fnames)
		var fl []string
		for _, name := range fnames {
			fl = append(fl, fmt.Sprintf("%s=%s/%v", name, m.Fields[name].Source, m.Fields[name].Ignore))
		}
		impl = append(impl, strings.Join(fns, "; ")+" | ctor "+ctor+" | fields "+strings.Join(fl, ",")+" | raw "+strings.Join(m.RawFieldSettings, ";"))
		sc := &settingsCase{Conv: []string{"converter", "ignoreMissing"}, Meth: en.lines, LoaderOK: true}
		reqs = append(reqs, settingsReq(i, sc))
	}
	answers, err := drv.Run(reqs)
	if err != nil {
		return err
	}
	e.rep.Eval(len(reqs))
	qualify := func(s string) string {
		if s == "" || strings.Contains(s, ":") {
			return s
		}
		return mod + "/p:" + s
	}
	for i, ans := range answers {
		en := entries[i]
		e.rep.Nontrivial(strings.Join(en.lines, "|"))
		e.rep.Count("attach.method")
		model := ans.String()
		if ans.Head() == "ok" && len(ans.L) == 3 {
			var fns []string
			ctor := ""
			for _, part := range ans.L[2].Args() {
				switch part.Head() {
				case "Functions":
					for _, f := range part.Args() {
						fns = append(fns, f.L[1].S+" <- "+qualify(f.L[2].S))
					}
				case "Constructor":
					if len(part.L) == 2 {
						ctor = qualify(part.L[1].S)
					}
				}
			}
			sort.Strings(fns)
			var fl, raw []string
			for _, part := range ans.L[2].Args() {
				switch part.Head() {
				case "Fields":
					for _, f := range part.Args() {
						fl = append(fl, fmt.Sprintf("%s=%s/%s", f.L[1].S, f.L[2].S, f.L[3].S))
					}
				case "RawFieldSettings":
					for _, f := range part.Args() {
						raw = append(raw, f.S)
					}
				}
			}
			sort.Strings(fl)
			model = strings.Join(fns, "; ") + " | ctor " + ctor + " | fields " + strings.Join(fl, ",") + " | raw " + strings.Join(raw, ";")
		}
		if model != impl[i] {
			e.rep.Violation("", map[string]any{"interface": en.iface, "method": en.meth, "method_lines": en.lines, "implementation": impl[i], "model": model,
				"broken": "correspondence C06: functions attached by `map … | FUNC` / `default FUNC` (comments.ParseDocs + config.Parse) vs Gv.Settings.parseMethodLines"}, false)
		}
	}
	return nil
}
