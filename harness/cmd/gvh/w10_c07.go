package main

import (
	"fmt"
	"strings"

	"gvh/internal/rng"
)

// c07Recursive: the C07 stage over RECURSIVE named types whose conversion becomes fallible only deep below.
//
// goverter decides that a generated helper returns an error while it builds the helper's body; every helper on the way
// from the declared method down to the fallible call gains an error result then, and every helper that was ALREADY
// emitted with a call of one of them has to be rebuilt.  With a recursive type such helpers exist: the one converting
// `*Tree`, `Trees` (a named slice), `TreeMap` (a named map) or the other half of a mutually recursive pair calls back
// into the helper of `Tree` and is built before `Tree`'s later fields are looked at.  The property says what must come
// out whatever the order was: the generated package compiles, every call returns the custom function's error with the
// model's path, or the normal result with a nil error.  Oracle as in the other stages of the campaign: compiled and
// executed, compared with Gv.Gen + Gv.Eval (and the term read back from the emitted code with the model's plan).
func c07Recursive(e *env) error {
	e.rep.Rule += "; plus recursive named types (through a pointer, a named slice type, a named map type, a slice of pointers, an inlined slice, a mutually recursive pair) whose conversion becomes fallible only deep below (a fallible extend function, a fallible method of the source struct or a declared fallible method, reached directly, through one or two further generated helpers, behind pointers, slices and maps), with the recursive fields before and after the fallible one, the declared methods (wrapper struct, slice, pointer, map, the recursive struct itself) in varying order, under the three wrapping modes"
	b, per := 1, 24
	if e.thorough {
		b, per = 6*e.scale, 40
	}
	return runFamilies(e, "C07", "recursive-fallible", famRecFallible, b, per, 5, nil, nil)
}

// rfShuffle permutes xs in place.
func rfShuffle(r *rng.R, xs []string) {
	for i := len(xs) - 1; i > 0; i-- {
		j := r.Intn(i + 1)
		xs[i], xs[j] = xs[j], xs[i]
	}
}

// rfPos: a field `name` holding the struct pair (s, t) directly or behind a pointer / slice / map / slice of pointers.
func rfPos(r *rng.R, name, s, t string) (string, string) {
	sh := rng.Pick(r, []string{"%s", "%s", "*%s", "[]%s", "map[string]%s", "[]*%s"})
	return "\t" + name + " " + fmt.Sprintf(sh, s) + "\n", "\t" + name + " " + fmt.Sprintf(sh, t) + "\n"
}

// famRecFallible: one converter over a recursive struct pair <p>Tree -> <p>TreeT.
func famRecFallible(r *rng.R, id int) *famOut {
	p := fmt.Sprintf("Rf%d", id)
	f := &famOut{}
	var ty, cu strings.Builder
	tree, treeT := p+"Tree", p+"TreeT"

	// where the fallible call sits: an extend function on a leaf type, a method of the source struct matched by name, or a
	// DECLARED fallible method for the leaf pair (the helpers above it learn about the error from the callee's signature)
	site := rng.Pick(r, []string{"extend", "extend", "method", "declared"})
	// helpers between the recursive struct and the fallible call: 0 = in the recursive struct itself (extend only),
	// 1 = in a nested named struct, 2 = one more named struct in between
	depth := 1 + r.Intn(2)
	if site == "extend" && r.Chance(20) {
		depth = 0
	}
	withCtx := site != "method" && r.Chance(25)

	// the leaf pair of the custom function
	var aSrc, aTgt []string // field lines holding the leaf type (source / target side)
	if site != "method" {
		srcKind := rng.Pick(r, []string{"struct", "int", "string"})
		switch srcKind {
		case "struct":
			fmt.Fprintf(&ty, "type %sA struct {\n\tV int\n\tW string\n}\n", p)
		case "int":
			fmt.Fprintf(&ty, "type %sA int\n", p)
		default:
			fmt.Fprintf(&ty, "type %sA string\n", p)
		}
		fmt.Fprintf(&ty, "type %sB struct {\n\tStamp string\n}\n", p)
		params, args, doc := "s "+p+"A", "s", ""
		if withCtx {
			params, args, doc = params+", ctxTag string", "s, ctxTag", "// goverter:context ctxTag\n"
		}
		fn := "Ext" + p
		fmt.Fprintf(&cu, "%[5]sfunc %[2]s(%[3]s) (%[1]sB, error) {\n\tif rt.Fails(%[2]q, s) {\n\t\treturn %[1]sB{}, rt.Boom(%[2]q)\n\t}\n\treturn %[1]sB{Stamp: rt.Stamp(%[2]q, %[4]s)}, nil\n}\n\n", p, fn, params, args, doc)
		if srcKind == "string" {
			f.FailOn = append(f.FailOn, [2]string{fn, "poison"})
		} else {
			f.FailOn = append(f.FailOn, [2]string{fn, "13"})
		}
		shapes := []string{"A %s", "PA *%s", "LA []%s", "MA map[string]%s"}
		rfShuffle(r, shapes)
		for _, sh := range shapes[:1+r.Intn(2)] {
			aSrc = append(aSrc, "\t"+fmt.Sprintf(sh, p+"A")+"\n")
			aTgt = append(aTgt, "\t"+fmt.Sprintf(sh, p+"B")+"\n")
		}
	}

	// the carrier: the field of the recursive struct below which the fallible call sits
	var carS, carT []string
	if depth == 0 {
		carS, carT = aSrc, aTgt
	} else {
		leaf, leafT := p+"Leaf", p+"LeafT"
		if site == "method" {
			fn := "Tag" + p
			fmt.Fprintf(&ty, "type %[1]s struct {\n\tName string\n\tK    int\n}\ntype %[2]s struct {\n\t%[3]s string\n\tK    int\n}\n", leaf, leafT, fn)
			fmt.Fprintf(&cu, "func (s %[1]s) %[2]s() (string, error) {\n\tif rt.Fails(%[2]q, s) {\n\t\treturn \"\", rt.Boom(%[2]q)\n\t}\n\treturn rt.Stamp(%[2]q, s), nil\n}\n\n", leaf, fn)
			f.FailOn = append(f.FailOn, [2]string{fn, "poison"})
		} else {
			ls := append([]string{"\tK int\n"}, aSrc...)
			lt := append([]string{"\tK int\n"}, aTgt...)
			if r.Bool() {
				ls, lt = append(aSrc[:len(aSrc):len(aSrc)], "\tK int\n"), append(aTgt[:len(aTgt):len(aTgt)], "\tK int\n")
			}
			fmt.Fprintf(&ty, "type %s struct {\n%s}\ntype %s struct {\n%s}\n", leaf, strings.Join(ls, ""), leafT, strings.Join(lt, ""))
		}
		ls, lt := rfPos(r, "Leaf", leaf, leafT)
		if depth == 1 {
			carS, carT = []string{ls}, []string{lt}
		} else {
			mid, midT := p+"Mid", p+"MidT"
			if r.Bool() {
				fmt.Fprintf(&ty, "type %s struct {\n\tN int\n%s}\ntype %s struct {\n\tN int\n%s}\n", mid, ls, midT, lt)
			} else {
				fmt.Fprintf(&ty, "type %s struct {\n%s\tN int\n}\ntype %s struct {\n%s\tN int\n}\n", mid, ls, midT, lt)
			}
			ms, mt := rfPos(r, "Mid", mid, midT)
			carS, carT = []string{ms}, []string{mt}
		}
	}

	// the recursive links
	type link struct{ s, t, decl string }
	links := []link{
		{"\tNext *" + tree + "\n", "\tNext *" + treeT + "\n", ""},
		{"\tKids " + p + "Trees\n", "\tKids " + p + "TreesT\n", fmt.Sprintf("type %[1]sTrees []%[1]sTree\ntype %[1]sTreesT []%[1]sTreeT\n", p)},
		{"\tByKey " + p + "TreeMap\n", "\tByKey " + p + "TreeMapT\n", fmt.Sprintf("type %[1]sTreeMap map[string]%[1]sTree\ntype %[1]sTreeMapT map[string]%[1]sTreeT\n", p)},
		{"\tPKids []*" + tree + "\n", "\tPKids []*" + treeT + "\n", ""},
		{"\tIKids []" + tree + "\n", "\tIKids []" + treeT + "\n", ""},
		{"\tTwin *" + p + "Twin\n", "\tTwin *" + p + "TwinT\n", fmt.Sprintf("type %[1]sTwin struct {\n\tBack *%[1]sTree\n\tN    int\n}\ntype %[1]sTwinT struct {\n\tBack *%[1]sTreeT\n\tN    int\n}\n", p)},
		{"\tPNamed *" + p + "Trees2\n", "\tPNamed *" + p + "Trees2T\n", fmt.Sprintf("type %[1]sTrees2 []*%[1]sTree\ntype %[1]sTrees2T []*%[1]sTreeT\n", p)},
	}
	// the first three and the mutual pair are the shapes converted by a helper of their own that calls back
	order := []int{0, 1, 2, 5, 0, 1, 2, 3, 4, 6}
	first := order[r.Intn(len(order))]
	picked := []int{first}
	if r.Chance(35) {
		if second := r.Intn(len(links)); second != first {
			picked = append(picked, second)
		}
	}
	var fs, ft []int // indices into the field lists, shuffled together
	var srcF, tgtF []string
	for _, li := range picked {
		ty.WriteString(links[li].decl)
		srcF, tgtF = append(srcF, links[li].s), append(tgtF, links[li].t)
	}
	srcF, tgtF = append(srcF, carS...), append(tgtF, carT...)
	srcF, tgtF = append(srcF, "\tK int\n"), append(tgtF, "\tK int\n")
	for i := range srcF {
		fs = append(fs, i)
	}
	for i := len(fs) - 1; i > 0; i-- {
		j := r.Intn(i + 1)
		fs[i], fs[j] = fs[j], fs[i]
	}
	// goverter walks the TARGET's fields in order; the source order is varied independently
	ft = append(ft, fs...)
	if r.Chance(30) {
		for i := len(fs) - 1; i > 0; i-- {
			j := r.Intn(i + 1)
			fs[i], fs[j] = fs[j], fs[i]
		}
	}
	fmt.Fprintf(&ty, "type %s struct {\n", tree)
	for _, i := range fs {
		ty.WriteString(srcF[i])
	}
	fmt.Fprintf(&ty, "}\ntype %s struct {\n", treeT)
	for _, i := range ft {
		ty.WriteString(tgtF[i])
	}
	ty.WriteString("}\n")
	fmt.Fprintf(&ty, "type %[1]sIn struct {\n\tN    int\n\tRoot %[1]sTree\n}\ntype %[1]sOut struct {\n\tN    int\n\tRoot %[1]sTreeT\n}\n", p)

	// the converter
	var b strings.Builder
	b.WriteString("// goverter:converter\n")
	if site != "method" {
		b.WriteString("// goverter:extend Ext" + p + "\n")
	}
	if wm := rng.Pick(r, wrapModes); wm != "" {
		b.WriteString("// goverter:" + wm + "\n")
	}
	if r.Chance(25) {
		b.WriteString("// goverter:skipCopySameType\n")
	}
	b.WriteString("type " + p + "C interface {\n")
	type meth struct{ name, s, t string }
	roots := []meth{
		{"Root", p + "In", p + "Out"}, {"List", "[]" + tree, "[]" + treeT}, {"Ptr", "*" + tree, "*" + treeT},
		{"MapOf", "map[string]" + tree, "map[string]" + treeT}, {"Tree", tree, treeT},
	}
	var ms []meth
	if r.Chance(65) {
		ms = append(ms, roots[0])
	}
	for _, m := range roots[1:] {
		if r.Chance(22) {
			ms = append(ms, m)
		}
	}
	if len(ms) == 0 {
		ms = append(ms, roots[r.Intn(2)])
	}
	if site == "declared" {
		ms = append(ms, meth{"LeafConv", p + "Leaf", p + "LeafT"})
	}
	for i := len(ms) - 1; i > 0; i-- {
		j := r.Intn(i + 1)
		ms[i], ms[j] = ms[j], ms[i]
	}
	// rarely a declared method without an error result: goverter must refuse (compared with the model's diagnostic)
	noErr := -1
	if r.Chance(6) {
		noErr = r.Intn(len(ms))
	}
	for i, m := range ms {
		params, res := "source "+m.s, "("+m.t+", error)"
		if withCtx {
			b.WriteString("\t// goverter:context ctxTag\n")
			params += ", ctxTag string"
		}
		if i == noErr {
			res = m.t
		}
		b.WriteString("\t" + m.name + "(" + params + ") " + res + "\n")
	}
	b.WriteString("}\n\n")
	f.Types, f.Custom = ty.String(), cu.String()
	f.add(p+"C", b.String())
	return f
}

// buildErrSources: the declarations (types and converter interface) of the family instances a build error names. Family
// instances prefix all their identifiers with the converter's name minus its final `C` (X12, M3, Rf4, …).
func buildErrSources(buildOutput string, kbs []*k2Batch) map[string]string {
	out := map[string]string{}
	for _, kb := range kbs {
		for _, name := range kb.Order {
			prefix := strings.TrimSuffix(name, "C")
			if prefix == name || prefix == "" || len(out) >= 4 {
				continue
			}
			named := func(s string) bool {
				for i := strings.Index(s, prefix); i >= 0; {
					rest := s[i+len(prefix):]
					if rest != "" && rest[0] >= 'A' && rest[0] <= 'Z' {
						return true
					}
					j := strings.Index(rest, prefix)
					if j < 0 {
						break
					}
					i += len(prefix) + j
				}
				return false
			}
			if !named(buildOutput) {
				continue
			}
			var b strings.Builder
			for _, chunk := range strings.Split("\n"+kb.Types, "\ntype ") {
				if named(strings.SplitN(chunk, " ", 2)[0]) {
					b.WriteString("type " + chunk + "\n")
				}
			}
			out[name] = b.String() + kb.Convs[name]
		}
	}
	return out
}
