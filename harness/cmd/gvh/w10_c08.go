package main

import (
	"fmt"
	"strings"

	"gvh/internal/rng"
)

// C08, member matching is by the IDENTICAL name and by nothing else: enum pairs (two packages, same short member names) whose
// member sets differ only in the capitalisation of some members (Red / RED / ReD / REd), crossed with the converter-level and
// command-line settings that belong to OTHER mechanisms (matchIgnoreCase, ignoreMissing, ignoreUnexported,
// useZeroValueOnPointerInconsistency, wrapErrors) and with the three name sources of the property (enum:map, enum:transform
// regex, identical name).  A source member that has no identically spelled target and neither an enum:map entry nor a
// transformer result must make generation fail, whatever the field-matching settings say; with a target that carries the same
// spelling next to other capitalisations the identically spelled one is chosen.  The pair is converted top level and as field,
// slice element and map value of a struct pair whose own fields may differ in case (that is what matchIgnoreCase is for).
// Outcome and calls are compared with Gv.Gen + Gv.Eval as everywhere in the campaign.

var w10CaseVariants = map[string][]string{
	"Red":   {"Red", "RED", "ReD", "REd"},
	"Green": {"Green", "GREEN", "GReen"},
	"Blue":  {"Blue", "BLUE", "BLue", "BluE"},
}

// famEnumCase: cliIgnoreCase says that the batch is generated with `-g matchIgnoreCase` (then the converter need not repeat it).
func famEnumCase(cliIgnoreCase bool) func(r *rng.R, id int) *famOut {
	return func(r *rng.R, id int) *famOut {
		p := fmt.Sprintf("K%d", id)
		f := &famOut{}
		under := rng.Pick(r, []string{"int", "string", "uint8"})
		lit := func(i int) string {
			if under == "string" {
				return fmt.Sprintf("%q", fmt.Sprintf("v%d", i))
			}
			return fmt.Sprint(i)
		}
		bases := []string{"Red", "Green", "Blue"}
		// clean instances: every source member has an identically spelled target (other capitalisations may stand next to it)
		clean := r.Chance(35)
		type member struct {
			src  string
			tgts []string
			open bool // no identically spelled target
		}
		var ms []member
		others := func(base, not string, n int) []string {
			var pool, out []string
			for _, v := range w10CaseVariants[base] {
				if v != not {
					pool = append(pool, v)
				}
			}
			for len(out) < n && len(pool) > 0 {
				i := r.Intn(len(pool))
				out = append(out, pool[i])
				pool = append(pool[:i], pool[i+1:]...)
			}
			return out
		}
		anyOpen := false
		for _, b := range bases {
			m := member{src: rng.Pick(r, w10CaseVariants[b])}
			k := r.Intn(10)
			if clean && k >= 6 {
				k -= 6
			}
			switch {
			case k < 4:
				m.tgts = []string{m.src}
			case k < 6:
				m.tgts = append([]string{m.src}, others(b, m.src, 1+r.Intn(2))...)
			case k < 8:
				m.tgts, m.open = others(b, m.src, 1), true
			default:
				m.tgts, m.open = others(b, m.src, 2), true
			}
			anyOpen = anyOpen || m.open
			ms = append(ms, m)
		}
		ka, kb := strings.ToLower(p)+"ka", strings.ToLower(p)+"kb"
		var sa, sb strings.Builder
		sa.WriteString(fmt.Sprintf("package %s\n\ntype Color %s\n\nconst (\n", ka, under))
		sb.WriteString(fmt.Sprintf("package %s\n\ntype Color %s\n\nconst (\n", kb, under))
		n := 0
		for i, m := range ms {
			sa.WriteString(fmt.Sprintf("\t%s Color = %s\n", m.src, lit(i+1)))
			for _, t := range m.tgts {
				n++
				sb.WriteString(fmt.Sprintf("\t%s Color = %s\n", t, lit(10+n)))
			}
		}
		sa.WriteString(")\n")
		sb.WriteString(fmt.Sprintf("\tUnknown Color = %s\n)\n", lit(99)))
		f.Pkgs = map[string]string{ka + "/e.go": sa.String(), kb + "/e.go": sb.String()}
		f.TypeImports = []string{fmt.Sprintf("%q", "MODULE/"+ka), fmt.Sprintf("%q", "MODULE/"+kb)}
		f.ConvAnchors = []string{fmt.Sprintf("var _ = %s.Unknown", kb), fmt.Sprintf("var _ %s.Color", ka)}

		// settings of other mechanisms
		var flags []string
		ignoreCase := cliIgnoreCase
		if !cliIgnoreCase && r.Chance(60) || cliIgnoreCase && r.Chance(25) {
			flags = append(flags, "matchIgnoreCase")
			ignoreCase = true
		}
		ignoreMissing, ignoreUnexported := r.Chance(30), r.Chance(30)
		if ignoreMissing {
			flags = append(flags, "ignoreMissing")
		}
		if ignoreUnexported {
			flags = append(flags, "ignoreUnexported")
		}
		if r.Chance(20) {
			flags = append(flags, "useZeroValueOnPointerInconsistency")
		}
		if r.Chance(25) {
			flags = append(flags, "wrapErrors")
		}
		for i := len(flags) - 1; i > 0; i-- {
			j := r.Intn(i + 1)
			flags[i], flags[j] = flags[j], flags[i]
		}

		// the struct pair around the enums: with matchIgnoreCase in effect its own field names differ in case
		idS, idT := "ID", "ID"
		if ignoreCase {
			idT = "Id"
		}
		extraT := ""
		if ignoreMissing && r.Bool() {
			extraT += "\tNote string\n"
		}
		if ignoreUnexported && r.Bool() {
			extraT += "\thidden int\n"
		}
		f.Types = fmt.Sprintf("type %[1]sItem struct {\n\t%[4]s int\n\tColor %[2]s.Color\n\tCs []%[2]s.Color\n\tCm map[string]%[2]s.Color\n}\ntype %[1]sItemT struct {\n\t%[5]s int\n\tColor %[3]s.Color\n\tCs []%[3]s.Color\n\tCm map[string]%[3]s.Color\n%[6]s}\n",
			p, ka, kb, idS, idT, extraT)

		var b strings.Builder
		b.WriteString("// goverter:converter\n")
		for _, fl := range flags {
			b.WriteString("// goverter:" + fl + "\n")
		}
		unknown := rng.Pick(r, []string{"@error", "@panic", "@ignore", "Unknown", "@error", "Unknown"})
		if r.Chance(4) {
			unknown = ""
		}
		if unknown != "" {
			b.WriteString("// goverter:enum:unknown " + unknown + "\n")
		}
		b.WriteString("type " + p + "C interface {\n")
		needErr := unknown == "@error"
		// the name sources on the top-level method: explicit entries and transformers for (some of) the members without an
		// identically spelled target; now and then an explicit entry for a member that has one (the entry wins)
		var lines []string
		resolveAll := r.Bool()
		for _, m := range ms {
			switch {
			case m.open && (resolveAll || r.Bool()):
				t := rng.Pick(r, m.tgts)
				switch r.Intn(10) {
				case 0:
					t = rng.Pick(r, []string{"@ignore", "@error", "@panic"})
					needErr = needErr || t == "@error"
					fallthrough
				case 1, 2, 3, 4, 5:
					lines = append(lines, fmt.Sprintf("enum:map %s %s", m.src, t))
				default:
					lines = append(lines, fmt.Sprintf("enum:transform regex ^%s$ %s", m.src, t))
				}
			case !m.open && len(m.tgts) > 1 && r.Chance(25):
				lines = append(lines, fmt.Sprintf("enum:map %s %s", m.src, m.tgts[1+r.Intn(len(m.tgts)-1)]))
			}
		}
		res := func(t string) string {
			if needErr || r.Chance(25) {
				return "(" + t + ", error)"
			}
			return t
		}
		hasOne := r.Chance(80)
		if hasOne {
			for _, l := range lines {
				b.WriteString("\t// goverter:" + l + "\n")
			}
			b.WriteString(fmt.Sprintf("\tOne(source %s.Color) %s\n", ka, res(kb+".Color")))
		}
		if !hasOne || r.Chance(65) {
			b.WriteString(fmt.Sprintf("\tItem(source %sItem) %s\n", p, res(p+"ItemT")))
		}
		if r.Chance(30) {
			b.WriteString(fmt.Sprintf("\tMany(source []%s.Color) %s\n", ka, res("[]"+kb+".Color")))
		}
		b.WriteString("}\n\n")
		f.add(p+"C", b.String())
		return f
	}
}

// w10C08 runs the case-variant enum families: converter-level settings in some batches, `-g matchIgnoreCase` in another.
func w10C08(e *env) error {
	e.rep.Rule += "; plus enum pairs whose member sets differ only in the capitalisation of members (Red / RED / ReD), with and without enum:map / enum:transform entries for them, under the settings of other mechanisms at converter level and on the command line (matchIgnoreCase, ignoreMissing, ignoreUnexported, useZeroValueOnPointerInconsistency, wrapErrors): only the identical name counts"
	nb, per := 2, 20
	if e.thorough {
		nb, per = 4*e.scale, 40
	}
	r := e.r.Fork(0xC08CA5E)
	var kbs []*k2Batch
	mk := func(tag string, b int, global []string) {
		var fs []*famOut
		for i := 0; i < per; i++ {
			fs = append(fs, famEnumCase(len(global) > 0)(r, b*1000+i))
		}
		kb := merge(fs...).batch(tag, 8)
		kb.Global = global
		kb.Spec = "fragment"
		kbs = append(kbs, kb)
	}
	for b := 0; b < nb; b++ {
		mk("enum-case", b, nil)
	}
	for b := 0; b < (nb+1)/2; b++ {
		mk("enum-case-cli", nb+b, []string{"matchIgnoreCase"})
	}
	res, err := runK2(e, "c08enumcase", kbs)
	if err != nil {
		return err
	}
	const prop = "C08"
	for _, be := range res.BuildErrors {
		e.rep.Violation("generated-code-does-not-compile", map[string]any{"build_output": be, "broken": prop + ": code emitted for a successful generation does not compile"}, false)
	}
	for _, gm := range res.GenMismatch {
		gm["broken"] = "correspondence " + prop + ": generation outcome, Gv.Gen.generate vs generator.Generate"
		e.rep.Violation("", gm, false)
	}
	e.rep.Eval(len(res.Calls) + res.GenCompared)
	for k, v := range res.GenOutcomes {
		for i := 0; i < v; i++ {
			e.rep.Count("enum-case.gen." + k)
		}
	}
	for i, c := range res.Calls {
		e.rep.Nontrivial(c.Source + c.Method + strings.Join(c.Values, " "))
		head := c.Impl
		if j := strings.Index(head, " "); j > 0 {
			head = head[:j]
		}
		e.rep.Count(c.Batch + ".call." + strings.Trim(head, "()"))
		if c.Impl != c.Model {
			e.rep.Violation("", map[string]any{"call": c, "broken": "correspondence " + prop + ": the compiled generated code vs Gv.Gen + Gv.Eval (enum members are matched by the identical name only)"}, false)
			continue
		}
		if i%499 == 0 {
			e.rep.Sample(map[string]any{"converter": c.Source, "method": c.Method, "arguments": c.Values, "result": truncate(c.Impl, 400)})
		}
	}
	e.rep.Note("enum-case: converters executed: %d, outside the modelled fragment: %d", res.Generated, res.Unsupported)
	return nil
}
