package main

import (
	"fmt"
	"strings"

	"gvh/internal/rng"
)

// famRecCustoms (C06): custom functions around RECURSIVE types below a declared method that supplies the context.
//
// A recursive node type (recursion through a pointer, a slice of pointers, a named slice of pointers, a map of pointers, a
// plain slice, or two of them) carries two or three fields converted by extend functions; each function independently
// takes a context argument (string or int, before or after the source) and / or returns an error, and the fields stand in a
// random order before, between and after the recursive fields.  The node is reached from the declared method directly or
// through a wrapper (struct field, pointer, slice, map), so that it is converted by a generated helper which receives its
// error result and its context parameters while it is being built — after other helpers of the recursion were emitted with
// a call to it.  Whatever the order, the property says: the function is the conversion of its pair at every depth, with the
// declared method's context argument passed unchanged; generation fails only when the declared method lacks a required
// context.  Oracle: generation outcome and every executed call against Gv.Gen + Gv.Eval (runFamilies).
func famRecCustoms(r *rng.R, id int) *famOut {
	p := fmt.Sprintf("RC%d", id)
	f := &famOut{}
	type fn struct {
		field    string // field name in the node
		name     string
		fallible bool
		ctx      string // "", "tag" (ctxTag string), "num" (ctxNum int)
		ctxFirst bool
		src      string // source kind: struct / int / string
	}
	nfn := 2 + r.Intn(2)
	fns := make([]*fn, nfn)
	for i := range fns {
		fns[i] = &fn{field: string(rune('V' + i)), name: fmt.Sprintf("Ext%s%c", p, 'V'+i), fallible: r.Chance(45), src: rng.Pick(r, []string{"struct", "struct", "int", "string"})}
		switch x := r.Intn(10); {
		case x < 4:
			fns[i].ctx = "tag"
		case x < 6:
			fns[i].ctx = "num"
		}
		fns[i].ctxFirst = r.Chance(30)
	}
	// most instances pair an error result on one function with a context on ANOTHER one (the two retrofits of a generated
	// helper then arrive separately, in the order of the target fields)
	if r.Chance(70) {
		a, b := 0, 1
		if r.Bool() {
			a, b = 1, 0
		}
		fns[a].fallible = true
		if fns[b].ctx == "" {
			fns[b].ctx = rng.Pick(r, []string{"tag", "tag", "num"})
		}
		if r.Chance(60) {
			fns[a].ctx, fns[b].fallible = "", false
		}
	}
	var ty, cu strings.Builder
	needTag, needNum, anyFallible := false, false, false
	for _, x := range fns {
		a, b := p+x.field+"a", p+x.field+"b"
		switch x.src {
		case "struct":
			ty.WriteString(fmt.Sprintf("type %s struct {\n\tN int\n\tS string\n}\n", a))
		case "int":
			ty.WriteString(fmt.Sprintf("type %s int\n", a))
		default:
			ty.WriteString(fmt.Sprintf("type %s string\n", a))
		}
		ty.WriteString(fmt.Sprintf("type %s struct {\n\tStamp string\n}\n", b))
		params, args, doc := []string{"s " + a}, []string{"s"}, ""
		switch x.ctx {
		case "tag":
			needTag = true
			doc = "// goverter:context ctxTag\n"
			if x.ctxFirst {
				params = []string{"ctxTag string", "s " + a}
			} else {
				params = append(params, "ctxTag string")
			}
			args = append(args, "ctxTag")
			if x.ctxFirst {
				args = []string{"ctxTag", "s"}
			}
		case "num":
			needNum = true
			doc = "// goverter:context ctxNum\n"
			if x.ctxFirst {
				params = []string{"ctxNum int", "s " + a}
			} else {
				params = append(params, "ctxNum int")
			}
			args = append(args, "ctxNum")
			if x.ctxFirst {
				args = []string{"ctxNum", "s"}
			}
		}
		ret := b
		body := fmt.Sprintf("return %s{Stamp: rt.Stamp(%q, %s)}", b, x.name, strings.Join(args, ", "))
		if x.fallible {
			anyFallible = true
			ret = "(" + b + ", error)"
			// the harness convention (rt.Fails, Sem.failsOn): a fallible function fails on the payload of its FIRST argument
			first, payload := "s", "13"
			if x.src == "string" {
				payload = "poison"
			}
			if x.ctxFirst && x.ctx == "tag" {
				first, payload = "ctxTag", "poison"
			} else if x.ctxFirst && x.ctx == "num" {
				first, payload = "ctxNum", "13"
			}
			body = fmt.Sprintf("if rt.Fails(%[2]q, %[4]s) {\n\t\treturn %[1]s{}, rt.Boom(%[2]q)\n\t}\n\treturn %[1]s{Stamp: rt.Stamp(%[2]q, %[3]s)}, nil", b, x.name, strings.Join(args, ", "), first)
			f.FailOn = append(f.FailOn, [2]string{x.name, payload})
		}
		cu.WriteString(fmt.Sprintf("%sfunc %s(%s) %s {\n\t%s\n}\n\n", doc, x.name, strings.Join(params, ", "), ret, body))
	}
	// the recursive fields
	node, nodeT := p+"Node", p+"NodeT"
	type rec struct{ name, s, t string }
	recPool := []rec{
		{"Kids", "[]*" + node, "[]*" + nodeT},
		{"Next", "*" + node, "*" + nodeT},
		{"Named", p + "List", p + "ListT"},
		{"ByKey", "map[string]*" + node, "map[string]*" + nodeT},
		{"Plain", "[]" + node, "[]" + nodeT},
		{"PM", "map[string]" + node, "map[string]" + nodeT},
	}
	ty.WriteString(fmt.Sprintf("type %[1]sList []*%[1]sNode\ntype %[1]sListT []*%[1]sNodeT\n", p))
	var recs []rec
	first := r.Intn(len(recPool))
	if r.Chance(55) {
		first = r.Intn(4) // the shapes whose recursion goes through a helper of its own
	}
	recs = append(recs, recPool[first])
	if r.Chance(25) {
		if second := r.Intn(len(recPool)); second != first {
			recs = append(recs, recPool[second])
		}
	}
	// field order: a random interleaving of custom fields, recursive fields and a plain one
	type fld struct{ name, s, t string }
	var fields []fld
	for _, x := range fns {
		fields = append(fields, fld{x.field, p + x.field + "a", p + x.field + "b"})
	}
	shuffle := func(fs []fld) {
		for i := len(fs) - 1; i > 0; i-- {
			j := r.Intn(i + 1)
			fs[i], fs[j] = fs[j], fs[i]
		}
	}
	insert := func(at int, x fld) {
		fields = append(fields[:at], append([]fld{x}, fields[at:]...)...)
	}
	if r.Chance(55) {
		// the recursive fields BETWEEN custom fields: some function is met before the recursion is entered, another one
		// only after the helpers of the recursion were emitted
		shuffle(fields)
		for _, rc := range recs {
			insert(1+r.Intn(len(fields)-1), fld{rc.name, rc.s, rc.t})
		}
		insert(r.Intn(len(fields)+1), fld{"K", "int", "int"})
	} else {
		for _, rc := range recs {
			fields = append(fields, fld{rc.name, rc.s, rc.t})
		}
		fields = append(fields, fld{"K", "int", "int"})
		shuffle(fields)
	}
	// custom fields also at list / pointer positions of the node now and then
	if r.Chance(30) {
		x := rng.Pick(r, fns)
		sh := rng.Pick(r, []string{"[]", "*", "map[string]"})
		at := r.Intn(len(fields) + 1)
		fields = append(fields[:at], append([]fld{{"More", sh + p + x.field + "a", sh + p + x.field + "b"}}, fields[at:]...)...)
	}
	var sb, tb strings.Builder
	sb.WriteString("type " + node + " struct {\n")
	tb.WriteString("type " + nodeT + " struct {\n")
	// the target field order decides the order in which the helper meets the functions; the source order is independent
	for _, fl := range fields {
		tb.WriteString("\t" + fl.name + " " + fl.t + "\n")
	}
	srcFields := append([]fld{}, fields...)
	if r.Chance(40) {
		for i := len(srcFields) - 1; i > 0; i-- {
			j := r.Intn(i + 1)
			srcFields[i], srcFields[j] = srcFields[j], srcFields[i]
		}
	}
	for _, fl := range srcFields {
		sb.WriteString("\t" + fl.name + " " + fl.s + "\n")
	}
	sb.WriteString("}\n")
	tb.WriteString("}\n")
	ty.WriteString(sb.String() + tb.String())
	// wrappers
	ty.WriteString(fmt.Sprintf(`type %[1]sRoot struct {
	Top %[1]sNode
}
type %[1]sRootT struct {
	Top %[1]sNodeT
}
type %[1]sRootP struct {
	A   int
	Top *%[1]sNode
}
type %[1]sRootPT struct {
	A   int
	Top *%[1]sNodeT
}
type %[1]sRootL struct {
	Tops []%[1]sNode
	Z    %[1]sVa
}
type %[1]sRootLT struct {
	Tops []%[1]sNodeT
	Z    %[1]sVb
}
`, p))
	f.Types = ty.String()
	f.Custom = cu.String()

	var b strings.Builder
	b.WriteString("// goverter:converter\n")
	var names []string
	for _, x := range fns {
		names = append(names, x.name)
	}
	if r.Bool() {
		b.WriteString("// goverter:extend " + strings.Join(names, " ") + "\n")
	} else {
		for _, n := range names {
			b.WriteString("// goverter:extend " + n + "\n")
		}
	}
	if wm := rng.Pick(r, wrapModes); wm != "" {
		b.WriteString("// goverter:" + wm + "\n")
	}
	conv := p + "C"
	b.WriteString("type " + conv + " interface {\n")
	methods := []struct{ name, s, t string }{
		{"Wrapped", p + "Root", p + "RootT"},
		{"WrappedPtr", p + "RootP", p + "RootPT"},
		{"WrappedList", p + "RootL", p + "RootLT"},
		{"Direct", node, nodeT},
		{"DirectPtr", "*" + node, "*" + nodeT},
		{"List", "[]" + node, "[]" + nodeT},
		{"PtrList", "[]*" + node, "[]*" + nodeT},
		{"Keyed", "map[string]" + node, "map[string]" + nodeT},
	}
	// one or two declared methods per converter (the first one met builds the helpers; a second one reuses them, or is the
	// helper's pair itself and takes its place)
	for i := len(methods) - 1; i > 0; i-- {
		j := r.Intn(i + 1)
		methods[i], methods[j] = methods[j], methods[i]
	}
	nm := 1
	if r.Chance(35) {
		nm = 2
	}
	if r.Chance(60) {
		// the wrapper shapes are the ones where the node is converted by a generated helper
		for i, m := range methods {
			if strings.HasPrefix(m.name, "Wrapped") {
				methods[0], methods[i] = methods[i], methods[0]
				break
			}
		}
	}
	// now and then a declared method lacks a context some function needs: generation must be refused
	lacking := (needTag || needNum) && r.Chance(8)
	for mi := 0; mi < nm; mi++ {
		m := methods[mi]
		var ps []string
		var docs []string
		dropTag, dropNum := false, false
		if lacking && mi == nm-1 {
			if needTag && (!needNum || r.Bool()) {
				dropTag = true
			} else {
				dropNum = true
			}
		}
		if needTag && !dropTag {
			ps = append(ps, "ctxTag string")
			docs = append(docs, "\t// goverter:context ctxTag\n")
		}
		if needNum && !dropNum {
			ps = append(ps, "ctxNum int")
			docs = append(docs, "\t// goverter:context ctxNum\n")
		}
		// a context nobody asks for is legal and simply not passed on
		if !needNum && r.Chance(12) {
			ps = append(ps, "ctxNum int")
			docs = append(docs, "\t// goverter:context ctxNum\n")
		}
		src := "source " + m.s
		switch r.Intn(3) {
		case 0:
			ps = append([]string{src}, ps...)
		case 1:
			ps = append(ps, src)
		default:
			at := 0
			if len(ps) > 0 {
				at = r.Intn(len(ps) + 1)
			}
			ps = append(ps[:at], append([]string{src}, ps[at:]...)...)
		}
		res := m.t
		if anyFallible {
			res = "(" + m.t + ", error)"
		}
		b.WriteString(strings.Join(docs, ""))
		b.WriteString("\t" + m.name + "(" + strings.Join(ps, ", ") + ") " + res + "\n")
	}
	b.WriteString("}\n\n")
	f.add(conv, b.String())
	return f
}

// runRecCustoms runs the family; hooked into the C06 campaign.
func runRecCustoms(e *env, batches, per int) error {
	e.rep.Rule += "; plus custom functions around recursive types: a node type recursive through a pointer / slice of pointers / named slice / map of pointers / plain slice or map (one or two such fields) with 2-3 fields converted by extend functions, each independently with a context argument (string or int, either position) and / or an error result, in every order relative to the recursive fields (target and source order independent), reached from 1-2 declared methods directly or through struct / pointer / slice / map wrappers (generated helpers receive their error result and context parameters while the recursion is being built); the declared method supplies the contexts (now and then it lacks one: generation must be refused): generation outcome and every executed call compared with Gv.Gen + Gv.Eval"
	return runFamilies(e, "C06", "rec-customs", famRecCustoms, batches, per, 5, nil, nil)
}
