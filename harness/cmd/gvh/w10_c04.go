package main

import (
	"fmt"
	"strings"

	"gvh/internal/rng"
)

// sameNamedPointerBatch: pointer mismatches between ONE identical named type on both sides (`*T -> T`, `**T -> T`,
// `T -> *T`, `*T -> *T`), which the mirrored type pairs of the structural batches never contain (the mirror of a named
// type is another named type).  T ranges over named types with reference members (named slice, map, pointer, slice of
// pointers, map of slices, struct with pointer / slice / map fields, a recursive struct) and one struct of basic fields; the position
// is the method signature, a struct field (alone, BEFORE a plain `T -> T` field of the same struct, AFTER it: the order
// decides whether a generated `T -> T` sub-method already exists when the pointer position is built), a slice element,
// a map value, a field behind a second pointer, and the pointer goverter synthesises itself for a `goverter:map A.B B`
// path that crosses a pointer field (no pointer is written at that position of the models).
// useZeroValueOnPointerInconsistency is written on the converter or on the method (it is what makes `*T -> T` legal);
// skipCopySameType is never set, so by C04 no location of the source may occur in the result, whatever T is.
func sameNamedPointerBatch(e *env, r *rng.R) *k2Batch {
	e.rep.Rule += "; plus pointer mismatches between one IDENTICAL named type on both sides (*T -> T, **T -> T, T -> *T, *T -> *T for named slices, maps, pointers and structs with reference members) at top level / field (alone, before and after a plain T field) / element / map value / behind a pointer / through a goverter:map path crossing a pointer, under useZeroValueOnPointerInconsistency on the converter or the method, never with skipCopySameType"
	kb := &k2Batch{Tag: "same-named-pointer-pinned", Convs: map[string]string{}, ValModes: 7, Share: 60, Spec: "fragment"}
	var types strings.Builder
	types.WriteString(`type SnTags []string
type SnAttrs map[string]int
type SnRef *int
type SnPtrs []*int
type SnIndex map[string][]string
type SnGrid [][]int
type SnFlat struct {
	A int
	B string
}
type SnAddr struct {
	Zip   *int
	Lines []string
	Idx   map[string]*int
}
type SnNode struct {
	V    int
	Next *SnNode
	Kids []SnNode
}
`)
	named := []string{"SnTags", "SnAttrs", "SnRef", "SnPtrs", "SnIndex", "SnGrid", "SnFlat", "SnAddr", "SnNode"}
	// (source prefix, target prefix); the first two need useZeroValueOnPointerInconsistency
	ptrs := [][2]string{{"*", ""}, {"**", ""}, {"", "*"}, {"*", "*"}}
	positions := []string{"top", "field", "field-first", "field-last", "elem", "mapval", "behind-pointer", "path", "path-plain-later"}
	n := 0
	for _, T := range named {
		for _, pp := range ptrs {
			for _, pos := range positions {
				sp, tp := pp[0]+T, pp[1]+T
				isPath := strings.HasPrefix(pos, "path")
				if isPath && pp[0] != "*" {
					continue // the path supplies the one pointer of the source side
				}
				// not the whole grid in one run: every (T, *T -> T, position) always, the other pointer shapes by chance
				if !(pp[0] == "*" && pp[1] == "") && !r.Chance(35) {
					continue
				}
				fieldNames := [2]string{"Opt", "Plain"}
				if r.Bool() {
					fieldNames = [2]string{"Zopt", "Aplain"} // fields are built in declaration order, not in name order
				}
				s, t, mapLine := sp, tp, ""
				switch pos {
				case "field":
					types.WriteString(fmt.Sprintf("type SnS%d struct {\n\t%s %s\n\tG int\n}\ntype SnT%d struct {\n\t%s %s\n\tG int\n}\n", n, fieldNames[0], sp, n, fieldNames[0], tp))
					s, t = fmt.Sprintf("SnS%d", n), fmt.Sprintf("SnT%d", n)
				case "field-first":
					types.WriteString(fmt.Sprintf("type SnS%d struct {\n\t%s %s\n\t%s %s\n}\ntype SnT%d struct {\n\t%s %s\n\t%s %s\n}\n", n, fieldNames[0], sp, fieldNames[1], T, n, fieldNames[0], tp, fieldNames[1], T))
					s, t = fmt.Sprintf("SnS%d", n), fmt.Sprintf("SnT%d", n)
				case "field-last":
					types.WriteString(fmt.Sprintf("type SnS%d struct {\n\t%s %s\n\t%s %s\n}\ntype SnT%d struct {\n\t%s %s\n\t%s %s\n}\n", n, fieldNames[1], T, fieldNames[0], sp, n, fieldNames[1], T, fieldNames[0], tp))
					s, t = fmt.Sprintf("SnS%d", n), fmt.Sprintf("SnT%d", n)
				case "elem":
					s, t = "[]"+sp, "[]"+tp
				case "mapval":
					s, t = "map[string]"+sp, "map[string]"+tp
				case "behind-pointer":
					types.WriteString(fmt.Sprintf("type SnI%d struct {\n\tF %s\n\tG int\n}\ntype SnJ%d struct {\n\tF %s\n\tG int\n}\ntype SnS%d struct {\n\tIn *SnI%d\n}\ntype SnT%d struct {\n\tIn *SnJ%d\n}\n", n, sp, n, tp, n, n, n, n))
					s, t = fmt.Sprintf("SnS%d", n), fmt.Sprintf("SnT%d", n)
				case "path", "path-plain-later":
					// the source reaches a `T` through a pointer field; the target field is a `T` (or `*T`)
					later, laterT := "", ""
					if pos == "path-plain-later" {
						later, laterT = "\tPlain "+T+"\n", "\tPlain "+T+"\n"
					}
					types.WriteString(fmt.Sprintf("type SnI%d struct {\n\tLabels %s\n\tN int\n}\ntype SnS%d struct {\n\tProfile *SnI%d\n%s}\ntype SnT%d struct {\n\tLabels %s\n\tN int\n%s}\n", n, T, n, n, later, n, tp, laterT))
					s, t = fmt.Sprintf("SnS%d", n), fmt.Sprintf("SnT%d", n)
					mapLine = "\t// goverter:map Profile.Labels Labels\n\t// goverter:map Profile.N N\n"
				}
				name := fmt.Sprintf("Sn%d", n)
				n++
				flag := "// goverter:useZeroValueOnPointerInconsistency\n"
				conv, meth := flag, ""
				if pp[1] != "" && !isPath && r.Bool() {
					flag, conv = "", "" // no pointer is dropped: legal without the setting as well
				}
				if pos == "top" && pp[0] == "*" && T != "SnRef" && r.Bool() {
					// on the method: generated sub-methods take the converter's settings, so only the signature itself is covered
					conv, meth = "", "\t"+flag
				}
				kb.Convs[name] = "// goverter:converter\n" + conv + "type " + name + " interface {\n" + meth + mapLine + "\tConvert(source " + s + ") " + t + "\n}\n\n"
				kb.Order = append(kb.Order, name)
			}
		}
	}
	kb.Types = types.String()
	return kb
}
