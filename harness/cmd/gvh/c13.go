package main

import (
	"fmt"
	"os"
	"path/filepath"
	"strings"
	"sync"
	"time"

	"gvh/internal/gvx"
	"gvh/internal/rng"
	"gvh/internal/scratch"
	"gvh/internal/tygen"
)

func init() { campaigns["C13"] = runC13 }

var directivePool = []string{
	"map", "map .", "map . F0", "map .. F0", "map F0.F0.F0.F0 F0", "map F0. F0", "map .F0 F0", "map F0 F0 | ", "map F0 | NoSuchFunc", "map F0 F0 | :", "map F0 F0 | a:b:c",
	"ignore", "ignore F0 F0", "ignore .", "ignoreMissing", "ignoreUnexported", "matchIgnoreCase", "skipCopySameType", "useZeroValueOnPointerInconsistency",
	"useUnderlyingTypeMethods", "wrapErrors", "wrapErrorsUsing example.org/none", "enum no", "enum:unknown @ignore", "enum:unknown @panic", "enum:unknown @error",
	"enum:unknown X", "enum:map A B", "enum:map A @ignore", "enum:transform regex (.* $1", "enum:transform regex ( x", "enum:transform regex", "enum:exclude (",
	"enum:exclude a:(", "autoMap F0", "autoMap .", "autoMap F0.F0", "autoMap", "default", "default NoSuch", "default :", "default a:b", "default:update",
	"update source", "update x", "update", "context source", "context", "extend", "extend NoSuch", "extend .*", "extend (", "extend a:b", "extend ./x:Y", "extend :",
	"extend example.org/none:X", "extend .*\\QConv", "extend \\QConv", "extend .*\\QConv\\E", "extend (?i)conv.*", "extend (?P<n>Conv).*", "extend [[:alpha:]]+", "extend a{2,1}", "extend .{1000}", "extend \\pL+",
	"arg:context:regex \\Qctx", "arg:context:regex (?i)^CTX", "enum:exclude .*\\Q", "enum:transform regex \\Qa b", "enum:transform regex (a $2", "output:format function", "output:format bogus", "output:file", "output:file  ", "output:package", "output:package :", "output:package ::",
	"name", "name 1x", "name type", "struct:comment */", "output:raw }", "arg:context:regex (", "arg:context:regex .*", "arg:context:regex", "update:ignoreZeroValueField",
	"update:ignoreZeroValueField:basic no", "", " ", ":", "::", "bogus", "map\tF0\tF0", strings.Repeat("map A.", 200) + "B F0", "map " + strings.Repeat("x", 5000) + " F0",
	"ignore " + strings.Repeat("F0 ", 500),
}

func mutateDirective(r *rng.R, s string) string {
	rs := []rune(s)
	if len(rs) == 0 {
		return s
	}
	switch r.Intn(5) {
	case 0:
		i := r.Intn(len(rs))
		return string(rs[:i]) + string(rs[i+1:])
	case 1:
		i := r.Intn(len(rs))
		return string(rs[:i]) + rng.Pick(r, []string{" ", ".", "|", ":", "(", "*", "\\", "é", "@", "$1"}) + string(rs[i:])
	case 2:
		return s + " " + s
	default:
		return s
	}
}

// walkDirective builds a `map PATH TARGET` line whose path follows REAL fields of the source type: through structs,
// pointers (any number of levels) to structs and to non-structs, ending on a leaf, one element past a leaf, or on a name
// that does not exist.
func walkDirective(r *rng.R, g *tygen.Gen, s, t tygen.T) string {
	var path []string
	cur := s
	for step := 0; step < 5; step++ {
		u := g.Under(cur)
		for {
			p, ok := u.(tygen.Ptr)
			if !ok {
				break
			}
			u = g.Under(p.Elem)
		}
		st, ok := u.(tygen.Struct)
		if !ok || len(st.Fields) == 0 {
			// a leaf (possibly behind pointers): sometimes step past it
			if r.Chance(60) {
				path = append(path, rng.Pick(r, []string{"Oops", "F0", "F1"}))
			}
			break
		}
		f := st.Fields[r.Intn(len(st.Fields))]
		path = append(path, f.Name)
		cur = f.Type
		if r.Chance(25) {
			break
		}
	}
	if len(path) == 0 {
		path = []string{"F0", "Oops"}
	}
	target := "F0"
	if ts, ok := g.Under(t).(tygen.Struct); ok && len(ts.Fields) > 0 {
		target = ts.Fields[r.Intn(len(ts.Fields))].Name
	}
	return "map " + strings.Join(path, ".") + " " + target
}

func runC13(e *env) error {
	e.rep.Rule = "cases = converter interfaces over types drawn from a grammar of everything Go allows in a field (basic kinds incl. uintptr/complex, named, pointers, slices, arrays, maps, structs, func, chan, interfaces incl. error and any, recursive and mutually recursive named types) with directive lines drawn from a pool of well-formed and malformed settings and mutated (dropped/inserted characters, regex metacharacters, very long paths), plus goverter:map paths that follow real fields of the source through structs and pointers to structs and non-structs and step past leaves at converter, method and -g level; each converter is run through the real pipeline in process under recover() and a deadline, and a sample through the goverter binary (exit status 2 = Go panic); plus pinned termination hazards through the binary under a time limit (recursive generic types spelled differently in two packages, mutually recursive generics, recursive slice/pointer/map types, recursion through arrays, 80 levels of nesting) x 5 global settings. Outcome classes: ok | diagnostic | panic | timeout; a diagnostic must name the declaring file. non-trivial = the converter reached the generator or a directive parser; distinct = converter text"
	r := e.r.Fork(13)
	nBatches, perBatch := 3, 120
	if e.thorough {
		nBatches, perBatch = 30*e.scale, 200
	}
	base := filepath.Join(e.scratch, "c13")
	type job struct {
		root    string
		global  []string
		sources map[string]string // converter name -> its source text
	}
	var jobs []job
	for b := 0; b < nBatches; b++ {
		root := filepath.Join(base, fmt.Sprintf("b%d", b))
		g := tygen.New(r.Fork(uint64(b)))
		g.AllowOdd = true
		g.Basics = []string{"int", "string", "bool", "int64", "float64", "uint8", "uintptr", "complex128", "uint", "int32", "float32"}
		var convs strings.Builder
		srcs := map[string]string{}
		// recursive and mutually recursive types
		g.Decls = append(g.Decls,
			&tygen.Decl{Name: "RecA", Under: tygen.Raw{Text: "struct { Next *RecA; Items []RecA; M map[string]RecA; V int }"}},
			&tygen.Decl{Name: "RecB", Under: tygen.Raw{Text: "struct { Next *RecB; Items []RecB; M map[string]RecB; V int }"}},
			&tygen.Decl{Name: "MutA", Under: tygen.Raw{Text: "struct { B *MutB; E error; F func() }"}},
			&tygen.Decl{Name: "MutB", Under: tygen.Raw{Text: "struct { A []MutA; C chan int }"}},
			&tygen.Decl{Name: "MutC", Under: tygen.Raw{Text: "struct { B *MutD; E error; F func() }"}},
			&tygen.Decl{Name: "MutD", Under: tygen.Raw{Text: "struct { A []MutC; C chan int }"}},
			&tygen.Decl{Name: "ErrBox", Under: tygen.Raw{Text: "struct { E error; A any; U uintptr }"}},
			&tygen.Decl{Name: "ErrBox2", Under: tygen.Raw{Text: "struct { E error; A any; U uintptr }"}},
		)
		// paths through pointers to non-structs, double pointers, pointers to slices / funcs / chans / named non-structs
		g.Decls = append(g.Decls,
			&tygen.Decl{Name: "PathBox", Under: tygen.Raw{Text: "struct { Nested struct { Label *string; PP **RecA; N *int; Fn *func(); Ch *chan int; NN *PathNum }; P *PathInner; Name string }"}},
			&tygen.Decl{Name: "PathInner", Under: tygen.Raw{Text: "struct { Q *[]int; M *map[string]int; A *[2]int }"}},
			&tygen.Decl{Name: "PathNum", Under: tygen.Raw{Text: "int"}},
			&tygen.Decl{Name: "PathOut", Under: tygen.Raw{Text: "struct { Name string }"}},
		)
		fixedWalks := []string{"map Nested.Label.Oops Name", "map Nested.PP.V Name", "map Nested.PP.Next.V Name", "map Nested.N.X Name", "map Nested.Fn.X Name",
			"map Nested.Ch.X Name", "map Nested.NN.X Name", "map P.Q.Z Name", "map P.M.Z Name", "map P.A.Z Name", "map Name.X Name", "map P.Q Name", "map Nested.Label Name"}
		// field settings on degenerate structs: targets without fields, names that miss by one letter, empty names
		g.Decls = append(g.Decls,
			&tygen.Decl{Name: "EmptyS", Under: tygen.Raw{Text: "struct{}"}}, &tygen.Decl{Name: "EmptyT", Under: tygen.Raw{Text: "struct{}"}},
			&tygen.Decl{Name: "OneS", Under: tygen.Raw{Text: "struct{ Name string }"}}, &tygen.Decl{Name: "OneT", Under: tygen.Raw{Text: "struct{ Name string }"}},
			&tygen.Decl{Name: "HidT", Under: tygen.Raw{Text: "struct{ name string }"}})
		fixedSettings := [][3]string{{"OneS", "EmptyT", "ignore Name"}, {"OneS", "EmptyT", "map Name Name"}, {"EmptyS", "EmptyT", "ignore X"}, {"EmptyS", "EmptyT", "map . X"},
			{"OneS", "EmptyT", "autoMap Name"}, {"OneS", "OneT", "ignore Nmae"}, {"OneS", "OneT", "map Name Nam"}, {"OneS", "OneT", "map Nam Name"}, {"OneS", "HidT", "ignore Name"},
			{"OneS", "HidT", "map Name name"}, {"EmptyS", "OneT", "ignore Name NAME"}, {"*OneS", "*EmptyT", "ignore Name"}, {"[]OneS", "[]EmptyT", "ignore Name"},
			{"OneS", "EmptyT", "map Name X | strings.ToUpper"}, {"OneS", "EmptyT", "default NewEmptyT"}, {"EmptyS", "EmptyT", "ignoreMissing"}, {"OneS", "OneT", "map  Name"}}
		fixedPairs := [][2]string{{"RecA", "RecB"}, {"MutA", "MutC"}, {"ErrBox", "ErrBox2"}, {"*RecA", "RecB"}, {"[]MutA", "[]*MutC"}, {"error", "error"}, {"any", "any"}, {"ErrBox", "ErrBox"}}
		for i := 0; i < perBatch; i++ {
			name := fmt.Sprintf("C%d", i)
			var src, tgt string
			walked := ""
			if i < len(fixedPairs) {
				src, tgt = fixedPairs[i][0], fixedPairs[i][1]
			} else if i < len(fixedPairs)+len(fixedWalks) {
				src, tgt, walked = "PathBox", "PathOut", fixedWalks[i-len(fixedPairs)]
			} else if k := i - len(fixedPairs) - len(fixedWalks); k < len(fixedSettings) {
				src, tgt, walked = fixedSettings[k][0], fixedSettings[k][1], fixedSettings[k][2]
			} else {
				s := g.Type(1 + r.Intn(3))
				var t tygen.T
				if r.Chance(70) {
					t = g.Mirror(s, tygen.MirrorOpts{PtrFlip: 10, KindFlip: 5, DropField: 10, ReCase: 5, ArrayFlip: 10}, 0)
				} else {
					t = g.Type(1 + r.Intn(2))
				}
				src, tgt = s.Src(), t.Src()
				if r.Chance(35) {
					walked = walkDirective(r, g, s, t)
				}
			}
			var b strings.Builder
			b.WriteString("// goverter:converter\n")
			nl := 0
			if r.Chance(45) {
				nl = 1 + r.Intn(2)
			}
			for k := 0; k < nl; k++ {
				b.WriteString("// goverter:" + sanitizeLine(mutateDirective(r, rng.Pick(r, directivePool))) + "\n")
			}
			b.WriteString("type " + name + " interface {\n")
			if r.Chance(35) {
				b.WriteString("\t// goverter:" + sanitizeLine(mutateDirective(r, rng.Pick(r, directivePool))) + "\n")
			}
			if walked != "" {
				b.WriteString("\t// goverter:" + walked + "\n")
			}
			ret := tgt
			if r.Chance(25) {
				ret = "(" + tgt + ", error)"
			}
			b.WriteString("\tConvert(source " + src + ") " + ret + "\n}\n\n")
			srcs[name] = b.String()
			convs.WriteString(b.String())
		}
		tree := scratch.Tree{
			"go.mod":     fmt.Sprintf("module example.org/c13b%d\n\ngo 1.18\n", b),
			"p/types.go": "package p\n\n" + g.Source(),
			"p/conv.go":  "package p\n\n" + convs.String(),
		}
		if err := scratch.Write(root, tree); err != nil {
			return err
		}
		var global []string
		if b%3 == 1 {
			global = []string{rng.Pick(r, []string{"ignoreMissing", "skipCopySameType", "useZeroValueOnPointerInconsistency", "enum:unknown @ignore", "wrapErrors"})}
		}
		jobs = append(jobs, job{root: root, global: global, sources: srcs})
	}
	var mu sync.Mutex
	var wg sync.WaitGroup
	sem := make(chan struct{}, 8)
	var firstErr error
	for _, j := range jobs {
		wg.Add(1)
		go func(j job) {
			defer wg.Done()
			sem <- struct{}{}
			defer func() { <-sem }()
			batch := gvx.RunBatch(j.root, gvx.Options{Patterns: []string{"./p"}, Global: j.global, Constraint: "!goverter", Deadline: 20 * time.Second})
			mu.Lock()
			defer mu.Unlock()
			if batch.DocsErr != nil {
				if strings.HasPrefix(batch.DocsErr.Error(), "panic") || strings.HasPrefix(batch.DocsErr.Error(), "timeout") {
					e.rep.Violation("panic:docs", map[string]any{"root_files": "p/types.go p/conv.go", "error": truncate(batch.DocsErr.Error(), 3000),
						"broken": "C13: panic/timeout while parsing docs"}, false)
				} else if firstErr == nil {
					firstErr = fmt.Errorf("c13: generated package does not load: %v", truncate(batch.DocsErr.Error(), 2000))
				}
				return
			}
			e.rep.Eval(len(batch.Outcomes))
			for _, oc := range batch.Outcomes {
				e.rep.Count("inproc." + oc.Stage)
				src := j.sources[oc.Raw.InterfaceName]
				e.rep.Nontrivial(src)
				switch oc.Stage {
				case "panic", "timeout":
					class := oc.Stage + ":" + panicSite(oc.Err)
					e.rep.Violation(class, map[string]any{"converter": src, "global": j.global, "outcome": oc.Stage, "error": truncate(oc.Err, 2500),
						"types": "see p/types.go of the replayed batch", "broken": "C13: goverter panicked or did not terminate"}, false)
				case "config", "generate":
					if !strings.Contains(oc.Err, "conv.go") && !strings.Contains(oc.Err, "command line") {
						e.rep.Violation("diag-without-location", map[string]any{"converter": src, "error": truncate(oc.Err, 1500),
							"broken": "C13: diagnostic does not name the offending declaration"}, false)
					}
				}
			}
			if len(batch.Outcomes) > 0 {
				oc := batch.Outcomes[len(batch.Outcomes)/2]
				e.rep.Sample(map[string]any{"converter": j.sources[oc.Raw.InterfaceName], "outcome": oc.Stage, "error_head": truncate(oc.Err, 160)})
			}
		}(j)
	}
	wg.Wait()
	if firstErr != nil {
		return firstErr
	}
	// wave 10: package-less types (error, any, unsafe.Pointer, ...) at every position x every settings family in effect
	if err := c13UniverseCross(e, e.r.Fork(1310), base); err != nil {
		return err
	}
	// the binary on the first batch plus -g fuzz: exit status 2 would be a Go panic
	bin := goverterBin(e)
	nBin := 12
	if e.thorough {
		nBin = 120
	}
	for i := 0; i < nBin; i++ {
		root := filepath.Join(base, fmt.Sprintf("cli%d", i))
		p := tinyProject(i)
		if err := scratch.Write(root, p); err != nil {
			return err
		}
		args := []string{"gen", "-g", mutateDirective(r, rng.Pick(r, directivePool)), "./..."}
		res := scratch.Run(bin, root, args, nil, 60*time.Second)
		e.rep.Eval(1)
		e.rep.Nontrivial("cli:" + strings.Join(args, "\x00"))
		e.rep.Count(fmt.Sprintf("cli.exit%d", res.Exit))
		if res.TimedOut || (res.Exit != 0 && res.Exit != 1) {
			e.rep.Violation("panic:cli", map[string]any{"args": args, "exit": res.Exit, "stderr": truncate(res.Stderr, 2000), "broken": "C13: the goverter binary panicked or hung"}, false)
		}
	}
	// pinned termination hazards, through the binary under a time limit: recursive generic types (also spelled
	// differently in two packages), mutually recursive generics, recursive slice / pointer / map types, deep nesting
	type hzJob struct {
		hz   hazard
		g    string
		root string
		args []string
		res  *scratch.Result
	}
	var hzJobs []*hzJob
	globals := []string{"", "skipCopySameType", "useUnderlyingTypeMethods", "useZeroValueOnPointerInconsistency", "ignoreMissing"}
	hzs := hazardProjects()
	for hi, hz := range hzs {
		for gi, g := range globals {
			hzJobs = append(hzJobs, &hzJob{hz: hz, g: g, root: filepath.Join(base, fmt.Sprintf("hz%d_%d", hi, gi))})
		}
	}
	// self-referential named types through every composition of pointer, slice, array and map constructors (depth 1-2),
	// mutually recursive and generic variants: quick runs them without a global setting, thorough with each
	for hi, hz := range recursiveTypeProjects() {
		gs := globals[:1]
		if e.thorough {
			gs = globals
		}
		for gi, g := range gs {
			hzJobs = append(hzJobs, &hzJob{hz: hz, g: g, root: filepath.Join(base, fmt.Sprintf("rt%d_%d", hi, gi))})
		}
	}
	for hi, hz := range universeHazards() {
		for gi, g := range universeHazardGlobals {
			hzJobs = append(hzJobs, &hzJob{hz: hz, g: g, root: filepath.Join(base, fmt.Sprintf("uh%d_%d", hi, gi))})
		}
	}
	var hwg sync.WaitGroup
	hsem := make(chan struct{}, 8)
	var hzErr error
	var hmu sync.Mutex
	for _, j := range hzJobs {
		hwg.Add(1)
		go func(j *hzJob) {
			defer hwg.Done()
			hsem <- struct{}{}
			defer func() { <-hsem }()
			if err := scratch.Write(j.root, j.hz.tree); err != nil {
				hmu.Lock()
				hzErr = err
				hmu.Unlock()
				return
			}
			j.args = []string{"gen"}
			if j.g != "" {
				j.args = append(j.args, "-g", j.g)
			}
			j.args = append(j.args, "./...")
			r := scratch.Run(bin, j.root, j.args, nil, 40*time.Second)
			j.res = &r
			_ = os.RemoveAll(j.root)
		}(j)
	}
	hwg.Wait()
	if hzErr != nil {
		return hzErr
	}
	for _, j := range hzJobs {
		res := j.res
		e.rep.Eval(1)
		e.rep.Nontrivial("hazard:" + j.hz.name + ":" + j.g)
		e.rep.Count(fmt.Sprintf("hazard.exit%d", res.Exit))
		if res.TimedOut || (res.Exit != 0 && res.Exit != 1) {
			e.rep.Violation("hang-or-panic:"+j.hz.name, map[string]any{"project": j.hz.tree, "args": j.args, "exit": res.Exit, "timed_out": res.TimedOut,
				"stderr": truncate(res.Stderr, 2000), "broken": "C13: the goverter binary panicked or did not terminate within 40 s"}, false)
		}
	}
	return nil
}

type hazard struct {
	name string
	tree scratch.Tree
}

// recursiveTypeProjects: `type L <c1><c2>L` for every composition of type constructors through which Go allows a type to
// refer to itself (at least one pointer, slice or map on the way), converted to a second type of the same shape; mutual
// and generic variants of the array shapes.
func recursiveTypeProjects() []hazard {
	mod := func(src string) scratch.Tree {
		return scratch.Tree{"go.mod": "module example.org/hz\n\ngo 1.18\n", "p/p.go": src}
	}
	conv := func(s, t string) string {
		return "\n// goverter:converter\ntype C interface {\n\tConvert(source " + s + ") " + t + "\n}\n"
	}
	ctors := []string{"*", "[]", "[2]", "map[string]", "map[int]"}
	indirect := func(c string) bool { return c != "[2]" }
	var out []hazard
	for _, c1 := range ctors {
		for _, c2 := range ctors {
			if !indirect(c1) && !indirect(c2) {
				continue
			}
			sh := c1 + c2
			out = append(out, hazard{"recursive-type:" + sh, mod("package p\n\ntype L " + sh + "L\ntype M " + sh + "M\n" + conv("L", "M"))})
		}
	}
	for _, c := range []string{"*", "[]", "map[int]"} {
		out = append(out, hazard{"recursive-type-field:[2]" + c, mod("package p\n\ntype L [2]" + c + "L\ntype M [2]" + c + "M\ntype In struct{ X L }\ntype Out struct{ X M }\n" + conv("In", "Out"))})
		out = append(out, hazard{"recursive-type-mutual:[2]" + c, mod("package p\n\ntype L [2]" + c + "L2\ntype L2 [3]" + c + "L\ntype M [2]" + c + "M2\ntype M2 [3]" + c + "M\n" + conv("L", "M"))})
		out = append(out, hazard{"recursive-type-generic:[2]" + c, mod("package p\n\ntype L[X any] [2]" + c + "L[X]\ntype M[X any] [2]" + c + "M[X]\n" + conv("L[int]", "M[int]"))})
	}
	return out
}

func hazardProjects() []hazard {
	mod := func(files scratch.Tree) scratch.Tree {
		files["go.mod"] = "module example.org/hz\n\ngo 1.18\n"
		return files
	}
	var deep strings.Builder
	deep.WriteString("package p\n\n")
	for i := 0; i < 80; i++ {
		fmt.Fprintf(&deep, "type A%d struct{ N A%d; V int }\ntype B%d struct{ N B%d; V int }\n", i, i+1, i, i+1)
	}
	deep.WriteString("type A80 struct{ V int }\ntype B80 struct{ V int }\n\n// goverter:converter\ntype C interface {\n\tConvert(source A0) B0\n}\n")
	conv := func(s, t string) string {
		return "\n// goverter:converter\ntype C interface {\n\tConvert(source " + s + ") " + t + "\n}\n"
	}
	return []hazard{
		{"generic-recursive-two-spellings", mod(scratch.Tree{
			"tree/tree.go": "package tree\n\ntype Tree[T any] struct {\n\tLabel string\n\tValue T\n\tChildren []Tree[T]\n}\n",
			"api/api.go":   "package api\n\nimport \"example.org/hz/tree\"\n\ntype Doc struct{ Root tree.Tree[any] }\n",
			"store/s.go":   "package store\n\nimport \"example.org/hz/tree\"\n\ntype Doc struct{ Root tree.Tree[interface{}] }\n",
			"p/p.go":       "package p\n\nimport (\n\t\"example.org/hz/api\"\n\t\"example.org/hz/store\"\n)\n" + conv("api.Doc", "store.Doc"),
		})},
		{"generic-recursive-two-spellings-extend", mod(scratch.Tree{
			"tree/tree.go": "package tree\n\ntype Tree[T any] struct {\n\tLabel string\n\tValue T\n\tChildren []Tree[T]\n}\n",
			"api/api.go":   "package api\n\nimport \"example.org/hz/tree\"\n\ntype Doc struct{ Root tree.Tree[any] }\n",
			"store/s.go":   "package store\n\nimport \"example.org/hz/tree\"\n\ntype Doc struct{ Root tree.Tree[interface{}] }\n",
			"p/p.go": "package p\n\nimport (\n\t\"example.org/hz/api\"\n\t\"example.org/hz/store\"\n)\n\n// PassValue hands the payload over unchanged.\nfunc PassValue(v any) interface{} { return v }\n\n" +
				"// goverter:converter\n// goverter:extend PassValue\ntype C interface {\n\tConvert(source api.Doc) store.Doc\n}\n",
		})},
		{"generic-recursive-same", mod(scratch.Tree{
			"p/p.go": "package p\n\ntype Tree[T any] struct {\n\tValue T\n\tKids []Tree[T]\n\tNext *Tree[T]\n}\ntype In struct{ R Tree[int] }\ntype Out struct{ R Tree[int] }\n" + conv("In", "Out"),
		})},
		{"generic-mutual", mod(scratch.Tree{
			"p/p.go": "package p\n\ntype A[T any] struct{ B *B[T]; V T }\ntype B[T any] struct{ A []A[T] }\ntype In struct{ X A[string] }\ntype Out struct{ X A[string] }\n" + conv("In", "Out"),
		})},
		{"recursive-slice-type", mod(scratch.Tree{"p/p.go": "package p\n\ntype L []L\ntype M []M\n" + conv("L", "M")})},
		{"recursive-pointer-type", mod(scratch.Tree{"p/p.go": "package p\n\ntype P *P\ntype Q *Q\n" + conv("P", "Q")})},
		{"recursive-map-type", mod(scratch.Tree{"p/p.go": "package p\n\ntype M map[string]M\ntype N map[string]N\n" + conv("M", "N")})},
		{"recursive-through-array", mod(scratch.Tree{"p/p.go": "package p\n\ntype S struct{ K [2]*S }\ntype T struct{ K []*T }\n" + conv("S", "T")})},
		{"deep-nesting-80", mod(scratch.Tree{"p/p.go": deep.String()})},
		// D21: an update method whose field comes from a function WITHOUT source argument (no value to compare with zero)
		{"update-map-noarg-function", mod(scratch.Tree{"p/p.go": "package p\n\ntype In struct{ A string; B int }\ntype Out struct{ A string; B int }\n\nfunc Def() string { return \"x\" }\nfunc DefErr() (string, error) { return \"x\", nil }\n\n// goverter:converter\n// goverter:update:ignoreZeroValueField\ntype C interface {\n\t// goverter:update target\n\t// goverter:map A | Def\n\tUpdate(source In, target *Out)\n\t// goverter:update target\n\t// goverter:map A | DefErr\n\tUpdateErr(source *In, target *Out) error\n}\n"})},
		// D22: converter interfaces / methods / functions with type parameters
		{"generic-converter-interface", mod(scratch.Tree{"p/p.go": "package p\n\n// goverter:converter\ntype Converter[T any] interface {\n\tConvert(source T) T\n\tList(source []T) []T\n}\n"})},
		// declaration forms the comment stage accepts although the type-checked object is not a defined type: an interface
		// ALIAS, a grouped type spec, an embedded interface, an interface with a type-set element (not usable as a converter)
		{"converter-declared-as-alias", mod(scratch.Tree{"p/p.go": "package p\n\ntype In struct{ A int }\ntype Out struct{ A int }\n\n// goverter:converter\ntype C = interface {\n\tConvert(source In) Out\n}\n"})},
		{"converter-declared-as-alias-of-alias", mod(scratch.Tree{"p/p.go": "package p\n\ntype In struct{ A int }\ntype Out struct{ A int }\n\ntype C interface {\n\tConvert(source In) Out\n}\n\n// goverter:converter\ntype D = C\n"})},
		{"converter-declared-in-group-and-embedded", mod(scratch.Tree{"p/p.go": "package p\n\ntype In struct{ A int }\ntype Out struct{ A int }\n\ntype Base interface {\n\tConvert(source In) Out\n}\n\ntype (\n\t// goverter:converter\n\tC interface {\n\t\tBase\n\t\tOther(source []In) []Out\n\t}\n\t// goverter:converter\n\tE interface{ ~int | ~string }\n)\n"})},
		// a declared method that needs a context converts A -> B; a sibling WITHOUT that context needs A -> B nested, with a
		// further named pair inside that has no helper yet (the sibling sorts first): a diagnostic, in every variant
		{"sibling-lacks-the-context-of-the-declared-method", mod(scratch.Tree{"p/p.go": "package p\n\ntype Detail struct{ N int }\ntype DetailDTO struct{ N int }\ntype Item struct {\n\tD Detail\n\tV int\n}\ntype ItemDTO struct {\n\tD DetailDTO\n\tV int\n}\ntype Order struct{ Items []Item }\ntype OrderDTO struct{ Items []ItemDTO }\n\n// goverter:converter\ntype C interface {\n\tAOrder(source Order) OrderDTO\n\t// goverter:context tag\n\tZItem(source Item, tag string) ItemDTO\n}\n\n// goverter:converter\ntype D interface {\n\tZOrder(source Order) OrderDTO\n\t// goverter:context tag\n\t// goverter:ignore D\n\tAItem(source Item, tag string) ItemDTO\n}\n"})},
		{"generic-extend-and-default", mod(scratch.Tree{"p/p.go": "package p\n\ntype In struct{ A int }\ntype Out struct{ A int }\n\nfunc Id[T any](v T) T { return v }\nfunc New[T any]() T { var z T; return z }\n\n// goverter:converter\n// goverter:extend Id\ntype C interface {\n\t// goverter:default New\n\t// goverter:map A | Id\n\tConvert(source In) Out\n}\n"})},
	}
}

func sanitizeLine(s string) string {
	s = strings.ReplaceAll(s, "\n", " ")
	s = strings.ReplaceAll(s, "\r", " ")
	return s
}

// panicSite extracts the first goverter frame of a panic message, to classify known findings by call site.
func panicSite(msg string) string {
	lines := strings.Split(msg, "\n")
	head := ""
	if len(lines) > 0 {
		head = lines[0]
	}
	for _, l := range lines {
		l = strings.TrimSpace(l)
		if strings.HasPrefix(l, "github.com/jmattheis/goverter/") && !strings.Contains(l, "runtime/debug") {
			fn := strings.TrimPrefix(l, "github.com/jmattheis/goverter/")
			if i := strings.Index(fn, "("); i > 0 {
				fn = fn[:i]
			}
			if strings.HasPrefix(fn, "config.VerifParseEach") {
				continue
			}
			return fn + ": " + truncate(head, 80)
		}
	}
	return truncate(head, 80)
}

func tinyProject(i int) scratch.Tree {
	return scratch.Tree{
		"go.mod": fmt.Sprintf("module example.org/c13cli%d\n\ngo 1.18\n", i),
		"p/p.go": "package p\n\ntype In struct{ V int; P *int }\ntype Out struct{ V int; P *int }\n\n// goverter:converter\ntype C interface {\n\tConvert(source In) Out\n}\n",
	}
}
