package main

import (
	"fmt"
	"go/types"
	"path/filepath"
	"regexp"
	"sort"
	"strings"

	"github.com/jmattheis/goverter/method"

	"gvh/internal/drv"
	"gvh/internal/gvx"
	"gvh/internal/scratch"
	"gvh/internal/sx"
)

// The consumers campaign: the role classification of C14 and the inheritance of C12 observed end to end.
// A scratch package declares converters whose `arg:context:regex` is written on the command line, on the
// converter and/or on the method, before or after the line that names a function; the function (the method
// itself, a `default` constructor, a `map … | FUNC` function, an `extend` function) has a second parameter
// whose role depends on the pattern in effect.  The real configuration stage (config.ParseEach through the
// verif hook) is compared with Gv.Signature.parse under Gv.Signature.effPattern / consumerOpts.

type consCase struct {
	ID                int
	Kind              string // method | default | mapfunc | extend
	CLI, Conv, Meth   string // "" = not written
	After             bool   // the pattern line of the consumer's own level comes after the line naming the function
	PName             string // name of the second parameter ("" = none)
	LocalCtx          bool   // `goverter:context <PName>` on the method
	Shared            bool   // the function is shared with other converters / methods (same name for the same kind and parameter)
	SelfOf            string // the shared extend function takes THIS converter interface as its first parameter (valid for that converter only)
	ConvName, FuncNam string
	// a SIBLING method of the same interface naming the SAME function under its own method-level pattern (the function's
	// parameters are classified per use, not per function): name of the sibling ("" = none) and its pattern
	Twin, TwinMeth string
}

var consPatterns = []string{"", "^ctx", "^oth", "^(ctx|oth)"}

func defToSx(def *method.Definition, names []string) *sx.Node {
	roles := sx.H("roles")
	for _, a := range def.RawArgs {
		roles.Add(sx.A(string(a.Use)))
	}
	for i, a := range def.RawArgs {
		if i < len(names) && a.Name != names[i] {
			roles.Add(sx.A("ORDER-CHANGED"))
		}
	}
	src, tgt := "", ""
	if def.Source != nil {
		src = def.Source.String
	}
	if def.Target != nil {
		tgt = def.Target.String
	}
	var cs []string
	for k := range def.Context {
		cs = append(cs, k)
	}
	sort.Strings(cs)
	multi := sx.H("multi")
	for _, m := range def.MultiSources {
		multi.Add(sx.S(m.String))
	}
	return sx.H("ok", roles, sx.H("source", sx.S(src)), sx.H("target", sx.S(tgt)), sx.H("err", sx.B(def.ReturnError)),
		sx.H("update", sx.B(def.UpdateTarget)), sx.Strs("ctx", cs), multi)
}

func (c *consCase) source() string {
	var b strings.Builder
	second := ""
	if c.PName != "" {
		second = ", " + c.PName + " int"
	}
	pat := func(p string) string { return "// goverter:arg:context:regex " + p + "\n" }
	fmt.Fprintf(&b, "// goverter:converter\n")
	if c.Conv != "" && !(c.Kind == "extend" && c.After) {
		b.WriteString(pat(c.Conv))
	}
	if c.Kind == "extend" {
		fmt.Fprintf(&b, "// goverter:extend %s\n", c.FuncNam)
		if c.Conv != "" && c.After {
			b.WriteString(pat(c.Conv))
		}
	}
	fmt.Fprintf(&b, "type %s interface {\n", c.ConvName)
	var lines []string
	switch c.Kind {
	case "default":
		lines = append(lines, "\t// goverter:default "+c.FuncNam+"\n", "\t// goverter:ignore C\n")
	case "mapfunc":
		lines = append(lines, "\t// goverter:map . C | "+c.FuncNam+"\n")
	default:
		lines = append(lines, "\t// goverter:ignore C\n")
	}
	if c.LocalCtx {
		lines = append(lines, "\t// goverter:context "+c.PName+"\n")
	}
	if c.Meth != "" {
		if c.After && c.Kind != "extend" {
			lines = append(lines, "\t"+pat(c.Meth))
		} else {
			lines = append([]string{"\t" + pat(c.Meth)}, lines...)
		}
	}
	for _, l := range lines {
		b.WriteString(l)
	}
	if c.Kind == "method" && c.LocalCtx && c.PName != "" && c.CLI == "" && c.Conv == "" && c.Meth == "" {
		// siblings whose only parameter carries the name the neighbour declared as context: for them it is the source
		// (a `goverter:context` line belongs to the method it is written on)
		fmt.Fprintf(&b, "\tConvert(source In%s) Out\n\t// goverter:ignore C\n\tZSibling(%s In) Out\n\t// goverter:ignore C\n\tASibling(%s In) Out\n}\n\n", second, c.PName, c.PName)
	} else if c.Kind == "method" {
		fmt.Fprintf(&b, "\tConvert(source In%s) Out\n}\n\n", second)
	} else if c.Twin != "" {
		fmt.Fprintf(&b, "\tConvert(source In) Out\n")
		if c.TwinMeth != "" {
			b.WriteString("\t" + pat(c.TwinMeth))
		}
		switch c.Kind {
		case "default":
			b.WriteString("\t// goverter:default " + c.FuncNam + "\n\t// goverter:ignore C\n")
		case "mapfunc":
			b.WriteString("\t// goverter:map . C | " + c.FuncNam + "\n")
		}
		fmt.Fprintf(&b, "\t%s(source *In) *Out\n}\n\n", c.Twin)
	} else {
		fmt.Fprintf(&b, "\tConvert(source In) Out\n}\n\n")
	}
	if !c.Shared {
		b.WriteString(c.funcDecl())
	}
	return b.String()
}

// funcDecl is the declaration of the function the case names (emitted once per package for shared functions).
func (c *consCase) funcDecl() string {
	second := ""
	if c.PName != "" {
		second = ", " + c.PName + " int"
	}
	if c.Twin != "" {
		// both parameters change their role with the pattern, and every reading has exactly one source
		if c.Kind == "default" {
			return fmt.Sprintf("func %s(ctxA In, othA int) Out { return Out{} }\n\n", c.FuncNam)
		}
		return fmt.Sprintf("func %s(ctxA In, othA int) string { return \"\" }\n\n", c.FuncNam)
	}
	switch c.Kind {
	case "default":
		return fmt.Sprintf("func %s(source In%s) Out { return Out{} }\n\n", c.FuncNam, second)
	case "mapfunc":
		return fmt.Sprintf("func %s(source In%s) string { return \"\" }\n\n", c.FuncNam, second)
	case "extend":
		if c.SelfOf != "" {
			return fmt.Sprintf("func %s(c %s, source X) Y { return Y{} }\n\n", c.FuncNam, c.SelfOf)
		}
		return fmt.Sprintf("func %s(source X%s) Y { return Y{} }\n\n", c.FuncNam, second)
	}
	return ""
}

func runConsumers(e *env) error {
	e.rep.Rule += "; consumers: converters whose arg:context:regex is written on the command line / converter / method ({absent, ^ctx, ^oth, ^(ctx|oth)}^3, before or after the line naming the function) x the consumer of a signature (the method itself, default constructor, map|FUNC function, extend function) x the name of a second parameter {none, ctxA, othA, plain, local context}, each function either private to its converter or SHARED by all converters of the package (so a per-use classification cannot be cached across uses): function definitions produced by the real configuration stage (comments.ParseDocs + config per converter) vs Gv.Signature.parse under effPattern/consumerOpts (quick: a third of the order-free grid; thorough: all)"
	var cases []*consCase
	selfOwner := map[string]string{} // per CLI group: the converter a shared "takes the converter itself" function belongs to
	id := 0
	add := func(c consCase) {
		c.ID = id
		c.ConvName = fmt.Sprintf("Conv%d", id)
		c.FuncNam = fmt.Sprintf("Fn%d", id)
		if c.Shared {
			c.FuncNam = "Sh" + strings.ToUpper(c.Kind[:1]) + c.Kind[1:] + "P" + c.PName
		}
		if c.SelfOf == "self" {
			c.SelfOf = c.ConvName
			selfOwner[c.CLI] = c.ConvName
		}
		if c.SelfOf != "" {
			c.FuncNam = "ShSelf" + c.SelfOf
		}
		id++
		cc := c
		cases = append(cases, &cc)
	}
	for _, cli := range consPatterns[:3] {
		for _, conv := range consPatterns {
			for _, meth := range consPatterns {
				for _, kind := range []string{"method", "default", "mapfunc", "extend"} {
					for _, pn := range []string{"", "ctxA", "othA", "plain"} {
						for _, after := range []bool{false, true} {
							if after && ((kind == "extend" && conv == "") || (kind != "extend" && meth == "") || kind == "method") {
								continue
							}
							if !e.thorough && (id*2654435761+int(e.seed))%3 != 0 && !(after || pn == "ctxA") {
								id++ // quick tier: a third of the order-free grid, all of the order-sensitive one
								continue
							}
							add(consCase{Kind: kind, CLI: cli, Conv: conv, Meth: meth, PName: pn, After: after})
						}
					}
				}
				add(consCase{Kind: "method", CLI: cli, Conv: conv, Meth: meth, PName: "plain", LocalCtx: true})
				// the SAME function named by many converters whose patterns differ: its parameters must be classified per use
				for _, kind := range []string{"default", "mapfunc", "extend"} {
					for _, pn := range []string{"ctxA", "othA"} {
						add(consCase{Kind: kind, CLI: cli, Conv: conv, Meth: meth, PName: pn, Shared: true})
					}
				}
			}
		}
	}
	// the same function named by TWO METHODS of one interface whose method-level patterns differ (the sibling sorts before or
	// after `Convert`): each use is classified under its own pattern
	for _, kind := range []string{"default", "mapfunc"} {
		for _, pair := range [][2]string{{"^ctx", "^oth"}, {"^oth", "^ctx"}} {
			for _, twin := range []string{"Aaa", "Zzz"} {
				add(consCase{Kind: kind, Meth: pair[0], TwinMeth: pair[1], Twin: twin, PName: "othA"})
			}
		}
	}
	// a function whose first parameter is ONE converter's interface, named by that converter and by three others
	for _, cli := range consPatterns[:3] {
		add(consCase{Kind: "extend", CLI: cli, Shared: true, SelfOf: "self"})
		for k := 0; k < 3; k++ {
			add(consCase{Kind: "extend", CLI: cli, Shared: true, SelfOf: selfOwner[cli]})
		}
	}
	byCLI := map[string][]*consCase{}
	for _, c := range cases {
		byCLI[c.CLI] = append(byCLI[c.CLI], c)
	}
	var reqs, impl []*sx.Node
	var descr []*consCase
	for _, cli := range consPatterns[:3] {
		group := byCLI[cli]
		if len(group) == 0 {
			continue
		}
		root := filepath.Join(e.scratch, "consumers", fmt.Sprint(len(reqs)))
		var src strings.Builder
		src.WriteString("package p\n\ntype In struct{ A int }\ntype Out struct {\n\tA int\n\tC string\n}\ntype X struct{ V int }\ntype Y struct{ V int }\n\n")
		sharedSeen := map[string]bool{}
		for _, c := range group {
			src.WriteString(c.source())
			if c.Shared && !sharedSeen[c.FuncNam] {
				sharedSeen[c.FuncNam] = true
				src.WriteString(c.funcDecl())
			}
		}
		if err := scratch.Write(root, scratch.Tree{"go.mod": "module example.org/cons\n\ngo 1.18\n", "p/p.go": src.String()}); err != nil {
			return err
		}
		var global []string
		if cli != "" {
			global = []string{"arg:context:regex " + cli}
		}
		b := gvx.RunBatch(root, gvx.Options{Patterns: []string{"./p"}, Global: global})
		if b.DocsErr != nil || b.LoadErr != nil {
			return fmt.Errorf("consumers: scratch package does not load: %v %v", b.DocsErr, b.LoadErr)
		}
		byName := map[string]*gvx.ConvOutcome{}
		for _, oc := range b.Outcomes {
			byName[oc.Raw.InterfaceName] = oc
		}
		for _, c := range group {
			oc := byName[c.ConvName]
			if oc == nil {
				return fmt.Errorf("consumers: converter %s not found", c.ConvName)
			}
			// the raw signature from the harness' own load
			var sig *types.Signature
			if c.Kind == "method" {
				obj := b.Lookup("example.org/cons/p", c.ConvName)
				it := obj.Type().Underlying().(*types.Interface)
				sig = it.Method(0).Type().(*types.Signature)
				for k := 0; k < it.NumMethods(); k++ {
					if it.Method(k).Name() == "Convert" {
						sig = it.Method(k).Type().(*types.Signature)
					}
				}
			} else {
				sig = b.Lookup("example.org/cons/p", c.FuncNam).Type().(*types.Signature)
			}
			var im *sx.Node
			var names []string
			for i := 0; i < sig.Params().Len(); i++ {
				names = append(names, sig.Params().At(i).Name())
			}
			switch {
			case oc.Stage == "config":
				im = sx.H("err", sx.A(classifyParseErr(strings.TrimSpace(lastLine(oc.Err)))))
			case oc.Conv == nil || (len(oc.Conv.Methods) != 1 && len(oc.Conv.Methods) != 2 && len(oc.Conv.Methods) != 3):
				im = sx.H("err", sx.A("no-config:"+oc.Stage))
			default:
				m := oc.Conv.Methods[0]
				for _, mm := range oc.Conv.Methods {
					if mm.Name == "Convert" {
						m = mm
					}
				}
				var def *method.Definition
				switch c.Kind {
				case "method":
					def = m.Definition
				case "default":
					def = m.Constructor
				case "mapfunc":
					if f := m.Fields["C"]; f != nil {
						def = f.Function
					}
				case "extend":
					if len(oc.Conv.Extend) == 1 {
						def = oc.Conv.Extend[0]
					}
				}
				if def == nil {
					im = sx.H("err", sx.A("definition-missing"))
				} else {
					im = defToSx(def, names)
				}
			}
			pn := sx.H("params")
			rxn := sx.H("rx")
			for i := 0; i < sig.Params().Len(); i++ {
				p := sig.Params().At(i)
				isConv := false
				if co := b.Lookup("example.org/cons/p", c.ConvName); co != nil {
					isConv = types.Identical(p.Type(), co.Type())
				}
				pn.Add(sx.H("p", sx.S(p.Name()), sx.S(p.Type().String()), sx.B(isConv), sx.B(false)))
				for _, pat := range append(consPatterns[1:], ".*") {
					rxn.Add(sx.H("m", sx.S(pat), sx.S(p.Name()), sx.B(regexp.MustCompile(pat).MatchString(p.Name()))))
				}
			}
			rn := sx.H("results")
			for i := 0; i < sig.Results().Len(); i++ {
				t := sig.Results().At(i).Type()
				rn.Add(sx.H("r", sx.S(t.String()), sx.B(t.String() == "error")))
			}
			lvl := func(k, v string) *sx.Node {
				if v == "" {
					return sx.H(k)
				}
				return sx.H(k, sx.S(v))
			}
			var lc []string
			if c.LocalCtx {
				lc = []string{c.PName}
			}
			kind := map[string]string{"method": "method", "default": "default", "mapfunc": "mapfunc", "extend": "extend"}[c.Kind]
			req := sx.H("consumer", sx.I(len(reqs)), sx.H("kind", sx.A(kind)), lvl("cli", c.CLI), lvl("conv", c.Conv), lvl("meth", c.Meth),
				sx.H("update", sx.S("")), sx.Strs("localctx", lc), rxn,
				sx.H("obj", sx.H("accessible", sx.B(true)), sx.H("func", sx.B(true)), sx.H("typeparams", sx.B(false)), pn, rn))
			reqs = append(reqs, req)
			impl = append(impl, im)
			descr = append(descr, c)
			e.rep.Count("consumer." + c.Kind + "." + im.Head())
			e.rep.Nontrivial(req.String())
		}
	}
	answers, err := drv.Run(reqs)
	if err != nil {
		return err
	}
	e.rep.Eval(len(reqs))
	for i, a := range answers {
		sortCtx(a)
		if a.String() != impl[i].String() {
			c := descr[i]
			class := ""
			if c.After {
				class = "D18-context-regex-after-function-line"
			}
			e.rep.Violation(class, map[string]any{"case": c, "go_source": c.source(), "cli_global": c.CLI, "implementation": impl[i].String(), "model": a.String(),
				"broken": "correspondence " + e.prop + ": the function definitions of the real configuration stage vs Gv.Signature.parse with the consumer's profile and the inherited arg:context:regex"}, false)
		}
		if i%301 == 0 {
			e.rep.Sample(map[string]any{"case": descr[i], "answer": impl[i].String()})
		}
	}
	return nil
}

func lastLine(s string) string {
	ls := strings.Split(strings.TrimSpace(s), "\n")
	return ls[len(ls)-1]
}
