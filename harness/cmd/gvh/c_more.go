package main

import (
	"fmt"
	"gvh/internal/sx"
	"os"
	"path/filepath"
	"strings"
	"time"

	"gvh/internal/scratch"

	"gvh/internal/rng"
)

func init() {
	campaigns["C07"] = func(e *env) error {
		e.rep.Rule = "cases = (converter, method, arguments with poison payloads): converters whose fallible extend function (fails exactly on the payload 13 / \"poison\") is reached directly, behind pointers, inside slices, maps, nested structs and slices of pointers to structs, under the three wrapping modes (none, wrapErrors, wrapErrorsUsing with a recording Wrap/Field/Index/Key package); arguments place the poison at varying positions (single and multiple faults; at most one entry per map is relied upon for the order); observed: error or not, the root cause, the recorded path elements; compared with Gv.Eval (wrapErr). non-trivial = the call reaches a fallible function; distinct = (converter, method, arguments)"
		b, per := 2, 25
		if e.thorough {
			b, per = 10*e.scale, 40
		}
		fam := func(r *rng.R, id int) *famOut {
			for {
				f := famExtend(r, id)
				if len(f.FailOn) > 0 {
					return f
				}
			}
		}
		nErr := 0
		err := runFamilies(e, "C07", "fallible", fam, b, per, 8, nil, func(c *k2Call) {
			if strings.HasPrefix(c.Impl, "(err") {
				nErr++
			}
		})
		e.rep.Note("calls that returned an error: %d", nErr)
		if err != nil {
			return err
		}
		// fallible methods of the source struct (alone, behind nil-guarded paths, and feeding `map … | FUNC`)
		e.rep.Rule += "; plus converters whose fields are fed by (fallible) methods of the source struct, directly, through value and pointer paths and as the source of a `map … | FUNC` function, inside slices and maps of pointers, under the three wrapping modes"
		if err := runFamilies(e, "C07", "source-methods", famMethods, b, per, 8, nil, nil); err != nil {
			return err
		}
		return c07Recursive(e) // w10_c07.go
	}
	campaigns["C11"] = func(e *env) error {
		e.rep.Rule = "cases = (converter, method, source): (a) methods with `default FUNC` over the four pointer shapes (T->U, *T->*U, T->*U, *T->U) with constructors returning a value or a pointer, with/without source argument and error result, combined with default:update at converter and method level, ignored fields and useZeroValueOnPointerInconsistency; constructors return a recognisable value (numbers 7, strings \"ctor\"); (b) random structural converters with pointer perturbations, and the PINNED pointer matrix: every pair of T, *T, **T on either side x {top level, struct field, slice element, map value} x inner type {int, struct, slice, map; thorough: also string, slices of pointers, maps of slices} x flag on/off. Executed on nil and non-nil sources; compared with Gv.Gen + Gv.Eval. non-trivial = every call; distinct = (converter, method, source)"
		b, per := 4, 30
		if e.thorough {
			b, per = 10*e.scale, 50
		}
		if err := runFamilies(e, "C11", "default", famDefault, b, per, 6, nil, nil); err != nil {
			return err
		}
		r := e.r.Fork(11)
		n, pb := 2, 50
		if e.thorough {
			n, pb = 6*e.scale, 100
		}
		batches := structuralBatchesOpt(e, r, n, pb, []string{"useZeroValueOnPointerInconsistency"}, "pointer-matrix", false)
		inners := []string{"int", "PmInner", "[]int", "map[string]int"}
		if e.thorough {
			inners = []string{"int", "string", "PmInner", "[]int", "map[string]int", "[]*PmInner", "map[string][]string"}
		}
		batches = append(batches, pointerMatrixBatch(inners))
		res, err := runK2(e, "c11s", batches)
		if err != nil {
			return err
		}
		return k2Compare(e, res, "C11")
	}
	campaigns["C10"] = func(e *env) error {
		e.rep.Rule = "cases = (converter, method, source, target pre-state): update methods (source struct or pointer, either argument order, with or without error result) with the 2^3 zero-value categories set at converter and method level and skipCopySameType; the target instance is pre-filled with recognisable values, the source has zero / non-zero / nil fields; observed: the target instance after the call; compared with Gv.Eval (Body.update, zero checks). non-trivial = every call; distinct = (converter, method, arguments)"
		b, per := 4, 30
		if e.thorough {
			b, per = 10*e.scale, 50
		}
		// several lines for one target field in every order (w10_c10.go); every call also judged from the method's own lines
		e.rep.Rule += "; plus update methods whose comment carries several lines for the same target field (ignore then map, map then ignore, map then map, map | FUNC then a plain map, the one-argument map, multi-field ignore lines) interleaved at random: compared with the model, the per-field settings compared with Gv.Settings.resolve on the raw lines, and every call judged from the method's text: fields named by an ignore line keep their value, a nil source leaves the target untouched"
		if err := runFamilies(e, "C10", "update", withUpdateLines(e, famUpdate), b, per, 8, nil, updateIgnoredOracle(e)); err != nil {
			return err
		}
		return runFamilies(e, "C10", "update-nillable-pointer", famUpdNillablePtr, 1, 4, 10, nil, nillableOracle(e))
	}
	campaigns["C05"] = func(e *env) error {
		e.rep.Rule = "cases = (converter, method, source): struct pairs whose target fields are fed by goverter:map (renamed field, dotted paths through values and pointers incl. two pointer levels, `.` for the whole source), autoMap, matchIgnoreCase with exact-match preference, ignore and ignoreMissing, on a method that is also reached from sibling methods through slices and pointers (settings must neither leak nor be bypassed); occasionally settings naming fields that do not exist; executed on values with distinct leaves and nil at every pointer of a path; compared with Gv.Gen + Gv.Eval. non-trivial = every call or diagnostic; distinct = (converter, method, source)"
		b, per := 4, 30
		if e.thorough {
			b, per = 10*e.scale, 50
		}
		if err := runFamilies(e, "C05", "fields", famFields, b, per, 7, nil, nil); err != nil {
			return err
		}
		e.rep.Rule += "; plus argument-less (and context-taking) methods of the source struct as sources: matched by name, named by goverter:map directly and at the end of value / pointer / double-pointer paths, and as the source of `map … | FUNC`"
		if err := runFamilies(e, "C05", "source-methods", famMethods, b, per, 6, nil, nil); err != nil {
			return err
		}
		e.rep.Rule += "; plus pinned pairs of methods over one struct pair (S->T next to *S->*T / *S->T / S->*T) where the pointer variant carries field settings that the inner struct conversion would bypass, with and without context arguments on either method: the run must be refused (property-level oracle through the binary)"
		if err := c05Bypass(e); err != nil {
			return err
		}
		e.rep.Rule += "; plus projects in which the methods carrying field settings reach the converter through embedded interfaces (same file, other file, other package, literal, alias, two levels, two interfaces; control: written in the converter): refused with a diagnostic, or every setting is honoured by the executed generated code (pinned oracle from the written settings, through the binary)"
		return c05Reach(e)
	}
	campaigns["C08"] = func(e *env) error {
		e.rep.Rule = "cases = (converter, method, value): enum pairs over int, uint8 and string underlying types with duplicate-valued members, mapped by enum:transform regex and enum:map (members and actions), with every enum:unknown policy (@error, @panic, @ignore, a member, missing), in top-level, struct field, slice element and map value positions; executed over member and non-member values; compared with Gv.Gen (outcome) + Gv.Eval (switch semantics). non-trivial = every call or diagnostic; distinct = (converter, method, value)"
		b, per := 4, 30
		if e.thorough {
			b, per = 10*e.scale, 50
		}
		if err := runFamilies(e, "C08", "enum", famEnum, b, per, 8, func(c *k2Call) string { return "" }, nil); err != nil {
			return err
		}
		e.rep.Rule += "; plus one enum pair converted by two converters of one run, one of which excludes it (enum:exclude, enum no at converter or method level): detection is per converter and method"
		if err := runFamilies(e, "C08", "enum-off", famEnumOff, 1, 12, 6, nil, nil); err != nil {
			return err
		}
		return w10C08(e)
	}
}

// famUpdNillablePtr: update methods under update:ignoreZeroValueField[:nillable] whose pointer field is converted through a
// GENERATED METHOD (pointer to a named struct) next to one converted inline (C10: a nil source pointer must leave the target
// field unchanged either way).
func famUpdNillablePtr(r *rng.R, id int) *famOut {
	p := fmt.Sprintf("Z%d", id)
	f := &famOut{}
	f.Types = fmt.Sprintf("type %[1]sNest struct{ A int }\ntype %[1]sNestT struct{ A int }\ntype %[1]sIn struct {\n\tPN *%[1]sNest\n\tPI *int\n\tV  int\n}\ntype %[1]sOut struct {\n\tPN *%[1]sNestT\n\tPI *int\n\tV  int\n}\n", p)
	flag := []string{"update:ignoreZeroValueField", "update:ignoreZeroValueField:nillable"}[id%2]
	f.add(p+"C", fmt.Sprintf("// goverter:converter\n// goverter:%s\ntype %[2]sC interface {\n\t// goverter:update target\n\tUp(source %[2]sIn, target *%[2]sOut)\n}\n\n", flag, p))
	return f
}

// fieldOf finds `(f "name" v)` in a printed struct value (behind a pointer or not).
func fieldOf(v *sx.Node, name string) *sx.Node {
	if v == nil {
		return nil
	}
	if v.Head() == "ptr" && len(v.L) == 3 {
		v = v.L[2]
	}
	if v.Head() == "ok" && len(v.L) == 2 {
		return fieldOf(v.L[1], name)
	}
	for _, x := range v.Args() {
		if x.Head() == "f" && len(x.L) == 3 && x.L[1].S == name {
			return x.L[2]
		}
	}
	return nil
}

// nillableOracle judges a call of famUpdNillablePtr by the property itself: a nil source pointer leaves the target field as it was.
func nillableOracle(e *env) func(c *k2Call) {
	return func(c *k2Call) {
		if len(c.Values) != 2 {
			return
		}
		src, err1 := sx.Parse(c.Values[0])
		pre, err2 := sx.Parse(c.Values[1])
		post, err3 := sx.Parse(c.Impl)
		if err1 != nil || err2 != nil || err3 != nil {
			return
		}
		for _, fld := range []string{"PN", "PI"} {
			s, before, after := fieldOf(src, fld), fieldOf(pre, fld), fieldOf(post, fld)
			if s == nil || before == nil || after == nil {
				continue
			}
			if s.String() == "nil" && before.String() != "nil" && after.String() == "nil" {
				e.rep.Violation("D30-nillable-pointer-via-generated-method", map[string]any{"call": c, "field": fld,
					"broken": "C10: update:ignoreZeroValueField(:nillable) is in effect, the source field is a nil pointer, and the target field was overwritten with nil (model and implementation agree with each other)"}, false)
			}
		}
	}
}

// c05Bypass: field settings written on the pointer variant of a struct pair are bypassed when the inner struct conversion is
// done by a sibling method: goverter must refuse (C05: every setting takes effect or generation fails) — whatever context
// arguments the two methods have. Judged through the binary: exit 1 and the diagnostic about overlapping struct settings.
func c05Bypass(e *env) error {
	bin := goverterBin(e)
	base := filepath.Join(e.scratch, "c05bypass")
	type variant struct{ ptrSig, ptrCtx, subCtx string }
	var vs []variant
	for _, sig := range []string{"(source *A%s) *B", "(source *A%s) B", "(source A%s) *B"} {
		for _, pc := range []string{"", "lang"} {
			for _, sc := range []string{"", "lang"} {
				if sc != "" && pc == "" {
					continue // the sub method would need a context the pointer method cannot supply: another diagnostic
				}
				vs = append(vs, variant{sig, pc, sc})
			}
		}
	}
	for i, v := range vs {
		root := filepath.Join(base, fmt.Sprintf("b%d", i))
		ctxP, docP, ctxS, docS := "", "", "", ""
		if v.ptrCtx != "" {
			ctxP, docP = ", lang string", "\t// goverter:context lang\n"
		}
		if v.subCtx != "" {
			ctxS, docS = ", lang string", "\t// goverter:context lang\n"
		}
		src := "package p\n\nimport \"strings\"\n\ntype A struct{ Name string }\ntype B struct{ Title string }\n\nfunc Upper(s string) string { return strings.ToUpper(s) }\n\n" +
			"// goverter:converter\n// goverter:useZeroValueOnPointerInconsistency\ntype C interface {\n" + docP + "\t// goverter:map Name Title | Upper\n\tConvert" + fmt.Sprintf(v.ptrSig, ctxP) + "\n" +
			docS + "\t// goverter:map Name Title\n\tConvertSub(source A" + ctxS + ") B\n}\n"
		tree := scratch.Tree{"go.mod": "module example.org/bypass\n\ngo 1.18\n", "p/p.go": src}
		if err := scratch.Write(root, tree); err != nil {
			return err
		}
		res := scratch.Run(bin, root, []string{"gen", "./p"}, nil, 120*time.Second)
		e.rep.Eval(1)
		e.rep.Nontrivial("bypass:" + src)
		e.rep.Count("bypass.exit" + fmt.Sprint(res.Exit))
		if res.Exit != 1 || !strings.Contains(res.Stderr, "Overlapping struct settings") {
			used := ""
			if c, err := os.ReadFile(filepath.Join(root, "p/generated/generated.go")); err == nil {
				used = string(c)
			}
			e.rep.Violation("", map[string]any{"source": src, "exit": res.Exit, "stderr": truncate(res.Stderr, 800), "generated": truncate(used, 1500),
				"broken": "C05: the field settings of the pointer-variant method (`map Name Title | Upper`) are bypassed by the sibling that converts the struct pair, and the run is not refused"}, false)
		}
	}
	return nil
}
