package main

import (
	"fmt"
	"os"
	"path/filepath"
	"sort"
	"strings"
	"sync"

	"gvh/internal/drv"
	"gvh/internal/gvx"
	"gvh/internal/sx"
)

func init() { campaigns["SYMDEV"] = runSymDev }

// runSymDev (development aid, not a registered check): the plan-level comparison over the scenario corpus,
// printing every difference and every unliftable function.
func runSymDev(e *env) error {
	base := filepath.Join(e.scratch, "symdev")
	scs, err := gvx.LoadScenarios(e.repo)
	if err != nil {
		return err
	}
	only := os.Getenv("SYM_ONLY")
	type item struct {
		name string
		req  *sx.Node
	}
	var mu sync.Mutex
	var items []item
	var wg sync.WaitGroup
	sem := make(chan struct{}, 12)
	for _, sc := range scs {
		if only != "" && !strings.Contains(sc.Name, only) {
			continue
		}
		wg.Add(1)
		go func(sc *gvx.Scenario) {
			defer wg.Done()
			sem <- struct{}{}
			defer func() { <-sem }()
			root := filepath.Join(base, sc.Name)
			if err := gvx.WriteScenario(root, sc); err != nil {
				return
			}
			pats := sc.Patterns
			if len(pats) == 0 {
				pats = []string{"github.com/jmattheis/goverter/execution"}
			}
			b := gvx.RunBatch(root, gvx.Options{Patterns: pats, Global: sc.Global, Constraint: "!goverter"})
			for _, oc := range b.Outcomes {
				if oc.Stage != "ok" {
					continue
				}
				req, unsup := gvx.GenRequest(0, oc.Conv)
				if len(unsup) > 0 || len(oc.Conv.OutputRaw) > 0 {
					continue
				}
				gvx.AddLifted(req, oc)
				mu.Lock()
				items = append(items, item{sc.Name + "/" + oc.Raw.InterfaceName, req})
				mu.Unlock()
			}
		}(sc)
	}
	wg.Wait()
	sort.Slice(items, func(i, j int) bool { return items[i].name < items[j].name })
	var reqs []*sx.Node
	for _, it := range items {
		reqs = append(reqs, it.req)
	}
	ans, err := drv.Run(reqs)
	if err != nil {
		return err
	}
	eq, un, df, noSym := 0, 0, 0, 0
	for i, a := range ans {
		r := gvx.SymOf(a)
		if r == nil {
			noSym++
			if os.Getenv("SYM_V") != "" {
				fmt.Printf("NOSYM %s: %s\n", items[i].name, truncate(a.String(), 200))
			}
			continue
		}
		eq += r.Equal
		un += len(r.Unliftable)
		df += len(r.Diffs)
		for _, u := range r.Unliftable {
			fmt.Printf("UNLIFT %s %s\n", items[i].name, u)
		}
		for _, m := range r.Missing {
			fmt.Printf("MISSING %s %s\n", items[i].name, m)
		}
		for _, d := range r.Diffs {
			fmt.Printf("DIFF %s.%s\n  model: %s\n  code:  %s\n", items[i].name, d.Method, d.Model, d.Impl)
		}
	}
	fmt.Printf("symdev: converters=%d equal=%d unliftable=%d diffs=%d nosym=%d\n", len(items), eq, un, df, noSym)
	return nil
}

func init() {
	campaigns["RANDDEV"] = func(e *env) error {
		n := 400
		if e.thorough {
			n = 3000
		}
		return runRandK1(e, "dev", n, 100, rcOpts{})
	}
}

func init() {
	campaigns["PROJDEV"] = func(e *env) error {
		n := 60
		if e.thorough {
			n = 400
		}
		return runRandProj(e, n)
	}
}
