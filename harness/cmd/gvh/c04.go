package main

import (
	"strings"
)

func init() { campaigns["C04"] = runC04 }

func runC04(e *env) error {
	e.rep.Rule = "cases = (converter, source value with internal sharing): converters without custom functions over generated type pairs, half of them with skipCopySameType, executed on values in which the same pointer or slice is reachable along several paths; observed: which locations of the result are locations of the source (address labelling by the reflective executor, zero-size types excluded), whether the erased source is unchanged after the call; the thorough tier also builds with -race and converts the same source from 8 goroutines. Compared with Gv.Eval (locations) and with the rule: without skipCopySameType no source location may appear in the result. non-trivial = the source value contains at least one reference cell; distinct = (converter, value)"
	r := e.r.Fork(4)
	n, per := 2, 50
	if e.thorough {
		n, per = 8, 100
	}
	plain := structuralBatches(e, r.Fork(1), n, per, []string{"useZeroValueOnPointerInconsistency"}, "deep-copy")
	skip := structuralBatches(e, r.Fork(2), n, per, []string{"skipCopySameType", "skipCopySameType", "useZeroValueOnPointerInconsistency"}, "skipcopy")
	for _, b := range append(plain, skip...) {
		b.Share = 60
		b.ValModes = 7
		b.Spec = ""
	}
	for _, b := range plain {
		b.Spec = "fragment" // only ask whether the plans lie in the fragment of the composite theorems
	}
	if e.thorough {
		// one batch of each kind under the race detector
		plain[0].Race = true
		skip[0].Race = true
	}
	res, err := runK2(e, "c04", append(plain, skip...))
	if err != nil {
		return err
	}
	for _, race := range res.Races {
		e.rep.Violation("data-race", map[string]any{"report": race, "broken": "C04: concurrent calls of a generated method on one source value race"}, false)
	}
	for _, be := range res.BuildErrors {
		e.rep.Violation("generated-code-does-not-compile", map[string]any{"build_output": be}, false)
	}
	e.rep.Eval(len(res.Calls))
	for i, c := range res.Calls {
		args := strings.Join(c.Values, " ")
		if strings.Contains(args, "(ptr") || strings.Contains(args, "(sl") || strings.Contains(args, "(mp") {
			e.rep.Nontrivial(c.Source + args)
		}
		shares := strings.Contains(c.Impl, "(s ")
		skipCopy := strings.Contains(c.Source, "skipCopySameType")
		switch {
		case strings.HasPrefix(c.Impl, "(srcchanged"):
			e.rep.Violation("source-modified", map[string]any{"call": c, "broken": "C04: the source value changed during the conversion"}, false)
		case c.Impl != c.Model:
			class := ""
			if skipCopy && strings.HasPrefix(c.Model, "(ok") && (shares || strings.Contains(c.Source, "]*")) {
				// result points INTO the source at a position the model copies: value -> pointer under skipCopySameType
				class = "D11"
			}
			if strings.HasPrefix(c.Impl, "(panic index") {
				class = "D9"
			}
			e.rep.Violation(class, map[string]any{"call": c, "broken": "correspondence C04: locations of the result (Gv.Eval) vs the executed code"}, false)
		case shares && !skipCopy:
			e.rep.Violation("shares-without-skipcopy", map[string]any{"call": c, "broken": "C04: result shares memory with the source although skipCopySameType is off and no custom function is involved"}, false)
		}
		e.rep.Count(map[bool]string{true: "shares-source", false: "disjoint"}[shares] + "." + c.Batch)
		if i%701 == 0 {
			e.rep.Sample(map[string]any{"converter": c.Source, "arguments": c.Values, "result": truncate(c.Impl, 300)})
		}
	}
	e.rep.Note("converters executed: %d; race-detector batches: %d", res.Generated, map[bool]int{true: 2, false: 0}[e.thorough])
	if res.FragmentAsked > 0 {
		e.rep.Note("deep-copy converters whose generated plan passes PlanCheck.checkProg, i.e. for which theorem C04_composite shows for ALL source values that every cell of the result is allocated during the call: %d of %d", res.InFragment, res.FragmentAsked)
	}
	return nil
}
