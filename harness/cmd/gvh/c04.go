package main

import (
	"fmt"
	"regexp"
	"strconv"
	"strings"
)

func init() { campaigns["C04"] = runC04 }

func runC04(e *env) error {
	e.rep.Rule = "cases = (converter, source value with internal sharing): converters without custom functions over generated type pairs, half of them with skipCopySameType (plus a pinned set: identical pairs, named type vs identical unnamed literal in both directions, value-to-pointer of identical types, each at top level / field / element / map value; skipCopySameType on one method only, next to a sibling method sharing generated sub-methods with it, in both name orders), executed on values in which the same pointer or slice is reachable along several paths; observed: which locations of the result are locations of the source (address labelling by the reflective executor, zero-size types excluded), whether the erased source is unchanged after the call; the thorough tier also builds with -race and converts the same source from 8 goroutines. Compared with Gv.Eval (locations) and with the rule: without skipCopySameType no source location may appear in the result. non-trivial = the source value contains at least one reference cell; distinct = (converter, value)"
	r := e.r.Fork(4)
	n, per := 2, 50
	if e.thorough {
		n, per = 8*e.scale, 100
	}
	plain := structuralBatches(e, r.Fork(1), n, per, []string{"useZeroValueOnPointerInconsistency", "useUnderlyingTypeMethods"}, "deep-copy")
	skip := structuralBatches(e, r.Fork(2), n, per, []string{"skipCopySameType", "skipCopySameType", "useZeroValueOnPointerInconsistency"}, "skipcopy")
	for _, b := range append(plain, skip...) {
		b.Share = 60
		b.ValModes = 7
		b.Spec = ""
	}
	for _, b := range append(plain, skip...) {
		b.Spec = "fragment" // only ask whether the plans lie in the fragment of the composite theorems
	}
	if e.thorough {
		// one batch of each kind under the race detector
		plain[0].Race = true
		skip[0].Race = true
	}
	res, err := runK2(e, "c04", append(append(plain, skip...), skipCopyPinnedBatch(), methodLevelSkipCopyBatch(), namedSameUnderlyingBatch(), sameNamedPointerBatch(e, r.Fork(3))))
	if err != nil {
		return err
	}
	for _, race := range res.Races {
		e.rep.Violation("data-race", map[string]any{"report": race, "broken": "C04: concurrent calls of a generated method on one source value race"}, false)
	}
	for _, be := range res.BuildErrors {
		e.rep.Violation("generated-code-does-not-compile", map[string]any{"build_output": be}, false)
	}
	e.rep.Eval(len(res.Calls))
	for i, c := range res.Calls {
		args := strings.Join(c.Values, " ")
		if strings.Contains(args, "(ptr") || strings.Contains(args, "(sl") || strings.Contains(args, "(mp") {
			e.rep.Nontrivial(c.Source + args)
		}
		shares := strings.Contains(c.Impl, "(s ")
		skipCopy := strings.Contains(c.Source, "skipCopySameType")
		switch {
		case strings.HasPrefix(c.Impl, "(srcchanged"):
			e.rep.Violation("source-modified", map[string]any{"call": c, "broken": "C04: the source value changed during the conversion"}, false)
		case c.Impl != c.Model:
			class := ""
			if skipCopy && strings.HasPrefix(c.Model, "(ok") && isD11(c) {
				// result points INTO the source at a position the model copies: value -> pointer under skipCopySameType
				class = "D11"
			}
			if strings.HasPrefix(c.Impl, "(panic index") {
				class = "D9"
			}
			e.rep.Violation(class, map[string]any{"call": c, "broken": "correspondence C04: locations of the result (Gv.Eval) vs the executed code"}, false)
		case shares && !skipCopy:
			e.rep.Violation("shares-without-skipcopy", map[string]any{"call": c, "broken": "C04: result shares memory with the source although skipCopySameType is off and no custom function is involved"}, false)
		}
		e.rep.Count(map[bool]string{true: "shares-source", false: "disjoint"}[shares] + "." + c.Batch)
		if i%701 == 0 {
			e.rep.Sample(map[string]any{"converter": c.Source, "arguments": c.Values, "result": truncate(c.Impl, 300)})
		}
	}
	e.rep.Note("converters executed: %d; race-detector batches: %d", res.Generated, map[bool]int{true: 2, false: 0}[e.thorough])
	if res.FragmentAsked > 0 {
		e.rep.Note("converters whose generated plan passes PlanCheckS.checkProgS, i.e. for which theorem C04_skipcopy_composite shows for ALL source values that every shared cell sits at an identical-type position: %d of %d (%d have such a position)", res.InFragmentS, res.FragmentAsked, res.HasShare)
		e.rep.Note("converters (deep-copy and skipCopySameType batches together) whose generated plan passes PlanCheck.checkProg, i.e. for which theorem C04_composite shows for ALL source values that every cell of the result is allocated during the call: %d of %d", res.InFragment, res.FragmentAsked)
	}
	return nil
}

// isD11 recognises the known finding D11 and nothing else: under skipCopySameType a VALUE converted to a POINTER of the
// identical type is emitted as `&source[i]`, `&(*source).F` or `&value`, so the first place where the executed result
// differs from the model is the location of a pointer, and that location is either the backing array of a source slice
// (element 0), an unlabelled interior address, or the shared range variable.  A pointer, slice or map cell of the source
// that is handed on as such (`(ptr (s k)` with k a pointer cell of the input, `(sl (s`, `(mp (s`) is NOT this finding.
var ptrFreshRe = regexp.MustCompile(`\(ptr \(n [0-9]+\)`)

func isD11(c *k2Call) bool {
	a, b := c.Impl, c.Model
	// `&value` of the range variable (go.mod says go 1.18: one variable per loop): the same fresh pointer occurs
	// several times in the executed result and holds the last element, where the model has one pointer per entry
	rep := func(s string) bool {
		seen := map[string]int{}
		for _, m := range ptrFreshRe.FindAllString(s, -1) {
			seen[m]++
			if seen[m] > 1 {
				return true
			}
		}
		return false
	}
	if rep(a) && !rep(b) {
		return true
	}
	i := 0
	for i < len(a) && i < len(b) && a[i] == b[i] {
		i++
	}
	if i >= len(a) || i >= len(b) {
		return false
	}
	// the node whose location differs
	j := strings.LastIndex(a[:i], "(")
	for j > 0 && !(strings.HasPrefix(a[j:], "(ptr ") || strings.HasPrefix(a[j:], "(sl ") || strings.HasPrefix(a[j:], "(mp ")) {
		j = strings.LastIndex(a[:j], "(")
	}
	if j < 0 || !strings.HasPrefix(a[j:], "(ptr ") {
		return false
	}
	loc := a[j+len("(ptr "):]
	if strings.HasPrefix(loc, "(n ") {
		return true
	}
	if strings.HasPrefix(loc, "(s ") {
		k := loc[len("(s "):]
		if e := strings.Index(k, ")"); e > 0 {
			k = k[:e]
		}
		args := strings.Join(c.Values, " ")
		// a source SLICE cell (its element 0 has the address of the backing array), not a source pointer cell
		return strings.Contains(args, "(sl "+k+" ") || strings.Contains(args, "(sl "+k+")")
	}
	return false
}

// skipCopyPinnedBatch: skipCopySameType over pairs that are identical, that differ only by a name (a named slice, map
// or pointer type against its identical unnamed literal, both directions) and value -> pointer pairs of identical types
// (the shapes of known finding D11), each at top level, in a struct field, as slice element and as map value.
func skipCopyPinnedBatch() *k2Batch {
	kb := &k2Batch{Tag: "skipcopy-pinned", Convs: map[string]string{}, ValModes: 7, Share: 60}
	var types strings.Builder
	types.WriteString("type ScTags []string\ntype ScLabels map[string]string\ntype ScPtr *int\ntype ScItem struct {\n\tA int\n\tP *int\n}\n\n")
	pairs := [][2]string{
		{"[]string", "[]string"}, {"ScTags", "[]string"}, {"[]string", "ScTags"}, {"ScTags", "ScTags"},
		{"ScLabels", "map[string]string"}, {"map[string]string", "ScLabels"}, {"*int", "ScPtr"}, {"ScPtr", "*int"},
		{"ScItem", "*ScItem"}, {"[]int", "*[]int"}, {"int", "*int"}, {"*ScItem", "*ScItem"}, {"[]*int", "[]*int"},
	}
	n := 0
	for _, pr := range pairs {
		for _, pos := range []string{"top", "field", "elem", "mapval"} {
			s, t := pr[0], pr[1]
			switch pos {
			case "field":
				types.WriteString("type ScS" + itoa(n) + " struct {\n\tF " + s + "\n\tG int\n}\ntype ScT" + itoa(n) + " struct {\n\tF " + t + "\n\tG int\n}\n")
				s, t = "ScS"+itoa(n), "ScT"+itoa(n)
			case "elem":
				s, t = "[]"+s, "[]"+t
			case "mapval":
				s, t = "map[string]"+s, "map[string]"+t
			}
			name := "Sc" + itoa(n)
			n++
			kb.Convs[name] = "// goverter:converter\n// goverter:skipCopySameType\ntype " + name + " interface {\n\tConvert(source " + s + ") " + t + "\n}\n\n"
			kb.Order = append(kb.Order, name)
		}
	}
	// a VARIADIC method over a basic slice next to a sibling that converts a field of that slice type by calling it with a
	// spread argument: the callee sees the caller's slice, so it has to copy like every other slice conversion
	types.WriteString("type NvIn struct {\n\tIDs  []int64\n\tTags []string\n}\ntype NvOut struct {\n\tIDs  []int64\n\tTags []string\n}\n")
	kb.Convs["NvC"] = "// goverter:converter\ntype NvC interface {\n\tIDs(ids ...int64) []int64\n\tTags(source ...string) []string\n\tConvert(source NvIn) NvOut\n}\n\n"
	kb.Order = append(kb.Order, "NvC")
	kb.Types = types.String()
	return kb
}

// methodLevelSkipCopyBatch: skipCopySameType written on ONE method of a converter; a sibling method without it converts the
// same nested named pair (a generated sub-method, shared by signature): its result must not share memory with the source,
// whichever of the two methods is generated first (methods are generated in name order).
func methodLevelSkipCopyBatch() *k2Batch {
	kb := &k2Batch{Tag: "skipcopy-method-level-pinned", Convs: map[string]string{}, ValModes: 7, Share: 60}
	kb.Types = `type MlCustomer struct {
	Name  string
	Tags  []string
	Score *int
	Attr  map[string]string
}
type MlCustomerT struct {
	Name  string
	Tags  []string
	Score *int
	Attr  map[string]string
}
type MlOrder struct {
	ID       int
	Customer MlCustomer
	Lines    []MlLine
}
type MlOrderT struct {
	ID       int
	Customer MlCustomerT
	Lines    []MlLineT
}
type MlOrderA struct {
	ID       int
	Customer MlCustomerT
	Lines    []MlLineT
}
type MlLine struct {
	Qty  int
	Note *string
}
type MlLineT struct {
	Qty  int
	Note *string
}
`
	n := 0
	for _, names := range [][2]string{{"Archive", "Snapshot"}, {"Zarchive", "Snapshot"}, {"Archive", "Zsnapshot"}} {
		for _, shape := range [][2]string{{"MlOrder", "MlOrderA"}, {"*MlOrder", "*MlOrderA"}, {"[]MlOrder", "[]MlOrderA"}} {
			for _, convLevel := range []string{"", "// goverter:skipCopySameType no\n"} {
				name := "Ml" + itoa(n)
				n++
				kb.Convs[name] = "// goverter:converter\n" + convLevel + "type " + name + " interface {\n\t// goverter:skipCopySameType\n\t" + names[0] + "(source " + shape[0] + ") " + shape[1] +
					"\n\t" + names[1] + "(source MlOrder) MlOrderT\n}\n\n"
				kb.Order = append(kb.Order, name)
			}
		}
	}
	return kb
}

func itoa(n int) string { return strconv.Itoa(n) }

// namedSameUnderlyingBatch: two DIFFERENT named types with one underlying type (slice, map, pointer, struct) at top-level,
// field, element and map-value positions, with and without useUnderlyingTypeMethods / skipCopySameType: the types are not
// identical, so the value is deep-copied whatever the flags say (a plain Go conversion between them would share memory).
func namedSameUnderlyingBatch() *k2Batch {
	kb := &k2Batch{Tag: "named-same-underlying-pinned", Convs: map[string]string{}, ValModes: 7, Share: 60, Spec: "fragment"}
	var types strings.Builder
	types.WriteString("type NuIDs []int\ntype NuKeys []int\ntype NuAttrs map[string]int\ntype NuLabels map[string]int\ntype NuRef *NuNode\ntype NuLink *NuNode\ntype NuNode struct{ Name string }\n")
	types.WriteString("type NuRows [][]string\ntype NuGrid [][]string\n")
	pairs := [][2]string{{"NuIDs", "NuKeys"}, {"NuAttrs", "NuLabels"}, {"NuRef", "NuLink"}, {"NuRows", "NuGrid"}}
	n := 0
	for _, pr := range pairs {
		for _, pos := range []string{"top", "field", "elem", "mapval", "ptr"} {
			for _, flags := range [][]string{nil, {"useUnderlyingTypeMethods"}, {"skipCopySameType"}, {"useUnderlyingTypeMethods", "skipCopySameType"}} {
				s, t := pr[0], pr[1]
				switch pos {
				case "field":
					types.WriteString(fmt.Sprintf("type NuS%d struct {\n\tF %s\n\tG int\n}\ntype NuT%d struct {\n\tF %s\n\tG int\n}\n", n, s, n, t))
					s, t = fmt.Sprintf("NuS%d", n), fmt.Sprintf("NuT%d", n)
				case "elem":
					s, t = "[]"+s, "[]"+t
				case "mapval":
					s, t = "map[string]"+s, "map[string]"+t
				case "ptr":
					s, t = "*"+s, "*"+t
				}
				name := fmt.Sprintf("Nu%d", n)
				n++
				src := "// goverter:converter\n"
				for _, f := range flags {
					src += "// goverter:" + f + "\n"
				}
				src += "type " + name + " interface {\n\tConvert(source " + s + ") " + t + "\n}\n\n"
				kb.Convs[name] = src
				kb.Order = append(kb.Order, name)
			}
		}
	}
	kb.Types = types.String()
	return kb
}
