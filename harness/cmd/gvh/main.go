// gvh runs the correspondence campaigns between the real goverter code (linked
// from /repo through the module replace directive, built with -tags verif) and
// the Lean model driver.
package main

import (
	"flag"
	"fmt"
	"os"
	"strconv"

	"gvh/internal/rep"
	"gvh/internal/rng"
)

type env struct {
	prop     string
	tier     string
	seed     uint64
	r        *rng.R
	rep      *rep.Report
	verif    string // /verif
	repo     string
	scratch  string
	thorough bool
	scale    int // depth multiplier of the thorough tier (GVH_SCALE, default 3); 1 in the quick tier
}

var campaigns = map[string]func(*env) error{}

func main() {
	if len(os.Args) < 2 {
		fmt.Fprintln(os.Stderr, "usage: gvh <property> [flags]")
		os.Exit(2)
	}
	prop := os.Args[1]
	fs := flag.NewFlagSet("gvh", flag.ExitOnError)
	tier := fs.String("tier", "quick", "")
	seedS := fs.String("seed", "1", "")
	verif := fs.String("verif", "/verif", "")
	repo := fs.String("repo", "/repo", "")
	out := fs.String("out", "", "campaign summary json")
	scratch := fs.String("scratch", "", "scratch dir (outside /repo and /verif)")
	_ = fs.Parse(os.Args[2:])
	seed, _ := strconv.ParseUint(*seedS, 10, 64)
	fn, ok := campaigns[prop]
	if !ok {
		fmt.Fprintf(os.Stderr, "gvh: no campaign for %s\n", prop)
		os.Exit(2)
	}
	e := &env{prop: prop, tier: *tier, seed: seed, r: rng.New(seed), verif: *verif, repo: *repo, scratch: *scratch, thorough: *tier == "thorough"}
	e.scale = 1
	if e.thorough {
		e.scale = 3
		if v, err := strconv.Atoi(os.Getenv("GVH_SCALE")); err == nil && v > 0 {
			e.scale = v
		}
	}
	e.rep = rep.New(prop, *tier, seed, *verif+"/replays/"+prop, *verif+"/known_findings.json")
	if e.scratch == "" {
		d, err := os.MkdirTemp("", "gvh-"+prop+"-")
		if err != nil {
			fmt.Fprintln(os.Stderr, err)
			os.Exit(2)
		}
		e.scratch = d
	}
	cleanup := func() {
		if *scratch == "" {
			os.RemoveAll(e.scratch)
		}
	}
	err := fn(e)
	if err == nil {
		err = runRandFor(e)
	}
	if err == nil {
		err = randProjFor(e)
	}
	cleanup()
	if *out != "" {
		if werr := e.rep.Write(*out); werr != nil {
			fmt.Fprintln(os.Stderr, werr)
		}
	}
	if err != nil {
		fmt.Fprintf(os.Stderr, "gvh %s: harness error: %v\n", prop, err)
		os.Exit(3)
	}
	if len(e.rep.Violations) > 0 {
		os.Exit(1)
	}
}
