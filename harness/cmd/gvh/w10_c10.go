package main

import (
	"fmt"
	"sort"
	"strings"

	"github.com/jmattheis/goverter/config"

	"gvh/internal/rng"
	"gvh/internal/sx"
)

// C10, line histories.  The generator campaigns hand the RESOLVED method configuration of the implementation to the model, so
// how the comment lines of one method combine into per-field settings is outside their comparison.  Three additions:
//
//   - famUpdateLines: update methods on which SEVERAL lines address the same target field, in every order (ignore then map,
//     map then ignore, map then map, map with a function then a plain map, the one-argument map, multi-field ignore lines),
//     interleaved with the lines of the other fields;
//   - updateIgnoredOracle: every executed update call is judged by the property text, from the SOURCE TEXT of the method
//     alone: a target field named by a `goverter:ignore` line of the method keeps its previous value, and a nil source pointer
//     leaves the whole target as it was;
//   - the settings tie of runK2 also compares the per-field settings (source, ignore, function per target field) with the
//     `Fields` / `Functions` parts of the model's answer to `resolve` on the raw lines.

// famUpdateLines: see above.  Target fields A (string), B (int), D (*int), E ([]string) have no counterpart by name; T1, T2 are
// structs that only a custom function produces; V and W match by name.
func famUpdateLines(r *rng.R, id int) *famOut {
	p := fmt.Sprintf("L%d", id)
	f := &famOut{}
	f.Types = fmt.Sprintf(`type %[1]sIn struct {
	V int
	W string
	X string
	Y int
	P *int
	Q *int
	S []string
	R []string
	N %[1]sNest
}
type %[1]sNest struct {
	I int
	T string
}
type %[1]sOut struct {
	V    int
	W    string
	A    string
	B    int
	D    *int
	E    []string
	T1   %[1]sB
	T2   %[1]sB
	Keep string
}
type %[1]sB struct {
	Stamp string
}
`, p)
	f.Custom = fmt.Sprintf("func Mk%[1]s(s string) %[1]sB {\n\treturn %[1]sB{Stamp: rt.Stamp(%[2]q, s)}\n}\n\nfunc Alt%[1]s(s string) %[1]sB {\n\treturn %[1]sB{Stamp: rt.Stamp(%[3]q, s)}\n}\n\n", p, "Mk"+p, "Alt"+p)
	var b strings.Builder
	b.WriteString("// goverter:converter\n")
	flags := []string{"update:ignoreZeroValueField", "update:ignoreZeroValueField:basic", "update:ignoreZeroValueField:struct", "update:ignoreZeroValueField:nillable", "skipCopySameType"}
	for _, fl := range flags {
		if r.Chance(20) {
			b.WriteString("// goverter:" + fl + rng.Pick(r, []string{"", " yes", " no"}) + "\n")
		}
	}
	b.WriteString("type " + p + "C interface {\n")
	srcs := map[string][]string{"A": {"X", "W", "N.T"}, "B": {"Y", "V", "N.I"}, "D": {"P", "Q"}, "E": {"S", "R"}, "T1": {"X", "W", "N.T"}, "T2": {"W", "X"}}
	n := 2 + r.Intn(2)
	for i := 0; i < n; i++ {
		// one queue of lines per target field (their order matters), merged at random below
		var queues [][]string
		ign := func(fs ...string) string { return "ignore " + strings.Join(fs, " ") }
		for _, fld := range []string{"A", "B", "D", "E"} {
			s1 := rng.Pick(r, srcs[fld])
			s2 := rng.Pick(r, srcs[fld])
			mp, mp2 := "map "+s1+" "+fld, "map "+s2+" "+fld
			var q []string
			switch r.Intn(10) {
			case 0:
				q = []string{ign(fld)}
			case 1:
				q = []string{mp}
			case 2:
				q = []string{ign(fld), mp} // a left-over mapping of a field that was switched off
			case 3:
				q = []string{mp, ign(fld)}
			case 4:
				q = []string{mp, mp2} // the later line names the source
			case 5:
				q = []string{ign(fld), "map " + fld} // the one-argument form on an ignored field
			case 6:
				q = []string{"map " + fld, mp}
			case 7:
				q = []string{mp, ign(fld), mp2}
			case 8:
				q = []string{ign(fld), ign(fld), mp}
			default:
				q = []string{ign(fld, "Keep"), mp2, mp} // a multi-field ignore line
			}
			queues = append(queues, q)
		}
		for k, fld := range []string{"T1", "T2"} {
			s1 := rng.Pick(r, srcs[fld])
			s2 := rng.Pick(r, srcs[fld])
			fn, alt := " | Mk"+p, " | Alt"+p
			if k == 1 && r.Bool() {
				fn, alt = alt, fn
			}
			mp, mp2 := "map "+s1+" "+fld+fn, "map "+s2+" "+fld+alt
			var q []string
			switch r.Intn(8) {
			case 0:
				q = []string{ign(fld)}
			case 1:
				q = []string{mp}
			case 2:
				q = []string{ign(fld), mp}
			case 3:
				q = []string{mp, ign(fld)}
			case 4:
				q = []string{mp, mp2} // the later line names source and function
			case 5:
				q = []string{mp, "map " + s2 + " " + fld} // a later line without a function keeps the function (Gv.Settings.parseMethodLine)
			case 6:
				q = []string{ign(fld), "map " + fld, mp}
			default:
				q = []string{mp2, ign(fld), mp}
			}
			queues = append(queues, q)
		}
		// fields matched by name: the one-argument map is a no-op there, with or without an ignore line
		switch r.Intn(6) {
		case 0:
			queues = append(queues, []string{ign("W"), "map W"})
		case 1:
			queues = append(queues, []string{"map W", ign("W")})
		case 2:
			queues = append(queues, []string{"map X W", "map W"})
		case 3:
			queues = append(queues, []string{ign("V"), "map Y V"}, []string{"map W"})
		case 4:
			queues = append(queues, []string{"map N.I V", "map V", ign("W", "V")})
		}
		queues = append(queues, []string{ign("Keep")})
		for _, fl := range flags {
			if r.Chance(15) {
				queues = append(queues, []string{fl + rng.Pick(r, []string{"", " yes", " no"})})
			}
		}
		b.WriteString("\t// goverter:update target\n")
		for len(queues) > 0 {
			k := r.Intn(len(queues))
			b.WriteString("\t// goverter:" + queues[k][0] + "\n")
			if queues[k] = queues[k][1:]; len(queues[k]) == 0 {
				queues = append(queues[:k], queues[k+1:]...)
			}
		}
		src := rng.Pick(r, []string{p + "In", "*" + p + "In"})
		res := rng.Pick(r, []string{"", " error"})
		if r.Bool() {
			b.WriteString(fmt.Sprintf("\tUp%d(source %s, target *%sOut)%s\n", i, src, p, res))
		} else {
			b.WriteString(fmt.Sprintf("\tUp%d(target *%sOut, source %s)%s\n", i, p, src, res))
		}
	}
	b.WriteString("}\n\n")
	f.add(p+"C", b.String())
	return f
}

// withUpdateLines puts a famUpdateLines instance next to every second instance of fam (same batch, one build); its random
// stream is its own, so the instances of fam are the ones the campaign had before.
func withUpdateLines(e *env, fam func(r *rng.R, id int) *famOut) func(r *rng.R, id int) *famOut {
	lr := rng.New(e.seed*0x9E3779B97F4A7C15 + 0xC10)
	return func(r *rng.R, id int) *famOut {
		f := fam(r, id)
		if id%2 == 0 {
			return merge(f, famUpdateLines(lr.Fork(uint64(id)), id))
		}
		return f
	}
}

// methodDoc reads, from the source text of a converter interface, the goverter lines written above the method and its
// parameter names.
func methodDoc(src, method string) (lines, params []string, ok bool) {
	var doc []string
	for _, l := range strings.Split(src, "\n") {
		t := strings.TrimSpace(l)
		if strings.HasPrefix(t, "// goverter:") {
			doc = append(doc, strings.TrimPrefix(t, "// goverter:"))
			continue
		}
		if strings.HasPrefix(t, method+"(") {
			sig := t[len(method)+1:]
			if j := strings.Index(sig, ")"); j >= 0 {
				sig = sig[:j]
			}
			for _, a := range strings.Split(sig, ",") {
				if fs := strings.Fields(a); len(fs) >= 2 {
					params = append(params, fs[0])
				}
			}
			return doc, params, true
		}
		if !strings.HasPrefix(t, "//") {
			doc = nil
		}
	}
	return nil, nil, false
}

// canon prints a value up to the identity of its cells (the printer numbers arguments and results apart) and up to the order
// of map entries.
func canon(n *sx.Node) string {
	if n.Kind != sx.KList {
		return n.String()
	}
	h := n.Head()
	if h == "" {
		return n.String()
	}
	kids := n.Args()
	cell := h == "ptr" || h == "sl" || h == "mp"
	if cell && len(kids) > 0 {
		kids = kids[1:]
	}
	var parts []string
	for _, k := range kids {
		parts = append(parts, canon(k))
	}
	if h == "mp" {
		sort.Strings(parts)
	}
	return "(" + h + " " + strings.Join(parts, " ") + ")"
}

func sameValue(a, b *sx.Node) bool { return canon(a) == canon(b) }

// updateIgnoredOracle judges an executed update call by the text of C10 and the text of the method, whatever configuration
// the lines were resolved to: a field named by one of the method's `ignore` lines keeps its previous value, a nil source
// pointer leaves the target untouched.
func updateIgnoredOracle(e *env) func(c *k2Call) {
	return func(c *k2Call) {
		lines, params, ok := methodDoc(c.Source, c.Method)
		if !ok || len(params) != len(c.Values) {
			return
		}
		target := ""
		var ignored []string
		for _, l := range lines {
			fs := strings.Fields(l)
			if len(fs) == 2 && fs[0] == "update" {
				target = fs[1]
			}
			if len(fs) >= 2 && fs[0] == "ignore" {
				ignored = append(ignored, fs[1:]...)
			}
		}
		ti := -1
		for i, p := range params {
			if p == target {
				ti = i
			}
		}
		if target == "" || ti < 0 || len(params) != 2 {
			return
		}
		pre, err1 := sx.Parse(c.Values[ti])
		srcv, err2 := sx.Parse(c.Values[1-ti])
		post, err3 := sx.Parse(c.Impl)
		if err1 != nil || err2 != nil || err3 != nil || post.Head() != "ok" || len(post.L) != 2 || post.L[1].Head() != "ptr" {
			return
		}
		e.rep.Count("update-oracle.judged")
		if srcv.String() == "nil" && !sameValue(pre.L[len(pre.L)-1], post.L[1].L[len(post.L[1].L)-1]) {
			e.rep.Violation("update-nil-source-modifies-target", map[string]any{"call": c, "broken": "C10: the source pointer is nil and the target instance was modified"}, false)
			return
		}
		sort.Strings(ignored)
		for i, fld := range ignored {
			if i > 0 && ignored[i-1] == fld {
				continue
			}
			before, after := fieldOf(pre, fld), fieldOf(post, fld)
			if before == nil || after == nil {
				continue
			}
			e.rep.Count("update-oracle.ignored-field")
			if !sameValue(before, after) {
				e.rep.Violation("update-ignored-field-overwritten", map[string]any{"call": c, "field": fld, "method_lines": lines, "before": before.String(), "after": after.String(),
					"broken": "C10: a target field named by a `goverter:ignore` line of the update method did not keep its previous value (judged from the method's comment lines and the property text; implementation and model agree on the resolved configuration they were given)"}, false)
				return
			}
		}
	}
}

// implFieldSettings / modelFieldSettings: the per-field part of a resolved method in one canonical text, `F=source/ignore/function`.
func implFieldSettings(m *config.Method) string {
	var out []string
	for name, f := range m.Fields {
		fn := ""
		if f.Function != nil {
			fn = f.Function.Name
		}
		out = append(out, fmt.Sprintf("%s=%s/%v/%s", name, f.Source, f.Ignore, fn))
	}
	sort.Strings(out)
	return strings.Join(out, " ")
}

func modelFieldSettings(meth *sx.Node) (string, bool) {
	fns := map[string]string{}
	var fields *sx.Node
	for _, part := range meth.Args() {
		switch part.Head() {
		case "Fields":
			fields = part
		case "Functions":
			for _, f := range part.Args() {
				if len(f.L) != 3 {
					return "", false
				}
				name := f.L[2].S // as written: NAME or PKG:NAME
				if j := strings.LastIndex(name, ":"); j >= 0 {
					name = name[j+1:]
				}
				fns[f.L[1].S] = name
			}
		}
	}
	if fields == nil {
		return "", false
	}
	var out []string
	for _, f := range fields.Args() {
		if len(f.L) != 4 {
			return "", false
		}
		out = append(out, fmt.Sprintf("%s=%s/%s/%s", f.L[1].S, f.L[2].S, f.L[3].S, fns[f.L[1].S]))
	}
	sort.Strings(out)
	return strings.Join(out, " "), true
}

// fieldSettingsTie is the per-field half of the settings tie of runK2 (called with the result lock held).
func fieldSettingsTie(res *k2Result, descr map[string]any, impl string, ans *sx.Node) {
	model, ok := modelFieldSettings(ans.L[2])
	if !ok || model == impl {
		return
	}
	// a change in how lines combine shows on many methods at once: three witnesses per run are kept, so that the replay
	// budget of the run is left to the executed calls judged by updateIgnoredOracle
	n := 0
	for _, x := range res.SettingsDiffs {
		if x["part"] == "field settings" {
			n++
		}
	}
	if n >= 3 {
		return
	}
	d := map[string]any{"part": "field settings"}
	for k, v := range descr {
		d[k] = v
	}
	d["implementation"], d["model"] = impl, model
	d["broken"] = "correspondence (field settings of a generated method): source / ignore / function per target field, as the implementation's configuration stage resolves the method's lines, differ from Gv.Settings.resolve on the same lines"
	res.SettingsDiffs = append(res.SettingsDiffs, d)
}
