package main

import (
	"fmt"
	"go/ast"
	"go/parser"
	"go/token"
	"go/types"
	"os"
	"path/filepath"
	"sort"
	"strings"

	"github.com/jmattheis/goverter/comments"
	"github.com/jmattheis/goverter/config"
	"github.com/jmattheis/goverter/config/parse"
	"github.com/jmattheis/goverter/pkgload"

	"gvh/internal/drv"
	"gvh/internal/rng"
	"gvh/internal/sx"
)

func init() { campaigns["C19"] = runC19 }

// ---------------------------------------------------------------------------
// layout description (mirrors Gv.Comments in the Lean model)

type lMethod struct {
	Names []string
	Doc   []string
}

type lSpec struct {
	Kind    string // iface | type | value
	Names   []string
	Doc     []string
	Methods []lMethod
	Trail   string // trailing comment text (noise), "" = none
}

type lDecl struct {
	Gen     bool
	Tok     string // type | var | const
	Grouped bool
	Doc     []string
	Specs   []lSpec
	// func
	Name     string
	BodyNote string   // comment inside the body (noise)
	BodyDecl int      // declarations INSIDE the function body, each with a marker comment in front (1: interface type, 2: var block, 3: both): not package-level declarations
	Detached []string // a detached comment group before the declaration (noise)
}

var textPool = []string{
	"goverter:converter", "goverter:variables", "goverter:map A B", "goverter:ignore X Y", "goverter:name Foo",
	"goverter:extend Fn", "goverter:", "goverter", "goverter :converter", "goverter: converter", "xgoverter:converter",
	"Goverter:converter", "some prose about things", "see goverter:converter for details", "goverter:context ctx",
	"goverter:context a b", "goverter:wrapErrors", "goverter:output:file ./x.go", "", "  ", "goverter:converter goverter:variables",
	"go:generate something", "nolint:all", "goverter:map  Spaced   Out ", "goverter:map\tTabbed",
	"goverter:variablesX", "the goverter:variables marker", " goverter:nbsp before", "goverter: nbsp after", "goverter:é unicode",
}

var leadPool = []string{"", " ", "  ", "\t", " \t", "   "}
var trailPool = []string{"", "", "", " ", "\t", "  "}

func genText(r *rng.R) string {
	t := rng.Pick(r, textPool)
	if r.Chance(8) {
		// mutate: drop or duplicate a character
		rs := []rune(t)
		if len(rs) > 0 {
			i := r.Intn(len(rs))
			if r.Bool() {
				rs = append(rs[:i], rs[i+1:]...)
			} else {
				rs = append(rs[:i+1], rs[i:]...)
			}
			t = string(rs)
		}
	}
	return t
}

// genComment returns one raw comment (with markers).
func genComment(r *rng.R) string {
	if r.Chance(75) {
		return "//" + rng.Pick(r, leadPool) + genText(r) + rng.Pick(r, trailPool)
	}
	n := 1 + r.Intn(3)
	var ls []string
	for i := 0; i < n; i++ {
		ls = append(ls, rng.Pick(r, leadPool)+genText(r)+rng.Pick(r, trailPool))
	}
	body := strings.Join(ls, "\n")
	if r.Chance(30) {
		body = "\n" + body + "\n"
	}
	body = strings.ReplaceAll(body, "*/", "* /")
	return "/*" + body + "*/"
}

func genDoc(r *rng.R, pMarker int, marker string) []string {
	n := r.Intn(4)
	var g []string
	for i := 0; i < n; i++ {
		g = append(g, genComment(r))
	}
	if r.Chance(pMarker) {
		c := "//" + rng.Pick(r, leadPool) + marker
		if r.Chance(20) {
			c = "/*" + rng.Pick(r, leadPool) + marker + " */"
		}
		i := r.Intn(len(g) + 1)
		g = append(g[:i], append([]string{c}, g[i:]...)...)
	}
	return g
}

type nameGen struct{ n int }

func (g *nameGen) next(p string) string { g.n++; return fmt.Sprintf("%s%d", p, g.n) }

func genLayout(r *rng.R, names *nameGen, allowD13 bool) []lDecl {
	var ds []lDecl
	n := 1 + r.Intn(5)
	for i := 0; i < n; i++ {
		var d lDecl
		if r.Chance(15) {
			d.Detached = genDoc(r, 30, rng.Pick(r, []string{"goverter:converter", "goverter:variables"}))
		}
		switch k := r.Intn(10); {
		case k < 4: // type decl
			d.Gen, d.Tok = true, "type"
			d.Grouped = r.Chance(40)
			ns := 1
			if d.Grouped {
				ns = r.Intn(4) // 0..3 specs
			}
			declMarker := 45
			if d.Grouped {
				declMarker = 20
			}
			d.Doc = genDoc(r, declMarker, rng.Pick(r, []string{"goverter:converter", "goverter:converter", "goverter:variables"}))
			for j := 0; j < ns; j++ {
				sp := lSpec{Kind: "iface", Names: []string{names.next("T")}}
				if r.Chance(25) {
					sp.Kind = "type"
				}
				if d.Grouped {
					sp.Doc = genDoc(r, 45, rng.Pick(r, []string{"goverter:converter", "goverter:converter", "goverter:variables"}))
				}
				if sp.Kind == "iface" {
					nm := r.Intn(4)
					for m := 0; m < nm; m++ {
						me := lMethod{Names: []string{names.next("M")}, Doc: genDoc(r, 3, "goverter:converter")}
						if r.Chance(6) {
							me.Names = nil // embedded interface
						}
						sp.Methods = append(sp.Methods, me)
					}
				}
				if r.Chance(15) {
					sp.Trail = genText(r)
				}
				d.Specs = append(d.Specs, sp)
			}
		case k < 7: // var decl
			d.Gen, d.Tok = true, "var"
			d.Grouped = r.Chance(70)
			ns := 1
			if d.Grouped {
				ns = r.Intn(4)
			}
			d.Doc = genDoc(r, 45, rng.Pick(r, []string{"goverter:variables", "goverter:variables", "goverter:converter"}))
			for j := 0; j < ns; j++ {
				sp := lSpec{Kind: "value", Names: []string{names.next("V")}}
				if r.Chance(8) {
					sp.Names = append(sp.Names, names.next("V"))
				}
				if d.Grouped {
					p := 0
					if allowD13 {
						p = 4
					}
					sp.Doc = genDoc(r, p, rng.Pick(r, []string{"goverter:variables", "goverter:converter"}))
				}
				if r.Chance(15) {
					sp.Trail = genText(r)
				}
				d.Specs = append(d.Specs, sp)
			}
		case k < 8: // const decl
			d.Gen, d.Tok = true, "const"
			d.Grouped = r.Chance(50)
			ns := 1
			if d.Grouped {
				ns = 1 + r.Intn(2)
			}
			d.Doc = genDoc(r, 20, rng.Pick(r, []string{"goverter:variables", "goverter:converter"}))
			for j := 0; j < ns; j++ {
				sp := lSpec{Kind: "value", Names: []string{names.next("K")}}
				if d.Grouped {
					sp.Doc = genDoc(r, 0, "")
				}
				d.Specs = append(d.Specs, sp)
			}
		default: // func decl
			d.Name = names.next("F")
			p := 0
			if allowD13 {
				p = 4
			}
			d.Doc = genDoc(r, p, rng.Pick(r, []string{"goverter:variables", "goverter:converter"}))
			if r.Chance(40) {
				d.BodyNote = genText(r)
			}
			if r.Chance(30) {
				d.BodyDecl = 1 + r.Intn(3)
			}
		}
		ds = append(ds, d)
	}
	return ds
}

// scrub removes marker text from places where it would be the (known) D13 class, unless allowed.
func hasMarker(doc []string) bool {
	for _, c := range doc {
		if strings.Contains(c, "goverter:converter") || strings.Contains(c, "goverter:variables") {
			return true
		}
	}
	return false
}

func scrubD13(ds []lDecl) {
	clean := func(doc []string) []string {
		var out []string
		for _, c := range doc {
			c = strings.ReplaceAll(c, "goverter:converter", "goverter:convertor")
			c = strings.ReplaceAll(c, "goverter:variables", "goverter:variablez")
			out = append(out, c)
		}
		return out
	}
	for i := range ds {
		d := &ds[i]
		if !d.Gen {
			d.Doc = clean(d.Doc)
			continue
		}
		for j := range d.Specs {
			if d.Specs[j].Kind == "value" {
				d.Specs[j].Doc = clean(d.Specs[j].Doc)
			} else {
				// a type spec whose doc carries only the variables marker is the same known class
				for k, c := range d.Specs[j].Doc {
					d.Specs[j].Doc[k] = strings.ReplaceAll(c, "goverter:variables", "goverter:variablez")
				}
			}
		}
	}
}

func writeDoc(b *strings.Builder, indent string, doc []string) {
	for _, c := range doc {
		b.WriteString(indent)
		b.WriteString(c)
		b.WriteString("\n")
	}
}

func renderSpec(b *strings.Builder, indent string, tok string, sp lSpec) {
	switch sp.Kind {
	case "iface":
		b.WriteString(indent + sp.Names[0] + " interface {\n")
		for _, m := range sp.Methods {
			writeDoc(b, indent+"\t", m.Doc)
			if len(m.Names) == 0 {
				b.WriteString(indent + "\tBaseIface\n")
			} else {
				b.WriteString(indent + "\t" + m.Names[0] + "(int) string\n")
			}
		}
		b.WriteString(indent + "}")
	case "type":
		b.WriteString(indent + sp.Names[0] + " struct{ A int }")
	case "value":
		if tok == "const" {
			b.WriteString(indent + strings.Join(sp.Names, ", ") + " = " + strings.TrimSuffix(strings.Repeat("1, ", len(sp.Names)), ", "))
		} else {
			b.WriteString(indent + strings.Join(sp.Names, ", ") + " func(int) string")
		}
	}
	if sp.Trail != "" {
		b.WriteString(" // " + strings.ReplaceAll(sp.Trail, "\n", " "))
	}
	b.WriteString("\n")
}

func renderFile(pkg string, ds []lDecl) string {
	var b strings.Builder
	b.WriteString("package " + pkg + "\n\n")
	for _, d := range ds {
		if len(d.Detached) > 0 {
			writeDoc(&b, "", d.Detached)
			b.WriteString("\n")
		}
		writeDoc(&b, "", d.Doc)
		if !d.Gen {
			b.WriteString("func " + d.Name + "() {\n")
			if d.BodyNote != "" {
				b.WriteString("\t// " + strings.ReplaceAll(d.BodyNote, "\n", " ") + "\n")
			}
			if d.BodyDecl&1 != 0 {
				b.WriteString("\t// goverter:converter\n\t// goverter:name InBody\n\ttype local" + d.Name + " interface{ M(int) string }\n\tvar _ local" + d.Name + "\n")
			}
			if d.BodyDecl&2 != 0 {
				b.WriteString("\t// goverter:variables\n\t// goverter:skipCopySameType\n\tvar (\n\t\t// goverter:ignore X\n\t\tlv" + d.Name + " func(int) int\n\t)\n\t_ = lv" + d.Name + "\n")
			}
			b.WriteString("}\n\n")
			continue
		}
		if d.Grouped {
			b.WriteString(d.Tok + " (\n")
			for _, sp := range d.Specs {
				writeDoc(&b, "\t", sp.Doc)
				renderSpec(&b, "\t", d.Tok, sp)
			}
			b.WriteString(")\n\n")
		} else {
			var sb strings.Builder
			renderSpec(&sb, "", d.Tok, d.Specs[0])
			b.WriteString(d.Tok + " " + sb.String() + "\n")
		}
	}
	return b.String()
}

func layoutReq(id int, ds []lDecl) *sx.Node {
	req := sx.H("layout", sx.I(id))
	for _, d := range ds {
		if !d.Gen {
			req.Add(sx.H("decl", sx.A("func"), sx.S(d.Name), sx.Strs("doc", d.Doc)))
			continue
		}
		dn := sx.H("decl", sx.A("gen"), sx.A(d.Tok), sx.Strs("doc", d.Doc))
		for _, sp := range d.Specs {
			ms := sx.H("methods")
			for _, m := range sp.Methods {
				ms.Add(sx.H("m", sx.Strs("names", m.Names), sx.Strs("doc", m.Doc)))
			}
			dn.Add(sx.H("spec", sx.A(sp.Kind), sx.Strs("names", sp.Names), sx.Strs("doc", sp.Doc), ms))
		}
		req.Add(dn)
	}
	return req
}

func classifyDocErr(msg string) string {
	switch {
	case strings.Contains(msg, `must be defined on "var"-block`):
		return "variablesNotOnVar"
	case strings.Contains(msg, `must be defined on "type"-block`):
		return "converterNotOnType"
	case strings.Contains(msg, "method must have one name"):
		return "methodNames"
	case strings.Contains(msg, "must have one name"):
		return "valueSpecNames"
	case strings.Contains(msg, "multiple interfaces inside"):
		return "multipleSpecs"
	case strings.Contains(msg, "may only be applied to type interface declarations"):
		return "notInterface"
	}
	return "unclassified:" + msg
}

func rawConvsToSx(cs []config.RawConverter) *sx.Node {
	out := sx.H("ok")
	for _, c := range cs {
		ms := sx.H("methods")
		var names []string
		for n := range c.Methods {
			names = append(names, n)
		}
		sort.Strings(names)
		for _, n := range names {
			ms.Add(sx.H("m", sx.S(n), sx.Strs("lines", c.Methods[n].Lines)))
		}
		out.Add(sx.H("conv", sx.S(c.InterfaceName), sx.Strs("lines", c.Converter.Lines), ms))
	}
	return out
}

// sortMethods sorts the (m ...) entries of every conv of a model answer by name (the code keeps a map).
func sortModelMethods(n *sx.Node) {
	if n.Head() != "ok" {
		return
	}
	for _, c := range n.Args() {
		if c.Head() != "conv" || len(c.L) < 4 {
			continue
		}
		ms := c.L[3]
		args := ms.L[1:]
		sort.SliceStable(args, func(i, j int) bool { return args[i].L[1].S < args[j].L[1].S })
	}
}

// implLayout runs the real parseGenDecl over the rendered source.
func implLayout(src string) (*sx.Node, error) {
	fset := token.NewFileSet()
	f, err := parser.ParseFile(fset, "input.go", src, parser.ParseComments)
	if err != nil {
		return nil, err
	}
	pkg := types.NewPackage("example.org/p", f.Name.Name)
	var all []config.RawConverter
	for _, decl := range f.Decls {
		if gd, ok := decl.(*ast.GenDecl); ok {
			cs, err := comments.VerifParseGenDecl(fset, pkg, gd)
			if err != nil {
				return sx.H("err", sx.A(classifyDocErr(err.Error()))), nil
			}
			all = append(all, cs...)
		}
	}
	return rawConvsToSx(all), nil
}

func runC19(e *env) error {
	e.rep.Rule = "cases: (a) random strings through parse.SettingLines / parse.Command, random comment groups through parse.CommentToString and pkgload.localConfig; (b) generated declaration layouts rendered to Go source and parsed by go/parser, then comments.parseGenDecl (hook) and, for a sample, comments.ParseDocs on a scratch module; each compared with the Lean model's answer. non-trivial = the case contains at least one goverter: line or marker; distinct = by canonical request text"
	nLines, nLayouts, nReal := 4000, 6000, 24
	if e.thorough {
		nLines, nLayouts, nReal = 60000, 120000, 160
	}

	// corpus first
	var reqs []*sx.Node
	var impl []*sx.Node
	var descr []map[string]any
	add := func(req, im *sx.Node, d map[string]any) {
		reqs = append(reqs, req)
		impl = append(impl, im)
		descr = append(descr, d)
	}

	// (a) direct
	ra := e.r.Fork(1)
	longLine := strings.Repeat("x", 65536)
	directTexts := []string{
		"", "\n", "goverter:a", "goverter:a\n", " goverter:a \r\n\tgoverter:b\r", "goverter:a\r\r\n", "x\n\ngoverter:\n",
		strings.Repeat("y", 65535) + "\ngoverter:afterLongOK",
	}
	for i := 0; i < nLines; i++ {
		var t string
		if i < len(directTexts) {
			t = directTexts[i]
		} else {
			n := ra.Intn(6)
			var ls []string
			for j := 0; j < n; j++ {
				ls = append(ls, rng.Pick(ra, leadPool)+genText(ra)+rng.Pick(ra, trailPool))
			}
			sep := "\n"
			if ra.Chance(10) {
				sep = "\r\n"
			}
			t = strings.Join(ls, sep)
			if ra.Chance(30) {
				t += sep
			}
		}
		add(sx.H("slines", sx.I(len(reqs)), sx.S(t)), sx.Strs("lines", parse.SettingLines(t)), map[string]any{"kind": "SettingLines", "text": t})
		if strings.Contains(t, "goverter:") {
			e.rep.Nontrivial("sl:" + t)
		}
		e.rep.Count("direct.SettingLines")
	}
	// pinned witness of the long-line class (D12)
	{
		t := "goverter:before\n" + longLine + "\ngoverter:after"
		add(sx.H("slines", sx.I(len(reqs)), sx.S(t)), sx.Strs("lines", parse.SettingLines(t)), map[string]any{"kind": "SettingLines", "text": "goverter:before\\n<65536 x>\\ngoverter:after"})
		e.rep.Nontrivial("sl:long")
	}
	for i := 0; i < nLines; i++ {
		t := rng.Pick(ra, leadPool) + genText(ra) + rng.Pick(ra, trailPool)
		a, b := parse.Command(t)
		add(sx.H("command", sx.I(len(reqs)), sx.S(t)), sx.H("cmd", sx.S(a), sx.S(b)), map[string]any{"kind": "Command", "text": t})
		if strings.Contains(t, " ") {
			e.rep.Nontrivial("cmd:" + t)
		}
		e.rep.Count("direct.Command")
	}
	for i := 0; i < nLines; i++ {
		g := genDoc(ra, 30, rng.Pick(ra, []string{"goverter:converter", "goverter:variables"}))
		cg := &ast.CommentGroup{}
		for _, c := range g {
			cg.List = append(cg.List, &ast.Comment{Text: c})
		}
		var got string
		if len(g) == 0 {
			got = parse.CommentToString(nil)
		} else {
			got = parse.CommentToString(cg)
		}
		req := sx.H("c2s", sx.I(len(reqs)))
		for _, c := range g {
			req.Add(sx.S(c))
		}
		obs := sx.H("doc", sx.Strs("lines", parse.SettingLines(got)), sx.B(strings.Contains(got, "goverter:converter")), sx.B(strings.Contains(got, "goverter:variables")))
		add(req, obs, map[string]any{"kind": "CommentToString+SettingLines", "group": g, "flattened": got})
		if strings.Contains(got, "goverter:") {
			e.rep.Nontrivial("c2s:" + strings.Join(g, "\x00"))
		}
		e.rep.Count("direct.CommentToString")
	}
	// localConfig on function docs
	for i := 0; i < nLines/4; i++ {
		g := genDoc(ra, 0, "")
		if ra.Chance(60) {
			g = append(g, "// goverter:context "+rng.Pick(ra, []string{"ctx", "a b", "", "x", " y "}))
		}
		src := "package p\n\n" + strings.Join(g, "\n") + "\nfunc F(ctx int, x int) int { return 0 }\n"
		// a METHOD of the same name with its own doc comment, before or after the function: its lines belong to the method
		switch ra.Intn(6) {
		case 0:
			src += "\ntype T struct{}\n\n// goverter:context y\n// goverter:context x\nfunc (T) F(y int, x int) int { return 0 }\n"
		case 1:
			src = "package p\n\ntype T struct{}\n\n// goverter:context y\n// goverter:context x\nfunc (T) F(y int, x int) int { return 0 }\n\n" + strings.TrimPrefix(src, "package p\n\n")
		}
		fset := token.NewFileSet()
		f, err := parser.ParseFile(fset, "f.go", src, parser.ParseComments)
		if err != nil {
			return fmt.Errorf("localctx render: %v\n%s", err, src)
		}
		lo := pkgload.VerifLocalConfig("example.org/p", []*ast.File{f}, "F")
		var cs []string
		for k := range lo.Context {
			cs = append(cs, k)
		}
		sort.Strings(cs)
		req := sx.H("localctx", sx.I(len(reqs)))
		for _, c := range g {
			req.Add(sx.S(c))
		}
		add(req, sx.Strs("ctx", cs), map[string]any{"kind": "localConfig", "group": g, "sorted": true})
		if len(cs) > 0 {
			e.rep.Nontrivial("lc:" + strings.Join(g, "\x00"))
		}
		e.rep.Count("direct.localConfig")
	}

	// (b) layouts through go/parser + parseGenDecl
	rb := e.r.Fork(2)
	names := &nameGen{}
	for i := 0; i < nLayouts; i++ {
		allow := i == 0 // one pinned D13 witness; the generator is otherwise biased away from the known class
		ds := genLayout(rb, names, false)
		if allow {
			ds = []lDecl{{Name: "F1", Doc: []string{"// goverter:converter"}}, {Gen: true, Tok: "var", Grouped: true, Specs: []lSpec{{Kind: "value", Names: []string{"V1"}, Doc: []string{"// goverter:variables"}}}}}
		} else {
			scrubD13(ds)
		}
		src := renderFile("p", ds)
		im, err := implLayout(src)
		if err != nil {
			return fmt.Errorf("layout render does not parse: %v\n%s", err, src)
		}
		add(layoutReq(len(reqs), ds), im, map[string]any{"kind": "layout", "source": src})
		if strings.Contains(src, "goverter:") {
			e.rep.Nontrivial("layout:" + src)
		}
		e.rep.Count("layout." + im.Head())
	}

	answers, err := drv.Run(reqs)
	if err != nil {
		return err
	}
	e.rep.Eval(len(reqs))
	for i, a := range answers {
		model, specdiff := splitSpecDiff(a)
		sortModelMethods(model)
		if descr[i]["sorted"] == true {
			sortArgs(model)
		}
		if model.String() != impl[i].String() {
			d := descr[i]
			d["implementation"] = impl[i].String()
			d["model"] = model.String()
			d["request"] = reqs[i].String()
			d["broken"] = "correspondence C19: Lean model Gv.Comments vs config/parse + comments"
			e.rep.Violation("", d, false)
			continue
		}
		if specdiff != nil {
			d := descr[i]
			d["implementation"] = impl[i].String()
			d["specification"] = specdiff.String()
			d["request"] = reqs[i].String()
			e.rep.Violation(specdiff.L[1].S, d, false)
		}
		if i%997 == 0 {
			e.rep.Sample(map[string]any{"request": truncate(reqs[i].String(), 400), "answer": truncate(impl[i].String(), 300)})
		}
	}

	// (c) real path: comments.ParseDocs on scratch modules
	rc := e.r.Fork(3)
	if err := c19RealPath(e, rc, nReal); err != nil {
		return err
	}
	// (c) the settings of a method are applied in SOURCE ORDER whatever kind of line they are: the field table and the raw field
	// lines of methods carrying several lines for one field, through the real comments.ParseDocs + config.Parse path
	if err := runFuncAttach(e); err != nil {
		return err
	}
	// the doc comments of CUSTOM FUNCTIONS selected by name or by pattern: their goverter:context lines belong to them
	if err := runExtSel(e); err != nil {
		return err
	}
	// repeated identical setting lines: every output:raw line of a doc comment is applied, in order, as often as written (w10_c19.go)
	if err := runRawLines(e); err != nil {
		return err
	}
	return nil
}

func truncate(s string, n int) string {
	if len(s) <= n {
		return s
	}
	return s[:n] + "…"
}

// sortArgs sorts and de-duplicates the arguments of a list form (the code stores them in a set).
func sortArgs(n *sx.Node) {
	if n.Kind != sx.KList || len(n.L) < 2 {
		return
	}
	args := n.L[1:]
	sort.SliceStable(args, func(i, j int) bool { return args[i].S < args[j].S })
	out := n.L[:1]
	for i, a := range args {
		if i > 0 && a.S == args[i-1].S {
			continue
		}
		out = append(out, a)
	}
	n.L = out
}

// splitSpecDiff separates a trailing (specdiff "hyp" answer) from a model answer of the form (both model (specdiff ..)).
func splitSpecDiff(a *sx.Node) (*sx.Node, *sx.Node) {
	if a.Head() == "both" && len(a.L) == 3 {
		return a.L[1], a.L[2]
	}
	return a, nil
}

func c19RealPath(e *env, r *rng.R, n int) error {
	root := filepath.Join(e.scratch, "c19mod")
	if err := os.MkdirAll(root, 0o755); err != nil {
		return err
	}
	if err := os.WriteFile(filepath.Join(root, "go.mod"), []byte("module example.org/c19\n\ngo 1.18\n"), 0o644); err != nil {
		return err
	}
	names := &nameGen{}
	type job struct {
		dir string
		ds  [][]lDecl
		src []string
	}
	var jobs []job
	for i := 0; i < n; i++ {
		dir := fmt.Sprintf("p%d", i)
		_ = os.MkdirAll(filepath.Join(root, dir), 0o755)
		j := job{dir: dir}
		nf := 1 + r.Intn(3)
		for k := 0; k < nf; k++ {
			ds := genLayout(r, names, false)
			scrubD13(ds)
			src := renderFile(dir, ds)
			// text before the package clause is attached to no declaration: a generated-code or licence header, a build
			// constraint, a package doc comment that mentions the markers — none of it decides what is a converter
			src = rng.Pick(r, []string{"", "", "// Code generated by some-template-tool. DO NOT EDIT.\n\n",
				"// Copyright 2024 The Authors.\n// goverter:converter\n\n", "//go:build !never\n\n",
				"/* goverter:variables */\n\n// Package docs.\n// goverter:converter\n// goverter:name Nope\n",
				"// Code generated by protoc-gen-x. DO NOT EDIT.\n// source: x.proto\n\n// Package doc.\n"}) + src
			j.ds = append(j.ds, ds)
			j.src = append(j.src, src)
			if err := os.WriteFile(filepath.Join(root, dir, fmt.Sprintf("f%d.go", k)), []byte(src), 0o644); err != nil {
				return err
			}
		}
		base := "package " + dir + "\n\ntype BaseIface interface{ Base() }\n"
		if err := os.WriteFile(filepath.Join(root, dir, "zz_base.go"), []byte(base), 0o644); err != nil {
			return err
		}
		jobs = append(jobs, j)
	}
	var reqs, impl []*sx.Node
	var descr []map[string]any
	sem := make(chan struct{}, 8)
	type res struct {
		i   int
		out *sx.Node
	}
	results := make([]*sx.Node, len(jobs))
	done := make(chan res)
	for i, j := range jobs {
		go func(i int, j job) {
			sem <- struct{}{}
			defer func() { <-sem }()
			cs, err := comments.ParseDocs(comments.ParseDocsConfig{PackagePattern: []string{"./" + j.dir}, WorkingDir: root, BuildTags: "goverter"})
			if err != nil {
				done <- res{i, sx.H("err", sx.A(classifyDocErr(err.Error())))}
				return
			}
			done <- res{i, rawConvsToSx(cs)}
		}(i, j)
	}
	for range jobs {
		r := <-done
		results[r.i] = r.out
	}
	for i, j := range jobs {
		var all []lDecl
		for _, ds := range j.ds {
			all = append(all, ds...)
		}
		reqs = append(reqs, layoutReq(i, all))
		impl = append(impl, results[i])
		descr = append(descr, map[string]any{"kind": "ParseDocs", "files": j.src})
		e.rep.Nontrivial("real:" + strings.Join(j.src, "\x00"))
		e.rep.Count("real." + results[i].Head())
	}
	answers, err := drv.Run(reqs)
	if err != nil {
		return err
	}
	e.rep.Eval(len(reqs))
	for i, a := range answers {
		model, _ := splitSpecDiff(a)
		sortModelMethods(model)
		if model.String() != impl[i].String() {
			d := descr[i]
			d["implementation"] = impl[i].String()
			d["model"] = model.String()
			d["broken"] = "correspondence C19 (real path comments.ParseDocs)"
			e.rep.Violation("", d, false)
		}
	}
	return nil
}
