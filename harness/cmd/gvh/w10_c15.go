package main

import (
	"fmt"
	"path/filepath"
	"strings"

	"gvh/internal/rng"
)

// The NAME of the declaring file is an input of the layout: the default output of a variables block is <file>.gen.go
// NEXT TO the block (Gv.Layout.defaultOutputFile: base name without its extension + ".gen" + extension), and every
// relative output:file is resolved against the directory of the declaring file whatever that file is called. The
// cases of genLayCase all declare their converters in conv<i>.go; here the declaring files get the names real projects
// use (stems ending in letters of the extension, stems with dots, upper case, one-letter stems, a stem equal to the
// extension's letters, a stem equal to the directory name), and every 10th case gets further variables blocks that rely
// on the DEFAULT output file, spread over several files of one package (and two blocks in one file, which share their
// default file). The request to the model carries the new names, so created paths / package clauses / modes are
// compared with Gv.Layout.place exactly as for the other cases.

const w10C15Rule = "; declaring files carry varied names (stems ending in the extension's letters, dotted stems, upper case, one letter, the directory's name) and every 10th case adds variables blocks relying on the default <file>.gen.go in several files of one package"

// stems that are legitimate Go source file names: no leading '_' or '.', no _test / _GOOS / _GOARCH suffix, and none
// that collides with the other files of the generated trees (types.go, existing.go, out0.go, out1.go) or with a default
// output of another stem (<stem>.gen.go).
var w10C15Stems = []string{
	"mapping", "dto", "config", "log", "lo", "go", "proto", "input", "converter", "models",
	"a.g", "x.y", "Mapping", "DTO", "g", "o", "gogo", "geo", "catalog.v2", "to.go", "a", "b", "sub", "convert_gen", "zz",
}

// w10C15Names renames the declaring files of the case (one new name per declaring file, distinct inside a directory)
// and, in the pinned cases, adds variables blocks with the default output file.
func w10C15Names(r *rng.R, lc *layCase) {
	used := map[string]bool{} // dir/lower-case stem
	pick := func(dir string, first int) string {
		for k := 0; ; k++ {
			s := w10C15Stems[(first+k)%len(w10C15Stems)]
			// (go refuses two files of a directory whose names differ only in case)
			if key := dir + "/" + strings.ToLower(s); !used[key] {
				used[key] = true
				return s
			}
		}
	}
	renamed := map[string]string{}
	for _, cv := range lc.Convs {
		nf, ok := renamed[cv.File]
		if !ok {
			nf = cv.File
			if !r.Chance(25) { // a quarter keeps conv<i>.go
				nf = cv.Pkg + "/" + pick(cv.Pkg, r.Intn(len(w10C15Stems))) + ".go"
			}
			renamed[cv.File] = nf
			if nf != cv.File {
				lc.Tree[nf] = lc.Tree[cv.File]
				delete(lc.Tree, cv.File)
			}
		}
		cv.File = nf
	}
	// pinned: further variables blocks with the DEFAULT output file (the -g output:file of a case would select their file
	// instead, so those cases are left as they are)
	if lc.ID%10 != 2 || len(lc.Global) > 0 {
		return
	}
	pkg := "a"
	nFiles := 2 + r.Intn(2)
	k := 0
	for f := 0; f < nFiles; f++ {
		stem := pick(pkg, (lc.ID/10)*3+f)
		file := pkg + "/" + stem + ".go"
		var b strings.Builder
		b.WriteString("package " + filepath.Base(pkg) + "\n\n")
		blocks := 1
		if f == 0 && r.Chance(40) {
			blocks = 2 // two blocks of one file share the default output file
		}
		for j := 0; j < blocks; j++ {
			cv := &layConv{Pkg: pkg, File: file, Vars: true, Name: fmt.Sprintf("VarConv%d", k)}
			k++
			b.WriteString("// goverter:variables\nvar (\n\t" + cv.Name + " func(In) Out\n)\n\n")
			lc.Convs = append(lc.Convs, cv)
		}
		lc.Tree[file] = b.String()
	}
}
