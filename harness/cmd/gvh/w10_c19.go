package main

import (
	"fmt"
	"os"
	"path/filepath"
	"strings"

	"github.com/jmattheis/goverter/comments"
	"github.com/jmattheis/goverter/config"
	"github.com/jmattheis/goverter/generator"

	"gvh/internal/drv"
	"gvh/internal/rng"
	"gvh/internal/sx"
)

// The repeated-line campaign (C19): every `goverter:` line of the doc comment of a converter is a setting and the lines are
// applied in source order, each with the text after the first space as its value — also when the SAME line occurs several
// times.  `output:raw` is the setting whose every occurrence is observable in the generated file (one emitted line per
// setting line), so converters are generated whose doc comments carry blocks of output:raw lines with many byte-identical
// lines (closing `}` / `)` lines, repeated slice elements, repeated statements, comment rulers, empty spacer lines), mixed
// with other settings, prose and look-alike lines, in every comment style; one to three converters of a package write to
// the same output file (by default, or through output:file / output:package) or to files of their own, and the command line
// contributes its own output:raw line to every converter.
//
//   - the setting lines of the doc comment: comments.ParseDocs vs Gv.Comments (c2s request);
//   - the OutputRaw list of the converter: config.Parse vs Gv.Settings (resolve request);
//   - the generated file: generator.Generate for the converters of one output file, compared with the file generated for the
//     same converters with every output:raw line removed: the lines that are new are exactly the model's OutputRaw lists of
//     the file's converters, each list in order and with every line as often as it was written (blank lines aside, which
//     gofmt merges); all other lines are unchanged; generation succeeds whenever it succeeds without the raw lines.
type rwConv struct {
	iface   string
	doc     []string // the comments of the doc comment group, as written
	base    []string // the same with the output:raw settings removed
	meth    string
	mLines  []string // model: setting lines
	mRaw    []string // model: OutputRaw
	fileKey string
}

type rwGroup struct {
	dir   string
	convs []*rwConv
}

var rwElems = []string{"\t\"open\",", "\t\"write\",", "\t\"close\","}
var rwRulers = []string{"// ----", "// ====", "// section"}
var rwOther = []string{"ignoreMissing", "skipCopySameType", "matchIgnoreCase", "ignoreUnexported no", "wrapErrors", "struct:comment generated here"}
var rwProse = []string{"some prose about things", "", "see goverter:output:raw } for details", "xgoverter:output:raw }", "goverter :output:raw }", "Goverter:output:raw )",
	"output:raw }"}

// rwBlock returns the output:raw VALUES of one block of Go code (gofmt-canonical, one value per line).
func rwBlock(r *rng.R, u string) []string {
	switch r.Intn(9) {
	case 0:
		return []string{rng.Pick(r, rwRulers)}
	case 1:
		ls := []string{"var " + u + " = []string{"}
		for k := 0; k < 1+r.Intn(4); k++ {
			ls = append(ls, rng.Pick(r, rwElems))
		}
		return append(ls, "}")
	case 2:
		return []string{"func " + u + "() int {", "\treturn " + rng.Pick(r, []string{"0", "1"}), "}"}
	case 3:
		ls := []string{"func " + u + "(x int) int {"}
		for k := 0; k < 1+r.Intn(3); k++ {
			ls = append(ls, "\tx++")
		}
		return append(ls, "\treturn x", "}")
	case 4:
		return []string{"const (", "\t" + u + "a = 1", "\t" + u + "b = 1", ")"}
	case 5:
		return []string{"type " + u + " struct {", "\tA int", "\tB int", "}"}
	case 6:
		return []string{""}
	case 7:
		return []string{"func " + u + "() {}"}
	default:
		return []string{"var (", "\t" + u + "x int", "\t" + u + "y int", ")"}
	}
}

// rwRender turns doc entries (line texts) into comments of random style: `// x`, `//x`, extra leading blanks, block comments.
func rwRender(r *rng.R, entries []string) []string {
	var out []string
	for i := 0; i < len(entries); {
		if r.Chance(15) {
			k := 1 + r.Intn(4)
			if i+k > len(entries) {
				k = len(entries) - i
			}
			var ls []string
			for _, t := range entries[i : i+k] {
				ls = append(ls, rng.Pick(r, []string{"", "", " ", "\t", "  "})+t+rng.Pick(r, trailPool))
			}
			body := strings.Join(ls, "\n")
			if r.Chance(60) {
				body = "\n" + body + "\n"
			}
			out = append(out, "/*"+body+"*/")
			i += k
			continue
		}
		t := entries[i]
		i++
		switch {
		case t == "":
			out = append(out, "//")
		case r.Chance(20):
			out = append(out, "//"+t)
		case r.Chance(10):
			out = append(out, "//"+rng.Pick(r, []string{"  ", "\t", " \t"})+t+rng.Pick(r, trailPool))
		default:
			out = append(out, "// "+t+rng.Pick(r, trailPool))
		}
	}
	return out
}

func rwNonBlank(s string) []string {
	var out []string
	for _, l := range strings.Split(s, "\n") {
		if strings.TrimSpace(l) != "" {
			out = append(out, l)
		}
	}
	return out
}

// rwResidual removes base (as a subsequence, earliest match) from full; ok=false when base is not a subsequence of full.
func rwResidual(full, base []string) (res []string, ok bool) {
	j := 0
	for _, l := range full {
		if j < len(base) && l == base[j] {
			j++
			continue
		}
		res = append(res, l)
	}
	return res, j == len(base)
}

func rwPermutations(n int) [][]int {
	if n == 0 {
		return [][]int{{}}
	}
	var out [][]int
	for _, p := range rwPermutations(n - 1) {
		for at := 0; at <= len(p); at++ {
			q := append(append(append([]int{}, p[:at]...), n-1), p[at:]...)
			out = append(out, q)
		}
	}
	return out
}

func rwGenerate(convs []*config.Converter) (files map[string][]byte, err error) {
	defer func() {
		if p := recover(); p != nil {
			err = fmt.Errorf("panic: %v", p)
		}
	}()
	return generator.Generate(convs, generator.Config{})
}

func runRawLines(e *env) error {
	const mod = "example.org/rw"
	e.rep.Rule += "; (d) converters whose doc comments carry output:raw blocks with repeated identical lines (one to three converters per output file, every comment style, a command-line output:raw line): setting lines and OutputRaw vs the model, and the lines added to the generated file (vs the same converters without output:raw) equal the model's OutputRaw lists in order and multiplicity"
	r := e.r.Fork(1019)
	nGroups := 16
	if e.thorough {
		nGroups = 120 * e.scale
	}
	root := filepath.Join(e.scratch, "c19raw")
	with, base := filepath.Join(root, "with"), filepath.Join(root, "base")
	var cli []string
	switch r.Intn(3) {
	case 0:
		cli = []string{"output:raw // ----"}
	case 1:
		cli = []string{"ignoreMissing", "output:raw // from the command line", "output:raw // ----"}
	}

	var groups []*rwGroup
	for g := 0; g < nGroups; g++ {
		gr := &rwGroup{dir: fmt.Sprintf("g%d", g)}
		mode := r.Intn(3) // 0: default output (shared), 1: output:file + output:package (shared), 2: a file per converter
		nc := 1 + r.Intn(3)
		if g < 3 {
			// pinned shapes: one converter / two converters sharing the default file / two sharing a named file
			mode, nc = []int{2, 0, 1}[g], []int{1, 2, 2}[g]
		}
		for ci := 0; ci < nc; ci++ {
			c := &rwConv{iface: fmt.Sprintf("C%d", ci), meth: fmt.Sprintf("Conv%d", ci)}
			var entries, bentries []string
			add := func(t string, raw bool) {
				entries = append(entries, t)
				if !raw {
					bentries = append(bentries, t)
				}
			}
			add("goverter:converter", false)
			switch mode {
			case 0:
				c.fileKey = "default"
			case 1:
				add("goverter:output:file ./gen.go", false)
				add("goverter:output:package "+mod+"/"+gr.dir, false)
				c.fileKey = "gen.go"
			default:
				add(fmt.Sprintf("goverter:output:file ./out%d/gen.go", ci), false)
				c.fileKey = fmt.Sprintf("out%d", ci)
			}
			other := rwOther
			if r.Chance(25) {
				add("goverter:output:format function", false)
				other = rwOther[:5] // struct:comment belongs to the struct format
			}
			nb := 1 + r.Intn(5)
			if g < 3 {
				nb = []int{1, 3, 3}[g] // g0: only an element of a literal repeats
			}
			for b := 0; b < nb; b++ {
				u := fmt.Sprintf("R%dn%d", ci, b)
				var vals []string
				if g < 3 {
					vals = [][]string{{"var " + u + " = []string{", rwElems[0], rwElems[1], rwElems[0], "}"}, {"func " + u + "() int {", "\treturn 1", "}"}, {"// ----"}}[b]
				} else {
					vals = rwBlock(r, u)
				}
				for _, v := range vals {
					if r.Chance(6) {
						add("goverter:"+rng.Pick(r, other), false)
					}
					if r.Chance(6) {
						add(rng.Pick(r, rwProse), false)
					}
					if v == "" {
						add("goverter:output:raw", true)
					} else {
						add("goverter:output:raw "+v, true)
					}
				}
				if r.Chance(30) {
					add("goverter:"+rng.Pick(r, other), false)
				}
			}
			// one random state for both renderings would tie them together needlessly: the baseline is rendered plainly
			c.doc = rwRender(r, entries)
			for _, t := range bentries {
				if t == "" {
					c.base = append(c.base, "//")
				} else {
					c.base = append(c.base, "// "+t)
				}
			}
			gr.convs = append(gr.convs, c)
		}
		groups = append(groups, gr)
	}

	// write both modules
	for _, variant := range []string{with, base} {
		if err := os.MkdirAll(variant, 0o755); err != nil {
			return err
		}
		if err := os.WriteFile(filepath.Join(variant, "go.mod"), []byte("module "+mod+"\n\ngo 1.18\n"), 0o644); err != nil {
			return err
		}
		for _, gr := range groups {
			_ = os.MkdirAll(filepath.Join(variant, gr.dir), 0o755)
			var b strings.Builder
			b.WriteString("package " + gr.dir + "\n\ntype In struct {\n\tName string\n\tAge  int\n}\n\ntype Out struct {\n\tName string\n\tAge  int\n}\n\n")
			for _, c := range gr.convs {
				doc := c.doc
				if variant == base {
					doc = c.base
				}
				writeDoc(&b, "", doc)
				b.WriteString("type " + c.iface + " interface {\n\t" + c.meth + "(source In) Out\n}\n\n")
			}
			if err := os.WriteFile(filepath.Join(variant, gr.dir, "conv.go"), []byte(b.String()), 0o644); err != nil {
				return err
			}
		}
	}

	// model, first round: the setting lines of every doc comment
	type ref struct{ g, c int }
	var refs []ref
	var reqs []*sx.Node
	for gi, gr := range groups {
		for ci, c := range gr.convs {
			req := sx.H("c2s", sx.I(len(reqs)))
			for _, cm := range c.doc {
				req.Add(sx.S(cm))
			}
			reqs = append(reqs, req)
			refs = append(refs, ref{gi, ci})
		}
	}
	ans, err := drv.Run(reqs)
	if err != nil {
		return err
	}
	e.rep.Eval(len(reqs))
	for i, a := range ans {
		c := groups[refs[i].g].convs[refs[i].c]
		if a.Head() != "doc" || len(a.L) < 2 {
			return fmt.Errorf("c19 raw lines: model answer %s", truncate(a.String(), 300))
		}
		for _, l := range a.L[1].Args() {
			c.mLines = append(c.mLines, l.S)
		}
	}
	// model, second round: the OutputRaw list the lines amount to (after the command line's)
	reqs = reqs[:0]
	for i, rf := range refs {
		c := groups[rf.g].convs[rf.c]
		sc := &settingsCase{CLI: cli, Conv: c.mLines, LoaderOK: true}
		reqs = append(reqs, settingsReq(i, sc))
	}
	ans, err = drv.Run(reqs)
	if err != nil {
		return err
	}
	e.rep.Eval(len(reqs))
	for i, a := range ans {
		c := groups[refs[i].g].convs[refs[i].c]
		if a.Head() != "ok" || len(a.L) < 2 {
			return fmt.Errorf("c19 raw lines: the model rejects the lines of a generated converter: %s (lines %q)", truncate(a.String(), 300), c.mLines)
		}
		found := false
		for _, f := range a.L[1].Args() {
			if f.Head() == "OutputRaw" {
				found = true
				for _, l := range f.Args() {
					c.mRaw = append(c.mRaw, l.S)
				}
			}
		}
		if !found {
			return fmt.Errorf("c19 raw lines: model answer without OutputRaw: %s", truncate(a.String(), 300))
		}
	}

	// implementation
	load := func(dir string, global []string) (map[string]config.RawConverter, map[string]*config.Converter, []string, error) {
		raws, err := comments.ParseDocs(comments.ParseDocsConfig{PackagePattern: []string{"./..."}, WorkingDir: dir, BuildTags: "goverter"})
		if err != nil {
			return nil, nil, nil, fmt.Errorf("ParseDocs: %v", err)
		}
		convs, err := config.Parse(&config.Raw{Converters: raws, Global: config.RawLines{Location: cliLocation, Lines: global}, WorkDir: dir, BuildTags: "goverter"})
		if err != nil {
			return nil, nil, nil, fmt.Errorf("config.Parse: %v", err)
		}
		rm := map[string]config.RawConverter{}
		for _, rc := range raws {
			rm[rc.PackagePath+"."+rc.InterfaceName] = rc
		}
		cm := map[string]*config.Converter{}
		var order []string
		for _, c := range convs {
			k := c.Package + "." + strings.TrimSuffix(c.Name, "Impl")
			cm[k] = c
			order = append(order, k)
		}
		return rm, cm, order, nil
	}
	wRaw, wConv, wOrder, err := load(with, cli)
	if err != nil {
		e.rep.Violation("", map[string]any{"kind": "raw-lines", "broken": "C19 repeated lines: valid doc comments (output:raw blocks with repeated lines) are rejected", "error": truncate(err.Error(), 2000), "cli": cli}, false)
		return nil
	}
	_, bConv, _, err := load(base, nil)
	if err != nil {
		return fmt.Errorf("c19 raw lines: baseline module: %v", err)
	}
	pos := map[string]int{}
	for i, k := range wOrder {
		pos[k] = i
	}

	for _, gr := range groups {
		srcB, _ := os.ReadFile(filepath.Join(with, gr.dir, "conv.go"))
		src := string(srcB)
		// lines and OutputRaw, converter by converter
		okGroup := true
		for _, c := range gr.convs {
			key := mod + "/" + gr.dir + "." + c.iface
			rc, ok1 := wRaw[key]
			cv, ok2 := wConv[key]
			if !ok1 || !ok2 || bConv[key] == nil {
				e.rep.Violation("", map[string]any{"kind": "raw-lines", "broken": "C19 repeated lines: a declaration with goverter:converter in its doc comment is not a converter", "converter": key, "source": src}, false)
				okGroup = false
				continue
			}
			e.rep.Count("rawlines.converter")
			e.rep.Nontrivial("rawlines:" + strings.Join(c.doc, "\x00"))
			if strings.Join(rc.Converter.Lines, "\x00") != strings.Join(c.mLines, "\x00") || len(rc.Converter.Lines) != len(c.mLines) {
				e.rep.Violation("", map[string]any{"kind": "raw-lines", "broken": "correspondence C19: setting lines of a doc comment, Gv.Comments vs comments.ParseDocs", "converter": key,
					"implementation": rc.Converter.Lines, "model": c.mLines, "source": src}, false)
				okGroup = false
				continue
			}
			if strings.Join(cv.OutputRaw, "\x00") != strings.Join(c.mRaw, "\x00") || len(cv.OutputRaw) != len(c.mRaw) {
				e.rep.Violation("", map[string]any{"kind": "raw-lines", "broken": "correspondence C19: the output:raw lines applied in source order, Gv.Settings vs config.Parse", "converter": key,
					"implementation": cv.OutputRaw, "model": c.mRaw, "cli": cli, "source": src}, false)
				okGroup = false
			}
		}
		if !okGroup {
			continue
		}
		// the generated files: the converters of one output file together
		var keys []string
		byFile := map[string][]*rwConv{}
		for _, c := range gr.convs {
			if _, ok := byFile[c.fileKey]; !ok {
				keys = append(keys, c.fileKey)
			}
			byFile[c.fileKey] = append(byFile[c.fileKey], c)
		}
		for _, fk := range keys {
			cs := append([]*rwConv{}, byFile[fk]...)
			// in the order goverter itself processes them
			for i := 1; i < len(cs); i++ {
				for j := i; j > 0 && pos[mod+"/"+gr.dir+"."+cs[j].iface] < pos[mod+"/"+gr.dir+"."+cs[j-1].iface]; j-- {
					cs[j], cs[j-1] = cs[j-1], cs[j]
				}
			}
			var wc, bc []*config.Converter
			var names []string
			for _, c := range cs {
				key := mod + "/" + gr.dir + "." + c.iface
				wc = append(wc, wConv[key])
				bc = append(bc, bConv[key])
				names = append(names, key)
			}
			e.rep.Count(fmt.Sprintf("rawlines.file.%dconverters", len(cs)))
			bFiles, berr := rwGenerate(bc)
			if berr != nil || len(bFiles) != 1 {
				return fmt.Errorf("c19 raw lines: baseline generation of %v: %v (%d files)", names, berr, len(bFiles))
			}
			wFiles, werr := rwGenerate(wc)
			d := map[string]any{"kind": "raw-lines", "converters": names, "cli": cli, "source": src}
			if werr != nil {
				d["broken"] = "C19 repeated lines: every output:raw line is a valid setting and the code they spell is valid Go, yet generation fails (it succeeds without the output:raw lines)"
				d["error"] = truncate(werr.Error(), 3000)
				e.rep.Violation("raw-lines-generation-fails", d, false)
				continue
			}
			if len(wFiles) != 1 {
				d["broken"] = "C19 repeated lines: the converters of one output file are written to another number of files when output:raw lines are present"
				d["files"] = len(wFiles)
				e.rep.Violation("", d, false)
				continue
			}
			var full, bas []string
			var text string
			for _, b := range wFiles {
				text = string(b)
				full = rwNonBlank(text)
			}
			for _, b := range bFiles {
				bas = rwNonBlank(string(b))
			}
			res, sub := rwResidual(full, bas)
			if !sub {
				d["broken"] = "C19 repeated lines: output:raw lines change generated code other than by adding their own text"
				d["generated"], d["without_raw"] = text, strings.Join(bas, "\n")
				e.rep.Violation("", d, false)
				continue
			}
			match := false
			var want []string
			for _, p := range rwPermutations(len(cs)) {
				var exp []string
				for _, i := range p {
					for _, l := range cs[i].mRaw {
						if strings.TrimSpace(l) != "" {
							exp = append(exp, l)
						}
					}
				}
				if want == nil {
					want = exp
				}
				if len(exp) == len(res) && strings.Join(exp, "\n") == strings.Join(res, "\n") {
					match = true
					break
				}
			}
			if !match {
				d["broken"] = "C19 repeated lines: the output:raw lines of the doc comments are not all applied in order, as often as written (lines added to the generated file vs the model's OutputRaw lists)"
				d["added_lines"], d["model_raw_lines"], d["generated"] = res, want, text
				e.rep.Violation("raw-lines-not-applied-as-written", d, false)
			}
		}
	}
	return nil
}
