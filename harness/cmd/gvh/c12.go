package main

import (
	"fmt"
	"os"
	"path/filepath"
	"regexp"
	"sort"
	"strings"

	"github.com/jmattheis/goverter/comments"
	"github.com/jmattheis/goverter/config"
	"github.com/jmattheis/goverter/pkgload"

	"gvh/internal/drv"
	"gvh/internal/rng"
	"gvh/internal/scratch"
	"gvh/internal/sx"
)

func init() { campaigns["C12"] = runC12 }

const cliLocation = "command line (-g, -global)"

type settingsCase struct {
	Vars  bool     `json:"variables"`
	CLI   []string `json:"cli"`
	Conv  []string `json:"converter"`
	Meth  []string `json:"method"`
	Meth2 []string `json:"sibling,omitempty"` // parsed on the same converter BEFORE Meth (sibling independence)
	// the functions named by extend / default / map | FUNC exist (real path): such lines are no-ops for the inheritable settings
	LoaderOK bool `json:"functions_exist,omitempty"`
}

func classifySettingErr(msg string) string {
	switch {
	case strings.Contains(msg, "cannot be used in combination with wrapErrorsUsing"):
		return "wrapConflictUsing"
	case strings.Contains(msg, "cannot be used in combination with wrapErrors"):
		return "wrapConflictErrors"
	case strings.Contains(msg, "invalid value: expected one value but got"):
		return "enumCount"
	case strings.Contains(msg, "invalid value: '"):
		return "enumInvalid"
	case strings.Contains(msg, "must have one value but got"):
		return "stringCount"
	case strings.Contains(msg, "error parsing regexp"):
		return "regexInvalid"
	case strings.Contains(msg, "invalid enum action"):
		return "enumActionInvalid"
	case strings.Contains(msg, "missing setting key"):
		return "missingKey"
	case strings.Contains(msg, "unknown setting:"):
		return "unknownSetting"
	case strings.Contains(msg, "not allowed when using goverter:variables"):
		return "notAllowedForVariables"
	case strings.Contains(msg, "Cannot change output:format after extend"):
		return "formatAfterExtend"
	case strings.Contains(msg, "unsupported format for goverter:variables"):
		return "formatUnsupportedVariables"
	case strings.Contains(msg, "unsupported format for goverter:converter"):
		return "formatUnsupportedConverter"
	case strings.Contains(msg, "missing target field"):
		return "mapMissingTarget"
	case strings.Contains(msg, "too many fields expected"):
		return "mapTooMany"
	case strings.Contains(msg, "must be a field name but was a path"):
		return "mapTargetPath"
	case strings.Contains(msg, "invalid fields"):
		return "enumMapFields"
	case strings.Contains(msg, "does not exist") && strings.Contains(msg, "transformer"):
		return "transformerUnknown"
	case strings.Contains(msg, "package path must not be empty"), strings.Contains(msg, "method name pattern is required"), strings.Contains(msg, "is not supported"):
		return "idPatternInvalid"
	}
	return "unclassified:" + msg
}

var lineErrRe = regexp.MustCompile(`(?s)^error parsing 'goverter:([^']*)' at\n    ([^\n]*)\n    ([^\n]*)\n\n(.*)$`)

func lineErrToSx(err error, convLoc, methLoc string) *sx.Node {
	m := lineErrRe.FindStringSubmatch(err.Error())
	if m == nil {
		return sx.H("err", sx.A("?"), sx.S(""), sx.A("unclassified:"+err.Error()))
	}
	level := "?"
	switch m[2] {
	case cliLocation:
		level = "global"
	case convLoc:
		level = "converter"
	case methLoc:
		level = "method"
	}
	return sx.H("err", sx.A(level), sx.S(m[1]), sx.A(classifySettingErr(m[4])))
}

func commonToSx(c *config.Common) *sx.Node {
	rx := ""
	if c.ArgContextRegex != nil {
		rx = c.ArgContextRegex.String()
	}
	ex := sx.H("Enum.Excludes")
	for _, p := range c.Enum.Excludes {
		ex.Add(sx.H("x", sx.S(p.Path.String()), sx.S(p.Name.String())))
	}
	return sx.H("common",
		sx.H("WrapErrors", sx.B(c.WrapErrors)), sx.H("WrapErrorsUsing", sx.S(c.WrapErrorsUsing)),
		sx.H("IgnoreUnexported", sx.B(c.IgnoreUnexported)), sx.H("IgnoreBasicZeroValueField", sx.B(c.IgnoreBasicZeroValueField)),
		sx.H("IgnoreStructZeroValueField", sx.B(c.IgnoreStructZeroValueField)), sx.H("IgnoreNillableZeroValueField", sx.B(c.IgnoreNillableZeroValueField)),
		sx.H("MatchIgnoreCase", sx.B(c.MatchIgnoreCase)), sx.H("IgnoreMissing", sx.B(c.IgnoreMissing)),
		sx.H("SkipCopySameType", sx.B(c.SkipCopySameType)), sx.H("UseZeroValueOnPointerInconsistency", sx.B(c.UseZeroValueOnPointerInconsistency)),
		sx.H("UseUnderlyingTypeMethods", sx.B(c.UseUnderlyingTypeMethods)), sx.H("DefaultUpdate", sx.B(c.DefaultUpdate)),
		sx.H("ArgContextRegex", sx.S(rx)), sx.H("Enum.Enabled", sx.B(c.Enum.Enabled)), sx.H("Enum.Unknown", sx.S(c.Enum.Unknown)), ex)
}

func convToSx(c *config.Converter) *sx.Node {
	return sx.H("conv", sx.H("Name", sx.S(c.Name)), sx.Strs("OutputRaw", c.OutputRaw), sx.H("OutputFile", sx.S(c.OutputFile)),
		sx.H("OutputPackagePath", sx.S(c.OutputPackagePath)), sx.H("OutputPackageName", sx.S(c.OutputPackageName)),
		sx.H("OutputFormat", sx.A(string(c.OutputFormat))), sx.Strs("Comments", c.Comments), commonToSx(&c.Common))
}

func methToSx(m *config.Method) *sx.Node {
	fs := sx.H("Fields")
	var names []string
	for n := range m.Fields {
		names = append(names, n)
	}
	sort.Strings(names)
	for _, n := range names {
		fs.Add(sx.H("f", sx.S(n), sx.S(m.Fields[n].Source), sx.B(m.Fields[n].Ignore)))
	}
	em := sx.H("EnumMap")
	names = names[:0]
	for n := range m.EnumMapping.Map {
		names = append(names, n)
	}
	sort.Strings(names)
	for _, n := range names {
		em.Add(sx.H("e", sx.S(n), sx.S(m.EnumMapping.Map[n])))
	}
	ts := sx.H("Transformers")
	for _, t := range m.EnumMapping.Transformers {
		ts.Add(sx.H("t", sx.S(t.Name), sx.S(t.Config)))
	}
	up, ctxs := config.VerifMethodExtras(m)
	var cs []string
	for k := range ctxs {
		cs = append(cs, k)
	}
	sort.Strings(cs)
	return sx.H("method", commonToSx(&m.Common), fs, sx.Strs("AutoMap", m.AutoMap), em, ts,
		sx.Strs("RawFieldSettings", m.RawFieldSettings), sx.H("UpdateParam", sx.S(up)), sx.Strs("Contexts", cs),
		// functions need the package loader, which this (hook) path does not have: lines naming one are errors on both sides;
		// the attachment itself is compared on the real path by the C06 function-attachment campaign
		sx.H("Functions"), sx.H("Constructor", sx.S("")))
}

// sortModelMethod sorts the map-like parts of a model (method ...) answer by key.
func sortModelSettings(n *sx.Node) {
	if n.Head() != "ok" || len(n.L) != 3 {
		return
	}
	m := n.L[2]
	for _, part := range m.Args() {
		switch part.Head() {
		case "Fields", "EnumMap":
			args := part.L[1:]
			sort.SliceStable(args, func(i, j int) bool { return args[i].L[1].S < args[j].L[1].S })
		case "Contexts":
			args := part.L[1:]
			sort.SliceStable(args, func(i, j int) bool { return args[i].S < args[j].S })
		}
	}
}

const (
	c12Pkg     = "example.org/p"
	c12PkgName = "p"
	c12Cwd     = "/work/dir"
	c12ConvLoc = "/work/dir/p/conv.go:5"
	c12MethLoc = "/work/dir/p/conv.go:9"
)

func implSettings(sc *settingsCase) *sx.Node {
	c, convLines, methLines := config.VerifConverter(sc.Vars, c12Cwd)
	c.Package = c12Pkg
	c.FileName = "/work/dir/p/conv.go"
	if sc.Vars {
		c.OutputFile = "conv.gen.go"
		c.OutputPackageName = c12PkgName
		c.OutputPackagePath = c12Pkg
	}
	if err := convLines(config.RawLines{Location: cliLocation, Lines: sc.CLI}, "global"); err != nil {
		return lineErrToSx(err, c12ConvLoc, c12MethLoc)
	}
	if err := convLines(config.RawLines{Location: c12ConvLoc, Lines: sc.Conv}, c.IDString()); err != nil {
		return lineErrToSx(err, c12ConvLoc, c12MethLoc)
	}
	if sc.Meth2 != nil {
		// a sibling parsed first must not influence the method under test (its own errors are irrelevant)
		_, _ = methLines(config.RawLines{Location: "/work/dir/p/conv.go:7", Lines: sc.Meth2})
	}
	m, err := methLines(config.RawLines{Location: c12MethLoc, Lines: sc.Meth})
	if err != nil {
		return lineErrToSx(err, c12ConvLoc, c12MethLoc)
	}
	return sx.H("ok", convToSx(c), methToSx(m))
}

func badRegexes(sc *settingsCase) []string {
	seen := map[string]bool{}
	var bad []string
	test := func(s string) {
		if seen[s] {
			return
		}
		seen[s] = true
		if _, err := regexp.Compile(s); err != nil {
			bad = append(bad, s)
		}
	}
	for _, ls := range [][]string{sc.CLI, sc.Conv, sc.Meth} {
		for _, l := range ls {
			parts := strings.SplitN(l, " ", 2)
			if len(parts) != 2 {
				continue
			}
			switch parts[0] {
			case "arg:context:regex":
				for _, f := range strings.Fields(parts[1]) {
					test(f)
				}
			case "enum:exclude":
				if p, n, err := pkgload.ParseMethodString(c12Pkg, parts[1]); err == nil {
					test(p)
					test(n)
				}
			}
		}
	}
	return bad
}

func settingsReq(id int, sc *settingsCase) *sx.Node {
	return sx.H("resolve", sx.I(id), sx.H("vars", sx.B(sc.Vars)), sx.H("iface", sx.S("Converter")), sx.H("cwd", sx.S(c12Cwd)),
		sx.H("procwd", sx.S("/proc/wd")), sx.H("pkg", sx.S(c12Pkg)), sx.H("pkgname", sx.S(c12PkgName)), sx.H("varfile", sx.S("conv.gen.go")),
		sx.Strs("rxbad", badRegexes(sc)), sx.Strs("cli", sc.CLI), sx.Strs("conv", sc.Conv), sx.Strs("meth", sc.Meth), sx.H("loaderok", sx.B(sc.LoaderOK)))
}

var boolKeys = []string{"wrapErrors", "ignoreUnexported", "update:ignoreZeroValueField", "update:ignoreZeroValueField:basic",
	"update:ignoreZeroValueField:struct", "update:ignoreZeroValueField:nillable", "default:update", "matchIgnoreCase", "ignoreMissing",
	"skipCopySameType", "useZeroValueOnPointerInconsistency", "useUnderlyingTypeMethods", "enum"}

var valuedKeys = map[string][]string{
	"wrapErrorsUsing":   {"example.org/wrap", "other/pkg"},
	"enum:unknown":      {"@panic", "@error", "@ignore", "Unknown", "@bogus"},
	"arg:context:regex": {"^ctx", ".*", "c(", "[a"},
}

var converterOnlyLines = []string{"converter", "variables", "name Foo", "name", "name A B", "output:raw func x() {}", "output:raw", "output:file ./a/b.go",
	"output:file @cwd/gen/x.go", "output:file /abs/x.go", "output:file", "output:file a b", "output:format function", "output:format struct",
	"output:format assign-variable", "output:format bogus", "output:format", "output:package example.org/out", "output:package example.org/out:name",
	"output:package :name", "output:package", "output:package a b", "struct:comment hello world", "struct:comment", "enum:exclude example.org/x:Name",
	"enum:exclude Name", "enum:exclude ./sub:N.*", "enum:exclude :X", "enum:exclude a:", "enum:exclude a/...:B", "enum:exclude x:(", "enum:exclude (:x"}

var methodOnlyLines = []string{"map A B", "map B", "map A.B.C D", "map . X", "map A B.C", "map", "map A B C", "map  Spaced   Out ", "ignore X", "ignore X Y Z", "ignore",
	"update target", "update", "update a b", "context ctx", "context", "context a b", "enum:map A B", "enum:map A @ignore", "enum:map A @bogus", "enum:map A",
	"enum:map A B C", "enum:transform regex A(.*) B$1", "enum:transform regex", "enum:transform bogus x", "enum:transform", "autoMap Nested", "autoMap A.B",
	"autoMap", "autoMap A B", "map A B |", "ignore X", "map X"}

var junkLines = []string{"", " ", "bogus", "bogus value", "wraperrors", "wrapErrors  ", "wrapErrors maybe", "wrapErrors yes no", "ignoreMissing\tyes", "ignoreMissing  yes ",
	"ignoreMissing YES", "skipCopySameType no ", " skipCopySameType", "enum:unknown", "enum:unknown A B", "wrapErrorsUsing", "wrapErrorsUsing a b", "arg:context:regex",
	"arg:context:regex a b", ":", "map:", "enum:"}

func variant(key string, v int) []string {
	switch v {
	case 1:
		return []string{key}
	case 2:
		return []string{key + " yes"}
	case 3:
		return []string{key + " no"}
	}
	return nil
}

func genSettingLine(r *rng.R, level int) string {
	switch k := r.Intn(10); {
	case k < 4:
		key := rng.Pick(r, boolKeys)
		return key + rng.Pick(r, []string{"", " yes", " no", " no", "  yes", " maybe", " yes no"})
	case k < 5:
		var keys []string
		for k := range valuedKeys {
			keys = append(keys, k)
		}
		sort.Strings(keys)
		key := rng.Pick(r, keys)
		return key + " " + rng.Pick(r, valuedKeys[key])
	case k < 7:
		if level < 2 {
			return rng.Pick(r, converterOnlyLines)
		}
		return rng.Pick(r, methodOnlyLines)
	case k < 8:
		if level < 2 {
			return rng.Pick(r, methodOnlyLines)
		}
		return rng.Pick(r, converterOnlyLines)
	default:
		return rng.Pick(r, junkLines)
	}
}

func runC12(e *env) error {
	e.rep.Rule = "cases = (cli lines, converter lines, method lines[, sibling lines]); exhaustive {absent,bare,yes,no}^3 for every inheritable boolean and {absent,v1,v2}^3 for valued settings, each also with a sibling method carrying the opposite value; every converter-only line at method level and vice versa; seeded random line sequences with malformed values. Implementation: config.parseConverterLines/parseMethodLine (verif hook) and, for the exhaustive tables and a sample, the real path comments.ParseDocs + config.Parse on a scratch module, there also with extend / default / map | FUNC lines naming existing functions before or after the setting (they must not change any inheritable setting). non-trivial = at least one line at some level; distinct = canonical request"
	var cases []*settingsCase

	// exhaustive tables
	for _, key := range boolKeys {
		for a := 0; a < 4; a++ {
			for b := 0; b < 4; b++ {
				for c := 0; c < 4; c++ {
					sc := &settingsCase{CLI: variant(key, a), Conv: variant(key, b), Meth: variant(key, c)}
					cases = append(cases, sc)
					// sibling with the opposite value parsed first
					sib := &settingsCase{CLI: sc.CLI, Conv: sc.Conv, Meth: sc.Meth, Meth2: []string{key + " " + map[bool]string{true: "no", false: "yes"}[c == 1 || c == 2 || (c == 0 && (b == 1 || b == 2))]}}
					cases = append(cases, sib)
					if key != "wrapErrors" {
						v := &settingsCase{Vars: true, CLI: sc.CLI, Conv: sc.Conv, Meth: sc.Meth}
						cases = append(cases, v)
					}
				}
			}
		}
	}
	var vkeys []string
	for k := range valuedKeys {
		vkeys = append(vkeys, k)
	}
	sort.Strings(vkeys)
	for _, key := range vkeys {
		vals := valuedKeys[key]
		opt := func(i int) []string {
			if i == 0 {
				return nil
			}
			return []string{key + " " + vals[i-1]}
		}
		for a := 0; a <= len(vals); a++ {
			for b := 0; b <= len(vals); b++ {
				for c := 0; c <= len(vals); c++ {
					cases = append(cases, &settingsCase{CLI: opt(a), Conv: opt(b), Meth: opt(c)})
					cases = append(cases, &settingsCase{CLI: opt(a), Conv: opt(b), Meth: opt(c), Meth2: []string{key + " " + vals[0]}})
				}
			}
		}
	}
	// conflicting pair in every order and level
	for _, first := range []string{"wrapErrors", "wrapErrors yes", "wrapErrors no", "wrapErrorsUsing a/b"} {
		for _, second := range []string{"wrapErrors", "wrapErrors no", "wrapErrorsUsing a/b"} {
			for lv1 := 0; lv1 < 3; lv1++ {
				for lv2 := lv1; lv2 < 3; lv2++ {
					sc := &settingsCase{}
					put := func(lv int, l string) {
						switch lv {
						case 0:
							sc.CLI = append(sc.CLI, l)
						case 1:
							sc.Conv = append(sc.Conv, l)
						default:
							sc.Meth = append(sc.Meth, l)
						}
					}
					put(lv1, first)
					put(lv2, second)
					cases = append(cases, sc)
				}
			}
		}
	}
	// wrong level
	for _, l := range methodOnlyLines {
		cases = append(cases, &settingsCase{CLI: []string{l}}, &settingsCase{Conv: []string{l}}, &settingsCase{Meth: []string{l}})
	}
	for _, l := range converterOnlyLines {
		cases = append(cases, &settingsCase{CLI: []string{l}}, &settingsCase{Conv: []string{l}}, &settingsCase{Meth: []string{l}},
			&settingsCase{Vars: true, Conv: []string{l}}, &settingsCase{Vars: true, CLI: []string{l}})
	}
	for _, l := range junkLines {
		cases = append(cases, &settingsCase{CLI: []string{l}}, &settingsCase{Conv: []string{l}}, &settingsCase{Meth: []string{l}})
	}
	nExh := len(cases)
	// random sequences
	nRand := 6000
	if e.thorough {
		nRand = 150000
	}
	r := e.r.Fork(12)
	for i := 0; i < nRand; i++ {
		sc := &settingsCase{Vars: r.Chance(25)}
		for lv := 0; lv < 3; lv++ {
			n := r.Intn(4)
			for j := 0; j < n; j++ {
				l := genSettingLine(r, lv)
				switch lv {
				case 0:
					sc.CLI = append(sc.CLI, l)
				case 1:
					sc.Conv = append(sc.Conv, l)
				default:
					sc.Meth = append(sc.Meth, l)
				}
			}
		}
		if r.Chance(30) {
			sc.Meth2 = []string{genSettingLine(r, 2), genSettingLine(r, 2)}
		}
		cases = append(cases, sc)
	}

	var reqs []*sx.Node
	var impl []*sx.Node
	for i, sc := range cases {
		if hasLoaderLine(sc) {
			reqs = append(reqs, nil)
			impl = append(impl, nil)
			continue
		}
		reqs = append(reqs, settingsReq(i, sc))
		impl = append(impl, implSettings(sc))
	}
	var live []*sx.Node
	var idx []int
	for i, q := range reqs {
		if q != nil {
			live = append(live, q)
			idx = append(idx, i)
		}
	}
	answers, err := drv.Run(live)
	if err != nil {
		return err
	}
	e.rep.Eval(len(live))
	for k, a := range answers {
		i := idx[k]
		sortModelSettings(a)
		sc := cases[i]
		if len(sc.CLI)+len(sc.Conv)+len(sc.Meth) > 0 {
			e.rep.Nontrivial(live[k].String())
		}
		e.rep.Count("hook." + impl[i].Head())
		if a.String() != impl[i].String() {
			e.rep.Violation("", map[string]any{"case": sc, "implementation": impl[i].String(), "model": a.String(),
				"broken": "correspondence C12: Gv.Settings.resolveMethod vs config.parseConverterLines/parseMethodLine", "diff": firstDiff(impl[i], a)}, false)
		}
		if k%1499 == 0 {
			e.rep.Sample(map[string]any{"case": sc, "answer": truncate(impl[i].String(), 400)})
		}
	}
	e.rep.Note("exhaustive tables: %d cases (all agree unless reported); random: %d", nExh, nRand)

	if err := c12RealPath(e); err != nil {
		return err
	}
	if err := c12RealMixed(e); err != nil {
		return err
	}
	if err := runConsumers(e); err != nil {
		return err
	}
	return runSiblings(e)
}

func hasLoaderLine(sc *settingsCase) bool {
	for _, ls := range [][]string{sc.CLI, sc.Conv, sc.Meth, sc.Meth2} {
		for _, l := range ls {
			cmd := strings.SplitN(l, " ", 2)[0]
			if cmd == "extend" || cmd == "default" {
				return true
			}
			if cmd == "map" && strings.Contains(l, "|") && strings.TrimSpace(strings.SplitN(l, "|", 2)[1]) != "" {
				return true
			}
		}
	}
	return false
}

func firstDiff(a, b *sx.Node) string {
	if a.Kind != b.Kind || (a.Kind != sx.KList && a.S != b.S) {
		return "impl " + truncate(a.String(), 200) + " vs model " + truncate(b.String(), 200)
	}
	if a.Kind == sx.KList {
		if len(a.L) != len(b.L) {
			return "impl " + truncate(a.String(), 200) + " vs model " + truncate(b.String(), 200)
		}
		for i := range a.L {
			if d := firstDiff(a.L[i], b.L[i]); d != "" {
				return d
			}
		}
	}
	return ""
}

// c12RealPath drives the real pipeline: doc comments -> comments.ParseDocs -> config.Parse, and compares the
// resolved Common of every method with the model, for the exhaustive boolean tables (all keys at once per CLI variant).
func c12RealPath(e *env) error {
	root := filepath.Join(e.scratch, "c12mod")
	if err := os.MkdirAll(filepath.Join(root, "p"), 0o755); err != nil {
		return err
	}
	if err := os.WriteFile(filepath.Join(root, "go.mod"), []byte("module example.org/c12\n\ngo 1.18\n"), 0o644); err != nil {
		return err
	}
	keys := []string{}
	for _, k := range boolKeys {
		if k != "wrapErrors" { // wrapErrors conflicts with nothing here, but keep CLI lines uniform
			keys = append(keys, k)
		}
	}
	keys = append(keys, "wrapErrors")
	type entry struct {
		iface, meth string
		key         string
		b, c        int
		// explicit lines (with function-loading lines) when they differ from variant(key, b) / variant(key, c)
		convLines, methLines []string
	}
	var entries []entry
	var src strings.Builder
	src.WriteString("package p\n\ntype In struct{ A int }\ntype Out struct{ A int }\n\nfunc NewOut() Out { return Out{} }\nfunc MapA(v int) int { return v }\nfunc ExtX(v uint8) uint16 { return uint16(v) }\n\n")
	n := 0
	for _, key := range keys {
		for b := 0; b < 4; b++ {
			n++
			iface := fmt.Sprintf("C%d", n)
			src.WriteString("// goverter:converter\n")
			for _, l := range variant(key, b) {
				src.WriteString("// goverter:" + l + "\n")
			}
			src.WriteString("type " + iface + " interface {\n")
			for c := 0; c < 4; c++ {
				meth := fmt.Sprintf("M%d", c)
				for _, l := range variant(key, c) {
					src.WriteString("\t// goverter:" + l + "\n")
				}
				src.WriteString("\t" + meth + "(source In) Out\n")
				entries = append(entries, entry{iface: iface, meth: meth, key: key, b: b, c: c})
			}
			src.WriteString("}\n\n")
		}
		// the same with lines that load functions (extend on the converter, default / map | FUNC on the method), written
		// before or after the setting: they must not change any inheritable setting
		for b := 0; b < 4; b++ {
			n++
			iface := fmt.Sprintf("C%d", n)
			convLines := append([]string{}, variant(key, b)...)
			if b%2 == 0 {
				convLines = append([]string{"extend ExtX"}, convLines...)
			} else {
				convLines = append(convLines, "extend ExtX")
			}
			src.WriteString("// goverter:converter\n")
			for _, l := range convLines {
				src.WriteString("// goverter:" + l + "\n")
			}
			src.WriteString("type " + iface + " interface {\n")
			for c := 0; c < 4; c++ {
				meth := fmt.Sprintf("M%d", c)
				loader := []string{"default NewOut", "map A | MapA"}[c%2]
				mlines := append([]string{}, variant(key, c)...)
				if c < 2 {
					mlines = append([]string{loader}, mlines...)
				} else {
					mlines = append(mlines, loader)
				}
				for _, l := range mlines {
					src.WriteString("\t// goverter:" + l + "\n")
				}
				src.WriteString("\t" + meth + "(source In) Out\n")
				entries = append(entries, entry{iface: iface, meth: meth, key: key, b: b, c: c, convLines: convLines, methLines: mlines})
			}
			src.WriteString("}\n\n")
		}
	}
	if err := os.WriteFile(filepath.Join(root, "p", "conv.go"), []byte(src.String()), 0o644); err != nil {
		return err
	}
	raws, err := comments.ParseDocs(comments.ParseDocsConfig{PackagePattern: []string{"./p"}, WorkingDir: root, BuildTags: "goverter"})
	if err != nil {
		return fmt.Errorf("c12 real path: ParseDocs: %v", err)
	}
	for a := 0; a < 4; a++ {
		var cli []string
		for _, key := range keys {
			cli = append(cli, variant(key, a)...)
		}
		convs, err := config.Parse(&config.Raw{Converters: raws, Global: config.RawLines{Lines: cli, Location: cliLocation}, WorkDir: root, BuildTags: "goverter"})
		if err != nil {
			e.rep.Violation("", map[string]any{"broken": "C12 real path: config.Parse rejected valid settings", "cli": cli, "error": err.Error(), "source": src.String()}, false)
			return nil
		}
		byName := map[string]*config.Converter{}
		for _, c := range convs {
			byName[c.Name] = c
		}
		var reqs []*sx.Node
		var impl []*sx.Node
		var descr []map[string]any
		for i, en := range entries {
			c := byName[en.iface+"Impl"]
			if c == nil {
				return fmt.Errorf("c12 real path: converter %s missing", en.iface)
			}
			var m *config.Method
			for _, mm := range c.Methods {
				if mm.Name == en.meth {
					m = mm
				}
			}
			if m == nil {
				return fmt.Errorf("c12 real path: method %s.%s missing", en.iface, en.meth)
			}
			sc := &settingsCase{CLI: cli, Conv: append([]string{"converter"}, variant(en.key, en.b)...), Meth: variant(en.key, en.c)}
			if en.methLines != nil {
				sc = &settingsCase{CLI: cli, Conv: append([]string{"converter"}, en.convLines...), Meth: en.methLines, LoaderOK: true}
			}
			reqs = append(reqs, settingsReq(i, sc))
			impl = append(impl, commonToSx(&m.Common))
			descr = append(descr, map[string]any{"case": sc, "path": "comments.ParseDocs+config.Parse", "interface": en.iface, "method": en.meth})
		}
		answers, err := drv.Run(reqs)
		if err != nil {
			return err
		}
		e.rep.Eval(len(reqs))
		for i, ans := range answers {
			var modelCommon string
			if ans.Head() == "ok" && len(ans.L) == 3 {
				modelCommon = ans.L[2].L[1].String()
			} else {
				modelCommon = ans.String()
			}
			e.rep.Nontrivial("real:" + reqs[i].String())
			e.rep.Count("real.ok")
			if modelCommon != impl[i].String() {
				d := descr[i]
				d["implementation"] = impl[i].String()
				d["model"] = modelCommon
				d["broken"] = "correspondence C12 (real path): resolved Common of a method"
				e.rep.Violation("", d, false)
			}
		}
	}
	e.rep.Exhaustive = false
	return nil
}

// c12RealMixed: the command line settings (-g) through the REAL configuration stage (parseConverter as a whole, one
// package load per command line) for an interface converter and a variables block of the same run: every line of the
// command line is applied to every converter in order, and the first line a converter cannot accept fails THAT
// converter, naming the command line — lines after it are never silently dropped.
func c12RealMixed(e *env) error {
	root := filepath.Join(e.scratch, "c12mixed")
	// (module path chosen so that the package is c12Pkg, the package the model resolves relative patterns against)
	tree := scratch.Tree{"go.mod": "module example.org\n\ngo 1.18\n",
		"p/types.go": "package p\n\ntype In struct{ A int }\ntype Out struct{ A int }\n",
		"p/iface.go": "package p\n\n// goverter:converter\ntype Converter interface {\n\tM(source In) Out\n}\n",
		"p/vars.go":  "package p\n\n// goverter:variables\nvar (\n\tV func(source In) Out\n)\n",
		// a converter whose own lines REPEAT lines the command line may carry, each after a line that changes the state in between:
		// settings are ordered updates, a repeated line is not redundant
		"p/rep.go": "package p\n\n// goverter:converter\n// goverter:update:ignoreZeroValueField no\n// goverter:update:ignoreZeroValueField:basic\n// goverter:ignoreMissing no\n// goverter:ignoreMissing yes\n// goverter:skipCopySameType no\n// goverter:skipCopySameType\n// goverter:wrapErrors no\n// goverter:wrapErrors\ntype Rep interface {\n\tM(source In) Out\n}\n"}
	if err := scratch.Write(root, tree); err != nil {
		return err
	}
	raws, err := comments.ParseDocs(comments.ParseDocsConfig{PackagePattern: []string{"./p"}, WorkingDir: root, BuildTags: "goverter"})
	if err != nil {
		return fmt.Errorf("c12 mixed: ParseDocs: %v", err)
	}
	r := e.r.Fork(1212)
	n := 60
	if e.thorough {
		n = 400 * e.scale
	}
	validBools := []string{"skipCopySameType", "ignoreMissing yes", "matchIgnoreCase", "wrapErrors", "useZeroValueOnPointerInconsistency yes", "ignoreUnexported", "enum no",
		"enum:unknown @ignore", "wrapErrorsUsing example.org/wrap", "update:ignoreZeroValueField:basic"}
	ifaceOnly := []string{"name Foo", "struct:comment hello world", "output:format function", "output:format struct"}
	var clis [][]string
	for _, a := range ifaceOnly {
		for _, b := range validBools[:4] {
			clis = append(clis, []string{a, b}, []string{b, a}, []string{a, "bogus"}, []string{a, b, "ignoreMissing maybe"})
		}
	}
	for len(clis) < n {
		var cli []string
		for j := 0; j < 1+r.Intn(4); j++ {
			switch k := r.Intn(10); {
			case k < 5:
				cli = append(cli, rng.Pick(r, validBools))
			case k < 7:
				cli = append(cli, rng.Pick(r, ifaceOnly))
			default:
				cli = append(cli, genSettingLine(r, 0))
			}
		}
		if hasLoaderLine(&settingsCase{CLI: cli}) {
			continue
		}
		// a context pattern that matches the method's only parameter (`source`) turns it into a context: the method then has no
		// source, which is a SIGNATURE diagnostic (C14) outside what the settings model resolves
		swallows := false
		for _, l := range cli {
			if strings.HasPrefix(l, "arg:context:regex ") {
				if re, err := regexp.Compile(strings.TrimSpace(strings.TrimPrefix(l, "arg:context:regex "))); err == nil && re.MatchString("source") {
					swallows = true
				}
			}
		}
		if swallows {
			continue
		}
		clis = append(clis, cli)
	}
	clis = clis[:n]
	var reqs, impl []*sx.Node
	var descr []map[string]any
	for _, cli := range clis {
		convs, errs, err := config.VerifParseEach(&config.Raw{Converters: raws, Global: config.RawLines{Lines: cli, Location: cliLocation}, WorkDir: root, BuildTags: "goverter"})
		if err != nil {
			return fmt.Errorf("c12 mixed: %v", err)
		}
		for i, raw := range raws {
			vars := raw.InterfaceName == ""
			marker := "converter"
			if vars {
				marker = "variables"
			}
			sc := &settingsCase{Vars: vars, CLI: cli, Conv: []string{marker}}
			if len(raw.Converter.Lines) > 1 {
				sc.Conv = append([]string{}, raw.Converter.Lines...)
			}
			var im *sx.Node
			if errs[i] != nil {
				// the location a converter-level line error names: where the converter's comment stands
				im = lineErrToSx(errs[i], raw.Converter.Location, "-")
			} else if len(convs[i].Methods) == 1 {
				im = sx.H("ok", commonToSx(&convs[i].Methods[0].Common))
			} else {
				im = sx.H("err", sx.A("?"), sx.S(""), sx.A("no-method"))
			}
			reqs = append(reqs, settingsReq(len(reqs), sc))
			impl = append(impl, im)
			descr = append(descr, map[string]any{"case": sc, "path": "comments.ParseDocs + config.parseConverter (whole converter, interface and variables block in one run)"})
		}
	}
	answers, err := drv.Run(reqs)
	if err != nil {
		return err
	}
	e.rep.Eval(len(reqs))
	for i, ans := range answers {
		var model string
		if ans.Head() == "ok" && len(ans.L) == 3 {
			model = sx.H("ok", ans.L[2].L[1]).String()
		} else {
			model = ans.String()
		}
		e.rep.Nontrivial("mixed:" + reqs[i].String())
		e.rep.Count("mixed." + impl[i].Head())
		if model != impl[i].String() {
			d := descr[i]
			d["implementation"] = impl[i].String()
			d["model"] = model
			d["broken"] = "correspondence C12 (command line through the whole configuration stage): outcome of one converter"
			e.rep.Violation("", d, false)
		}
	}
	return nil
}
