package main

import (
	"fmt"
	"os"
	"path/filepath"
	"sort"
	"strings"
	"time"

	"gvh/internal/scratch"
)

// Histories in which the output locations already hold a BYTE-LEVEL NEAR-COPY of what the run is going to emit: the
// file a user finds after an autocrlf checkout, after an editor or a formatter touched it, after a copy that kept the
// size or the time stamp, or after an older run whose result is "newer" than every source. C09: the emitted bytes are
// a function of the sources, the settings and the CLI options only, so after the run every output location holds the
// bytes of the clean-tree run, whatever near-copy was there before (a generator that tries to find out whether its
// output is "up to date" by anything weaker than byte equality leaves the near-copy in place).

const w10C09Rule = "; additionally every successful case is regenerated over byte-level NEAR-COPIES of its own clean-tree output planted at the output locations " +
	"(CRLF on all / on some lines, UTF-8 BOM, trailing blanks, leading tabs as spaces, final newline removed / doubled, same size with one other byte (current and future mtime), " +
	"stale content with mtime in the future / far past, stale content in a read-only file when running as root), compared byte-wise with the baseline"

type w10NearCopy struct {
	name string
	// edit returns the previous content of an output location, derived from the bytes the clean-tree run emits there
	edit func(clean string) string
	// mtime: offset of the modification time of the planted file from now (0 = leave it)
	mtime time.Duration
	mode  os.FileMode
	// rootOnly: the planted file cannot be written by an ordinary user, so the history is only legitimate for root
	rootOnly bool
}

func w10Stale(c string) string {
	return c + "\n\nfunc StaleHelperOfAnOlderRun() int { return 1 }\n"
}

// w10OtherByte keeps the size and changes exactly one byte (the last lower-case letter).
func w10OtherByte(c string) string {
	b := []byte(c)
	for k := len(b) - 1; k >= 0; k-- {
		if b[k] >= 'a' && b[k] <= 'z' {
			b[k] = 'a' + (b[k]-'a'+1)%26
			break
		}
	}
	return string(b)
}

func w10EachLine(c string, f func(k int, line string) string) string {
	lines := strings.Split(c, "\n")
	for k := range lines {
		if k == len(lines)-1 && lines[k] == "" {
			continue
		}
		lines[k] = f(k, lines[k])
	}
	return strings.Join(lines, "\n")
}

func w10NearCopies() []w10NearCopy {
	return []w10NearCopy{
		{name: "crlf", edit: func(c string) string { return strings.ReplaceAll(c, "\n", "\r\n") }},
		{name: "crlf-some-lines", edit: func(c string) string {
			n := 0
			return w10EachLine(c, func(k int, l string) string {
				n++
				if n%3 == 0 || k == 0 {
					return l + "\r"
				}
				return l
			})
		}},
		{name: "bom", edit: func(c string) string { return "\xef\xbb\xbf" + c }},
		{name: "trailing-blanks", edit: func(c string) string {
			return w10EachLine(c, func(k int, l string) string {
				if strings.HasSuffix(l, "{") || strings.HasSuffix(l, "}") || l == "" {
					return l + " \t"
				}
				return l
			})
		}},
		{name: "tabs-as-spaces", edit: func(c string) string {
			return w10EachLine(c, func(k int, l string) string {
				t := strings.TrimLeft(l, "\t")
				return strings.Repeat("    ", len(l)-len(t)) + t
			})
		}},
		{name: "no-final-newline", edit: func(c string) string { return strings.TrimRight(c, "\n") }},
		{name: "extra-final-newline", edit: func(c string) string { return c + "\n" }},
		{name: "same-size-other-byte", edit: w10OtherByte},
		{name: "same-size-other-byte-newer-mtime", edit: w10OtherByte, mtime: time.Hour},
		{name: "stale-newer-mtime", edit: w10Stale, mtime: 2 * time.Hour},
		{name: "stale-older-mtime", edit: w10Stale, mtime: -20 * 365 * 24 * time.Hour},
		{name: "stale-read-only", edit: w10Stale, mode: 0o444, rootOnly: true},
	}
}

// w10C09Histories regenerates one case over every near-copy history and hands the observations to add; they are compared
// with the baseline exactly like the other variants. Only cases whose clean-tree run succeeds and writes Go files take part
// (there is no output to make a near-copy of otherwise; previous outputs of failing cases are the business of the other histories).
func w10C09Histories(bin, base string, dc *detCase, tree scratch.Tree, pats []string, baseline *runObs, add func(*runObs)) error {
	if baseline == nil || baseline.Exit != 0 || baseline.Stderr == "TIMEOUT" {
		return nil
	}
	var rels []string
	for rel := range baseline.Outputs {
		if strings.HasSuffix(rel, ".go") {
			rels = append(rels, rel)
		}
	}
	if len(rels) == 0 {
		return nil
	}
	sort.Strings(rels)
	for _, nc := range w10NearCopies() {
		if nc.rootOnly && os.Geteuid() != 0 {
			continue
		}
		root := filepath.Join(base, fmt.Sprintf("d%d_near_%s", dc.ID, nc.name), "mod")
		if err := scratch.Write(root, tree); err != nil {
			return err
		}
		snap, _ := scratch.Snapshot(root)
		changed := false
		for _, rel := range rels {
			clean := baseline.Outputs[rel]
			prev := nc.edit(clean)
			if prev != clean {
				changed = true
			}
			p := filepath.Join(root, filepath.FromSlash(rel))
			if err := os.MkdirAll(filepath.Dir(p), 0o755); err != nil {
				return err
			}
			if err := os.WriteFile(p, []byte(prev), 0o644); err != nil {
				return err
			}
			if nc.mtime != 0 {
				t := time.Now().Add(nc.mtime)
				if err := os.Chtimes(p, t, t); err != nil {
					return err
				}
			}
			if nc.mode != 0 {
				if err := os.Chmod(p, nc.mode); err != nil {
					return err
				}
			}
		}
		if !changed {
			continue
		}
		args := append([]string{"gen"}, pats...)
		res := scratch.Run(bin, root, args, nil, 120*time.Second)
		o := &runObs{Variant: "over-near-copy-" + nc.name, Args: args, Exit: res.Exit, Stderr: scratch.Relativise(root, res.Stderr), Outputs: collectOutputs(root, snap)}
		if res.TimedOut {
			o.Stderr = "TIMEOUT"
		}
		add(o)
	}
	return nil
}
